From WP Require Import Base.Prelude Run.Sx Run.RunCC Run.RunSxg.
From WP Require Import Model.Http Model.Url Model.UrlRef Model.Variants Model.CertChain Model.Bundle.
Open Scope N_scope.

Definition bversion_of (s : sx) : option bversion :=
  if tag_is s "b1" then Some BV1 else if tag_is s "b2" then Some BV2 else None.
Definition bversion_sx (v : bversion) : sx := match v with BV1 => sym "b1" | BV2 => sym "b2" end.

Definition bexchange_of_sx (s : sx) : option bexchange :=
  match s with
  | SL [SB u; SZ st; h; SB body] =>
      let? h' := headers_of_sx h in
      Some {| bx_url := u; bx_status := st; bx_hdr := h'; bx_body := body |}
  | _ => None
  end.
Definition bexchange_sx (x : bexchange) : sx :=
  SL [SB (bx_url x); SZ (bx_status x); headers_sx (bx_hdr x); SB (bx_body x)].

Definition vouched_of_sx (s : sx) : option vouched :=
  match s with
  | SL [SZ a; SB sg; SB sd] => Some {| vs_authority := Z.to_N a; vs_sig := sg; vs_signed := sd |}
  | _ => None
  end.
Definition vouched_sx (v : vouched) : sx := SL [sN (vs_authority v); SB (vs_sig v); SB (vs_signed v)].

Definition sigs_of_sx (s : sx) : option (option signatures) :=
  match s with
  | SL [] => Some None
  | SL [SL auths; SL vss] =>
      let? a := omap augcert_of_sx auths in
      let? v := omap vouched_of_sx vss in
      Some (Some {| sg_auth := a; sg_vouched := v |})
  | _ => None
  end.
Definition sigs_sx (o : option signatures) : sx :=
  match o with
  | None => SL []
  | Some s => SL [SL (map augcert_sx (sg_auth s)); SL (map vouched_sx (sg_vouched s))]
  end.

(* bundle: (ver primary|() manifest|() sigs|() (exchanges...)) *)
Definition bundle_of_sx (s : sx) : option bundle :=
  match s with
  | SL [v; p; m; sg; SL xs] =>
      let? v' := bversion_of v in
      let? p' := optb_of_sx p in
      let? m' := optb_of_sx m in
      let? sg' := sigs_of_sx sg in
      let? xs' := omap bexchange_of_sx xs in
      Some {| b_ver := v'; b_primary := p'; b_manifest := m'; b_sigs := sg'; b_exchanges := xs'; b_taint := false |}
  | _ => None
  end.
Definition bundle_sx (b : bundle) : sx :=
  SL [bversion_sx (b_ver b); optb_sx (b_primary b); optb_sx (b_manifest b); sigs_sx (b_sigs b);
      SL (map bexchange_sx (b_exchanges b))].

(* bundle_write bundle : (ok bytes count) | (err count) | (panic) *)
Definition op_bundle_write (args : list sx) : sx :=
  match args with
  | b :: _ =>
      match bundle_of_sx b with
      | Some b' =>
          if b_write_taint b' then unknown_sx else
          match b_write b' with
          | Ok bs => SL [sym "ok"; SB bs; sN (lenN bs)]
          | Err => SL [sym "err"; SZ 0]
          | Panic => SL [sym "panic"]
          | Fuel => SL [sym "fuel"]
          end
      | None => bad_args
      end
  | _ => bad_args
  end.

Definition op_bundle_read (args : list sx) : sx :=
  match args with
  | [SB bs; SL tab] =>
      match b_read (x509_ok_of tab) bs with
      | Ok b => if b_taint b then unknown_sx else SL [sym "ok"; bundle_sx b]
      | r => sx_of_R bundle_sx r
      end
  | _ => bad_args
  end.

(* bundle_write_keeps_input bundle : the serializers leave their argument as it was *)
Definition op_bundle_write_keeps_input (args : list sx) : sx :=
  match args with
  | [b] =>
      match bundle_of_sx b with
      | Some b' => if b_write_taint b' then unknown_sx else
                   match b_write b' with
                   | Panic => SL [sym "panic"]
                   | r => SL [sx_bytes_R r; bundle_sx b']
                   end
      | None => bad_args
      end
  | _ => bad_args
  end.

(* bundle_read_edit bytes tab i : Read, then edit exchange i of the RESULT in place (add a
   response header, flip the first body byte); every other exchange must be unaffected. *)
Fixpoint edit_nth (i : nat) (xs : list bexchange) : list bexchange :=
  match xs, i with
  | [], _ => []
  | x :: t, O =>
      {| bx_url := bx_url x; bx_status := bx_status x;
         bx_hdr := hdr_add (bx_hdr x) (s2b "X-Verif-Edit") (s2b "1");
         bx_body := match bx_body x with c :: r => N.lxor c 1 :: r | [] => [] end |} :: t
  | x :: t, S j => x :: edit_nth j t
  end.
Definition op_bundle_read_edit (args : list sx) : sx :=
  match args with
  | [SB bs; SL tab; SZ i] =>
      match b_read (x509_ok_of tab) bs with
      | Ok b => if b_taint b then unknown_sx
                else SL [sym "ok"; bundle_sx {| b_ver := b_ver b; b_primary := b_primary b; b_manifest := b_manifest b;
                                                b_sigs := b_sigs b; b_exchanges := edit_nth (Z.to_nat i) (b_exchanges b);
                                                b_taint := false |}]
      | r => sx_of_R bundle_sx r
      end
  | _ => bad_args
  end.

(* bundle_cycle: write -> read -> write -> read -> write; the second and third
   serializations must coincide *)
Definition op_bundle_cycle (args : list sx) : sx :=
  match args with
  | [b; SL tab] =>
      match bundle_of_sx b with
      | Some b0 =>
          if b_write_taint b0 then unknown_sx else
          match b_write b0 with
          | Ok bs1 =>
              match b_read (x509_ok_of tab) bs1 with
              | Ok b1 =>
                  if b_taint b1 then unknown_sx else
                  match b_write b1 with
                  | Ok bs2 =>
                      match b_read (x509_ok_of tab) bs2 with
                      | Ok b2 =>
                          match b_write b2 with
                          | Ok bs3 => SL [sym "ok"; SB bs2; sbool (bytes_eqb bs2 bs3)]
                          | Panic => SL [sym "panic"]
                          | _ => SL [sym "err"; SZ 2]
                          end
                      | Panic => SL [sym "panic"]
                      | _ => SL [sym "readerr"; SZ 1]
                      end
                  | Panic => SL [sym "panic"]
                  | _ => SL [sym "err"; SZ 1]
                  end
              | Panic => SL [sym "panic"]
              | _ => SL [sym "readerr"; SZ 0]
              end
          | Panic => SL [sym "panic"]
          | _ => SL [sym "err"; SZ 0]
          end
      | None => bad_args
      end
  | _ => bad_args
  end.

Definition strs_of_sx (s : sx) : option (list bytes) := match s with SL l => omap as_b l | _ => None end.

(* entries_order ((variants variantkey)...) : positions of the input entries *)
Definition op_entries_order (args : list sx) : sx :=
  match omap (fun s => match s with SL [SB v; SB k] => Some (v, k) | _ => None end) args with
  | Some es =>
      let idx := combine es (map N.of_nat (seq 0 (List.length es))) in
      sx_of_R (fun l => SL (map sN l))
              (entries_in_possible_key_order (map (fun p => (fst (fst p), snd (fst p), snd p)) idx))
  | None => bad_args
  end.

(* variants_ops variants-string (key...) index *)
Definition op_variants (args : list sx) : sx :=
  match args with
  | [SB vs; key; SZ idx] =>
      match strs_of_sx key with
      | Some k =>
          match parse_list_of_string_lists vs with
          | Ok v =>
              SL [sym "ok"; SL (map (fun l => SL (map SB l)) v);
                  sx_of_R sN (num_possible_keys v);
                  (match index_in_possible_keys v k with Some i => SZ (Z.of_N i) | None => SZ (-1) end);
                  (* possibleKeyAt is only called with an index below the number of keys *)
                  (match num_possible_keys v with
                   | Ok n => if (0 <=? idx)%Z && (Z.to_N idx <? n)
                             then sx_opt (fun l => SL (map SB l)) (possible_key_at v (Z.to_N idx))
                             else SL [sym "skipped"]
                   | _ => SL [sym "skipped"] end)]
          | _ => SL [sym "err"]
          end
      | None => bad_args
      end
  | _ => bad_args
  end.

Definition op_urlref (args : list sx) : sx :=
  match args with
  | [SB u] =>
      match url_ref u with
      | RErr => SL [sym "err"]
      | ROk a f us => SL [sym "ok"; sbool a; sbool f; sbool us; SZ 1]
      | RUnknown => unknown_sx
      end
  | _ => bad_args
  end.

(* cw_writes (chunks) budget|-1 mode : CountingWriter.Write sequence against a
   faulting destination: (accepted count ok) *)
Definition dest_of (budget : Z) (mode : Z) : dest :=
  {| d_acc := []; d_budget := if (budget <? 0)%Z then None else Some (Z.to_N budget);
     (* 0: a failing Write accepts nothing; 1: it accepts what fits and reports the error; 2: it accepts
        what fits and reports NO error (ReadFrom must answer io.ErrShortWrite); 3: as 0, behind a
        destination that is itself an io.ReaderFrom (ReadFrom delegates to it) *)
     d_mode := if ((mode =? 0) || (mode =? 3))%Z then ErrOnly else ShortThenErr |}.
Definition op_cw_writes (args : list sx) : sx :=
  match args with
  | [SL cs; SZ budget; SZ mode] =>
      match omap as_b cs with
      | Some chunks =>
          let '(d, n, ok) := run_writes chunks (dest_of budget mode) 0 in
          SL [SB (d_acc d); sN n; sbool ok]
      | None => bad_args
      end
  | _ => bad_args
  end.

(* cw_readfrom (chunks) budget mode srcerr : the copy loop of CountingWriter.ReadFrom; one Write per
   non-empty chunk; the source error is reported only if every write succeeded *)
(* ReadFrom reads into a 32 KiB buffer: a longer source chunk arrives in pieces *)
Fixpoint chop32k (fuel : nat) (c : bytes) : list bytes :=
  match fuel with
  | O => [c]
  | S f => match splitN c 32768 with
           | Some (a, b) => match b with [] => [a] | _ => a :: chop32k f b end
           | None => [c]
           end
  end.
Definition op_cw_readfrom (args : list sx) : sx :=
  match args with
  | [SL cs; SZ budget; SZ mode; SZ srcerr] =>
      match omap as_b cs with
      | Some chunks =>
          let '(d, n, ok) := run_writes (flat_map (fun c => chop32k (S (N.to_nat (lenN c / 32768))) c)
                                                   (filter (fun c => negb (match c with [] => true | _ => false end)) chunks))
                                        (dest_of budget mode) 0 in
          SL [SB (d_acc d); sN n; sN n; sbool (ok && negb (srcerr =? 1)%Z)]   (* 1: source error; 2: data together with EOF *)
      | None => bad_args
      end
  | _ => bad_args
  end.

(* bver_parse s : version.Parse accepts exactly "b1" and "b2", as spelled *)
Definition op_bver_parse (args : list sx) : sx :=
  match args with
  | [SB s] => if bytes_eqb s (s2b "b1") || bytes_eqb s (s2b "b2") then SL [sym "ok"; SB s] else SL [sym "bad"]
  | _ => bad_args
  end.

Definition dispatch_bundle (op : bytes) (args : list sx) : option sx :=
  if bytes_eqb op (s2b "bver_parse") then Some (op_bver_parse args) else
  if bytes_eqb op (s2b "bundle_write") then Some (op_bundle_write args)
  else if bytes_eqb op (s2b "bundle_read") then Some (op_bundle_read args)
  else if bytes_eqb op (s2b "bundle_read_edit") then Some (op_bundle_read_edit args)
  else if bytes_eqb op (s2b "bundle_write_keeps_input") then Some (op_bundle_write_keeps_input args)
  else if bytes_eqb op (s2b "bundle_cycle") then Some (op_bundle_cycle args)
  else if bytes_eqb op (s2b "entries_order") then Some (op_entries_order args)
  else if bytes_eqb op (s2b "variants") then Some (op_variants args)
  else if bytes_eqb op (s2b "urlref") then Some (op_urlref args)
  else if bytes_eqb op (s2b "cw_writes") then Some (op_cw_writes args)
  else if bytes_eqb op (s2b "cw_readfrom") then Some (op_cw_readfrom args)
  else None.
