From WP Require Import Base.Prelude Base.Sha256 Base.Base64 Run.Sx Model.Mice.
Open Scope N_scope.

Definition draft_of (s : sx) : option draft :=
  if tag_is s "d02" then Some D02 else if tag_is s "d03" then Some D03 else None.

Definition op_sha256 (args : list sx) : sx :=
  match args with [SB m] => SB (sha256 m) | _ => bad_args end.

Definition op_b64 (args : list sx) : sx :=
  match args with
  | [SZ pad; SZ url; SB b] =>
      let p := negb (pad =? 0)%Z in let u := negb (url =? 0)%Z in
      SL [SB (b64_encode p u b); sx_opt SB (b64_decode p u b)]
  | _ => bad_args
  end.

Definition op_mi_enc (args : list sx) : sx :=
  match args with
  | [d; SZ rs; SB payload] =>
      match draft_of d with
      | Some d => sx_of_R (fun p => SL [SB (fst p); SB (snd p)]) (encode sha256 d (Z.to_N rs) payload)
      | None => bad_args
      end
  | _ => bad_args
  end.

Definition sx_rstat (s : rstat) : sx :=
  match s with ROk => sym "more" | REOF => sym "eof" | RErr => sym "err" end.

(* cycle through the destination sizes until a non-ok status *)
Fixpoint read_cyc (fuel : nat) (s : dec) (cur all : list N) (acc : bytes) : bytes * rstat :=
  match fuel with
  | O => (acc, ROk)
  | S f =>
      match cur with
      | [] => match all with [] => (acc, ROk) | _ => read_cyc f s all all acc end
      | k :: t =>
          let '(s', out, st) := read sha256 s k in
          match st with
          | ROk => read_cyc f s' t all (acc ++ out)
          | _ => (acc ++ out, st)
          end
      end
  end.

(* mi_dec draft stream digest maxrs (sizes) [payload-or-empty-list] *)
Definition run_mi_dec (d : draft) (stream digest : bytes) (maxrs : N) (sizes : list N) : sx :=
  match new_decoder sha256 d stream digest maxrs with
  | Ok s =>
      let '(out, st) := read_cyc (4 * S (List.length stream)) s sizes sizes [] in
      SL [sym "dec"; SB out; sx_rstat st]
  | _ => SL [sym "newerr"]
  end.

Definition op_mi_dec (args : list sx) : sx :=
  match args with
  | d :: SB stream :: SB digest :: SZ maxrs :: SL sizes :: _ =>
      match draft_of d, omap as_n sizes with
      | Some d, Some sz => run_mi_dec d stream digest (Z.to_N maxrs) sz
      | _, _ => bad_args
      end
  | _ => bad_args
  end.

(* mi_dec_retry draft stream digest maxrs (sizes) n : like mi_dec, then n more Read
   calls (64-byte buffers) on the SAME decoder after the first error / end of
   stream; each is reported as (bytes status). *)
Fixpoint read_cyc_st (fuel : nat) (s : dec) (cur all : list N) (acc : bytes) : dec * bytes * rstat :=
  match fuel with
  | O => (s, acc, ROk)
  | S f =>
      match cur with
      | [] => match all with [] => (s, acc, ROk) | _ => read_cyc_st f s all all acc end
      | k :: t =>
          let '(s', out, st) := read sha256 s k in
          match st with
          | ROk => read_cyc_st f s' t all (acc ++ out)
          | _ => (s', acc ++ out, st)
          end
      end
  end.
Fixpoint retry_reads (n : nat) (s : dec) : list sx :=
  match n with
  | O => []
  | S m => let '(s', out, st) := read sha256 s 64 in SL [SB out; sx_rstat st] :: retry_reads m s'
  end.
Definition op_mi_dec_retry (args : list sx) : sx :=
  match args with
  | [d; SB stream; SB digest; SZ maxrs; SL sizes; SZ n] =>
      match draft_of d, omap as_n sizes with
      | Some d, Some sz =>
          match new_decoder sha256 d stream digest (Z.to_N maxrs) with
          | Ok s =>
              let '(s', out, st) := read_cyc_st (4 * S (List.length stream)) s sz sz [] in
              SL [sym "dec"; SB out; sx_rstat st;
                  SL (match st with ROk => [] | _ => retry_reads (Z.to_nat n) s' end)]
          | _ => SL [sym "newerr"]
          end
      | _, _ => bad_args
      end
  | _ => bad_args
  end.

Fixpoint is_prefix (a b : bytes) : bool :=
  match a, b with
  | [], _ => true
  | x :: a', y :: b' => (x =? y) && is_prefix a' b'
  | _, _ => false
  end.

(* Property-level judge for mi_dec (C15): on a clean end of stream the output
   must be exactly the model's; on an error the implementation must report an
   error too and may have released only a prefix of what the model released
   (everything the model releases is authenticated by the digest). *)
(* reader kind "ioerr": the source delivers [stream] and then fails with an I/O error that is not
   end-of-file: the model's failing-source decoder (new_decoder_f / read_f) says exactly what is
   released and that the last status is an error (Proofs/MiceSourceFault.v: never a clean end,
   never more than the plain decoder releases for these bytes). *)
Definition is_ioerr (args : list sx) : bool :=
  match args with [_; _; _; _; _; k] => tag_is k "ioerr" | _ => false end.
Definition op_mi_dec_ioerr (args : list sx) : sx :=
  match args with
  | d :: SB stream :: SB digest :: SZ maxrs :: SL sizes :: _ =>
      match draft_of d, omap as_n sizes with
      | Some d, Some sz =>
          match new_decoder_f sha256 d stream digest (Z.to_N maxrs) with
          | Ok s =>
              let '(out, st) := read_trace_f sha256 (4 * S (List.length stream)) s sz sz [] in
              SL [sym "dec"; SB out; sx_rstat st]
          | _ => SL [sym "newerr"]
          end
      | _, _ => bad_args
      end
  | _ => bad_args
  end.
Definition judge_mi_dec (args : list sx) (impl : sx) : bool :=
  let m := op_mi_dec args in
  if is_ioerr args then sx_eqb (op_mi_dec_ioerr args) impl
  else
  match m, impl with
  | SL [t; SB mo; ms], SL [t'; SB io; is] =>
      if tag_is ms "err" then tag_is t' "dec" && tag_is is "err" && is_prefix io mo
      else sx_eqb m impl
  | _, _ => sx_eqb m impl
  end.

(* mi_interleave d streamA digestA streamB digestB k : decoder A delivers k bytes,
   then decoder B is created and drained, then A is drained.  Decoders are
   independent objects: the model decodes each stream on its own. *)
Definition op_mi_interleave (args : list sx) : sx :=
  match args with
  | [d; SB sa; SB da; SB sb; SB db; SZ k] =>
      match draft_of d with
      | Some d' =>
          let kk := Z.to_N k in
          SL [run_mi_dec d' sa da 16384 [kk; 1000000]; run_mi_dec d' sb db 16384 [1000000]]
      | None => bad_args
      end
  | _ => bad_args
  end.

(* mi_new_consumed d stream digest maxrs : NewDecoder on a plain source takes the 8-byte record size and nothing
   more (whether it then accepts or refuses the stream), and nothing at all when the digest does not parse *)
Definition op_mi_new_consumed (args : list sx) : sx :=
  match args with
  | [d; SB stream; SB digest; SZ maxrs] =>
      match draft_of d with
      | Some d' =>
          let tag := match new_decoder sha256 d' stream digest (Z.to_N maxrs) with Ok _ => sym "ok" | _ => sym "err" end in
          match parse_digest_header d' digest with
          | Ok _ => SL [tag; sN (N.min 8 (lenN stream))]
          | _ => SL [tag; sN 0]
          end
      | None => bad_args
      end
  | _ => bad_args
  end.

Definition dispatch_mice (op : bytes) (args : list sx) : option sx :=
  if bytes_eqb op (s2b "sha256") then Some (op_sha256 args)
  else if bytes_eqb op (s2b "b64") then Some (op_b64 args)
  else if bytes_eqb op (s2b "mi_enc") then Some (op_mi_enc args)
  else if bytes_eqb op (s2b "mi_dec") then Some (if is_ioerr args then op_mi_dec_ioerr args else op_mi_dec args)
  else if bytes_eqb op (s2b "mi_new_consumed") then Some (op_mi_new_consumed args)
  else if bytes_eqb op (s2b "mi_interleave") then Some (op_mi_interleave args)
  else if bytes_eqb op (s2b "mi_dec_retry") then Some (op_mi_dec_retry args)
  else None.
