From WP Require Import Base.Prelude Run.Sx Model.CertChain.
Open Scope N_scope.

Definition optb_of_sx (s : sx) : option (option bytes) :=
  match s with
  | SB b => Some (Some b)
  | SL [] => Some None
  | _ => None
  end.
Definition optb_sx (o : option bytes) : sx := match o with Some b => SB b | None => SL [] end.

Definition augcert_of_sx (s : sx) : option augcert :=
  match s with
  | SL [SB der; o; c] =>
      let? o' := optb_of_sx o in let? c' := optb_of_sx c in
      Some {| ac_cert := der; ac_ocsp := o'; ac_sct := c' |}
  | _ => None
  end.
Definition augcert_sx (a : augcert) : sx := SL [SB (ac_cert a); optb_sx (ac_ocsp a); optb_sx (ac_sct a)].

Definition op_cc_write (args : list sx) : sx :=
  match omap augcert_of_sx args with
  | Some c => sx_bytes_R (cc_write c)
  | None => bad_args
  end.

(* cc_write_history (items) idx field : Write, replace one blob by its complement (same length), Write again *)
Definition flip_bytes (b : bytes) : bytes := map (fun c => N.lxor c 255) b.
Fixpoint edit_blob (i : nat) (ocsp : bool) (c : list augcert) : list augcert :=
  match c, i with
  | [], _ => []
  | a :: t, O =>
      (if ocsp then {| ac_cert := ac_cert a; ac_ocsp := option_map flip_bytes (ac_ocsp a); ac_sct := ac_sct a |}
       else {| ac_cert := ac_cert a; ac_ocsp := ac_ocsp a; ac_sct := option_map flip_bytes (ac_sct a) |}) :: t
  | a :: t, S j => a :: edit_blob j ocsp t
  end.
Definition op_cc_write_history (args : list sx) : sx :=
  match args with
  | [SL items; SZ i; f] =>
      match omap augcert_of_sx items with
      | Some c =>
          let c' := if tag_is f "ocsp" then edit_blob (Z.to_nat i) true c
                    else if tag_is f "sct" then edit_blob (Z.to_nat i) false c else c in
          SL [sx_bytes_R (cc_write c); sx_bytes_R (cc_write c')]
      | None => bad_args
      end
  | _ => bad_args
  end.

Definition x509_ok_of (tab : list sx) (der : bytes) : bool :=
  existsb (fun s => match s with SL [SB d; SZ ok] => bytes_eqb d der && negb (ok =? 0)%Z | _ => false end) tab.

Definition op_cc_read (args : list sx) : sx :=
  match args with
  | [SB bs; SL tab] => sx_of_R (fun c => SL (map augcert_sx c)) (cc_read (x509_ok_of tab) bs)
  | _ => bad_args
  end.

Definition op_sct_list (args : list sx) : sx :=
  match omap as_b args with
  | Some l => sx_bytes_R (serialize_sct_list l)
  | None => bad_args
  end.

Definition dispatch_cc (op : bytes) (args : list sx) : option sx :=
  if bytes_eqb op (s2b "cc_write") then Some (op_cc_write args)
  else if bytes_eqb op (s2b "cc_read") then Some (op_cc_read args)
  else if bytes_eqb op (s2b "sct_list") then Some (op_sct_list args)
  else if bytes_eqb op (s2b "cc_write_history") then Some (op_cc_write_history args)
  else None.
