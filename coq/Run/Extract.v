From Coq Require Extraction.
From Coq Require ExtrOcamlBasic.
From WP Require Import Base.Prelude Run.Dispatch.
Extraction Language OCaml.
Extraction "model.ml" dispatch judge.
