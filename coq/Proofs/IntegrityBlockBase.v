(* Proofs/IntegrityBlockBase.v - C07, part 1: the signature-attributes map and
   the data-to-be-signed of Model/IntegrityBlock.v.
   - be 8 (w64 n) = be 8 n : the uint64 conversion of a length never matters
     for the eight bytes written;
   - length-prefixed fields parse uniquely (lengths < 2^64);
   - attrs_cbor is independent of the order of the association list, emits the
     canonical (sorted by encoded key) map, and is injective up to order;
   - data_to_be_signed is the three length-prefixed fields and is injective. *)
From Coq Require Import Lia ZifyN ZifyNat ZifyBool Permutation Sorted.
From WP Require Import Base.Prelude Model.Cbor Model.Det Model.IntegrityBlock.
From WP Require Import Spec.Cbor.
From WP Require Import Proofs.BaseLemmas Proofs.CborHead Proofs.CborMap Proofs.CborUtf8.
Ltac Zify.zify_post_hook ::= Z.div_mod_to_equations.
Open Scope N_scope.

(* ---- generic list facts -------------------------------------------------- *)
Lemma app_inv_lenN {A} (a : list A) : forall a' b b',
  lenN a = lenN a' -> a ++ b = a' ++ b' -> a = a' /\ b = b'.
Proof.
  induction a as [|x a IH]; intros [|y a'] b b' HL HE; cbn [lenN] in HL; try lia.
  - split; [reflexivity|exact HE].
  - cbn [app] in HE. inversion HE as [[Hx Ht]]. subst y.
    assert (HL' : lenN a = lenN a') by lia.
    destruct (IH a' b b' HL' Ht) as [E1 E2]. subst. split; reflexivity.
Qed.

Lemma forallb_perm {A} (f : A -> bool) (l l' : list A) :
  Permutation l l' -> forallb f l = forallb f l'.
Proof.
  induction 1 as [|x l l' HP IH|x y l|l l' l'' HP1 IH1 HP2 IH2]; cbn [forallb].
  - reflexivity.
  - rewrite IH. reflexivity.
  - destruct (f x), (f y); reflexivity.
  - rewrite IH1. exact IH2.
Qed.

Lemma StronglySorted_map_inv {A B} (f : A -> B) (R : B -> B -> Prop) (l : list A) :
  StronglySorted R (map f l) -> StronglySorted (fun a b => R (f a) (f b)) l.
Proof.
  induction l as [|x t IH]; cbn [map]; intros HS; [constructor|].
  apply StronglySorted_inv in HS. destruct HS as [HS HF].
  constructor; [apply IH; exact HS|].
  rewrite Forall_forall in *. intros y Hy. apply HF. apply in_map. exact Hy.
Qed.

Lemma flat_map_map {A B C} (f : A -> B) (g : B -> list C) (l : list A) :
  flat_map g (map f l) = flat_map (fun x => g (f x)) l.
Proof. induction l as [|x t IH]; cbn [map flat_map]; [reflexivity|]. rewrite IH. reflexivity. Qed.

(* ---- big-endian fields --------------------------------------------------- *)
Lemma be_mod_pow (k : nat) : forall n, be k (n mod 256 ^ N.of_nat k) = be k n.
Proof.
  induction k as [|k IH]; intros n; [reflexivity|].
  rewrite !CborHead.be_snoc. rewrite Nat2N.inj_succ, N.pow_succ_r'.
  assert (Hc : 256 ^ N.of_nat k <> 0) by (apply N.pow_nonzero; discriminate).
  remember (256 ^ N.of_nat k) as c eqn:Ec.
  rewrite N.mod_mul_r by (discriminate || exact Hc).
  f_equal.
  - rewrite <- (IH (n / 256)). f_equal.
    remember ((n / 256) mod c) as X eqn:EX. clear EX IH Ec. lia.
  - f_equal. remember ((n / 256) mod c) as X eqn:EX. clear EX IH Ec. lia.
Qed.

(* uint64(len(x)) written big-endian: the conversion is invisible *)
Lemma be8_w64 (n : N) : be 8 (w64 n) = be 8 n.
Proof. unfold w64. change two64 with (256 ^ N.of_nat 8). apply be_mod_pow. Qed.

Lemma be8_inj (n m : N) : n < two64 -> m < two64 -> be 8 n = be 8 m -> n = m.
Proof.
  intros Hn Hm HE.
  rewrite <- (unbe_be_small 8 n), <- (unbe_be_small 8 m) by assumption.
  rewrite HE. reflexivity.
Qed.

(* a 64-bit length prefix delimits its field *)
Lemma len_prefixed_inj (x x' r r' : bytes) :
  lenN x < two64 -> lenN x' < two64 ->
  be 8 (lenN x) ++ x ++ r = be 8 (lenN x') ++ x' ++ r' -> x = x' /\ r = r'.
Proof.
  intros Hx Hx' HE.
  apply app_inv_lenN in HE; [|rewrite !be_lenN; reflexivity].
  destruct HE as [HL HR]. apply be8_inj in HL; [|assumption|assumption].
  apply app_inv_lenN in HR; [exact HR|exact HL].
Qed.

(* ---- CBOR strings parse uniquely ----------------------------------------- *)
Lemma MText_const : major_const MText. Proof. split; reflexivity. Qed.
Lemma MBytes_const : major_const MBytes. Proof. split; reflexivity. Qed.
Lemma MMap_const : major_const MMap. Proof. split; reflexivity. Qed.
Lemma MArray_const : major_const TArray. Proof. split; reflexivity. Qed.

Lemma typed_uint_inj (t n n' : N) (r r' : bytes) :
  major_const t -> n < two64 -> n' < two64 ->
  typed_uint t n ++ r = typed_uint t n' ++ r' -> n = n' /\ r = r'.
Proof.
  intros Ht Hn Hn' HE.
  pose proof (head_roundtrip_shead t n r Ht Hn) as H1.
  pose proof (head_roundtrip_shead t n' r' Ht Hn') as H2.
  rewrite HE in H1. rewrite H1 in H2. inversion H2. split; reflexivity.
Qed.

Lemma enc_bytes_of_inj (t : N) (s s' r r' : bytes) :
  major_const t -> lenN s < two64 -> lenN s' < two64 ->
  enc_bytes_of t s ++ r = enc_bytes_of t s' ++ r' -> s = s' /\ r = r'.
Proof.
  intros Ht Hs Hs' HE. unfold enc_bytes_of in HE. rewrite <- !app_assoc in HE.
  apply typed_uint_inj in HE; [|assumption|assumption|assumption].
  destruct HE as [HL HR]. apply app_inv_lenN in HR; [exact HR|exact HL].
Qed.

(* ---- the attributes map --------------------------------------------------- *)
Definition attr_entry (kv : bytes * bytes) : bytes * bytes :=
  (enc_bytes_of MText (fst kv), enc_bytes (snd kv)).
Definition attr_entry_bytes (kv : bytes * bytes) : bytes :=
  enc_bytes_of MText (fst kv) ++ enc_bytes (snd kv).
Definition keys_utf8 (a : attrs) : bool := forallb (fun kv => utf8_valid (fst kv)) a.

Lemma attrs_cbor_unfold (a : attrs) :
  attrs_cbor a = if keys_utf8 a then enc_map (map attr_entry a) else Err.
Proof. unfold attrs_cbor, keys_utf8. destruct (forallb _ a); reflexivity. Qed.

Lemma attrs_cbor_ok_iff (a : attrs) (ab : bytes) :
  attrs_cbor a = Ok ab <-> keys_utf8 a = true /\ enc_map (map attr_entry a) = Ok ab.
Proof.
  rewrite attrs_cbor_unfold. destruct (keys_utf8 a); split.
  - intros H. split; [reflexivity|exact H].
  - intros [_ H]. exact H.
  - discriminate.
  - intros [H _]. discriminate.
Qed.

(* only Ok or Err: encoding the attributes never panics *)
Lemma attrs_cbor_ok_or_err (a : attrs) :
  attrs_cbor a = Err \/ exists ab, attrs_cbor a = Ok ab.
Proof.
  rewrite attrs_cbor_unfold. destruct (keys_utf8 a); [apply enc_map_ok_or_err|left; reflexivity].
Qed.

Theorem attrs_cbor_perm (a a' : attrs) :
  Permutation a a' -> attrs_cbor a = attrs_cbor a'.
Proof.
  intros HP. rewrite !attrs_cbor_unfold. unfold keys_utf8.
  rewrite (forallb_perm _ _ _ HP).
  destruct (forallb _ a'); [|reflexivity].
  apply enc_map_perm. apply Permutation_map. exact HP.
Qed.

Lemma enc_map_nodup (es : list (bytes * bytes)) (out : bytes) :
  enc_map es = Ok out -> NoDup (map fst es).
Proof.
  unfold enc_map. cbv zeta.
  destruct (adjacent_dup (sort_entries es)) eqn:Hd; [discriminate|].
  intros _. apply sort_nodup_iff. exact Hd.
Qed.

Lemma attrs_keys_nodup (a : attrs) (ab : bytes) :
  attrs_cbor a = Ok ab -> NoDup (map fst a).
Proof.
  intros H. apply attrs_cbor_ok_iff in H. destruct H as [_ H].
  apply enc_map_nodup in H. rewrite map_map in H.
  change (map (fun x => fst (attr_entry x)) a)
    with (map (fun x : bytes * bytes => enc_bytes_of MText (fst x)) a) in H.
  rewrite <- (map_map fst (enc_bytes_of MText)) in H.
  apply NoDup_map_inv in H. exact H.
Qed.

(* the emitted map: header with the number of attributes, then the entries
   text(key) ++ bytes(value) in strictly ascending order of the encoded key *)
Theorem attrs_cbor_sorted (a : attrs) (ab : bytes) :
  attrs_cbor a = Ok ab ->
  exists s, Permutation s a /\
    StronglySorted (fun x y => blt (enc_bytes_of MText (fst x)) (enc_bytes_of MText (fst y))) s /\
    ab = enc_map_header (lenN a) ++ flat_map attr_entry_bytes s.
Proof.
  intros H. apply attrs_cbor_ok_iff in H. destruct H as [_ H].
  apply enc_map_sorted in H. destruct H as [s0 [HP [HS HE]]].
  apply Permutation_map_inv in HP. destruct HP as [s [Es HP]].
  subst s0. exists s. split; [apply Permutation_sym; exact HP|]. split.
  - apply StronglySorted_map_inv in HS. exact HS.
  - rewrite lenN_map in HE. rewrite flat_map_map in HE. exact HE.
Qed.

Definition attrs_small (a : attrs) : Prop :=
  lenN a < two64 /\ Forall (fun kv => lenN (fst kv) < two64 /\ lenN (snd kv) < two64) a.

Lemma attrs_small_perm (a a' : attrs) : Permutation a a' -> attrs_small a -> attrs_small a'.
Proof.
  intros HP [H1 H2]. split; [rewrite <- (lenN_perm _ _ HP); exact H1|].
  eapply Permutation_Forall; eassumption.
Qed.

Lemma attr_entries_inj (s : attrs) : forall s' r r',
  lenN s = lenN s' ->
  Forall (fun kv => lenN (fst kv) < two64 /\ lenN (snd kv) < two64) s ->
  Forall (fun kv => lenN (fst kv) < two64 /\ lenN (snd kv) < two64) s' ->
  flat_map attr_entry_bytes s ++ r = flat_map attr_entry_bytes s' ++ r' -> s = s' /\ r = r'.
Proof.
  induction s as [|[k v] s IH]; intros [|[k' v'] s'] r r' HL HF HF' HE;
    cbn [lenN] in HL; try lia.
  - split; [reflexivity|exact HE].
  - cbn [flat_map] in HE. unfold attr_entry_bytes at 1 3 in HE. cbn [fst snd] in HE.
    rewrite <- !app_assoc in HE.
    inversion HF as [|x1 l1 [Hk Hv] HF1]; subst.
    inversion HF' as [|x2 l2 [Hk' Hv'] HF2]; subst. cbn [fst snd] in *.
    apply enc_bytes_of_inj in HE; [|exact MText_const|assumption|assumption].
    destruct HE as [Ek HE]. unfold enc_bytes in HE.
    apply enc_bytes_of_inj in HE; [|exact MBytes_const|assumption|assumption].
    destruct HE as [Ev HE].
    assert (HL' : lenN s = lenN s') by lia.
    destruct (IH s' r r' HL' HF1 HF2 HE) as [Es Er]. subst. split; reflexivity.
Qed.

(* the canonical encoding determines the map (as a set of pairs) *)
Theorem attrs_cbor_injective (a a' : attrs) (ab : bytes) :
  attrs_small a -> attrs_small a' ->
  attrs_cbor a = Ok ab -> attrs_cbor a' = Ok ab -> Permutation a a'.
Proof.
  intros Sa Sa' H H'.
  destruct (attrs_cbor_sorted a ab H) as [s [HP [_ HE]]].
  destruct (attrs_cbor_sorted a' ab H') as [s' [HP' [_ HE']]].
  destruct (attrs_small_perm _ _ (Permutation_sym HP) Sa) as [_ Fs].
  destruct (attrs_small_perm _ _ (Permutation_sym HP') Sa') as [_ Fs'].
  destruct Sa as [La _], Sa' as [La' _].
  rewrite HE in HE'. unfold enc_map_header in HE'.
  apply typed_uint_inj in HE'; [|exact MMap_const|assumption|assumption].
  destruct HE' as [EL EF].
  assert (HL : lenN s = lenN s').
  { rewrite (lenN_perm _ _ HP), (lenN_perm _ _ HP'). exact EL. }
  assert (EF' : flat_map attr_entry_bytes s ++ [] = flat_map attr_entry_bytes s' ++ [])
    by (rewrite !app_nil_r; exact EF).
  destruct (attr_entries_inj s s' [] [] HL Fs Fs' EF') as [Es _]. subst s'.
  eapply perm_trans; [apply Permutation_sym; exact HP|exact HP'].
Qed.

(* ---- data to be signed ----------------------------------------------------- *)
Definition dtbs_bytes (h blk ab : bytes) : bytes :=
  be 8 (lenN h) ++ h ++ be 8 (lenN blk) ++ blk ++ be 8 (lenN ab) ++ ab.

Theorem dtbs_ok_iff (h blk : bytes) (a : attrs) (d : bytes) :
  data_to_be_signed h blk a = Ok d <->
  exists ab, attrs_cbor a = Ok ab /\ d = dtbs_bytes h blk ab.
Proof.
  unfold data_to_be_signed, dtbs_bytes.
  destruct (attrs_cbor a) as [ab| | |]; cbn [bind]; rewrite ?be8_w64; split.
  - intros H. exists ab. split; [reflexivity|]. injection H as H. symmetry. exact H.
  - intros [ab' [H1 H2]]. injection H1 as H1. subst. reflexivity.
  - discriminate.
  - intros [ab' [H1 _]]. discriminate.
  - discriminate.
  - intros [ab' [H1 _]]. discriminate.
  - discriminate.
  - intros [ab' [H1 _]]. discriminate.
Qed.

Lemma dtbs_ok_or_err (h blk : bytes) (a : attrs) :
  data_to_be_signed h blk a = Err \/ exists d, data_to_be_signed h blk a = Ok d.
Proof.
  unfold data_to_be_signed. destruct (attrs_cbor_ok_or_err a) as [E|[ab E]]; rewrite E; cbn [bind].
  - left. reflexivity.
  - right. eexists. reflexivity.
Qed.

Theorem dtbs_bytes_injective (h blk ab h' blk' ab' : bytes) :
  lenN h < two64 -> lenN h' < two64 -> lenN blk < two64 -> lenN blk' < two64 ->
  dtbs_bytes h blk ab = dtbs_bytes h' blk' ab' -> h = h' /\ blk = blk' /\ ab = ab'.
Proof.
  intros Hh Hh' Hb Hb' HE. unfold dtbs_bytes in HE.
  apply len_prefixed_inj in HE; [|assumption|assumption]. destruct HE as [E1 HE].
  apply len_prefixed_inj in HE; [|assumption|assumption]. destruct HE as [E2 HE].
  apply app_inv_lenN in HE; [|rewrite !be_lenN; reflexivity]. destruct HE as [_ E3].
  auto.
Qed.

Theorem dtbs_injective (h blk : bytes) (a : attrs) (h' blk' : bytes) (a' : attrs) (d : bytes) :
  lenN h < two64 -> lenN h' < two64 -> lenN blk < two64 -> lenN blk' < two64 ->
  attrs_small a -> attrs_small a' ->
  data_to_be_signed h blk a = Ok d -> data_to_be_signed h' blk' a' = Ok d ->
  h = h' /\ blk = blk' /\ Permutation a a' /\ NoDup (map fst a).
Proof.
  intros Hh Hh' Hb Hb' Sa Sa' H H'.
  apply dtbs_ok_iff in H. destruct H as [ab [Ha Ed]].
  apply dtbs_ok_iff in H'. destruct H' as [ab' [Ha' Ed']].
  rewrite Ed in Ed'.
  apply dtbs_bytes_injective in Ed'; try assumption.
  destruct Ed' as [E1 [E2 E3]]. subst ab'.
  split; [exact E1|]. split; [exact E2|]. split.
  - eapply attrs_cbor_injective; eassumption.
  - eapply attrs_keys_nodup; eassumption.
Qed.
