(* C15, a source that FAILS (an I/O error other than io.EOF) after delivering
   [stream]: [new_decoder_f], [read_next_record_f], [read_f], [read_trace_f]
   of Model/Mice.v.

   What is shown:
   1. [read_f] is a conservative extension of [read]: the two agree unless the
      decoder is "starved" (nothing pending, a proof still expected, fewer than
      d_rs + 32 bytes left), and in that case [read_f] returns RErr, delivers
      nothing and only drains the input.
   2. A failing source is never mistaken for a clean end: from a state that
      still expects a proof (every state returned by [new_decoder_f]) no call
      returns REOF and the proof stays expected; NewDecoder on fewer than 8
      bytes fails, and where it succeeds it returns what [new_decoder] returns.
   3. Never more than with a clean end: what [read_trace_f] releases is a
      prefix of what the same calls release with [read]; hence it is committed
      by the digest in the sense of MiceCommit.v ("... \/ Collision H").
      The same for callers that go on calling Read after an error.
   4. With destination sizes >= 1 and enough fuel the history ends in RErr. *)
From Coq Require Import Lia ZifyN ZifyNat ZifyBool.
From WP Require Import Base.Prelude Base.Base64 Model.Mice Spec.Mice
  Proofs.MiceLemmas Proofs.MiceEncode Proofs.MiceRead Proofs.MiceCommit
  Proofs.MiceDecode Proofs.MiceAuth Proofs.MiceRetry Proofs.TotalityMice.
Open Scope N_scope.

Lemma splitN_enough {A} (l : list A) (n : N) :
  n <= lenN l -> exists a b, splitN l n = Some (a, b).
Proof.
  intros L. destruct (splitN l n) as [[a b]|] eqn:E; [exists a, b; reflexivity|].
  apply splitN_None in E. lia.
Qed.

(* the sizes a cycling caller passes in [fuel] steps: [cur] first, then [all]
   again and again; refilling [cur] from [all] costs one unit of fuel, exactly
   as in [read_trace_f] *)
Fixpoint cyc_sizes (fuel : nat) (cur all : list N) : list N :=
  match fuel with
  | O => []
  | S f =>
      match cur with
      | [] => match all with [] => [] | _ => cyc_sizes f all all end
      | k :: t => k :: cyc_sizes f t all
      end
  end.

(* nothing pending, a proof still expected, no full record + proof left *)
Definition starved (s : dec) : Prop :=
  d_out s = [] /\ d_next s <> None /\ lenN (d_r s) < d_rs s + 32.

(* the input consumed, everything else untouched *)
Definition drained (s : dec) : dec :=
  {| d_enc := d_enc s; d_rs := d_rs s; d_r := [];
     d_next := d_next s; d_out := d_out s |}.

Section Fault.
  Variable H : bytes -> bytes.

  (* the clean-end analogue of [read_trace_f]: same fuel, same cycling through
     the sizes, [read] in place of [read_f] *)
  Fixpoint read_trace_p (fuel : nat) (s : dec) (cur all : list N) (acc : bytes) : bytes * rstat :=
    match fuel with
    | O => (acc, ROk)
    | S f =>
        match cur with
        | [] => match all with [] => (acc, ROk) | _ => read_trace_p f s all all acc end
        | k :: t =>
            let '(s', out, st) := read H s k in
            match st with
            | ROk => read_trace_p f s' t all (acc ++ out)
            | _ => (acc ++ out, st)
            end
        end
    end.

  (* every call under the failing source, continuing past errors *)
  Fixpoint read_all_calls_f (s : dec) (sizes : list N) : list (bytes * rstat) :=
    match sizes with
    | [] => []
    | k :: t =>
        let '(s', o, st) := read_f H s k in
        (o, st) :: read_all_calls_f s' t
    end.

  (* ---- unfolding ---------------------------------------------------------- *)
  Lemma read_trace_f_S_nil f s all acc :
    read_trace_f H (S f) s [] all acc =
    match all with [] => (acc, ROk) | _ => read_trace_f H f s all all acc end.
  Proof. reflexivity. Qed.

  Lemma read_trace_f_S_cons f s k t all acc :
    read_trace_f H (S f) s (k :: t) all acc =
    match read_f H s k with
    | (s', o, st) =>
        match st with
        | ROk => read_trace_f H f s' t all (acc ++ o)
        | _ => (acc ++ o, st)
        end
    end.
  Proof. cbn [read_trace_f]. destruct (read_f H s k) as [[s' o] st]. reflexivity. Qed.

  Lemma read_trace_p_S_nil f s all acc :
    read_trace_p (S f) s [] all acc =
    match all with [] => (acc, ROk) | _ => read_trace_p f s all all acc end.
  Proof. reflexivity. Qed.

  Lemma read_trace_p_S_cons f s k t all acc :
    read_trace_p (S f) s (k :: t) all acc =
    match read H s k with
    | (s', o, st) =>
        match st with
        | ROk => read_trace_p f s' t all (acc ++ o)
        | _ => (acc ++ o, st)
        end
    end.
  Proof. cbn [read_trace_p]. destruct (read H s k) as [[s' o] st]. reflexivity. Qed.

  Lemma read_all_calls_f_cons s k t :
    read_all_calls_f s (k :: t) =
    match read_f H s k with (s', o, st) => (o, st) :: read_all_calls_f s' t end.
  Proof. cbn [read_all_calls_f]. destruct (read_f H s k) as [[s' o] st]. reflexivity. Qed.

  (* ======================================================================
     1.  conservative extension
     ====================================================================== *)
  Lemma rnr_f_agrees s proof :
    d_rs s + 32 <= lenN (d_r s) ->
    read_next_record_f H s proof = read_next_record H s proof.
  Proof.
    intros L. unfold read_next_record_f.
    destruct (splitN_enough (d_r s) (d_rs s + 32) L) as (a & b & E). rewrite E. reflexivity.
  Qed.

  Lemma rnr_f_starved s proof :
    lenN (d_r s) < d_rs s + 32 ->
    read_next_record_f H s proof = (drained s, RErr).
  Proof.
    intros L. unfold read_next_record_f. rewrite (splitN_short _ _ L). reflexivity.
  Qed.

  Theorem read_f_agrees s k :
    d_out s <> [] \/ d_next s = None \/ d_rs s + 32 <= lenN (d_r s) ->
    read_f H s k = read H s k.
  Proof.
    intros C. unfold read_f.
    destruct (d_out s) as [|b bs] eqn:Eo; [|reflexivity].
    destruct (d_next s) as [proof|] eqn:En; [|reflexivity].
    destruct C as [C|[C|C]]; [congruence|discriminate|].
    destruct (splitN_enough (d_r s) (d_rs s + 32) C) as (a & b & E). rewrite E. reflexivity.
  Qed.

  Theorem read_f_starved s k :
    starved s -> read_f H s k = (drained s, [], RErr).
  Proof.
    intros (Eo & En & L). unfold read_f. rewrite Eo.
    destruct (d_next s) as [proof|] eqn:E; [|congruence].
    rewrite (splitN_short _ _ L), (rnr_f_starved s proof L). reflexivity.
  Qed.

  (* exactly one of the two *)
  Lemma starved_dec s :
    starved s \/ (d_out s <> [] \/ d_next s = None \/ d_rs s + 32 <= lenN (d_r s)).
  Proof.
    unfold starved. destruct (d_out s) as [|b bs]; [|right; left; discriminate].
    destruct (d_next s) as [proof|]; [|right; right; left; reflexivity].
    destruct (N.lt_ge_cases (lenN (d_r s)) (d_rs s + 32)) as [L|L].
    - left. split; [reflexivity|]. split; [discriminate|exact L].
    - right. right. right. exact L.
  Qed.

  Lemma starved_excl s :
    starved s -> ~ (d_out s <> [] \/ d_next s = None \/ d_rs s + 32 <= lenN (d_r s)).
  Proof. intros (Eo & En & L) [C|[C|C]]; [contradiction|contradiction|lia]. Qed.

  Lemma read_f_cases s k :
    read_f H s k = read H s k \/ (starved s /\ read_f H s k = (drained s, [], RErr)).
  Proof.
    destruct (starved_dec s) as [S|C].
    - right. split; [exact S|exact (read_f_starved s k S)].
    - left. exact (read_f_agrees s k C).
  Qed.

  Lemma drained_starved s : starved s -> starved (drained s).
  Proof.
    intros (Eo & En & L). unfold starved, drained. cbn [d_out d_next d_r d_rs lenN].
    split; [exact Eo|]. split; [exact En|lia].
  Qed.

  (* ======================================================================
     2.  never a clean end
     ====================================================================== *)
  Lemma read_full_never_eof s k s' o st :
    d_next s <> None -> (d_out s <> [] \/ d_rs s + 32 <= lenN (d_r s)) ->
    read H s k = (s', o, st) -> st <> REOF /\ d_next s' <> None.
  Proof.
    intros En C R. rewrite read_unfold in R.
    destruct (d_out s) as [|b bs] eqn:Eo.
    - destruct C as [C|C]; [congruence|].
      destruct (d_next s) as [proof|] eqn:Ep; [|congruence].
      unfold read_next_record in R.
      destruct (splitN_enough (d_r s) (d_rs s + 32) C) as (buf & rest & E). rewrite E in R.
      destruct (validate_record H buf proof false).
      + destruct (splitN buf (d_rs s)) as [[rec np]|].
        * apply deliver_spec in R as (D0 & _ & _ & _ & D4 & _). subst st.
          split; [discriminate|]. rewrite D4. cbn [d_next]. discriminate.
        * inversion R as [[R1 R2 R3]]; subst s' o st.
          split; [discriminate|]. rewrite Ep. discriminate.
      + inversion R as [[R1 R2 R3]]; subst s' o st.
        split; [discriminate|]. cbn [d_next]. rewrite Ep. discriminate.
    - apply deliver_spec in R as (D0 & _ & _ & _ & D4 & _). subst st.
      split; [discriminate|]. rewrite D4. exact En.
  Qed.

  Theorem read_f_never_eof s k s' o st :
    d_next s <> None -> read_f H s k = (s', o, st) ->
    st <> REOF /\ d_next s' <> None.
  Proof.
    intros En R. destruct (starved_dec s) as [S|C].
    - rewrite (read_f_starved s k S) in R. inversion R as [[R1 R2 R3]].
      split; [discriminate|exact En].
    - rewrite (read_f_agrees s k C) in R.
      destruct C as [C|[C|C]].
      + exact (read_full_never_eof _ _ _ _ _ En (or_introl C) R).
      + contradiction.
      + exact (read_full_never_eof _ _ _ _ _ En (or_intror C) R).
  Qed.

  Theorem read_trace_f_never_eof : forall fuel s cur all acc out st,
    d_next s <> None -> read_trace_f H fuel s cur all acc = (out, st) -> st <> REOF.
  Proof.
    induction fuel as [|f IH]; intros s cur all acc out st En T.
    - cbn [read_trace_f] in T. inversion T. discriminate.
    - destruct cur as [|k t].
      + rewrite read_trace_f_S_nil in T. destruct all as [|k0 t0].
        * inversion T. discriminate.
        * exact (IH _ _ _ _ _ _ En T).
      + rewrite read_trace_f_S_cons in T.
        destruct (read_f H s k) as [[s1 o] st1] eqn:R.
        destruct (read_f_never_eof _ _ _ _ _ En R) as [N1 N2].
        destruct st1.
        * exact (IH _ _ _ _ _ _ N2 T).
        * congruence.
        * inversion T. discriminate.
  Qed.

  (* all calls, continuing past errors: never EOF either *)
  Theorem calls_f_never_eof : forall sizes s,
    d_next s <> None -> Forall (fun c => snd c <> REOF) (read_all_calls_f s sizes).
  Proof.
    induction sizes as [|k t IH]; intros s En; [constructor|].
    rewrite read_all_calls_f_cons. destruct (read_f H s k) as [[s1 o] st1] eqn:R.
    destruct (read_f_never_eof _ _ _ _ _ En R) as [N1 N2].
    constructor; [exact N1|exact (IH s1 N2)].
  Qed.

  (* NewDecoder on the failing source *)
  Theorem new_decoder_f_short d stream digest maxrs :
    lenN stream < 8 -> new_decoder_f H d stream digest maxrs = Err.
  Proof.
    intros L. unfold new_decoder_f.
    destruct (parse_digest_header_cases d digest) as [P|[top P]]; rewrite P; [reflexivity|].
    cbn [bind]. rewrite (splitN_short _ _ L). reflexivity.
  Qed.

  Theorem new_decoder_f_long d stream digest maxrs :
    8 <= lenN stream ->
    new_decoder_f H d stream digest maxrs = new_decoder H d stream digest maxrs.
  Proof.
    intros L. unfold new_decoder_f.
    destruct (parse_digest_header_cases d digest) as [P|[top P]].
    - unfold new_decoder. rewrite P. reflexivity.
    - rewrite P. cbn [bind].
      destruct (splitN_enough stream 8 L) as (a & b & E). rewrite E. reflexivity.
  Qed.

  Theorem new_decoder_f_bad_digest d stream digest maxrs :
    parse_digest_header d digest = Err ->
    new_decoder_f H d stream digest maxrs = Err.
  Proof. intros P. unfold new_decoder_f. rewrite P. reflexivity. Qed.

  Theorem new_decoder_f_ok d stream digest maxrs s :
    new_decoder_f H d stream digest maxrs = Ok s ->
    new_decoder H d stream digest maxrs = Ok s /\
    d_next s <> None /\ d_out s = [] /\ 8 <= lenN stream /\ 1 <= d_rs s.
  Proof.
    intros N0.
    destruct (N.lt_ge_cases (lenN stream) 8) as [L|L].
    - rewrite (new_decoder_f_short d stream digest maxrs L) in N0. discriminate.
    - rewrite (new_decoder_f_long d stream digest maxrs L) in N0.
      split; [exact N0|].
      unfold new_decoder in N0.
      destruct (parse_digest_header d digest) as [top| | |]; cbn [bind] in N0; try discriminate.
      destruct (splitN_enough stream 8 L) as (a & b & E). rewrite E in N0.
      destruct ((unbe a =? 0) || (maxrs <? unbe a)) eqn:B; [discriminate|].
      inversion N0; subst s. cbn [d_next d_out d_rs].
      split; [discriminate|]. split; [reflexivity|]. split; [exact L|].
      apply orb_false_iff in B as [B1 B2]. apply N.eqb_neq in B1. lia.
  Qed.

  (* never Panic / Fuel *)
  Theorem new_decoder_f_cases d stream digest maxrs :
    new_decoder_f H d stream digest maxrs = Err \/
    exists s, new_decoder_f H d stream digest maxrs = Ok s.
  Proof.
    destruct (N.lt_ge_cases (lenN stream) 8) as [L|L].
    - left. exact (new_decoder_f_short d stream digest maxrs L).
    - rewrite (new_decoder_f_long d stream digest maxrs L).
      assert (T := new_decoder_total H d stream digest maxrs).
      destruct (new_decoder H d stream digest maxrs) as [s| | |] eqn:E.
      + right. exists s. reflexivity.
      + left. reflexivity.
      + exfalso. destruct T as [T1 T2]. apply T1. reflexivity.
      + exfalso. destruct T as [T1 T2]. apply T2. reflexivity.
  Qed.

  Theorem decoder_f_never_eof d stream digest maxrs s0 fuel cur all acc out st :
    new_decoder_f H d stream digest maxrs = Ok s0 ->
    read_trace_f H fuel s0 cur all acc = (out, st) -> st <> REOF.
  Proof.
    intros N0 T. apply new_decoder_f_ok in N0 as (_ & En & _).
    exact (read_trace_f_never_eof _ _ _ _ _ _ _ En T).
  Qed.

  (* ======================================================================
     3.  never more than the clean-end decoder
     ====================================================================== *)
  (* the plain analogue is [read_trace] on the unrolled sizes *)
  Lemma read_trace_p_sizes : forall fuel s cur all acc,
    read_trace_p fuel s cur all acc = read_trace H s (cyc_sizes fuel cur all) acc.
  Proof.
    induction fuel as [|f IH]; intros s cur all acc; [reflexivity|].
    destruct cur as [|k t].
    - rewrite read_trace_p_S_nil. cbn [cyc_sizes]. destruct all as [|k0 t0]; [reflexivity|apply IH].
    - rewrite read_trace_p_S_cons. cbn [cyc_sizes]. rewrite read_trace_cons.
      destruct (read H s k) as [[s1 o] st1]. destruct st1; [apply IH|reflexivity|reflexivity].
  Qed.

  Lemma read_trace_extends : forall sizes s acc out st,
    read_trace H s sizes acc = (out, st) -> exists x, out = acc ++ x.
  Proof.
    induction sizes as [|k t IH]; intros s acc out st T.
    - cbn [read_trace] in T. inversion T. exists []. rewrite app_nil_r. reflexivity.
    - rewrite read_trace_cons in T. destruct (read H s k) as [[s1 o] st1].
      destruct st1.
      + destruct (IH _ _ _ _ T) as [x X]. exists (o ++ x). rewrite X, app_assoc. reflexivity.
      + inversion T. exists o. reflexivity.
      + inversion T. exists o. reflexivity.
  Qed.

  Lemma read_trace_p_extends fuel s cur all acc out st :
    read_trace_p fuel s cur all acc = (out, st) -> exists x, out = acc ++ x.
  Proof. rewrite read_trace_p_sizes. apply read_trace_extends. Qed.

  Lemma read_trace_f_extends : forall fuel s cur all acc out st,
    read_trace_f H fuel s cur all acc = (out, st) -> exists x, out = acc ++ x.
  Proof.
    induction fuel as [|f IH]; intros s cur all acc out st T.
    - cbn [read_trace_f] in T. inversion T. exists []. rewrite app_nil_r. reflexivity.
    - destruct cur as [|k t].
      + rewrite read_trace_f_S_nil in T. destruct all as [|k0 t0].
        * inversion T. exists []. rewrite app_nil_r. reflexivity.
        * exact (IH _ _ _ _ _ _ T).
      + rewrite read_trace_f_S_cons in T. destruct (read_f H s k) as [[s1 o] st1].
        destruct st1.
        * destruct (IH _ _ _ _ _ _ T) as [x X]. exists (o ++ x). rewrite X, app_assoc. reflexivity.
        * inversion T. exists o. reflexivity.
        * inversion T. exists o. reflexivity.
  Qed.

  (* MAIN prefix theorem: same state, same fuel, same sizes.  Moreover, unless
     the failing-source history ends in an error, the two histories coincide. *)
  Theorem read_trace_f_prefix : forall fuel s cur all acc outf stf outp stp,
    read_trace_f H fuel s cur all acc = (outf, stf) ->
    read_trace_p fuel s cur all acc = (outp, stp) ->
    (exists rest, outp = outf ++ rest) /\
    (stf <> RErr -> outp = outf /\ stp = stf).
  Proof.
    induction fuel as [|f IH]; intros s cur all acc outf stf outp stp Tf Tp.
    - cbn [read_trace_f] in Tf. cbn [read_trace_p] in Tp.
      inversion Tf; inversion Tp; subst.
      split; [exists []; rewrite app_nil_r; reflexivity|intros _; split; reflexivity].
    - destruct cur as [|k t].
      + rewrite read_trace_f_S_nil in Tf. rewrite read_trace_p_S_nil in Tp.
        destruct all as [|k0 t0].
        * inversion Tf; inversion Tp; subst.
          split; [exists []; rewrite app_nil_r; reflexivity|intros _; split; reflexivity].
        * exact (IH _ _ _ _ _ _ _ _ Tf Tp).
      + destruct (read_f_cases s k) as [E|[S E]].
        * rewrite read_trace_f_S_cons, E in Tf. rewrite read_trace_p_S_cons in Tp.
          destruct (read H s k) as [[s1 o] st1]. destruct st1.
          -- exact (IH _ _ _ _ _ _ _ _ Tf Tp).
          -- rewrite Tf in Tp. inversion Tp; subst.
             split; [exists []; rewrite app_nil_r; reflexivity|intros _; split; reflexivity].
          -- rewrite Tf in Tp. inversion Tp; subst.
             split; [exists []; rewrite app_nil_r; reflexivity|intros _; split; reflexivity].
        * rewrite read_trace_f_S_cons, E in Tf. inversion Tf as [[T1 T2]].
          rewrite app_nil_r. split; [|intros C; congruence].
          exact (read_trace_p_extends _ _ _ _ _ _ _ Tp).
  Qed.

  (* the same against the model's [read_trace] *)
  Corollary read_trace_f_prefix_read_trace fuel s cur all acc outf stf outp stp :
    read_trace_f H fuel s cur all acc = (outf, stf) ->
    read_trace H s (cyc_sizes fuel cur all) acc = (outp, stp) ->
    (exists rest, outp = outf ++ rest) /\
    (stf <> RErr -> outp = outf /\ stp = stf).
  Proof.
    intros Tf Tp. rewrite <- read_trace_p_sizes in Tp.
    exact (read_trace_f_prefix _ _ _ _ _ _ _ _ _ Tf Tp).
  Qed.

  (* every size list is reached by cycling: nothing is lost by the fuel/cycle
     presentation *)
  Lemma cyc_sizes_any (sizes : list N) :
    cyc_sizes (List.length sizes) sizes [] = sizes.
  Proof.
    induction sizes as [|k t IH]; [reflexivity|].
    cbn [List.length cyc_sizes]. rewrite IH. reflexivity.
  Qed.

  (* from any state satisfying the invariant of MiceCommit.v *)
  Lemma trace_f_safe recs fuel s cur all acc out st :
    SafeInv H recs s acc -> read_trace_f H fuel s cur all acc = (out, st) ->
    ((exists rest, List.concat recs = out ++ rest) /\ (st = REOF -> out = List.concat recs))
    \/ Collision H.
  Proof.
    intros Inv Tf.
    destruct (read_trace_p fuel s cur all acc) as [outp stp] eqn:Tp.
    destruct (read_trace_f_prefix _ _ _ _ _ _ _ _ _ Tf Tp) as [[rest P1] P2].
    rewrite read_trace_p_sizes in Tp.
    destruct (trace_safe H _ _ _ _ _ _ Inv Tp) as [[[rest' X1] X2]|X]; [left|right; exact X].
    split.
    - exists (rest ++ rest'). rewrite X1, P1, app_assoc. reflexivity.
    - intros E. assert (NE : st <> RErr) by (rewrite E; discriminate).
      destruct (P2 NE) as [Q1 Q2]. rewrite <- Q1. apply X2. rewrite Q2. exact E.
  Qed.

  (* MAIN: any delivered prefix [s] of any stream followed by a source failure,
     any header, any limit, any history of calls: only committed bytes, and
     never a clean end *)
  Theorem decoder_f_releases_only_committed d s dg maxrs fuel cur all recs top s0 out st :
    parse_digest_header d dg = Ok top -> Commits H top recs ->
    new_decoder_f H d s dg maxrs = Ok s0 ->
    read_trace_f H fuel s0 cur all [] = (out, st) ->
    st <> REOF /\
    ((exists rest, List.concat recs = out ++ rest) \/ Collision H).
  Proof.
    intros P C N0 T.
    split; [exact (decoder_f_never_eof _ _ _ _ _ _ _ _ _ _ _ N0 T)|].
    apply new_decoder_f_ok in N0 as (N1 & _).
    destruct (new_decoder_safe H _ _ _ _ _ _ _ P C N1) as [Inv|X]; [|right; exact X].
    destruct (trace_f_safe _ _ _ _ _ _ _ _ Inv T) as [[X _]|X]; [left; exact X|right; exact X].
  Qed.

  (* ---- callers that keep calling after the error ------------------------- *)
  (* once starved, every later call fails and hands out nothing *)
  Theorem starved_calls_f : forall sizes s,
    starved s -> read_all_calls_f s sizes = map (fun _ => ([], RErr)) sizes.
  Proof.
    induction sizes as [|k t IH]; intros s S; [reflexivity|].
    rewrite read_all_calls_f_cons, (read_f_starved s k S). cbn [map].
    rewrite (IH _ (drained_starved s S)). reflexivity.
  Qed.

  Lemma delivered_all_err (sizes : list N) :
    delivered (map (fun _ : N => (@nil N, RErr)) sizes) = [].
  Proof. induction sizes as [|k t IH]; [reflexivity|]. cbn [map]. rewrite delivered_cons. exact IH. Qed.

  Theorem calls_f_prefix : forall sizes s,
    exists rest, delivered (read_all_calls H s sizes)
                 = delivered (read_all_calls_f s sizes) ++ rest.
  Proof.
    induction sizes as [|k t IH]; intros s.
    - exists []. reflexivity.
    - destruct (read_f_cases s k) as [E|[S E]].
      + rewrite read_all_calls_f_cons, E, read_all_calls_cons.
        destruct (read H s k) as [[s1 o] st1].
        destruct (IH s1) as [rest X]. exists rest.
        rewrite !delivered_cons, X, app_assoc. reflexivity.
      + rewrite (starved_calls_f _ _ S), delivered_all_err. eexists. reflexivity.
  Qed.

  Theorem calls_f_only_committed d s dg maxrs sizes recs top s0 :
    parse_digest_header d dg = Ok top -> Commits H top recs ->
    new_decoder_f H d s dg maxrs = Ok s0 ->
    Forall (fun c => snd c <> REOF) (read_all_calls_f s0 sizes) /\
    ((exists rest, List.concat recs = delivered (read_all_calls_f s0 sizes) ++ rest)
     \/ Collision H).
  Proof.
    intros P C N0. apply new_decoder_f_ok in N0 as (N1 & En & _).
    split; [exact (calls_f_never_eof sizes s0 En)|].
    destruct (reads_after_error_only_committed H _ _ _ _ sizes _ _ _ P C N1) as [[[rest X] _]|X];
      [left|right; exact X].
    destruct (calls_f_prefix sizes s0) as [rest' Y].
    exists (rest' ++ rest). rewrite X, Y, app_assoc. reflexivity.
  Qed.

  (* [read_trace_f] is the "up to the first stop" view of [read_all_calls_f] *)
  Lemma read_trace_f_calls : forall fuel s cur all acc,
    read_trace_f H fuel s cur all acc
    = trace_of (read_all_calls_f s (cyc_sizes fuel cur all)) acc.
  Proof.
    induction fuel as [|f IH]; intros s cur all acc; [reflexivity|].
    destruct cur as [|k t].
    - rewrite read_trace_f_S_nil. cbn [cyc_sizes]. destruct all as [|k0 t0]; [reflexivity|apply IH].
    - rewrite read_trace_f_S_cons. cbn [cyc_sizes]. rewrite read_all_calls_f_cons.
      destruct (read_f H s k) as [[s1 o] st1]. cbn [trace_of].
      destruct st1; [apply IH|reflexivity|reflexivity].
  Qed.

  (* ======================================================================
     4.  progress to an error
     ====================================================================== *)
  Lemma read_f_measure s k s' o :
    1 <= k -> read_f H s k = (s', o, ROk) -> measure s' < measure s.
  Proof.
    intros K R. destruct (read_f_cases s k) as [E|[_ E]].
    - rewrite E in R. apply read_measure in R as [_ P]. exact (P K eq_refl).
    - rewrite E in R. discriminate.
  Qed.

  Lemma measure_pos s : d_next s <> None -> 1 <= measure s.
  Proof.
    intros En. unfold measure, next1. destruct (d_next s); [lia|congruence].
  Qed.

  (* each call that succeeds lowers [measure]; refilling [cur] from [all]
     costs one more unit of fuel per call *)
  Theorem read_trace_f_reaches_error (all : list N) :
    all <> [] -> Forall (fun k => 1 <= k) all ->
    forall fuel s cur acc,
      d_next s <> None -> Forall (fun k => 1 <= k) cur ->
      2 * measure s <= N.of_nat fuel + (match cur with [] => 0 | _ => 1 end) ->
      snd (read_trace_f H fuel s cur all acc) = RErr.
  Proof.
    intros NEall Fall. induction fuel as [|f IH]; intros s cur acc En Fcur M.
    - assert (P := measure_pos s En). destruct cur; lia.
    - destruct cur as [|k t].
      + rewrite read_trace_f_S_nil. destruct all as [|k0 t0] eqn:Ea; [congruence|].
        apply IH; [exact En|exact Fall|]. lia.
      + rewrite read_trace_f_S_cons.
        destruct (read_f H s k) as [[s1 o] st1] eqn:R.
        destruct (read_f_never_eof _ _ _ _ _ En R) as [N1 N2].
        inversion Fcur as [|k' t' K Ft]; subst k' t'.
        destruct st1.
        * assert (D := read_f_measure _ _ _ _ K R).
          apply IH; [exact N2|exact Ft|]. destruct t; lia.
        * congruence.
        * reflexivity.
  Qed.

  Corollary decoder_f_reaches_error d stream digest maxrs s0 fuel cur all acc :
    new_decoder_f H d stream digest maxrs = Ok s0 ->
    all <> [] -> Forall (fun k => 1 <= k) all -> Forall (fun k => 1 <= k) cur ->
    2 * lenN stream <= N.of_nat fuel ->
    snd (read_trace_f H fuel s0 cur all acc) = RErr.
  Proof.
    intros N0 NEall Fall Fcur L.
    apply new_decoder_f_ok in N0 as (N1 & En & Eo & L8 & _).
    apply (read_trace_f_reaches_error all NEall Fall); [exact En|exact Fcur|].
    apply new_decoder_inv in N1 as (_ & _ & [(hd & Es & Lh & _)|(Es & _)]).
    - unfold measure, held, next1. rewrite Eo. cbn [lenN].
      rewrite Es, lenN_app in L. destruct (d_next s0); destruct cur; lia.
    - subst stream. cbn [lenN] in L8. lia.
  Qed.

  (* enough sizes in [cur] (no refill needed): fuel > measure suffices *)
  Theorem read_trace_f_reaches_error_norefill : forall fuel s cur all acc,
    d_next s <> None -> Forall (fun k => 1 <= k) cur ->
    measure s <= N.of_nat fuel -> measure s <= lenN cur ->
    snd (read_trace_f H fuel s cur all acc) = RErr.
  Proof.
    induction fuel as [|f IH]; intros s cur all acc En Fcur M Lc.
    - assert (P := measure_pos s En). lia.
    - destruct cur as [|k t].
      + assert (P := measure_pos s En). cbn [lenN] in Lc. lia.
      + rewrite read_trace_f_S_cons.
        destruct (read_f H s k) as [[s1 o] st1] eqn:R.
        destruct (read_f_never_eof _ _ _ _ _ En R) as [N1 N2].
        inversion Fcur as [|k' t' K Ft]; subst k' t'.
        destruct st1.
        * assert (D := read_f_measure _ _ _ _ K R). rewrite lenN_cons in Lc.
          apply IH; [exact N2|exact Ft|lia|lia].
        * congruence.
        * reflexivity.
  Qed.

  (* ---- honest encoder: the header is the one produced for payload p ------ *)
  Hypothesis Hlen : forall x, List.length (H x) = 32%nat.
  Hypothesis Hwf : forall x, wfb (H x).

  Theorem decoder_f_authentic d rs p s maxrs fuel cur all s0 out st :
    1 <= rs ->
    new_decoder_f H d s (digest_header H d rs p) maxrs = Ok s0 ->
    read_trace_f H fuel s0 cur all [] = (out, st) ->
    st <> REOF /\ ((exists rest, p = out ++ rest) \/ Collision H).
  Proof.
    intros Hrs N0 T.
    destruct (digest_commits_payload H Hlen d rs p Hrs) as (recs & C & Cc).
    rewrite <- Cc.
    exact (decoder_f_releases_only_committed _ _ _ _ _ _ _ _ _ _ _ _
             (parse_digest_header_honest H Hlen Hwf d rs p) C N0 T).
  Qed.

  Theorem calls_f_authentic d rs p s maxrs sizes s0 :
    1 <= rs ->
    new_decoder_f H d s (digest_header H d rs p) maxrs = Ok s0 ->
    Forall (fun c => snd c <> REOF) (read_all_calls_f s0 sizes) /\
    ((exists rest, p = delivered (read_all_calls_f s0 sizes) ++ rest) \/ Collision H).
  Proof.
    intros Hrs N0.
    destruct (digest_commits_payload H Hlen d rs p Hrs) as (recs & C & Cc).
    rewrite <- Cc.
    exact (calls_f_only_committed _ _ _ _ sizes _ _ _
             (parse_digest_header_honest H Hlen Hwf d rs p) C N0).
  Qed.
End Fault.

(* fuel > measure is NOT enough in general: a caller cycling through a short
   size list spends one unit of fuel per refill.  measure = 4, fuel = 5, all
   sizes 1: the history runs out of fuel (ROk) after the 3 pending bytes;
   7 = 2 * 4 - 1 units are needed and enough. *)
Definition s_pending : dec :=
  {| d_enc := D03; d_rs := 4; d_r := []; d_next := Some []; d_out := [1; 2; 3] |}.
Example reaches_error_needs_double_fuel :
  measure s_pending = 4 /\
  read_trace_f (fun _ => []) 5 s_pending [1] [1] [] = ([1; 2; 3], ROk) /\
  read_trace_f (fun _ => []) 6 s_pending [1] [1] [] = ([1; 2; 3], ROk) /\
  read_trace_f (fun _ => []) 7 s_pending [1] [1] [] = ([1; 2; 3], RErr).
Proof. repeat split. Qed.
