(* Part of the tie between the Go sources and the model: constants re-generated
   from the working tree by `harness params` (Generated/Params.v) equal the ones
   the model and the theorems use.  A changed constant in /repo makes one of
   these `reflexivity` proofs fail. *)
From WP Require Import Base.Prelude Generated.Params.
From WP Require Import Model.Variants Model.Bundle Model.BundleSig.
Open Scope N_scope.

Lemma params_complete_bundle : p_translator_complete = true.
Proof. reflexivity. Qed.

(* ---- bundle (C03 C04 C05 C06) ------------------------------------------- *)
Lemma params_bundle_magic :
  p_bundle_hdr_magic_b1 = hdr_magic_b1 /\ p_bundle_hdr_magic_b2 = hdr_magic_b2 /\
  p_bundle_ver_magic_b1 = ver_magic_b1 /\ p_bundle_ver_magic_b2 = ver_magic_b2.
Proof. repeat split. Qed.
Lemma params_bundle_sig_context : p_bundle_sig_context = map sig_context [BV1; BV2].
Proof. reflexivity. Qed.
Lemma params_max_variants : p_max_variants = max_variants.
Proof. reflexivity. Qed.
Lemma params_bsig_record_size : p_bsig_max_mi_record_size = 16384.
Proof. reflexivity. Qed.

