(* Proofs/CborProgram.v - any sequence of encoder calls (maps nested to any
   depth) writes exactly the shortest-form encoding of the token list the spec
   expects, and the spec's liberal tokeniser reads that list back. *)
From Coq Require Import Lia ZifyN ZifyNat ZifyBool Permutation Sorted.
From WP Require Import Base.Prelude Model.Cbor Spec.Cbor Spec.CborProgram
  Proofs.BaseLemmas Proofs.CborHead Proofs.CborUtf8 Proofs.CborTokens Proofs.CborMap.
Open Scope N_scope.

(* ---- induction principle for the nested type item ----------------------- *)
Section ItemInd.
  Variable P : item -> Prop.
  Hypothesis HUint : forall n, P (IUint n).
  Hypothesis HInt : forall z, P (IInt z).
  Hypothesis HBytes : forall b, P (IBytes b).
  Hypothesis HText : forall b, P (IText b).
  Hypothesis HArr : forall n, P (IArr n).
  Hypothesis HBool : forall b, P (IBool b).
  Hypothesis HMap : forall es,
    Forall (fun kv => Forall P (fst kv) /\ Forall P (snd kv)) es -> P (IMap es).

  Fixpoint item_ind' (i : item) : P i :=
    match i with
    | IUint n => HUint n
    | IInt z => HInt z
    | IBytes b => HBytes b
    | IText b => HText b
    | IArr n => HArr n
    | IBool b => HBool b
    | IMap es =>
        HMap es
          ((fix go (es : list (list item * list item)) :
              Forall (fun kv => Forall P (fst kv) /\ Forall P (snd kv)) es :=
              match es with
              | [] => Forall_nil _
              | kv :: t =>
                  Forall_cons kv
                    (conj
                       ((fix gl (l : list item) : Forall P l :=
                           match l with
                           | [] => Forall_nil _
                           | i :: t => Forall_cons i (item_ind' i) (gl t)
                           end) (fst kv))
                       ((fix gl (l : list item) : Forall P l :=
                           match l with
                           | [] => Forall_nil _
                           | i :: t => Forall_cons i (item_ind' i) (gl t)
                           end) (snd kv)))
                    (go t)
              end) es)
    end.
End ItemInd.

(* ---- the model's EncodeMap branch, with the inner loops named ---------- *)
Fixpoint run_entries (es : list (list item * list item)) : R (list (bytes * bytes)) :=
  match es with
  | [] => Ok []
  | (k, v) :: t =>
      let* kb := run_items k in
      let* vb := run_items v in
      let* r := run_entries t in Ok ((kb, vb) :: r)
  end.

Lemma run_item_map (es : list (list item * list item)) :
  run_item (IMap es) = let* ents := run_entries es in enc_map ents.
Proof. reflexivity. Qed.

Lemma run_items_cons (i : item) (t : list item) :
  run_items (i :: t) = let* a := run_item i in let* b := run_items t in Ok (a ++ b).
Proof. reflexivity. Qed.

(* ---- main invariant -------------------------------------------------------- *)
Definition item_ok (i : item) : Prop :=
  wf_item i -> forall out, run_item i = Ok out ->
  out = senc_tokens (tokens_of_item i) /\ Forall tok_wf (tokens_of_item i).

Lemma items_ok (l : list item) :
  Forall item_ok l -> Forall wf_item l -> forall out, run_items l = Ok out ->
  out = senc_tokens (tokens_of l) /\ Forall tok_wf (tokens_of l).
Proof.
  induction 1 as [|i t Hi Ht IH]; intros Hwf out Hrun.
  - cbn in Hrun. inversion Hrun. split; [reflexivity|constructor].
  - inversion Hwf as [|i' t' Hwi Hwt]; subst.
    rewrite run_items_cons in Hrun.
    destruct (run_item i) as [a| | |] eqn:Ea; try discriminate.
    destruct (run_items t) as [b| | |] eqn:Eb; try discriminate.
    cbn [bind] in Hrun. inversion Hrun; subst out.
    destruct (Hi Hwi a Ea) as [E1 W1].
    destruct (IH Hwt b eq_refl) as [E2 W2].
    unfold tokens_of in *. cbn [flat_map]. split.
    + rewrite senc_tokens_app, <- E1, <- E2. reflexivity.
    + apply Forall_app. split; assumption.
Qed.

Definition enc_entry (e : list token * list token) : bytes * bytes :=
  (senc_tokens (fst e), senc_tokens (snd e)).

Lemma entries_ok (es : list (list item * list item)) :
  Forall (fun kv => Forall item_ok (fst kv) /\ Forall item_ok (snd kv)) es ->
  Forall (fun kv => Forall wf_item (fst kv) /\ Forall wf_item (snd kv)) es ->
  forall ents, run_entries es = Ok ents ->
  ents = map enc_entry (map tok_entry es) /\
  Forall (fun e => Forall tok_wf (fst e) /\ Forall tok_wf (snd e)) (map tok_entry es).
Proof.
  induction 1 as [|[k v] t [Hk Hv] Ht IH]; intros Hwf ents Hrun.
  - cbn in Hrun. inversion Hrun. split; [reflexivity|constructor].
  - inversion Hwf as [|kv' t' [Hwk Hwv] Hwt]; subst. cbn [fst snd] in *.
    cbn [run_entries] in Hrun.
    destruct (run_items k) as [kb| | |] eqn:Ek; try discriminate.
    destruct (run_items v) as [vb| | |] eqn:Ev; try discriminate.
    destruct (run_entries t) as [r| | |] eqn:Er; try discriminate.
    cbn [bind] in Hrun. inversion Hrun; subst ents.
    destruct (items_ok k Hk Hwk kb Ek) as [E1 W1].
    destruct (items_ok v Hv Hwv vb Ev) as [E2 W2].
    destruct (IH Hwt r eq_refl) as [E3 W3].
    cbn [map]. split.
    + subst kb vb r. reflexivity.
    + constructor; [split; assumption|exact W3].
Qed.

Lemma senc_tokens_flat_entries (L : list (list token * list token)) :
  senc_tokens (flat_map (fun e => fst e ++ snd e) L) =
  flat_map (fun e => fst e ++ snd e) (map enc_entry L).
Proof.
  induction L as [|e L IH]; [reflexivity|].
  cbn [flat_map map]. rewrite !senc_tokens_app, IH. reflexivity.
Qed.

Lemma sort_tok_entries (L : list (list token * list token)) :
  map enc_entry (isort tok_entry_lt L) = sort_entries (map enc_entry L).
Proof. exact (isort_map enc_entry entry_lt L). Qed.

Lemma tokens_of_item_map (es : list (list item * list item)) :
  tokens_of_item (IMap es) =
  TMap (lenN es) :: flat_map (fun e => fst e ++ snd e) (isort tok_entry_lt (map tok_entry es)).
Proof. reflexivity. Qed.

Lemma Forall_flat_entries (Q : token -> Prop) (L : list (list token * list token)) :
  Forall (fun e => Forall Q (fst e) /\ Forall Q (snd e)) L ->
  Forall Q (flat_map (fun e => fst e ++ snd e) L).
Proof.
  induction 1 as [|e L [H1 H2] HL IH]; [constructor|].
  cbn [flat_map]. apply Forall_app. split; [apply Forall_app; split; assumption|exact IH].
Qed.

Lemma item_ok_all (i : item) : item_ok i.
Proof.
  induction i as [n|z|b|b|n|b|es IH] using item_ind'; intros Hwf out Hrun;
    inversion Hwf; subst; cbn [run_item] in Hrun.
  - (* EncodeUint *)
    inversion Hrun; subst out. cbn [tokens_of_item]. rewrite senc_tokens_single. split.
    + unfold enc_uint. apply (typed_uint_senc_head TPos). split; reflexivity.
    + constructor; [split; [assumption|exact I]|constructor].
  - (* EncodeInt *)
    inversion Hrun; subst out. cbn [tokens_of_item]. rewrite senc_tokens_single. split.
    + apply enc_int_token. assumption.
    + constructor; [apply int_token_wf; assumption|constructor].
  - (* EncodeByteString *)
    inversion Hrun; subst out. cbn [tokens_of_item]. rewrite senc_tokens_single. split.
    + unfold enc_bytes, enc_bytes_of. rewrite typed_uint_senc_head by (split; reflexivity). reflexivity.
    + constructor; [split; [cbn [tok_arg]; unfold two63, two64 in *; lia|exact I]|constructor].
  - (* EncodeTextString *)
    unfold enc_text in Hrun. destruct (utf8_valid b) eqn:Eu; [|discriminate].
    inversion Hrun; subst out. cbn [tokens_of_item]. rewrite senc_tokens_single. split.
    + unfold enc_bytes_of. rewrite typed_uint_senc_head by (split; reflexivity). reflexivity.
    + constructor; [split; [cbn [tok_arg]; unfold two63, two64 in *; lia
                           |apply utf8_dfa_correct; exact Eu]|constructor].
  - (* EncodeArrayHeader *)
    inversion Hrun; subst out. cbn [tokens_of_item]. rewrite senc_tokens_single. split.
    + unfold enc_array_header. apply (typed_uint_senc_head TArray). split; reflexivity.
    + constructor; [split; [cbn [tok_arg]; unfold two63, two64 in *; lia|exact I]|constructor].
  - (* EncodeBool *)
    inversion Hrun; subst out. cbn [tokens_of_item]. rewrite senc_tokens_single. split.
    + unfold enc_bool, TOther. destruct b; reflexivity.
    + constructor; [split; [cbn [tok_arg]; destruct b; reflexivity|exact I]|constructor].
  - (* EncodeMap *)
    match goal with Hes : Forall _ es |- _ => rename Hes into Hwes end.
    change (run_item (IMap es) = Ok out) in Hrun. rewrite run_item_map in Hrun.
    destruct (run_entries es) as [ents| | |] eqn:Ee; try discriminate.
    cbn [bind] in Hrun.
    destruct (entries_ok es IH Hwes ents Ee) as [Eents Wents].
    apply enc_map_ok in Hrun. destruct Hrun as [Eout _].
    rewrite tokens_of_item_map. split.
    + subst out. unfold senc_tokens at 1. cbn [flat_map].
      fold (senc_tokens (flat_map (fun e => fst e ++ snd e)
                           (isort tok_entry_lt (map tok_entry es)))).
      rewrite senc_tokens_flat_entries, sort_tok_entries, <- Eents.
      cbn [senc_token]. unfold enc_map_header.
      rewrite typed_uint_senc_head by (split; reflexivity).
      rewrite Eents, !lenN_map. reflexivity.
    + constructor.
      * split; [cbn [tok_arg]; unfold two63, two64 in *; lia|exact I].
      * apply Forall_flat_entries.
        rewrite Forall_forall in *. intros e He. apply Wents.
        eapply Permutation_in; [apply isort_perm|exact He].
Qed.

(* ---- C11 program_tokens and companions ------------------------------------ *)
(* the bytes written are the deterministic encoding of the expected tokens *)
Theorem program_canonical (p : list item) (out : bytes) :
  wf_program p -> run_items p = Ok out ->
  out = senc_tokens (tokens_of p) /\ Forall tok_wf (tokens_of p).
Proof.
  intros Hwf Hrun. apply (items_ok p); [|exact Hwf|exact Hrun].
  apply Forall_forall. intros i _. apply item_ok_all.
Qed.

Theorem program_tokens (p : list item) (out : bytes) :
  wf_program p -> run_items p = Ok out ->
  exists toks, stokens out = Some toks /\ Forall tok_shortest toks /\
               map fst toks = tokens_of p.
Proof.
  intros Hwf Hrun. destruct (program_canonical p out Hwf Hrun) as [E W]. subst out.
  exists (map with_width (tokens_of p)).
  split; [apply stokens_senc_tokens; exact W|].
  split; [apply with_width_shortest|apply with_width_fst].
Qed.

(* only bytes are written *)
Lemma senc_head_wfb (mt n : N) : mt < 8 -> n < two64 -> wfb (senc_head mt n).
Proof.
  intros Hm Hn.
  assert (Ht : major_const (32 * mt)) by (unfold major_const; lia).
  pose proof (typed_uint_wfb (32 * mt) n Ht Hn) as H.
  rewrite typed_uint_senc_head in H by exact Ht.
  replace (32 * mt / 32) with mt in H by lia. exact H.
Qed.

(* StronglySorted pulled back along a map *)
Lemma StronglySorted_map_inv {A B} (f : A -> B) (Rb : B -> B -> Prop) (l : list A) :
  StronglySorted Rb (map f l) -> StronglySorted (fun a b => Rb (f a) (f b)) l.
Proof.
  induction l as [|x t IH]; intros H; [constructor|].
  cbn [map] in H. apply StronglySorted_inv in H. destruct H as [Hs Hall].
  constructor; [apply IH; exact Hs|].
  rewrite Forall_forall in *. intros y Hy. apply Hall. apply in_map. exact Hy.
Qed.

(* the entry order used by tokens_of for a map that the encoder accepted is
   THE strictly ascending arrangement of the supplied entries *)
Theorem tokens_of_map_sorted (es : list (list item * list item)) (out : bytes) :
  wf_item (IMap es) -> run_item (IMap es) = Ok out ->
  exists s, Permutation s (map tok_entry es) /\ StronglySorted tok_key_lt s /\
            tokens_of_item (IMap es) = TMap (lenN es) :: flat_map (fun e => fst e ++ snd e) s.
Proof.
  intros Hwf Hrun. exists (isort tok_entry_lt (map tok_entry es)).
  split; [apply isort_perm|]. split; [|apply tokens_of_item_map].
  inversion Hwf as [| | | | | |es' Hlen Hwes]; subst.
  rewrite run_item_map in Hrun.
  destruct (run_entries es) as [ents| | |] eqn:Ee; try discriminate.
  cbn [bind] in Hrun.
  assert (IH : Forall (fun kv => Forall item_ok (fst kv) /\ Forall item_ok (snd kv)) es).
  { apply Forall_forall. intros kv _. split; apply Forall_forall; intros i _; apply item_ok_all. }
  destruct (entries_ok es IH Hwes ents Ee) as [Eents _].
  apply enc_map_ok in Hrun. destruct Hrun as [_ Hs].
  rewrite Eents, <- sort_tok_entries in Hs.
  apply StronglySorted_map_inv in Hs. exact Hs.
Qed.

(* ---- the output consists of bytes ----------------------------------------- *)
Definition tok_bytes_wf (t : token) : Prop :=
  match t with TBytes b | TText b => wfb b | _ => True end.

Lemma senc_tokens_wfb (toks : list token) :
  Forall tok_wf toks -> Forall tok_bytes_wf toks -> wfb (senc_tokens toks).
Proof.
  induction 1 as [|t toks [Harg _] Hts IH]; intros Hb; [constructor|].
  inversion Hb as [|t' toks' Hbt Hbts]; subst.
  unfold senc_tokens. cbn [flat_map]. apply wfb_app. split; [|apply IH; exact Hbts].
  destruct t as [n|n|b|b|n|n|b]; cbn [senc_token tok_arg tok_bytes_wf] in *;
    try (apply senc_head_wfb; [lia|exact Harg]);
    try (apply wfb_app; split; [apply senc_head_wfb; [lia|exact Harg]|exact Hbt]).
  destruct b; repeat constructor; lia.
Qed.

Lemma tokens_bytes_wf_item (i : item) : wf_item i -> Forall tok_bytes_wf (tokens_of_item i).
Proof.
  induction i as [n|z|b|b|n|b|es IH] using item_ind'; intros Hwf;
    inversion Hwf; subst; cbn [tokens_of_item].
  - repeat constructor.
  - constructor; [|constructor]. unfold tokens_of_int. destruct (0 <=? z)%Z; exact I.
  - constructor; [cbn [tok_bytes_wf]; assumption|constructor].
  - constructor; [cbn [tok_bytes_wf]; assumption|constructor].
  - repeat constructor.
  - repeat constructor.
  - match goal with Hes : Forall _ es |- _ => rename Hes into Hwes end.
    constructor; [exact I|]. apply Forall_flat_entries.
    assert (HL : Forall (fun e => Forall tok_bytes_wf (fst e) /\ Forall tok_bytes_wf (snd e))
                   (map tok_entry es)).
    { clear Hwf. match goal with Hlen : lenN es < two63 |- _ => clear Hlen end.
      induction IH as [|[k v] t [Hk Hv] Ht IHt]; [constructor|].
      inversion Hwes as [|kv' t' [Hwk Hwv] Hwt]; subst. cbn [map fst snd] in *.
      assert (Hl : forall l, Forall (fun i => wf_item i -> Forall tok_bytes_wf (tokens_of_item i)) l ->
                             Forall wf_item l -> Forall tok_bytes_wf (tokens_of l)).
      { intros l Hl. induction Hl as [|i l' Hi Hl' IHl]; intros Hw; [constructor|].
        inversion Hw; subst. unfold tokens_of. cbn [flat_map]. apply Forall_app.
        split; [apply Hi; assumption|apply IHl; assumption]. }
      constructor; [|apply IHt; exact Hwt].
      unfold tok_entry. cbn [fst snd]. split; apply Hl; assumption. }
    rewrite Forall_forall in *. intros e He. apply HL.
    eapply Permutation_in; [apply isort_perm|exact He].
Qed.

Lemma tokens_bytes_wf (p : list item) : wf_program p -> Forall tok_bytes_wf (tokens_of p).
Proof.
  unfold tokens_of. induction 1 as [|i t Hi Ht IH]; [constructor|].
  cbn [flat_map]. apply Forall_app. split; [apply tokens_bytes_wf_item; exact Hi|exact IH].
Qed.

Theorem program_wfb (p : list item) (out : bytes) :
  wf_program p -> run_items p = Ok out -> wfb out.
Proof.
  intros Hwf Hrun. destruct (program_canonical p out Hwf Hrun) as [E W]. subst out.
  apply senc_tokens_wfb; [exact W|apply tokens_bytes_wf; exact Hwf].
Qed.
