(* Proofs/TruncationBundle.v - a written web bundle read from a source that stops
   early (C03 / C05).

   Bundle.WriteTo emits  header ++ sections ++ footer  where the footer is the
   9-byte CBOR byte string holding the total length; bundle.Read never looks at
   the footer.  With Proofs/TruncationBundleRead.v:
     - every cut before the footer (p < |bs| - 9) is REFUSED;
     - every cut inside the footer (|bs| - 9 <= p) gives exactly the full result. *)
From Coq Require Import Lia ZifyN ZifyNat ZifyBool Permutation Sorted.
From WP Require Import Base.Prelude Base.Decimal Model.Cbor Model.Http Model.UrlRef Model.Variants
  Model.CertChain Model.Bundle.
From WP Require Import Spec.Cbor Spec.Bundle Spec.BundleRead.
From WP Require Import Proofs.BaseLemmas Proofs.CborHead Proofs.CborMap Proofs.CborDecode
  Proofs.Variants Proofs.BundleWriteBasics Proofs.BundleWriteSpec Proofs.BundleWriteSig
  Proofs.BundleWriteForm Proofs.BundleWriteWF Proofs.BundleWriteCases Proofs.BundleWriteOk
  Proofs.BundleRoundtripRows Proofs.BundleRoundtripResp
  Proofs.BundleRoundtripMeta Proofs.BundleRoundtripRead Proofs.BundleRoundtripSig Proofs.BundleRoundtrip
  Proofs.BundleRoundtripNorm.
From WP Require Proofs.BundleReadBase Proofs.BundleReadLayout Proofs.TruncationBundleRead.
Open Scope N_scope.

Import BundleReadLayout.

(* ---- the header of a file with the standard layout ------------------------------------------- *)
Lemma sum_lens_sos_of (secs : list (bytes * bytes)) :
  sum_lens (sos_of secs) = lenN (List.concat (map snd secs)).
Proof.
  induction secs as [|[n b] t IH]; [reflexivity|].
  cbn [sos_of map fst snd sum_lens List.concat]. rewrite lenN_app.
  unfold sos_of in IH. rewrite IH. reflexivity.
Qed.

(* the taint flag the header leaves behind: the b1 primary URL may lie outside the
   class on which the url.Parse model is decided *)
Definition taint_of (po : option bytes) : bool :=
  match po with Some u => snd (any_url_ok u) | None => false end.

Lemma load_header_layout (v : bversion) (po : option bytes) (front : list (bytes * bytes))
      (rb footer bs : bytes) :
  let secs := front ++ [(n_responses, rb)] in
  let P := magic v ++ (match po with Some u => text_item u | None => [] end)
           ++ bstr_item (table_body secs) ++ arr_head (lenN secs) in
  bs = P ++ List.concat (map snd secs) ++ footer ->
  lenN bs < two63 ->
  (match v, po with
   | BV1, Some u => utf8_valid u = true /\ fst (any_url_ok u) = true
   | BV2, None => True
   | _, _ => False end) ->
  NoDup (map fst secs) -> Forall sec_ok secs -> lenN (table_body secs) < 8192 ->
  load_header bs = Ok (v, po, taint_of po, lenN P, sos_of secs).
Proof.
  intros secs P E L Hpo ND Fs Ltb.
  assert (Lb : lenN bs = lenN P + lenN (List.concat (map snd secs)) + lenN footer)
    by (rewrite E, !lenN_app; lia).
  assert (Lsecs : lenN secs <= lenN (table_body secs)).
  { unfold table_body. rewrite lenN_app.
    assert (G : lenN secs <= lenN (flat_map sec_enc secs)).
    { apply lenN_flat_map_ge. intros s. unfold sec_enc, text_item. cbn [senc_token]. rewrite !lenN_app.
      pose proof (senc_head_len_ge 3 (lenN (fst s))). lia. }
    unfold sec_enc in G. unfold bytes in *. lia. }
  unfold load_header.
  assert (H1 : parse_magic bs = Ok (v, (match po with Some u => text_item u | None => [] end)
                                        ++ bstr_item (table_body secs) ++ arr_head (lenN secs)
                                        ++ List.concat (map snd secs) ++ footer)).
  { rewrite E. unfold P. rewrite <- !app_assoc. apply parse_magic_ok. }
  rewrite H1. cbn [bind].
  match goal with
  | |- context [if has_primary_in_header v then ?X else ?Y] =>
      assert (H2 : (if has_primary_in_header v then X else Y)
                   = Ok (po, taint_of po, bstr_item (table_body secs) ++ arr_head (lenN secs)
                                    ++ List.concat (map snd secs) ++ footer))
  end.
  { destruct v, po as [u|]; try contradiction; cbn [has_primary_in_header taint_of].
    - destruct Hpo as [U A].
      assert (Lu : lenN u < two63).
      { unfold P in Lb. rewrite !lenN_app in Lb. unfold text_item in Lb. cbn [senc_token] in Lb.
        rewrite lenN_app in Lb. unfold bytes in *. lia. }
      rewrite decode_text_item by assumption. cbn [bind].
      destruct (any_url_ok u) as [ok tn]. cbn [fst snd] in *. subst ok. reflexivity.
    - reflexivity. }
  rewrite H2. cbn [bind]. clear H1 H2.
  rewrite decode_bytes_item by (unfold two63; lia). cbn [bind].
  replace (8192 <=? lenN (table_body secs)) with false by lia.
  rewrite decode_section_lengths_ok; [|unfold two64; lia|exact Fs|exact ND]. cbn [bind].
  rewrite decode_arr_item by (unfold two64; lia). cbn [bind].
  replace (lenN (sos_of secs)) with (lenN secs) by (unfold sos_of; rewrite lenN_map; reflexivity).
  rewrite N.eqb_refl. cbn [negb].
  replace (lenN bs - lenN (List.concat (map snd secs) ++ footer)) with (lenN P)
    by (rewrite lenN_app; lia).
  reflexivity.
Qed.

Section Written.
  Variable x509_ok : bytes -> bool.

  (* where the sections of a written bundle are: the table ends with "responses"
     (at least one byte long), the last section ends 9 bytes before the end *)
  Lemma written_header (b : bundle) (bs : bytes) :
    b_write b = Ok bs -> lenN bs < two63 ->
    exists fb t0 ss before rl,
      load_header bs = Ok (b_ver b, fb, t0, ss, before ++ [(sec_responses, rl)]) /\
      1 <= rl /\ ss + sum_lens before + rl + 9 = lenN bs.
  Proof.
    intros Hw L.
    destruct (b_write_ok_urls b bs Hw) as [_ [Hpc _]].
    apply b_write_ok_iff in Hw. destruct Hw as [ts [_ [_ [_ [_ [_ E]]]]]].
    pose proof E as E0. rewrite final_layout in E0.
    set (v := b_ver b) in *.
    set (footer := bstr_item (be 8 (w64 (lenN (file_body v (parsed_of b ts)) + 9)))) in *.
    assert (Lfoot : lenN footer = 9) by (apply bstr8_lenN, be_lenN).
    assert (Lb : lenN bs = lenN (P_of b ts) + lenN (List.concat (map snd (sections_of b ts))) + 9).
    { rewrite E0, !lenN_app, Lfoot. lia. }
    assert (ND : NoDup (map fst (sections_of b ts))) by apply section_names_nodup.
    assert (Hpo : match v, po_of b with
                  | BV1, Some u => utf8_valid u = true /\ fst (any_url_ok u) = true
                  | BV2, None => True | _, _ => False end).
    { unfold po_of in *. fold v in Hpc |- *. destruct v; [|exact I].
      destruct (b_primary b); [tauto|exact Hpc]. }
    pose proof (sections_front b ts) as Esf.
    assert (Hh : load_header bs = Ok (v, po_of b, taint_of (po_of b), lenN (P_of b ts),
                                      sos_of (sections_of b ts))).
    { rewrite Esf.
      rewrite (load_header_layout v (po_of b) (front_of b ts) (rb_of b) footer bs).
      - fold (P_of b ts). rewrite <- Esf. unfold P_of. reflexivity.
      - fold (P_of b ts). rewrite <- Esf. exact E0.
      - exact L.
      - exact Hpo.
      - rewrite <- Esf. exact ND.
      - rewrite <- Esf. apply (secs_ok x509_ok). unfold two63, two64 in *. unfold bytes in *. lia.
      - rewrite <- Esf. apply (table_small x509_ok). }
    exists (po_of b), (taint_of (po_of b)), (lenN (P_of b ts)), (sos_of (front_of b ts)), (lenN (rb_of b)).
    split.
    { rewrite Hh, Esf. unfold sos_of. rewrite map_app. reflexivity. }
    split.
    { unfold rb_of, responses_body. rewrite lenN_app.
      pose proof (senc_head_len_ge 4 (lenN (map rsp_of (b_exchanges b)))) as G.
      unfold arr_head. lia. }
    rewrite Lb, Esf, map_app, concat_app. cbn [map snd List.concat]. rewrite app_nil_r, lenN_app.
    rewrite sum_lens_sos_of. lia.
  Qed.

  (* ---- the statements ---------------------------------------------------------------------- *)
  (* no hypothesis beyond "the writer accepted b" and the Go slice bound: also for
     bundles that cannot be read back (authorities x509_ok rejects, undecided URLs) *)
  Theorem bundle_truncated (b : bundle) (bs : bytes) :
    b_write b = Ok bs -> lenN bs < two63 ->
    forall p : nat,
      ((p < List.length bs - 9)%nat -> b_read x509_ok (firstn p bs) = Err) /\
      ((List.length bs - 9 <= p)%nat -> b_read x509_ok (firstn p bs) = b_read x509_ok bs).
  Proof.
    intros Hw L p.
    destruct (written_header b bs Hw L) as [fb [t0 [ss [before [rl [Eh [Hrl Hlen]]]]]]].
    assert (L64 : lenN bs < two64) by (unfold two63, two64 in *; lia).
    rewrite lenN_length in Hlen. split; intros Hp.
    - apply (TruncationBundleRead.read_cut_before_end x509_ok bs p _ _ _ _ _ Eh).
      rewrite BundleReadBase.sum_lens_app. cbn [sum_lens]. lia.
    - apply (TruncationBundleRead.read_cut_behind_sections x509_ok bs p _ _ _ _ _ _ L64 Eh); lia.
  Qed.

  (* with the round trip: what a cut inside the footer yields *)
  Theorem bundle_truncated_norm (b : bundle) (bs : bytes) :
    b_write b = Ok bs -> residual x509_ok b = true -> lenN bs < two63 ->
    forall p : nat,
      ((p < List.length bs - 9)%nat -> b_read x509_ok (firstn p bs) = Err) /\
      ((List.length bs - 9 <= p)%nat -> b_read x509_ok (firstn p bs) = Ok (norm b)).
  Proof.
    intros Hw W L p. destruct (bundle_truncated b bs Hw L p) as [H1 H2].
    split; [exact H1|]. intros Hp. rewrite (H2 Hp).
    apply bundle_roundtrip; assumption.
  Qed.

  (* the form asked for *)
  Theorem bundle_truncated_or (b : bundle) (bs : bytes) :
    b_write b = Ok bs -> residual x509_ok b = true -> lenN bs < two63 ->
    forall p : nat, (p < List.length bs)%nat ->
      b_read x509_ok (firstn p bs) = Err \/ b_read x509_ok (firstn p bs) = b_read x509_ok bs.
  Proof.
    intros Hw W L p _. destruct (bundle_truncated b bs Hw L p) as [H1 H2].
    destruct (Nat.lt_ge_cases p (List.length bs - 9)) as [Hp|Hp]; [left; auto|right; auto].
  Qed.

  (* the written file is at least header + one-byte responses section + footer long,
     so "List.length bs - 9" is a real position *)
  Lemma written_length (b : bundle) (bs : bytes) :
    b_write b = Ok bs -> lenN bs < two63 -> (10 <= List.length bs)%nat.
  Proof.
    intros Hw L. destruct (written_header b bs Hw L) as [fb [t0 [ss [before [rl [_ [Hrl Hlen]]]]]]].
    rewrite lenN_length in Hlen. lia.
  Qed.
End Written.
