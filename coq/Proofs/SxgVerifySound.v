(* Proofs/SxgVerifySound.v - what a successful Exchange.Verify establishes (C01).

   - verify_timestamps is the window  date <= now <= expires, lifetime <= 7 days;
   - verify = Valid p exposes the accepting signature, the certificate, the key,
     the reconstructed message and the successful checks (verify_sound);
   - with an unforgeable signature oracle the key holder signed exactly the
     fields of this exchange (verify_binds), and the payload handed back is the
     one committed to by the signed digest header, or SHA-256 collides.        *)
From Coq Require Import Lia ZifyN ZifyNat ZifyBool Permutation.
From WP Require Import Base.Prelude Base.Base64 Base.Decimal.
From WP Require Import Model.Cbor Model.BigEndian Model.Http Model.Url Model.Mice Model.StructHdr
                       Model.CertChain Model.Sxg.
From WP Require Import Spec.Mice Spec.SxgPolicy.
From WP Require Spec.StructHdr Proofs.SHRoundtrip Proofs.SHParse.
From WP Require Import Proofs.BaseLemmas Proofs.HdrCi Proofs.MiceCommit Proofs.SxgVerifyMsg.
From WP Require Proofs.SxgLoop.
Open Scope N_scope.

(* ---- time -------------------------------------------------------------------- *)
Definition Z63 : Z := 9223372036854775808.
Definition Z64 : Z := 18446744073709551616.

Lemma isec_spec (z : Z) :
  exists k : Z, isec z = (z + unix_to_internal + Z64 * k)%Z /\ (- Z63 <= isec z < Z63)%Z.
Proof.
  unfold isec, of_i64_wrap, to_i64, Z64, Z63.
  change (Z.of_N two64) with 18446744073709551616%Z.
  set (w := (z + unix_to_internal)%Z).
  pose proof (Z.mod_pos_bound w 18446744073709551616 eq_refl) as Hb.
  pose proof (Z.div_mod w 18446744073709551616) as Hd.
  set (q := (w / 18446744073709551616)%Z) in *. set (r := (w mod 18446744073709551616)%Z) in *.
  destruct (Z.to_N r <? two63) eqn:E; unfold two63 in E.
  - exists (- q)%Z. rewrite Z2N.id by lia. lia.
  - exists (- q - 1)%Z. rewrite Z2N.id by lia. lia.
Qed.

(* the exact domain on which time.Unix does not wrap *)
Lemma isec_nowrap (z : Z) :
  (- Z63 <= z + unix_to_internal < Z63)%Z -> isec z = (z + unix_to_internal)%Z.
Proof.
  intros H. destruct (isec_spec z) as (k & E & Hb). unfold Z63, Z64 in *. lia.
Qed.

Definition time_ok (tsec tnsec : Z) : Prop :=
  (- 4611686018427387904 <= tsec < 4611686018427387904 /\ 0 <= tnsec < 1000000000)%Z.

(* For int64 date/expires (what the Signature header parser produces) and a
   verification time within +-2^62 seconds of the epoch, verifyTimestamps is
   exactly the window, to the nanosecond.  (No assumption that date/expires
   do not wrap in time.Unix: a wrapped value is never accepted.) *)
Theorem verify_timestamps_spec (d x tsec tnsec : Z) :
  i64 d -> i64 x -> time_ok tsec tnsec ->
  (verify_timestamps d x tsec tnsec = true <-> InWindow d x tsec tnsec).
Proof.
  unfold i64, time_ok, InWindow, nano, verify_timestamps, two63. intros Hd Hx [Ht Hn].
  destruct (isec_spec d) as (kd & Ed & Bd). destruct (isec_spec x) as (kx & Ex & Bx).
  rewrite (isec_nowrap tsec) by (unfold Z63, unix_to_internal; lia).
  set (c := isec d) in *. set (xx := isec x) in *.
  unfold Z63, Z64, unix_to_internal in *.
  rewrite !andb_true_iff, !negb_true_iff, orb_false_iff, andb_false_iff.
  rewrite Z.leb_le, !Z.ltb_ge, Z.eqb_neq. split.
  - intros ((H1 & H2) & H3 & H4). lia.
  - intros (H1 & H2 & H3). assert (kd = 0%Z) by lia. assert (kx = 0%Z) by lia. subst kd kx. lia.
Qed.

(* the same on the exact no-wrap domain, without the int64 assumption *)
Theorem verify_timestamps_nowrap (d x tsec tnsec : Z) :
  (- Z63 <= d + unix_to_internal < Z63)%Z -> (- Z63 <= x + unix_to_internal < Z63)%Z ->
  (- Z63 <= tsec + unix_to_internal < Z63)%Z -> (0 <= tnsec < 1000000000)%Z ->
  (verify_timestamps d x tsec tnsec = true <-> InWindow d x tsec tnsec).
Proof.
  intros Hd Hx Ht Hn. unfold verify_timestamps, InWindow, nano.
  rewrite (isec_nowrap d Hd), (isec_nowrap x Hx), (isec_nowrap tsec Ht).
  rewrite !andb_true_iff, !negb_true_iff, orb_false_iff, andb_false_iff.
  rewrite Z.leb_le, !Z.ltb_ge, Z.eqb_neq. lia.
Qed.

(* ---- small facts about headers ------------------------------------------------- *)
Lemma hraw_names (h : headers) : map fst (hraw h) = map lname h.
Proof. unfold hraw. rewrite map_map. reflexivity. Qed.

(* on a map that can be signed (names distinct up to letter case) a non-empty
   case-insensitive value is the signed (lower-cased name, joined value) entry *)
Lemma hdr_value_in (h : headers) (k : bytes) :
  NoDup (map fst (hraw h)) ->
  hdr_value_ci h k <> [] -> In (lower (canonical_key k), hdr_value_ci h k) (hraw h).
Proof.
  intros Hnd Hne. rewrite hraw_names in Hnd. rewrite SxgLoop.lower_canonical_key.
  exact (hdr_value_ci_in h k Hnd Hne).
Qed.

Lemma integrity_of_eq v : integrity_identifier (mice_of v) = integrity_of v.
Proof. destruct v; reflexivity. Qed.
Lemma digest_field_of_eq v : digest_header_name (mice_of v) = digest_field_of v.
Proof. destruct v; reflexivity. Qed.
Lemma mice_draft_of_eq v : mice_of v = mice_draft_of v.
Proof. destruct v; reflexivity. Qed.

(* ---- the Signature header: ranges and sizes of what the parser hands out -------- *)
Lemma param_in (ps : sh_params) (k : string) (v : sh_item) :
  param ps k = Some v -> In (s2b k, Some v) ps.
Proof.
  unfold param. destruct (find _ ps) as [[k' v']|] eqn:F; [|discriminate].
  intros ->. apply find_some in F. destruct F as [Hin Hk]. cbn [fst] in Hk.
  apply bytes_eqb_eq in Hk. subst k'. exact Hin.
Qed.

Lemma extract_signature_params (pi : pident) (s : signature) :
  extract_signature pi = Some s ->
  In (s2b "validity-url", Some (ShStr (s_validity s))) (pi_params pi) /\
  In (s2b "date", Some (ShInt (s_date s))) (pi_params pi) /\
  In (s2b "expires", Some (ShInt (s_expires s))) (pi_params pi).
Proof.
  unfold extract_signature.
  destruct (param (pi_params pi) "sig") as [[| | |sg|]|] eqn:E1; try discriminate.
  destruct (param (pi_params pi) "integrity") as [[|ig| | |]|] eqn:E2; try discriminate.
  destruct (param (pi_params pi) "cert-url") as [[|cu| | |]|] eqn:E3; try discriminate.
  destruct (param (pi_params pi) "cert-sha256") as [[| | |cs|]|] eqn:E4; try discriminate.
  destruct (param (pi_params pi) "validity-url") as [[|vu| | |]|] eqn:E5; try discriminate.
  destruct (param (pi_params pi) "date") as [[d| | | |]|] eqn:E6; try discriminate.
  destruct (param (pi_params pi) "expires") as [[x| | | |]|] eqn:E7; try discriminate.
  intros H. injection H as <-. cbn [s_validity s_date s_expires].
  split; [exact (param_in _ "validity-url" _ E5)|
          split; [exact (param_in _ "date" _ E6)|exact (param_in _ "expires" _ E7)]].
Qed.

Lemma parsed_int_range (input : bytes) (sigs : list pident) (pi : pident) (k : bytes) (z : Z) :
  parse_parameterised_list input = Ok sigs -> In pi sigs -> In (k, Some (ShInt z)) (pi_params pi) ->
  i64 z.
Proof.
  intros Hp Hin Hk. apply SHRoundtrip.parse_plist_valid in Hp. destruct Hp as [_ Hall].
  rewrite Forall_forall in Hall. destruct (Hall pi Hin) as (_ & _ & _ & Hv).
  rewrite Forall_forall in Hv. specialize (Hv (Some (ShInt z))).
  assert (Hi : In (Some (ShInt z)) (map snd (pi_params pi))).
  { change (Some (ShInt z)) with (snd (k, Some (ShInt z))). apply in_map. exact Hk. }
  specialize (Hv Hi). cbn in Hv. unfold StructHdr.int64_range in Hv. unfold i64, two63. lia.
Qed.

(* a parsed string parameter is no longer than the header it came from *)
Lemma StrBody_len body v : StructHdr.StrBody body v -> (List.length v <= List.length body)%nat.
Proof. induction 1; cbn [List.length]; lia. Qed.

Ltac len_simpl := repeat first [rewrite app_length | progress cbn [List.length app]].

Lemma Derives_params_len r ps : StructHdr.Derives_params r ps ->
  forall k v, In (k, Some (ShStr v)) ps -> (List.length v <= List.length r)%nat.
Proof.
  induction 1 as [|w1 w2 k0 r ps H1 H2 Hk Hr IH|w1 w2 k0 i v0 r ps H1 H2 Hk Hi Hr IH]; intros k v Hin.
  - destruct Hin.
  - destruct Hin as [E|Hin]; [discriminate|]. specialize (IH k v Hin). len_simpl. lia.
  - destruct Hin as [E|Hin].
    + injection E as _ E. subst v0. inversion Hi as [| |body v' Hb| |]; subst.
      apply StrBody_len in Hb. len_simpl. lia.
    + specialize (IH k v Hin). len_simpl. lia.
Qed.

Lemma Derives_pi_len p x : StructHdr.Derives_pi p x ->
  forall k v, In (k, Some (ShStr v)) (pi_params x) -> (List.length v <= List.length p)%nat.
Proof.
  intros [t r ps Ht Hr Hnd] k v Hin. cbn [pi_params] in Hin.
  pose proof (Derives_params_len _ _ Hr k v Hin). rewrite app_length. lia.
Qed.

Lemma Derives_plist_tail_len r xs : StructHdr.Derives_plist_tail r xs ->
  forall pi k v, In pi xs -> In (k, Some (ShStr v)) (pi_params pi) -> (List.length v <= List.length r)%nat.
Proof.
  induction 1 as [|w1 w2 p x r xs H1 H2 Hp Hr IH]; intros pi k v Hin Hk.
  - destruct Hin.
  - len_simpl. destruct Hin as [->|Hin].
    + pose proof (Derives_pi_len _ _ Hp k v Hk). lia.
    + specialize (IH pi k v Hin Hk). lia.
Qed.

Lemma parsed_str_len (input : bytes) (sigs : list pident) (pi : pident) (k v : bytes) :
  parse_parameterised_list input = Ok sigs -> In pi sigs -> In (k, Some (ShStr v)) (pi_params pi) ->
  lenN v <= lenN input.
Proof.
  intros Hp Hin Hk. apply SHParse.parse_plist_sound in Hp.
  destruct Hp as [w0 p x r xs w1 H0 Hp Hr H1]. rewrite !lenN_length, !app_length.
  destruct Hin as [->|Hin].
  - pose proof (Derives_pi_len _ _ Hp k v Hk). lia.
  - pose proof (Derives_plist_tail_len _ _ Hr pi k v Hin Hk). lia.
Qed.

Section Sound.
  Variable H256 : bytes -> bytes.
  Variable x509_key : bytes -> option (option N).
  Variable sig_ok : N -> bytes -> bytes -> bool.
  Variable status_known : Z -> bool.
  Variable fetch : bytes -> R bytes.

  Notation x509ok := (fun der => match x509_key der with Some _ => true | None => false end).
  Notation vsig := (verify_signature H256 x509_key sig_ok fetch).
  Notation vsigs := (verify_sigs H256 x509_key sig_ok status_known fetch).
  Notation vfy := (verify H256 x509_key sig_ok status_known fetch).
  Notation KeySigned := (KeySigned H256 x509_key sig_ok fetch).
  Notation PayloadOk := (PayloadOk H256).

  (* ---- verifyPayload ---------------------------------------------------------- *)
  Lemma verify_payload_iff (e : exchange) (s : signature) (p : bytes) :
    verify_payload H256 e s = Some p <-> PayloadOk e s p.
  Proof.
    unfold verify_payload, SxgPolicy.PayloadOk.
    rewrite integrity_of_eq, digest_field_of_eq, mice_draft_of_eq.
    set (dg := hdr_value_ci (e_resph e) (digest_field_of (e_ver e))).
    destruct (bytes_eqb (s_integrity s) (integrity_of (e_ver e))) eqn:Ei; cbn [negb].
    - apply bytes_eqb_eq in Ei. destruct dg as [|c dg0] eqn:Edg.
      + split; [discriminate|]. intros (_ & H & _). contradiction H. reflexivity.
      + destruct (decode_all H256 (mice_draft_of (e_ver e)) (e_payload e) (c :: dg0) 16384 512)
          as [[out [| |]]| | |] eqn:Ed; split; try discriminate;
          try (intros (_ & _ & H); discriminate).
        * intros H. injection H as <-. repeat split; [exact Ei|discriminate].
        * intros (_ & _ & H). injection H as ->. reflexivity.
    - apply bytes_eqb_neq in Ei. split; [discriminate|]. intros (H & _). contradiction.
  Qed.

  (* ---- verifySignature: exactly the conjunction of its checks --------------------- *)
  Theorem verify_signature_iff (e : exchange) (tsec tnsec : Z) (s : signature) (p : bytes) :
    vsig e tsec tnsec s = Some p <->
    KeySigned e s /\
    verify_timestamps (s_date s) (s_expires s) tsec tnsec = true /\
    (has_request (e_ver e) = false -> hdr_value_ci (e_resph e) (s2b "Content-Type") <> []) /\
    PayloadOk e s p.
  Proof.
    rewrite <- verify_payload_iff. unfold verify_signature, SxgPolicy.KeySigned. split.
    - destruct (fetch (s_cert_url s)) as [cb| | |] eqn:Ef; try discriminate.
      destruct (cc_read x509ok cb) as [[|main rest]| | |] eqn:Ec; try discriminate.
      destruct (x509_key (ac_cert main)) as [[kid|]|] eqn:Ek; try discriminate.
      destruct (verify_timestamps (s_date s) (s_expires s) tsec tnsec) eqn:Et; cbn [negb]; try discriminate.
      destruct (signed_message e (Some (H256 (ac_cert main))) (s_validity s) (s_date s) (s_expires s))
        as [msg| | |] eqn:Em; try discriminate.
      destruct (bytes_eqb (s_cert_sha s) (H256 (ac_cert main))) eqn:Eh; cbn [negb]; try discriminate.
      apply bytes_eqb_eq in Eh.
      destruct (sig_ok kid msg (s_sig s)) eqn:Es; cbn [negb]; try discriminate.
      destruct (has_request (e_ver e)) eqn:Er; cbn [negb andb].
      + intros Hp. split; [|split; [reflexivity|split; [discriminate|exact Hp]]].
        exists cb, main, rest, kid, msg. rewrite Eh. repeat split; assumption.
      + destruct (hdr_value_ci (e_resph e) (s2b "Content-Type")) as [|c0 ct] eqn:Ect; try discriminate.
        intros Hp. split; [|split; [reflexivity|split; [discriminate|exact Hp]]].
        exists cb, main, rest, kid, msg. rewrite Eh. repeat split; assumption.
    - intros ((cb & main & rest & kid & msg & Ef & Ec & Ek & Eh & Em & Es) & Et & Hct & Hp).
      rewrite Ef, Ec, Ek, Et. cbn [negb]. rewrite <- Eh, Em, bytes_eqb_refl, Es. cbn [negb].
      destruct (has_request (e_ver e)) eqn:Er; cbn [negb andb]; [exact Hp|].
      destruct (hdr_value_ci (e_resph e) (s2b "Content-Type")) as [|c0 ct] eqn:Ect; [|exact Hp].
      contradiction (Hct eq_refl). reflexivity.
  Qed.

  (* ---- the loop over signatures -------------------------------------------------- *)
  Definition method_ok (e : exchange) : bool :=
    negb (has_request (e_ver e)) ||
    bytes_eqb (e_method e) (s2b "GET") || bytes_eqb (e_method e) (s2b "HEAD").
  (* the checks of Verify after verifySignature *)
  Definition post_ok (e : exchange) : bool :=
    method_ok e && (has_request (e_ver e) || is_cacheable status_known e) && verify_headers e.

  Lemma verify_sigs_cons (e : exchange) (tsec tnsec : Z) (pi : pident) (rest : list pident) (t : bool) :
    vsigs e tsec tnsec (pi :: rest) t =
    match extract_signature pi with
    | None => vsigs e tsec tnsec rest t
    | Some s =>
        match same_origin (s_validity s) (e_uri e) with
        | None | Some (Some false) => vsigs e tsec tnsec rest t
        | Some so =>
            let t' := t || (match so with None => true | _ => false end) in
            match vsig e tsec tnsec s with
            | None => vsigs e tsec tnsec rest t'
            | Some p => if post_ok e then (if t' then Undecided else Valid p)
                        else vsigs e tsec tnsec rest t'
            end
        end
    end.
  Proof.
    cbn [verify_sigs]. destruct (extract_signature pi) as [s|]; [|reflexivity].
    destruct (same_origin (s_validity s) (e_uri e)) as [[[|]|]|]; try reflexivity;
      (destruct (vsig e tsec tnsec s) as [p|]; [|reflexivity]);
      unfold post_ok; fold (method_ok e);
      destruct (method_ok e); cbn [negb andb]; try reflexivity;
      destruct (has_request (e_ver e)); cbn [negb andb orb]; try reflexivity;
      try (destruct (verify_headers e); reflexivity);
      destruct (is_cacheable status_known e); cbn [negb]; try reflexivity;
      destruct (verify_headers e); reflexivity.
  Qed.

  Lemma verify_sigs_valid (e : exchange) (tsec tnsec : Z) (p : bytes) :
    forall sigs t, vsigs e tsec tnsec sigs t = Valid p ->
    exists pi s, In pi sigs /\ extract_signature pi = Some s /\
      same_origin (s_validity s) (e_uri e) = Some (Some true) /\
      vsig e tsec tnsec s = Some p /\ post_ok e = true.
  Proof.
    induction sigs as [|pi rest IH]; intros t H.
    - cbn [verify_sigs] in H. destruct t; discriminate.
    - rewrite verify_sigs_cons in H.
      assert (K : forall t0, vsigs e tsec tnsec rest t0 = Valid p ->
                exists pi0 s, In pi0 (pi :: rest) /\ extract_signature pi0 = Some s /\
                  same_origin (s_validity s) (e_uri e) = Some (Some true) /\
                  vsig e tsec tnsec s = Some p /\ post_ok e = true).
      { intros t0 H0. destruct (IH t0 H0) as (pi0 & s0 & Hin & Hrest). exists pi0, s0.
        split; [right; exact Hin|exact Hrest]. }
      destruct (extract_signature pi) as [s|] eqn:Ex; [|eapply K; exact H].
      destruct (same_origin (s_validity s) (e_uri e)) as [[[|]|]|] eqn:Eso; try (eapply K; exact H).
      + cbn zeta in H. destruct (vsig e tsec tnsec s) as [q|] eqn:Ev; [|eapply K; exact H].
        destruct (post_ok e) eqn:Ep; [|eapply K; exact H].
        rewrite orb_false_r in H. destruct t; [discriminate|]. injection H as ->.
        exists pi, s. split; [left; reflexivity|]. repeat split; assumption.
      + cbn zeta in H. rewrite orb_true_r in H.
        destruct (vsig e tsec tnsec s) as [q|] eqn:Ev; [|eapply K; exact H].
        destruct (post_ok e) eqn:Ep; [discriminate|eapply K; exact H].
  Qed.

  (* ---- C01 (3): verify_sound -------------------------------------------------------- *)
  Theorem verify_sound (e : exchange) (tsec tnsec : Z) (p : bytes) :
    vfy e tsec tnsec = Valid p ->
    exists sigs s pi chain main rest kid m,
      parse_parameterised_list (e_sig e) = Ok sigs /\ In pi sigs /\
      extract_signature pi = Some s /\
      fetch (s_cert_url s) = Ok chain /\
      cc_read x509ok chain = Ok (main :: rest) /\
      x509_key (ac_cert main) = Some (Some kid) /\
      H256 (ac_cert main) = s_cert_sha s /\
      signed_message e (Some (H256 (ac_cert main))) (s_validity s) (s_date s) (s_expires s) = Ok m /\
      sig_ok kid m (s_sig s) = true /\
      verify_timestamps (s_date s) (s_expires s) tsec tnsec = true /\
      verify_payload H256 e s = Some p.
  Proof.
    unfold verify. destruct (parse_parameterised_list (e_sig e)) as [sigs| | |] eqn:Ep; try discriminate.
    intros H. apply verify_sigs_valid in H. destruct H as (pi & s & Hin & Hex & _ & Hv & _).
    apply verify_signature_iff in Hv.
    destruct Hv as ((chain & main & rest & kid & m & Hf & Hc & Hk & Hh & Hm & Hs) & Ht & _ & Hp).
    exists sigs, s, pi, chain, main, rest, kid, m. rewrite <- Hh.
    repeat split; try assumption. apply verify_payload_iff. exact Hp.
  Qed.

  (* ---- C01 (4): verify_binds ---------------------------------------------------------- *)
  Section Binds.
    (* "the holder of key kid signed message m" *)
    Variable Signed : N -> bytes -> Prop.
    Hypothesis Unforgeable : forall kid m sg, sig_ok kid m sg = true -> Signed kid m.
    Hypothesis Hlen : forall x, List.length (H256 x) = 32%nat.

    Definition sig_fields (e : exchange) (s : signature) : sfields :=
      fields_of e (Some (s_cert_sha s)) (s_validity s) (s_date s) (s_expires s).

    (* the payload handed back is the one the signed digest entry commits to *)
    Definition payload_bound (e : exchange) (s : signature) (p : bytes) : Prop :=
      exists dg top,
        In (lower (canonical_key (digest_field_of (e_ver e))), dg) (f_resp (sig_fields e s)) /\
        parse_digest_header (mice_draft_of (e_ver e)) dg = Ok top /\
        forall recs, Commits H256 top recs -> p = List.concat recs \/ Collision H256.

    Lemma payload_ok_bound (e : exchange) (s : signature) (p : bytes) :
      sf_map (sig_fields e s) -> PayloadOk e s p -> payload_bound e s p.
    Proof.
      intros [_ Hnd] (_ & Hne & Hd). unfold payload_bound.
      unfold sig_fields, fields_of in Hnd. cbn [f_resp] in Hnd.
      set (dg := hdr_value_ci (e_resph e) (digest_field_of (e_ver e))) in *.
      assert (Ht : exists top, parse_digest_header (mice_draft_of (e_ver e)) dg = Ok top).
      { unfold decode_all, new_decoder in Hd.
        destruct (parse_digest_header (mice_draft_of (e_ver e)) dg) as [top| | |]; try discriminate.
        exists top. reflexivity. }
      destruct Ht as (top & Ht). exists dg, top. split; [|split; [exact Ht|]].
      - unfold sig_fields, fields_of. cbn [f_resp]. apply hdr_value_in; [exact Hnd|exact Hne].
      - intros recs Hc.
        destruct (decode_all_only_committed H256 _ _ _ _ _ _ _ _ _ Ht Hc Hd) as [[_ Heof]|Hcol];
          [left; apply Heof; reflexivity|right; exact Hcol].
    Qed.

    Theorem verify_binds (e : exchange) (tsec tnsec : Z) (p : bytes) :
      esized e -> lenN (e_sig e) < two64 -> time_ok tsec tnsec ->
      vfy e tsec tnsec = Valid p ->
      exists kid m s,
        Signed kid m /\
        signed_message e (Some (s_cert_sha s)) (s_validity s) (s_date s) (s_expires s) = Ok m /\
        (* whatever exchange and parameters the key holder serialised into m,
           they are this exchange's *)
        (forall e0 cs v d x,
            esized e0 -> params_ok (e_ver e0) cs v d x -> signed_message e0 cs v d x = Ok m ->
            sf_equiv (fields_of e0 cs v d x) (sig_fields e s)) /\
        sf_map (sig_fields e s) /\
        InWindow (s_date s) (s_expires s) tsec tnsec /\
        payload_bound e s p.
    Proof.
      intros Hs Hsig Ht H. destruct (verify_sound e tsec tnsec p H)
        as (sigs & s & pi & chain & main & rest & kid & m & Hp & Hin & Hex & Hf & Hc & Hk & Hh & Hm & Hso & Hts & Hpl).
      destruct (extract_signature_params _ _ Hex) as (Pv & Pd & Px).
      pose proof (parsed_int_range _ _ _ _ _ Hp Hin Pd) as Rd.
      pose proof (parsed_int_range _ _ _ _ _ Hp Hin Px) as Rx.
      pose proof (parsed_str_len _ _ _ _ _ Hp Hin Pv) as Rv.
      rewrite Hh in Hm.
      assert (Hpo : params_ok (e_ver e) (Some (s_cert_sha s)) (s_validity s) (s_date s) (s_expires s)).
      { assert (L32 : lenN (s_cert_sha s) = 32) by (rewrite <- Hh, lenN_length, Hlen; reflexivity).
        unfold params_ok. unfold i64, two63 in Rd, Rx.
        destruct (e_ver e); repeat split; try assumption; unfold i64, two63, two64 in *; lia. }
      exists kid, m, s. split; [eapply Unforgeable; exact Hso|]. split; [exact Hm|].
      split; [|split; [|split]].
      - intros e0 cs v d x Hs0 Hp0 Hm0.
        destruct (signed_message_injective e0 e _ _ _ _ _ _ _ _ m Hs0 Hs Hp0 Hpo Hm0 Hm) as (Q & _ & _).
        exact Q.
      - destruct (signed_message_injective e e _ _ _ _ _ _ _ _ m Hs Hs Hpo Hpo Hm Hm) as (_ & Q & _).
        exact Q.
      - apply verify_timestamps_spec; assumption.
      - apply payload_ok_bound; [|apply verify_payload_iff; exact Hpl].
        destruct (signed_message_injective e e _ _ _ _ _ _ _ _ m Hs Hs Hpo Hpo Hm Hm) as (_ & Q & _).
        exact Q.
    Qed.

    (* Corollary: the key holder signed only m0, the message of exchange e.  Then
       any exchange e' that verifies (with any Signature header) carries e's
       signed fields, and the payload handed back is the one e's signed digest
       entry commits to - unless SHA-256 collides. *)
    Theorem tamper_rejected (e e' : exchange) (cs : option bytes) (v : bytes) (d x : Z) (m0 : bytes)
            (tsec tnsec : Z) (p : bytes) :
      (forall kid m', Signed kid m' -> m' = m0) ->
      signed_message e cs v d x = Ok m0 -> esized e -> params_ok (e_ver e) cs v d x ->
      esized e' -> lenN (e_sig e') < two64 -> time_ok tsec tnsec ->
      vfy e' tsec tnsec = Valid p ->
      exists s,
        sf_equiv (fields_of e cs v d x) (sig_fields e' s) /\
        (forall dg top recs,
            In (lower (canonical_key (digest_field_of (e_ver e))), dg) (f_resp (fields_of e cs v d x)) ->
            parse_digest_header (mice_draft_of (e_ver e)) dg = Ok top ->
            Commits H256 top recs -> p = List.concat recs \/ Collision H256).
    Proof.
      intros Honly Hm0 Hs Hp0 Hs' Hsig' Ht H.
      destruct (verify_binds e' tsec tnsec p Hs' Hsig' Ht H) as (kid & m & s & Sg & _ & Hb & Hmap & _ & Hpay).
      apply Honly in Sg. subst m. exists s. pose proof (Hb e cs v d x Hs Hp0 Hm0) as Q.
      split; [exact Q|]. intros dg top recs Hin Hpd Hc.
      destruct Hpay as (dg' & top' & Hin' & Hpd' & Hall).
      destruct Q as (Qv & _ & _ & _ & _ & _ & _ & _ & _ & Qr).
      cbn [f_ver fields_of sig_fields] in Qv. rewrite <- Qv in *.
      assert (Hin2 : In (lower (canonical_key (digest_field_of (e_ver e))), dg) (f_resp (sig_fields e' s)))
        by (eapply Permutation_in; [exact Qr|exact Hin]).
      assert (Edg : dg = dg').
      { destruct Hmap as [_ Hnd]. clear - Hin2 Hin' Hnd.
        set (k := lower (canonical_key (digest_field_of (e_ver e)))) in *.
        induction (f_resp (sig_fields e' s)) as [|[k0 v0] l IH]; [destruct Hin2|].
        cbn [map fst] in Hnd. apply NoDup_cons_iff in Hnd. destruct Hnd as [Hni Hnd].
        destruct Hin2 as [E2|Hin2]; destruct Hin' as [E'|Hin'].
        - congruence.
        - injection E2 as -> ->. exfalso. apply Hni.
          change k with (fst (k, dg')). apply in_map. exact Hin'.
        - injection E' as -> ->. exfalso. apply Hni.
          change k with (fst (k, dg)). apply in_map. exact Hin2.
        - apply IH; assumption. }
      subst dg'. rewrite Hpd in Hpd'. injection Hpd' as <-. apply Hall. exact Hc.
    Qed.

    Corollary tamper_rejected_fields (e e' : exchange) (cs : option bytes) (v : bytes) (d x : Z)
              (m0 : bytes) (tsec tnsec : Z) (p : bytes) :
      (forall kid m', Signed kid m' -> m' = m0) ->
      signed_message e cs v d x = Ok m0 -> esized e -> params_ok (e_ver e) cs v d x ->
      esized e' -> lenN (e_sig e') < two64 -> time_ok tsec tnsec ->
      (forall s, ~ sf_equiv (fields_of e cs v d x) (sig_fields e' s)) ->
      vfy e' tsec tnsec <> Valid p.
    Proof.
      intros Honly Hm0 Hs Hp0 Hs' Hsig' Ht Hdiff H.
      destruct (tamper_rejected e e' cs v d x m0 tsec tnsec p Honly Hm0 Hs Hp0 Hs' Hsig' Ht H) as (s & Q & _).
      exact (Hdiff s Q).
    Qed.
  End Binds.
End Sound.
