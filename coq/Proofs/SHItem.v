(* Proofs/SHItem.v - parse_item / serialize_item against Derives_item. *)
From Coq Require Import Lia ZifyN ZifyNat ZifyBool.
From WP Require Import Base.Prelude Base.Base64 Base.Decimal Model.StructHdr Spec.StructHdr.
From WP Require Import Proofs.SHLemmas Proofs.SHEnc.
Ltac Zify.zify_post_hook ::= Z.div_mod_to_equations.
Open Scope N_scope.
Local Arguments N.add : simpl never.
Local Arguments N.sub : simpl never.
Local Arguments N.mul : simpl never.
Local Arguments N.div : simpl never.
Local Arguments N.modulo : simpl never.
Local Arguments N.pow : simpl never.

(* what may follow an item / a parameterised identifier in a derivation:
   end of input, OWS, ";" or "," *)
Definition stop (rest : bytes) : Prop :=
  match rest with [] => True | c :: _ => c = 32 \/ c = 9 \/ c = 59 \/ c = 44 end.

Lemma stop_nodigit rest : stop rest -> nohead is_digit rest.
Proof. destruct rest as [|c r]; [trivial|]. cbn [stop nohead]. unfold is_digit. lia. Qed.
Lemma stop_notoken rest : stop rest -> nohead is_tokenchar rest.
Proof.
  destruct rest as [|c r]; [trivial|]. cbn [stop nohead].
  unfold is_tokenchar, is_alpha, is_lcalpha, is_digit. lia.
Qed.
Lemma stop_nokey rest : stop rest -> nohead is_keychar rest.
Proof.
  destruct rest as [|c r]; [trivial|]. cbn [stop nohead].
  unfold is_keychar, is_lcalpha, is_digit. lia.
Qed.

Lemma Derives_item_eq s v v' : Derives_item s v -> v = v' -> Derives_item s v'.
Proof. intros H E. subst. exact H. Qed.

Lemma Forall_DIGIT_forallb ds : Forall DIGIT ds -> forallb is_digit ds = true.
Proof. apply (forallb_Forall _ _ is_digit_iff). Qed.

(* ---- completeness: a derivation followed by a stop is parsed ------------- *)
Lemma parse_item_complete i v rest :
  Derives_item i v -> stop rest -> parse_item (i ++ rest) = Ok (v, rest).
Proof.
  intros HD Hst. destruct HD as [ds n Hd Hr|ds n Hd Hr|body v Hb|t Ht|body data Hb].
  - destruct (DecVal_spec _ _ Hd) as (Hne & Hall & Hv).
    destruct ds as [|c ds']; [contradiction|]. inversion Hall as [|? ? Hc Hall']; subst.
    cbn [app parse_item].
    assert (E1 : ((c =? 45) || is_digit c) = true) by (unfold is_digit, DIGIT in *; lia).
    rewrite E1. cbn [parse_number]. rewrite E1.
    rewrite (span_app is_digit ds' rest (Forall_DIGIT_forallb _ Hall') (stop_nodigit _ Hst)).
    assert (E2 : (c =? 45) = false) by (unfold DIGIT in Hc; lia). rewrite E2.
    cbv zeta.
    assert (E3 : (digits_val (c :: ds') <? two63) = true)
      by (unfold int64_range, two63 in *; lia).
    rewrite E3. reflexivity.
  - destruct (DecVal_spec _ _ Hd) as (Hne & Hall & Hv).
    cbn [app parse_item]. cbn [parse_number]. change ((45 =? 45) || is_digit 45) with true. cbv iota.
    rewrite (span_app is_digit ds rest (Forall_DIGIT_forallb _ Hall) (stop_nodigit _ Hst)).
    change (45 =? 45) with true. cbv iota.
    destruct ds as [|c ds']; [contradiction|]. cbv zeta.
    assert (E3 : (digits_val (c :: ds') <=? two63) = true)
      by (unfold int64_range, two63 in *; lia).
    rewrite E3, Hv. reflexivity.
  - cbn [app parse_item]. change ((34 =? 45) || is_digit 34) with false. change (34 =? 34) with true.
    cbv iota. cbn [parse_string]. change (34 =? 34) with true. cbv iota.
    rewrite <- app_assoc. cbn [app]. rewrite (parse_string_body_complete _ _ Hb). reflexivity.
  - destruct t as [|c r]; [contradiction|]. cbn [Token] in Ht. destruct Ht as [Hc Hr].
    cbn [app parse_item].
    assert (E1 : ((c =? 45) || is_digit c) = false)
      by (unfold is_digit, ALPHA, LCALPHA, UCALPHA in *; lia).
    assert (E2 : (c =? 34) = false) by (unfold ALPHA, LCALPHA, UCALPHA in *; lia).
    assert (E3 : (c =? 42) = false) by (unfold ALPHA, LCALPHA, UCALPHA in *; lia).
    assert (E4 : is_alpha c = true) by (apply is_alpha_iff; exact Hc).
    rewrite E1, E2, E3, E4. cbn [parse_token]. rewrite E4.
    change (c :: r ++ rest) with ((c :: r) ++ rest).
    rewrite (span_app is_tokenchar (c :: r) rest); [reflexivity| |apply stop_notoken; exact Hst].
    cbn [forallb]. rewrite (proj2 (is_tokenchar_iff c)) by (left; exact Hc).
    apply (forallb_Forall _ _ is_tokenchar_iff). exact Hr.
  - cbn [app parse_item]. change ((42 =? 45) || is_digit 42) with false. change (42 =? 34) with false.
    change (42 =? 42) with true. cbv iota. cbn [parse_byte_sequence]. change (42 =? 42) with true.
    cbv iota. rewrite <- app_assoc. cbn [app].
    destruct (B64_chars _ _ Hb) as [Hc1 Hc2].
    rewrite (span_app (fun x => negb (x =? 42)) body (42 :: rest) Hc2 eq_refl).
    rewrite Hc1. cbn [negb]. rewrite (b64_decode_complete _ _ Hb). reflexivity.
Qed.

(* ---- soundness: whatever parse_item consumes is a derivation -------------- *)
Lemma parse_number_sound s z rest : parse_number s = Ok (z, rest) ->
  exists i, s = i ++ rest /\ Derives_item i (ShInt z).
Proof.
  destruct s as [|c r]; [discriminate|]. cbn [parse_number].
  destruct ((c =? 45) || is_digit c) eqn:E1; [|discriminate].
  destruct (span is_digit r) as [ds rest'] eqn:Hs. apply span_spec in Hs.
  destruct Hs as (Er & Hds & _). subst r.
  apply (forallb_Forall _ _ is_digit_iff) in Hds.
  destruct (N.eqb_spec c 45) as [E45|N45].
  - subst c. destruct ds as [|d ds']; [discriminate|]. cbv zeta.
    destruct (digits_val (d :: ds') <=? two63) eqn:E3; [|discriminate].
    intros H. inversion H; subst. exists (45 :: d :: ds'). split; [reflexivity|].
    apply DI_neg; [apply DecVal_of_digits; [discriminate|exact Hds]|].
    unfold int64_range, two63 in *. lia.
  - cbv zeta. destruct (digits_val (c :: ds) <? two63) eqn:E3; [|discriminate].
    intros H. inversion H; subst. exists (c :: ds). split; [reflexivity|].
    apply DI_pos.
    + apply DecVal_of_digits; [discriminate|]. constructor; [|exact Hds].
      apply is_digit_iff. destruct (is_digit c); [reflexivity|]. lia.
    + unfold int64_range, two63 in *. lia.
Qed.

Lemma parse_token_sound s t rest : parse_token s = Ok (t, rest) -> s = t ++ rest /\ Token t.
Proof.
  destruct s as [|c r]; [discriminate|]. cbn [parse_token].
  destruct (is_alpha c) eqn:Ea; [|discriminate]. intros H. inversion H as [Hs]. clear H.
  cbn [span] in Hs.
  assert (Et : is_tokenchar c = true) by (apply is_tokenchar_iff; left; apply is_alpha_iff; exact Ea).
  rewrite Et in Hs. destruct (span is_tokenchar r) as [a b] eqn:Hsp. inversion Hs; subst.
  apply span_spec in Hsp. destruct Hsp as (Er & Ha & _). subst r. split; [reflexivity|].
  cbn [Token]. split; [apply is_alpha_iff; exact Ea|]. apply (forallb_Forall _ _ is_tokenchar_iff). exact Ha.
Qed.

Lemma parse_key_sound s k rest : parse_key s = Ok (k, rest) ->
  s = k ++ rest /\ Key k /\ nohead is_keychar rest.
Proof.
  destruct s as [|c r]; [discriminate|]. cbn [parse_key].
  destruct (is_lcalpha c) eqn:Ea; [|discriminate]. intros H. inversion H as [Hs]. clear H.
  cbn [span] in Hs.
  assert (Et : is_keychar c = true) by (apply is_keychar_iff; left; apply is_lcalpha_iff; exact Ea).
  rewrite Et in Hs. destruct (span is_keychar r) as [a b] eqn:Hsp. inversion Hs; subst.
  apply span_spec in Hsp. destruct Hsp as (Er & Ha & Hn). subst r. split; [reflexivity|].
  split; [|exact Hn].
  cbn [Key]. split; [apply is_lcalpha_iff; exact Ea|]. apply (forallb_Forall _ _ is_keychar_iff). exact Ha.
Qed.

Lemma parse_key_complete k rest : Key k -> nohead is_keychar rest -> parse_key (k ++ rest) = Ok (k, rest).
Proof.
  intros Hk Hn. destruct k as [|c r]; [contradiction|]. cbn [Key] in Hk. destruct Hk as [Hc Hr].
  cbn [app parse_key]. rewrite (proj2 (is_lcalpha_iff c) Hc).
  change (c :: r ++ rest) with ((c :: r) ++ rest).
  rewrite (span_app is_keychar (c :: r) rest); [reflexivity| |exact Hn].
  cbn [forallb]. rewrite (proj2 (is_keychar_iff c)) by (left; exact Hc).
  apply (forallb_Forall _ _ is_keychar_iff). exact Hr.
Qed.

Lemma parse_token_complete t rest : Token t -> nohead is_tokenchar rest ->
  parse_token (t ++ rest) = Ok (t, rest).
Proof.
  intros Hk Hn. destruct t as [|c r]; [contradiction|]. cbn [Token] in Hk. destruct Hk as [Hc Hr].
  cbn [app parse_token]. rewrite (proj2 (is_alpha_iff c) Hc).
  change (c :: r ++ rest) with ((c :: r) ++ rest).
  rewrite (span_app is_tokenchar (c :: r) rest); [reflexivity| |exact Hn].
  cbn [forallb]. rewrite (proj2 (is_tokenchar_iff c)) by (left; exact Hc).
  apply (forallb_Forall _ _ is_tokenchar_iff). exact Hr.
Qed.

Lemma parse_byte_sequence_sound s data rest : parse_byte_sequence s = Ok (data, rest) ->
  exists i, s = i ++ rest /\ Derives_item i (ShBytes data).
Proof.
  destruct s as [|c r]; [discriminate|]. cbn [parse_byte_sequence].
  destruct (N.eqb_spec c 42) as [E|NE]; [|discriminate]. subst c.
  destruct (span (fun x => negb (x =? 42)) r) as [body rest'] eqn:Hs. apply span_spec in Hs.
  destruct Hs as (Er & _ & Hn). subst r.
  destruct rest' as [|c2 rest2]; [discriminate|].
  cbn [nohead] in Hn. apply negb_false_iff in Hn. apply N.eqb_eq in Hn. subst c2.
  destruct (forallb is_b64char body) eqn:Hb; cbn [negb]; [|discriminate].
  destruct (b64_decode (lenN body mod 4 =? 0) false body) as [d|] eqn:Hd; [|discriminate].
  intros H. inversion H; subst.
  exists (42 :: body ++ [42]). split.
  - cbn [app]. rewrite <- app_assoc. reflexivity.
  - apply DI_bytes. eapply b64_decode_sound; eassumption.
Qed.

Lemma parse_string_sound s v rest : parse_string s = Ok (v, rest) ->
  exists i, s = i ++ rest /\ Derives_item i (ShStr v).
Proof.
  destruct s as [|c r]; [discriminate|]. cbn [parse_string].
  destruct (N.eqb_spec c 34) as [E|NE]; [|discriminate]. subst c. intros H.
  destruct (parse_string_body_sound _ r [] v rest (le_n _) H) as (body & v' & Er & Hb & Ev).
  cbn [rev app] in Ev. subst. exists (34 :: body ++ [34]). split.
  - cbn [app]. rewrite <- app_assoc. reflexivity.
  - apply DI_str. exact Hb.
Qed.

Lemma parse_item_sound s v rest : parse_item s = Ok (v, rest) ->
  exists i, s = i ++ rest /\ Derives_item i v.
Proof.
  destruct s as [|c r]; [discriminate|]. cbn [parse_item].
  destruct ((c =? 45) || is_digit c) eqn:E1.
  { destruct (parse_number (c :: r)) as [[z r']| | |] eqn:Hp; cbn [bind]; try discriminate.
    intros H. inversion H; subst. apply parse_number_sound. exact Hp. }
  destruct (c =? 34) eqn:E2.
  { destruct (parse_string (c :: r)) as [[z r']| | |] eqn:Hp; cbn [bind]; try discriminate.
    intros H. inversion H; subst. apply parse_string_sound. exact Hp. }
  destruct (c =? 42) eqn:E3.
  { destruct (parse_byte_sequence (c :: r)) as [[z r']| | |] eqn:Hp; cbn [bind]; try discriminate.
    intros H. inversion H; subst. apply parse_byte_sequence_sound. exact Hp. }
  destruct (is_alpha c) eqn:E4; [|discriminate].
  destruct (parse_token (c :: r)) as [[z r']| | |] eqn:Hp; cbn [bind]; try discriminate.
  intros H. inversion H; subst. apply parse_token_sound in Hp. destruct Hp as [E Ht].
  exists z. split; [exact E|]. apply DI_tok. exact Ht.
Qed.

Lemma parse_item_length s v rest : parse_item s = Ok (v, rest) -> (List.length rest <= List.length s)%nat.
Proof.
  intros H. apply parse_item_sound in H. destruct H as (i & E & _). subst. rewrite app_length. lia.
Qed.

(* parse_item never panics and needs no fuel *)
Definition good {A} (r : R A) : Prop := match r with Ok _ | Err => True | _ => False end.

Lemma parse_string_body_good s : forall acc, good (parse_string_body s acc).
Proof.
  assert (G : forall n s acc, (List.length s <= n)%nat -> good (parse_string_body s acc)).
  { induction n as [|n IH]; intros s0 acc Hl.
    - destruct s0; [exact I|cbn [List.length] in Hl; lia].
    - destruct s0 as [|c r]; [exact I|]. cbn [List.length] in Hl. cbn [parse_string_body].
      destruct (c =? 92).
      + destruct r as [|c2 r2]; [exact I|]. cbn [List.length] in Hl.
        destruct ((c2 =? 34) || (c2 =? 92)); [apply IH; lia|exact I].
      + destruct (c =? 34); [exact I|]. destruct ((c <? 32) || (126 <? c)); [exact I|]. apply IH. lia. }
  intros acc. apply (G _ _ _ (le_n _)).
Qed.

Lemma parse_item_good s : good (parse_item s).
Proof.
  destruct s as [|c r]; [exact I|]. cbn [parse_item].
  destruct ((c =? 45) || is_digit c) eqn:E1.
  { cbn [parse_number]. rewrite E1. destruct (span is_digit r) as [ds rest].
    destruct (c =? 45).
    - destruct ds; [exact I|]. cbv zeta. destruct (_ <=? _); exact I.
    - cbv zeta. destruct (_ <? _); exact I. }
  destruct (c =? 34) eqn:E2.
  { cbn [parse_string]. rewrite E2. pose proof (parse_string_body_good r []) as G.
    destruct (parse_string_body r []) as [[a b]| | |]; cbn [bind]; try exact I; exact G. }
  destruct (c =? 42) eqn:E3.
  { cbn [parse_byte_sequence]. rewrite E3. destruct (span _ r) as [body rest].
    destruct rest; [exact I|]. destruct (negb _); [exact I|]. destruct (b64_decode _ _ _); exact I. }
  destruct (is_alpha c) eqn:E4; [|exact I]. cbn [parse_token]. rewrite E4.
  destruct (span is_tokenchar (c :: r)). exact I.
Qed.

(* ---- values ---------------------------------------------------------------- *)
Lemma Derives_item_valid i v : Derives_item i v -> valid_item v.
Proof.
  intros [ds n Hd Hr|ds n Hd Hr|body v' Hb|t Ht|body data Hb]; cbn [valid_item].
  - exact Hr.
  - exact Hr.
  - eapply StrBody_printable. exact Hb.
  - exact Ht.
  - eapply B64_wfb. exact Hb.
Qed.

Lemma Derives_item_nonempty i v : Derives_item i v -> i <> [].
Proof.
  intros [ds n Hd Hr|ds n Hd Hr|body v' Hb|t Ht|body data Hb]; try discriminate.
  - apply DecVal_spec in Hd. tauto.
  - destruct t; [contradiction|discriminate].
Qed.

(* ---- serialize_item ---------------------------------------------------------- *)
Lemma serialize_item_derives i : valid_item i ->
  exists s, serialize_item i = Ok s /\ Derives_item s i.
Proof.
  destruct i as [z|s|t|b|]; cbn [valid_item serialize_item]; intros Hv.
  - eexists. split; [reflexivity|]. unfold dec_of_Z. destruct (Z.ltb_spec z 0) as [Hneg|Hpos].
    + eapply Derives_item_eq; [apply DI_neg; [apply dec_of_N_DecVal|]|].
      * unfold int64_range in *. lia.
      * f_equal. lia.
    + eapply Derives_item_eq; [apply DI_pos; [apply dec_of_N_DecVal|]|].
      * unfold int64_range in *. lia.
      * f_equal. lia.
  - assert (E : forallb (fun c => (32 <=? c) && (c <=? 126)) s = true).
    { apply (forallb_Forall _ PRINTABLE); [|exact Hv]. intros x. unfold PRINTABLE. lia. }
    rewrite E. eexists. split; [reflexivity|]. rewrite quote_eq. apply DI_str. apply esc_StrBody. exact Hv.
  - rewrite (proj2 (is_valid_token_iff t) Hv). eexists. split; [reflexivity|]. apply DI_tok. exact Hv.
  - eexists. split; [reflexivity|]. cbn [app]. apply DI_bytes. apply (b64_encode_B64 _ b (le_n _) Hv).
  - contradiction.
Qed.

Lemma serialize_item_ok_valid i s : serialize_item i = Ok s -> dom_item i -> valid_item i.
Proof.
  destruct i as [z|s0|t|b|]; cbn [valid_item serialize_item dom_item]; intros H Hd.
  - exact Hd.
  - destruct (forallb _ s0) eqn:E; [|discriminate].
    apply (forallb_Forall _ PRINTABLE) in E; [exact E|]. intros x. unfold PRINTABLE. lia.
  - destruct (is_valid_token t) eqn:E; [|discriminate]. apply is_valid_token_iff. exact E.
  - exact Hd.
  - discriminate.
Qed.

Lemma serialize_item_good i : good (serialize_item i).
Proof.
  destruct i as [z|s0|t|b|]; cbn [serialize_item]; try exact I.
  - destruct (forallb _ s0); exact I.
  - destruct (is_valid_token t); exact I.
Qed.
