(* Proofs/PathUrlTree.v - which exchanges a directory tree produces
   (Model/PathUrl.expected_exchanges): membership characterisation, the
   index.html rules, and "exactly one exchange per regular file". *)
From Coq Require Import Lia ZifyN ZifyNat ZifyBool.
From WP Require Import Base.Prelude Model.Url Model.UrlRef Model.Cbor Model.PathUrl.
From WP Require Import Spec.Cbor.
From WP Require Import Proofs.BaseLemmas Proofs.CborUtf8 Proofs.PathUrlEscape Proofs.PathUrlBase.
Open Scope N_scope.

Definition exch := (bytes * Z * bytes)%type.
Definition ex_url (x : exch) : bytes := fst (fst x).

(* URL of a directory: the base directory itself for the root, else with a
   trailing slash *)
Definition dir_url (bd rel : bytes) : bytes :=
  match rel with [] => bd | c :: r => bd ++ escape_path (c :: r) ++ [47] end.

(* where the index.html of directory d lives *)
Definition index_path (d : bytes) : bytes :=
  match d with [] => index_html | _ => d ++ [47] ++ index_html end.

Definition is_index (f : fentry) : bool := bytes_eqb (basename (f_rel f) []) index_html.

Definition contrib (bd : bytes) (tree : list fentry) (f : fentry) : list exch :=
  if f_dir f then
    match dir_index tree (f_rel f) with
    | Some content => [(dir_url bd (f_rel f), 200%Z, content)]
    | None => []
    end
  else if is_index f then [(bd ++ escape_path (f_rel f), 301%Z, [])]
       else [(bd ++ escape_path (f_rel f), 200%Z, f_content f)].

Definition name_ok (f : fentry) : Prop :=
  has_dotdot_elem (f_rel f) [] = false /\ utf8_valid (f_rel f) = true.

Lemma expected_eq (base : bytes) (tree : list fentry) :
  expected_exchanges base tree =
  match base_dir base with
  | None => None
  | Some bd =>
      if existsb (fun f => has_dotdot_elem (f_rel f) [] || negb (utf8_valid (f_rel f))) tree then None
      else Some (flat_map (contrib bd tree) tree)
  end.
Proof. reflexivity. Qed.

Lemma expected_unfold (base : bytes) (tree : list fentry) (xs : list exch) :
  expected_exchanges base tree = Some xs <->
  exists bd, base_dir base = Some bd /\ (forall f, In f tree -> name_ok f) /\
             xs = flat_map (contrib bd tree) tree.
Proof.
  rewrite expected_eq. split.
  - intros H. destruct (base_dir base) as [bd|]; [|discriminate H]. exists bd.
    destruct (existsb (fun f => has_dotdot_elem (f_rel f) [] || negb (utf8_valid (f_rel f))) tree) eqn:E;
      [discriminate H|].
    injection H as H. split; [reflexivity|]. split; [|symmetry; exact H].
    intros f Hf. unfold name_ok.
    destruct (has_dotdot_elem (f_rel f) []) eqn:E1.
    { assert (existsb (fun f => has_dotdot_elem (f_rel f) [] || negb (utf8_valid (f_rel f))) tree = true)
        as E' by (apply existsb_exists; exists f; rewrite E1; split; [exact Hf|reflexivity]).
      congruence. }
    destruct (utf8_valid (f_rel f)) eqn:E2; [split; reflexivity|].
    assert (existsb (fun f => has_dotdot_elem (f_rel f) [] || negb (utf8_valid (f_rel f))) tree = true)
      as E' by (apply existsb_exists; exists f; rewrite E1, E2; split; [exact Hf|reflexivity]).
    congruence.
  - intros [bd [Hb [Hn Hx]]]. rewrite Hb.
    destruct (existsb (fun f => has_dotdot_elem (f_rel f) [] || negb (utf8_valid (f_rel f))) tree) eqn:E.
    + apply existsb_exists in E. destruct E as [f [Hf E]]. destruct (Hn f Hf) as [E1 E2].
      rewrite E1, E2 in E. discriminate E.
    + subst xs. reflexivity.
Qed.

Lemma name_ok_wfb (f : fentry) : name_ok f -> wfb (f_rel f).
Proof. intros [_ H]. apply Utf8Valid_wfb, utf8_dfa_correct, H. Qed.

(* ---- dir_index ----------------------------------------------------------- *)
Theorem dir_index_sound (tree : list fentry) (d content : bytes) :
  dir_index tree d = Some content ->
  exists g, In g tree /\ f_dir g = false /\ f_rel g = index_path d /\ f_content g = content.
Proof.
  unfold dir_index. fold (index_path d).
  destruct (find (fun f => negb (f_dir f) && bytes_eqb (f_rel f) (index_path d)) tree) as [g|] eqn:E;
    [|discriminate].
  intros H. injection H as H. apply find_some in E. destruct E as [Hg E].
  apply andb_true_iff in E. destruct E as [E1 E2].
  apply negb_true_iff in E1. apply bytes_eqb_eq in E2.
  exists g. repeat split; assumption.
Qed.

Lemma nodup_key_inj {A B} (k : A -> B) (l : list A) :
  NoDup (map k l) -> forall a b, In a l -> In b l -> k a = k b -> a = b.
Proof.
  induction l as [|x l IH]; intros Hnd a b Ha Hb E; [destruct Ha|].
  cbn [map] in Hnd. inversion Hnd as [|y l' Hnin Hnd']. subst.
  destruct Ha as [Ha|Ha], Hb as [Hb|Hb].
  - congruence.
  - subst a. exfalso. apply Hnin. rewrite E. apply in_map, Hb.
  - subst b. exfalso. apply Hnin. rewrite <- E. apply in_map, Ha.
  - apply IH; assumption.
Qed.

Theorem dir_index_complete (tree : list fentry) (d : bytes) (g : fentry) :
  NoDup (map f_rel tree) ->
  In g tree -> f_dir g = false -> f_rel g = index_path d ->
  dir_index tree d = Some (f_content g).
Proof.
  intros Hnd Hg Hd Hr. unfold dir_index. fold (index_path d).
  destruct (find (fun f => negb (f_dir f) && bytes_eqb (f_rel f) (index_path d)) tree) as [h|] eqn:E.
  - apply find_some in E. destruct E as [Hh E].
    apply andb_true_iff in E. destruct E as [_ E2]. apply bytes_eqb_eq in E2.
    assert (h = g) as -> by (apply (nodup_key_inj f_rel tree Hnd); congruence).
    reflexivity.
  - pose proof (find_none _ _ E g Hg) as H. cbv beta in H.
    rewrite Hd, Hr, bytes_eqb_refl in H. discriminate H.
Qed.

(* the file that feeds a directory's exchange is itself "named index.html",
   and its own URL is the directory URL ++ "index.html" *)
Lemma basename_app_slash (a b : bytes) : forall cur,
  basename (a ++ 47 :: b) cur = basename b [].
Proof.
  induction a as [|c a IH]; intros cur; cbn [app basename].
  - reflexivity.
  - destruct (c =? 47); apply IH.
Qed.

Lemma index_path_basename (d : bytes) : basename (index_path d) [] = index_html.
Proof.
  unfold index_path. destruct d as [|c d]; [reflexivity|].
  change ((c :: d) ++ [47] ++ index_html) with ((c :: d) ++ 47 :: index_html).
  rewrite basename_app_slash. reflexivity.
Qed.

Lemma escape_index_html : escape_path index_html = index_html.
Proof. reflexivity. Qed.

Lemma index_file_url (bd d : bytes) :
  bd ++ escape_path (index_path d) = dir_url bd d ++ index_html.
Proof.
  unfold index_path, dir_url. destruct d as [|c d]; [reflexivity|].
  rewrite !escape_path_app, escape_index_html, <- !app_assoc. reflexivity.
Qed.

(* ---- membership ---------------------------------------------------------- *)
Theorem expected_exchanges_spec (base bd : bytes) (tree : list fentry) (xs : list exch) :
  expected_exchanges base tree = Some xs -> base_dir base = Some bd ->
  forall x, In x xs <->
    (exists f, In f tree /\ f_dir f = false /\ basename (f_rel f) [] <> index_html /\
               x = (bd ++ escape_path (f_rel f), 200%Z, f_content f)) \/
    (exists f, In f tree /\ f_dir f = false /\ basename (f_rel f) [] = index_html /\
               x = (bd ++ escape_path (f_rel f), 301%Z, [])) \/
    (exists f content, In f tree /\ f_dir f = true /\ dir_index tree (f_rel f) = Some content /\
               x = (dir_url bd (f_rel f), 200%Z, content)).
Proof.
  intros Hx Hb x. apply expected_unfold in Hx. destruct Hx as [bd' [Hb' [_ Hx]]].
  assert (bd' = bd) as -> by congruence. subst xs. rewrite in_flat_map. split.
  - intros [f [Hf Hin]]. unfold contrib in Hin. destruct (f_dir f) eqn:Ed.
    + destruct (dir_index tree (f_rel f)) as [content|] eqn:Ei; [|destruct Hin].
      destruct Hin as [E|[]]. right. right. exists f, content. repeat split; try assumption.
      symmetry. exact E.
    + unfold is_index in Hin. destruct (bytes_eqb (basename (f_rel f) []) index_html) eqn:Eb.
      * apply bytes_eqb_eq in Eb. destruct Hin as [E|[]]. right. left. exists f.
        repeat split; try assumption. symmetry. exact E.
      * apply bytes_eqb_neq in Eb. destruct Hin as [E|[]]. left. exists f.
        repeat split; try assumption. symmetry. exact E.
  - intros [[f [Hf [Ed [Eb E]]]]|[[f [Hf [Ed [Eb E]]]]|[f [content [Hf [Ed [Ei E]]]]]]];
      exists f; (split; [exact Hf|]); unfold contrib, is_index; rewrite Ed.
    + apply bytes_eqb_neq in Eb. rewrite Eb. left. symmetry. exact E.
    + rewrite Eb, bytes_eqb_refl. left. symmetry. exact E.
    + rewrite Ei. left. symmetry. exact E.
Qed.

Theorem expected_exchanges_defined (base bd : bytes) (tree : list fentry) :
  base_dir base = Some bd -> (forall f, In f tree -> name_ok f) ->
  exists xs, expected_exchanges base tree = Some xs.
Proof.
  intros Hb Hn. exists (flat_map (contrib bd tree) tree). apply expected_unfold.
  exists bd. repeat split; try assumption; apply Hn; assumption.
Qed.

(* every entry contributes at most one exchange, a regular file exactly one *)
Theorem file_contributes_one (bd : bytes) (tree : list fentry) (f : fentry) :
  f_dir f = false ->
  exists x, contrib bd tree f = [x] /\ ex_url x = bd ++ escape_path (f_rel f) /\
            x = (if is_index f then (bd ++ escape_path (f_rel f), 301%Z, [])
                 else (bd ++ escape_path (f_rel f), 200%Z, f_content f)).
Proof.
  intros Ed. unfold contrib. rewrite Ed. destruct (is_index f); eexists; repeat split.
Qed.

(* ---- distinct URLs -------------------------------------------------------- *)
Theorem file_urls_injective (bd p q : bytes) :
  wfb p -> wfb q -> bd ++ escape_path p = bd ++ escape_path q -> p = q.
Proof.
  intros Hp Hq E. apply app_inv_head in E. apply escape_injective; assumption.
Qed.

Theorem file_urls_nodup (bd : bytes) (tree : list fentry) :
  NoDup (map f_rel tree) -> (forall f, In f tree -> wfb (f_rel f)) ->
  NoDup (map (fun f => bd ++ escape_path (f_rel f)) (filter (fun f => negb (f_dir f)) tree)).
Proof.
  induction tree as [|a t IH]; intros Hnd Hw; [constructor|].
  cbn [map] in Hnd. inversion Hnd as [|y l' Hnin Hnd']. subst.
  assert (forall f, In f t -> wfb (f_rel f)) as Hw' by (intros f Hf; apply Hw; right; exact Hf).
  cbn [filter]. destruct (negb (f_dir a)); [|apply IH; assumption].
  cbn [map]. constructor; [|apply IH; assumption].
  intros Hin. apply in_map_iff in Hin. destruct Hin as [g [E Hg]].
  apply filter_In in Hg. destruct Hg as [Hg _].
  apply file_urls_injective in E; [|apply Hw'; exact Hg|apply Hw; left; reflexivity].
  apply Hnin. rewrite <- E. apply in_map, Hg.
Qed.

(* the URL an entry gets, if it gets one *)
Definition entry_url (bd : bytes) (f : fentry) : bytes :=
  if f_dir f then dir_url bd (f_rel f) else bd ++ escape_path (f_rel f).

(* relative paths as filepath.Walk/Rel produce them: distinct, no trailing
   '/', and only the root (a directory) has the empty path *)
Definition tree_ok (tree : list fentry) : Prop :=
  NoDup (map f_rel tree) /\
  forall f, In f tree -> (forall t, f_rel f <> t ++ [47]) /\ (f_dir f = false -> f_rel f <> []).

Lemma entry_url_injective (bd : bytes) (f g : fentry) :
  wfb (f_rel f) -> wfb (f_rel g) ->
  (forall t, f_rel f <> t ++ [47]) -> (forall t, f_rel g <> t ++ [47]) ->
  (f_dir f = false -> f_rel f <> []) -> (f_dir g = false -> f_rel g <> []) ->
  entry_url bd f = entry_url bd g -> f_rel f = f_rel g.
Proof.
  assert (forall p q, wfb p -> (forall t, p <> t ++ [47]) -> p <> [] ->
                      bd ++ escape_path p <> dir_url bd q) as Hfd.
  { intros p q Hp Hpn Hpne E.
    destruct (escape_last_not_slash p Hp Hpne Hpn) as [t [z [Et Hz]]]. rewrite Et in E.
    unfold dir_url in E. destruct q as [|c q].
    - rewrite <- (app_nil_r bd) in E at 2. apply app_inv_head in E.
      destruct t; discriminate E.
    - apply app_inv_head in E. apply app_inj_tail in E. destruct E as [_ E]. contradiction. }
  intros Hf Hg Hfn Hgn Hfe Hge E. unfold entry_url in E.
  destruct (f_dir f) eqn:Edf, (f_dir g) eqn:Edg.
  - unfold dir_url in E. destruct (f_rel f) as [|c p] eqn:Ef, (f_rel g) as [|c' q] eqn:Eg.
    + reflexivity.
    + rewrite <- (app_nil_r bd) in E at 1. apply app_inv_head in E.
      destruct (escape_path (c' :: q)); discriminate E.
    + rewrite <- (app_nil_r bd) in E at 2. apply app_inv_head in E.
      destruct (escape_path (c :: p)); discriminate E.
    + apply app_inv_head in E. apply app_inj_tail in E. destruct E as [E _].
      apply escape_injective; assumption.
  - exfalso. symmetry in E. revert E. apply Hfd; auto.
  - exfalso. revert E. apply Hfd; auto.
  - apply (file_urls_injective bd); assumption.
Qed.

Lemma nodup_flat_map_urls (g : fentry -> list exch) (U : fentry -> bytes) (l : list fentry) :
  NoDup (map f_rel l) ->
  (forall f x, In f l -> In x (g f) -> g f = [x] /\ ex_url x = U f) ->
  (forall f f', In f l -> In f' l -> U f = U f' -> f_rel f = f_rel f') ->
  NoDup (map ex_url (flat_map g l)).
Proof.
  induction l as [|a t IH]; intros Hnd Hg HU; [constructor|].
  cbn [map] in Hnd. inversion Hnd as [|y l' Hnin Hnd']. subst.
  assert (NoDup (map ex_url (flat_map g t))) as IH'.
  { apply IH; [exact Hnd'| |].
    - intros f x Hf Hx. apply Hg; [right; exact Hf|exact Hx].
    - intros f f' Hf Hf'. apply HU; right; assumption. }
  cbn [flat_map]. destruct (g a) as [|x rest] eqn:Ega; [exact IH'|].
  destruct (Hg a x (or_introl eq_refl)) as [E1 E2]; [rewrite Ega; left; reflexivity|].
  rewrite Ega in E1. injection E1 as E1. subst rest. cbn [app map]. constructor; [|exact IH'].
  intros Hin. apply in_map_iff in Hin. destruct Hin as [x' [Ex' Hx']].
  apply in_flat_map in Hx'. destruct Hx' as [f' [Hf' Hx']].
  destruct (Hg f' x' (or_intror Hf') Hx') as [_ E3].
  apply Hnin. rewrite (HU a f' (or_introl eq_refl) (or_intror Hf')) by congruence.
  apply in_map, Hf'.
Qed.

Theorem expected_urls_nodup (base : bytes) (tree : list fentry) (xs : list exch) :
  expected_exchanges base tree = Some xs -> tree_ok tree ->
  NoDup (map ex_url xs).
Proof.
  intros Hx [Hnd Hok]. apply expected_unfold in Hx. destruct Hx as [bd [Hb [Hn Hx]]]. subst xs.
  apply (nodup_flat_map_urls _ (entry_url bd)); [exact Hnd| |].
  - intros f x Hf Hin. unfold contrib, entry_url in *. destruct (f_dir f).
    + destruct (dir_index tree (f_rel f)); [|destruct Hin]. destruct Hin as [E|[]]. subst x.
      split; reflexivity.
    + destruct (is_index f); destruct Hin as [E|[]]; subst x; split; reflexivity.
  - intros f f' Hf Hf'. destruct (Hok f Hf) as [H1 H2]. destruct (Hok f' Hf') as [H1' H2'].
    apply entry_url_injective; try assumption; apply name_ok_wfb, Hn; assumption.
Qed.

(* "exactly one exchange per regular file": its exchange is in the list, at
   one position, and no other exchange has its URL *)
Theorem exactly_one_exchange_per_file (base bd : bytes) (tree : list fentry) (xs : list exch) (f : fentry) :
  expected_exchanges base tree = Some xs -> base_dir base = Some bd -> tree_ok tree ->
  In f tree -> f_dir f = false ->
  exists l1 x l2,
    xs = l1 ++ x :: l2 /\
    x = (if is_index f then (bd ++ escape_path (f_rel f), 301%Z, [])
         else (bd ++ escape_path (f_rel f), 200%Z, f_content f)) /\
    (forall y, In y (l1 ++ l2) -> ex_url y <> bd ++ escape_path (f_rel f)).
Proof.
  intros Hx Hb Hok Hf Ed. pose proof (expected_urls_nodup base tree xs Hx Hok) as Hnd.
  apply expected_unfold in Hx. destruct Hx as [bd' [Hb' [_ Hx]]].
  assert (bd' = bd) as -> by congruence.
  destruct (file_contributes_one bd tree f Ed) as [x [Ec [Eu Ex]]].
  assert (In x xs) as Hin.
  { subst xs. apply in_flat_map. exists f. split; [exact Hf|]. rewrite Ec. left. reflexivity. }
  apply in_split in Hin. destruct Hin as [l1 [l2 E]]. exists l1, x, l2.
  split; [exact E|]. split; [exact Ex|].
  intros y Hy Ey. rewrite E in Hnd. rewrite map_app in Hnd. cbn [map] in Hnd.
  apply NoDup_remove_2 in Hnd. apply Hnd. rewrite <- map_app, Eu, <- Ey. apply in_map, Hy.
Qed.

(* ---- every URL is one the bundle reader accepts ---------------------------- *)
Theorem expected_urls_accepted (base bd : bytes) (tree : list fentry) (xs : list exch) :
  expected_exchanges base tree = Some xs -> base_dir base = Some bd ->
  url_ref bd = ROk true false false ->
  (forall f, In f tree -> forall t, f_rel f <> 47 :: t) ->
  Forall (fun x => url_ref (ex_url x) = ROk true false false) xs.
Proof.
  intros Hx Hb Hu Hrel. apply Forall_forall. intros x Hin.
  pose proof Hx as Hx'. apply expected_unfold in Hx'. destruct Hx' as [bd' [Hb' [Hn _]]].
  apply (expected_exchanges_spec base bd tree xs Hx Hb) in Hin.
  destruct Hin as [[f [Hf [Ed [Eb E]]]]|[[f [Hf [Ed [Eb E]]]]|[f [content [Hf [Ed [Ei E]]]]]]];
    subst x; cbn [ex_url fst];
    pose proof (name_ok_wfb f (Hn f Hf)) as Hw;
    destruct (dir_url_accepted base bd (f_rel f) Hb Hu Hw (Hrel f Hf)) as [H1 H2].
  - exact H1.
  - exact H1.
  - unfold dir_url. destruct (f_rel f) as [|c r] eqn:Er; [exact Hu|]. apply H2. discriminate.
Qed.

(* the same with the weakest premise: url_ref decides the directory URL
   (it never answers RErr there: PathUrlBase.base_dir_url_ref_cases) *)
Theorem expected_urls_accepted_min (base bd : bytes) (tree : list fentry) (xs : list exch) :
  expected_exchanges base tree = Some xs -> base_dir base = Some bd ->
  url_ref bd <> RUnknown ->
  (forall f, In f tree -> forall t, f_rel f <> 47 :: t) ->
  Forall (fun x => url_ref (ex_url x) = ROk true false false) xs.
Proof.
  intros Hx Hb Hu Hrel.
  destruct (base_dir_url_ref_cases base bd Hb) as [Hok|Hun]; [|contradiction].
  exact (expected_urls_accepted base bd tree xs Hx Hb Hok Hrel).
Qed.
