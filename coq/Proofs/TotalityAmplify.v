(* Proofs/TotalityAmplify.v - C10, the part of the memory claim that is FALSE
   of bundle.Read (known finding K1).

   The bundle format lets several index entries name the same (offset, length)
   in the responses section - multi-key Variant-Key entries do so by design -
   and Read materialises one private copy of the response per index entry.
   So the total size of the bodies handed back is NOT bounded by a small
   multiple of the input: k entries sharing one L-byte response give k*L body
   bytes from about L + 30k input bytes.  (Each body IS a segment of the
   input - C05 read_bodies_in_input - they just overlap.)

   Witness: a b2 bundle assembled from the model's own encoders: 60 distinct
   URLs, all pointing at the single response item, whose body has 2000 bytes.
   3390 input bytes, 120000 body bytes (factor 35). *)
From Coq Require Import Lia.
From WP Require Import Base.Prelude Model.Cbor Model.Http Model.CertChain Model.Bundle.
Open Scope N_scope.

Definition body_bytes (b : bundle) : N :=
  fold_right (fun x n => lenN (bx_body x) + n) 0 (b_exchanges b).

Definition amp_body : bytes := N.iter 2000 (cons 65) [].
Definition amp_item : bytes :=
  match encode_response {| bx_url := []; bx_status := 200; bx_hdr := []; bx_body := amp_body |} with
  | Ok b => b
  | _ => []
  end.
Definition amp_resp : bytes := enc_array_header 1 ++ amp_item.
Definition amp_url (i : N) : bytes := s2b "https://e.com/" ++ [48 + i / 10; 48 + i mod 10].
Definition amp_count : N := 60.
Definition amp_indices : list N := map N.of_nat (seq 0 (N.to_nat amp_count)).
(* every URL -> [offset 1 (after the array head), length of the one item] *)
Definition amp_index : bytes :=
  enc_map_header amp_count
  ++ flat_map (fun i => enc_bytes_of TText (amp_url i) ++ enc_array_header 2
                        ++ enc_uint 1 ++ enc_uint (lenN amp_item)) amp_indices.
Definition amp_secs : list (bytes * bytes) := [(s2b "index", amp_index); (s2b "responses", amp_resp)].
Definition amp_bytes : bytes :=
  let body := header_magic_bytes BV2 ++ section_table amp_secs
              ++ enc_array_header (lenN amp_secs) ++ flat_map snd amp_secs in
  body ++ enc_bytes (be 8 (w64 (lenN body + 9))).

Definition any_cert (_ : bytes) : bool := true.

Lemma amp_check :
  match b_read any_cert amp_bytes with
  | Ok b => (20 * lenN amp_bytes <? body_bytes b)
            && (lenN amp_bytes =? 3390) && (body_bytes b =? 120000)
            && (lenN (b_exchanges b) =? 60) && negb (b_taint b)
  | _ => false
  end = true.
Proof. vm_compute. reflexivity. Qed.

Theorem bundle_read_amplifies_refuted :
  exists (bs : bytes) (b : bundle),
    b_read any_cert bs = Ok b /\ 20 * lenN bs < body_bytes b.
Proof.
  pose proof amp_check as C.
  destruct (b_read any_cert amp_bytes) as [b| | |] eqn:E;
    [|discriminate C|discriminate C|discriminate C].
  exists amp_bytes, b. split; [exact E|].
  apply andb_prop in C. destruct C as [C _]. apply andb_prop in C. destruct C as [C _].
  apply andb_prop in C. destruct C as [C _]. apply andb_prop in C. destruct C as [C _].
  apply N.ltb_lt. exact C.
Qed.

(* the same with the numbers spelled out, and the input within the reader's domain *)
Theorem bundle_read_amplifies_numbers :
  exists b : bundle,
    b_read any_cert amp_bytes = Ok b /\ lenN amp_bytes = 3390 /\ lenN amp_bytes < two64 /\
    body_bytes b = 120000 /\ lenN (b_exchanges b) = 60 /\ b_taint b = false.
Proof.
  pose proof amp_check as C.
  destruct (b_read any_cert amp_bytes) as [b| | |] eqn:E;
    [|discriminate C|discriminate C|discriminate C].
  exists b.
  apply andb_prop in C. destruct C as [C T]. apply andb_prop in C. destruct C as [C C4].
  apply andb_prop in C. destruct C as [C C3]. apply andb_prop in C. destruct C as [_ C2].
  apply N.eqb_eq in C2. apply N.eqb_eq in C3. apply N.eqb_eq in C4.
  split; [reflexivity|]. split; [exact C2|]. split; [rewrite C2; reflexivity|].
  split; [exact C3|]. split; [exact C4|]. destruct (b_taint b); [discriminate T|reflexivity].
Qed.
