(* Proofs/BundleRoundtripRead.v - C03, part 3: loadMetadata on a file laid out as
   Spec.Bundle.file_body: header, section table, sections, footer. *)
From Coq Require Import Lia ZifyN ZifyNat ZifyBool Permutation Sorted.
From WP Require Import Base.Prelude Base.Decimal Model.Cbor Model.Http Model.UrlRef Model.Variants
  Model.CertChain Model.Bundle.
From WP Require Import Spec.Cbor Spec.Bundle.
From WP Require Import Proofs.BaseLemmas Proofs.CborHead Proofs.CborMap Proofs.CborDecode
  Proofs.Variants Proofs.BundleWriteBasics Proofs.BundleWriteSpec Proofs.BundleWriteSig
  Proofs.BundleWriteForm Proofs.BundleRoundtripResp Proofs.BundleRoundtripMeta.
Open Scope N_scope.

Section Read.
  Variable x509_ok : bytes -> bool.

  (* ---- a run of sections, none of them "responses" ---------------------------------------- *)
  Fixpoint fold_effects (v : bversion) (all : list (bytes * N)) (ss : N) (secs : list (bytes * bytes))
           (m : meta) : R meta :=
    match secs with
    | [] => Ok m
    | (name, body) :: t =>
        let* m1 := sec_effect x509_ok v all ss name body m in fold_effects v all ss t m1
    end.

  Lemma fold_effects_app v all ss (a c : list (bytes * bytes)) (m : meta) :
    fold_effects v all ss (a ++ c) m =
    let* m1 := fold_effects v all ss a m in fold_effects v all ss c m1.
  Proof.
    revert m. induction a as [|[n b] t IH]; intros m; cbn [app fold_effects]; [reflexivity|].
    destruct (sec_effect x509_ok v all ss n b m); cbn [bind]; try reflexivity. apply IH.
  Qed.

  Lemma load_sections_walk (v : bversion) (bs post : bytes) (all rest_sos : list (bytes * N)) (ss : N)
        (secs : list (bytes * bytes)) : forall pre m,
    bs = pre ++ List.concat (map snd secs) ++ post -> 1 <= lenN post -> lenN bs < two64 ->
    Forall (fun s => known_name (fst s) = true /\ bytes_eqb (fst s) (s2b "responses") = false) secs ->
    load_sections x509_ok v bs all (sos_of secs ++ rest_sos) (lenN pre) ss m =
    let* m' := fold_effects v all ss secs m in
    load_sections x509_ok v bs all rest_sos (lenN pre + lenN (List.concat (map snd secs))) ss m'.
  Proof.
    induction secs as [|[n b] t IH]; intros pre m E Lp L F.
    - cbn [sos_of map app fold_effects bind List.concat lenN]. rewrite N.add_0_r. reflexivity.
    - apply Forall_cons_iff in F. destruct F as [[K NR] Ft]. cbn [fst snd] in *.
      cbn [sos_of map app fst snd List.concat fold_effects] in *. fold (sos_of t).
      rewrite <- app_assoc in E.
      rewrite (load_sections_step x509_ok v _ pre b (List.concat (map snd t) ++ post)); try assumption.
      2:{ rewrite lenN_app. lia. }
      destruct (sec_effect x509_ok v all ss n b m) as [m1| | |]; cbn [bind]; try reflexivity.
      rewrite <- lenN_app. rewrite (IH (pre ++ b) m1); [|rewrite <- app_assoc; exact E|exact Lp|exact L|exact Ft].
      rewrite !lenN_app. rewrite N.add_assoc. reflexivity.
  Qed.

  (* ---- the effects of the individual sections ----------------------------------------------- *)
  Definition abs_okb (u : bytes) : bool :=
    match url_ref u with ROk true false false => utf8_valid u | _ => false end.
  Definition url_okb (u : bytes) : bool :=
    match url_ref u with ROk _ false false => utf8_valid u | _ => false end.
  Definition any_okb (u : bytes) : bool :=
    match url_ref u with ROk _ _ _ => utf8_valid u | _ => false end.

  Lemma abs_okb_spec u : abs_okb u = true -> utf8_valid u = true /\ abs_url_ok u = (true, false).
  Proof.
    unfold abs_okb, abs_url_ok. destruct (url_ref u) as [|[|] [|] [|]|]; try discriminate. auto.
  Qed.
  Lemma url_okb_spec u : url_okb u = true -> utf8_valid u = true /\ index_url_ok u = (true, false).
  Proof.
    unfold url_okb, index_url_ok. destruct (url_ref u) as [|a [|] [|]|]; try discriminate. auto.
  Qed.
  Lemma any_okb_spec u : any_okb u = true -> utf8_valid u = true /\ any_url_ok u = (true, false).
  Proof.
    unfold any_okb, any_url_ok. destruct (url_ref u) as [|a f c|]; try discriminate. auto.
  Qed.

  Lemma effect_primary v all ss u m :
    abs_okb u = true -> lenN u < two63 ->
    sec_effect x509_ok v all ss n_primary (text_item u) m =
    Ok {| m_primary := Some u; m_manifest := m_manifest m; m_sigs := m_sigs m;
          m_locs := m_locs m; m_taint := m_taint m || false |}.
  Proof.
    intros A L. apply abs_okb_spec in A. destruct A as [U A]. unfold sec_effect.
    replace (bytes_eqb n_primary (s2b "index")) with false by reflexivity.
    replace (bytes_eqb n_primary (s2b "primary")) with true by reflexivity.
    rewrite <- (app_nil_r (text_item u)), decode_text_item by assumption. cbn [bind]. rewrite A. reflexivity.
  Qed.

  Lemma effect_manifest v all ss u m :
    abs_okb u = true -> lenN u < two63 ->
    sec_effect x509_ok v all ss n_manifest (text_item u) m =
    Ok {| m_primary := m_primary m; m_manifest := Some u; m_sigs := m_sigs m;
          m_locs := m_locs m; m_taint := m_taint m || false |}.
  Proof.
    intros A L. apply abs_okb_spec in A. destruct A as [U A]. unfold sec_effect.
    replace (bytes_eqb n_manifest (s2b "index")) with false by reflexivity.
    replace (bytes_eqb n_manifest (s2b "primary")) with false by reflexivity.
    replace (bytes_eqb n_manifest (s2b "manifest")) with true by reflexivity.
    rewrite <- (app_nil_r (text_item u)), decode_text_item by assumption. cbn [bind]. rewrite A. reflexivity.
  Qed.

  Lemma effect_signatures v all ss sb s m :
    parse_signatures x509_ok sb = Ok s ->
    sec_effect x509_ok v all ss n_signatures sb m =
    Ok {| m_primary := m_primary m; m_manifest := m_manifest m; m_sigs := Some s;
          m_locs := m_locs m; m_taint := m_taint m |}.
  Proof.
    intros P. unfold sec_effect.
    replace (bytes_eqb n_signatures (s2b "index")) with false by reflexivity.
    replace (bytes_eqb n_signatures (s2b "primary")) with false by reflexivity.
    replace (bytes_eqb n_signatures (s2b "manifest")) with false by reflexivity.
    rewrite P. reflexivity.
  Qed.

  Lemma effect_index v all ss idx rlen rel m :
    find_section all (s2b "responses") = Some (rlen, rel) ->
    lenN idx < two63 -> Forall (ix_ok v rlen) idx ->
    sec_effect x509_ok v all ss n_index (index_body v idx) m =
    Ok {| m_primary := m_primary m; m_manifest := m_manifest m; m_sigs := m_sigs m;
          m_locs := flat_map (ix_locs_of (w64 (ss + rel))) idx; m_taint := m_taint m |}.
  Proof.
    intros Fs L F. unfold sec_effect.
    replace (bytes_eqb n_index (s2b "index")) with true by reflexivity. rewrite Fs.
    unfold index_body. rewrite <- (app_nil_r (flat_map _ idx)).
    rewrite decode_map_item by (unfold two63, two64 in *; lia). cbn [bind].
    change (fun e => index_key e ++ index_val v e) with (ix_bytes v).
    rewrite parse_index_run; [reflexivity| |exact F].
    rewrite app_nil_r.
    assert (G : lenN idx <= lenN (flat_map (ix_bytes v) idx)).
    { apply lenN_flat_map_ge. intros e. unfold ix_bytes, index_key, text_item. cbn [senc_token].
      rewrite !lenN_app. pose proof (senc_head_len_ge 3 (lenN (ix_url e))). lia. }
    rewrite !lenN_length in G. lia.
  Qed.

  (* ---- loadMetadata on a file with the standard layout ------------------------------------------ *)
  Definition meta0 (po : option bytes) : meta :=
    {| m_primary := po; m_manifest := None; m_sigs := None; m_locs := []; m_taint := false |}.

  Lemma rev_sos_last (front : list (bytes * bytes)) (rb : bytes) :
    rev (sos_of (front ++ [(n_responses, rb)])) = (n_responses, lenN rb) :: rev (sos_of front).
  Proof. unfold sos_of. rewrite map_app, rev_app_distr. reflexivity. Qed.

  Lemma load_metadata_layout (v : bversion) (po : option bytes) (front : list (bytes * bytes)) (rb footer bs : bytes) :
    let secs := front ++ [(n_responses, rb)] in
    let P := magic v ++ (match po with Some u => text_item u | None => [] end)
             ++ bstr_item (table_body secs) ++ arr_head (lenN secs) in
    bs = P ++ List.concat (map snd secs) ++ footer ->
    1 <= lenN footer -> lenN bs < two63 ->
    (match v, po with
     | BV1, Some u => any_okb u = true
     | BV2, None => True
     | _, _ => False end) ->
    NoDup (map fst secs) -> Forall sec_ok secs -> lenN (table_body secs) < 8192 ->
    Forall (fun s => known_name (fst s) = true /\ bytes_eqb (fst s) (s2b "responses") = false) front ->
    load_metadata x509_ok bs =
    let* m := fold_effects v (sos_of secs) (lenN P) front (meta0 po) in Ok (v, m).
  Proof.
    intros secs P E Lf L Hpo ND Fs Ltb Ff.
    assert (Lb : lenN bs = lenN P + lenN (List.concat (map snd secs)) + lenN footer)
      by (rewrite E, !lenN_app; lia).
    assert (Lsecs : lenN secs <= lenN (table_body secs)).
    { unfold table_body. rewrite lenN_app.
      assert (G : lenN secs <= lenN (flat_map sec_enc secs)).
      { apply lenN_flat_map_ge. intros s. unfold sec_enc, text_item. cbn [senc_token]. rewrite !lenN_app.
        pose proof (senc_head_len_ge 3 (lenN (fst s))). lia. }
      unfold sec_enc in G. unfold bytes in *. lia. }
    unfold load_metadata.
    assert (H1 : parse_magic bs = Ok (v, (match po with Some u => text_item u | None => [] end)
                                          ++ bstr_item (table_body secs) ++ arr_head (lenN secs)
                                          ++ List.concat (map snd secs) ++ footer)).
    { rewrite E. unfold P. rewrite <- !app_assoc. apply parse_magic_ok. }
    rewrite H1. cbn [bind].
    (* the primary URL in the header (b1) *)
    match goal with
    | |- context [if has_primary_in_header v then ?X else ?Y] =>
        assert (H2 : (if has_primary_in_header v then X else Y)
                     = Ok (po, false, bstr_item (table_body secs) ++ arr_head (lenN secs)
                                      ++ List.concat (map snd secs) ++ footer))
    end.
    { destruct v, po as [u|]; try contradiction; cbn [has_primary_in_header].
      - apply any_okb_spec in Hpo. destruct Hpo as [U A].
        assert (Lu : lenN u < two63).
        { unfold P in Lb. rewrite !lenN_app in Lb. unfold text_item in Lb. cbn [senc_token] in Lb.
          rewrite lenN_app in Lb. unfold bytes in *. lia. }
        rewrite decode_text_item by assumption. cbn [bind]. rewrite A. reflexivity.
      - reflexivity. }
    rewrite H2. cbn [bind]. clear H1 H2.
    rewrite decode_bytes_item by (unfold two63; lia). cbn [bind].
    replace (8192 <=? lenN (table_body secs)) with false by lia.
    rewrite decode_section_lengths_ok; [|unfold two64; lia|exact Fs|exact ND]. cbn [bind].
    rewrite decode_arr_item by (unfold two64; lia). cbn [bind].
    unfold sos_of at 1. rewrite lenN_map, N.eqb_refl. cbn [negb].
    assert (Er : rev (sos_of secs) = (n_responses, lenN rb) :: rev (sos_of front)) by apply rev_sos_last.
    rewrite Er.
    replace (bytes_eqb n_responses (s2b "responses")) with true by reflexivity. cbn [negb].
    replace (lenN bs - lenN (List.concat (map snd secs) ++ footer)) with (lenN P)
      by (rewrite lenN_app; lia).
    rewrite sections_fit_ok by lia. cbn [negb].
    assert (Es : sos_of secs = sos_of front ++ [(n_responses, lenN rb)])
      by (unfold secs, sos_of; rewrite map_app; reflexivity).
    assert (E' : bs = P ++ List.concat (map snd front) ++ (rb ++ footer)).
    { rewrite E. unfold secs. rewrite map_app, concat_app. cbn [map snd List.concat].
      rewrite app_nil_r, <- !app_assoc. reflexivity. }
    fold (meta0 po).
    replace (load_sections x509_ok v bs (sos_of secs) (sos_of secs) (lenN P) (lenN P) (meta0 po))
      with (load_sections x509_ok v bs (sos_of secs) (sos_of front ++ [(n_responses, lenN rb)])
                          (lenN P) (lenN P) (meta0 po)) by (rewrite <- Es; reflexivity).
    rewrite (load_sections_walk v bs (rb ++ footer) _ _ (lenN P) front P (meta0 po) E');
      [|rewrite lenN_app; lia|unfold two63, two64 in *; lia|exact Ff].
    fold (meta0 po).
    destruct (fold_effects v (sos_of secs) (lenN P) front (meta0 po)) as [m| | |]; cbn [bind]; reflexivity.
  Qed.
End Read.
