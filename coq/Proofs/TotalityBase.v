(* Proofs/TotalityBase.v - C10: the shape of a totality statement.
   In the models [Panic] is a Go run-time panic and [Fuel] is a loop that did
   not finish within its fuel (non-termination), so "terminates with a value
   or an error, no panic" is  r <> Panic /\ r <> Fuel. *)
From WP Require Import Base.Prelude Model.Cbor.
From WP Require Import Proofs.CborDecode.
Open Scope N_scope.

Definition total {A} (r : R A) : Prop := r <> Panic /\ r <> Fuel.

Lemma ok_or_err_total {A} (r : R A) : ok_or_err r -> total r.
Proof. unfold total. destruct r; cbn; intros H; try contradiction; split; discriminate. Qed.

Lemma total_ok_or_err {A} (r : R A) : total r -> ok_or_err r.
Proof. unfold total. intros [NP NF]. destruct r; cbn; auto. Qed.

Lemma total_Ok {A} (a : A) : total (Ok a).
Proof. split; discriminate. Qed.
Lemma total_Err {A} : total (@Err A).
Proof. split; discriminate. Qed.

Lemma total_bind {A B} (x : R A) (f : A -> R B) :
  total x -> (forall a, x = Ok a -> total (f a)) -> total (bind x f).
Proof.
  intros [NP NF] Hf. destruct x as [a| | |]; cbn [bind];
    [apply Hf; reflexivity|apply total_Err|congruence|congruence].
Qed.

Lemma either_total {A} (r : R A) : (r = Err \/ exists a, r = Ok a) -> total r.
Proof. intros [->|[a ->]]; [apply total_Err|apply total_Ok]. Qed.
