(* Proofs/TruncationSxg.v - signed exchanges read from a source that stops early.

   ReadExchangePrologue is truncation-exact (Tr read_prologue): the prologue
   (magic, fallback URL, the two 3-byte lengths, Signature header value,
   CBOR header block) is read by length-prefixed slices, and the header block
   is decoded from its own slice.  The payload is "the rest of the input".
   Therefore, for EVERY input bs (not only written ones) and every cut p:
     - p inside the prologue          -> read (firstn p bs) = Err
     - p at / behind the prologue end -> read (firstn p bs) = the full result
                                          with the payload cut to what is there. *)
From Coq Require Import Lia ZifyN ZifyNat ZifyBool.
From WP Require Import Base.Prelude Model.Cbor Model.BigEndian Model.Http Model.Sxg.
From WP Require Import Proofs.BaseLemmas Proofs.CborDecode Proofs.SxgReadDefs Proofs.SxgRoundtrip
  Proofs.TruncationBase.
Open Scope N_scope.

Definition with_payload (e : exchange) (pl : bytes) : exchange :=
  {| e_ver := e_ver e; e_uri := e_uri e; e_method := e_method e; e_reqh := e_reqh e;
     e_status := e_status e; e_resph := e_resph e; e_sig := e_sig e; e_payload := pl;
     e_taint := e_taint e |}.

Lemma read_as_prologue (bs : bytes) :
  read bs = let* (e, rest) := read_prologue bs in Ok (with_payload e rest).
Proof. reflexivity. Qed.

Lemma with_payload_payload (e : exchange) (pl : bytes) : e_payload (with_payload e pl) = pl.
Proof. reflexivity. Qed.

Lemma with_payload_twice (e : exchange) (a b : bytes) :
  with_payload (with_payload e a) b = with_payload e b.
Proof. reflexivity. Qed.

Lemma with_payload_self (e : exchange) : with_payload e (e_payload e) = e.
Proof. destruct e; reflexivity. Qed.

(* the fallback-URL part of the prologue (b2, b3), as a stream parser *)
Definition read_uri (v : version) (r0 : bytes) : R (bytes * bool * bytes) :=
  match v with
  | V1b1 => Ok ([], false, r0)
  | _ =>
      let* (lb, ra) := of_opt (splitN r0 2) in
      let* (u, rb) := of_opt (splitN ra (unbe lb)) in
      let '(ok, t) := validate_fallback u in
      if ok then Ok (u, t, rb) else Err
  end.

Lemma Tr_read_uri (v : version) : Tr (read_uri v).
Proof.
  assert (G : Tr (fun r0 : bytes =>
            let* (lb, ra) := of_opt (splitN r0 2) in
            (fun lb ra =>
               let* (u, rb) := of_opt (splitN ra (unbe lb)) in
               (fun u rb => if fst (validate_fallback u)
                            then Ok (u, snd (validate_fallback u), rb) else Err) u rb) lb ra)).
  { apply Tr_bind; [apply Tr_split|]. intros lb.
    apply Tr_bind; [apply Tr_split|]. intros u.
    apply Tr_if; [apply (Tr_ret (u, snd (validate_fallback u)))|apply Tr_fail]. }
  assert (E : forall r0,
            (let* (lb, ra) := of_opt (splitN r0 2) in
             (fun lb ra =>
                let* (u, rb) := of_opt (splitN ra (unbe lb)) in
                (fun u rb => if fst (validate_fallback u)
                             then Ok (u, snd (validate_fallback u), rb) else Err) u rb) lb ra)
            = (let* (lb, ra) := of_opt (splitN r0 2) in
               let* (u, rb) := of_opt (splitN ra (unbe lb)) in
               let '(ok, t) := validate_fallback u in
               if ok then Ok (u, t, rb) else Err)).
  { intros r0. destruct (splitN r0 2) as [[lb ra]|]; cbn [of_opt bind]; [|reflexivity].
    destruct (splitN ra (unbe lb)) as [[u rb]|]; cbn [of_opt bind]; [|reflexivity].
    destruct (validate_fallback u) as [ok t]. reflexivity. }
  destruct v; cbn [read_uri].
  - apply (Tr_ret ([], false)).
  - eapply Tr_ext; [exact E|exact G].
  - eapply Tr_ext; [exact E|exact G].
Qed.

(* everything behind the fallback URL *)
Definition read_tail (v : version) (uri : bytes) (taint : bool) (r1 : bytes) : R (exchange * bytes) :=
  let* (sl, r2) := of_opt (splitN r1 3) in
  let* (hl, r3) := of_opt (splitN r2 3) in
  let* (sig, r4) := of_opt (splitN r3 (decode3 sl)) in
  let* (hdr, r5) := of_opt (splitN r4 (decode3 hl)) in
  let* s := decode_exchange_headers v hdr
              {| h_method := []; h_uri := uri; h_req := []; h_status := 0%Z; h_resp := [];
                 h_taint := taint |} in
  Ok ({| e_ver := v; e_uri := h_uri s; e_method := h_method s; e_reqh := h_req s;
         e_status := h_status s; e_resph := h_resp s; e_sig := sig; e_payload := [];
         e_taint := h_taint s |}, r5).

Lemma Tr_read_tail (v : version) (uri : bytes) (taint : bool) : Tr (read_tail v uri taint).
Proof.
  unfold read_tail.
  apply (Tr_bind (fun r1 : bytes => of_opt (splitN r1 3))); [apply Tr_split|]. intros sl.
  apply (Tr_bind (fun r2 : bytes => of_opt (splitN r2 3))); [apply Tr_split|]. intros hl.
  apply (Tr_bind (fun r3 : bytes => of_opt (splitN r3 (decode3 sl)))); [apply Tr_split|]. intros sig.
  apply (Tr_bind (fun r4 : bytes => of_opt (splitN r4 (decode3 hl)))); [apply Tr_split|]. intros hdr.
  apply (Tr_cbind (decode_exchange_headers v hdr
           {| h_method := []; h_uri := uri; h_req := []; h_status := 0%Z; h_resp := [];
              h_taint := taint |})).
  intros s. apply Tr_ret.
Qed.

Lemma read_prologue_parts (bs : bytes) :
  read_prologue bs =
  let* (magic, r0) := of_opt (splitN bs 8) in
  (fun magic r0 =>
     let* v := of_opt (from_magic magic) in
     (fun v r0 =>
        let* (ut, r1) := read_uri v r0 in
        (fun ut r1 => read_tail v (fst ut) (snd ut) r1) ut r1) v r0) magic r0.
Proof.
  unfold read_prologue, read_tail.
  destruct (splitN bs 8) as [[magic r0]|]; cbn [of_opt bind]; [|reflexivity].
  destruct (from_magic magic) as [v|]; cbn [of_opt bind]; [|reflexivity].
  destruct v; cbn [read_uri bind fst snd]; try reflexivity;
    (destruct (splitN r0 2) as [[lb ra]|]; cbn [of_opt bind]; [|reflexivity];
     destruct (splitN ra (unbe lb)) as [[u rb]|]; cbn [of_opt bind]; [|reflexivity];
     destruct (validate_fallback u) as [ok t]; destruct ok; cbn [bind fst snd]; reflexivity).
Qed.

Theorem Tr_read_prologue : Tr read_prologue.
Proof.
  eapply Tr_ext; [intros bs; symmetry; apply read_prologue_parts|].
  apply Tr_bind; [apply Tr_split|]. intros magic.
  apply (Tr_cbind (of_opt (from_magic magic))). intros v.
  apply Tr_bind; [apply Tr_read_uri|]. intros ut. apply Tr_read_tail.
Qed.

(* ---- the statements ---------------------------------------------------------------------- *)
(* the prologue of an accepted input: everything before the payload *)
Definition prologue_len (bs : bytes) (e : exchange) : nat :=
  (List.length bs - List.length (e_payload e))%nat.

Lemma read_ok_prologue (bs : bytes) (e : exchange) :
  read bs = Ok e ->
  exists e0, read_prologue bs = Ok (e0, e_payload e) /\ e = with_payload e0 (e_payload e).
Proof.
  rewrite read_as_prologue. intros H.
  destruct (read_prologue bs) as [[e0 rest]| | |]; cbn [bind] in H; try discriminate.
  inversion H; subst e. exists e0. split; reflexivity.
Qed.

(* for EVERY accepted input: a cut inside the prologue is refused *)
Theorem read_truncated_prologue (bs : bytes) (e : exchange) (p : nat) :
  read bs = Ok e -> (p < prologue_len bs e)%nat -> read (firstn p bs) = Err.
Proof.
  intros H Hp. destruct (read_ok_prologue bs e H) as [e0 [Hr _]].
  rewrite read_as_prologue, (Tr_short _ Tr_read_prologue _ _ _ p Hr Hp). reflexivity.
Qed.

(* ... and a cut in the payload yields the same exchange with the payload cut there *)
Theorem read_truncated_payload (bs : bytes) (e : exchange) (p : nat) :
  read bs = Ok e -> (prologue_len bs e <= p)%nat ->
  read (firstn p bs) = Ok (with_payload e (firstn (p - prologue_len bs e) (e_payload e))).
Proof.
  intros H Hp. destruct (read_ok_prologue bs e H) as [e0 [Hr E]].
  assert (W : forall pl, with_payload e0 pl = with_payload e pl)
    by (intros pl; rewrite E; reflexivity).
  rewrite read_as_prologue, (Tr_long _ Tr_read_prologue _ _ _ p Hr Hp). cbn [bind].
  rewrite W. reflexivity.
Qed.

(* an input that is refused is refused at every cut *)
Theorem read_truncated_of_refused (bs : bytes) (p : nat) :
  read bs = Err -> read (firstn p bs) = Err.
Proof.
  intros H. pose proof (read_never_panics (firstn p bs)) as T.
  destruct (read (firstn p bs)) as [e'| | |] eqn:E; try contradiction; [|reflexivity].
  exfalso. rewrite read_as_prologue in E.
  destruct (read_prologue (firstn p bs)) as [[e0 r]| | |] eqn:Ep; cbn [bind] in E; try discriminate.
  apply (Tr_prefix_ok _ Tr_read_prologue) in Ep.
  rewrite read_as_prologue, Ep in H. discriminate.
Qed.

(* all inputs, all cuts, one statement: refused, or the full result up to a
   shorter payload - never a different exchange, never a panic *)
Theorem read_truncated_any (bs : bytes) (p : nat) :
  read (firstn p bs) = Err \/
  exists e, read bs = Ok e /\ (prologue_len bs e <= p)%nat /\
            read (firstn p bs) = Ok (with_payload e (firstn (p - prologue_len bs e) (e_payload e))).
Proof.
  pose proof (read_never_panics bs) as T.
  destruct (read bs) as [e| | |] eqn:H; try contradiction.
  - destruct (Nat.lt_ge_cases p (prologue_len bs e)) as [Hp|Hp].
    + left. eapply read_truncated_prologue; eassumption.
    + right. exists e. split; [reflexivity|]. split; [exact Hp|].
      apply read_truncated_payload; assumption.
  - left. apply read_truncated_of_refused. exact H.
Qed.

(* ---- what Write produced ------------------------------------------------------------------ *)
Lemma written_prologue_len (e : exchange) (bs : bytes) :
  readable e = true -> write e = Ok bs ->
  prologue_len bs (canon_exchange e) = (List.length bs - List.length (e_payload e))%nat.
Proof. intros _ _. reflexivity. Qed.

Theorem write_truncated (e : exchange) (bs : bytes) :
  readable e = true -> write e = Ok bs ->
  forall p : nat,
    let k := (List.length bs - List.length (e_payload e))%nat in
    ((p < k)%nat -> read (firstn p bs) = Err) /\
    ((k <= p)%nat ->
     read (firstn p bs) = Ok (with_payload (canon_exchange e) (firstn (p - k) (e_payload e)))).
Proof.
  intros Hr Hw p k. pose proof (write_read e bs Hr Hw) as H. split; intros Hp.
  - eapply read_truncated_prologue; [exact H|exact Hp].
  - rewrite (read_truncated_payload bs _ p H Hp). reflexivity.
Qed.

(* the payload really is the tail of the written bytes, so k is a position in bs *)
Lemma written_payload_tail (e : exchange) (bs : bytes) :
  readable e = true -> write e = Ok bs ->
  exists h, bs = h ++ e_payload e /\
            List.length h = (List.length bs - List.length (e_payload e))%nat.
Proof.
  intros Hr Hw. pose proof (write_read e bs Hr Hw) as H.
  destruct (read_ok_prologue bs _ H) as [e0 [Hp _]]. cbn [canon_exchange e_payload] in Hp.
  destruct (Tr_read_prologue _ _ _ Hp) as [h [E _]]. exists h. split; [exact E|].
  subst bs. rewrite app_length. lia.
Qed.

(* the form asked for: every strict prefix is refused, or agrees with the full
   read on everything except that its payload is a prefix of the full payload *)
Theorem write_truncated_agrees (e : exchange) (bs : bytes) :
  readable e = true -> write e = Ok bs ->
  forall p : nat, (p < List.length bs)%nat ->
    read (firstn p bs) = Err \/
    exists e' full, read bs = Ok full /\ read (firstn p bs) = Ok e' /\
      with_payload e' (e_payload full) = full /\
      exists n : nat, (n < List.length (e_payload full))%nat /\
                      e_payload e' = firstn n (e_payload full).
Proof.
  intros Hr Hw p Hp. pose proof (write_read e bs Hr Hw) as H.
  destruct (written_payload_tail e bs Hr Hw) as [h [Eb Lh]].
  destruct (Nat.lt_ge_cases p (List.length h)) as [Hlt|Hge].
  - left. eapply read_truncated_prologue; [exact H|]. unfold prologue_len.
    cbn [canon_exchange e_payload]. lia.
  - right. exists (with_payload (canon_exchange e) (firstn (p - List.length h) (e_payload e))),
             (canon_exchange e).
    split; [exact H|]. split.
    + rewrite (read_truncated_payload bs _ p H); unfold prologue_len; cbn [canon_exchange e_payload].
      * rewrite Lh. reflexivity.
      * lia.
    + split; [rewrite with_payload_twice; apply with_payload_self|].
      exists (p - List.length h)%nat. split; [|reflexivity].
      cbn [canon_exchange e_payload]. subst bs. rewrite app_length in Hp. lia.
Qed.

(* ---- without [readable]: whatever Write produced, for ANY exchange ------------------------- *)
(* if the reader accepts the written bytes at all, its payload is the written payload *)
Lemma written_rest (e : exchange) (bs : bytes) : write e = Ok bs ->
  forall e0 rest, read_prologue bs = Ok (e0, rest) -> rest = e_payload e.
Proof.
  intros Hw e0 rest. destruct (write_inv e bs Hw) as (hdr & Henc & Hshape).
  assert (Hhl : lenN hdr < 16777216) by (destruct (e_ver e); lia).
  unfold read_prologue.
  destruct (e_ver e) eqn:Ev.
  - destruct Hshape as (Hsl & _ & Ebs). subst bs.
    rewrite (splitN_app_n (header_magic V1b1)) by reflexivity. cbn [of_opt bind].
    rewrite from_magic_header. cbn [of_opt bind].
    rewrite (splitN_app_n (be 3 (lenN (e_sig e)))) by (apply be_lenN). cbn [of_opt bind].
    rewrite (splitN_app_n (be 3 (lenN hdr))) by (apply be_lenN). cbn [of_opt bind].
    unfold decode3. rewrite !unbe_be_small by (change (256 ^ N.of_nat 3) with 16777216; lia).
    rewrite (splitN_app_n (e_sig e)) by reflexivity. cbn [of_opt bind].
    rewrite (splitN_app_n hdr) by reflexivity. cbn [of_opt bind].
    destruct (decode_exchange_headers V1b1 hdr _) as [s| | |]; cbn [bind]; intros H; try discriminate.
    inversion H. reflexivity.
  - destruct Hshape as (Hul & Hsl & _ & Ebs). subst bs.
    rewrite (splitN_app_n (header_magic V1b2)) by reflexivity. cbn [of_opt bind].
    rewrite from_magic_header. cbn [of_opt bind].
    rewrite (splitN_app_n (be 2 (lenN (e_uri e)))) by (apply be_lenN). cbn [of_opt bind].
    rewrite unbe_be_small by (change (256 ^ N.of_nat 2) with 65536; lia).
    rewrite (splitN_app_n (e_uri e)) by reflexivity. cbn [of_opt bind].
    destruct (validate_fallback (e_uri e)) as [ok t]. destruct ok; cbn [bind]; [|discriminate].
    rewrite (splitN_app_n (be 3 (lenN (e_sig e)))) by (apply be_lenN). cbn [of_opt bind].
    rewrite (splitN_app_n (be 3 (lenN hdr))) by (apply be_lenN). cbn [of_opt bind].
    unfold decode3. rewrite !unbe_be_small by (change (256 ^ N.of_nat 3) with 16777216; lia).
    rewrite (splitN_app_n (e_sig e)) by reflexivity. cbn [of_opt bind].
    rewrite (splitN_app_n hdr) by reflexivity. cbn [of_opt bind].
    destruct (decode_exchange_headers V1b2 hdr _) as [s| | |]; cbn [bind]; intros H; try discriminate.
    inversion H. reflexivity.
  - destruct Hshape as (Hul & Hsl & _ & Ebs). subst bs.
    rewrite (splitN_app_n (header_magic V1b3)) by reflexivity. cbn [of_opt bind].
    rewrite from_magic_header. cbn [of_opt bind].
    rewrite (splitN_app_n (be 2 (lenN (e_uri e)))) by (apply be_lenN). cbn [of_opt bind].
    rewrite unbe_be_small by (change (256 ^ N.of_nat 2) with 65536; lia).
    rewrite (splitN_app_n (e_uri e)) by reflexivity. cbn [of_opt bind].
    destruct (validate_fallback (e_uri e)) as [ok t]. destruct ok; cbn [bind]; [|discriminate].
    rewrite (splitN_app_n (be 3 (lenN (e_sig e)))) by (apply be_lenN). cbn [of_opt bind].
    rewrite (splitN_app_n (be 3 (lenN hdr))) by (apply be_lenN). cbn [of_opt bind].
    unfold decode3. rewrite !unbe_be_small by (change (256 ^ N.of_nat 3) with 16777216; lia).
    rewrite (splitN_app_n (e_sig e)) by reflexivity. cbn [of_opt bind].
    rewrite (splitN_app_n hdr) by reflexivity. cbn [of_opt bind].
    destruct (decode_exchange_headers V1b3 hdr _) as [s| | |]; cbn [bind]; intros H; try discriminate.
    inversion H. reflexivity.
Qed.

(* no hypothesis on e beyond "Write accepted it": a cut before the payload is refused *)
Theorem write_truncated_refused (e : exchange) (bs : bytes) (p : nat) :
  write e = Ok bs -> (p < List.length bs - List.length (e_payload e))%nat ->
  read (firstn p bs) = Err.
Proof.
  intros Hw Hp. destruct (read_truncated_any bs p) as [H|[e' [Hf [Hk _]]]]; [exact H|].
  exfalso. destruct (read_ok_prologue bs e' Hf) as [e0 [Hr _]].
  pose proof (written_rest e bs Hw _ _ Hr) as Er. unfold prologue_len in Hk.
  rewrite Er in Hk. lia.
Qed.
