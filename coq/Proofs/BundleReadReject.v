(* Proofs/BundleReadReject.v - inputs the bundle reader refuses: section tables
   that do not fit the file, do not end with "responses" or repeat a name;
   index locations outside the responses section. *)
From Coq Require Import Lia ZifyN ZifyNat ZifyBool.
From WP Require Import Base.Prelude Base.Decimal Model.Cbor Model.Http Model.Url Model.UrlRef
  Model.StructHdr Model.Variants Model.CertChain Model.Bundle Spec.Cbor Spec.BundleRead.
From WP Require Import Proofs.BaseLemmas Proofs.CborHead Proofs.CborDecode
  Proofs.BundleReadBase Proofs.BundleReadTotal Proofs.BundleReadLayout Proofs.BundleReadBounds.
Ltac Zify.zify_post_hook ::= Z.div_mod_to_equations.
Open Scope N_scope.

Lemma in_names_existsb (acc : list (bytes * N)) (name : bytes) :
  In name (map fst acc) -> existsb (fun s => bytes_eqb (fst s) name) acc = true.
Proof.
  induction acc as [|[n l] t IH]; cbn [map fst In existsb]; [tauto|].
  intros [E|H].
  - subst n. rewrite bytes_eqb_refl. reflexivity.
  - rewrite (IH H). apply Bool.orb_true_r.
Qed.

(* the table loop meets a name it has already stored *)
Theorem rejects_duplicate_section f i n bs acc name r1 :
  i < n -> decode_text bs = Ok (name, r1) -> In name (map fst acc) ->
  dec_section_lengths (S f) i n bs acc = Err.
Proof.
  intros Hi E Hin. rewrite dec_section_lengths_S.
  destruct (N.leb_spec n i) as [X|_]; [lia|].
  rewrite E. cbn [bind]. rewrite (in_names_existsb _ _ Hin). reflexivity.
Qed.

Lemma read_locs_rejects f k bs u rl ro acc o r1 l r2 :
  k <> 0 -> decode_uint bs = Ok (o, r1) -> decode_uint r1 = Ok (l, r2) -> rl < o + l ->
  read_locs (S f) k bs u rl ro acc = Err.
Proof.
  intros Hk E1 E2 Hw. rewrite read_locs_S.
  destruct (N.eqb_spec k 0) as [X|_]; [contradiction|].
  rewrite E1. cbn [bind]. rewrite E2. cbn [bind].
  rewrite make_relative_err by exact Hw. reflexivity.
Qed.

(* a b2 index entry whose (offset, length) does not lie inside the responses
   section - including every pair whose sum exceeds 2^64 - is refused *)
Theorem rejects_wrapping_location f n bs rl ro acc taint u r1 r2 o r3 l r4 :
  n <> 0 ->
  decode_text bs = Ok (u, r1) -> decode_array_header r1 = Ok (2, r2) ->
  decode_uint r2 = Ok (o, r3) -> decode_uint r3 = Ok (l, r4) ->
  rl < o + l ->
  parse_index (S f) BV2 n bs rl ro acc taint = Err.
Proof.
  intros Hn E1 E2 E3 E4 Hw. rewrite parse_index_S.
  destruct (N.eqb_spec n 0) as [X|_]; [contradiction|].
  rewrite E1. cbn [bind]. destruct (negb (fst (index_url_ok u))); [reflexivity|].
  rewrite E2. cbn [bind]. unfold index_value. cbn [N.eqb Pos.eqb negb].
  rewrite (read_locs_rejects 1 1 r2 u rl ro [] o r3 l r4) by (assumption || discriminate).
  reflexivity.
Qed.

Section Read.
  Variable x509_ok : bytes -> bool.

  (* some section would end after the end of the file (in particular when the
     running total of the lengths would not fit 64 bits) *)
  Theorem rejects_out_of_file (bs : bytes) v fb t0 ss sos :
    load_header bs = Ok (v, fb, t0, ss, sos) ->
    lenN bs < ss + sum_lens sos ->
    load_metadata x509_ok bs = Err.
  Proof.
    intros Eh Hbig. rewrite load_metadata_split, Eh. cbn [bind]. unfold load_body.
    destruct (rev sos) as [|[last l] t]; [reflexivity|].
    destruct (negb (bytes_eqb last sec_responses)); [reflexivity|].
    destruct (sections_fit sos ss (lenN bs)) eqn:Hfit; [|reflexivity].
    apply sections_fit_spec in Hfit; [lia|]. eapply load_header_start; exact Eh.
  Qed.

  Theorem rejects_missing_responses_last (bs : bytes) v fb t0 ss sos :
    load_header bs = Ok (v, fb, t0, ss, sos) ->
    ~ (exists before rl, sos = before ++ [(sec_responses, rl)]) ->
    load_metadata x509_ok bs = Err.
  Proof.
    intros Eh Hno. rewrite load_metadata_split, Eh. cbn [bind]. unfold load_body.
    destruct (rev sos) as [|[last l] t] eqn:Er; [reflexivity|].
    destruct (bytes_eqb last sec_responses) eqn:El; [|reflexivity].
    exfalso. apply Hno. apply bytes_eqb_eq in El. subst last.
    exists (rev t), l. apply rev_cons_snoc. exact Er.
  Qed.

  (* why the theorems carry [lenN bs < two64] (true of every Go slice): on a list
     of 2^64 + 38 or more elements a section length of 2^64-1 passes the
     in-file check and then wraps the model's uint64 end offset below the start
     offset; the slice expression bs[38:37] is a panic *)
  Lemma huge_input_panics v (bs : bytes) all t ss m :
    two64 + 38 <= lenN bs ->
    sections_fit [(sec_index, two64 - 1); (sec_responses, 0)] 38 (lenN bs) = true /\
    load_sections x509_ok v bs all ((sec_index, two64 - 1) :: t) 38 ss m = Panic.
  Proof.
    intros Hbig. split.
    - apply sections_fit_spec; [unfold two64 in Hbig; lia|].
      cbn [sum_lens]. unfold two64 in *. lia.
    - rewrite load_sections_cons.
      change (known_section sec_index) with true.
      change (bytes_eqb sec_index sec_responses) with false. cbn [negb]. cbv zeta.
      change (w64 (38 + (two64 - 1))) with 37.
      destruct (N.leb_spec (lenN bs) 38) as [X|_]; [unfold two64 in Hbig; lia|].
      destruct (N.leb_spec (lenN bs) 37) as [X|_]; [unfold two64 in Hbig; lia|].
      destruct (splitN_total bs 38 ltac:(unfold two64 in Hbig; lia)) as [a [b E]].
      rewrite E. reflexivity.
  Qed.

  (* an accepted file has pairwise distinct section names *)
  Theorem accepted_sections_distinct (bs : bytes) v m :
    lenN bs < two64 -> load_metadata x509_ok bs = Ok (v, m) ->
    exists fb t0 ss sos, load_header bs = Ok (v, fb, t0, ss, sos) /\ NoDup (map fst sos).
  Proof.
    intros Hlen H.
    destruct (load_metadata_layout x509_ok bs v m Hlen H) as [fb [t0 [ss [sos [before [rl F]]]]]].
    destruct F. exists fb, t0, ss, sos. split; assumption.
  Qed.
End Read.
