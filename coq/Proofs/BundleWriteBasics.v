(* Proofs/BundleWriteBasics.v - the pieces of Bundle.WriteTo (Model/Bundle.v), each
   characterised by a closed form over the spec-side encoders of Spec/Bundle.v:
   response items, the exchange loop, grouping by URL, index entries. *)
From Coq Require Import Lia ZifyN ZifyNat ZifyBool Permutation Sorted.
From WP Require Import Base.Prelude Base.Decimal Model.Cbor Model.Http Model.Variants
  Model.CertChain Model.Bundle.
From WP Require Import Spec.Cbor Spec.Bundle.
From WP Require Import Proofs.BaseLemmas Proofs.CborHead Proofs.CborMap Proofs.Variants.
Open Scope N_scope.

(* ---- the model's encoders are the spec's shortest-form encoders ----------------- *)
Lemma enc_bytes_item (s : bytes) : enc_bytes s = bstr_item s.
Proof.
  unfold enc_bytes, enc_bytes_of, bstr_item. cbn [senc_token].
  rewrite typed_uint_senc_head by (split; reflexivity). reflexivity.
Qed.
Lemma enc_text_item (s : bytes) : enc_bytes_of MText s = text_item s.
Proof.
  unfold enc_bytes_of, text_item. cbn [senc_token].
  rewrite typed_uint_senc_head by (split; reflexivity). reflexivity.
Qed.
Lemma enc_uint_item (n : N) : enc_uint n = uint_item n.
Proof. unfold enc_uint, uint_item. rewrite typed_uint_senc_head by (split; reflexivity). reflexivity. Qed.
Lemma enc_arr_item (n : N) : enc_array_header n = arr_head n.
Proof. unfold enc_array_header, arr_head. rewrite typed_uint_senc_head by (split; reflexivity). reflexivity. Qed.
Lemma enc_map_item (n : N) : enc_map_header n = map_head n.
Proof. unfold enc_map_header, map_head. rewrite typed_uint_senc_head by (split; reflexivity). reflexivity. Qed.

Lemma enc_text_ok (u t : bytes) : enc_text u = Ok t -> utf8_valid u = true /\ t = text_item u.
Proof.
  unfold enc_text. destruct (utf8_valid u); [|discriminate]. intros H. inversion H.
  split; [reflexivity|apply enc_text_item].
Qed.
Lemma enc_text_cases (u : bytes) :
  (utf8_valid u = true /\ enc_text u = Ok (text_item u)) \/ (utf8_valid u = false /\ enc_text u = Err).
Proof.
  unfold enc_text. destruct (utf8_valid u); [left|right]; split; try reflexivity.
  rewrite enc_text_item. reflexivity.
Qed.

(* ---- generic list facts ----------------------------------------------------------- *)
Lemma StronglySorted_map_inv' {A B} (f : A -> B) (Rb : B -> B -> Prop) (l : list A) :
  StronglySorted Rb (map f l) -> StronglySorted (fun a b => Rb (f a) (f b)) l.
Proof.
  induction l as [|x t IH]; cbn [map]; intros H; [constructor|].
  apply StronglySorted_inv in H. destruct H as [H1 H2]. constructor; [apply IH; exact H1|].
  rewrite Forall_map in H2. exact H2.
Qed.

Lemma flat_map_map {A B C} (f : A -> B) (g : B -> list C) (l : list A) :
  flat_map g (map f l) = flat_map (fun a => g (f a)) l.
Proof. induction l as [|x t IH]; cbn [map flat_map]; [reflexivity|]. rewrite IH. reflexivity. Qed.

Lemma lenN_flat_map_ge {A B} (f : A -> list B) (l : list A) :
  (forall a, 1 <= lenN (f a)) -> lenN l <= lenN (flat_map f l).
Proof.
  intros Hf. induction l as [|x t IH]; cbn [flat_map lenN]; [lia|].
  rewrite lenN_app. specialize (Hf x). lia.
Qed.

Lemma senc_head_len_ge (mt n : N) : 1 <= lenN (senc_head mt n).
Proof.
  unfold senc_head. repeat match goal with |- context [if ?c then _ else _] => destruct c end;
    cbn [lenN]; lia.
Qed.

(* ---- one response --------------------------------------------------------------------- *)
Definition fold_hdr (nv : bytes * list bytes) : bytes * bytes :=
  (lower (fst nv), join_comma (snd nv)).
Definition raw_fields (st : Z) (h : headers) : list (bytes * bytes) :=
  (status_name, dec_of_Z st) :: map fold_hdr h.
Definition field_ltb (a b : bytes * bytes) : bool := bytes_ltb (field_key a) (field_key b).
(* the header map as it is written: sorted by encoded name *)
Definition rsp_fields (st : Z) (h : headers) : list (bytes * bytes) :=
  isort field_ltb (raw_fields st h).
Definition rsp_of (x : bexchange) : rsp :=
  {| r_fields := rsp_fields (bx_status x) (bx_hdr x); r_payload := bx_body x |}.
Definition enc_field (f : bytes * bytes) : bytes * bytes := (bstr_item (fst f), bstr_item (snd f)).
Definition item_of (x : bexchange) : bytes := rsp_bytes (rsp_of x).

(* the tests Response.EncodeHeader makes before it encodes: a three-digit status,
   ASCII names not starting with ':', ASCII comma-joined values *)
Definition erh_guard (st : Z) (h : headers) : bool :=
  ((st <? 100) || (999 <? st))%Z || negb (forallb hdr_writable_b h).

Lemma erh_eq (st : Z) (h : headers) :
  encode_response_header st h =
  if erh_guard st h then Err else enc_map (map enc_field (raw_fields st h)).
Proof.
  unfold encode_response_header, erh_guard, raw_fields.
  destruct ((st <? 100) || (999 <? st))%Z; cbn [orb]; [reflexivity|].
  destruct (negb (forallb hdr_writable_b h)); [reflexivity|].
  cbn [map]. f_equal. f_equal.
  - unfold enc_field, status_name. cbn [fst snd]. rewrite !enc_bytes_item. reflexivity.
  - rewrite map_map. apply map_ext. intros nv. unfold enc_field, fold_hdr. cbn [fst snd].
    rewrite !enc_bytes_item. reflexivity.
Qed.

Lemma erh_ok_guard (st : Z) (h : headers) (hc : bytes) :
  encode_response_header st h = Ok hc ->
  erh_guard st h = false /\ enc_map (map enc_field (raw_fields st h)) = Ok hc.
Proof. rewrite erh_eq. destruct (erh_guard st h); [discriminate|auto]. Qed.

Lemma sort_enc_fields (l : list (bytes * bytes)) :
  sort_entries (map enc_field l) = map enc_field (isort field_ltb l).
Proof. symmetry. exact (isort_map enc_field entry_lt l). Qed.

Lemma erh_ok (st : Z) (h : headers) (hc : bytes) :
  encode_response_header st h = Ok hc ->
  hc = hmap_bytes (rsp_fields st h) /\
  StronglySorted (fun a b => blt (field_key a) (field_key b)) (rsp_fields st h).
Proof.
  intros H. apply erh_ok_guard in H. destruct H as [_ H]. apply enc_map_ok in H. destruct H as [E S].
  rewrite sort_enc_fields in E, S. split.
  - rewrite E. unfold hmap_bytes, rsp_fields. rewrite enc_map_item, lenN_map, isort_lenN.
    f_equal. rewrite flat_map_map. reflexivity.
  - apply StronglySorted_map_inv' in S. exact S.
Qed.

Lemma erh_cases (st : Z) (h : headers) :
  encode_response_header st h = Err \/ exists hc, encode_response_header st h = Ok hc.
Proof. rewrite erh_eq. destruct (erh_guard st h); [left; reflexivity|apply enc_map_ok_or_err]. Qed.

Lemma rsp_fields_perm (st : Z) (h : headers) : Permutation (rsp_fields st h) (raw_fields st h).
Proof. apply isort_perm. Qed.

Lemma rsp_fields_status (st : Z) (h : headers) : In status_name (map fst (rsp_fields st h)).
Proof.
  eapply Permutation_in; [apply Permutation_map, Permutation_sym, rsp_fields_perm|].
  left. reflexivity.
Qed.

Lemma encode_response_ok (x : bexchange) (it : bytes) :
  encode_response x = Ok it ->
  it = item_of x /\ RspOK (rsp_of x).
Proof.
  unfold encode_response. intros H. apply bindR_ok in H. destruct H as [hc [Hh H]].
  injection H as H. subst it. apply erh_ok in Hh. destruct Hh as [E S]. split.
  - unfold item_of, rsp_bytes, rsp_of. cbn [r_fields r_payload].
    change (arr_head 2) with [130]. cbn [app]. rewrite !enc_bytes_item, E. reflexivity.
  - split; [exact S|apply rsp_fields_status].
Qed.

Lemma encode_response_cases (x : bexchange) :
  (encode_response_header (bx_status x) (bx_hdr x) = Err /\ encode_response x = Err)
  \/ (encode_response x = Ok (item_of x)).
Proof.
  destruct (erh_cases (bx_status x) (bx_hdr x)) as [E|[hc E]].
  - left. split; [exact E|]. unfold encode_response. rewrite E. reflexivity.
  - right. assert (H : encode_response x = Ok (enc_array_header 2 ++ enc_bytes hc ++ enc_bytes (bx_body x)))
      by (unfold encode_response; rewrite E; reflexivity).
    rewrite H. f_equal. apply (encode_response_ok x _ H).
Qed.

Lemma item_of_len_ge (x : bexchange) : 1 <= lenN (item_of x).
Proof.
  unfold item_of, rsp_bytes. rewrite lenN_app. pose proof (senc_head_len_ge 4 2). unfold arr_head. lia.
Qed.

(* ---- the loop over the exchanges -------------------------------------------------------- *)
Definition hv_variants (x : bexchange) : bytes :=
  join_comma (hdr_lookup (bx_hdr x) (canonical_key (s2b "variants"))).
Definition hv_vkey (x : bexchange) : bytes :=
  join_comma (hdr_lookup (bx_hdr x) (canonical_key (s2b "variant-key"))).

Fixpoint mk_ients (xs : list bexchange) (off : N) : list ientry :=
  match xs with
  | [] => []
  | x :: t =>
      {| ie_url := bx_url x; ie_variants := hv_variants x; ie_vkey := hv_vkey x;
         ie_off := off; ie_len := lenN (item_of x) |}
      :: mk_ients t (off + lenN (item_of x))
  end.

(* checkURL on an exchange URL: valid UTF-8, parses, no fragment, no credentials *)
Definition url_writable (u : bytes) : bool := utf8_valid u && fst (index_url_ok u).

Lemma add_exchanges_S (x : bexchange) (t : list bexchange) (buf : bytes) (acc : list ientry) :
  add_exchanges (x :: t) buf acc =
  let* item := encode_response x in
  if negb (url_writable (bx_url x)) then Err else
  add_exchanges t (buf ++ item)
    ({| ie_url := bx_url x;
        ie_variants := join_comma (hdr_lookup (bx_hdr x) (canonical_key (s2b "variants")));
        ie_vkey := join_comma (hdr_lookup (bx_hdr x) (canonical_key (s2b "variant-key")));
        ie_off := lenN buf; ie_len := lenN item |} :: acc).
Proof.
  cbn [add_exchanges]. unfold url_writable.
  destruct (encode_response x); cbn [bind]; try reflexivity.
  destruct (utf8_valid (bx_url x)); cbn [negb andb]; reflexivity.
Qed.

Lemma add_exchanges_ok (xs : list bexchange) : forall buf acc buf' ents,
  add_exchanges xs buf acc = Ok (buf', ents) ->
  buf' = buf ++ flat_map item_of xs /\ ents = rev acc ++ mk_ients xs (lenN buf)
  /\ Forall (fun x => RspOK (rsp_of x)) xs
  /\ Forall (fun x => url_writable (bx_url x) = true) xs.
Proof.
  induction xs as [|x t IH]; intros buf acc buf' ents H.
  - cbn [add_exchanges] in H. inversion H; subst. cbn [flat_map mk_ients]. rewrite !app_nil_r. repeat split; constructor.
  - rewrite add_exchanges_S in H. apply bindR_ok in H. destruct H as [it [Hi H]].
    apply encode_response_ok in Hi. destruct Hi as [Ei Ri]. subst it.
    destruct (url_writable (bx_url x)) eqn:U; cbn [negb] in H; [|discriminate].
    apply IH in H. destruct H as [E1 [E2 [F G]]]. cbn [flat_map mk_ients rev] in *.
    rewrite <- app_assoc in E1, E2. cbn [app] in E2. rewrite lenN_app in E2.
    split; [exact E1|]. split; [exact E2|]. split; constructor; assumption.
Qed.

(* the first exchange whose header map is refused (status, names, values, a
   duplicate name) or whose URL is refused decides; both are plain errors *)
Lemma add_exchanges_cases (xs : list bexchange) : forall buf acc,
  (Exists (fun x => encode_response_header (bx_status x) (bx_hdr x) = Err
                    \/ url_writable (bx_url x) = false) xs
   /\ add_exchanges xs buf acc = Err)
  \/ (Forall (fun x => encode_response x = Ok (item_of x)
                       /\ url_writable (bx_url x) = true) xs
      /\ add_exchanges xs buf acc = Ok (buf ++ flat_map item_of xs, rev acc ++ mk_ients xs (lenN buf))).
Proof.
  induction xs as [|x t IH]; intros buf acc.
  - cbn [add_exchanges]. right. split; [constructor|]. cbn [flat_map mk_ients]. rewrite !app_nil_r. reflexivity.
  - rewrite add_exchanges_S. destruct (encode_response_cases x) as [[E1 E2]|E].
    + left. split; [left; left; exact E1|]. rewrite E2. reflexivity.
    + rewrite E. cbn [bind].
      destruct (url_writable (bx_url x)) eqn:U; cbn [negb].
      2:{ left. split; [left; right; exact U|reflexivity]. }
      match goal with |- context [add_exchanges t ?b ?a] => destruct (IH b a) as [[X Y]|[X Y]] end.
      * left. split; [right; exact X|exact Y].
      * right. split; [constructor; [split; [exact E|exact U]|assumption]|]. rewrite Y. cbn [flat_map mk_ients rev].
        rewrite <- !app_assoc, lenN_app. reflexivity.
Qed.

Lemma mk_ients_urls (xs : list bexchange) : forall off, map ie_url (mk_ients xs off) = map bx_url xs.
Proof. induction xs as [|x t IH]; intros off; cbn [mk_ients map ie_url]; [reflexivity|]. rewrite IH. reflexivity. Qed.

Lemma mk_ients_length (xs : list bexchange) : forall off, List.length (mk_ients xs off) = List.length xs.
Proof. induction xs as [|x t IH]; intros off; cbn [mk_ients List.length]; [reflexivity|]. rewrite IH. reflexivity. Qed.

(* the i-th entry points at the i-th item *)
Lemma mk_ients_nth (xs : list bexchange) : forall off i e,
  nth_error (mk_ients xs off) i = Some e ->
  exists x, nth_error xs i = Some x /\ ie_url e = bx_url x
            /\ ie_variants e = hv_variants x /\ ie_vkey e = hv_vkey x
            /\ ie_off e = off + lenN (flat_map item_of (firstn i xs))
            /\ ie_len e = lenN (item_of x).
Proof.
  induction xs as [|x t IH]; intros off i e H; [destruct i; discriminate|].
  destruct i as [|i]; cbn [mk_ients nth_error] in H.
  - inversion H; subst e. exists x. cbn [nth_error firstn flat_map lenN ie_url ie_variants ie_vkey ie_off ie_len].
    repeat split. lia.
  - apply IH in H. destruct H as [y [H1 [H2 [H3 [H4 [H5 H6]]]]]]. exists y.
    cbn [nth_error firstn flat_map]. rewrite lenN_app. repeat split; try assumption. lia.
Qed.

(* ---- grouping by URL ------------------------------------------------------------------------ *)
Definition url_is (u : bytes) (e : ientry) : bool := bytes_eqb u (ie_url e).
(* the distinct URLs in order of first appearance *)
Definition first_urls (es : list ientry) : list bytes :=
  fold_left (fun acc e => if existsb (bytes_eqb (ie_url e)) acc then acc else acc ++ [ie_url e]) es [].
Definition groups_of (es : list ientry) : list (bytes * list ientry) :=
  map (fun u => (u, filter (url_is u) es)) (first_urls es).

Lemma first_urls_snoc (es : list ientry) (e : ientry) :
  first_urls (es ++ [e]) =
  if existsb (bytes_eqb (ie_url e)) (first_urls es) then first_urls es
  else first_urls es ++ [ie_url e].
Proof. unfold first_urls. rewrite fold_left_app. reflexivity. Qed.

Lemma existsb_bytes_iff (x : bytes) (l : list bytes) : existsb (bytes_eqb x) l = true <-> In x l.
Proof.
  rewrite existsb_exists. split.
  - intros [y [Hy E]]. apply bytes_eqb_eq in E. subst. exact Hy.
  - intros H. exists x. split; [exact H|apply bytes_eqb_refl].
Qed.

Lemma first_urls_spec (es : list ientry) :
  NoDup (first_urls es) /\ (forall u, In u (first_urls es) <-> In u (map ie_url es)).
Proof.
  induction es as [|e es IH] using rev_ind.
  - split; [constructor|]. intros u. reflexivity.
  - destruct IH as [ND I]. rewrite first_urls_snoc, map_app. cbn [map].
    destruct (existsb (bytes_eqb (ie_url e)) (first_urls es)) eqn:X.
    + apply existsb_bytes_iff in X. split; [exact ND|]. intros u. rewrite in_app_iff, I. cbn [In].
      split; [tauto|]. intros [H|[H|[]]]; [exact H|]. subst u. apply I. exact X.
    + split.
      * eapply Permutation_NoDup; [apply Permutation_cons_append|]. constructor; [|exact ND].
        intros Hin. apply existsb_bytes_iff in Hin. congruence.
      * intros u. rewrite !in_app_iff, I. reflexivity.
Qed.

Definition group_for (es : list ientry) (u : bytes) : bytes * list ientry := (u, filter (url_is u) es).

Lemma filter_snoc {A} (f : A -> bool) (l : list A) (x : A) :
  filter f (l ++ [x]) = filter f l ++ (if f x then [x] else []).
Proof. rewrite filter_app. reflexivity. Qed.

Lemma filter_url_snoc (u : bytes) (es : list ientry) (e : ientry) :
  filter (url_is u) (es ++ [e]) =
  if bytes_eqb u (ie_url e) then filter (url_is u) es ++ [e] else filter (url_is u) es.
Proof.
  rewrite filter_snoc. unfold url_is at 2. destruct (bytes_eqb u (ie_url e)); [reflexivity|apply app_nil_r].
Qed.

Lemma group_add_map (us : list bytes) : NoDup us -> forall es e,
  group_add (map (group_for es) us) e =
  if existsb (bytes_eqb (ie_url e)) us then map (group_for (es ++ [e])) us
  else map (group_for (es ++ [e])) us ++ [(ie_url e, [e])].
Proof.
  induction 1 as [|u t Hu ND IH]; intros es e; cbn [map group_add existsb]; [reflexivity|].
  unfold group_for at 1. destruct (bytes_eqb u (ie_url e)) eqn:E.
  - apply bytes_eqb_eq in E. subst u. rewrite bytes_eqb_refl. cbn [orb map]. f_equal.
    + unfold group_for. rewrite filter_url_snoc, bytes_eqb_refl. reflexivity.
    + apply map_ext_in. intros u' Hu'. unfold group_for. rewrite filter_url_snoc.
      destruct (bytes_eqb u' (ie_url e)) eqn:E'; [|reflexivity].
      apply bytes_eqb_eq in E'. subst u'. contradiction.
  - assert (E' : bytes_eqb (ie_url e) u = false).
    { apply bytes_eqb_neq. apply bytes_eqb_neq in E. congruence. }
    rewrite E'. cbn [orb]. rewrite IH.
    assert (G : group_for (es ++ [e]) u = (u, filter (url_is u) es)).
    { unfold group_for. rewrite filter_url_snoc, E. reflexivity. }
    destruct (existsb (bytes_eqb (ie_url e)) t); cbn [map app]; rewrite G; reflexivity.
Qed.

Lemma group_entries_eq (es : list ientry) : group_entries es = groups_of es.
Proof.
  unfold group_entries. induction es as [|e es IH] using rev_ind; [reflexivity|].
  rewrite fold_left_app. cbn [fold_left]. rewrite IH. unfold groups_of.
  change (fun u => (u, filter (url_is u) es)) with (group_for es).
  change (fun u => (u, filter (url_is u) (es ++ [e]))) with (group_for (es ++ [e])).
  destruct (first_urls_spec es) as [ND I].
  rewrite group_add_map by exact ND. rewrite first_urls_snoc.
  destruct (existsb (bytes_eqb (ie_url e)) (first_urls es)) eqn:X; [reflexivity|].
  rewrite map_app. cbn [map]. f_equal. f_equal. unfold group_for. f_equal.
  rewrite filter_url_snoc, bytes_eqb_refl.
  assert (F : filter (url_is (ie_url e)) es = []).
  { destruct (filter (url_is (ie_url e)) es) as [|e' r] eqn:F; [reflexivity|exfalso].
    assert (Hin : In e' (filter (url_is (ie_url e)) es)) by (rewrite F; left; reflexivity).
    apply filter_In in Hin. destruct Hin as [Hin Hu]. unfold url_is in Hu. apply bytes_eqb_eq in Hu.
    assert (X' : existsb (bytes_eqb (ie_url e)) (first_urls es) = true).
    { apply existsb_bytes_iff. apply I. rewrite Hu. apply in_map. exact Hin. }
    congruence. }
  rewrite F. reflexivity.
Qed.

Lemma groups_of_keys (es : list ientry) : map fst (groups_of es) = first_urls es.
Proof. unfold groups_of. rewrite map_map. cbn [fst]. apply map_id. Qed.

Lemma groups_of_in (es : list ientry) (u : bytes) (g : list ientry) :
  In (u, g) (groups_of es) -> g = filter (url_is u) es /\ g <> [] /\ In u (map ie_url es).
Proof.
  unfold groups_of. intros H. apply in_map_iff in H. destruct H as [u' [E Hu]]. inversion E; subst u' g.
  split; [reflexivity|]. apply (first_urls_spec es) in Hu. split; [|exact Hu].
  apply in_map_iff in Hu. destruct Hu as [e [Ee He]]. intros F.
  assert (Hin : In e (filter (url_is u) es)).
  { apply filter_In. split; [exact He|]. unfold url_is. rewrite Ee. apply bytes_eqb_refl. }
  rewrite F in Hin. contradiction.
Qed.

(* ---- index entries --------------------------------------------------------------------- *)
Definition loc_of (e : ientry) : N * N := (ie_off e, ie_len e).

Lemma locs_eq (es : list ientry) : locs es = flat_map loc_bytes (map loc_of es).
Proof.
  unfold locs. rewrite flat_map_map. apply flat_map_ext. intros e. unfold loc_bytes, loc_of. cbn [fst snd].
  rewrite !enc_uint_item. reflexivity.
Qed.

(* index_entry without the encoding step: (url, variants value, entries in index order) *)
Definition index_entry_pre (v : bversion) (g : bytes * list ientry) : R (bytes * bytes * list ientry) :=
  let (u, es) := g in
  if negb (utf8_valid u) then
    (match v, es with BV2, _ :: _ :: _ => Err | _, _ => Panic end)
  else
  match v with
  | BV1 =>
      match es with
      | e0 :: _ :: _ =>
          let* ordered := entries_in_possible_key_order
                            (map (fun e => (ie_variants e, ie_vkey e, e)) es) in
          Ok (u, ie_variants e0, ordered)
      | _ => Ok (u, [], es)
      end
  | BV2 => match es with [e] => Ok (u, [], es) | _ => Err end
  end.

Definition triple_of (t : bytes * bytes * list ientry) : bytes * bytes * list (N * N) :=
  (fst (fst t), snd (fst t), map loc_of (snd t)).
Definition enc_ix (v : bversion) (e : bytes * bytes * list (N * N)) : bytes * bytes :=
  (index_key e, index_val v e).

Lemma index_entry_eq (v : bversion) (g : bytes * list ientry) :
  index_entry v g = let* t := index_entry_pre v g in Ok (enc_ix v (triple_of t)).
Proof.
  destruct g as [u es]. unfold index_entry, index_entry_pre.
  destruct (negb (utf8_valid u)).
  { destruct v; [reflexivity|]. destruct es as [|? [|? ?]]; reflexivity. }
  unfold enc_ix, triple_of, index_key, index_val, ix_url, ix_vv, ix_locs. cbn [fst snd].
  destruct v.
  - assert (S : forall es' : list ientry,
             Ok (enc_bytes_of MText u, enc_array_header (1 + lenN es' * 2) ++ enc_bytes [] ++ locs es')
             = Ok (text_item u, arr_head (1 + 2 * lenN (map loc_of es')) ++ bstr_item [] ++
                                flat_map loc_bytes (map loc_of es'))).
    { intros es'. rewrite enc_text_item, enc_arr_item, enc_bytes_item, locs_eq, lenN_map, N.mul_comm.
      reflexivity. }
    destruct es as [|e0 [|e1 t]]; [apply S|apply S|].
    destruct (entries_in_possible_key_order _) as [ordered| | |]; cbn [bind]; try reflexivity.
    rewrite enc_text_item, enc_arr_item, enc_bytes_item, locs_eq, lenN_map, N.mul_comm. reflexivity.
  - destruct es as [|e [|e1 t]]; try reflexivity. cbn [bind fst snd map flat_map].
    change (2 * lenN [loc_of e]) with 2. unfold loc_bytes, loc_of. cbn [fst snd].
    rewrite enc_text_item, enc_arr_item, !enc_uint_item, app_nil_r. reflexivity.
Qed.

Fixpoint index_pres (v : bversion) (gs : list (bytes * list ientry)) : R (list (bytes * bytes * list ientry)) :=
  match gs with
  | [] => Ok []
  | g :: t => let* e := index_entry_pre v g in let* r := index_pres v t in Ok (e :: r)
  end.

Lemma index_entries_eq (v : bversion) (gs : list (bytes * list ientry)) :
  index_entries v gs = let* ts := index_pres v gs in Ok (map (fun t => enc_ix v (triple_of t)) ts).
Proof.
  induction gs as [|g t IH]; cbn [index_entries index_pres]; [reflexivity|].
  rewrite index_entry_eq, IH. destruct (index_entry_pre v g); cbn [bind]; try reflexivity.
  destruct (index_pres v t); reflexivity.
Qed.

(* what a successful index_entry_pre says *)
Lemma index_entry_pre_ok (v : bversion) (u : bytes) (es : list ientry) t :
  index_entry_pre v (u, es) = Ok t ->
  fst (fst t) = u /\ utf8_valid u = true /\
  match v with
  | BV2 => exists e, es = [e] /\ snd (fst t) = [] /\ snd t = [e]
  | BV1 =>
      match es with
      | e0 :: _ :: _ =>
          snd (fst t) = ie_variants e0 /\
          entries_in_possible_key_order (map (fun e => (ie_variants e, ie_vkey e, e)) es) = Ok (snd t)
      | _ => snd (fst t) = [] /\ snd t = es
      end
  end.
Proof.
  unfold index_entry_pre. destruct (utf8_valid u); cbn [negb].
  2:{ destruct v; [discriminate|]. destruct es as [|? [|? ?]]; discriminate. }
  destruct v.
  - destruct es as [|e0 [|e1 r]].
    + intros H; inversion H; subst; cbn; auto.
    + intros H; inversion H; subst; cbn; auto.
    + intros H. apply bindR_ok in H. destruct H as [ord [Ho H]]. inversion H; subst. cbn [fst snd]. auto.
  - destruct es as [|e [|e1 r]]; try discriminate. intros H; inversion H; subst. cbn [fst snd].
    split; [reflexivity|]. split; [reflexivity|]. exists e. auto.
Qed.

Lemma index_pres_ok (v : bversion) (gs : list (bytes * list ientry)) : forall ts,
  index_pres v gs = Ok ts -> Forall2 (fun g t => index_entry_pre v g = Ok t) gs ts.
Proof.
  induction gs as [|g r IH]; intros ts H; cbn [index_pres] in H.
  - inversion H; constructor.
  - apply bindR_ok in H. destruct H as [t [Ht H]]. apply bindR_ok in H. destruct H as [ts' [Hr H]].
    inversion H; subst. constructor; [exact Ht|apply IH; exact Hr].
Qed.

(* ---- the index section ----------------------------------------------------------------------- *)
Definition ix_ltb (a b : bytes * bytes * list (N * N)) : bool := bytes_ltb (index_key a) (index_key b).
Definition sorted_index (ts : list (bytes * bytes * list ientry)) : list (bytes * bytes * list (N * N)) :=
  isort ix_ltb (map triple_of ts).

Lemma sort_enc_ix (v : bversion) (l : list (bytes * bytes * list (N * N))) :
  sort_entries (map (enc_ix v) l) = map (enc_ix v) (isort ix_ltb l).
Proof. symmetry. exact (isort_map (enc_ix v) entry_lt l). Qed.

Lemma index_section_ok (v : bversion) (ients : list ientry) (idx : bytes) :
  index_section v ients = Ok idx ->
  exists ts, index_pres v (groups_of ients) = Ok ts /\
             idx = index_body v (sorted_index ts) /\
             StronglySorted (fun a b => blt (index_key a) (index_key b)) (sorted_index ts).
Proof.
  unfold index_section. rewrite group_entries_eq, index_entries_eq. intros H.
  apply bindR_ok in H. destruct H as [ents [He H]].
  apply bindR_ok in He. destruct He as [ts [Ht He]]. inversion He; subst ents. clear He.
  exists ts. split; [exact Ht|].
  rewrite <- (map_map triple_of (enc_ix v)) in H. apply enc_map_ok in H. destruct H as [E S].
  rewrite sort_enc_ix in E, S. split.
  - rewrite E. unfold index_body, sorted_index. rewrite enc_map_item, !lenN_map, isort_lenN, lenN_map.
    f_equal. rewrite flat_map_map. reflexivity.
  - apply StronglySorted_map_inv' in S. exact S.
Qed.
