(* Proofs/BundleReadBounds.v - loadMetadata as a whole: the section table has
   pairwise distinct names and ends with "responses"; every location the
   reader will dereference lies in the responses section, inside the file;
   Read neither panics nor diverges. *)
From Coq Require Import Lia ZifyN ZifyNat ZifyBool.
From WP Require Import Base.Prelude Base.Decimal Model.Cbor Model.Http Model.Url Model.UrlRef
  Model.StructHdr Model.Variants Model.CertChain Model.Bundle Spec.Cbor Spec.BundleRead.
From WP Require Import Proofs.BaseLemmas Proofs.CborHead Proofs.CborDecode
  Proofs.BundleReadBase Proofs.BundleReadTotal Proofs.BundleReadLayout.
Ltac Zify.zify_post_hook ::= Z.div_mod_to_equations.
Open Scope N_scope.

(* ---- the section table has no duplicate names ------------------------------------- *)
Lemma existsb_name_false (acc : list (bytes * N)) (name : bytes) :
  existsb (fun s => bytes_eqb (fst s) name) acc = false -> ~ In name (map fst acc).
Proof.
  induction acc as [|[n l] t IH]; cbn [existsb map fst In]; intros H; [tauto|].
  apply Bool.orb_false_iff in H. destruct H as [H1 H2]. apply bytes_eqb_neq in H1.
  intros [X|X]; [congruence|]. apply IH; assumption.
Qed.

Lemma NoDup_snoc {A} (l : list A) (x : A) : NoDup l -> ~ In x l -> NoDup (l ++ [x]).
Proof.
  intros Hd Hn. induction Hd as [|y l Hy Hd IH]; cbn [app].
  - constructor; [intros []|constructor].
  - constructor.
    + intros X. apply in_app_or in X. destruct X as [X|[X|[]]]; [contradiction|].
      subst. apply Hn. left. reflexivity.
    + apply IH. intros X. apply Hn. right. exact X.
Qed.

Lemma dec_section_lengths_nodup : forall fuel i n bs acc sos,
  NoDup (map fst acc) -> dec_section_lengths fuel i n bs acc = Ok sos -> NoDup (map fst sos).
Proof.
  induction fuel as [|f IH]; intros i n bs acc sos Hd H; [discriminate|].
  rewrite dec_section_lengths_S in H. destruct (n <=? i).
  - inversion H; subst. exact Hd.
  - apply bind_ok in H. destruct H as [[name r1] [E1 H]]. beta_pair in H.
    destruct (existsb _ acc) eqn:Ex; [discriminate|].
    apply bind_ok in H. destruct H as [[len r2] [E2 H]]. beta_pair in H.
    apply IH in H; [exact H|]. rewrite map_app. cbn [map fst].
    apply NoDup_snoc; [exact Hd|]. apply existsb_name_false. exact Ex.
Qed.

Lemma decode_section_lengths_nodup bs sos :
  decode_section_lengths bs = Ok sos -> NoDup (map fst sos).
Proof.
  unfold decode_section_lengths. intros H.
  apply bind_ok in H. destruct H as [[n r] [E1 H]]. beta_pair in H.
  eapply dec_section_lengths_nodup; [|exact H]. constructor.
Qed.

Lemma rev_cons_snoc {A} (l : list A) (x : A) (t : list A) :
  rev l = x :: t -> l = rev t ++ [x].
Proof. intros H. rewrite <- (rev_involutive l), H. reflexivity. Qed.

Section Read.
  Variable x509_ok : bytes -> bool.

  Lemma load_header_nodup bs v fb t0 ss sos :
    load_header bs = Ok (v, fb, t0, ss, sos) -> NoDup (map fst sos).
  Proof.
    clear x509_ok. unfold load_header. intros H.
    apply bind_ok in H. destruct H as [[v' r0] [E0 H]]. beta_pair in H.
    apply bind_ok in H. destruct H as [[[fb' t0'] r1] [E1 H]]. beta_pair in H.
    apply bind_ok in H. destruct H as [[sl r2] [E2 H]]. beta_pair in H.
    destruct (8192 <=? lenN sl); [discriminate|].
    apply bind_ok in H. destruct H as [sos' [E3 H]].
    apply bind_ok in H. destruct H as [[ns r3] [E4 H]]. beta_pair in H.
    destruct (negb (ns =? lenN sos')); [discriminate|]. inversion H; subst.
    eapply decode_section_lengths_nodup; exact E3.
  Qed.

  (* everything loadMetadata establishes about the layout before Read starts
     dereferencing locations *)
  Record layout_facts (bs : bytes) (v : bversion) (m : meta)
         (fb : option bytes) (t0 : bool) (ss : N) (sos before : list (bytes * N)) (rl : N) : Prop := {
    lf_header : load_header bs = Ok (v, fb, t0, ss, sos);
    lf_last : sos = before ++ [(sec_responses, rl)];
    lf_nodup : NoDup (map fst sos);
    lf_before : ~ In sec_responses (map fst before);
    lf_fit : ss + sum_lens sos <= lenN bs;
    lf_span : section_span sos sec_responses = Some (sum_lens before, rl);
    lf_find : find_section sos sec_responses = Some (rl, sum_lens before);
    lf_loop : load_sections x509_ok v bs sos sos ss ss (meta0 fb t0) = Ok m
  }.

  Lemma load_metadata_layout (bs : bytes) v m :
    lenN bs < two64 -> load_metadata x509_ok bs = Ok (v, m) ->
    exists fb t0 ss sos before rl, layout_facts bs v m fb t0 ss sos before rl.
  Proof.
    intros Hlen H. rewrite load_metadata_split in H.
    apply bind_ok in H. destruct H as [[[[[v' fb] t0] ss] sos] [Eh H]]. beta_pair in H.
    pose proof (load_header_start _ _ _ _ _ _ Eh) as Hss.
    pose proof (load_header_nodup _ _ _ _ _ _ Eh) as Hnd.
    unfold load_body in H.
    destruct (rev sos) as [|[last rl] rt] eqn:Er; [discriminate|].
    destruct (bytes_eqb last sec_responses) eqn:El; cbn [negb] in H; [|discriminate].
    apply bytes_eqb_eq in El. subst last.
    destruct (sections_fit sos ss (lenN bs)) eqn:Hfit; cbn [negb] in H; [|discriminate].
    apply sections_fit_spec in Hfit; [|exact Hss].
    apply bind_ok in H. destruct H as [m' [El H]]. inversion H; subst v' m'.
    apply rev_cons_snoc in Er.
    exists fb, t0, ss, sos, (rev rt), rl.
    assert (Hb : ~ In sec_responses (map fst (rev rt))).
    { rewrite Er, map_app in Hnd. cbn [map fst] in Hnd.
      intros X. apply NoDup_remove_2 in Hnd. apply Hnd. rewrite app_nil_r. exact X. }
    assert (Hsp : section_span sos sec_responses = Some (sum_lens (rev rt), rl)).
    { apply section_span_spec. exists (rev rt), []. repeat split; assumption. }
    constructor; try assumption.
    rewrite find_section_spec by lia. rewrite Hsp. reflexivity.
  Qed.

  (* where the locations come from *)
  Lemma layout_locs (bs : bytes) v m fb t0 ss sos before rl :
    lenN bs < two64 -> layout_facts bs v m fb t0 ss sos before rl ->
    match section_span sos sec_index with
    | None => m_locs m = []
    | Some (io, il) =>
        exists contents taint tn,
          sub_at bs (ss + io) il contents /\ ss + io + il < lenN bs /\
          index_result v sos ss contents taint = Ok (m_locs m, tn)
    end.
  Proof.
    intros Hlen F. destruct F.
    pose proof (load_sections_locs x509_ok v bs sos ss sos ss (meta0 fb t0) m lf_nodup0) as L.
    apply L; try assumption. subst sos. apply resp_last_snoc. exact lf_before0.
  Qed.

  Lemma index_result_in_bounds (bs : bytes) v sos ss before rl contents taint ls tn :
    lenN bs < two64 ->
    find_section sos sec_responses = Some (rl, sum_lens before) ->
    ss + sum_lens before + rl <= lenN bs ->
    index_result v sos ss contents taint = Ok (ls, tn) ->
    Forall (in_bounds (ss + sum_lens before) rl) ls.
  Proof. clear x509_ok.
    intros Hlen Hf Hfit H. unfold index_result in H. rewrite Hf in H.
    apply bind_ok in H. destruct H as [[n r] [E1 H]]. beta_pair in H.
    rewrite w64_small in H by lia.
    eapply (parse_index_in_bounds (lenN bs)); [| |constructor|exact H]; lia.
  Qed.

  (* C05: every location the reader dereferences is inside the responses
     section, and that section is inside the file; plain N, no wrap *)
  Theorem load_metadata_in_bounds (bs : bytes) v m :
    lenN bs < two64 -> load_metadata x509_ok bs = Ok (v, m) ->
    exists resp_start resp_len,
      resp_start + resp_len <= lenN bs /\
      Forall (in_bounds resp_start resp_len) (m_locs m).
  Proof.
    intros Hlen H.
    destruct (load_metadata_layout bs v m Hlen H) as [fb [t0 [ss [sos [before [rl F]]]]]].
    pose proof (layout_locs _ _ _ _ _ _ _ _ _ Hlen F) as L. destruct F.
    exists (ss + sum_lens before), rl.
    assert (Hfit : ss + sum_lens before + rl <= lenN bs).
    { pose proof (section_span_bound _ _ _ _ lf_span0). lia. }
    split; [exact Hfit|].
    destruct (section_span sos sec_index) as [[io il]|].
    - destruct L as [contents [taint [tn [_ [_ Hi]]]]].
      eapply index_result_in_bounds; eauto.
    - rewrite L. constructor.
  Qed.

  (* the same, with the responses section tied to the section table *)
  Theorem load_metadata_in_bounds_layout (bs : bytes) v m :
    lenN bs < two64 -> load_metadata x509_ok bs = Ok (v, m) ->
    exists fb t0 ss sos before resp_len,
      load_header bs = Ok (v, fb, t0, ss, sos) /\
      sos = before ++ [(sec_responses, resp_len)] /\
      section_span sos sec_responses = Some (sum_lens before, resp_len) /\
      ss + sum_lens sos <= lenN bs /\
      Forall (in_bounds (ss + sum_lens before) resp_len) (m_locs m).
  Proof.
    intros Hlen H.
    destruct (load_metadata_layout bs v m Hlen H) as [fb [t0 [ss [sos [before [rl F]]]]]].
    pose proof (layout_locs _ _ _ _ _ _ _ _ _ Hlen F) as L. destruct F.
    exists fb, t0, ss, sos, before, rl.
    assert (Hfit : ss + sum_lens before + rl <= lenN bs).
    { pose proof (section_span_bound _ _ _ _ lf_span0). lia. }
    repeat (split; [assumption|]).
    destruct (section_span sos sec_index) as [[io il]|].
    - destruct L as [contents [taint [tn [_ [_ Hi]]]]].
      eapply index_result_in_bounds; eauto.
    - rewrite L. constructor.
  Qed.

  (* ---- the loop of Read over the locations ------------------------------------------ *)
  Lemma load_all_cons bs l t acc :
    load_all bs (l :: t) acc =
    if w64 (l_off l + l_len l) <? l_off l then Panic
    else match splitN bs (l_off l) with
         | None => Panic
         | Some (_, from) =>
             match splitN from (l_len l) with
             | None => Panic
             | Some (item, _) =>
                 let* (st, h, body) := load_response item in
                 load_all bs t ({| bx_url := l_url l; bx_status := st; bx_hdr := h;
                                   bx_body := body |} :: acc)
             end
         end.
  Proof. clear x509_ok. reflexivity. Qed.

  (* with the location inside the file the two slice expressions are in range
     and yield exactly the l_len bytes at l_off *)
  Lemma load_all_step (bs : bytes) l t acc :
    l_off l + l_len l <= lenN bs -> lenN bs < two64 ->
    exists item,
      sub_at bs (l_off l) (l_len l) item /\
      load_all bs (l :: t) acc =
      let* (st, h, body) := load_response item in
      load_all bs t ({| bx_url := l_url l; bx_status := st; bx_hdr := h; bx_body := body |} :: acc).
  Proof. clear x509_ok.
    intros Hfit Hlen.
    destruct (splitN_total bs (l_off l) ltac:(lia)) as [pre [from Hs1]].
    destruct (splitN_spec _ _ _ _ Hs1) as [E1 L1].
    assert (Lf : lenN from = lenN bs - l_off l).
    { rewrite E1 at 1. rewrite lenN_app. lia. }
    destruct (splitN_total from (l_len l) ltac:(lia)) as [item [post Hs2]].
    destruct (splitN_spec _ _ _ _ Hs2) as [E2 L2].
    exists item. split.
    - exists pre, post. subst from. repeat split; assumption.
    - rewrite load_all_cons. rewrite w64_small by lia.
      destruct (N.ltb_spec (l_off l + l_len l) (l_off l)) as [X|X]; [lia|].
      rewrite Hs1, Hs2. reflexivity.
  Qed.

  Lemma load_all_total (bs : bytes) (rs rl : N) : forall ls acc,
    rs + rl <= lenN bs -> lenN bs < two64 ->
    Forall (in_bounds rs rl) ls -> ok_or_err (load_all bs ls acc).
  Proof. clear x509_ok.
    induction ls as [|l t IH]; intros acc H1 H2 Hb; [exact I|].
    inversion Hb as [|x xs [Hlo Hhi] Hb']; subst.
    destruct (load_all_step bs l t acc ltac:(lia) H2) as [item [_ E]]. rewrite E.
    apply ok_or_err_bind; [apply load_response_total|]. intros [[st h] body] _. beta_pair.
    apply IH; assumption.
  Qed.

  Lemma load_all_sound (bs : bytes) (rs rl : N) : forall ls acc xs,
    rs + rl <= lenN bs -> lenN bs < two64 ->
    Forall (in_bounds rs rl) ls -> load_all bs ls acc = Ok xs ->
    exists xs', xs = rev acc ++ xs' /\
      Forall2 (fun l x => bx_url x = l_url l /\
                 exists item, sub_at bs (l_off l) (l_len l) item /\
                              load_response item = Ok (bx_status x, bx_hdr x, bx_body x)) ls xs'.
  Proof. clear x509_ok.
    induction ls as [|l t IH]; intros acc xs H1 H2 Hb H.
    - cbn [load_all] in H. inversion H; subst. exists []. rewrite app_nil_r. split; [reflexivity|constructor].
    - inversion Hb as [|x xs0 [Hlo Hhi] Hb']; subst.
      destruct (load_all_step bs l t acc ltac:(lia) H2) as [item [Hsub E]]. rewrite E in H.
      apply bind_ok in H. destruct H as [[[st h] body] [Er H]]. beta_pair in H.
      destruct (IH _ _ H1 H2 Hb' H) as [xs' [Ex F]].
      exists ({| bx_url := l_url l; bx_status := st; bx_hdr := h; bx_body := body |} :: xs').
      split.
      + rewrite Ex. cbn [rev]. rewrite <- app_assoc. reflexivity.
      + constructor; [|exact F]. cbn [bx_url bx_status bx_hdr bx_body].
        split; [reflexivity|]. exists item. split; assumption.
  Qed.

  (* ---- bundle.Read is total ---------------------------------------------------------- *)
  Theorem b_read_total (bs : bytes) : lenN bs < two64 -> ok_or_err (b_read x509_ok bs).
  Proof.
    intros Hlen. unfold b_read.
    apply ok_or_err_bind; [apply load_metadata_total; exact Hlen|]. intros [v m] E. beta_pair.
    destruct (load_metadata_in_bounds bs v m Hlen E) as [rs [rl [Hfit Hb]]].
    apply ok_or_err_bind; [eapply load_all_total; eassumption|]. intros xs _. exact I.
  Qed.

  Theorem read_no_panic (bs : bytes) : lenN bs < two64 -> b_read x509_ok bs <> Panic.
  Proof. intros H. apply (proj1 (ok_or_err_not _) (b_read_total bs H)). Qed.

  Theorem read_terminates (bs : bytes) : lenN bs < two64 -> b_read x509_ok bs <> Fuel.
  Proof. intros H. apply (proj1 (ok_or_err_not _) (b_read_total bs H)). Qed.
End Read.
