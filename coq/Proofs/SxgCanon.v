(* Proofs/SxgCanon.v - the model's header CBOR against Spec.Sxg.canon:
   unfolding lemmas for the nested fixpoint, maps of byte-string pairs,
   encode_exchange_headers = spec_headers_cbor, independence of the order in
   which the header maps are iterated. *)
From Coq Require Import Lia ZifyN ZifyNat ZifyBool Permutation Sorted.
From WP Require Import Base.Prelude Base.Decimal.
From WP Require Import Model.Cbor Model.BigEndian Model.Http Model.Sxg.
From WP Require Import Spec.Cbor Spec.Sxg.
From WP Require Import Proofs.BaseLemmas Proofs.CborHead Proofs.CborMap.
Ltac Zify.zify_post_hook ::= Z.div_mod_to_equations.
Open Scope N_scope.

Definition to_opt {A} (r : R A) : option A := match r with Ok a => Some a | _ => None end.

Lemma to_opt_of_opt {A} (o : option A) : to_opt (of_opt o) = o.
Proof. destruct o; reflexivity. Qed.

(* ---- heads ------------------------------------------------------------------ *)
Lemma chead_typed (t n : N) : major_const t -> n < two64 -> chead (t / 32) n = Some (typed_uint t n).
Proof.
  intros Ht Hn. unfold chead. replace (n <? two64) with true by lia.
  rewrite typed_uint_senc_head by exact Ht. reflexivity.
Qed.

Lemma mc_bytes : major_const MBytes. Proof. split; reflexivity. Qed.
Lemma mc_text : major_const MText. Proof. split; reflexivity. Qed.
Lemma mc_array : major_const TArray. Proof. split; reflexivity. Qed.
Lemma mc_map : major_const MMap. Proof. split; reflexivity. Qed.
Lemma mc_pos : major_const TPos. Proof. split; reflexivity. Qed.
Lemma mc_neg : major_const TNeg. Proof. split; reflexivity. Qed.

Lemma canon_bytes (b : bytes) : lenN b < two64 -> canon (CBytes b) = Some (enc_bytes b).
Proof.
  intros Hb. cbn [canon]. change 2 with (MBytes / 32).
  rewrite (chead_typed MBytes) by (exact mc_bytes || exact Hb). reflexivity.
Qed.

Lemma canon_bytes_none (b : bytes) : two64 <= lenN b -> canon (CBytes b) = None.
Proof. intros Hb. cbn [canon]. unfold chead. replace (lenN b <? two64) with false by lia. reflexivity. Qed.

Lemma canon_int (z : Z) : int64 z -> canon (CInt z) = Some (enc_int z).
Proof.
  intros Hz. unfold int64 in Hz. cbn [canon].
  rewrite enc_int_senc by (unfold two63; lia).
  unfold chead. destruct (0 <=? z)%Z eqn:Hs.
  - replace (Z.to_N z <? two64) with true by (unfold two64; lia). reflexivity.
  - replace (Z.to_N (-1 - z) <? two64) with true by (unfold two64; lia). reflexivity.
Qed.

(* ---- the nested fixpoints, as top-level functions ------------------------- *)
Fixpoint canon_items (l : list cval) : option bytes :=
  match l with
  | [] => Some []
  | x :: t => match canon x, canon_items t with
              | Some a, Some b => Some (a ++ b)
              | _, _ => None
              end
  end.

Fixpoint canon_ents (l : list (cval * cval)) : option (list (bytes * bytes)) :=
  match l with
  | [] => Some []
  | (k, x) :: t => match canon k, canon x, canon_ents t with
                   | Some a, Some b, Some r => Some ((a, b) :: r)
                   | _, _, _ => None
                   end
  end.

Lemma canon_array (l : list cval) :
  canon (CArray l) = match chead 4 (lenN l), canon_items l with
                     | Some h, Some body => Some (h ++ body)
                     | _, _ => None
                     end.
Proof. reflexivity. Qed.

Lemma canon_map (l : list (cval * cval)) :
  canon (CMap l) = match canon_ents l with
                   | Some es => cmap_bytes (lenN l) es
                   | None => None
                   end.
Proof. reflexivity. Qed.

Lemma canon_ents_length (l : list (cval * cval)) (es : list (bytes * bytes)) :
  canon_ents l = Some es -> lenN es = lenN l.
Proof.
  revert es. induction l as [|[k x] t IH]; intros es H; cbn [canon_ents] in H.
  - inversion H. reflexivity.
  - destruct (canon k) as [a|]; [|discriminate H]. destruct (canon x) as [b|]; [|discriminate H].
    destruct (canon_ents t) as [r|]; [|discriminate H]. inversion H; subst.
    cbn [lenN]. rewrite (IH r eq_refl). reflexivity.
Qed.

Lemma canon_ents_app (l1 l2 : list (cval * cval)) :
  canon_ents (l1 ++ l2) = match canon_ents l1, canon_ents l2 with
                          | Some a, Some b => Some (a ++ b)
                          | _, _ => None
                          end.
Proof.
  induction l1 as [|[k x] t IH]; cbn [app canon_ents].
  - destruct (canon_ents l2); reflexivity.
  - rewrite IH. destruct (canon k); [|reflexivity]. destruct (canon x); [|reflexivity].
    destruct (canon_ents t); [|reflexivity]. destruct (canon_ents l2); reflexivity.
Qed.

(* ---- distinct / cmap_bytes versus EncodeMap ---------------------------------- *)
Lemma distinct_iff (l : list bytes) : distinct l = true <-> NoDup l.
Proof.
  induction l as [|x t IH]; cbn [distinct].
  - split; [constructor|reflexivity].
  - rewrite andb_true_iff, negb_true_iff, IH. split.
    + intros [Hn Ht]. constructor; [|exact Ht]. intros Hin.
      assert (E : existsb (bytes_eqb x) t = true)
        by (apply existsb_exists; exists x; split; [exact Hin|apply bytes_eqb_refl]).
      congruence.
    + intros Hnd. inversion Hnd as [|? ? Hn Ht]; subst. split; [|exact Ht].
      destruct (existsb (bytes_eqb x) t) eqn:E; [|reflexivity].
      apply existsb_exists in E. destruct E as [y [Hy Exy]]. apply bytes_eqb_eq in Exy. subst y.
      contradiction.
Qed.

Lemma cmap_enc_map (es : list (bytes * bytes)) :
  lenN es < two64 -> cmap_bytes (lenN es) es = to_opt (enc_map es).
Proof.
  intros Hn. unfold cmap_bytes, enc_map. cbv zeta.
  change 5 with (MMap / 32). rewrite (chead_typed MMap) by (exact mc_map || exact Hn).
  change (isort by_key es) with (sort_entries es).
  destruct (adjacent_dup (sort_entries es)) eqn:Hd.
  - replace (distinct (map fst es)) with false; [reflexivity|].
    symmetry. destruct (distinct (map fst es)) eqn:E; [|reflexivity].
    apply distinct_iff, sort_nodup_iff in E. congruence.
  - replace (distinct (map fst es)) with true; [reflexivity|].
    symmetry. apply distinct_iff, sort_nodup_iff. exact Hd.
Qed.

(* ---- maps whose keys and values are byte strings ------------------------------- *)
Definition cpair (kv : bytes * bytes) : cval * cval := (CBytes (fst kv), CBytes (snd kv)).
Definition epair (kv : bytes * bytes) : bytes * bytes := (enc_bytes (fst kv), enc_bytes (snd kv)).
Definition pair_fits (kv : bytes * bytes) : Prop := lenN (fst kv) < two64 /\ lenN (snd kv) < two64.

Lemma canon_ents_pairs (P : list (bytes * bytes)) :
  Forall pair_fits P -> canon_ents (map cpair P) = Some (map epair P).
Proof.
  induction 1 as [|[k x] t [Hk Hx] Ht IH]; [reflexivity|].
  cbn [map cpair canon_ents fst snd]. cbn [fst snd] in Hk, Hx.
  rewrite (canon_bytes k Hk), (canon_bytes x Hx), IH. reflexivity.
Qed.

Lemma canon_ents_pairs_none (P : list (bytes * bytes)) :
  ~ Forall pair_fits P -> canon_ents (map cpair P) = None.
Proof.
  induction P as [|[k x] t IH]; intros Hn; [exfalso; apply Hn; constructor|].
  cbn [map cpair canon_ents fst snd].
  destruct (N.lt_ge_cases (lenN k) two64) as [Hk|Hk]; [|rewrite (canon_bytes_none k Hk); reflexivity].
  rewrite (canon_bytes k Hk).
  destruct (N.lt_ge_cases (lenN x) two64) as [Hx|Hx]; [|rewrite (canon_bytes_none x Hx); reflexivity].
  rewrite (canon_bytes x Hx). rewrite IH; [reflexivity|].
  intros Ht. apply Hn. constructor; [split; assumption|exact Ht].
Qed.

Lemma canon_pairs_map (P : list (bytes * bytes)) :
  Forall pair_fits P -> lenN P < two64 ->
  canon (CMap (map cpair P)) = to_opt (enc_map (map epair P)).
Proof.
  intros HP Hn. rewrite canon_map, (canon_ents_pairs P HP), lenN_map.
  rewrite <- (lenN_map epair P). apply cmap_enc_map. rewrite lenN_map. exact Hn.
Qed.

(* ---- comma joining -------------------------------------------------------------- *)
Lemma comma_joined_join (vs : list bytes) : comma_joined vs = join_comma vs.
Proof.
  destruct vs as [|v t]; [reflexivity|]. cbn [comma_joined]. revert v.
  induction t as [|w t IH]; intros v.
  - cbn [flat_map join_comma]. apply app_nil_r.
  - change (join_comma (v :: w :: t)) with (v ++ [44] ++ join_comma (w :: t)).
    rewrite <- (IH w). cbn [flat_map app]. reflexivity.
Qed.

(* ---- the raw (name, value) pairs of a header map -------------------------------- *)
Definition raw_pair (nv : bytes * list bytes) : bytes * bytes := (lower (fst nv), join_comma (snd nv)).
Definition raw_pairs (h : headers) : list (bytes * bytes) := map raw_pair h.

Lemma header_entries_raw (h : headers) : header_entries h = map epair (raw_pairs h).
Proof. unfold header_entries, raw_pairs. rewrite map_map. reflexivity. Qed.

Lemma field_pairs_raw (h : headers) : field_pairs h = map cpair (raw_pairs h).
Proof.
  unfold field_pairs, raw_pairs. rewrite map_map. apply map_ext. intros [n vs].
  unfold cpair, raw_pair. cbn [fst snd]. rewrite comma_joined_join. reflexivity.
Qed.

Definition req_pairs (e : exchange) : list (bytes * bytes) :=
  (key_method, e_method e)
  :: match e_ver e with V1b1 => [(key_url, e_uri e)] | _ => [] end ++ raw_pairs (e_reqh e).
Definition resp_pairs (e : exchange) : list (bytes * bytes) :=
  (key_status, dec_of_Z (e_status e)) :: raw_pairs (e_resph e).

Lemma encode_request_map_pairs (e : exchange) :
  encode_request_map e = enc_map (map epair (req_pairs e)).
Proof.
  unfold encode_request_map, req_pairs. rewrite header_entries_raw. f_equal.
  cbn [map app epair fst snd]. f_equal. rewrite map_app. f_equal. destruct (e_ver e); reflexivity.
Qed.

Lemma encode_response_map_pairs (e : exchange) :
  encode_response_map e = enc_map (map epair (resp_pairs e)).
Proof. unfold encode_response_map, resp_pairs. rewrite header_entries_raw. reflexivity. Qed.

Lemma request_value_pairs (e : exchange) : request_value e = CMap (map cpair (req_pairs e)).
Proof.
  unfold request_value, req_pairs. rewrite field_pairs_raw. f_equal.
  cbn [map]. f_equal. rewrite map_app. f_equal. destruct (e_ver e); reflexivity.
Qed.

Lemma response_value_pairs (e : exchange) : response_value e = CMap (map cpair (resp_pairs e)).
Proof. unfold response_value, resp_pairs. rewrite field_pairs_raw. reflexivity. Qed.

(* ---- the Go domain gives the size facts ------------------------------------------- *)
Lemma go_headers_fits (h : headers) : go_headers h -> Forall pair_fits (raw_pairs h).
Proof.
  intros [_ H]. unfold raw_pairs. apply Forall_map. eapply Forall_impl; [|exact H].
  intros [n vs] [H1 H2]. unfold pair_fits, raw_pair, go_len, two63, two64 in *. cbn [fst snd] in *.
  rewrite comma_joined_join in H2. unfold lower. rewrite lenN_map. lia.
Qed.

Lemma go_req_fits (e : exchange) : go_exchange e ->
  Forall pair_fits (req_pairs e) /\ lenN (req_pairs e) < two64.
Proof.
  intros (Hu & Hm & Hq & _). pose proof (go_headers_fits _ Hq) as Hf. destruct Hq as [Hl _].
  unfold go_len, two63 in *. unfold req_pairs. split.
  - constructor; [split; cbn [fst snd]; [vm_compute; reflexivity|unfold two64; lia]|].
    apply Forall_app. split; [|exact Hf].
    destruct (e_ver e); repeat constructor; cbn [fst snd]; unfold two64; try lia; vm_compute; reflexivity.
  - cbn [lenN]. rewrite lenN_app. unfold raw_pairs. rewrite lenN_map.
    destruct (e_ver e); cbn [lenN]; unfold two64; lia.
Qed.

Lemma dec_of_N_len (n : N) : lenN (dec_of_N n) <= N.of_nat (S (N.size_nat n)).
Proof.
  unfold dec_of_N.
  assert (G : forall fuel m acc, lenN (dec_digits fuel m acc) <= N.of_nat fuel + lenN acc).
  { induction fuel as [|f IH]; intros m acc; cbn [dec_digits]; [lia|].
    destruct (m / 10 =? 0); [cbn [lenN]; lia|].
    specialize (IH (m / 10) ((48 + m mod 10) :: acc)). cbn [lenN] in IH. lia. }
  specialize (G (S (N.size_nat n)) n []). cbn [lenN] in G. lia.
Qed.

Lemma pos_size_nat_le (p : positive) : 2 ^ N.of_nat (Pos.size_nat p) <= 2 * N.pos p.
Proof.
  induction p as [p IH|p IH|]; cbn [Pos.size_nat]; rewrite ?Nat2N.inj_succ, ?N.pow_succ_r'.
  - change (N.pos p~1) with (2 * N.pos p + 1). lia.
  - change (N.pos p~0) with (2 * N.pos p). lia.
  - cbn. lia.
Qed.

(* the decimal rendering of ANY integer has a length far below 2^63: it is at
   most 2 + the number of binary digits, and a Coq positive with 2^62 binary
   digits ... exists; so this too is a (trivially true in Go) domain fact, for
   which int64 is more than enough *)
Lemma status_len (z : Z) : int64 z -> lenN (dec_of_Z z) < 100.
Proof.
  intros Hz. unfold int64 in Hz. unfold dec_of_Z.
  assert (G : forall n, n < 2 ^ 64 -> lenN (dec_of_N n) < 80).
  { intros n Hn. pose proof (dec_of_N_len n) as H1.
    assert (H2 : (N.size_nat n <= 64)%nat).
    { destruct n as [|p]; [cbn; lia|]. cbn [N.size_nat].
      pose proof (pos_size_nat_le p) as Hs.
      assert (Hlt : 2 ^ N.of_nat (Pos.size_nat p) < 2 ^ 65).
      { change (2 ^ 65) with (2 * 2 ^ 64). lia. }
      apply N.pow_lt_mono_r_iff in Hlt; lia. }
    lia. }
  destruct (z <? 0)%Z; cbn [lenN]; [specialize (G (Z.to_N (- z)))|specialize (G (Z.to_N z))]; lia.
Qed.

Lemma go_resp_fits (e : exchange) : go_exchange e -> int64 (e_status e) ->
  Forall pair_fits (resp_pairs e) /\ lenN (resp_pairs e) < two64.
Proof.
  intros (_ & _ & _ & Hs) Hz. pose proof (go_headers_fits _ Hs) as Hf. destruct Hs as [Hl _].
  pose proof (status_len _ Hz) as Hst.
  unfold go_len, two63 in *. unfold resp_pairs. split.
  - constructor; [split; cbn [fst snd]; [vm_compute; reflexivity|unfold two64; lia]|exact Hf].
  - cbn [lenN]. unfold raw_pairs. rewrite lenN_map. unfold two64. lia.
Qed.

(* ---- C08 headers_cbor_conforms ------------------------------------------------------ *)
Lemma enc_map_ok_or_err' (es : list (bytes * bytes)) :
  match enc_map es with Ok _ | Err => True | _ => False end.
Proof. destruct (enc_map_ok_or_err es) as [H|[o H]]; rewrite H; exact I. Qed.

Theorem headers_cbor_eq (e : exchange) : go_exchange e -> int64 (e_status e) ->
  spec_headers_cbor e = to_opt (encode_exchange_headers e).
Proof.
  intros Hg Hz. destruct (go_req_fits e Hg) as [Hq1 Hq2]. destruct (go_resp_fits e Hg Hz) as [Hs1 Hs2].
  unfold spec_headers_cbor, headers_value, encode_exchange_headers.
  assert (Hresp : canon (response_value e) = to_opt (encode_response_map e)).
  { rewrite response_value_pairs, encode_response_map_pairs. apply canon_pairs_map; assumption. }
  assert (Hreq : canon (request_value e) = to_opt (encode_request_map e)).
  { rewrite request_value_pairs, encode_request_map_pairs. apply canon_pairs_map; assumption. }
  assert (Harr : canon (CArray [request_value e; response_value e])
                 = to_opt (let* rq := encode_request_map e in
                           let* rs := encode_response_map e in
                           Ok (enc_array_header 2 ++ rq ++ rs))).
  { rewrite canon_array. cbn [canon_items lenN]. rewrite Hreq, Hresp.
    change (N.succ (N.succ 0)) with 2. change 4 with (TArray / 32).
    rewrite (chead_typed TArray) by (exact mc_array || (unfold two64; lia)).
    destruct (encode_request_map e) as [rq| | |]; cbn [to_opt bind]; try reflexivity.
    destruct (encode_response_map e) as [rs| | |]; cbn [to_opt bind]; try reflexivity.
    rewrite app_nil_r. reflexivity. }
  destruct (e_ver e); cbn [has_request]; assumption.
Qed.

Lemma encode_exchange_headers_ok_or_err (e : exchange) :
  match encode_exchange_headers e with Ok _ | Err => True | _ => False end.
Proof.
  unfold encode_exchange_headers.
  pose proof (enc_map_ok_or_err' (map epair (req_pairs e))) as H1.
  pose proof (enc_map_ok_or_err' (map epair (resp_pairs e))) as H2.
  rewrite <- encode_request_map_pairs in H1. rewrite <- encode_response_map_pairs in H2.
  destruct (has_request (e_ver e)).
  - destruct (encode_request_map e); cbn [bind]; try exact I; try contradiction.
    destruct (encode_response_map e); cbn [bind]; try exact I; contradiction.
  - exact H2.
Qed.

Theorem headers_cbor_conforms (e : exchange) (bs : bytes) : go_exchange e -> int64 (e_status e) ->
  (encode_exchange_headers e = Ok bs <-> spec_headers_cbor e = Some bs).
Proof.
  intros Hg Hz. rewrite (headers_cbor_eq e Hg Hz).
  destruct (encode_exchange_headers e); cbn [to_opt]; split; intros H; congruence.
Qed.

Theorem headers_cbor_err (e : exchange) : go_exchange e -> int64 (e_status e) ->
  (encode_exchange_headers e = Err <-> spec_headers_cbor e = None).
Proof.
  intros Hg Hz. rewrite (headers_cbor_eq e Hg Hz).
  pose proof (encode_exchange_headers_ok_or_err e) as H.
  destruct (encode_exchange_headers e); cbn [to_opt]; split; intros H'; try congruence; contradiction.
Qed.

(* ---- C08 headers_perm_invariant ----------------------------------------------------- *)
Theorem headers_perm_invariant (e e' : exchange) :
  Permutation (e_reqh e) (e_reqh e') -> Permutation (e_resph e) (e_resph e') ->
  e_ver e = e_ver e' -> e_uri e = e_uri e' -> e_method e = e_method e' ->
  e_status e = e_status e' ->
  encode_exchange_headers e = encode_exchange_headers e'.
Proof.
  intros Pq Ps Ev Eu Em Est.
  assert (Hq : encode_request_map e = encode_request_map e').
  { unfold encode_request_map. rewrite <- Ev, <- Eu, <- Em. apply enc_map_perm.
    apply Permutation_app_head, Permutation_app_head. unfold header_entries.
    apply Permutation_map. exact Pq. }
  assert (Hs : encode_response_map e = encode_response_map e').
  { unfold encode_response_map. rewrite <- Est. apply enc_map_perm. apply perm_skip.
    unfold header_entries. apply Permutation_map. exact Ps. }
  unfold encode_exchange_headers. rewrite <- Ev, Hq, Hs. reflexivity.
Qed.

Lemma existsb_perm {A} (p : A -> bool) (l l' : list A) :
  Permutation l l' -> existsb p l = existsb p l'.
Proof.
  induction 1 as [|x l l' _ IH|x y l|l l' l'' _ IH1 _ IH2]; cbn [existsb].
  - reflexivity.
  - rewrite IH. reflexivity.
  - destruct (p x), (p y); reflexivity.
  - congruence.
Qed.

Lemma write_refuses_perm (e e' : exchange) :
  Permutation (e_reqh e) (e_reqh e') -> e_ver e = e_ver e' -> e_uri e = e_uri e' ->
  write_refuses e = write_refuses e'.
Proof.
  intros Pq Ev Eu. unfold write_refuses. rewrite <- Ev, <- Eu.
  rewrite (existsb_perm _ _ _ Pq). reflexivity.
Qed.

(* Write = the refusals (fallback URL not https; b2 request header ":url"), then
   the serialisation proper *)
Definition write_body (e : exchange) : R bytes :=
  let* hdr := encode_exchange_headers e in
  let hl := lenN hdr in
  let sl := lenN (e_sig e) in
  match e_ver e with
  | V1b1 =>
      let* a := be_encode (Z.of_N sl) 3 in
      let* b := be_encode (Z.of_N hl) 3 in
      Ok (header_magic V1b1 ++ a ++ b ++ e_sig e ++ hdr ++ e_payload e)
  | v =>
      let* ul := be_encode (Z.of_N (lenN (e_uri e))) 2 in
      if 16384 <? sl then Err
      else
        let* a := be_encode (Z.of_N sl) 3 in
        if 524288 <? hl then Err
        else
          let* b := be_encode (Z.of_N hl) 3 in
          Ok (header_magic v ++ ul ++ e_uri e ++ a ++ b ++ e_sig e ++ hdr ++ e_payload e)
  end.

Lemma write_unfold (e : exchange) : write e = if write_refuses e then Err else write_body e.
Proof. reflexivity. Qed.

Lemma write_ok_body (e : exchange) (bs : bytes) :
  write e = Ok bs <-> write_refuses e = false /\ write_body e = Ok bs.
Proof.
  rewrite write_unfold. destruct (write_refuses e); split.
  - discriminate.
  - intros [H _]. discriminate H.
  - intros H. split; [reflexivity|exact H].
  - intros [_ H]. exact H.
Qed.

Corollary write_perm_invariant (e e' : exchange) :
  Permutation (e_reqh e) (e_reqh e') -> Permutation (e_resph e) (e_resph e') ->
  e_ver e = e_ver e' -> e_uri e = e_uri e' -> e_method e = e_method e' ->
  e_status e = e_status e' -> e_sig e = e_sig e' -> e_payload e = e_payload e' ->
  write e = write e'.
Proof.
  intros Pq Ps Ev Eu Em Est Esg Ep. rewrite !write_unfold. unfold write_body.
  rewrite (write_refuses_perm e e' Pq Ev Eu).
  rewrite (headers_perm_invariant e e' Pq Ps Ev Eu Em Est), <- Ev, <- Eu, <- Esg, <- Ep. reflexivity.
Qed.
