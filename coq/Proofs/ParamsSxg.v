(* Part of the tie between the Go sources and the model: constants re-generated
   from the working tree by `harness params` (Generated/Params.v) equal the ones
   the model and the theorems use.  A changed constant in /repo makes one of
   these `reflexivity` proofs fail. *)
From WP Require Import Base.Prelude Generated.Params.
From WP Require Import Model.Sxg.
Open Scope N_scope.

Lemma params_complete_sxg : p_translator_complete = true.
Proof. reflexivity. Qed.

(* ---- signed exchanges (C01 C02 C08 C09) ---------------------------------- *)
(* the two header sets, compared as sets (both sides sorted, duplicates removed by the translator) *)
Lemma params_stateful_headers :
  p_stateful_request_headers = isort bytes_ltb stateful_request_headers /\
  p_uncached_headers = isort bytes_ltb uncached_headers.
Proof. split; reflexivity. Qed.
Lemma params_cacheable_status :
  p_cacheable_status_codes_sorted = true /\
  forall s, cacheable_status s = existsb (Z.eqb s) p_cacheable_status_codes.
Proof. split; reflexivity. Qed.
Lemma params_sxg_limits :
  p_max_signature_header_len = 16384 /\ p_max_header_len = 524288 /\ p_sxg_max_mi_record_size = 16384.
Proof. repeat split. Qed.
Lemma params_sxg_strings :
  p_sxg_context_strings = map context_string [V1b1; V1b2; V1b3] /\
  p_sxg_header_magic = map header_magic [V1b1; V1b2; V1b3] /\ p_sxg_header_magic_len = 8.
Proof. repeat split. Qed.

