(* Proofs/BundleWriteSpec.v - the executable judge of Spec/Bundle.v is sound:
   wf_check v bs p = true -> WF v bs p, hence wf_parse v bs = Some p -> WF v bs p. *)
From Coq Require Import Lia ZifyN ZifyNat ZifyBool Sorting.Sorted Relations.
From WP Require Import Base.Prelude Spec.Cbor Spec.Det Spec.Bundle.
From WP Require Import Proofs.BaseLemmas Proofs.CborUtf8 Proofs.CborMap.
From WP Require Proofs.DetLemmas Proofs.DetSound.
Open Scope N_scope.

Lemma nodupb_sound (l : list bytes) : nodupb l = true -> NoDup l.
Proof.
  induction l as [|x t IH]; cbn [nodupb]; intros H; [constructor|].
  apply andb_true_iff in H. destruct H as [H1 H2]. constructor; [|apply IH; exact H2].
  intros Hin. apply negb_true_iff in H1.
  assert (E : existsb (bytes_eqb x) t = true).
  { apply existsb_exists. exists x. split; [exact Hin|apply bytes_eqb_refl]. }
  congruence.
Qed.

Lemma existsb_bytes_In (x : bytes) (l : list bytes) :
  existsb (bytes_eqb x) l = true -> In x l.
Proof.
  intros H. apply existsb_exists in H. destruct H as [y [Hy E]].
  apply bytes_eqb_eq in E. subst y. exact Hy.
Qed.

Lemma ascb_sorted {A} (key : A -> bytes) (l : list A) :
  ascb key l = true -> Sorted (fun a b => blt (key a) (key b)) l.
Proof.
  induction l as [|a t IH]; intros H; [constructor|].
  destruct t as [|b t'].
  - constructor; constructor.
  - cbn [ascb] in H. apply andb_true_iff in H. destruct H as [H1 H2].
    constructor; [apply IH; exact H2|]. constructor. apply blt_ltb. exact H1.
Qed.

Lemma ascb_sound {A} (key : A -> bytes) (l : list A) :
  ascb key l = true -> StronglySorted (fun a b => blt (key a) (key b)) l.
Proof.
  intros H. apply Sorted_StronglySorted; [|apply ascb_sorted; exact H].
  intros a b c. apply blt_trans.
Qed.

Lemma delimitsb_sound (rs : list rsp) (l : N * N) : delimitsb rs l = true -> Delimits rs l.
Proof.
  unfold delimitsb, Delimits. intros H. apply existsb_exists in H.
  destruct H as [i [_ H]]. destruct (nth_error rs i) as [r|] eqn:E; [|discriminate].
  apply andb_true_iff in H. destruct H as [H1 H2].
  apply N.eqb_eq in H1. apply N.eqb_eq in H2. exists i, r. auto.
Qed.

Lemma rsp_okb_sound (r : rsp) : rsp_okb r = true -> RspOK r.
Proof.
  unfold rsp_okb, RspOK. intros H. apply andb_true_iff in H. destruct H as [H1 H2].
  split; [apply ascb_sound; exact H1|apply existsb_bytes_In; exact H2].
Qed.

Lemma entry_okb_sound (v : bversion) (rs : list rsp) e :
  entry_okb v rs e = true -> EntryOK v rs e.
Proof.
  unfold entry_okb, EntryOK. intros H.
  apply andb_true_iff in H. destruct H as [H H4].
  apply andb_true_iff in H. destruct H as [H H3].
  apply andb_true_iff in H. destruct H as [H1 H2].
  split; [apply sutf8_valid_correct; exact H1|].
  split; [destruct (ix_locs e); [discriminate|discriminate]|].
  split.
  - apply Forall_forall. intros l Hl. apply delimitsb_sound.
    rewrite forallb_forall in H3. apply H3. exact Hl.
  - destruct v.
    + destruct (ix_vv e); [|intros; discriminate]. intros _. apply N.eqb_eq. exact H4.
    + apply andb_true_iff in H4. destruct H4 as [H4 H5]. split; [apply N.eqb_eq; exact H4|].
      destruct (ix_vv e); [reflexivity|discriminate].
Qed.

Lemma index_okb_sound (v : bversion) (p : parsed) : index_okb v p = true -> IndexOK v p.
Proof.
  unfold index_okb, IndexOK. intros H.
  apply andb_true_iff in H. destruct H as [H H3].
  apply andb_true_iff in H. destruct H as [H1 H2].
  split; [apply ascb_sound; exact H1|]. split.
  - apply Forall_forall. intros e He. apply entry_okb_sound.
    rewrite forallb_forall in H2. apply H2. exact He.
  - apply Forall_forall. intros r Hr. apply rsp_okb_sound.
    rewrite forallb_forall in H3. apply H3. exact Hr.
Qed.

Lemma det_itemb_sound (body : bytes) : wfb body -> det_itemb body = true -> DetItem body.
Proof.
  unfold det_itemb. intros W H.
  destruct (Model.Det.det_rec (S (S (2 * List.length body))) body) as [l| | |] eqn:E;
    try discriminate.
  apply N.eqb_eq in H. subst l.
  destruct (DetSound.det_rec_sound _ _ _ W E) as [item [rest [E1 [D L]]]].
  assert (R : rest = []).
  { apply lenN_nil_inv. rewrite E1, lenN_app in L. lia. }
  subst rest. rewrite app_nil_r in E1. subst item. exact D.
Qed.

Lemma text_item_ofb_sound (body : bytes) :
  text_item_ofb body = true -> exists u, Utf8Valid u /\ body = text_item u.
Proof.
  unfold text_item_ofb. intros H.
  destruct (shead body) as [[[[mt n] w] u]|]; [|discriminate].
  destruct mt as [|[[|[]|]|[]|]]; try discriminate.
  apply andb_true_iff in H. destruct H as [H1 H2].
  exists u. split; [apply sutf8_valid_correct; exact H1|apply bytes_eqb_eq; exact H2].
Qed.

Lemma section_okb_sound (v : bversion) (p : parsed) (s : bytes * bytes) :
  wfb (snd s) -> section_okb v p s = true -> SectionOK v p s.
Proof.
  unfold section_okb, SectionOK. intros W H.
  apply andb_true_iff in H. destruct H as [H1 H2].
  split; [apply sutf8_valid_correct; exact H1|].
  destruct (bytes_eqb (fst s) n_index); [apply bytes_eqb_eq; exact H2|].
  destruct (bytes_eqb (fst s) n_responses); [apply bytes_eqb_eq; exact H2|].
  destruct (bytes_eqb (fst s) n_primary || bytes_eqb (fst s) n_manifest).
  - destruct (text_item_ofb_sound _ H2) as [u [U E]]. exists u. auto.
  - apply det_itemb_sound; assumption.
Qed.

Lemma last_section_sound (secs : list (bytes * bytes)) :
  match rev secs with (n, _) :: _ => bytes_eqb n n_responses | [] => false end = true ->
  exists front rb, secs = front ++ [(n_responses, rb)].
Proof.
  intros H. destruct (rev secs) as [|[n rb] t] eqn:E; [discriminate|].
  apply bytes_eqb_eq in H. subst n. exists (rev t), rb.
  rewrite <- (rev_involutive secs), E. reflexivity.
Qed.

Theorem wf_check_sound (v : bversion) (bs : bytes) (p : parsed) :
  wf_check v bs p = true -> WF v bs p.
Proof.
  unfold wf_check, WF. intros H.
  apply andb_true_iff in H. destruct H as [H Cidx].
  apply andb_true_iff in H. destruct H as [H Csec].
  apply andb_true_iff in H. destruct H as [H Chasidx].
  apply andb_true_iff in H. destruct H as [H Clast].
  apply andb_true_iff in H. destruct H as [H Cnodup].
  apply andb_true_iff in H. destruct H as [H Cprim].
  apply andb_true_iff in H. destruct H as [H Ceq].
  apply andb_true_iff in H. destruct H as [H Clen].
  apply wfbb_wfb in H. apply bytes_eqb_eq in Ceq.
  split; [exact H|]. split; [lia|]. split; [exact Ceq|].
  split.
  { destruct v, (p_primary p); try discriminate; try exact I.
    apply sutf8_valid_correct. exact Cprim. }
  split; [apply nodupb_sound; exact Cnodup|].
  split; [apply last_section_sound; exact Clast|].
  split; [apply existsb_bytes_In; exact Chasidx|].
  split; [|apply index_okb_sound; exact Cidx].
  (* every section body is a sub-list of the file, hence made of bytes *)
  assert (Wsecs : Forall wfb (map snd (p_sections p))).
  { apply DetLemmas.wfb_concat.
    rewrite Ceq in H. unfold file_body in H.
    repeat (apply DetLemmas.wfb_app in H; destruct H as [? H] || idtac).
    repeat match goal with
           | Hx : wfb (_ ++ _) |- _ => apply DetLemmas.wfb_app in Hx; destruct Hx
           end.
    assumption. }
  apply Forall_forall. intros s Hs. apply section_okb_sound.
  - rewrite Forall_forall in Wsecs. apply Wsecs. apply in_map. exact Hs.
  - rewrite forallb_forall in Csec. apply Csec. exact Hs.
Qed.

Theorem wf_parse_sound (v : bversion) (bs : bytes) (p : parsed) :
  wf_parse v bs = Some p -> WF v bs p.
Proof.
  unfold wf_parse. destruct (propose v bs) as [q|]; [|discriminate].
  destruct (wf_check v bs q) eqn:E; [|discriminate].
  intros H. inversion H; subst q. apply wf_check_sound. exact E.
Qed.
