(* Proofs/Purity.v - C18, part (i): order-independence of the serializers.

   The models take every Go map as an association list in the order map
   iteration happened to produce.  Go randomises that order; the theorems
   below show that no serializer's result (the bytes on success, the failure
   otherwise) depends on it.

   Parts (ii) "repetition / interleaving / concurrency cannot change the
   result" hold because each model is a Gallina FUNCTION of its logical
   inputs: there is no state a previous or concurrent call could have left
   behind (the Go side of that claim - no hidden state, no data race - is
   checked by the correspondence run under the race detector, not here). *)
From Coq Require Import Lia Permutation.
From WP Require Import Base.Prelude Base.Base64.
From WP Require Import Model.Cbor Model.Http Model.StructHdr Model.CertChain Model.Sxg
  Model.Bundle Model.BundleSig Model.IntegrityBlock.
From WP Require Import Proofs.BaseLemmas Proofs.CborMap Proofs.SxgCanon
  Proofs.IntegrityBlockBase Proofs.BundleSigRoundtrip.
Open Scope N_scope.

Lemma lenN_Forall2 {A B} (P : A -> B -> Prop) (l : list A) (l' : list B) :
  Forall2 P l l' -> lenN l = lenN l'.
Proof. induction 1 as [|x y l l' _ _ IH]; cbn [lenN]; [reflexivity|]. rewrite IH. reflexivity. Qed.

(* ======================= signed exchanges ========================================== *)
(* signed_message looks at the exchange only through encode_exchange_headers,
   the version and the URL *)
Theorem signed_message_perm (e e' : exchange) (cert : option bytes) (validity : bytes)
    (date expires : Z) :
  Permutation (e_reqh e) (e_reqh e') -> Permutation (e_resph e) (e_resph e') ->
  e_ver e = e_ver e' -> e_uri e = e_uri e' -> e_method e = e_method e' ->
  e_status e = e_status e' ->
  signed_message e cert validity date expires = signed_message e' cert validity date expires.
Proof.
  intros Pq Ps Ev Eu Em Est. unfold signed_message.
  rewrite (headers_perm_invariant e e' Pq Ps Ev Eu Em Est), <- Ev, <- Eu. reflexivity.
Qed.

Theorem header_integrity_perm (H256 : bytes -> bytes) (e e' : exchange) :
  Permutation (e_reqh e) (e_reqh e') -> Permutation (e_resph e) (e_resph e') ->
  e_ver e = e_ver e' -> e_uri e = e_uri e' -> e_method e = e_method e' ->
  e_status e = e_status e' ->
  header_integrity H256 e = header_integrity H256 e'.
Proof.
  intros Pq Ps Ev Eu Em Est. unfold header_integrity.
  rewrite (headers_perm_invariant e e' Pq Ps Ev Eu Em Est). reflexivity.
Qed.

(* ======================= integrity block =========================================== *)
(* the same stack, each signature's attribute map in another iteration order *)
Definition isig_perm (s s' : isig) : Prop :=
  Permutation (is_attrs s) (is_attrs s') /\ is_sig s = is_sig s'.

Theorem stack_cbor_perm (l l' : list isig) :
  Forall2 isig_perm l l' -> stack_cbor l = stack_cbor l'.
Proof.
  induction 1 as [|s s' l l' [Pa Es] _ IH]; cbn [stack_cbor]; [reflexivity|].
  rewrite (attrs_cbor_perm _ _ Pa), IH, Es. reflexivity.
Qed.

Theorem block_cbor_perm (b b' : iblock) :
  Forall2 isig_perm (ib_stack b) (ib_stack b') -> block_cbor b = block_cbor b'.
Proof.
  intros HF. unfold block_cbor.
  rewrite (stack_cbor_perm _ _ HF), (lenN_Forall2 _ _ _ HF). reflexivity.
Qed.

Theorem data_to_be_signed_perm (hash block : bytes) (a a' : attrs) :
  Permutation a a' -> data_to_be_signed hash block a = data_to_be_signed hash block a'.
Proof. intros P. unfold data_to_be_signed. rewrite (attrs_cbor_perm _ _ P). reflexivity. Qed.

(* ======================= bundles: one response ===================================== *)
Theorem encode_response_header_perm (status : Z) (h h' : headers) :
  Permutation h h' -> encode_response_header status h = encode_response_header status h'.
Proof.
  intros P. unfold encode_response_header.
  assert (F : forallb hdr_writable_b h = forallb hdr_writable_b h').
  { clear - P. induction P as [|x l l' _ IH|x y l|l l' l'' _ IH1 _ IH2]; cbn [forallb];
      [reflexivity|rewrite IH; reflexivity| |congruence].
    destruct (hdr_writable_b x), (hdr_writable_b y); reflexivity. }
  rewrite F.
  destruct ((status <? 100) || (999 <? status))%Z; [reflexivity|].
  destruct (negb (forallb hdr_writable_b h')); [reflexivity|].
  apply enc_map_perm. apply perm_skip.
  apply Permutation_map. exact P.
Qed.

(* the same exchange with its header map in another iteration order *)
Definition bx_perm (x x' : bexchange) : Prop :=
  bx_url x = bx_url x' /\ bx_status x = bx_status x' /\ bx_body x = bx_body x' /\
  Permutation (bx_hdr x) (bx_hdr x').

Theorem encode_response_perm (x x' : bexchange) : bx_perm x x' -> encode_response x = encode_response x'.
Proof.
  intros (_ & Es & Eb & P). unfold encode_response.
  rewrite Es, Eb, (encode_response_header_perm _ _ _ P). reflexivity.
Qed.

Theorem header_sha256_perm (H256 : bytes -> bytes) (x x' : bexchange) :
  bx_perm x x' -> header_sha256 H256 x = header_sha256 H256 x'.
Proof.
  intros (_ & Es & _ & P). unfold header_sha256.
  rewrite Es, (encode_response_header_perm _ _ _ P). reflexivity.
Qed.

(* ======================= bundles: the whole file =================================== *)
(* A Go map has each key once: the association list standing for it has no
   repeated name.  Under that condition a lookup does not depend on the order.
   (Without it the model's first-match lookup would.) *)
Lemma hdr_lookup_perm (h h' : headers) (k : bytes) :
  Permutation h h' -> NoDup (map fst h) -> hdr_lookup h k = hdr_lookup h' k.
Proof.
  induction 1 as [|[n vs] t t' P IH|[n1 v1] [n2 v2] t|t1 t2 t3 P1 IH1 P2 IH2]; intros ND.
  - reflexivity.
  - cbn [hdr_lookup]. destruct (bytes_eqb n k); [reflexivity|]. apply IH.
    cbn [map fst] in ND. inversion ND; assumption.
  - cbn [hdr_lookup]. destruct (bytes_eqb n1 k) eqn:E1, (bytes_eqb n2 k) eqn:E2; try reflexivity.
    apply bytes_eqb_eq in E1. apply bytes_eqb_eq in E2. subst n1 n2.
    cbn [map fst] in ND. inversion ND as [|a l Hn _]. exfalso. apply Hn. left. reflexivity.
  - rewrite IH1 by exact ND. apply IH2.
    eapply Permutation_NoDup; [apply Permutation_map; exact P1|exact ND].
Qed.

Example hdr_lookup_needs_nodup :
  Permutation [([1], [[10]]); ([1], [[20]])] [([1], [[20]]); ([1], [[10]])] /\
  hdr_lookup [([1], [[10]]); ([1], [[20]])] [1] <> hdr_lookup [([1], [[20]]); ([1], [[10]])] [1].
Proof. split; [apply perm_swap|discriminate]. Qed.

Definition hdr_is_map (x : bexchange) : Prop := NoDup (map fst (bx_hdr x)).

Lemma add_exchanges_perm (xs xs' : list bexchange) :
  Forall2 bx_perm xs xs' -> Forall hdr_is_map xs ->
  forall buf acc, add_exchanges xs buf acc = add_exchanges xs' buf acc.
Proof.
  induction 1 as [|x x' xs xs' Px _ IH]; intros HM buf acc; [reflexivity|].
  inversion HM as [|x0 l0 Hx Hl]; subst x0 l0.
  cbn [add_exchanges]. rewrite (encode_response_perm _ _ Px).
  destruct Px as (Eu & _ & _ & P).
  destruct (encode_response x') as [item| | |]; cbn [bind]; try reflexivity.
  rewrite Eu, !(hdr_lookup_perm _ _ _ P Hx).
  destruct (negb (utf8_valid (bx_url x'))); [reflexivity|].
  destruct (negb (fst (index_url_ok (bx_url x')))); [reflexivity|]. apply IH. exact Hl.
Qed.

(* b_write uses the header maps only through encode_response_header and
   through the lookups of "Variants" / "Variant-Key" *)
Theorem b_write_perm (b b' : bundle) :
  b_ver b = b_ver b' -> b_primary b = b_primary b' -> b_manifest b = b_manifest b' ->
  b_sigs b = b_sigs b' ->
  Forall2 bx_perm (b_exchanges b) (b_exchanges b') -> Forall hdr_is_map (b_exchanges b) ->
  b_write b = b_write b'.
Proof.
  intros Ev Ep Em Es HF HM. unfold b_write.
  rewrite <- Ev, <- Ep, <- Em, <- Es, <- (lenN_Forall2 _ _ _ HF).
  rewrite <- (add_exchanges_perm _ _ HF HM). reflexivity.
Qed.

(* ======================= bundle signatures: the signed subset ====================== *)
Lemma hv_items_ok_or_err (l : list res_integrity) :
  hv_items l = Err \/ exists out, hv_items l = Ok out.
Proof.
  induction l as [|r t IH]; cbn [hv_items]; [right; eexists; reflexivity|].
  unfold enc_text. destruct (utf8_valid (ri_integ r)); cbn [bind]; [|left; reflexivity].
  destruct IH as [E|[out E]]; rewrite E; cbn [bind]; [left; reflexivity|right; eexists; reflexivity].
Qed.

Lemma hashes_value_ok_or_err (rh : resp_hashes) :
  hashes_value rh = Err \/ exists out, hashes_value rh = Ok out.
Proof.
  rewrite hashes_value_unfold. destruct (hv_items_ok_or_err (rh_hashes rh)) as [E|[out E]];
    rewrite E; cbn [bind]; [left; reflexivity|right; eexists; reflexivity].
Qed.

Lemma ss_ents_ok_or_err (l : list hentry) :
  ss_ents l = Err \/ exists ents, ss_ents l = Ok ents.
Proof.
  induction l as [|[u rh] t IH]; cbn [ss_ents]; [right; eexists; reflexivity|].
  unfold enc_text. destruct (utf8_valid u); cbn [bind]; [|left; reflexivity].
  destruct (hashes_value_ok_or_err rh) as [E|[out E]]; rewrite E; cbn [bind]; [left; reflexivity|].
  destruct IH as [E'|[ents E']]; rewrite E'; cbn [bind];
    [left; reflexivity|right; eexists; reflexivity].
Qed.

Lemma ss_ents_perm (l l' : list hentry) :
  Permutation l l' ->
  (ss_ents l = Err /\ ss_ents l' = Err) \/
  (exists a a', ss_ents l = Ok a /\ ss_ents l' = Ok a' /\ Permutation a a').
Proof.
  intros P.
  destruct (ss_ents_ok_or_err l) as [E|[a E]], (ss_ents_ok_or_err l') as [E'|[a' E']].
  - left. split; assumption.
  - exfalso. apply ss_ents_ok in E'. destruct E' as [_ F'].
    rewrite (ss_ents_total l) in E; [discriminate|].
    eapply Permutation_Forall; [apply Permutation_sym; exact P|exact F'].
  - exfalso. apply ss_ents_ok in E. destruct E as [_ F].
    rewrite (ss_ents_total l') in E'; [discriminate|].
    eapply Permutation_Forall; [exact P|exact F].
  - right. exists a, a'. split; [exact E|]. split; [exact E'|].
    apply ss_ents_ok in E. apply ss_ents_ok in E'. destruct E as [-> _]. destruct E' as [-> _].
    apply Permutation_map. exact P.
Qed.

Theorem encode_subset_perm (s s' : signed_subset) :
  ss_validity s = ss_validity s' -> ss_auth s = ss_auth s' -> ss_date s = ss_date s' ->
  ss_expires s = ss_expires s' -> Permutation (ss_hashes s) (ss_hashes s') ->
  encode_subset s = encode_subset s'.
Proof.
  intros Ev Ea Ed Ex P. rewrite !encode_subset_unfold. rewrite <- Ev, <- Ea, <- Ed, <- Ex.
  destruct (enc_text (ss_validity s)) as [vu| | |]; cbn [bind]; try reflexivity.
  destruct (ss_ents_perm _ _ P) as [[E E']|(a & a' & E & E' & Pa)]; rewrite E, E'; cbn [bind].
  - reflexivity.
  - rewrite (enc_map_perm _ _ Pa). reflexivity.
Qed.

(* ======================= certificate chains ======================================== *)
(* AugmentedCertificate.EncodeTo appends "cert", then "ocsp" and "sct" when
   present; the keys are fixed strings, there is no caller-supplied map.  The
   bytes do not depend on the order in which the (up to) three entries are
   handed to EncodeMap. *)
Definition augcert_entries (a : augcert) : list (bytes * bytes) :=
  [(enc_bytes_of TText (s2b "cert"), enc_bytes (ac_cert a))]
  ++ opt_entry "ocsp" (ac_ocsp a) ++ opt_entry "sct" (ac_sct a).

Theorem encode_augcert_order (a : augcert) (es : list (bytes * bytes)) :
  Permutation es (augcert_entries a) -> enc_map es = encode_augcert a.
Proof. intros P. unfold encode_augcert. apply enc_map_perm. exact P. Qed.
