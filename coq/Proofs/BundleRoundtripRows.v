(* Proofs/BundleRoundtripRows.v - the index rows of a bundle, generically in the kind of
   thing that is being indexed (index entries for the writer, exchanges for the
   reader's view, pairs of both for the proof that the two agree):
   distinct URLs in order of first appearance, the things carrying each URL,
   and for b1 URLs with several things their row-major arrangement. *)
From Coq Require Import Lia ZifyN ZifyNat ZifyBool Permutation.
From WP Require Import Base.Prelude Model.Cbor Model.Variants Model.Bundle.
From WP Require Import Proofs.BaseLemmas Proofs.Variants Proofs.BundleWriteBasics.
Open Scope N_scope.

(* ---- distinct elements in order of first appearance -------------------------------- *)
Definition dedup (l : list bytes) : list bytes :=
  fold_left (fun acc u => if existsb (bytes_eqb u) acc then acc else acc ++ [u]) l [].

Lemma dedup_snoc (l : list bytes) (u : bytes) :
  dedup (l ++ [u]) = if existsb (bytes_eqb u) (dedup l) then dedup l else dedup l ++ [u].
Proof. unfold dedup. rewrite fold_left_app. reflexivity. Qed.

Lemma first_urls_dedup (es : list ientry) : first_urls es = dedup (map ie_url es).
Proof.
  induction es as [|e es IH] using rev_ind; [reflexivity|].
  rewrite first_urls_snoc, map_app. cbn [map]. rewrite dedup_snoc, IH. reflexivity.
Qed.

Lemma dedup_spec (l : list bytes) : NoDup (dedup l) /\ (forall u, In u (dedup l) <-> In u l).
Proof.
  induction l as [|u l IH] using rev_ind.
  - split; [constructor|]. intros u. reflexivity.
  - destruct IH as [ND I]. rewrite dedup_snoc.
    destruct (existsb (bytes_eqb u) (dedup l)) eqn:X.
    + apply existsb_bytes_iff in X. split; [exact ND|]. intros w. rewrite in_app_iff, I. cbn [In].
      split; [tauto|]. intros [H|[H|[]]]; [exact H|]. subst w. apply I. exact X.
    + split.
      * eapply Permutation_NoDup; [apply Permutation_cons_append|]. constructor; [|exact ND].
        intros Hin. apply existsb_bytes_iff in Hin. congruence.
      * intros w. rewrite !in_app_iff, I. reflexivity.
Qed.

(* dedup of a duplicate-free list is the list *)
Lemma dedup_nodup (l : list bytes) : NoDup l -> dedup l = l.
Proof.
  induction l as [|u l IH] using rev_ind; intros ND; [reflexivity|].
  assert (ND' : NoDup (u :: l)) by (eapply Permutation_NoDup; [apply Permutation_sym, Permutation_cons_append|exact ND]).
  inversion ND' as [|? ? Hu NDl]; subst. rewrite dedup_snoc, (IH NDl).
  destruct (existsb (bytes_eqb u) l) eqn:X; [|reflexivity].
  apply existsb_bytes_iff in X. contradiction.
Qed.

Section Rows.
  Context {A : Type} (url vvf vkf : A -> bytes).

  Definition g_groups (l : list A) : list (bytes * list A) :=
    map (fun u => (u, filter (fun a => bytes_eqb u (url a)) l)) (dedup (map url l)).

  (* one row: (url, variants value, the things in index order) *)
  Definition g_row (v : bversion) (g : bytes * list A) : R (bytes * bytes * list A) :=
    let (u, es) := g in
    if negb (utf8_valid u) then
      (match v, es with BV2, _ :: _ :: _ => Err | _, _ => Panic end)
    else
    match v with
    | BV1 =>
        match es with
        | e0 :: _ :: _ =>
            let* ordered := entries_in_possible_key_order (map (fun e => (vvf e, vkf e, e)) es) in
            Ok (u, vvf e0, ordered)
        | _ => Ok (u, [], es)
        end
    | BV2 => match es with [e] => Ok (u, [], es) | _ => Err end
    end.

  Fixpoint g_rows (v : bversion) (gs : list (bytes * list A)) : R (list (bytes * bytes * list A)) :=
    match gs with
    | [] => Ok []
    | g :: t => let* e := g_row v g in let* r := g_rows v t in Ok (e :: r)
    end.
End Rows.

Lemma groups_of_g (es : list ientry) : groups_of es = g_groups ie_url es.
Proof. unfold groups_of, g_groups. rewrite first_urls_dedup. reflexivity. Qed.

Lemma index_entry_pre_g (v : bversion) (g : bytes * list ientry) :
  index_entry_pre v g = g_row ie_variants ie_vkey v g.
Proof. reflexivity. Qed.

Lemma index_pres_g (v : bversion) (gs : list (bytes * list ientry)) :
  index_pres v gs = g_rows ie_variants ie_vkey v gs.
Proof. induction gs as [|g t IH]; cbn [index_pres g_rows]; [reflexivity|]. rewrite IH. reflexivity. Qed.

(* ---- naturality: mapping the things through f commutes with everything -------------- *)
Definition map3 {A B} (f : A -> B) (t : bytes * bytes * list A) : bytes * bytes * list B :=
  (fst (fst t), snd (fst t), map f (snd t)).
Definition mapR {A B} (f : A -> B) (r : R A) : R B :=
  match r with Ok a => Ok (f a) | Err => Err | Panic => Panic | Fuel => Fuel end.

Section Nat.
  Context {A B : Type} (f : A -> B).

  Lemma set_nth_map (l : list (option A)) : forall i x,
    set_nth (map (option_map f) l) i (f x) = option_map (map (option_map f)) (set_nth l i x).
  Proof.
    induction l as [|h t IH]; intros i x; [destruct i; reflexivity|].
    destruct i as [|i].
    - destruct h; reflexivity.
    - cbn [map]. assert (E : forall (hh : option A) (hb : option B) tb i' xb,
                             set_nth (hb :: tb) (S i') xb =
                             match set_nth tb i' xb with Some t' => Some (hb :: t') | None => None end)
        by (intros ? [?|] ? ? ?; reflexivity).
      rewrite (E h). rewrite IH.
      assert (E' : set_nth (h :: t) (S i) x =
                   match set_nth t i x with Some t' => Some (h :: t') | None => None end)
        by (destruct h; reflexivity).
      rewrite E'. destruct (set_nth t i x); reflexivity.
  Qed.

  Lemma place_keys_map (v : variants) (vks : list (list bytes)) (x : A) : forall res,
    place_keys v vks (f x) (map (option_map f) res) = mapR (map (option_map f)) (place_keys v vks x res).
  Proof.
    induction vks as [|vk t IH]; intros res; cbn [place_keys]; [reflexivity|].
    destruct (index_in_possible_keys v vk) as [i|]; [|reflexivity].
    rewrite set_nth_map. destruct (set_nth res (N.to_nat i) x) as [r|]; cbn [option_map]; [apply IH|reflexivity].
  Qed.

  Definition vmap (e : bytes * bytes * A) : bytes * bytes * B := (fst (fst e), snd (fst e), f (snd e)).

  Lemma place_entries_map (v : variants) (v0 : bytes) (es : list (bytes * bytes * A)) : forall res,
    place_entries v v0 (map vmap es) (map (option_map f) res)
    = mapR (map (option_map f)) (place_entries v v0 es res).
  Proof.
    induction es as [|[[vv vk] x] t IH]; intros res; cbn [map place_entries vmap fst snd]; [reflexivity|].
    destruct (negb (bytes_eqb vv v0)); [reflexivity|].
    destruct (parse_list_of_string_lists vk) as [vks| | |]; cbn [bind]; try reflexivity.
    rewrite place_keys_map. destruct (place_keys v vks x res) as [r| | |]; cbn [mapR bind]; try reflexivity.
    apply IH.
  Qed.

  Lemma all_some_map (l : list (option A)) :
    all_some (map (option_map f) l) = option_map (map f) (all_some l).
  Proof.
    induction l as [|[a|] t IH]; cbn [map option_map all_some]; try reflexivity.
    rewrite IH. destruct (all_some t); reflexivity.
  Qed.

  Lemma all_some_bind (X : R (list (option A))) :
    (let* res := mapR (map (option_map f)) X in of_opt (all_some res))
    = mapR (map f) (let* res := X in of_opt (all_some res)).
  Proof.
    destruct X as [r| | |]; cbn [mapR bind]; try reflexivity.
    rewrite all_some_map. destruct (all_some r); reflexivity.
  Qed.

  Lemma eipko_map (es : list (bytes * bytes * A)) :
    entries_in_possible_key_order (map vmap es) = mapR (map f) (entries_in_possible_key_order es).
  Proof.
    unfold entries_in_possible_key_order. destruct es as [|[[v0 vk0] x0] t]; [reflexivity|].
    cbn [map vmap fst snd]. destruct v0 as [|c0 v0']; [reflexivity|].
    destruct (parse_list_of_string_lists (c0 :: v0')) as [v| | |]; cbn [bind]; try reflexivity.
    destruct (num_possible_keys v) as [n| | |]; cbn [bind]; try reflexivity.
    assert (Er : repeat (@None B) (N.to_nat n) = map (option_map f) (repeat None (N.to_nat n))).
    { induction (N.to_nat n) as [|k IH]; [reflexivity|]. cbn [repeat map option_map]. rewrite IH. reflexivity. }
    rewrite Er.
    change (vmap (c0 :: v0', vk0, x0) :: map vmap t) with (map vmap ((c0 :: v0', vk0, x0) :: t)).
    rewrite place_entries_map.
    apply all_some_bind.
  Qed.

  Context (urlA vvA vkA : A -> bytes) (urlB vvB vkB : B -> bytes).

  Lemma g_groups_map (l : list A) :
    (forall a, In a l -> urlB (f a) = urlA a) ->
    g_groups urlB (map f l) = map (fun g => (fst g, map f (snd g))) (g_groups urlA l).
  Proof.
    intros H. unfold g_groups. rewrite !map_map.
    assert (E : map (fun x => urlB (f x)) l = map urlA l) by (apply map_ext_in; exact H).
    rewrite E. apply map_ext. intros u. cbn [fst snd]. f_equal.
    clear E. induction l as [|a l IH]; [reflexivity|]. cbn [map filter].
    rewrite (H a (or_introl eq_refl)). rewrite IH by (intros a' Ha'; apply H; right; exact Ha').
    destruct (bytes_eqb u (urlA a)); reflexivity.
  Qed.

  Lemma g_row_map (v : bversion) (u : bytes) (es : list A) :
    (forall a, In a es -> vvB (f a) = vvA a /\ vkB (f a) = vkA a) ->
    g_row vvB vkB v (u, map f es) = mapR (map3 f) (g_row vvA vkA v (u, es)).
  Proof.
    intros H. unfold g_row. destruct (negb (utf8_valid u)).
    { destruct v; [reflexivity|]. destruct es as [|? [|? ?]]; reflexivity. }
    destruct v.
    - destruct es as [|e0 [|e1 r]]; try reflexivity.
      assert (E : map (fun e => (vvB e, vkB e, e)) (map f (e0 :: e1 :: r))
                  = map (vmap) (map (fun e => (vvA e, vkA e, e)) (e0 :: e1 :: r))).
      { rewrite !map_map. apply map_ext_in. intros a Ha. unfold vmap. cbn [fst snd].
        destruct (H a Ha) as [H1 H2]. rewrite H1, H2. reflexivity. }
      change (map f (e0 :: e1 :: r)) with (f e0 :: f e1 :: map f r) in *.
      rewrite E, eipko_map.
      destruct (entries_in_possible_key_order (map (fun e => (vvA e, vkA e, e)) (e0 :: e1 :: r)));
        cbn [mapR bind]; try reflexivity.
      unfold map3. cbn [fst snd]. destruct (H e0 (or_introl eq_refl)) as [H1 _]. rewrite H1. reflexivity.
    - destruct es as [|e0 [|e1 r]]; reflexivity.
  Qed.

  Lemma g_rows_map (v : bversion) (gs : list (bytes * list A)) :
    (forall g a, In g gs -> In a (snd g) -> vvB (f a) = vvA a /\ vkB (f a) = vkA a) ->
    g_rows vvB vkB v (map (fun g => (fst g, map f (snd g))) gs)
    = mapR (map (map3 f)) (g_rows vvA vkA v gs).
  Proof.
    induction gs as [|[u es] t IH]; intros H; cbn [map g_rows fst snd]; [reflexivity|].
    rewrite g_row_map by (intros a Ha; apply (H (u, es) a); [left; reflexivity|exact Ha]).
    destruct (g_row vvA vkA v (u, es)) as [row| | |]; cbn [mapR bind]; try reflexivity.
    rewrite IH by (intros g' a' Hg Ha; apply (H g' a'); [right; exact Hg|exact Ha]).
    destruct (g_rows vvA vkA v t); reflexivity.
  Qed.
End Nat.

(* group members come from the list *)
Lemma g_groups_members {A} (url : A -> bytes) (l : list A) (g : bytes * list A) (a : A) :
  In g (g_groups url l) -> In a (snd g) -> In a l /\ url a = fst g.
Proof.
  unfold g_groups. intros Hg Ha. apply in_map_iff in Hg. destruct Hg as [u [E _]]. subst g.
  cbn [fst snd] in *. apply filter_In in Ha. destruct Ha as [H1 H2]. apply bytes_eqb_eq in H2. auto.
Qed.

(* what a successful row says (generic form of index_entry_pre_ok) *)
Lemma g_row_ok {A} (vvf vkf : A -> bytes) (v : bversion) (u : bytes) (es : list A) t :
  g_row vvf vkf v (u, es) = Ok t ->
  fst (fst t) = u /\ utf8_valid u = true /\
  match v with
  | BV2 => exists e, es = [e] /\ snd (fst t) = [] /\ snd t = [e]
  | BV1 =>
      match es with
      | e0 :: _ :: _ =>
          snd (fst t) = vvf e0 /\
          entries_in_possible_key_order (map (fun e => (vvf e, vkf e, e)) es) = Ok (snd t)
      | _ => snd (fst t) = [] /\ snd t = es
      end
  end.
Proof.
  unfold g_row. destruct (utf8_valid u); cbn [negb].
  2:{ destruct v; [discriminate|]. destruct es as [|? [|? ?]]; discriminate. }
  destruct v.
  - destruct es as [|e0 [|e1 r]].
    + intros H; inversion H; subst; cbn; auto.
    + intros H; inversion H; subst; cbn; auto.
    + intros H. apply bindR_ok in H. destruct H as [ord [Ho H]]. inversion H; subst. cbn [fst snd]. auto.
  - destruct es as [|e [|e1 r]]; try discriminate. intros H; inversion H; subst. cbn [fst snd].
    split; [reflexivity|]. split; [reflexivity|]. exists e. auto.
Qed.

Lemma g_row_incl {A} (vvf vkf : A -> bytes) (v : bversion) (u : bytes) (es : list A) t :
  g_row vvf vkf v (u, es) = Ok t -> incl (snd t) es.
Proof.
  intros H. apply g_row_ok in H. destruct H as [_ [_ H]]. destruct v.
  - destruct es as [|e0 [|e1 r]].
    + destruct H as [_ H]. rewrite H. apply incl_refl.
    + destruct H as [_ H]. rewrite H. apply incl_refl.
    + destruct H as [_ H]. apply entries_order_members in H. destruct H as [_ H].
      intros a Ha. rewrite Forall_forall in H. destruct (H a Ha) as [vv [vk Hin]].
      apply in_map_iff in Hin. destruct Hin as [e [Ee He]]. inversion Ee; subst. exact He.
  - destruct H as [e [E [_ H]]]. rewrite H, E. apply incl_refl.
Qed.

Lemma g_rows_ok {A} (vvf vkf : A -> bytes) (v : bversion) (gs : list (bytes * list A)) : forall ts,
  g_rows vvf vkf v gs = Ok ts -> Forall2 (fun g t => g_row vvf vkf v g = Ok t) gs ts.
Proof.
  induction gs as [|g r IH]; intros ts H; cbn [g_rows] in H.
  - inversion H; constructor.
  - apply bindR_ok in H. destruct H as [t [Ht H]]. apply bindR_ok in H. destruct H as [ts' [Hr H]].
    inversion H; subst. constructor; [exact Ht|apply IH; exact Hr].
Qed.

Lemma Forall2_In_right {A B} (P : A -> B -> Prop) (Q : B -> Prop) (l : list A) (l' : list B) :
  Forall2 P l l' -> (forall a c, In a l -> P a c -> Q c) -> Forall Q l'.
Proof.
  induction 1 as [|a c l l' Hp F IH]; intros H; [constructor|].
  constructor; [apply (H a c); [left; reflexivity|exact Hp]|].
  apply IH. intros a' c' Ha' Hp'. apply (H a' c'); [right; exact Ha'|exact Hp'].
Qed.

(* every thing in every row comes from the list, and carries the row's URL *)
Lemma g_rows_members {A} (url vvf vkf : A -> bytes) (v : bversion) (l : list A) ts :
  g_rows vvf vkf v (g_groups url l) = Ok ts ->
  Forall (fun t => utf8_valid (fst (fst t)) = true /\
                   Forall (fun a => In a l /\ url a = fst (fst t)) (snd t)) ts.
Proof.
  intros H. apply g_rows_ok in H.
  eapply Forall2_In_right; [exact H|]. intros [u es] t Hg Hgt.
  pose proof (g_row_incl _ _ _ _ _ _ Hgt) as Hi. apply g_row_ok in Hgt. destruct Hgt as [Eu [U _]].
  rewrite Eu. split; [exact U|]. apply Forall_forall. intros a Ha.
  apply (g_groups_members url l (u, es) a); [exact Hg|apply Hi; exact Ha].
Qed.

Lemma g_groups_in {A} (url : A -> bytes) (l : list A) (u : bytes) (es : list A) :
  In (u, es) (g_groups url l) ->
  es = filter (fun a => bytes_eqb u (url a)) l /\ es <> [] /\ In u (map url l).
Proof.
  unfold g_groups. intros H. apply in_map_iff in H. destruct H as [u' [E Hu]]. inversion E; subst u' es.
  split; [reflexivity|]. apply (dedup_spec (map url l)) in Hu. split; [|exact Hu].
  apply in_map_iff in Hu. destruct Hu as [a [Ea Ha]]. intros F.
  assert (Hin : In a (filter (fun a => bytes_eqb u (url a)) l)).
  { apply filter_In. split; [exact Ha|]. rewrite Ea. apply bytes_eqb_refl. }
  rewrite F in Hin. contradiction.
Qed.

Lemma g_groups_keys {A} (url : A -> bytes) (l : list A) : map fst (g_groups url l) = dedup (map url l).
Proof. unfold g_groups. rewrite map_map. cbn [fst]. apply map_id. Qed.

Lemma map_flat_map {A B C} (f : B -> C) (g : A -> list B) (l : list A) :
  map f (flat_map g l) = flat_map (fun a => map f (g a)) l.
Proof. induction l as [|a t IH]; cbn [flat_map map]; [reflexivity|]. rewrite map_app, IH. reflexivity. Qed.

Lemma Forall2_flat_map {A B C} (P : B -> C -> Prop) (f : A -> list B) (g : A -> list C) (l : list A) :
  Forall (fun a => Forall2 P (f a) (g a)) l -> Forall2 P (flat_map f l) (flat_map g l).
Proof.
  induction 1 as [|a t Ha _ IH]; cbn [flat_map]; [constructor|]. apply Forall2_app; assumption.
Qed.

(* ---- the groups partition the list -------------------------------------------------------------- *)
Lemma flat_map_ext_in' {A B} (f g : A -> list B) (l : list A) :
  (forall a, In a l -> f a = g a) -> flat_map f l = flat_map g l.
Proof.
  induction l as [|x t IH]; intros H; [reflexivity|]. cbn [flat_map].
  rewrite (H x (or_introl eq_refl)), IH; [reflexivity|]. intros a Ha. apply H. right. exact Ha.
Qed.

Lemma groups_partition {A} (url : A -> bytes) (us : list bytes) : NoDup us -> forall l : list A,
  (forall a, In a l -> In (url a) us) ->
  Permutation (flat_map (fun u => filter (fun a => bytes_eqb u (url a)) l) us) l.
Proof.
  intros ND l. induction l as [|a t IH]; intros Hin.
  - induction us as [|u r IHu]; [constructor|]. cbn [flat_map filter app]. apply IHu.
    + apply NoDup_cons_iff in ND. apply ND.
    + intros a [].
  - assert (Hu : In (url a) us) by (apply Hin; left; reflexivity).
    apply in_split in Hu. destruct Hu as [us1 [us2 E]]. subst us.
    assert (Hn1 : ~ In (url a) us1 /\ ~ In (url a) us2).
    { apply NoDup_remove_2 in ND. split; intros H; apply ND; apply in_or_app; [left|right]; exact H. }
    destruct Hn1 as [N1 N2].
    assert (F : forall r, ~ In (url a) r ->
                flat_map (fun u => filter (fun a0 => bytes_eqb u (url a0)) (a :: t)) r
                = flat_map (fun u => filter (fun a0 => bytes_eqb u (url a0)) t) r).
    { intros r Hr. apply flat_map_ext_in'. intros u Hu. cbn [filter].
      destruct (bytes_eqb u (url a)) eqn:Eq; [|reflexivity]. apply bytes_eqb_eq in Eq. subst u. contradiction. }
    rewrite flat_map_app. cbn [flat_map]. rewrite (F us1 N1), (F us2 N2).
    cbn [filter]. rewrite bytes_eqb_refl. cbn [app].
    eapply perm_trans; [apply Permutation_sym, Permutation_middle|]. apply perm_skip.
    specialize (IH (fun a' Ha' => Hin a' (or_intror Ha'))).
    rewrite flat_map_app in IH. cbn [flat_map] in IH. exact IH.
Qed.

Lemma g_groups_partition {A} (url : A -> bytes) (l : list A) :
  Permutation (flat_map snd (g_groups url l)) l.
Proof.
  unfold g_groups. rewrite flat_map_map. cbn [snd].
  apply groups_partition; [apply dedup_spec|]. intros a Ha. apply dedup_spec. apply in_map. exact Ha.
Qed.

(* a row is a rearrangement of its group when every member of a multi-member b1
   group carries exactly one Variant-Key *)
Lemma g_row_perm {A} (vvf vkf : A -> bytes) (v : bversion) (u : bytes) (es : list A) t :
  g_row vvf vkf v (u, es) = Ok t ->
  Forall (fun e => exists k, parse_list_of_string_lists (vkf e) = Ok [k]) es ->
  Permutation (snd t) es.
Proof.
  intros H S. apply g_row_ok in H. destruct H as [_ [_ H]]. destruct v.
  - destruct es as [|e0 [|e1 r]].
    + destruct H as [_ H]. rewrite H. apply Permutation_refl.
    + destruct H as [_ H]. rewrite H. apply Permutation_refl.
    + destruct H as [_ H]. apply entries_order_perm in H.
      * rewrite map_map in H. cbn [snd] in H. rewrite map_id in H. exact H.
      * unfold single_keyed. apply Forall_map. eapply Forall_impl; [|exact S]. intros e He. exact He.
  - destruct H as [e [E [_ H]]]. rewrite H, E. apply Permutation_refl.
Qed.
