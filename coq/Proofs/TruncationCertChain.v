(* Proofs/TruncationCertChain.v - application/cert-chain+cbor read from a source
   that stops early (C17).

   ReadCertChain is a pure stream reader (array head, magic, n-1 maps); keeping
   the unread rest it is truncation-exact (Tr cc_read_rest, for every oracle
   x509_ok).  What CertChain.Write produced is consumed to its last byte, so
   EVERY strict prefix of it is refused - for every oracle, also one that
   rejects the certificates (then the full read is refused too). *)
From Coq Require Import Lia ZifyN ZifyNat ZifyBool.
From WP Require Import Base.Prelude Model.Cbor Model.CertChain Spec.Cbor Spec.CertChain.
From WP Require Import Proofs.BaseLemmas Proofs.CborDecode Proofs.CertChainWrite Proofs.CertChainRead
  Proofs.TruncationBase.
Open Scope N_scope.

Definition all_certs (_ : bytes) : bool := true.

Section Read.
  Variable x509_ok : bytes -> bool.

  (* ---- the key/value loop ----------------------------------------------------------- *)
  Lemma dec_entries_stable (f : nat) : forall f' m bs c o s,
    (f <= f')%nat -> dec_entries x509_ok f m bs c o s <> Fuel ->
    dec_entries x509_ok f' m bs c o s = dec_entries x509_ok f m bs c o s.
  Proof.
    induction f as [|f IH]; intros f' m bs c o s Hle Hn; [contradiction Hn; reflexivity|].
    destruct f' as [|f']; [lia|]. rewrite !dec_entries_S in *.
    destruct (m =? 0); [reflexivity|].
    destruct (decode_text bs) as [[k r1]| | |]; cbn [bind] in *; try reflexivity.
    destruct (decode_bytes r1) as [[v r2]| | |]; cbn [bind] in *; try reflexivity.
    destruct (bytes_eqb k kcert && negb (x509_ok v)); [reflexivity|].
    apply IH; [lia|exact Hn].
  Qed.

  Lemma dec_entries_suff (f : nat) (m : N) (bs : bytes) (c o s : option bytes) :
    (List.length bs < f)%nat -> dec_entries x509_ok f m bs c o s <> Fuel.
  Proof.
    intros Hf E. pose proof (dec_entries_total x509_ok f m bs c o s Hf) as T.
    rewrite E in T. exact T.
  Qed.

  Lemma Tr_dec_entries (f : nat) : forall m c o s,
    Tr (fun bs => dec_entries x509_ok f m bs c o s).
  Proof.
    induction f as [|f IH]; intros m c o s; [intros bs v rest H; discriminate|].
    eapply Tr_ext; [intros bs; symmetry; apply dec_entries_S|].
    apply Tr_if; [apply (Tr_ret (c, o, s))|].
    apply Tr_bind; [exact Tr_decode_text|]. intros k.
    apply Tr_bind; [exact Tr_decode_bytes|]. intros v.
    apply Tr_if; [apply Tr_fail|apply IH].
  Qed.

  (* ---- one augmented certificate ------------------------------------------------------- *)
  Lemma Tr_decode_augcert : Tr (decode_augcert x509_ok).
  Proof.
    unfold decode_augcert.
    apply (Tr_bind decode_map_header); [exact Tr_decode_map_header|]. intros m.
    apply (Tr_bind (fun r => dec_entries x509_ok (S (List.length r)) m r None None None)).
    - apply (Tr_fuel (fun f bs => dec_entries x509_ok f m bs None None None)).
      + intros f f' bs. apply dec_entries_stable.
      + intros f bs. apply dec_entries_suff.
      + intros f. apply Tr_dec_entries.
    - intros [[c o] s]. destruct c as [der|]; [apply Tr_ret|apply Tr_fail].
  Qed.

  (* ---- the chain loop ---------------------------------------------------------------------- *)
  Lemma dec_chain_stable (f : nat) : forall f' n bs acc,
    (f <= f')%nat -> dec_chain x509_ok f n bs acc <> Fuel ->
    dec_chain x509_ok f' n bs acc = dec_chain x509_ok f n bs acc.
  Proof.
    induction f as [|f IH]; intros f' n bs acc Hle Hn; [contradiction Hn; reflexivity|].
    destruct f' as [|f']; [lia|]. rewrite !dec_chain_S in *.
    destruct (n =? 0); [reflexivity|].
    destruct (decode_augcert x509_ok bs) as [[a r]| | |]; cbn [bind] in *; try reflexivity.
    apply IH; [lia|exact Hn].
  Qed.

  Lemma dec_chain_suff (f : nat) (n : N) (bs : bytes) (acc : list augcert) :
    (List.length bs < f)%nat -> dec_chain x509_ok f n bs acc <> Fuel.
  Proof.
    intros Hf E. pose proof (dec_chain_total x509_ok f n bs acc Hf) as T. rewrite E in T. exact T.
  Qed.

  Lemma Tr_dec_chain (f : nat) : forall n acc, Tr (fun bs => dec_chain x509_ok f n bs acc).
  Proof.
    induction f as [|f IH]; intros n acc; [intros bs v rest H; discriminate|].
    eapply Tr_ext; [intros bs; symmetry; apply dec_chain_S|].
    apply Tr_if; [apply (Tr_ret (rev acc))|].
    apply Tr_bind; [exact Tr_decode_augcert|]. intros a. apply IH.
  Qed.

  (* ---- ReadCertChain, keeping the unread rest --------------------------------------------- *)
  Definition cc_read_rest (bs : bytes) : R (list augcert * bytes) :=
    let* (n, r) := decode_array_header bs in
    if n <? 2 then Err
    else
      let* (magic, r1) := decode_text r in
      if negb (bytes_eqb magic cc_magic) then Err
      else
        let* (c, r2) := dec_chain x509_ok (S (List.length r1)) (n - 1) r1 [] in
        if validate c then Ok (c, r2) else Err.

  Lemma cc_read_of_rest (bs : bytes) :
    cc_read x509_ok bs = let* (c, _) := cc_read_rest bs in Ok c.
  Proof.
    unfold cc_read, cc_read_rest.
    destruct (decode_array_header bs) as [[n r]| | |]; cbn [bind]; try reflexivity.
    destruct (n <? 2); [reflexivity|].
    destruct (decode_text r) as [[mg r1]| | |]; cbn [bind]; try reflexivity.
    destruct (negb (bytes_eqb mg cc_magic)); [reflexivity|].
    destruct (dec_chain x509_ok (S (List.length r1)) (n - 1) r1 []) as [[c r2]| | |];
      cbn [bind]; try reflexivity.
    destruct (validate c); reflexivity.
  Qed.

  Theorem Tr_cc_read_rest : Tr cc_read_rest.
  Proof.
    unfold cc_read_rest.
    apply (Tr_bind decode_array_header); [exact Tr_decode_array_header|]. intros n.
    apply Tr_if; [apply Tr_fail|].
    apply (Tr_bind decode_text); [exact Tr_decode_text|]. intros mg.
    apply Tr_if; [apply Tr_fail|].
    apply (Tr_bind (fun r1 => dec_chain x509_ok (S (List.length r1)) (n - 1) r1 [])).
    - apply (Tr_fuel (fun f bs => dec_chain x509_ok f (n - 1) bs [])).
      + intros f f' bs. apply dec_chain_stable.
      + intros f bs. apply dec_chain_suff.
      + intros f. apply Tr_dec_chain.
    - intros c. apply Tr_if; [apply Tr_ret|apply Tr_fail].
  Qed.

  (* ---- accepting under x509_ok is accepting under the oracle that accepts everything ------- *)
  Lemma dec_entries_all (f : nat) : forall m bs c o s res,
    dec_entries x509_ok f m bs c o s = Ok res -> dec_entries all_certs f m bs c o s = Ok res.
  Proof.
    induction f as [|f IH]; intros m bs c o s res H; [discriminate|].
    rewrite dec_entries_S in *. destruct (m =? 0); [exact H|].
    destruct (decode_text bs) as [[k r1]| | |]; cbn [bind] in *; try discriminate.
    destruct (decode_bytes r1) as [[v r2]| | |]; cbn [bind] in *; try discriminate.
    destruct (bytes_eqb k kcert && negb (x509_ok v)); [discriminate|].
    unfold all_certs at 1. cbn [negb]. rewrite andb_false_r. apply IH. exact H.
  Qed.

  Lemma decode_augcert_all (bs : bytes) (res : augcert * bytes) :
    decode_augcert x509_ok bs = Ok res -> decode_augcert all_certs bs = Ok res.
  Proof.
    unfold decode_augcert.
    destruct (decode_map_header bs) as [[m r]| | |]; cbn [bind]; try discriminate.
    destruct (dec_entries x509_ok (S (List.length r)) m r None None None) as [x| | |] eqn:E;
      cbn [bind]; try discriminate.
    rewrite (dec_entries_all _ _ _ _ _ _ _ E). cbn [bind]. intros H. exact H.
  Qed.

  Lemma dec_chain_all (f : nat) : forall n bs acc res,
    dec_chain x509_ok f n bs acc = Ok res -> dec_chain all_certs f n bs acc = Ok res.
  Proof.
    induction f as [|f IH]; intros n bs acc res H; [discriminate|].
    rewrite dec_chain_S in *. destruct (n =? 0); [exact H|].
    destruct (decode_augcert x509_ok bs) as [[a r]| | |] eqn:E; cbn [bind] in H; try discriminate.
    rewrite (decode_augcert_all _ _ E). cbn [bind]. apply IH. exact H.
  Qed.
End Read.

Lemma cc_read_rest_all (x509_ok : bytes -> bool) (bs : bytes) (res : list augcert * bytes) :
  cc_read_rest x509_ok bs = Ok res -> cc_read_rest all_certs bs = Ok res.
Proof.
  unfold cc_read_rest.
  destruct (decode_array_header bs) as [[n r]| | |]; cbn [bind]; try discriminate.
  destruct (n <? 2); [discriminate|].
  destruct (decode_text r) as [[mg r1]| | |]; cbn [bind]; try discriminate.
  destruct (negb (bytes_eqb mg cc_magic)); [discriminate|].
  destruct (dec_chain x509_ok (S (List.length r1)) (n - 1) r1 []) as [x| | |] eqn:E;
    cbn [bind]; try discriminate.
  rewrite (dec_chain_all _ _ _ _ _ _ E). cbn [bind]. intros H. exact H.
Qed.

(* ---- the written chain is consumed to its last byte --------------------------------------- *)
Lemma cc_read_rest_written (c : list augcert) (rest : bytes) :
  lenN c + 1 < two64 -> Forall (aug_lt two63) c -> validate c = true ->
  cc_read_rest all_certs (chain_bytes c ++ rest) = Ok (c, rest).
Proof.
  intros Hn Hl Hv. unfold cc_read_rest, chain_bytes. rewrite <- !app_assoc.
  rewrite decode_encode_array_header by exact Hn. cbn [bind].
  pose proof (validate_nonempty c Hv) as Hne.
  replace (lenN c + 1 <? 2) with false by lia.
  rewrite decode_text_of_key by (vm_compute; reflexivity). cbn [bind].
  rewrite bytes_eqb_refl. cbn [negb].
  replace (lenN c + 1 - 1) with (lenN c) by lia.
  rewrite dec_chain_encode; [| |apply Forall_forall; intros a _; reflexivity|exact Hl].
  - cbn [bind rev app]. rewrite Hv. reflexivity.
  - rewrite app_length. pose proof (flat_aug_len all_certs c). lia.
Qed.

(* ---- the statements ---------------------------------------------------------------------------- *)
(* C17, truncation: no strict prefix of a written chain is accepted, whatever
   x509.ParseCertificate says *)
Theorem chain_truncated (x509_ok : bytes -> bool) (c : list augcert) (bs : bytes) (p : nat) :
  cc_write c = Ok bs -> lenN c + 1 < two64 -> Forall (aug_lt two63) c ->
  (p < List.length bs)%nat -> cc_read x509_ok (firstn p bs) = Err.
Proof.
  intros Hw Hn Hl Hp. destruct (write_validates c bs Hw) as [Hv Eb].
  pose proof (read_total x509_ok (firstn p bs)) as T.
  destruct (cc_read x509_ok (firstn p bs)) as [c'| | |] eqn:E; try contradiction; [|reflexivity].
  exfalso. rewrite cc_read_of_rest in E.
  destruct (cc_read_rest x509_ok (firstn p bs)) as [[c2 r]| | |] eqn:Er; cbn [bind] in E; try discriminate.
  apply cc_read_rest_all in Er. apply (Tr_prefix_ok _ (Tr_cc_read_rest all_certs)) in Er.
  pose proof (cc_read_rest_written c [] Hn Hl Hv) as Hf. rewrite app_nil_r, <- Eb in Hf.
  rewrite Hf in Er. inversion Er as [[E1 E2]].
  symmetry in E2. apply app_eq_nil in E2. destruct E2 as [_ E2].
  exact (firstn_skipn_nonnil p bs Hp E2).
Qed.

(* for EVERY input the reader accepts: a prefix is refused or gives the same chain
   (the reader does not look behind the last certificate) *)
Theorem read_truncated_any (x509_ok : bytes -> bool) (bs : bytes) (p : nat) :
  cc_read x509_ok (firstn p bs) = Err \/ cc_read x509_ok (firstn p bs) = cc_read x509_ok bs.
Proof.
  pose proof (read_total x509_ok (firstn p bs)) as T.
  destruct (cc_read x509_ok (firstn p bs)) as [c'| | |] eqn:E; try contradiction; [|left; reflexivity].
  right. rewrite cc_read_of_rest in E.
  destruct (cc_read_rest x509_ok (firstn p bs)) as [[c2 r]| | |] eqn:Er; cbn [bind] in E; try discriminate.
  apply (Tr_prefix_ok _ (Tr_cc_read_rest x509_ok)) in Er.
  rewrite (cc_read_of_rest x509_ok bs), Er. cbn [bind]. symmetry. exact E.
Qed.

(* where exactly the boundary is, for an accepted input: the bytes the reader consumed *)
Theorem read_truncated_exact (x509_ok : bytes -> bool) (bs : bytes) (c : list augcert) (rest : bytes)
        (p : nat) :
  cc_read_rest x509_ok bs = Ok (c, rest) ->
  ((p < consumed bs rest)%nat -> cc_read x509_ok (firstn p bs) = Err) /\
  ((consumed bs rest <= p)%nat -> cc_read x509_ok (firstn p bs) = Ok c).
Proof.
  intros H. split; intros Hp; rewrite cc_read_of_rest.
  - rewrite (Tr_short _ (Tr_cc_read_rest x509_ok) _ _ _ p H Hp). reflexivity.
  - rewrite (Tr_long _ (Tr_cc_read_rest x509_ok) _ _ _ p H Hp). reflexivity.
Qed.

(* one augmented certificate on its own (also used by the bundle signatures section) *)
Theorem augcert_truncated (x509_ok : bytes -> bool) (bs : bytes) (a : augcert) (rest : bytes) (p : nat) :
  decode_augcert x509_ok bs = Ok (a, rest) -> (p < consumed bs rest)%nat ->
  decode_augcert x509_ok (firstn p bs) = Err.
Proof. exact (truncated_refused _ (Tr_decode_augcert x509_ok) bs a rest p). Qed.
