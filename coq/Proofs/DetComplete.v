(* C13, part 3: completeness.  Every DetItem (followed by anything) is accepted
   by det_rec with its exact length, given fuel >= 2 * its length.          *)
From Coq Require Import Lia ZifyN ZifyNat ZifyBool Sorting.Sorted.
From WP Require Import Base.Prelude Model.Cbor Model.Det Spec.Det
  Proofs.DetLemmas Proofs.DetBasics Proofs.DetSound.
Open Scope N_scope.
Ltac Zify.zify_post_hook ::= Z.div_mod_to_equations.

Lemma DetItem_nonempty item : DetItem item -> 1 <= lenN item.
Proof.
  intros D. destruct D as [n h Hh|s h Hh Ws|s h Hh Ws|items h Hh Hall|pairs h Hh Hall Hs];
    apply Head_len in Hh; try rewrite lenN_app; lia.
Qed.

Lemma DetItem_wfb item : DetItem item -> wfb item.
Proof.
  intros D. induction D as [n h Hh|s h Hh Ws|s h Hh Ws|items h Hh Hall IH|pairs h Hh Hall IH Hs]
    using DetItem_ind_nested; apply Head_wfb in Hh;
    [exact Hh | apply wfb_app; (split; [exact Hh|]) ..].
  - exact Ws.
  - exact Ws.
  - apply wfb_concat. exact IH.
  - apply wfb_concat. apply Forall_map.
    eapply Forall_impl; [|exact IH]. intros [k v] [Hk Hv]. apply wfb_app. split; assumption.
Qed.

Lemma concat_len_ge (items : list bytes) :
  Forall DetItem items -> lenN items <= lenN (List.concat items).
Proof.
  induction 1 as [|it items Hi Hall IH]; [cbn [lenN List.concat]; lia|].
  rewrite concat_cons, lenN_cons, lenN_app. apply DetItem_nonempty in Hi. lia.
Qed.

Lemma kvs_len_ge (pairs : list (bytes * bytes)) :
  Forall PairOK pairs -> 2 * lenN pairs <= lenN (kvs pairs).
Proof.
  induction 1 as [|[k v] pairs [Hk Hv] Hall IH]; [rewrite kvs_nil; cbn [lenN]; lia|].
  rewrite kvs_cons, lenN_cons, !lenN_app.
  apply DetItem_nonempty in Hk. apply DetItem_nonempty in Hv. cbn [fst snd] in *. lia.
Qed.

Definition comp (item : bytes) : Prop :=
  forall rest f, (2 * List.length item <= f)%nat ->
    det_rec f (item ++ rest) = Ok (lenN item).

Lemma arr_loop_complete items :
  Forall DetItem items -> Forall comp items ->
  forall f pre rest, (2 * List.length (List.concat items) + 1 <= f)%nat ->
    arr_loop f (lenN items) (lenN pre) (pre ++ List.concat items ++ rest)
    = Ok (lenN pre + lenN (List.concat items)).
Proof.
  intros HD HC. revert HC.
  induction HD as [|it items Hi Hall IH]; intros HC f pre rest Hf.
  - destruct f as [|f]; [lia|]. rewrite arr_loop_S. cbn [lenN List.concat].
    change (0 =? 0) with true. cbv iota. f_equal. lia.
  - inversion HC as [|x l Ci Cl]; subst x l.
    destruct f as [|f]; [lia|]. rewrite arr_loop_S.
    pose proof (DetItem_nonempty _ Hi) as Ni.
    rewrite concat_cons, app_length in Hf.
    assert (Li : lenN it = N.of_nat (List.length it)) by apply lenN_length.
    destruct (N.eqb_spec (lenN (it :: items)) 0) as [C|C]; [rewrite lenN_cons in C; lia|].
    destruct (N.leb_spec (lenN (pre ++ List.concat (it :: items) ++ rest)) (lenN pre)) as [C2|C2].
    { rewrite !lenN_app, concat_cons, lenN_app in C2. lia. }
    rewrite drop_from_app. cbn [bind].
    rewrite concat_cons, <- app_assoc.
    rewrite Ci by lia. cbn [bind].
    replace (lenN (it :: items) - 1) with (lenN items) by (rewrite lenN_cons; lia).
    rewrite (app_assoc pre it), <- lenN_app.
    rewrite IH; [|exact Cl|lia].
    f_equal. rewrite !lenN_app. lia.
Qed.

Definition comp_pair (kv : bytes * bytes) : Prop := comp (fst kv) /\ comp (snd kv).

Lemma map_loop_complete pairs :
  Forall PairOK pairs -> Forall comp_pair pairs ->
  forall f idx total last pre rest,
    N.even idx = true -> total = idx + 2 * lenN pairs ->
    asc_from last (map fst pairs) ->
    (2 * List.length (kvs pairs) + 1 <= f)%nat ->
    map_loop f idx total (lenN pre) last (pre ++ kvs pairs ++ rest)
    = Ok (lenN pre + lenN (kvs pairs)).
Proof.
  intros HD HC. revert HC.
  induction HD as [|[k v] pairs [Hk Hv] Hall IH]; intros HC f idx total last pre rest Ei Et Hasc Hf.
  - destruct f as [|f]; [lia|]. rewrite map_loop_S.
    cbn [lenN] in Et. destruct (N.leb_spec total idx) as [C|C]; [|lia].
    rewrite kvs_nil. cbn [lenN]. f_equal. lia.
  - inversion HC as [|x l [Ck Cv] Cl]; subst x l. cbn [fst snd] in *.
    cbn [map fst asc_from] in Hasc. destruct Hasc as [Hlt Hasc].
    pose proof (DetItem_nonempty _ Hk) as Nk. pose proof (DetItem_nonempty _ Hv) as Nv.
    assert (Lk : lenN k = N.of_nat (List.length k)) by apply lenN_length.
    assert (Lv : lenN v = N.of_nat (List.length v)) by apply lenN_length.
    rewrite kvs_cons, !app_length in Hf. rewrite lenN_cons in Et.
    pose proof Ei as Ei'. apply even_true_mod2 in Ei'.
    (* key *)
    destruct f as [|f]; [lia|]. rewrite map_loop_S.
    destruct (N.leb_spec total idx) as [C|C]; [lia|].
    destruct (N.leb_spec (lenN (pre ++ kvs ((k, v) :: pairs) ++ rest)) (lenN pre)) as [C2|C2].
    { rewrite !lenN_app, kvs_cons, !lenN_app in C2. lia. }
    rewrite drop_from_app. cbn [bind].
    rewrite kvs_cons, <- !app_assoc.
    rewrite Ck by lia. cbn [bind]. rewrite Ei.
    rewrite splitN_app. rewrite Hlt.
    rewrite (app_assoc pre k), <- lenN_app.
    (* value *)
    destruct f as [|f]; [lia|]. rewrite map_loop_S.
    destruct (N.leb_spec total (idx + 1)) as [C3|C3]; [lia|].
    destruct (N.leb_spec (lenN ((pre ++ k) ++ v ++ kvs pairs ++ rest)) (lenN (pre ++ k))) as [C4|C4].
    { rewrite !lenN_app in C4. lia. }
    rewrite drop_from_app. cbn [bind].
    rewrite Cv by lia. cbn [bind].
    replace (N.even (idx + 1)) with false by (symmetry; apply even_false_mod2; lia).
    rewrite (app_assoc (pre ++ k) v), <- lenN_app.
    rewrite IH; [|exact Cl|apply even_true_mod2; lia|lia|exact Hasc|lia].
    f_equal. rewrite !lenN_app. lia.
Qed.

Lemma first_key_asc (pairs : list (bytes * bytes)) :
  Forall PairOK pairs -> KeysAscending (map fst pairs) -> asc_from [] (map fst pairs).
Proof.
  intros Hall Hs. destruct pairs as [|[k v] pairs]; [exact I|].
  cbn [map fst] in *. split.
  - inversion Hall as [|x l [Hk _] _]; subst. cbn [fst] in Hk.
    apply bytes_cmp_nil_l. intros E. subst k. apply DetItem_nonempty in Hk. cbn [lenN] in Hk. lia.
  - apply sorted_asc_from. exact Hs.
Qed.

Theorem det_rec_complete item : DetItem item -> comp item.
Proof.
  intros D.
  induction D as [n h Hh|s h Hh Ws|s h Hh Ws|items h Hh Hall IH|pairs h Hh Hall IH Hs]
    using DetItem_ind_nested; intros rest f Hf.
  - (* uint *)
    pose proof (Head_len _ _ _ Hh) as Lh. pose proof (lenN_length h) as LL.
    destruct f as [|f]; [lia|].
    destruct (Head_first _ _ _ Hh) as [b [fb [Eh [Mb _]]]].
    pose proof (uint_det_complete _ _ _ rest Hh) as U.
    rewrite Eh in *. cbn [app] in *.
    rewrite det_rec_pos by exact Mb. rewrite U. cbn [bind]. f_equal. lia.
  - (* bytes *)
    pose proof (Head_len _ _ _ Hh) as Lh. pose proof (lenN_length h) as LL.
    rewrite app_length in Hf. destruct f as [|f]; [lia|].
    destruct (Head_first _ _ _ Hh) as [b [fb [Eh [Mb _]]]].
    rewrite <- app_assoc.
    pose proof (uint_det_complete _ _ _ (s ++ rest) Hh) as U.
    assert (Li : lenN (h ++ s ++ rest) = lenN h + lenN s + lenN rest) by (rewrite !lenN_app; lia).
    rewrite Eh in *. cbn [app] in *.
    rewrite det_rec_str by (left; exact Mb). unfold str_det. rewrite U. cbn [bind].
    rewrite Li.
    destruct (N.leb_spec (lenN (b :: fb) + lenN s + lenN rest) (lenN s)) as [C|C]; [lia|].
    destruct (N.leb_spec (lenN (b :: fb) + lenN s + lenN rest) (lenN (b :: fb) - 1 + lenN s)) as [C2|C2]; [lia|].
    cbn [orb bind]. f_equal.
    change (b :: fb ++ s) with ((b :: fb) ++ s). rewrite lenN_app. lia.
  - (* text *)
    pose proof (Head_len _ _ _ Hh) as Lh. pose proof (lenN_length h) as LL.
    rewrite app_length in Hf. destruct f as [|f]; [lia|].
    destruct (Head_first _ _ _ Hh) as [b [fb [Eh [Mb _]]]].
    rewrite <- app_assoc.
    pose proof (uint_det_complete _ _ _ (s ++ rest) Hh) as U.
    assert (Li : lenN (h ++ s ++ rest) = lenN h + lenN s + lenN rest) by (rewrite !lenN_app; lia).
    rewrite Eh in *. cbn [app] in *.
    rewrite det_rec_str by (right; exact Mb). unfold str_det. rewrite U. cbn [bind].
    rewrite Li.
    destruct (N.leb_spec (lenN (b :: fb) + lenN s + lenN rest) (lenN s)) as [C|C]; [lia|].
    destruct (N.leb_spec (lenN (b :: fb) + lenN s + lenN rest) (lenN (b :: fb) - 1 + lenN s)) as [C2|C2]; [lia|].
    cbn [orb bind]. f_equal.
    change (b :: fb ++ s) with ((b :: fb) ++ s). rewrite lenN_app. lia.
  - (* array *)
    pose proof (Head_len _ _ _ Hh) as Lh. pose proof (lenN_length h) as LL.
    rewrite app_length in Hf. destruct f as [|f]; [lia|].
    destruct (Head_first _ _ _ Hh) as [b [fb [Eh [Mb _]]]].
    rewrite <- app_assoc.
    pose proof (uint_det_complete _ _ _ (List.concat items ++ rest) Hh) as U.
    pose proof (concat_len_ge _ Hall) as Lc.
    pose proof (arr_loop_complete items Hall IH f h rest) as A.
    assert (Li : lenN (h ++ List.concat items ++ rest) = lenN h + lenN (List.concat items) + lenN rest)
      by (rewrite !lenN_app; lia).
    rewrite Eh in *. cbn [app] in *.
    rewrite det_rec_arr by exact Mb. rewrite U. cbn [bind]. rewrite Li.
    destruct (N.ltb_spec (lenN (b :: fb) + lenN (List.concat items) + lenN rest) (lenN items)) as [C|C]; [lia|].
    replace (1 + (lenN (b :: fb) - 1)) with (lenN (b :: fb)) by lia.
    rewrite A by lia. f_equal.
    change (b :: fb ++ List.concat items) with ((b :: fb) ++ List.concat items).
    rewrite lenN_app. reflexivity.
  - (* map *)
    pose proof (Head_len _ _ _ Hh) as Lh. pose proof (lenN_length h) as LL.
    rewrite app_length in Hf. destruct f as [|f]; [lia|].
    destruct (Head_first _ _ _ Hh) as [b [fb [Eh [Mb _]]]].
    rewrite <- app_assoc.
    pose proof (uint_det_complete _ _ _ (kvs pairs ++ rest) Hh) as U.
    pose proof (kvs_len_ge _ Hall) as Lc.
    pose proof (map_loop_complete pairs Hall IH f 0 (lenN pairs * 2) [] h rest) as A.
    assert (Li : lenN (h ++ kvs pairs ++ rest) = lenN h + lenN (kvs pairs) + lenN rest)
      by (rewrite !lenN_app; lia).
    fold (kvs pairs) in *.
    rewrite Eh in *. cbn [app] in *.
    rewrite det_rec_map by exact Mb. rewrite U. cbn [bind]. rewrite Li.
    destruct (N.ltb_spec (lenN (b :: fb) + lenN (kvs pairs) + lenN rest) (lenN pairs)) as [C|C]; [lia|].
    replace (1 + (lenN (b :: fb) - 1)) with (lenN (b :: fb)) by lia.
    rewrite A; [|reflexivity|lia|apply first_key_asc; assumption|lia]. f_equal.
    change (b :: fb ++ kvs pairs) with ((b :: fb) ++ kvs pairs).
    rewrite lenN_app. reflexivity.
Qed.

(* top-level loop *)
Lemma det_top_complete items :
  Forall DetItem items ->
  forall f pre, (2 * List.length (List.concat items) + 1 <= f)%nat ->
    det_top f (lenN pre) (pre ++ List.concat items) = Ok tt.
Proof.
  induction 1 as [|it items Hi Hall IH]; intros f pre Hf.
  - destruct f as [|f]; [lia|]. rewrite det_top_S. cbn [List.concat]. rewrite app_nil_r.
    rewrite N.leb_refl. reflexivity.
  - destruct f as [|f]; [lia|]. rewrite det_top_S.
    pose proof (DetItem_nonempty _ Hi) as Ni. pose proof (lenN_length it) as Li.
    rewrite concat_cons, app_length in Hf.
    destruct (N.leb_spec (lenN (pre ++ List.concat (it :: items))) (lenN pre)) as [C|C].
    { rewrite lenN_app, concat_cons, lenN_app in C. lia. }
    rewrite drop_from_app. cbn [bind]. rewrite concat_cons.
    rewrite (det_rec_complete _ Hi) by lia. cbn [bind].
    rewrite app_assoc, <- lenN_app. apply IH. lia.
Qed.

Theorem det_check_complete bs : DetSeq bs -> det_check bs = Accept.
Proof.
  intros [items [Hall E]]. subst bs. unfold det_check.
  rewrite (det_top_complete items Hall _ []); [reflexivity|].
  unfold det_fuel. lia.
Qed.
