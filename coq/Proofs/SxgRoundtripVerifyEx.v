(* Proofs/SxgRoundtripVerifyEx.v - C02 (Verify half): concrete runs with SHA-256
   and the toy oracles of SxgVerifyExample.v; witnesses showing that the side
   conditions of [verify_canon_invariant] and [signed_exchange_verifies] are
   needed; the theorems instantiated (their hypotheses are satisfiable). *)
From Coq Require Import Lia.
From WP Require Import Base.Prelude Base.Base64 Base.Sha256.
From WP Require Import Model.Cbor Model.Http Model.Url Model.Mice Model.StructHdr Model.CertChain
                       Model.Sxg.
From WP Require Import Proofs.BaseLemmas Proofs.SHLemmas Proofs.SxgReadDefs Proofs.SxgRoundtrip
                       Proofs.SxgVerifySound Proofs.SxgVerifyExample
                       Proofs.SxgRoundtripVerify Proofs.SxgRoundtripVerifySigned.
Open Scope N_scope.

Notation V := toy_verify.

Definition verdict_eqb (a b : verdict) : bool :=
  match a, b with
  | Valid p, Valid q => bytes_eqb p q
  | Invalid, Invalid | Undecided, Undecided => true
  | _, _ => false
  end.
Definition valid_body (v : verdict) : bool := verdict_eqb v (Valid toy_body).
Definition read_back (e : exchange) : exchange :=
  match write e with Ok bs => match read bs with Ok e' => e' | _ => e end | _ => e end.

(* ---- odd letter case, multi-valued fields: same verdict before / after ------------------------ *)
(* response map: Content-Type / Cache-Control added with Header.Add, then raw
   map entries with non-canonical keys, one of them with three values (one
   empty), one with none *)
Definition odd_raw : headers :=
  [(s2b "x-FOO-bar", [s2b "a"; s2b "b"; []]); (s2b "VARY", [s2b "accept"; s2b "accept-encoding"]);
   (s2b "etag", [])].
Definition odd3 : exchange :=
  Eval vm_compute in get (toy_sign (plain V1b3 200 std_headers odd_raw) toy_date toy_expires).
(* b2 also with request headers in odd case, multi-valued *)
Definition odd2 : exchange :=
  Eval vm_compute in
    get (toy_sign (with_reqh (plain V1b2 200 std_headers odd_raw)
                             [(s2b "aCCept", [s2b "*/*"; s2b "text/html"]); (s2b "X-y", [[1]])])
                  toy_date toy_expires).
Definition odd1 : exchange :=
  Eval vm_compute in
    get (toy_sign (with_method (with_reqh (plain V1b1 200 std_headers odd_raw)
                                          [(s2b "ACCEPT-language", [s2b "en"; s2b "fr"])])
                               (s2b "HEAD"))
                  toy_date toy_expires).

Example odd_side_conditions :
  lookup_stable odd3 = true /\ lookup_stable odd2 = true /\ lookup_stable odd1 = true /\
  canonical_keys (e_resph odd3) = false /\             (* the weaker condition is the one that holds *)
  readable odd3 = true /\ readable odd2 = true /\ readable odd1 = true.
Proof. vm_compute. repeat split. Qed.

Example odd_headers_differ :
  e_resph (canon_exchange odd3)
  = [(s2b "Etag", [[]]); (s2b "Vary", [s2b "accept,accept-encoding"]);
     (s2b "Digest", [s2b "mi-sha256-03=+Zuxn7vkuda49VMB3XHd/mHhIscn29AsgQ48WZRDGD8="]);
     (s2b "X-Foo-Bar", [s2b "a,b,"]); (s2b "Content-Type", [s2b "text/html"]);
     (s2b "Cache-Control", [s2b "max-age=600"]); (s2b "Content-Encoding", [s2b "mi-sha256-03"])].
Proof. vm_compute. reflexivity. Qed.

(* in memory, canonicalised, and after Write / ReadExchange: Valid, original payload *)
Example odd3_verdicts :
  valid_body (V odd3 toy_date 0) = true /\
  valid_body (V (canon_exchange odd3) toy_date 0) = true /\
  valid_body (V (read_back odd3) toy_date 0) = true.
Proof. vm_compute. repeat split. Qed.
Example odd2_verdicts :
  valid_body (V odd2 toy_expires 0) = true /\
  valid_body (V (canon_exchange odd2) toy_expires 0) = true /\
  valid_body (V (read_back odd2) toy_expires 0) = true.
Proof. vm_compute. repeat split. Qed.
Example odd1_verdicts :
  valid_body (V odd1 (toy_date + 300000) 999999999) = true /\
  valid_body (V (canon_exchange odd1) (toy_date + 300000) 999999999) = true /\
  valid_body (V (read_back odd1) (toy_date + 300000) 999999999) = true.
Proof. vm_compute. repeat split. Qed.
(* outside the window: Invalid, identically *)
Example odd3_outside :
  V odd3 toy_expires 1 = Invalid /\ V (read_back odd3) toy_expires 1 = Invalid /\
  V odd3 (toy_date - 1) 999999999 = Invalid /\ V (read_back odd3) (toy_date - 1) 999999999 = Invalid.
Proof. vm_compute. repeat split. Qed.

(* the theorem, instantiated *)
Example odd3_invariant_inst : forall tsec tnsec,
  V (canon_exchange odd3) tsec tnsec = V odd3 tsec tnsec.
Proof. intros. apply verify_canon_invariant. vm_compute. reflexivity. Qed.

(* ---- [lookup_stable] is needed: a looked-up name under a non-canonical map key -------------- *)
(* (1) Content-Type stored under the key "content-type": signed as content-type,
       but Header.Get("Content-Type") misses it: rejected in memory, accepted
       once written and read back. *)
Definition low_ct : exchange :=
  Eval vm_compute in
    get (toy_sign (plain V1b3 200 [(s2b "Cache-Control", s2b "max-age=600")]
                         [(s2b "content-type", [s2b "text/html"])]) toy_date toy_expires).
(* (2) "cache-control: no-store" under a non-canonical key: IsCacheable does not
       see it: accepted in memory, rejected once written and read back. *)
Definition low_cc : exchange :=
  Eval vm_compute in
    get (toy_sign (plain V1b3 200 [(s2b "Content-Type", s2b "text/html")]
                         [(s2b "cache-control", [s2b "no-store"])]) toy_date toy_expires).

Theorem verify_canon_invariant_needs_lookup_stable :
  exists e1 e2 tsec tnsec,
    (* everything else one could ask for holds *)
    readable e1 = true /\ readable e2 = true /\
    (exists bs, write e1 = Ok bs) /\ (exists bs, write e2 = Ok bs) /\
    e_taint e1 = false /\ e_taint e2 = false /\
    lookup_stable e1 = false /\ lookup_stable e2 = false /\
    (* rejected in memory, accepted after the round trip *)
    V e1 tsec tnsec = Invalid /\ V (canon_exchange e1) tsec tnsec = Valid toy_body /\
    read_back e1 = canon_exchange e1 /\
    (* accepted in memory, rejected after the round trip *)
    V e2 tsec tnsec = Valid toy_body /\ V (canon_exchange e2) tsec tnsec = Invalid /\
    read_back e2 = canon_exchange e2.
Proof.
  exists low_ct, low_cc, toy_date, 0%Z.
  split; [vm_compute; reflexivity|]. split; [vm_compute; reflexivity|].
  split; [destruct (write low_ct) as [bs| | |] eqn:E; try (vm_compute in E; discriminate E); eauto|].
  split; [destruct (write low_cc) as [bs| | |] eqn:E; try (vm_compute in E; discriminate E); eauto|].
  repeat split; vm_compute; reflexivity.
Qed.

(* ---- the digest header must be absent before MiEncodePayload ---------------------------------- *)
(* AddPayloadIntegrity refuses only a non-empty Get("Digest"); with an empty first
   value it appends: the signed, written exchange never verifies *)
Definition empty_digest : exchange :=
  Eval vm_compute in
    get (toy_sign (plain V1b3 200 std_headers [(s2b "Digest", [[]])]) toy_date toy_expires).
Example signed_exchange_needs_absent_digest :
  (exists e, toy_sign (plain V1b3 200 std_headers [(s2b "Digest", [[]])]) toy_date toy_expires = Ok e) /\
  hdr_values (e_resph (plain V1b3 200 std_headers [(s2b "Digest", [[]])])) (s2b "Digest") = [[]] /\
  policy_ok toy_status empty_digest toy_validity toy_date toy_expires 16 = true /\
  V empty_digest toy_date 0 = Invalid /\ V (read_back empty_digest) toy_date 0 = Invalid.
Proof.
  split.
  { destruct (toy_sign _ _ _) as [e| | |] eqn:E; try (vm_compute in E; discriminate E). eauto. }
  vm_compute. repeat split.
Qed.

(* ---- [signed_exchange_verifies] instantiated: for EVERY instant of the window --------------- *)
(* a hash whose output length is provable: 32 bytes of a polynomial fold *)
Definition polyH (x : bytes) : bytes :=
  be 32 (fold_left (fun a b => (a * 257 + b + 1) mod 2 ^ 256) x 7).
Lemma polyH_len : forall x, List.length (polyH x) = 32%nat.
Proof. intros x. apply be_length. Qed.
Lemma polyH_wf : forall x, wfb (polyH x).
Proof. intros x. apply be_wfb. Qed.
Definition poly_sig_ok (kid : N) (m sg : bytes) : bool := bytes_eqb sg (polyH (kid :: m)).

Definition p0 : exchange := plain V1b2 200 std_headers odd_raw.
Definition p1 : exchange := Eval vm_compute in get (mi_encode_payload polyH p0 16).
Definition pm : bytes :=
  Eval vm_compute in
    match signed_message p1 (Some (polyH toy_cert)) toy_validity toy_date toy_expires with
    | Ok m => m | _ => [] end.
Definition psg : bytes := Eval vm_compute in polyH (7 :: pm).
Definition phdr : bytes :=
  Eval vm_compute in
    match signature_header_value polyH p1 [toy_cert] toy_cert_url toy_validity toy_date toy_expires psg
    with Ok h => h | _ => [] end.

Example signed_exchange_verifies_inst : forall tsec tnsec,
  time_ok tsec tnsec ->
  (toy_date * 1000000000 <= tsec * 1000000000 + tnsec <= toy_expires * 1000000000)%Z ->
  verify polyH toy_x509 poly_sig_ok toy_status toy_fetch (set_sig p1 phdr) tsec tnsec
  = Valid toy_body.
Proof.
  intros tsec tnsec Ht Hw.
  change toy_body with (e_payload p0).
  apply (signed_exchange_verifies polyH toy_x509 poly_sig_ok toy_status toy_fetch polyH_len polyH_wf
           p0 p1 16 toy_cert toy_cert_url toy_validity toy_date toy_expires pm psg phdr toy_chain
           {| ac_cert := toy_cert; ac_ocsp := Some [9; 9]; ac_sct := None |} [] 7);
    try exact Ht; try exact Hw; try (vm_compute; reflexivity).
  apply wfbb_iff. vm_compute. reflexivity.
Qed.

Example signed_exchange_roundtrip_inst :
  exists bs e', write (set_sig p1 phdr) = Ok bs /\ read bs = Ok e' /\
    forall tsec tnsec, time_ok tsec tnsec ->
      (toy_date * 1000000000 <= tsec * 1000000000 + tnsec <= toy_expires * 1000000000)%Z ->
      verify polyH toy_x509 poly_sig_ok toy_status toy_fetch e' tsec tnsec = Valid toy_body.
Proof.
  destruct (write (set_sig p1 phdr)) as [bs| | |] eqn:Ew; try (vm_compute in Ew; discriminate Ew).
  exists bs.
  assert (Hx : exists e', read bs = Ok e' /\
            forall tsec tnsec, time_ok tsec tnsec ->
              (toy_date * 1000000000 <= tsec * 1000000000 + tnsec <= toy_expires * 1000000000)%Z ->
              verify polyH toy_x509 poly_sig_ok toy_status toy_fetch e' tsec tnsec = Valid (e_payload p0) /\
              verify polyH toy_x509 poly_sig_ok toy_status toy_fetch e' tsec tnsec
              = verify polyH toy_x509 poly_sig_ok toy_status toy_fetch (set_sig p1 phdr) tsec tnsec).
  { apply (signed_exchange_verifies_after_roundtrip polyH toy_x509 poly_sig_ok toy_status toy_fetch
             polyH_len polyH_wf
             p0 p1 16 toy_cert toy_cert_url toy_validity toy_date toy_expires pm psg phdr toy_chain
             {| ac_cert := toy_cert; ac_ocsp := Some [9; 9]; ac_sct := None |} [] 7 bs);
      try exact Ew; try (vm_compute; reflexivity).
    apply wfbb_iff. vm_compute. reflexivity. }
  destruct Hx as (e' & Erd & Hall).
  exists e'. split; [reflexivity|]. split; [exact Erd|].
  intros tsec tnsec Ht Hw. destruct (Hall tsec tnsec Ht Hw) as [Hv _]. exact Hv.
Qed.

(* the same with SHA-256, at the ends of the window, through Write / ReadExchange *)
Example sha_signed_roundtrip :
  valid_body (V (read_back ex3) toy_date 0) = true /\
  valid_body (V (read_back ex2) toy_expires 0) = true /\
  valid_body (V (read_back ex1) toy_expires 0) = true /\
  V (read_back ex1) toy_expires 1 = Invalid.
Proof. vm_compute. repeat split. Qed.
