(* Proofs/SxgRoundtripVerifyEx.v - C02 (Verify half): concrete runs with SHA-256
   and the toy oracles of SxgVerifyExample.v; the theorems instantiated (their
   hypotheses are satisfiable); and what became of the witnesses of the two Go
   defects this development found (F19: headerValue matched the map key
   exactly; F20: MiEncodePayload appended to an existing empty Digest value),
   now repaired: the same exchanges as positive examples. *)
From Coq Require Import Lia.
From WP Require Import Base.Prelude Base.Base64 Base.Sha256.
From WP Require Import Model.Cbor Model.Http Model.Url Model.Mice Model.StructHdr Model.CertChain
                       Model.Sxg.
From WP Require Import Proofs.BaseLemmas Proofs.SHLemmas Proofs.SxgReadDefs Proofs.SxgRoundtrip
                       Proofs.SxgVerifySound Proofs.SxgVerifyExample
                       Proofs.SxgRoundtripVerify Proofs.SxgRoundtripVerifySigned.
Open Scope N_scope.

Notation V := toy_verify.

Definition verdict_eqb (a b : verdict) : bool :=
  match a, b with
  | Valid p, Valid q => bytes_eqb p q
  | Invalid, Invalid | Undecided, Undecided => true
  | _, _ => false
  end.
Definition valid_body (v : verdict) : bool := verdict_eqb v (Valid toy_body).
Definition read_back (e : exchange) : exchange :=
  match write e with Ok bs => match read bs with Ok e' => e' | _ => e end | _ => e end.

(* ---- odd letter case, multi-valued fields: same verdict before / after ------------------------ *)
(* response map: Content-Type / Cache-Control added with Header.Add, then raw
   map entries with non-canonical keys, one of them with three values (one
   empty), one with none *)
Definition odd_raw : headers :=
  [(s2b "x-FOO-bar", [s2b "a"; s2b "b"; []]); (s2b "VARY", [s2b "accept"; s2b "accept-encoding"]);
   (s2b "etag", [])].
Definition odd3 : exchange :=
  Eval vm_compute in get (toy_sign (plain V1b3 200 std_headers odd_raw) toy_date toy_expires).
(* b2 also with request headers in odd case, multi-valued *)
Definition odd2 : exchange :=
  Eval vm_compute in
    get (toy_sign (with_reqh (plain V1b2 200 std_headers odd_raw)
                             [(s2b "aCCept", [s2b "*/*"; s2b "text/html"]); (s2b "X-y", [[1]])])
                  toy_date toy_expires).
Definition odd1 : exchange :=
  Eval vm_compute in
    get (toy_sign (with_method (with_reqh (plain V1b1 200 std_headers odd_raw)
                                          [(s2b "ACCEPT-language", [s2b "en"; s2b "fr"])])
                               (s2b "HEAD"))
                  toy_date toy_expires).

Example odd_side_conditions :
  readable odd3 = true /\ readable odd2 = true /\ readable odd1 = true.
Proof. vm_compute. repeat split. Qed.

Example odd_headers_differ :
  e_resph (canon_exchange odd3)
  = [(s2b "Etag", [[]]); (s2b "Vary", [s2b "accept,accept-encoding"]);
     (s2b "Digest", [s2b "mi-sha256-03=+Zuxn7vkuda49VMB3XHd/mHhIscn29AsgQ48WZRDGD8="]);
     (s2b "X-Foo-Bar", [s2b "a,b,"]); (s2b "Content-Type", [s2b "text/html"]);
     (s2b "Cache-Control", [s2b "max-age=600"]); (s2b "Content-Encoding", [s2b "mi-sha256-03"])].
Proof. vm_compute. reflexivity. Qed.

(* in memory, canonicalised, and after Write / ReadExchange: Valid, original payload *)
Example odd3_verdicts :
  valid_body (V odd3 toy_date 0) = true /\
  valid_body (V (canon_exchange odd3) toy_date 0) = true /\
  valid_body (V (read_back odd3) toy_date 0) = true.
Proof. vm_compute. repeat split. Qed.
Example odd2_verdicts :
  valid_body (V odd2 toy_expires 0) = true /\
  valid_body (V (canon_exchange odd2) toy_expires 0) = true /\
  valid_body (V (read_back odd2) toy_expires 0) = true.
Proof. vm_compute. repeat split. Qed.
Example odd1_verdicts :
  valid_body (V odd1 (toy_date + 300000) 999999999) = true /\
  valid_body (V (canon_exchange odd1) (toy_date + 300000) 999999999) = true /\
  valid_body (V (read_back odd1) (toy_date + 300000) 999999999) = true.
Proof. vm_compute. repeat split. Qed.
(* outside the window: Invalid, identically *)
Example odd3_outside :
  V odd3 toy_expires 1 = Invalid /\ V (read_back odd3) toy_expires 1 = Invalid /\
  V odd3 (toy_date - 1) 999999999 = Invalid /\ V (read_back odd3) (toy_date - 1) 999999999 = Invalid.
Proof. vm_compute. repeat split. Qed.

(* the theorem, instantiated *)
Example odd3_invariant_inst : forall tsec tnsec,
  V (canon_exchange odd3) tsec tnsec = V odd3 tsec tnsec.
Proof. intros. apply verify_canon_invariant. Qed.

(* ---- a looked-up name under a non-canonical map key (the witnesses of F19) --------------------- *)
(* Before the repair of headerValue these two exchanges changed verdict across
   Write / ReadExchange (the lookup matched the map key exactly).  Now: *)
(* (1) Content-Type stored under the key "content-type": found, in memory too. *)
Definition low_ct : exchange :=
  Eval vm_compute in
    get (toy_sign (plain V1b3 200 [(s2b "Cache-Control", s2b "max-age=600")]
                         [(s2b "content-type", [s2b "text/html"])]) toy_date toy_expires).
(* (2) "cache-control: no-store" under a non-canonical key: IsCacheable sees it. *)
Definition low_cc : exchange :=
  Eval vm_compute in
    get (toy_sign (plain V1b3 200 [(s2b "Content-Type", s2b "text/html")]
                         [(s2b "cache-control", [s2b "no-store"])]) toy_date toy_expires).

(* low_ct: Valid (original payload) in memory, canonicalised, and read back;
   low_cc: Invalid (no-store) in all three *)
Example low_ct_low_cc_same_verdict :
  readable low_ct = true /\ readable low_cc = true /\
  read_back low_ct = canon_exchange low_ct /\ read_back low_cc = canon_exchange low_cc /\
  V low_ct toy_date 0 = Valid toy_body /\
  V (canon_exchange low_ct) toy_date 0 = Valid toy_body /\
  V (read_back low_ct) toy_date 0 = Valid toy_body /\
  V low_cc toy_date 0 = Invalid /\
  V (canon_exchange low_cc) toy_date 0 = Invalid /\
  V (read_back low_cc) toy_date 0 = Invalid.
Proof. vm_compute. repeat split. Qed.

Example low_ct_low_cc_invariant_inst : forall tsec tnsec,
  V (canon_exchange low_ct) tsec tnsec = V low_ct tsec tnsec /\
  V (canon_exchange low_cc) tsec tnsec = V low_cc tsec tnsec.
Proof. intros. split; apply verify_canon_invariant. Qed.

(* two keys equal up to letter case: nothing can be signed or written, Invalid on
   both sides whatever the lookups would say *)
Definition twin_ct : exchange :=
  with_resph ex3 (e_resph ex3 ++ [(s2b "content-TYPE", [s2b "text/plain"])]).
Example twin_keys_invalid :
  write twin_ct = Err /\ V twin_ct toy_date 0 = Invalid /\ V (canon_exchange twin_ct) toy_date 0 = Invalid.
Proof. vm_compute. repeat split. Qed.

(* ---- an existing digest header (the witness of F20) ---------------------------------------------- *)
(* MiEncodePayload now refuses any existing value under the canonical key, an
   empty one included (before: it appended, and the signed exchange never verified) *)
Example mi_encode_refuses_existing_digest :
  mi_encode_payload sha256 (plain V1b3 200 std_headers [(s2b "Digest", [[]])]) 16 = Err /\
  toy_sign (plain V1b3 200 std_headers [(s2b "Digest", [[]])]) toy_date toy_expires = Err /\
  mi_encode_payload sha256 (plain V1b1 200 std_headers [(s2b "Mi-Draft2", [[]; []])]) 16 = Err.
Proof. vm_compute. repeat split. Qed.
(* a differently spelled key is not seen by MiEncodePayload (Header.Values), but then
   the map has two names equal up to letter case and cannot be signed: the
   premise signed_message .. = Ok of [signed_exchange_verifies] excludes it *)
Example lowercase_digest_cannot_be_signed :
  let e0 := plain V1b3 200 std_headers [(s2b "digest", [s2b "x"])] in
  (exists e1, mi_encode_payload sha256 e0 16 = Ok e1 /\
     signed_message e1 (Some (sha256 toy_cert)) toy_validity toy_date toy_expires = Err) /\
  toy_sign e0 toy_date toy_expires = Err.
Proof.
  cbv zeta. split; [|vm_compute; reflexivity].
  destruct (mi_encode_payload sha256 _ 16) as [e1| | |] eqn:E; try (vm_compute in E; discriminate E).
  exists e1. split; [reflexivity|].
  vm_compute in E. injection E as <-. vm_compute. reflexivity.
Qed.

(* ---- [signed_exchange_verifies] instantiated: for EVERY instant of the window --------------- *)
(* a hash whose output length is provable: 32 bytes of a polynomial fold *)
Definition polyH (x : bytes) : bytes :=
  be 32 (fold_left (fun a b => (a * 257 + b + 1) mod 2 ^ 256) x 7).
Lemma polyH_len : forall x, List.length (polyH x) = 32%nat.
Proof. intros x. apply be_length. Qed.
Lemma polyH_wf : forall x, wfb (polyH x).
Proof. intros x. apply be_wfb. Qed.
Definition poly_sig_ok (kid : N) (m sg : bytes) : bool := bytes_eqb sg (polyH (kid :: m)).

Definition p0 : exchange := plain V1b2 200 std_headers odd_raw.
Definition p1 : exchange := Eval vm_compute in get (mi_encode_payload polyH p0 16).
Definition pm : bytes :=
  Eval vm_compute in
    match signed_message p1 (Some (polyH toy_cert)) toy_validity toy_date toy_expires with
    | Ok m => m | _ => [] end.
Definition psg : bytes := Eval vm_compute in polyH (7 :: pm).
Definition phdr : bytes :=
  Eval vm_compute in
    match signature_header_value polyH p1 [toy_cert] toy_cert_url toy_validity toy_date toy_expires psg
    with Ok h => h | _ => [] end.

Example signed_exchange_verifies_inst : forall tsec tnsec,
  time_ok tsec tnsec ->
  (toy_date * 1000000000 <= tsec * 1000000000 + tnsec <= toy_expires * 1000000000)%Z ->
  verify polyH toy_x509 poly_sig_ok toy_status toy_fetch (set_sig p1 phdr) tsec tnsec
  = Valid toy_body.
Proof.
  intros tsec tnsec Ht Hw.
  change toy_body with (e_payload p0).
  apply (signed_exchange_verifies polyH toy_x509 poly_sig_ok toy_status toy_fetch polyH_len polyH_wf
           p0 p1 16 toy_cert toy_cert_url toy_validity toy_date toy_expires pm psg phdr toy_chain
           {| ac_cert := toy_cert; ac_ocsp := Some [9; 9]; ac_sct := None |} [] 7);
    try exact Ht; try exact Hw; try (vm_compute; reflexivity).
  apply wfbb_iff. vm_compute. reflexivity.
Qed.

Example signed_exchange_roundtrip_inst :
  exists bs e', write (set_sig p1 phdr) = Ok bs /\ read bs = Ok e' /\
    forall tsec tnsec, time_ok tsec tnsec ->
      (toy_date * 1000000000 <= tsec * 1000000000 + tnsec <= toy_expires * 1000000000)%Z ->
      verify polyH toy_x509 poly_sig_ok toy_status toy_fetch e' tsec tnsec = Valid toy_body.
Proof.
  destruct (write (set_sig p1 phdr)) as [bs| | |] eqn:Ew; try (vm_compute in Ew; discriminate Ew).
  exists bs.
  assert (Hx : exists e', read bs = Ok e' /\
            forall tsec tnsec, time_ok tsec tnsec ->
              (toy_date * 1000000000 <= tsec * 1000000000 + tnsec <= toy_expires * 1000000000)%Z ->
              verify polyH toy_x509 poly_sig_ok toy_status toy_fetch e' tsec tnsec = Valid (e_payload p0) /\
              verify polyH toy_x509 poly_sig_ok toy_status toy_fetch e' tsec tnsec
              = verify polyH toy_x509 poly_sig_ok toy_status toy_fetch (set_sig p1 phdr) tsec tnsec).
  { apply (signed_exchange_verifies_after_roundtrip polyH toy_x509 poly_sig_ok toy_status toy_fetch
             polyH_len polyH_wf
             p0 p1 16 toy_cert toy_cert_url toy_validity toy_date toy_expires pm psg phdr toy_chain
             {| ac_cert := toy_cert; ac_ocsp := Some [9; 9]; ac_sct := None |} [] 7 bs);
      try exact Ew; try (vm_compute; reflexivity).
    apply wfbb_iff. vm_compute. reflexivity. }
  destruct Hx as (e' & Erd & Hall).
  exists e'. split; [reflexivity|]. split; [exact Erd|].
  intros tsec tnsec Ht Hw. destruct (Hall tsec tnsec Ht Hw) as [Hv _]. exact Hv.
Qed.

(* the same with SHA-256, at the ends of the window, through Write / ReadExchange *)
Example sha_signed_roundtrip :
  valid_body (V (read_back ex3) toy_date 0) = true /\
  valid_body (V (read_back ex2) toy_expires 0) = true /\
  valid_body (V (read_back ex1) toy_expires 0) = true /\
  V (read_back ex1) toy_expires 1 = Invalid.
Proof. vm_compute. repeat split. Qed.

(* ---- b3: the request part is not stored (by design of the format) -------------------------------- *)
(* a b3 exchange that carries, in memory, a stateful request header: Verify
   refuses it (verify_headers looks at e_reqh whatever the version; the signed
   message of b3 does not cover request headers), Write stores no request part,
   and what ReadExchange returns is accepted *)
Definition b3_auth : exchange := with_reqh ex3 [(s2b "Authorization", [s2b "Basic eDp5"])].
Theorem b3_stateful_request_header_verdict_flips :
  e_ver b3_auth = V1b3 /\ (exists bs, write b3_auth = Ok bs) /\
  readable (b3_norm b3_auth) = true /\ readable b3_auth = false /\
  read_back b3_auth = canon_exchange (b3_norm b3_auth) /\
  e_reqh (read_back b3_auth) = [] /\
  V b3_auth toy_date 0 = Invalid /\
  V (read_back b3_auth) toy_date 0 = Valid toy_body.
Proof.
  split; [reflexivity|].
  split; [destruct (write b3_auth) as [bs| | |] eqn:E; try (vm_compute in E; discriminate E); eauto|].
  repeat split; vm_compute; reflexivity.
Qed.
(* same with a method other than GET: the verdict does not change (b3 ignores the
   method) but the method comes back as GET *)
Definition b3_post : exchange := with_method ex3 (s2b "POST").
Example b3_method_comes_back_get :
  e_method (read_back b3_post) = s2b "GET" /\ read_back b3_post = canon_exchange (b3_norm b3_post) /\
  V b3_post toy_date 0 = Valid toy_body /\ V (read_back b3_post) toy_date 0 = Valid toy_body.
Proof. vm_compute. repeat split. Qed.
