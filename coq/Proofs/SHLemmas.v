(* Proofs/SHLemmas.v - generic facts used by the structured-header proofs:
   character classes, span / discard_ows, byte-string order, insertion sort. *)
From Coq Require Import Lia ZifyN ZifyNat ZifyBool Permutation Sorted.
From WP Require Import Base.Prelude Base.Base64 Base.Decimal Model.StructHdr Spec.StructHdr.
Ltac Zify.zify_post_hook ::= Z.div_mod_to_equations.
Open Scope N_scope.

(* ---- character classes: model booleans vs spec predicates --------------- *)
Lemma is_digit_iff c : is_digit c = true <-> DIGIT c.
Proof. unfold is_digit, DIGIT. lia. Qed.
Lemma is_lcalpha_iff c : is_lcalpha c = true <-> LCALPHA c.
Proof. unfold is_lcalpha, LCALPHA. lia. Qed.
Lemma is_alpha_iff c : is_alpha c = true <-> ALPHA c.
Proof. unfold is_alpha, is_lcalpha, ALPHA, LCALPHA, UCALPHA. lia. Qed.
Lemma is_keychar_iff c : is_keychar c = true <-> KCHAR c.
Proof. unfold is_keychar, is_lcalpha, is_digit, KCHAR, LCALPHA, DIGIT. lia. Qed.
Lemma is_tokenchar_iff c : is_tokenchar c = true <-> TCHAR c.
Proof.
  unfold is_tokenchar, is_alpha, is_lcalpha, is_digit, TCHAR, ALPHA, LCALPHA, UCALPHA, DIGIT. lia.
Qed.

Lemma digit_b_eq c : digit_b c = is_digit c.
Proof. reflexivity. Qed.
Lemma lcalpha_b_eq c : lcalpha_b c = is_lcalpha c.
Proof. reflexivity. Qed.
Lemma alpha_b_eq c : alpha_b c = is_alpha c.
Proof. reflexivity. Qed.
Lemma tchar_b_eq c : tchar_b c = is_tokenchar c.
Proof.
  unfold tchar_b, is_tokenchar. cbn [existsb]. rewrite alpha_b_eq, digit_b_eq.
  rewrite !(N.eqb_sym c). rewrite orb_false_r, !orb_assoc. reflexivity.
Qed.
Lemma kchar_b_eq c : kchar_b c = is_keychar c.
Proof.
  unfold kchar_b, is_keychar. cbn [existsb]. rewrite lcalpha_b_eq, digit_b_eq.
  rewrite !(N.eqb_sym c). rewrite orb_false_r, !orb_assoc. reflexivity.
Qed.
Lemma printable_b_iff c : printable_b c = true <-> PRINTABLE c.
Proof. unfold printable_b, PRINTABLE. lia. Qed.

Lemma forallb_Forall {A} (p : A -> bool) (P : A -> Prop) :
  (forall x, p x = true <-> P x) -> forall l, forallb p l = true <-> Forall P l.
Proof.
  intros Hp l. induction l as [|x t IH]; cbn [forallb].
  - split; [constructor|reflexivity].
  - rewrite andb_true_iff, Hp, IH. split.
    + intros [H1 H2]. constructor; assumption.
    + intros H. inversion H; subst. split; assumption.
Qed.

Lemma forallb_ext' {A} (p q : A -> bool) : (forall x, p x = q x) -> forall l, forallb p l = forallb q l.
Proof. intros H l. induction l as [|x t IH]; cbn [forallb]; [reflexivity|]. rewrite H, IH. reflexivity. Qed.

Lemma is_valid_token_iff t : is_valid_token t = true <-> Token t.
Proof.
  destruct t as [|c r]; cbn [is_valid_token Token]; [split; [discriminate|tauto]|].
  cbn [forallb]. rewrite !andb_true_iff, is_alpha_iff, (forallb_Forall _ _ is_tokenchar_iff r), is_tokenchar_iff.
  split; [tauto|]. intros [Ha Hr]. split; [exact Ha|]. split; [left; exact Ha|exact Hr].
Qed.

Lemma is_valid_key_iff k : is_valid_key k = true <-> Key k.
Proof.
  destruct k as [|c r]; cbn [is_valid_key Key]; [split; [discriminate|tauto]|].
  cbn [forallb]. rewrite !andb_true_iff, is_lcalpha_iff, (forallb_Forall _ _ is_keychar_iff r), is_keychar_iff.
  split; [tauto|]. intros [Ha Hr]. split; [exact Ha|]. split; [left; exact Ha|exact Hr].
Qed.

Lemma token_b_iff t : token_b t = true <-> Token t.
Proof.
  destruct t as [|c r]; cbn [token_b Token]; [split; [discriminate|tauto]|].
  rewrite andb_true_iff, alpha_b_eq, is_alpha_iff, (forallb_ext' _ _ tchar_b_eq),
    (forallb_Forall _ _ is_tokenchar_iff r). tauto.
Qed.

Lemma key_b_iff k : key_b k = true <-> Key k.
Proof.
  destruct k as [|c r]; cbn [key_b Key]; [split; [discriminate|tauto]|].
  rewrite andb_true_iff, lcalpha_b_eq, is_lcalpha_iff, (forallb_ext' _ _ kchar_b_eq),
    (forallb_Forall _ _ is_keychar_iff r). tauto.
Qed.

Lemma wfbb_iff b : wfbb b = true <-> wfb b.
Proof. unfold wfbb, wfb. apply forallb_Forall. intros x. lia. Qed.

Lemma int64_range_b_iff z : int64_range_b z = true <-> int64_range z.
Proof. unfold int64_range_b, int64_range. lia. Qed.

(* ---- span ---------------------------------------------------------------- *)
Definition nohead (p : N -> bool) (b : bytes) : Prop :=
  match b with [] => True | c :: _ => p c = false end.

Lemma span_spec p s : forall a b, span p s = (a, b) ->
  s = a ++ b /\ forallb p a = true /\ nohead p b.
Proof.
  induction s as [|c r IH]; intros a b H; cbn [span] in H.
  - inversion H; subst. repeat split.
  - destruct (p c) eqn:Hc.
    + destruct (span p r) as [a' b'] eqn:Hs. inversion H; subst.
      destruct (IH a' b eq_refl) as (E & Hf & Hn). subst r.
      cbn [forallb app]. rewrite Hc, Hf. repeat split. exact Hn.
    + inversion H; subst. repeat split. exact Hc.
Qed.

Lemma span_app p a b : forallb p a = true -> nohead p b -> span p (a ++ b) = (a, b).
Proof.
  induction a as [|c a IH]; intros Hf Hn; cbn [app].
  - destruct b as [|c r]; [reflexivity|]. cbn [span]. cbn [nohead] in Hn. rewrite Hn. reflexivity.
  - cbn [forallb] in Hf. apply andb_true_iff in Hf. destruct Hf as [Hc Hf].
    cbn [span]. rewrite Hc, (IH Hf Hn). reflexivity.
Qed.

Lemma span_length p s a b : span p s = (a, b) -> (List.length b <= List.length s)%nat.
Proof.
  intros H. apply span_spec in H. destruct H as (E & _). subst s. rewrite app_length. lia.
Qed.

(* ---- OWS ------------------------------------------------------------------ *)
Definition is_ws (c : N) : bool := (c =? 32) || (c =? 9).
Lemma is_ws_iff c : is_ws c = true <-> WS c.
Proof. unfold is_ws, WS. lia. Qed.

Lemma discard_ows_spec s : exists w, s = w ++ discard_ows s /\ OWS w.
Proof.
  induction s as [|c r IH]; cbn [discard_ows].
  - exists []. split; [reflexivity|constructor].
  - destruct ((c =? 32) || (c =? 9)) eqn:Hc.
    + destruct IH as (w & E & Hw). exists (c :: w). split.
      * cbn [app]. f_equal. exact E.
      * constructor; [|exact Hw]. apply is_ws_iff. exact Hc.
    + exists []. split; [reflexivity|constructor].
Qed.

Lemma discard_ows_app w s : OWS w -> discard_ows (w ++ s) = discard_ows s.
Proof.
  induction 1 as [|c w Hc _ IH]; [reflexivity|].
  cbn [app discard_ows]. apply is_ws_iff in Hc. unfold is_ws in Hc. rewrite Hc. exact IH.
Qed.

Lemma discard_ows_nows s : nohead is_ws s -> discard_ows s = s.
Proof.
  destruct s as [|c r]; [reflexivity|]. cbn [nohead discard_ows]. unfold is_ws. intros H.
  rewrite H. reflexivity.
Qed.

Lemma discard_ows_head s : nohead is_ws (discard_ows s).
Proof.
  induction s as [|c r IH]; cbn [discard_ows]; [exact I|].
  destruct ((c =? 32) || (c =? 9)) eqn:Hc; [exact IH|]. cbn [nohead]. exact Hc.
Qed.

Lemma discard_ows_idem s : discard_ows (discard_ows s) = discard_ows s.
Proof. apply discard_ows_nows, discard_ows_head. Qed.

Lemma discard_ows_OWS w : OWS w -> discard_ows w = [].
Proof. intros H. rewrite <- (app_nil_r w), discard_ows_app by exact H. reflexivity. Qed.

Lemma discard_ows_length s : (List.length (discard_ows s) <= List.length s)%nat.
Proof.
  destruct (discard_ows_spec s) as (w & E & _). rewrite E at 2. rewrite app_length. lia.
Qed.

Lemma OWS_app a b : OWS a -> OWS b -> OWS (a ++ b).
Proof. intros Ha Hb. apply Forall_app. split; assumption. Qed.

Lemma OWS_nil : OWS [].
Proof. constructor. Qed.

(* ---- bytes_eqb / bytes_cmp ----------------------------------------------- *)
Lemma bytes_eqb_iff a : forall b, bytes_eqb a b = true <-> a = b.
Proof.
  induction a as [|x a IH]; intros [|y b]; cbn [bytes_eqb]; try (split; [discriminate|discriminate]).
  - split; reflexivity.
  - rewrite andb_true_iff, N.eqb_eq, IH. split.
    + intros [E1 E2]. subst. reflexivity.
    + intros E. inversion E. split; reflexivity.
Qed.

Lemma bytes_cmp_eq a : forall b, bytes_cmp a b = Eq <-> a = b.
Proof.
  induction a as [|x a IH]; intros [|y b]; cbn [bytes_cmp]; try (split; discriminate).
  - split; reflexivity.
  - destruct (N.compare_spec x y) as [E|L|G].
    + subst. rewrite IH. split; [intros ->; reflexivity|]. intros E. inversion E. reflexivity.
    + split; [discriminate|]. intros E. inversion E. lia.
    + split; [discriminate|]. intros E. inversion E. lia.
Qed.

Lemma bytes_cmp_antisym a : forall b, bytes_cmp b a = CompOpp (bytes_cmp a b).
Proof.
  induction a as [|x a IH]; intros [|y b]; cbn [bytes_cmp]; try reflexivity.
  rewrite (N.compare_antisym x y). destruct (x ?= y); cbn [CompOpp]; [apply IH|reflexivity|reflexivity].
Qed.

Lemma bytes_cmp_lt_trans a : forall b c, bytes_cmp a b = Lt -> bytes_cmp b c = Lt -> bytes_cmp a c = Lt.
Proof.
  induction a as [|x a IH]; intros [|y b] [|z c]; cbn [bytes_cmp]; try discriminate; try reflexivity.
  destruct (N.compare_spec x y) as [E1|L1|G1]; destruct (N.compare_spec y z) as [E2|L2|G2];
    try discriminate; intros H1 H2.
  - subst. rewrite N.compare_refl. eapply IH; eassumption.
  - subst. apply N.compare_lt_iff in L2. rewrite L2. reflexivity.
  - subst. apply N.compare_lt_iff in L1. rewrite L1. reflexivity.
  - assert (L : x < z) by lia. apply N.compare_lt_iff in L. rewrite L. reflexivity.
Qed.

Lemma bytes_ltb_irrefl a : bytes_ltb a a = false.
Proof. unfold bytes_ltb. rewrite (proj2 (bytes_cmp_eq a a) eq_refl). reflexivity. Qed.

Lemma bytes_ltb_trichotomy a b : a <> b -> bytes_ltb a b = negb (bytes_ltb b a).
Proof.
  intros Hne. unfold bytes_ltb. rewrite (bytes_cmp_antisym a b).
  destruct (bytes_cmp a b) eqn:E; cbn [CompOpp negb]; try reflexivity.
  apply bytes_cmp_eq in E. contradiction.
Qed.

Lemma bytes_ltb_trans a b c : bytes_ltb a b = true -> bytes_ltb b c = true -> bytes_ltb a c = true.
Proof.
  unfold bytes_ltb. destruct (bytes_cmp a b) eqn:E1; try discriminate.
  destruct (bytes_cmp b c) eqn:E2; try discriminate. rewrite (bytes_cmp_lt_trans _ _ _ E1 E2). reflexivity.
Qed.

(* ---- insertion sort on parameters ---------------------------------------- *)
Lemma key_lt_param_lt : key_lt = param_lt.
Proof. reflexivity. Qed.

Lemma insert_perm {A} (lt : A -> A -> bool) x l : Permutation (insert lt x l) (x :: l).
Proof.
  induction l as [|y t IH]; cbn [insert]; [reflexivity|].
  destruct (lt y x); [|reflexivity].
  rewrite IH. apply perm_swap.
Qed.

Lemma isort_perm {A} (lt : A -> A -> bool) l : Permutation (isort lt l) l.
Proof.
  induction l as [|x t IH]; cbn [isort]; [reflexivity|].
  rewrite insert_perm. constructor. exact IH.
Qed.

(* inserting two entries with different keys commutes *)
Lemma insert_comm (x y : bytes * option sh_item) l :
  fst x <> fst y -> insert key_lt x (insert key_lt y l) = insert key_lt y (insert key_lt x l).
Proof.
  intros Hne. induction l as [|z t IH].
  - cbn [insert]. unfold key_lt. rewrite (bytes_ltb_trichotomy (fst y) (fst x)) by congruence.
    destruct (bytes_ltb (fst x) (fst y)); reflexivity.
  - cbn [insert]. destruct (key_lt z y) eqn:Hzy; destruct (key_lt z x) eqn:Hzx; cbn [insert];
      rewrite ?Hzy, ?Hzx.
    + rewrite IH. reflexivity.
    + (* z < y, not z < x : x <= z < y *)
      assert (Hxy : key_lt x y = true).
      { unfold key_lt in *. destruct (list_eq_dec N.eq_dec (fst z) (fst x)) as [E|NE].
        - rewrite <- E. exact Hzy.
        - rewrite (bytes_ltb_trichotomy _ _ NE) in Hzx. apply negb_false_iff in Hzx.
          eapply bytes_ltb_trans; eassumption. }
      rewrite Hxy. cbn [insert]. rewrite ?Hzy. reflexivity.
    + assert (Hyx : key_lt y x = true).
      { unfold key_lt in *. destruct (list_eq_dec N.eq_dec (fst z) (fst y)) as [E|NE].
        - rewrite <- E. exact Hzx.
        - rewrite (bytes_ltb_trichotomy _ _ NE) in Hzy. apply negb_false_iff in Hzy.
          eapply bytes_ltb_trans; eassumption. }
      rewrite Hyx. cbn [insert]. rewrite ?Hzx. reflexivity.
    + assert (Hyx : key_lt y x = negb (key_lt x y)).
      { unfold key_lt. apply bytes_ltb_trichotomy. congruence. }
      rewrite Hyx. destruct (key_lt x y) eqn:Hxy; cbn [negb insert]; rewrite ?Hzx, ?Hzy; reflexivity.
Qed.

Lemma isort_perm_eq (l l' : sh_params) :
  Permutation l l' -> NoDup (keys l) -> isort key_lt l = isort key_lt l'.
Proof.
  induction 1 as [|x l l' HP IH|x y l|l l' l'' HP1 IH1 HP2 IH2]; intros Hnd.
  - reflexivity.
  - cbn [isort]. cbn [keys map] in Hnd. inversion Hnd; subst. rewrite IH by assumption. reflexivity.
  - cbn [isort]. apply insert_comm. cbn [keys map] in Hnd. inversion Hnd as [|? ? Hin _]; subst.
    intros E. apply Hin. left. symmetry. exact E.
  - rewrite IH1 by exact Hnd. apply IH2.
    unfold keys in *. eapply Permutation_NoDup; [|exact Hnd]. apply Permutation_map. exact HP1.
Qed.

(* the output of isort is sorted by key (strictly, when keys are distinct) *)
Definition key_le (a b : bytes * option sh_item) : Prop := bytes_ltb (fst b) (fst a) = false.

Lemma key_le_trans a b c : key_le a b -> key_le b c -> key_le a c.
Proof.
  unfold key_le. intros H1 H2. destruct (bytes_ltb (fst c) (fst a)) eqn:H; [|reflexivity].
  destruct (list_eq_dec N.eq_dec (fst b) (fst a)) as [E|NE].
  - rewrite E in H2. congruence.
  - rewrite (bytes_ltb_trichotomy _ _ NE) in H1. apply negb_false_iff in H1.
    rewrite (bytes_ltb_trans _ _ _ H H1) in H2. discriminate.
Qed.

Lemma insert_sorted x l : StronglySorted key_le l -> StronglySorted key_le (insert key_lt x l).
Proof.
  induction 1 as [|y t Hs IH Hall]; cbn [insert].
  - constructor; constructor.
  - destruct (key_lt y x) eqn:Hyx.
    + constructor; [exact IH|].
      eapply Permutation_Forall; [symmetry; apply insert_perm|].
      constructor; [|exact Hall]. unfold key_le. unfold key_lt in Hyx.
      destruct (list_eq_dec N.eq_dec (fst x) (fst y)) as [E|NE].
      * rewrite E in *. rewrite bytes_ltb_irrefl in Hyx. discriminate.
      * rewrite (bytes_ltb_trichotomy _ _ NE), Hyx. reflexivity.
    + constructor; [constructor; assumption|].
      constructor; [exact Hyx|].
      eapply Forall_impl; [|exact Hall]. intros a Ha. eapply key_le_trans; [exact Hyx|exact Ha].
Qed.

Lemma isort_sorted l : StronglySorted key_le (isort key_lt l).
Proof. induction l as [|x t IH]; cbn [isort]; [constructor|]. apply insert_sorted, IH. Qed.

(* ---- misc lists ----------------------------------------------------------- *)
Lemma lenN_length {A} (l : list A) : lenN l = N.of_nat (List.length l).
Proof.
  induction l as [|x t IH]; [reflexivity|].
  cbn [lenN List.length]. rewrite IH, Nat2N.inj_succ. reflexivity.
Qed.

Lemma existsb_eqb_In k (l : list bytes) : existsb (bytes_eqb k) l = true <-> In k l.
Proof.
  rewrite existsb_exists. split.
  - intros (x & Hin & E). apply bytes_eqb_iff in E. subst. exact Hin.
  - intros Hin. exists k. split; [exact Hin|]. apply bytes_eqb_iff. reflexivity.
Qed.

Lemma nodup_b_iff l : nodup_b l = true <-> NoDup l.
Proof.
  induction l as [|x t IH]; cbn [nodup_b].
  - split; [constructor|reflexivity].
  - rewrite andb_true_iff, negb_true_iff, IH. split.
    + intros [H1 H2]. constructor; [|exact H2]. intros Hin. apply existsb_eqb_In in Hin. congruence.
    + intros H. inversion H as [|? ? Hn Hd]; subst. split; [|exact Hd].
      destruct (existsb (bytes_eqb x) t) eqn:E; [|reflexivity]. apply existsb_eqb_In in E. contradiction.
Qed.

Lemma has_key_iff k ps : has_key k ps = true <-> In k (keys ps).
Proof.
  unfold has_key, keys. rewrite existsb_exists, in_map_iff. split.
  - intros (x & Hin & E). apply bytes_eqb_iff in E. exists x. split; assumption.
  - intros (x & E & Hin). exists x. split; [exact Hin|]. apply bytes_eqb_iff. exact E.
Qed.
