(* C15, end to end: whatever stream is presented together with the digest
   header of a payload p, the decoder releases only a prefix of p and reports
   clean EOF only after all of p (or a collision of H is exhibited). *)
From Coq Require Import Lia ZifyN ZifyNat ZifyBool.
From WP Require Import Base.Prelude Base.Base64 Model.Mice Spec.Mice
  Proofs.MiceLemmas Proofs.MiceEncode Proofs.MiceRead Proofs.MiceCommit Proofs.MiceDecode.
Open Scope N_scope.

Section Auth.
  Variable H : bytes -> bytes.
  Hypothesis Hlen : forall x, List.length (H x) = 32%nat.
  Hypothesis Hwf : forall x, wfb (H x).

  Lemma parse_digest_header_honest d rs p :
    parse_digest_header d (digest_header H d rs p) = Ok (digest H d rs p).
  Proof.
    rewrite digest_header_format. destruct (digest_hash H d rs p) as [x Dx].
    rewrite Dx. apply parse_format; assumption.
  Qed.

  (* the digest of a payload commits to a record list whose concatenation is
     the payload (for draft 03 / empty payload: to the single empty record) *)
  Lemma digest_commits_payload d rs p :
    1 <= rs -> exists recs, Commits H (digest H d rs p) recs /\ List.concat recs = p.
  Proof.
    intros Hrs. destruct (records_spec d rs p Hrs) as [_ Cc].
    destruct (records d rs p) as [|r t] eqn:Er.
    - destruct (records_nonempty d rs p Hrs Er) as [-> ->].
      exists [[]]. split; [|reflexivity].
      exact (proj2 (encode_commits_empty03 H rs)).
    - exists (r :: t). split; [|exact Cc]. rewrite <- Er.
      apply encode_commits; [exact Hlen|exact Hrs|rewrite Er; discriminate].
  Qed.

  Theorem decoder_authentic d rs p s maxrs sizes s0 out st :
    1 <= rs ->
    new_decoder H d s (digest_header H d rs p) maxrs = Ok s0 ->
    read_trace H s0 sizes [] = (out, st) ->
    ((exists rest, p = out ++ rest) /\ (st = REOF -> out = p)) \/ Collision H.
  Proof.
    intros Hrs N0 T.
    destruct (digest_commits_payload d rs p Hrs) as (recs & C & Cc).
    rewrite <- Cc.
    exact (decoder_releases_only_committed H _ _ _ _ _ _ _ _ _ _
             (parse_digest_header_honest d rs p) C N0 T).
  Qed.

  Theorem decode_all_authentic d rs p s maxrs k out st :
    1 <= rs ->
    decode_all H d s (digest_header H d rs p) maxrs k = Ok (out, st) ->
    ((exists rest, p = out ++ rest) /\ (st = REOF -> out = p)) \/ Collision H.
  Proof.
    intros Hrs D.
    destruct (digest_commits_payload d rs p Hrs) as (recs & C & Cc).
    rewrite <- Cc.
    exact (decode_all_only_committed H _ _ _ _ _ _ _ _ _
             (parse_digest_header_honest d rs p) C D).
  Qed.
End Auth.
