(* Proofs/CertChainWrite.v - CertChain.Write: exact output, when it fails, and
   that the output is the canonical CBOR described by Spec.CertChain.Form.   *)
From Coq Require Import Lia ZifyN ZifyNat ZifyBool.
From WP Require Import Base.Prelude Model.Cbor Model.CertChain Spec.Cbor Spec.CertChain.
From WP Require Import Proofs.BaseLemmas Proofs.CborHead Proofs.CborUtf8 Proofs.CborTokens
  Proofs.CborMap Proofs.CborDecode.
Ltac Zify.zify_post_hook ::= Z.div_mod_to_equations.
Open Scope N_scope.

(* ---- size side conditions --------------------------------------------------- *)
Definition opt_len_lt (B : N) (v : option bytes) : Prop :=
  match v with Some b => lenN b < B | None => True end.
Definition aug_lt (B : N) (a : augcert) : Prop :=
  lenN (ac_cert a) < B /\ opt_len_lt B (ac_ocsp a) /\ opt_len_lt B (ac_sct a).

Lemma opt_len_lt_mono (B B' : N) (v : option bytes) :
  B <= B' -> opt_len_lt B v -> opt_len_lt B' v.
Proof. destruct v as [b|]; cbn [opt_len_lt]; [lia|trivial]. Qed.

Lemma aug_lt_mono (B B' : N) (a : augcert) : B <= B' -> aug_lt B a -> aug_lt B' a.
Proof.
  intros Hle [H1 [H2 H3]]. split; [lia|].
  split; eapply opt_len_lt_mono; eassumption.
Qed.

(* ---- the spec's magic is the Go constant -------------------------------------- *)
Lemma magic_eq : magic = cc_magic.
Proof. vm_compute. reflexivity. Qed.

Lemma magic_bytes : magic = [240; 159; 147; 156; 226; 155; 147].
Proof. vm_compute. reflexivity. Qed.

Lemma magic_utf8 : Utf8Valid magic.
Proof.
  exists [128220; 9939]. split; [|vm_compute; reflexivity].
  repeat constructor; unfold scalar; lia.
Qed.

Lemma key_utf8 (k : string) : In k ["cert"; "ocsp"; "sct"]%string -> Utf8Valid (s2b k).
Proof.
  intros Hin. apply utf8_dfa_correct.
  cbn [In] in Hin. destruct Hin as [E|[E|[E|[]]]]; subst k; vm_compute; reflexivity.
Qed.

(* ---- EncodeTo: explicit output ------------------------------------------------ *)
Definition fieldb (k : string) (v : option bytes) : bytes :=
  match v with Some b => enc_bytes_of MText (s2b k) ++ enc_bytes b | None => [] end.

Definition aug_bytes (a : augcert) : bytes :=
  enc_map_header (1 + present (ac_ocsp a) + present (ac_sct a))
  ++ fieldb "sct" (ac_sct a)
  ++ (enc_bytes_of MText (s2b "cert") ++ enc_bytes (ac_cert a))
  ++ fieldb "ocsp" (ac_ocsp a).

(* the three keys are distinct, so EncodeMap never reports a duplicate; the
   sort puts "sct" first and "ocsp" last *)
Lemma encode_augcert_ok (a : augcert) : encode_augcert a = Ok (aug_bytes a).
Proof.
  destruct a as [ce [o|] [s|]];
    unfold encode_augcert, aug_bytes, fieldb, opt_entry;
    cbn [ac_cert ac_ocsp ac_sct].
  - generalize (enc_bytes ce) (enc_bytes o) (enc_bytes s). intros x y z.
    vm_compute. repeat f_equal; try apply app_nil_r.
  - generalize (enc_bytes ce) (enc_bytes o). intros x y.
    vm_compute. repeat f_equal; try apply app_nil_r.
  - generalize (enc_bytes ce) (enc_bytes s). intros x z.
    vm_compute. repeat f_equal; try apply app_nil_r.
  - generalize (enc_bytes ce). intros x.
    vm_compute. repeat f_equal; try apply app_nil_r.
Qed.

Lemma encode_all_ok (l : list augcert) : encode_all l = Ok (flat_map aug_bytes l).
Proof.
  induction l as [|a t IH]; cbn [encode_all flat_map]; [reflexivity|].
  rewrite encode_augcert_ok, IH. reflexivity.
Qed.

Definition chain_bytes (c : list augcert) : bytes :=
  enc_array_header (lenN c + 1) ++ enc_bytes_of MText cc_magic ++ flat_map aug_bytes c.

Lemma cc_write_ok (c : list augcert) : validate c = true -> cc_write c = Ok (chain_bytes c).
Proof.
  intros Hv. unfold cc_write. rewrite Hv. cbn [negb].
  rewrite encode_all_ok. reflexivity.
Qed.

Lemma cc_write_invalid (c : list augcert) : validate c = false -> cc_write c = Err.
Proof. intros Hv. unfold cc_write. rewrite Hv. reflexivity. Qed.

Lemma cc_write_cases (c : list augcert) :
  (validate c = true /\ cc_write c = Ok (chain_bytes c)) \/
  (validate c = false /\ cc_write c = Err).
Proof.
  destruct (validate c) eqn:Hv; [left|right]; split; try reflexivity.
  - apply cc_write_ok. exact Hv.
  - apply cc_write_invalid. exact Hv.
Qed.

Lemma write_validates (c : list augcert) (bs : bytes) :
  cc_write c = Ok bs -> validate c = true /\ bs = chain_bytes c.
Proof.
  intros H. destruct (cc_write_cases c) as [[Hv E]|[Hv E]]; rewrite E in H.
  - inversion H. split; [exact Hv|reflexivity].
  - discriminate.
Qed.

Lemma cc_write_ok_iff (c : list augcert) :
  (exists bs, cc_write c = Ok bs) <-> validate c = true.
Proof.
  split.
  - intros [bs H]. apply write_validates in H. apply H.
  - intros Hv. eexists. apply cc_write_ok. exact Hv.
Qed.

Lemma cc_write_err_iff (c : list augcert) : cc_write c = Err <-> validate c = false.
Proof.
  destruct (cc_write_cases c) as [[Hv E]|[Hv E]]; rewrite E, Hv; split; congruence.
Qed.

Lemma cc_write_total (c : list augcert) : ok_or_err (cc_write c).
Proof. destruct (cc_write_cases c) as [[_ E]|[_ E]]; rewrite E; exact I. Qed.

(* ---- validate, declaratively --------------------------------------------------- *)
Lemma validate_tail_iff (l : list augcert) :
  validate_tail l = true <-> Forall (fun x => ac_ocsp x = None) l.
Proof.
  induction l as [|a t IH]; cbn [validate_tail].
  - split; [constructor|reflexivity].
  - destruct (ac_ocsp a) as [o|] eqn:E.
    + split; [discriminate|]. intros H. inversion H; subst. congruence.
    + rewrite IH. split; [intros H; constructor; assumption|].
      intros H. inversion H; subst. assumption.
Qed.

Lemma validate_iff (c : list augcert) : validate c = true <-> OcspFirstOnly c.
Proof.
  unfold validate, OcspFirstOnly. destruct c as [|a t].
  - split; [discriminate|]. intros [a [t [E _]]]. discriminate.
  - destruct (ac_ocsp a) as [o|] eqn:E.
    + rewrite validate_tail_iff. split.
      * intros H. exists a, t. split; [reflexivity|]. split; [congruence|exact H].
      * intros [a' [t' [E' [_ H]]]]. inversion E'; subst. exact H.
    + split; [discriminate|]. intros [a' [t' [E' [H _]]]]. inversion E'; subst. contradiction.
Qed.

(* ---- the output is the canonical form ------------------------------------------ *)
Lemma enc_text_tok (s : bytes) : enc_bytes_of MText s = senc_token (TText s).
Proof.
  unfold enc_bytes_of. cbn [senc_token].
  rewrite typed_uint_senc_head by (split; reflexivity). reflexivity.
Qed.

Lemma enc_bytes_tok (s : bytes) : enc_bytes s = senc_token (TBytes s).
Proof.
  unfold enc_bytes, enc_bytes_of. cbn [senc_token].
  rewrite typed_uint_senc_head by (split; reflexivity). reflexivity.
Qed.

Lemma enc_map_header_tok (n : N) : enc_map_header n = senc_token (TMap n).
Proof.
  unfold enc_map_header. cbn [senc_token].
  rewrite typed_uint_senc_head by (split; reflexivity). reflexivity.
Qed.

Lemma enc_array_header_tok (n : N) : enc_array_header n = senc_token (TArr n).
Proof.
  unfold enc_array_header. cbn [senc_token].
  rewrite typed_uint_senc_head by (split; reflexivity). reflexivity.
Qed.

Lemma senc_tokens_cons (t : token) (l : list token) :
  senc_tokens (t :: l) = senc_token t ++ senc_tokens l.
Proof. reflexivity. Qed.

Lemma fieldb_tokens (k : string) (v : option bytes) : fieldb k v = senc_tokens (field k v).
Proof.
  destruct v as [b|]; cbn [fieldb field]; [|reflexivity].
  unfold key. rewrite !senc_tokens_cons, enc_text_tok, enc_bytes_tok.
  cbn [senc_tokens flat_map]. rewrite app_nil_r. reflexivity.
Qed.

Lemma aug_bytes_tokens (a : augcert) : aug_bytes a = senc_tokens (cert_tokens a).
Proof.
  unfold aug_bytes, cert_tokens.
  rewrite senc_tokens_cons, !senc_tokens_app, !fieldb_tokens, enc_map_header_tok.
  unfold key. rewrite !senc_tokens_cons, enc_text_tok, enc_bytes_tok.
  cbn [senc_tokens flat_map]. rewrite !app_nil_r, <- !app_assoc. reflexivity.
Qed.

Lemma chain_bytes_tokens (c : list augcert) : chain_bytes c = senc_tokens (chain_tokens c).
Proof.
  unfold chain_bytes, chain_tokens.
  rewrite !senc_tokens_cons, enc_array_header_tok, enc_text_tok, magic_eq.
  do 2 f_equal.
  induction c as [|a t IH]; cbn [flat_map]; [reflexivity|].
  rewrite senc_tokens_app, aug_bytes_tokens, IH. reflexivity.
Qed.

Theorem chain_form (c : list augcert) (bs : bytes) : cc_write c = Ok bs -> Form bs c.
Proof.
  intros H. apply write_validates in H. destruct H as [_ E]. subst bs.
  unfold Form. apply chain_bytes_tokens.
Qed.

(* the key order used by Form is the bytewise order of the encoded keys, and
   the keys are pairwise distinct *)
Lemma keys_ascending :
  blt (senc_token (key "sct")) (senc_token (key "cert")) /\
  blt (senc_token (key "cert")) (senc_token (key "ocsp")) /\
  senc_token (key "sct") = [99; 115; 99; 116] /\
  senc_token (key "cert") = [100; 99; 101; 114; 116] /\
  senc_token (key "ocsp") = [100; 111; 99; 115; 112].
Proof.
  split; [apply blt_cmp; vm_compute; reflexivity|].
  split; [apply blt_cmp; vm_compute; reflexivity|].
  repeat split; vm_compute; reflexivity.
Qed.

(* ---- the tokens are writable, so the independent tokeniser reads them back ---- *)
Lemma field_wf (k : string) (v : option bytes) :
  In k ["cert"; "ocsp"; "sct"]%string -> opt_len_lt two64 v -> Forall tok_wf (field k v).
Proof.
  intros Hk Hv. destruct v as [b|]; cbn [field]; [|constructor].
  cbn [opt_len_lt] in Hv. unfold key.
  constructor; [split; [|apply key_utf8; exact Hk]|constructor; [split; [exact Hv|exact I]|constructor]].
  cbn [tok_arg]. cbn [In] in Hk.
  destruct Hk as [E|[E|[E|[]]]]; subst k; vm_compute; reflexivity.
Qed.

Lemma cert_tokens_wf (a : augcert) : aug_lt two64 a -> Forall tok_wf (cert_tokens a).
Proof.
  intros [H1 [H2 H3]]. unfold cert_tokens. constructor.
  - split; [|exact I]. cbn [tok_arg].
    assert (Hp : forall v, present v <= 1) by (intros [x|]; cbn [present]; lia).
    pose proof (Hp (ac_ocsp a)). pose proof (Hp (ac_sct a)). unfold two64. lia.
  - apply Forall_app. split; [apply field_wf; [cbn; tauto|exact H3]|].
    apply Forall_app. split; [|apply field_wf; [cbn; tauto|exact H2]].
    constructor; [|constructor; [split; [exact H1|exact I]|constructor]].
    unfold key. split; [vm_compute; reflexivity|]. apply key_utf8. cbn. tauto.
Qed.

Lemma chain_tokens_wf (c : list augcert) :
  lenN c + 1 < two64 -> Forall (aug_lt two64) c -> Forall tok_wf (chain_tokens c).
Proof.
  intros Hn Hc. unfold chain_tokens.
  constructor; [split; [exact Hn|exact I]|].
  constructor; [split; [rewrite magic_bytes; vm_compute; reflexivity|exact magic_utf8]|].
  clear Hn. induction Hc as [|a t Ha Ht IH]; cbn [flat_map]; [constructor|].
  apply Forall_app. split; [apply cert_tokens_wf; exact Ha|exact IH].
Qed.

(* canonical CBOR: the independent tokeniser reads exactly the expected tokens,
   every head in its minimal width *)
Theorem chain_canonical (c : list augcert) (bs : bytes) :
  cc_write c = Ok bs ->
  Form bs c /\
  (lenN c + 1 < two64 -> Forall (aug_lt two64) c ->
   exists toks, stokens bs = Some toks /\ Forall tok_shortest toks /\
                map fst toks = chain_tokens c).
Proof.
  intros H. pose proof (chain_form c bs H) as HF. split; [exact HF|].
  intros Hn Hc. exists (map with_width (chain_tokens c)).
  split; [|split; [apply with_width_shortest|apply with_width_fst]].
  rewrite HF. apply stokens_senc_tokens. apply chain_tokens_wf; assumption.
Qed.

(* only bytes are written when the components are bytes *)
Lemma senc_head_wfb (mt n : N) : mt < 8 -> n < two64 -> wfb (senc_head mt n).
Proof.
  intros Hm Hn.
  assert (E : senc_head mt n = typed_uint (32 * mt) n).
  { rewrite typed_uint_senc_head by (split; lia).
    replace (32 * mt / 32) with mt by lia. reflexivity. }
  rewrite E. apply typed_uint_wfb; [split; lia|exact Hn].
Qed.
