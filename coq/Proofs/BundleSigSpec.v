(* Proofs/BundleSigSpec.v - C06, part 5: the model meets Spec/BundleSig.v:
   SignedSubset.Encode writes the deterministic token encoding of the
   signed-subset map; generateSignedMessage is the spec's message;
   verifyTimestamps is the spec's window. *)
From Coq Require Import Lia ZifyN ZifyNat ZifyBool Permutation Sorted.
From WP Require Import Base.Prelude Model.Cbor Model.Http Model.Url Model.Mice Model.CertChain
  Model.Bundle Model.Sxg Model.BundleSig.
From WP Require Import Spec.Cbor Spec.BundleSig Spec.SxgPolicy.
From WP Require Import Proofs.BaseLemmas Proofs.CborHead Proofs.CborMap Proofs.CborTokens.
From WP Require Import Proofs.IntegrityBlockBase Proofs.IntegrityBlockSpec.
From WP Require Import Proofs.BundleSigBase Proofs.BundleSigRoundtrip.
From WP Require Proofs.SxgVerifyMsg Proofs.SxgVerifySound.
Ltac Zify.zify_post_hook ::= Z.div_mod_to_equations.
Open Scope N_scope.

Definition srint_of (r : res_integrity) : srint := (ri_hsha r, ri_integ r).
Definition sentry_of (e : hentry) : sentry :=
  (fst e, (rh_variants (snd e), map srint_of (rh_hashes (snd e)))).
Definition ssubset_of (s : signed_subset) : ssubset :=
  {| v_validity := ss_validity s; v_auth := ss_auth s; v_date := Z.to_N (ss_date s);
     v_expires := Z.to_N (ss_expires s); v_hashes := map sentry_of (ss_hashes s) |}.

Lemma enc_int_token (z : Z) : (0 <= z)%Z -> enc_int z = senc_token (TUint (Z.to_N z)).
Proof.
  intros Hz. unfold enc_int. replace (0 <=? z)%Z with true by lia.
  rewrite (typed_uint_senc_head TPos) by (split; reflexivity). reflexivity.
Qed.

Lemma tkey_token (k : string) : tkey k = senc_token (key k).
Proof. unfold tkey, key. apply enc_text_token_bytes. Qed.

Lemma pairs_tokens (l : list res_integrity) :
  flat_map pair_bytes l = senc_tokens (flat_map rint_tokens (map srint_of l)).
Proof.
  induction l as [|r t IH]; [reflexivity|].
  rewrite flat_pair_cons. cbn [map flat_map]. rewrite senc_tokens_app, <- IH.
  unfold rint_tokens, srint_of. cbn [fst snd]. rewrite !senc_tokens_cons.
  rewrite enc_bytes_token_bytes, enc_text_token_bytes.
  unfold senc_tokens at 1. cbn [flat_map]. rewrite app_nil_r, <- app_assoc. reflexivity.
Qed.

Lemma entries_tokens (l : list hentry) :
  flat_map ent_bytes l = senc_tokens (flat_map entry_tokens (map sentry_of l)).
Proof.
  induction l as [|[u rh] t IH]; [reflexivity|].
  rewrite flat_ent_cons. cbn [map flat_map]. rewrite senc_tokens_app, <- IH.
  unfold entry_tokens, sentry_of. cbn [fst snd]. rewrite !senc_tokens_cons, <- pairs_tokens.
  rewrite enc_text_token_bytes, enc_array_header_token, enc_bytes_token_bytes.
  rewrite lenN_map, (N.mul_comm 2). rewrite <- !app_assoc. reflexivity.
Qed.

Lemma top_bytes_tokens (s : signed_subset) (sh : list hentry) :
  (0 <= ss_date s)%Z -> (0 <= ss_expires s)%Z ->
  top_bytes s sh = senc_tokens (subset_tokens (with_entries (ssubset_of s) (map sentry_of sh))).
Proof.
  intros Hd Hx. unfold top_bytes, subset_tokens, inner_bytes.
  cbn [with_entries ssubset_of v_validity v_auth v_date v_expires v_hashes].
  rewrite senc_tokens_app, <- entries_tokens, lenN_map.
  unfold senc_tokens at 1. cbn [flat_map].
  rewrite <- !tkey_token, <- (enc_int_token _ Hd), <- (enc_int_token _ Hx).
  change (senc_token (TMap 5)) with [165].
  rewrite <- enc_bytes_token_bytes, <- enc_text_token_bytes, <- enc_map_header_token.
  rewrite app_nil_r, <- !app_assoc. reflexivity.
Qed.

Lemma hashes_sorted_of (sh : list hentry) : url_sorted sh -> hashes_sorted (map sentry_of sh).
Proof.
  unfold url_sorted, hashes_sorted. induction 1 as [|e t HS IH HF]; cbn [map]; constructor; [exact IH|].
  apply Forall_map. eapply Forall_impl; [|exact HF]. intros y Hy.
  unfold sentry_of at 1 2. cbn [fst]. rewrite <- !enc_text_token_bytes. exact Hy.
Qed.

(* Encode writes the deterministic encoding of the signed-subset map *)
Theorem encode_subset_spec (s : signed_subset) (bs : bytes) :
  (0 <= ss_date s)%Z -> (0 <= ss_expires s)%Z ->
  encode_subset s = Ok bs -> SubsetBytes (ssubset_of s) bs.
Proof.
  intros Hd Hx He. apply encode_subset_ok in He. destruct He as [sh [HP [HS [_ [_ [_ ->]]]]]].
  exists (map sentry_of sh). split; [apply Permutation_map; exact HP|].
  split; [apply hashes_sorted_of; exact HS|]. apply top_bytes_tokens; assumption.
Qed.

Theorem signed_message_spec (signed : bytes) (v : bversion) :
  generate_signed_message signed v =
  signed_message (match v with BV1 => false | BV2 => true end) signed.
Proof. destruct v; reflexivity. Qed.

Lemma Window_InWindow (d x tsec tnsec : Z) : Window d x tsec tnsec <-> InWindow d x tsec tnsec.
Proof. unfold Window, InWindow, nano. reflexivity. Qed.

(* verifyTimestamps is the window, for int64 date / expires and a
   verification time within 2^62 seconds of the epoch *)
Theorem verify_timestamps_window (d x tsec tnsec : Z) :
  SxgVerifyMsg.i64 d -> SxgVerifyMsg.i64 x -> SxgVerifySound.time_ok tsec tnsec ->
  (verify_timestamps d x tsec tnsec = true <-> Window d x tsec tnsec).
Proof.
  intros Hd Hx Ht. rewrite Window_InWindow. apply SxgVerifySound.verify_timestamps_spec; assumption.
Qed.
