(* Proofs/TruncationBase.v - "a source that stops early": the framework and the
   CBOR decoder (C12).

   A stream parser  f : bytes -> R (A * bytes)  (value, unread rest) is
   *truncation-exact* (Tr f) when every success  f bs = Ok (v, rest)  consumed a
   definite head h (bs = h ++ rest) such that
     - the answer does not depend on what follows h:  f (h ++ x) = Ok (v, x), and
     - every strict prefix of h is REFUSED:            f h' = Err.
   Hence (Tr_short / Tr_long) for every cut position p:
     p <  |h|  ->  f (firstn p bs) = Err
     p >= |h|  ->  f (firstn p bs) = Ok (v, firstn (p - |h|) rest)
   so a truncated item is never mistaken for a different value, never panics
   and never spins.  Tr is closed under sequencing (Tr_bind), value checks
   (Tr_if / Tr_fail / Tr_ret / Tr_cbind) and - for loops whose fuel is computed
   from the input length - under Tr_fuel.  The five CBOR decode calls are Tr. *)
From Coq Require Import Lia ZifyN ZifyNat ZifyBool.
From WP Require Import Base.Prelude Model.Cbor Proofs.BaseLemmas Proofs.CborDecode.
Open Scope N_scope.

(* ---- firstn against lenN / splitN --------------------------------------------- *)
Lemma lenN_firstn {A} (p : nat) (l : list A) :
  lenN (firstn p l) = N.min (N.of_nat p) (lenN l).
Proof. rewrite !lenN_length, firstn_length. lia. Qed.

Lemma firstn_skipn_nonnil {A} (p : nat) (l : list A) : (p < List.length l)%nat -> skipn p l <> [].
Proof.
  intros Hp Z. apply (f_equal (@List.length A)) in Z. rewrite skipn_length in Z.
  cbn [List.length] in Z. lia.
Qed.

Lemma splitN_firstn_short {A} (l : list A) (n : N) (a b : list A) (p : nat) :
  splitN l n = Some (a, b) -> (p < List.length a)%nat -> splitN (firstn p l) n = None.
Proof.
  intros H Hp. apply splitN_spec in H. destruct H as [E L]. apply splitN_none_iff.
  rewrite lenN_firstn. rewrite lenN_length in L. lia.
Qed.

Lemma splitN_firstn_long {A} (l : list A) (n : N) (a b : list A) (p : nat) :
  splitN l n = Some (a, b) -> (List.length a <= p)%nat ->
  splitN (firstn p l) n = Some (a, firstn (p - List.length a) b).
Proof.
  intros H Hp. apply splitN_spec in H. destruct H as [E L]. subst l n.
  rewrite firstn_app, (firstn_all2 a) by lia. apply splitN_app.
Qed.

(* ---- truncation-exact stream parsers ------------------------------------------- *)
Definition Tr {A} (f : bytes -> R (A * bytes)) : Prop :=
  forall bs v rest, f bs = Ok (v, rest) ->
    exists h, bs = h ++ rest /\
      (forall x, f (h ++ x) = Ok (v, x)) /\
      (forall h' t, h = h' ++ t -> t <> [] -> f h' = Err).

Lemma Tr_ext {A} (f g : bytes -> R (A * bytes)) : (forall bs, f bs = g bs) -> Tr f -> Tr g.
Proof.
  intros E Hf bs v rest H. rewrite <- E in H. destruct (Hf _ _ _ H) as [h [E1 [X Sp]]].
  exists h. split; [exact E1|]. split.
  - intros x. rewrite <- E. apply X.
  - intros h' t Eh Ht. rewrite <- E. eapply Sp; eassumption.
Qed.

Lemma Tr_ret {A} (v : A) : Tr (fun bs => Ok (v, bs)).
Proof.
  intros bs v' rest H. inversion H; subst. exists []. split; [reflexivity|]. split.
  - intros x. reflexivity.
  - intros h' t Eh Ht. destruct h'; destruct t; try discriminate. contradiction.
Qed.

Lemma Tr_fail {A} : Tr (fun _ : bytes => @Err (A * bytes)).
Proof. intros bs v rest H. discriminate. Qed.

Lemma Tr_if {A} (c : bool) (f g : bytes -> R (A * bytes)) :
  Tr f -> Tr g -> Tr (fun bs => if c then f bs else g bs).
Proof. destruct c; intros Hf Hg; assumption. Qed.

Lemma Tr_bind {A B} (f : bytes -> R (A * bytes)) (g : A -> bytes -> R (B * bytes)) :
  Tr f -> (forall a, Tr (g a)) -> Tr (fun bs => let* (a, r) := f bs in g a r).
Proof.
  intros Hf Hg bs v rest H.
  destruct (f bs) as [[a r]| | |] eqn:E; cbn [bind] in H; try discriminate.
  destruct (Hf _ _ _ E) as [h1 [E1 [X1 Sp1]]].
  destruct (Hg a _ _ _ H) as [h2 [E2 [X2 Sp2]]].
  exists (h1 ++ h2). split; [subst bs r; rewrite <- app_assoc; reflexivity|]. split.
  - intros x. rewrite <- app_assoc, X1. cbn [bind]. apply X2.
  - intros h' t Eh Ht. apply app_eq_app in Eh. destruct Eh as [l [[Ea Eb]|[Ea Eb]]].
    + (* h1 = h' ++ l *)
      destruct l as [|c l].
      * rewrite app_nil_r in Ea. subst h'. cbn [app] in Eb. subst t.
        rewrite <- (app_nil_r h1), X1. cbn [bind]. apply (Sp2 [] h2); [reflexivity|exact Ht].
      * rewrite (Sp1 h' (c :: l) Ea) by discriminate. reflexivity.
    + (* h' = h1 ++ l, h2 = l ++ t *)
      subst h'. rewrite X1. cbn [bind]. apply (Sp2 l t); [exact Eb|exact Ht].
Qed.

(* a check on values already read, between two reads *)
Lemma Tr_cbind {X A} (c : R X) (k : X -> bytes -> R (A * bytes)) :
  (forall x, Tr (k x)) -> Tr (fun bs => let* x := c in k x bs).
Proof.
  intros Hk. destruct c as [x| | |]; cbn [bind]; try (intros bs v rest H; discriminate).
  apply Hk.
Qed.

(* the two readings of Tr at a cut position *)
Lemma Tr_short {A} (f : bytes -> R (A * bytes)) : Tr f ->
  forall bs v rest p, f bs = Ok (v, rest) ->
  (p < List.length bs - List.length rest)%nat -> f (firstn p bs) = Err.
Proof.
  intros Hf bs v rest p H Hp. destruct (Hf _ _ _ H) as [h [E [X Sp]]]. subst bs.
  rewrite app_length in Hp. rewrite firstn_app.
  replace (p - List.length h)%nat with 0%nat by lia. cbn [firstn]. rewrite app_nil_r.
  apply (Sp (firstn p h) (skipn p h)); [symmetry; apply firstn_skipn|].
  apply firstn_skipn_nonnil. lia.
Qed.

Lemma Tr_long {A} (f : bytes -> R (A * bytes)) : Tr f ->
  forall bs v rest p, f bs = Ok (v, rest) ->
  (List.length bs - List.length rest <= p)%nat ->
  f (firstn p bs) = Ok (v, firstn (p - (List.length bs - List.length rest)) rest).
Proof.
  intros Hf bs v rest p H Hp. destruct (Hf _ _ _ H) as [h [E [X Sp]]]. subst bs.
  rewrite app_length in *.
  replace (List.length h + List.length rest - List.length rest)%nat with (List.length h) in * by lia.
  rewrite firstn_app, (firstn_all2 h) by lia. apply X.
Qed.

(* success on a prefix is success on the whole, same value *)
Lemma Tr_prefix_ok {A} (f : bytes -> R (A * bytes)) : Tr f ->
  forall bs v r p, f (firstn p bs) = Ok (v, r) -> f bs = Ok (v, r ++ skipn p bs).
Proof.
  intros Hf bs v r p H. destruct (Hf _ _ _ H) as [h [E [X Sp]]].
  rewrite <- (firstn_skipn p bs) at 1. rewrite E, <- app_assoc. apply X.
Qed.

Lemma Tr_consumed {A} (f : bytes -> R (A * bytes)) : Tr f ->
  forall bs v rest, f bs = Ok (v, rest) -> (List.length rest <= List.length bs)%nat.
Proof.
  intros Hf bs v rest H. destruct (Hf _ _ _ H) as [h [E _]]. subst bs. rewrite app_length. lia.
Qed.

(* ---- loops whose fuel is computed from the input --------------------------------- *)
Lemma Tr_fuel {A} (loop : nat -> bytes -> R (A * bytes)) :
  (forall f f' bs, (f <= f')%nat -> loop f bs <> Fuel -> loop f' bs = loop f bs) ->
  (forall f bs, (List.length bs < f)%nat -> loop f bs <> Fuel) ->
  (forall f, Tr (loop f)) ->
  Tr (fun bs => loop (S (List.length bs)) bs).
Proof.
  intros St Su Ht.
  assert (Irr : forall f bs, (List.length bs < f)%nat -> loop f bs = loop (S (List.length bs)) bs).
  { intros f bs Hf. apply St; [lia|]. apply Su. lia. }
  intros bs v rest H. destruct (Ht _ _ _ _ H) as [h [E [X Sp]]].
  exists h. split; [exact E|]. split.
  - intros x. destruct (Nat.le_gt_cases (S (List.length bs)) (S (List.length (h ++ x)))) as [Hle|Hgt].
    + rewrite (St _ _ (h ++ x) Hle); [apply X|]. rewrite X. discriminate.
    + rewrite <- (Irr (S (List.length bs))) by lia. apply X.
  - intros h' t Eh Hne.
    assert (Hl : (List.length h' < S (List.length bs))%nat).
    { subst bs h. rewrite !app_length. lia. }
    rewrite <- (Irr _ _ Hl). eapply Sp; eassumption.
Qed.

(* ---- primitives --------------------------------------------------------------------- *)
Lemma Tr_split (n : N) : Tr (fun bs : bytes => of_opt (splitN bs n)).
Proof.
  intros bs v rest H. destruct (splitN bs n) as [[a b]|] eqn:Hs; [|discriminate].
  cbn [of_opt] in H. inversion H; subst a b. apply splitN_spec in Hs. destruct Hs as [E L].
  exists v. split; [exact E|]. split.
  - intros x. subst n. rewrite splitN_app. reflexivity.
  - intros h' t Eh Ht.
    assert (Hn : splitN h' n = None).
    { apply splitN_none_iff. subst v n. rewrite lenN_app. destruct t; [contradiction|].
      cbn [lenN]. lia. }
    rewrite Hn. reflexivity.
Qed.

Lemma Tr_byte : Tr (fun bs : bytes => match bs with [] => Err | b :: r => Ok (b, r) end).
Proof.
  intros bs v rest H. destruct bs as [|b r]; [discriminate|]. inversion H; subst.
  exists [v]. split; [reflexivity|]. split.
  - intros x. reflexivity.
  - intros h' t Eh Ht. destruct h' as [|c h'']; [reflexivity|].
    destruct h''; [|discriminate]. destruct t; [contradiction|discriminate].
Qed.

(* ---- the CBOR decoder ------------------------------------------------------------------ *)
Lemma Tr_decode_typed_uint : Tr decode_typed_uint.
Proof.
  apply (Tr_ext (fun bs =>
    let* (b, r) := match bs with [] => Err | b :: r => Ok (b, r) end in
    (fun b r =>
       if addinfo b <? 24 then Ok (major b, addinfo b, r)
       else if 27 <? addinfo b then Err
       else let* (f, r') := of_opt (splitN r (nfollow_of (addinfo b))) in
            (fun f r' => Ok (major b, unbe f, r')) f r') b r)).
  - intros [|b r]; [reflexivity|]. cbn [bind]. unfold decode_typed_uint. cbv zeta.
    destruct (addinfo b <? 24); [reflexivity|]. destruct (27 <? addinfo b); [reflexivity|].
    destruct (splitN r (nfollow_of (addinfo b))) as [[f r']|]; reflexivity.
  - apply Tr_bind; [exact Tr_byte|]. intros b.
    apply Tr_if; [apply (Tr_ret (major b, addinfo b))|].
    apply Tr_if; [apply Tr_fail|].
    apply Tr_bind; [apply Tr_split|]. intros f. apply (Tr_ret (major b, unbe f)).
Qed.

Lemma Tr_decode_of_type (t : N) : Tr (decode_of_type t).
Proof.
  apply (Tr_ext (fun bs =>
    let* (tn, r) := decode_typed_uint bs in
    (fun tn r => if fst tn =? t then Ok (snd tn, r) else Err) tn r)).
  - intros bs. unfold decode_of_type.
    destruct (decode_typed_uint bs) as [[[t' n] r]| | |]; reflexivity.
  - apply Tr_bind; [exact Tr_decode_typed_uint|]. intros tn.
    apply Tr_if; [apply (Tr_ret (snd tn))|apply Tr_fail].
Qed.

Lemma Tr_decode_uint : Tr decode_uint. Proof. apply Tr_decode_of_type. Qed.
Lemma Tr_decode_array_header : Tr decode_array_header. Proof. apply Tr_decode_of_type. Qed.
Lemma Tr_decode_map_header : Tr decode_map_header. Proof. apply Tr_decode_of_type. Qed.

Lemma Tr_decode_bytes_of_type (t : N) : Tr (decode_bytes_of_type t).
Proof.
  apply (Tr_ext (fun bs =>
    let* (n, r) := decode_of_type t bs in
    (fun n r => if two63 <=? n then Err else of_opt (splitN r n)) n r)).
  - intros bs. unfold decode_bytes_of_type.
    destruct (decode_of_type t bs) as [[n r]| | |]; cbn [bind]; try reflexivity.
    destruct (two63 <=? n); [reflexivity|]. destruct (splitN r n) as [[s r']|]; reflexivity.
  - apply Tr_bind; [apply Tr_decode_of_type|]. intros n.
    apply Tr_if; [apply Tr_fail|apply Tr_split].
Qed.

Lemma Tr_decode_bytes : Tr decode_bytes. Proof. apply Tr_decode_bytes_of_type. Qed.

Lemma Tr_decode_text : Tr decode_text.
Proof.
  apply (Tr_ext (fun bs =>
    let* (s, r) := decode_bytes_of_type TText bs in
    (fun s r => if utf8_valid s then Ok (s, r) else Err) s r)).
  - intros bs. unfold decode_text.
    destruct (decode_bytes_of_type TText bs) as [[s r]| | |]; reflexivity.
  - apply Tr_bind; [apply Tr_decode_bytes_of_type|]. intros s.
    apply Tr_if; [apply (Tr_ret s)|apply Tr_fail].
Qed.

(* ---- C12, truncation: the statements exported by Properties/Truncation.v ------------- *)
(* [consumed bs rest] = number of bytes the successful call took from bs *)
Definition consumed (bs rest : bytes) : nat := (List.length bs - List.length rest)%nat.

Section Exported.
  Context {A : Type} (f : bytes -> R (A * bytes)) (Hf : Tr f).

  Theorem truncated_refused (bs : bytes) (v : A) (rest : bytes) (p : nat) :
    f bs = Ok (v, rest) -> (p < consumed bs rest)%nat -> f (firstn p bs) = Err.
  Proof. intros H Hp. eapply Tr_short; eassumption. Qed.

  Theorem complete_same_value (bs : bytes) (v : A) (rest : bytes) (p : nat) :
    f bs = Ok (v, rest) -> (consumed bs rest <= p)%nat ->
    f (firstn p bs) = Ok (v, firstn (p - consumed bs rest) rest).
  Proof. intros H Hp. eapply Tr_long; eassumption. Qed.

  (* consumed is the length of a real head of the input *)
  Theorem consumed_head (bs : bytes) (v : A) (rest : bytes) :
    f bs = Ok (v, rest) ->
    exists h, bs = h ++ rest /\ List.length h = consumed bs rest /\
              forall x, f (h ++ x) = Ok (v, x).
  Proof.
    intros H. destruct (Hf _ _ _ H) as [h [E [X _]]]. exists h. split; [exact E|].
    split; [|exact X]. unfold consumed. subst bs. rewrite app_length. lia.
  Qed.
End Exported.

Theorem decode_uint_truncated : forall bs n rest p,
  decode_uint bs = Ok (n, rest) -> (p < consumed bs rest)%nat -> decode_uint (firstn p bs) = Err.
Proof. exact (truncated_refused _ Tr_decode_uint). Qed.

Theorem decode_array_header_truncated : forall bs n rest p,
  decode_array_header bs = Ok (n, rest) -> (p < consumed bs rest)%nat ->
  decode_array_header (firstn p bs) = Err.
Proof. exact (truncated_refused _ Tr_decode_array_header). Qed.

Theorem decode_map_header_truncated : forall bs n rest p,
  decode_map_header bs = Ok (n, rest) -> (p < consumed bs rest)%nat ->
  decode_map_header (firstn p bs) = Err.
Proof. exact (truncated_refused _ Tr_decode_map_header). Qed.

Theorem decode_bytes_truncated : forall bs s rest p,
  decode_bytes bs = Ok (s, rest) -> (p < consumed bs rest)%nat -> decode_bytes (firstn p bs) = Err.
Proof. exact (truncated_refused _ Tr_decode_bytes). Qed.

Theorem decode_text_truncated : forall bs s rest p,
  decode_text bs = Ok (s, rest) -> (p < consumed bs rest)%nat -> decode_text (firstn p bs) = Err.
Proof. exact (truncated_refused _ Tr_decode_text). Qed.

(* the item complete, the cut somewhere behind it: the same value *)
Theorem decode_uint_cut_behind : forall bs n rest p,
  decode_uint bs = Ok (n, rest) -> (consumed bs rest <= p)%nat ->
  decode_uint (firstn p bs) = Ok (n, firstn (p - consumed bs rest) rest).
Proof. exact (complete_same_value _ Tr_decode_uint). Qed.

Theorem decode_array_header_cut_behind : forall bs n rest p,
  decode_array_header bs = Ok (n, rest) -> (consumed bs rest <= p)%nat ->
  decode_array_header (firstn p bs) = Ok (n, firstn (p - consumed bs rest) rest).
Proof. exact (complete_same_value _ Tr_decode_array_header). Qed.

Theorem decode_map_header_cut_behind : forall bs n rest p,
  decode_map_header bs = Ok (n, rest) -> (consumed bs rest <= p)%nat ->
  decode_map_header (firstn p bs) = Ok (n, firstn (p - consumed bs rest) rest).
Proof. exact (complete_same_value _ Tr_decode_map_header). Qed.

Theorem decode_bytes_cut_behind : forall bs s rest p,
  decode_bytes bs = Ok (s, rest) -> (consumed bs rest <= p)%nat ->
  decode_bytes (firstn p bs) = Ok (s, firstn (p - consumed bs rest) rest).
Proof. exact (complete_same_value _ Tr_decode_bytes). Qed.

Theorem decode_text_cut_behind : forall bs s rest p,
  decode_text bs = Ok (s, rest) -> (consumed bs rest <= p)%nat ->
  decode_text (firstn p bs) = Ok (s, firstn (p - consumed bs rest) rest).
Proof. exact (complete_same_value _ Tr_decode_text). Qed.

(* what the encoder wrote, cut anywhere inside: refused *)
Theorem enc_uint_truncated : forall n rest p,
  n < two64 -> (p < List.length (enc_uint n))%nat ->
  decode_uint (firstn p (enc_uint n ++ rest)) = Err.
Proof.
  intros n rest p Hn Hp. eapply decode_uint_truncated; [apply decode_encode_uint; exact Hn|].
  unfold consumed. rewrite app_length. lia.
Qed.

Theorem enc_bytes_truncated : forall s rest p,
  lenN s < two63 -> (p < List.length (enc_bytes s))%nat ->
  decode_bytes (firstn p (enc_bytes s ++ rest)) = Err.
Proof.
  intros s rest p Hs Hp. eapply decode_bytes_truncated; [apply decode_encode_bytes; exact Hs|].
  unfold consumed. rewrite app_length. lia.
Qed.

Theorem enc_text_truncated : forall s out rest p,
  lenN s < two63 -> enc_text s = Ok out -> (p < List.length out)%nat ->
  decode_text (firstn p (out ++ rest)) = Err.
Proof.
  intros s out rest p Hs He Hp.
  eapply decode_text_truncated; [eapply decode_encode_text; eassumption|].
  unfold consumed. rewrite app_length. lia.
Qed.
