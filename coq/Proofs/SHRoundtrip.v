(* Proofs/SHRoundtrip.v - the writer against the grammar, round trips,
   uniqueness of the output, refusal of invalid values. *)
From Coq Require Import Lia ZifyN ZifyNat ZifyBool Permutation Sorted.
From WP Require Import Base.Prelude Base.Base64 Base.Decimal Model.StructHdr Spec.StructHdr.
From WP Require Import Proofs.SHLemmas Proofs.SHEnc Proofs.SHItem Proofs.SHParse.
Ltac Zify.zify_post_hook ::= Z.div_mod_to_equations.
Open Scope N_scope.

(* ---- boolean validity = validity ------------------------------------------- *)
Lemma valid_item_b_iff i : valid_item_b i = true <-> valid_item i.
Proof.
  destruct i as [z|s|t|b|]; cbn [valid_item_b valid_item].
  - apply int64_range_b_iff.
  - apply (forallb_Forall _ _ printable_b_iff).
  - apply token_b_iff.
  - apply wfbb_iff.
  - split; [discriminate|contradiction].
Qed.

Lemma valid_value_b_iff v : valid_value_b v = true <-> valid_value v.
Proof. destruct v as [i|]; cbn [valid_value_b valid_value]; [apply valid_item_b_iff|tauto]. Qed.

Lemma valid_params_b_iff ps : valid_params_b ps = true <-> valid_params ps.
Proof.
  unfold valid_params_b, valid_params.
  rewrite !andb_true_iff, (forallb_Forall _ _ key_b_iff), nodup_b_iff, (forallb_Forall _ _ valid_value_b_iff).
  tauto.
Qed.

Lemma valid_pi_b_iff p : valid_pi_b p = true <-> valid_pi p.
Proof. unfold valid_pi_b, valid_pi. rewrite andb_true_iff, token_b_iff, valid_params_b_iff. tauto. Qed.

Lemma valid_plist_b_iff pl : valid_plist_b pl = true <-> valid_plist pl.
Proof.
  unfold valid_plist. destruct pl as [|x xs]; [cbn; split; [discriminate|intros [H _]; contradiction]|].
  unfold valid_plist_b. rewrite (forallb_Forall _ _ valid_pi_b_iff). split; [intros H; split; [discriminate|exact H]|tauto].
Qed.

Lemma valid_inner_b_iff l : valid_inner_b l = true <-> valid_inner l.
Proof.
  unfold valid_inner. destruct l as [|x xs]; [cbn; split; [discriminate|intros [H _]; contradiction]|].
  unfold valid_inner_b. rewrite (forallb_Forall _ _ valid_item_b_iff). split; [intros H; split; [discriminate|exact H]|tauto].
Qed.

Lemma valid_lol_b_iff ll : valid_lol_b ll = true <-> valid_lol ll.
Proof.
  unfold valid_lol. destruct ll as [|x xs]; [cbn; split; [discriminate|intros [H _]; contradiction]|].
  unfold valid_lol_b. rewrite (forallb_Forall _ _ valid_inner_b_iff). split; [intros H; split; [discriminate|exact H]|tauto].
Qed.

(* ---- validity is invariant under reordering of parameters ------------------ *)
Lemma valid_params_perm ps ps' : Permutation ps ps' -> valid_params ps -> valid_params ps'.
Proof.
  intros HP (Hk & Hn & Hv). unfold valid_params, keys in *.
  pose proof (Permutation_map fst HP) as P1. pose proof (Permutation_map snd HP) as P2.
  split; [eapply Permutation_Forall; eassumption|].
  split; [eapply Permutation_NoDup; eassumption|eapply Permutation_Forall; eassumption].
Qed.

Lemma canon_pi_equiv p : pi_equiv p (canon_pi p).
Proof. split; [reflexivity|]. cbn [canon_pi pi_params]. symmetry. apply isort_perm. Qed.

Lemma valid_pi_canon p : valid_pi p -> valid_pi (canon_pi p).
Proof.
  intros [Ht Hp]. split; [exact Ht|]. cbn [canon_pi pi_params].
  eapply valid_params_perm; [symmetry; apply isort_perm|exact Hp].
Qed.

Lemma canon_pi_sorted p : StronglySorted key_le (pi_params (canon_pi p)).
Proof. apply isort_sorted. Qed.

Lemma canon_pi_idem p : canon_pi (canon_pi p) = canon_pi p.
Proof.
  unfold canon_pi. cbn [pi_label pi_params]. f_equal.
  assert (G : forall l, StronglySorted key_le l -> isort key_lt l = l).
  { induction 1 as [|x l Hs IH Hall]; [reflexivity|]. cbn [isort]. rewrite IH.
    destruct l as [|y t]; [reflexivity|]. cbn [insert]. inversion Hall as [|? ? Hxy _]; subst.
    unfold key_le in Hxy. unfold key_lt. rewrite Hxy. reflexivity. }
  apply G, isort_sorted.
Qed.

(* ---- serializer output is a derivation --------------------------------------- *)
Lemma serialize_params_derives ps : Forall Key (keys ps) -> Forall valid_value (map snd ps) ->
  exists s, serialize_params ps = Ok s /\ Derives_params s ps.
Proof.
  induction ps as [|[k v] t IH]; intros Hk Hv.
  - exists []. split; [reflexivity|constructor].
  - cbn [keys map fst snd] in Hk, Hv. inversion Hk as [|? ? Hk1 Hk2]; subst.
    inversion Hv as [|? ? Hv1 Hv2]; subst. destruct (IH Hk2 Hv2) as (rest & Er & Hr).
    cbn [serialize_params]. rewrite (proj2 (is_valid_key_iff k) Hk1). cbn [negb].
    destruct v as [i|].
    + cbn [valid_value] in Hv1. destruct (serialize_item_derives i Hv1) as (si & Ei & Hi).
      rewrite Ei. cbn [bind]. rewrite Er. cbn [bind]. eexists. split; [reflexivity|].
      apply (DPs_val [] [] k si i rest t OWS_nil OWS_nil Hk1 Hi Hr).
    + cbn [bind]. rewrite Er. cbn [bind]. eexists. split; [reflexivity|].
      apply (DPs_flag [] [] k rest t OWS_nil OWS_nil Hk1 Hr).
Qed.

Lemma serialize_pi_derives p : valid_pi p ->
  exists s, serialize_pi p = Ok s /\ Derives_pi s (canon_pi p).
Proof.
  intros Hv. apply valid_pi_canon in Hv. destruct Hv as [Ht (Hk & Hn & Hv)].
  cbn [canon_pi pi_label pi_params] in *.
  unfold serialize_pi. rewrite (proj2 (is_valid_token_iff _) Ht). cbn [negb].
  destruct (serialize_params_derives _ Hk Hv) as (s & Es & Hs).
  change param_lt with key_lt. rewrite Es. cbn [bind]. eexists. split; [reflexivity|].
  unfold canon_pi. apply DPi; assumption.
Qed.

(* join_R of serialized elements = first element ++ (sep ++ element)* *)
Fixpoint join_tail (sep : bytes) (ss : list bytes) : bytes :=
  match ss with [] => [] | s :: t => sep ++ s ++ join_tail sep t end.

Lemma join_R_derives {A} (f : A -> R bytes) (D : bytes -> A -> Prop) sep :
  forall xs x, Forall (fun a => exists s, f a = Ok s /\ D s a) (x :: xs) ->
  exists p ss, join_R sep (map f (x :: xs)) = Ok (p ++ join_tail sep ss) /\ D p x /\ Forall2 D ss xs.
Proof.
  induction xs as [|y ys IH]; intros x H; inversion H as [|? ? (s & Es & Hs) Hrest]; subst.
  - exists s, []. cbn [map join_R join_tail]. rewrite app_nil_r. repeat split; [exact Es|exact Hs|constructor].
  - destruct (IH y Hrest) as (p' & ss' & Ej & Hp' & Hss').
    exists s, (p' :: ss'). split; [|split; [exact Hs|constructor; assumption]].
    cbn [map] in Ej |- *. cbn [join_R]. rewrite Es. cbn [bind].
    change (match map f ys with
            | [] => f y
            | _ :: _ => let* a := f y in let* b := join_R sep (map f ys) in Ok (a ++ sep ++ b)
            end) with (join_R sep (f y :: map f ys)).
    rewrite Ej. cbn [bind join_tail]. reflexivity.
Qed.

Lemma join_R_ok_inv {A} (f : A -> R bytes) sep : forall l s,
  join_R sep (map f l) = Ok s -> Forall (fun a => exists s', f a = Ok s') l.
Proof.
  induction l as [|x [|y ys] IH]; intros s H.
  - constructor.
  - cbn [map join_R] in H. constructor; [exists s; exact H|constructor].
  - cbn [map] in H, IH. cbn [join_R] in H. destruct (f x) as [a| | |] eqn:Ex; cbn [bind] in H; try discriminate H.
    constructor; [exists a; exact Ex|].
    change (match map f ys with
            | [] => f y
            | _ :: _ => let* a := f y in let* b := join_R sep (map f ys) in Ok (a ++ sep ++ b)
            end) with (join_R sep (f y :: map f ys)) in H.
    destruct (join_R sep (f y :: map f ys)) as [b| | |] eqn:Ej; cbn [bind] in H; try discriminate H.
    eapply IH. reflexivity.
Qed.

Lemma join_R_good {A} (f : A -> R bytes) sep : (forall a, good (f a)) ->
  forall l, good (join_R sep (map f l)).
Proof.
  intros Hf. induction l as [|x [|y ys] IH].
  - exact I.
  - cbn [map join_R]. apply Hf.
  - cbn [map] in IH |- *. cbn [join_R]. pose proof (Hf x) as Gx.
    destruct (f x) as [a| | |]; cbn [bind]; try exact I; try exact Gx.
    change (match map f ys with
            | [] => f y
            | _ :: _ => let* a := f y in let* b := join_R sep (map f ys) in Ok (a ++ sep ++ b)
            end) with (join_R sep (f y :: map f ys)).
    destruct (join_R sep (f y :: map f ys)) as [b| | |]; cbn [bind]; try exact I; exact IH.
Qed.

Lemma plist_tail_of_join ss xs : Forall2 Derives_pi ss xs ->
  Derives_plist_tail (join_tail [44; 32] ss) xs.
Proof.
  induction 1 as [|s x ss xs Hs _ IH]; cbn [join_tail]; [constructor|].
  apply (DPT_cons [] [32] s x _ xs OWS_nil); [|exact Hs|exact IH].
  constructor; [left; reflexivity|constructor].
Qed.

Lemma inner_tail_of_join ss xs : Forall2 Derives_item ss xs ->
  Derives_inner_tail (join_tail [59; 32] ss) xs.
Proof.
  induction 1 as [|s x ss xs Hs _ IH]; cbn [join_tail]; [constructor|].
  apply (DIT_cons [] [32] s x _ xs OWS_nil); [|exact Hs|exact IH].
  constructor; [left; reflexivity|constructor].
Qed.

Lemma lol_tail_of_join ss xs : Forall2 Derives_inner ss xs ->
  Derives_lol_tail (join_tail [44; 32] ss) xs.
Proof.
  induction 1 as [|s x ss xs Hs _ IH]; cbn [join_tail]; [constructor|].
  apply (DLT_cons [] [32] s x _ xs OWS_nil); [|exact Hs|exact IH].
  constructor; [left; reflexivity|constructor].
Qed.

Lemma Forall2_map_r {A B C} (D : A -> C -> Prop) (g : B -> C) ss xs :
  Forall2 (fun s x => D s (g x)) ss xs -> Forall2 D ss (map g xs).
Proof. induction 1; cbn [map]; constructor; assumption. Qed.

Theorem serialize_plist_derives pl : valid_plist pl ->
  exists s, serialize_plist pl = Ok s /\ Derives_plist s (map canon_pi pl).
Proof.
  intros [Hne Hall]. destruct pl as [|x xs]; [contradiction|].
  assert (H : Forall (fun a => exists s, serialize_pi a = Ok s /\ Derives_pi s (canon_pi a)) (x :: xs)).
  { eapply Forall_impl; [|exact Hall]. intros a Ha. apply serialize_pi_derives. exact Ha. }
  destruct (join_R_derives serialize_pi (fun s a => Derives_pi s (canon_pi a)) [44; 32] xs x H)
    as (p & ss & Ej & Hp & Hss).
  exists (p ++ join_tail [44; 32] ss). split; [exact Ej|].
  cbn [map].
  assert (E : p ++ join_tail [44; 32] ss = [] ++ p ++ join_tail [44; 32] ss ++ [])
    by (rewrite app_nil_r; reflexivity).
  rewrite E. apply DPL; [constructor|exact Hp| |constructor].
  apply plist_tail_of_join. apply Forall2_map_r. exact Hss.
Qed.

Definition serialize_inner (inner : list sh_item) : R bytes :=
  match inner with [] => Err | _ => join_R [59; 32] (map serialize_item inner) end.

Lemma serialize_lol_eq ll : serialize_lol ll =
  match ll with [] => Err | _ => join_R [44; 32] (map serialize_inner ll) end.
Proof. reflexivity. Qed.

Lemma serialize_inner_derives l : valid_inner l ->
  exists s, serialize_inner l = Ok s /\ Derives_inner s l.
Proof.
  intros [Hne Hall]. destruct l as [|x xs]; [contradiction|].
  assert (H : Forall (fun a => exists s, serialize_item a = Ok s /\ Derives_item s a) (x :: xs)).
  { eapply Forall_impl; [|exact Hall]. intros a Ha. apply serialize_item_derives. exact Ha. }
  destruct (join_R_derives serialize_item Derives_item [59; 32] xs x H) as (p & ss & Ej & Hp & Hss).
  exists (p ++ join_tail [59; 32] ss). split; [exact Ej|].
  apply DIn; [exact Hp|]. apply inner_tail_of_join. exact Hss.
Qed.

Theorem serialize_lol_derives ll : valid_lol ll ->
  exists s, serialize_lol ll = Ok s /\ Derives_lol s ll.
Proof.
  intros [Hne Hall]. destruct ll as [|x xs]; [contradiction|].
  assert (H : Forall (fun a => exists s, serialize_inner a = Ok s /\ Derives_inner s a) (x :: xs)).
  { eapply Forall_impl; [|exact Hall]. intros a Ha. apply serialize_inner_derives. exact Ha. }
  destruct (join_R_derives serialize_inner Derives_inner [44; 32] xs x H) as (p & ss & Ej & Hp & Hss).
  exists (p ++ join_tail [44; 32] ss). split; [rewrite serialize_lol_eq; exact Ej|].
  assert (E : p ++ join_tail [44; 32] ss = [] ++ p ++ join_tail [44; 32] ss ++ [])
    by (rewrite app_nil_r; reflexivity).
  rewrite E. apply DLL; [constructor|exact Hp| |constructor].
  apply lol_tail_of_join. exact Hss.
Qed.

(* ---- serialize, then parse ------------------------------------------------------ *)
Theorem serialize_parse_plist pl : valid_plist pl ->
  exists s, serialize_plist pl = Ok s
            /\ parse_parameterised_list s = Ok (map canon_pi pl)
            /\ Forall2 pi_equiv pl (map canon_pi pl).
Proof.
  intros Hv. destruct (serialize_plist_derives pl Hv) as (s & Es & Hd).
  exists s. split; [exact Es|]. split; [apply parse_plist_complete; exact Hd|].
  clear. induction pl as [|x xs IH]; cbn [map]; constructor; [apply canon_pi_equiv|exact IH].
Qed.

Theorem serialize_parse_lol ll : valid_lol ll ->
  exists s, serialize_lol ll = Ok s /\ parse_list_of_lists s = Ok ll.
Proof.
  intros Hv. destruct (serialize_lol_derives ll Hv) as (s & Es & Hd).
  exists s. split; [exact Es|]. apply parse_lol_complete. exact Hd.
Qed.

(* ---- the output does not depend on the order of the parameters ------------------ *)
Theorem serialize_unique p p' :
  pi_label p = pi_label p' -> Permutation (pi_params p) (pi_params p') ->
  NoDup (keys (pi_params p)) -> serialize_pi p = serialize_pi p'.
Proof.
  intros El HP Hn. unfold serialize_pi. rewrite El. change param_lt with key_lt.
  rewrite (isort_perm_eq _ _ HP Hn). reflexivity.
Qed.

Theorem canon_unique p p' : pi_equiv p p' -> NoDup (keys (pi_params p)) -> canon_pi p = canon_pi p'.
Proof.
  intros [El HP] Hn. unfold canon_pi. rewrite El, (isort_perm_eq _ _ HP Hn). reflexivity.
Qed.

(* ---- invalid values are refused --------------------------------------------------- *)
Lemma serialize_params_ok_valid ps s : serialize_params ps = Ok s ->
  Forall dom_value (map snd ps) -> Forall Key (keys ps) /\ Forall valid_value (map snd ps).
Proof.
  revert s. induction ps as [|[k v] t IH]; intros s H Hd.
  - split; constructor.
  - cbn [serialize_params] in H. cbn [keys map fst snd] in Hd |- *.
    inversion Hd as [|? ? Hd1 Hd2]; subst.
    destruct (is_valid_key k) eqn:Ek; cbn [negb] in H; [|discriminate H].
    apply is_valid_key_iff in Ek.
    assert (Hv : valid_value v).
    { destruct v as [i|]; [|exact I]. cbn [valid_value].
      destruct (serialize_item i) as [si| | |] eqn:Ei; cbn [bind] in H; try discriminate H.
      eapply serialize_item_ok_valid; [exact Ei|exact Hd1]. }
    destruct (serialize_params t) as [st| | |] eqn:Et.
    + destruct (IH st eq_refl Hd2) as [Hk' Hv']. split; constructor; assumption.
    + exfalso. destruct v as [i|]; [destruct (serialize_item i); cbn [bind] in H; discriminate H|cbn [bind] in H; discriminate H].
    + exfalso. destruct v as [i|]; [destruct (serialize_item i); cbn [bind] in H; discriminate H|cbn [bind] in H; discriminate H].
    + exfalso. destruct v as [i|]; [destruct (serialize_item i); cbn [bind] in H; discriminate H|cbn [bind] in H; discriminate H].
Qed.

Lemma serialize_pi_ok_valid p s : serialize_pi p = Ok s -> dom_pi p -> valid_pi p.
Proof.
  unfold serialize_pi. intros H [Hn Hd].
  destruct (is_valid_token (pi_label p)) eqn:Et; cbn [negb] in H; [|discriminate H].
  apply is_valid_token_iff in Et.
  destruct (serialize_params (isort param_lt (pi_params p))) as [sp| | |] eqn:Ep; cbn [bind] in H; try discriminate H.
  pose proof (isort_perm param_lt (pi_params p)) as HP.
  apply serialize_params_ok_valid in Ep.
  - destruct Ep as [Hk Hv]. split; [exact Et|].
    apply (valid_params_perm _ _ HP). split; [exact Hk|]. split; [|exact Hv].
    unfold keys in *. eapply Permutation_NoDup; [|exact Hn]. apply Permutation_map. symmetry. exact HP.
  - eapply Permutation_Forall; [|exact Hd]. apply Permutation_map. symmetry. exact HP.
Qed.

Lemma serialize_params_good ps : good (serialize_params ps).
Proof.
  induction ps as [|[k v] t IH]; [exact I|]. cbn [serialize_params].
  destruct (negb (is_valid_key k)); [exact I|].
  destruct v as [i|].
  - pose proof (serialize_item_good i) as Gi. destruct (serialize_item i); cbn [bind]; try exact I; try exact Gi.
    destruct (serialize_params t); cbn [bind]; try exact I; exact IH.
  - cbn [bind]. destruct (serialize_params t); cbn [bind]; try exact I; exact IH.
Qed.

Lemma serialize_pi_good p : good (serialize_pi p).
Proof.
  unfold serialize_pi. destruct (negb _); [exact I|].
  pose proof (serialize_params_good (isort param_lt (pi_params p))) as G.
  destruct (serialize_params _); cbn [bind]; try exact I; exact G.
Qed.

Lemma serialize_inner_good l : good (serialize_inner l).
Proof. destruct l as [|x xs]; [exact I|]. apply (join_R_good serialize_item _ serialize_item_good). Qed.

Theorem serialize_plist_good pl : good (serialize_plist pl).
Proof. destruct pl as [|x xs]; [exact I|]. apply (join_R_good serialize_pi _ serialize_pi_good). Qed.

Theorem serialize_lol_good ll : good (serialize_lol ll).
Proof.
  rewrite serialize_lol_eq. destruct ll as [|x xs]; [exact I|].
  apply (join_R_good serialize_inner _ serialize_inner_good).
Qed.

Theorem serialize_plist_ok_iff pl : Forall dom_pi pl ->
  (valid_plist_b pl = true <-> exists s, serialize_plist pl = Ok s).
Proof.
  intros Hd. rewrite valid_plist_b_iff. split.
  - intros Hv. destruct (serialize_plist_derives pl Hv) as (s & Es & _). exists s. exact Es.
  - intros [s Es]. destruct pl as [|x xs]; [discriminate Es|]. split; [discriminate|].
    unfold serialize_plist in Es. apply join_R_ok_inv in Es.
    rewrite Forall_forall in *. intros a Ha. destruct (Es a Ha) as [s' Es'].
    eapply serialize_pi_ok_valid; [exact Es'|apply Hd; exact Ha].
Qed.

Theorem serialize_plist_refuses pl : Forall dom_pi pl ->
  (valid_plist_b pl = false <-> serialize_plist pl = Err).
Proof.
  intros Hd. pose proof (serialize_plist_ok_iff pl Hd) as Hiff. pose proof (serialize_plist_good pl) as G.
  destruct (valid_plist_b pl).
  - destruct (proj1 Hiff eq_refl) as [s Es]. rewrite Es. split; discriminate.
  - destruct (serialize_plist pl) as [s| | |] eqn:Es; try contradiction.
    + assert (false = true) by (apply Hiff; exists s; reflexivity). discriminate.
    + split; reflexivity.
Qed.

Lemma serialize_inner_ok_valid l s : serialize_inner l = Ok s -> Forall dom_item l -> valid_inner l.
Proof.
  intros Es Hd. destruct l as [|x xs]; [discriminate Es|]. split; [discriminate|].
  unfold serialize_inner in Es. apply join_R_ok_inv in Es.
  rewrite Forall_forall in *. intros a Ha. destruct (Es a Ha) as [s' Es'].
  eapply serialize_item_ok_valid; [exact Es'|apply Hd; exact Ha].
Qed.

Theorem serialize_lol_ok_iff ll : Forall (Forall dom_item) ll ->
  (valid_lol_b ll = true <-> exists s, serialize_lol ll = Ok s).
Proof.
  intros Hd. rewrite valid_lol_b_iff. split.
  - intros Hv. destruct (serialize_lol_derives ll Hv) as (s & Es & _). exists s. exact Es.
  - intros [s Es]. rewrite serialize_lol_eq in Es. destruct ll as [|x xs]; [discriminate Es|]. split; [discriminate|].
    apply join_R_ok_inv in Es.
    rewrite Forall_forall in *. intros a Ha. destruct (Es a Ha) as [s' Es'].
    eapply serialize_inner_ok_valid; [exact Es'|apply Hd; exact Ha].
Qed.

Theorem serialize_lol_refuses ll : Forall (Forall dom_item) ll ->
  (valid_lol_b ll = false <-> serialize_lol ll = Err).
Proof.
  intros Hd. pose proof (serialize_lol_ok_iff ll Hd) as Hiff. pose proof (serialize_lol_good ll) as G.
  destruct (valid_lol_b ll).
  - destruct (proj1 Hiff eq_refl) as [s Es]. rewrite Es. split; discriminate.
  - destruct (serialize_lol ll) as [s| | |] eqn:Es; try contradiction.
    + assert (false = true) by (apply Hiff; exists s; reflexivity). discriminate.
    + split; reflexivity.
Qed.

(* ---- whatever the parsers return is valid ------------------------------------------ *)
Lemma Derives_params_valid s ps : Derives_params s ps ->
  Forall Key (keys ps) /\ Forall valid_value (map snd ps).
Proof.
  induction 1 as [|w1 w2 k r ps H1 H2 Hk Hr IH|w1 w2 k i v r ps H1 H2 Hk Hi Hr IH];
    [split; constructor| |]; destruct IH as [IH1 IH2]; cbn [keys map fst snd]; split; constructor;
    try assumption; [exact I|]. cbn [valid_value]. eapply Derives_item_valid. exact Hi.
Qed.

Lemma Derives_pi_valid s p : Derives_pi s p -> valid_pi p.
Proof.
  intros [t r ps Ht Hr Hn]. split; [exact Ht|]. cbn [pi_params].
  destruct (Derives_params_valid _ _ Hr) as [Hk Hv]. split; [exact Hk|]. split; assumption.
Qed.

Lemma Derives_plist_valid s pl : Derives_plist s pl -> valid_plist pl.
Proof.
  intros [w0 p x r xs w1 H0 Hp Hr H1]. split; [discriminate|]. constructor; [eapply Derives_pi_valid; exact Hp|].
  clear -Hr. induction Hr as [|w1 w2 p x r xs H1 H2 Hp Hr IH]; constructor; [eapply Derives_pi_valid; exact Hp|exact IH].
Qed.

Lemma Derives_inner_tail_valid s l : Derives_inner_tail s l -> Forall valid_item l.
Proof.
  induction 1 as [|w1 w2 i x r xs H1 H2 Hi Hr IH]; constructor; [eapply Derives_item_valid; exact Hi|exact IH].
Qed.

Lemma Derives_inner_valid s l : Derives_inner s l -> valid_inner l.
Proof.
  intros [i x r xs Hi Hr]. split; [discriminate|]. constructor; [eapply Derives_item_valid; exact Hi|].
  eapply Derives_inner_tail_valid. exact Hr.
Qed.

Lemma Derives_lol_valid s ll : Derives_lol s ll -> valid_lol ll.
Proof.
  intros [w0 p x r xs w1 H0 Hp Hr H1]. split; [discriminate|]. constructor; [eapply Derives_inner_valid; exact Hp|].
  clear -Hr. induction Hr as [|w1 w2 p x r xs H1 H2 Hp Hr IH]; constructor; [eapply Derives_inner_valid; exact Hp|exact IH].
Qed.

Theorem parse_plist_valid s pl : parse_parameterised_list s = Ok pl -> valid_plist pl.
Proof. intros H. eapply Derives_plist_valid. apply parse_plist_sound. exact H. Qed.

Theorem parse_lol_valid s ll : parse_list_of_lists s = Ok ll -> valid_lol ll.
Proof. intros H. eapply Derives_lol_valid. apply parse_lol_sound. exact H. Qed.

(* ---- parse, serialize, parse --------------------------------------------------------- *)
Theorem parse_serialize_parse_plist s pl : parse_parameterised_list s = Ok pl ->
  exists s', serialize_plist pl = Ok s'
             /\ parse_parameterised_list s' = Ok (map canon_pi pl)
             /\ Forall2 pi_equiv pl (map canon_pi pl).
Proof. intros H. apply serialize_parse_plist. eapply parse_plist_valid. exact H. Qed.

Theorem parse_serialize_parse_lol s ll : parse_list_of_lists s = Ok ll ->
  exists s', serialize_lol ll = Ok s' /\ parse_list_of_lists s' = Ok ll.
Proof. intros H. apply serialize_parse_lol. eapply parse_lol_valid. exact H. Qed.

(* the canonical text is a fixed point: serializing what was parsed from a
   serializer output gives the same text again *)
Theorem serialize_canon_plist pl : valid_plist pl ->
  serialize_plist (map canon_pi pl) = serialize_plist pl.
Proof.
  intros [Hne Hall]. destruct pl as [|x xs]; [contradiction|].
  unfold serialize_plist. cbn [map]. f_equal. rewrite map_map.
  change (serialize_pi (canon_pi x) :: map (fun a => serialize_pi (canon_pi a)) xs)
    with (map (fun a => serialize_pi (canon_pi a)) (x :: xs)).
  change (serialize_pi x :: map serialize_pi xs) with (map serialize_pi (x :: xs)).
  apply map_ext_in. intros a Ha. rewrite Forall_forall in Hall. destruct (Hall a Ha) as [_ (_ & Hn & _)].
  symmetry. apply serialize_unique; [reflexivity| |exact Hn].
  cbn [canon_pi pi_params]. symmetry. apply isort_perm.
Qed.

(* ---- corollaries --------------------------------------------------------------------- *)
Theorem serialize_plist_unique pl pl' :
  Forall2 pi_equiv pl pl' -> Forall (fun p => NoDup (keys (pi_params p))) pl ->
  serialize_plist pl = serialize_plist pl'.
Proof.
  intros H2 Hn.
  assert (E : map serialize_pi pl = map serialize_pi pl').
  { induction H2 as [|x y l l' [El HP] _ IH]; [reflexivity|]. inversion Hn as [|? ? Hx Hl]; subst.
    cbn [map]. rewrite (IH Hl), (serialize_unique x y El HP Hx). reflexivity. }
  unfold serialize_plist. destruct H2; [reflexivity|]. rewrite E. reflexivity.
Qed.

Lemma canon_eq_equiv x y : canon_pi x = canon_pi y -> pi_equiv x y.
Proof.
  intros E. split; [exact (f_equal pi_label E)|].
  pose proof (f_equal pi_params E) as Ep. cbn [canon_pi pi_params] in Ep.
  rewrite <- (isort_perm key_lt (pi_params x)), Ep. apply isort_perm.
Qed.

Theorem serialize_plist_injective pl pl' : valid_plist pl -> valid_plist pl' ->
  serialize_plist pl = serialize_plist pl' -> Forall2 pi_equiv pl pl'.
Proof.
  intros Hv Hv' E.
  destruct (serialize_parse_plist pl Hv) as (s & Es & Ep & _).
  destruct (serialize_parse_plist pl' Hv') as (s' & Es' & Ep' & _).
  rewrite E, Es' in Es. inversion Es; subst s'. rewrite Ep in Ep'. inversion Ep' as [Em]. clear -Em.
  revert pl' Em. induction pl as [|x xs IH]; intros [|y ys] Em; try discriminate Em; [constructor|].
  cbn [map] in Em. assert (Ex : canon_pi x = canon_pi y) by congruence. assert (Exs : map canon_pi xs = map canon_pi ys) by congruence. constructor; [apply canon_eq_equiv; exact Ex|apply IH; exact Exs].
Qed.

Theorem serialize_lol_injective ll ll' : valid_lol ll -> valid_lol ll' ->
  serialize_lol ll = serialize_lol ll' -> ll = ll'.
Proof.
  intros Hv Hv' E.
  destruct (serialize_parse_lol ll Hv) as (s & Es & Ep).
  destruct (serialize_parse_lol ll' Hv') as (s' & Es' & Ep').
  rewrite E, Es' in Es. inversion Es; subst s'. rewrite Ep in Ep'. inversion Ep'. reflexivity.
Qed.

Theorem parse_plist_iff s pl : parse_parameterised_list s = Ok pl <-> Derives_plist s pl.
Proof. split; [apply parse_plist_sound|apply parse_plist_complete]. Qed.

Theorem parse_lol_iff s ll : parse_list_of_lists s = Ok ll <-> Derives_lol s ll.
Proof. split; [apply parse_lol_sound|apply parse_lol_complete]. Qed.

Theorem parse_plist_rejects_iff s : parse_parameterised_list s = Err <-> forall pl, ~ Derives_plist s pl.
Proof.
  split.
  - intros E pl Hd. apply parse_plist_complete in Hd. congruence.
  - intros H. pose proof (parse_plist_total s) as G.
    destruct (parse_parameterised_list s) as [pl| | |] eqn:E; try contradiction; [|reflexivity].
    exfalso. apply (H pl). apply parse_plist_sound. exact E.
Qed.

Theorem parse_lol_rejects_iff s : parse_list_of_lists s = Err <-> forall ll, ~ Derives_lol s ll.
Proof.
  split.
  - intros E pl Hd. apply parse_lol_complete in Hd. congruence.
  - intros H. pose proof (parse_lol_total s) as G.
    destruct (parse_list_of_lists s) as [pl| | |] eqn:E; try contradiction; [|reflexivity].
    exfalso. apply (H pl). apply parse_lol_sound. exact E.
Qed.

Theorem Derives_plist_functional s pl pl' : Derives_plist s pl -> Derives_plist s pl' -> pl = pl'.
Proof. intros H H'. apply parse_plist_complete in H, H'. congruence. Qed.

Theorem Derives_lol_functional s ll ll' : Derives_lol s ll -> Derives_lol s ll' -> ll = ll'.
Proof. intros H H'. apply parse_lol_complete in H, H'. congruence. Qed.

Theorem parse_plist_no_panic_no_fuel s :
  parse_parameterised_list s <> Panic /\ parse_parameterised_list s <> Fuel.
Proof. pose proof (parse_plist_total s) as G. destruct (parse_parameterised_list s); try contradiction; split; discriminate. Qed.

Theorem parse_lol_no_panic_no_fuel s :
  parse_list_of_lists s <> Panic /\ parse_list_of_lists s <> Fuel.
Proof. pose proof (parse_lol_total s) as G. destruct (parse_list_of_lists s); try contradiction; split; discriminate. Qed.
