(* Proofs/CountingWriter.v - CountingWriter.Write over a destination that fails
   after a byte budget (Model/Bundle.v: dest / dwrite / run_writes), for EVERY
   chunking of the output and both failure modes. *)
From Coq Require Import Lia ZifyN ZifyNat ZifyBool.
From WP Require Import Base.Prelude Model.Bundle Proofs.BaseLemmas.
Open Scope N_scope.

(* first k elements, k : N *)
Definition takeN {A} (k : N) (l : list A) : list A := firstn (N.to_nat k) l.

Lemma takeN_all {A} (k : N) (l : list A) : lenN l <= k -> takeN k l = l.
Proof. intros H. unfold takeN. apply firstn_all2. rewrite lenN_length in H. lia. Qed.

Lemma takeN_lenN {A} (k : N) (l : list A) : k <= lenN l -> lenN (takeN k l) = k.
Proof.
  intros H. unfold takeN. rewrite lenN_length, firstn_length_le; [lia|].
  rewrite lenN_length in H. lia.
Qed.

Lemma takeN_app_le {A} (k : N) (a b : list A) : k <= lenN a -> takeN k (a ++ b) = takeN k a.
Proof.
  intros H. unfold takeN. rewrite firstn_app.
  replace (N.to_nat k - List.length a)%nat with 0%nat by (rewrite lenN_length in H; lia).
  cbn [firstn]. apply app_nil_r.
Qed.

Lemma takeN_app_ge {A} (k : N) (a b : list A) :
  lenN a <= k -> takeN k (a ++ b) = a ++ takeN (k - lenN a) b.
Proof.
  intros H. unfold takeN. rewrite firstn_app, firstn_all2 by (rewrite lenN_length in H; lia).
  f_equal. f_equal. rewrite lenN_length in *. lia.
Qed.

Lemma splitN_takeN {A} (l a b : list A) (k : N) : splitN l k = Some (a, b) -> a = takeN k l.
Proof.
  intros H. apply splitN_spec in H. destruct H as [E L]. subst l.
  rewrite takeN_app_le by lia. symmetry. apply takeN_all. lia.
Qed.

(* ---- one Write ---------------------------------------------------------------- *)
(* what a single Write accepts *)
Definition accepted1 (d : dest) (c : bytes) : bytes :=
  match d_budget d with
  | None => c
  | Some k => if lenN c <=? k then c
              else match d_mode d with ErrOnly => [] | ShortThenErr => takeN k c end
  end.

Lemma dwrite_spec (d : dest) (c : bytes) :
  let '(d', n, ok) := dwrite d c in
  d_acc d' = d_acc d ++ accepted1 d c /\ n = lenN (accepted1 d c) /\ d_mode d' = d_mode d /\
  match d_budget d with
  | None => ok = true /\ d_budget d' = None
  | Some k => ok = (lenN c <=? k) /\
              d_budget d' = Some (if lenN c <=? k then k - lenN c
                                  else match d_mode d with ErrOnly => k | ShortThenErr => 0 end)
  end.
Proof.
  unfold dwrite, accepted1. destruct (d_budget d) as [k|] eqn:B.
  - destruct (N.leb_spec (lenN c) k) as [L|L].
    + cbn [d_acc d_budget d_mode]. repeat split.
    + destruct (d_mode d) eqn:M.
      * rewrite app_nil_r, B. repeat split; assumption.
      * destruct (splitN c k) as [[a r]|] eqn:S.
        -- cbn [d_acc d_budget d_mode]. pose proof (splitN_takeN _ _ _ _ S) as E. subst a.
           split; [reflexivity|]. split; [symmetry; apply takeN_lenN; lia|]. repeat split.
        -- apply splitN_none_iff in S. lia.
  - cbn [d_acc d_budget d_mode]. repeat split.
Qed.

(* ---- a sequence of Writes ------------------------------------------------------ *)
(* bytes accepted over the whole sequence, by mode *)
Fixpoint fit_prefix (cs : list bytes) (k : N) : bytes :=
  match cs with
  | [] => []
  | c :: t => if lenN c <=? k then c ++ fit_prefix t (k - lenN c) else []
  end.

Definition accepted (d : dest) (cs : list bytes) : bytes :=
  match d_budget d with
  | None => List.concat cs
  | Some k => match d_mode d with
              | ErrOnly => fit_prefix cs k
              | ShortThenErr => takeN k (List.concat cs)
              end
  end.

Lemma fit_prefix_all (cs : list bytes) : forall k,
  lenN (List.concat cs) <= k -> fit_prefix cs k = List.concat cs.
Proof.
  induction cs as [|c t IH]; intros k H; [reflexivity|].
  cbn [List.concat fit_prefix] in *. rewrite lenN_app in H.
  replace (lenN c <=? k) with true by lia. f_equal. apply IH. lia.
Qed.

Lemma fit_prefix_is_prefix (cs : list bytes) : forall k,
  exists j, fit_prefix cs k = takeN j (List.concat cs) /\ j <= k /\ j <= lenN (List.concat cs).
Proof.
  induction cs as [|c t IH]; intros k.
  - exists 0. repeat split; cbn; lia.
  - cbn [fit_prefix List.concat]. destruct (N.leb_spec (lenN c) k) as [L|L].
    + destruct (IH (k - lenN c)) as [j [E [J1 J2]]]. exists (lenN c + j).
      rewrite takeN_app_ge by lia. replace (lenN c + j - lenN c) with j by lia.
      rewrite E, lenN_app. repeat split; lia.
    + exists 0. repeat split; lia.
Qed.

(* the main invariant: for every chunking, both modes, any starting count *)
Theorem run_writes_spec (cs : list bytes) : forall (d : dest) (count : N),
  let '(d', n, ok) := run_writes cs d count in
  d_acc d' = d_acc d ++ accepted d cs
  /\ n = count + lenN (accepted d cs)
  /\ ok = match d_budget d with None => true | Some k => lenN (List.concat cs) <=? k end.
Proof.
  induction cs as [|c t IH]; intros d count.
  - cbn [run_writes]. unfold accepted. cbn [List.concat fit_prefix lenN].
    destruct (d_budget d) as [k|]; [destruct (d_mode d)|];
      unfold takeN; rewrite ?firstn_nil, app_nil_r; cbn [lenN];
      (split; [reflexivity|]; split; [lia|]; try reflexivity; symmetry; apply N.leb_le; lia).
  - cbn [run_writes]. pose proof (dwrite_spec d c) as W.
    destruct (dwrite d c) as [[d1 n1] ok1]. destruct W as [A1 [N1 [M1 B1]]].
    destruct ok1.
    + specialize (IH d1 (count + n1)).
      destruct (run_writes t d1 (count + n1)) as [[d' n] ok]. destruct IH as [A [Nn O]].
      unfold accepted, accepted1 in *. cbn [List.concat fit_prefix].
      destruct (d_budget d) as [k|] eqn:B.
      * destruct B1 as [O1 B1]. symmetry in O1. apply N.leb_le in O1.
        replace (lenN c <=? k) with true in * by lia.
        rewrite B1, M1 in *. rewrite lenN_app.
        destruct (d_mode d).
        -- rewrite A, A1, <- app_assoc. split; [reflexivity|].
           rewrite lenN_app. split; [lia|]. rewrite O. apply eq_true_iff_eq; lia.
        -- rewrite takeN_app_ge by lia.
           rewrite A, A1, <- app_assoc. split; [reflexivity|].
           rewrite lenN_app. split; [lia|]. rewrite O. apply eq_true_iff_eq; lia.
      * destruct B1 as [_ B1]. rewrite B1 in *.
        rewrite A, A1, <- app_assoc, lenN_app. split; [reflexivity|]. split; [lia|exact O].
    + unfold accepted, accepted1 in *. cbn [List.concat fit_prefix].
      destruct (d_budget d) as [k|] eqn:B; [|destruct B1; discriminate].
      destruct B1 as [O1 B1]. symmetry in O1. apply N.leb_gt in O1.
      replace (lenN c <=? k) with false in * by lia.
      destruct (d_mode d).
      * rewrite A1. split; [reflexivity|]. split; [lia|].
        symmetry. apply N.leb_gt. rewrite lenN_app. lia.
      * rewrite takeN_app_le by lia. rewrite A1. split; [reflexivity|]. split; [lia|].
        symmetry. apply N.leb_gt. rewrite lenN_app. lia.
Qed.

(* ---- the statements C04 / C19 use --------------------------------------------- *)
(* the count returned equals the number of bytes the destination took *)
Theorem run_writes_count_exact (cs : list bytes) (d d' : dest) (n : N) (ok : bool) :
  run_writes cs d 0 = (d', n, ok) ->
  d_acc d' = d_acc d ++ accepted d cs /\ n = lenN (d_acc d') - lenN (d_acc d).
Proof.
  intros H. pose proof (run_writes_spec cs d 0) as S. rewrite H in S.
  destruct S as [A [Nn _]]. split; [exact A|]. rewrite A, lenN_app. lia.
Qed.

(* what the destination took is a prefix of the byte stream, whatever the chunking *)
Theorem run_writes_prefix (cs : list bytes) (d d' : dest) (n : N) (ok : bool) :
  run_writes cs d 0 = (d', n, ok) ->
  exists k, d_acc d' = d_acc d ++ takeN k (List.concat cs) /\ k = n /\ k <= lenN (List.concat cs).
Proof.
  intros H. pose proof (run_writes_spec cs d 0) as S. rewrite H in S.
  destruct S as [A [Nn _]]. unfold accepted in *.
  destruct (d_budget d) as [b|].
  - destruct (d_mode d).
    + destruct (fit_prefix_is_prefix cs b) as [j [E [J1 J2]]]. exists j.
      rewrite E in *. rewrite takeN_lenN in Nn by lia. split; [exact A|]. split; lia.
    + destruct (N.leb_spec b (lenN (List.concat cs))) as [L|L].
      * exists b. rewrite takeN_lenN in Nn by lia. split; [exact A|]. split; lia.
      * exists (lenN (List.concat cs)). rewrite takeN_all in A, Nn by lia.
        rewrite takeN_all by lia. split; [exact A|]. split; lia.
  - exists (lenN (List.concat cs)). rewrite takeN_all by lia. split; [exact A|]. split; lia.
Qed.

(* success iff the whole stream fits the budget; then everything was accepted.
   (An empty chunk always fits, also with budget 0; a non-empty chunk that
   does not fit fails even when some budget is left - in ErrOnly mode that
   budget stays unused.) *)
Theorem run_writes_fault (cs : list bytes) (d d' : dest) (n : N) (ok : bool) (k : N) :
  run_writes cs d 0 = (d', n, ok) -> d_budget d = Some k ->
  (k < lenN (List.concat cs) -> ok = false /\ n <= k /\
     match d_mode d with
     | ErrOnly => d_acc d' = d_acc d ++ fit_prefix cs k
     | ShortThenErr => d_acc d' = d_acc d ++ takeN k (List.concat cs) /\ n = k
     end)
  /\ (lenN (List.concat cs) <= k ->
      ok = true /\ d_acc d' = d_acc d ++ List.concat cs /\ n = lenN (List.concat cs)).
Proof.
  intros H B. pose proof (run_writes_spec cs d 0) as S. rewrite H in S.
  destruct S as [A [Nn O]]. unfold accepted in *. rewrite B in *. split; intros L.
  - split; [rewrite O; apply N.leb_gt; exact L|].
    destruct (d_mode d).
    + destruct (fit_prefix_is_prefix cs k) as [j [E [J1 J2]]].
      split; [|exact A]. rewrite E, takeN_lenN in Nn by lia. lia.
    + rewrite takeN_lenN in Nn by lia. split; [lia|]. split; [exact A|lia].
  - split; [rewrite O; apply N.leb_le; exact L|].
    destruct (d_mode d).
    + rewrite fit_prefix_all in * by exact L. split; [exact A|lia].
    + rewrite takeN_all in * by exact L. split; [exact A|lia].
Qed.

Theorem run_writes_unlimited (cs : list bytes) (d d' : dest) (n : N) (ok : bool) :
  run_writes cs d 0 = (d', n, ok) -> d_budget d = None ->
  ok = true /\ d_acc d' = d_acc d ++ List.concat cs /\ n = lenN (List.concat cs).
Proof.
  intros H B. pose proof (run_writes_spec cs d 0) as S. rewrite H in S.
  destruct S as [A [Nn O]]. unfold accepted in *. rewrite B in *.
  split; [exact O|]. split; [exact A|lia].
Qed.

(* two chunkings of the same stream leave the same bytes in a ShortThenErr
   destination, and agree on success in both modes *)
Corollary run_writes_chunking_irrelevant (cs1 cs2 : list bytes) (d : dest) :
  List.concat cs1 = List.concat cs2 ->
  snd (run_writes cs1 d 0) = snd (run_writes cs2 d 0) /\
  (d_mode d = ShortThenErr \/ d_budget d = None ->
   d_acc (fst (fst (run_writes cs1 d 0))) = d_acc (fst (fst (run_writes cs2 d 0)))).
Proof.
  intros E. pose proof (run_writes_spec cs1 d 0) as S1. pose proof (run_writes_spec cs2 d 0) as S2.
  destruct (run_writes cs1 d 0) as [[d1 n1] o1]. destruct (run_writes cs2 d 0) as [[d2 n2] o2].
  destruct S1 as [A1 [_ O1]]. destruct S2 as [A2 [_ O2]]. cbn [fst snd].
  split; [rewrite O1, O2, E; reflexivity|].
  intros M. rewrite A1, A2. unfold accepted. rewrite E.
  destruct (d_budget d); [|reflexivity]. destruct M as [M|M]; [rewrite M; reflexivity|discriminate].
Qed.

(* ---- examples: hypotheses are satisfiable ------------------------------------- *)
Definition ex_dest (m : fmode) (k : N) : dest := {| d_acc := [9]; d_budget := Some k; d_mode := m |}.

Example ex_short : run_writes [[1; 2]; []; [3; 4; 5]; [6]] (ex_dest ShortThenErr 4) 0
  = ({| d_acc := [9; 1; 2; 3; 4]; d_budget := Some 0; d_mode := ShortThenErr |}, 4, false).
Proof. vm_compute. reflexivity. Qed.
Example ex_erronly : run_writes [[1; 2]; []; [3; 4; 5]; [6]] (ex_dest ErrOnly 4) 0
  = ({| d_acc := [9; 1; 2]; d_budget := Some 2; d_mode := ErrOnly |}, 2, false).
Proof. vm_compute. reflexivity. Qed.
(* budget 0: empty chunks pass, the first non-empty chunk fails *)
Example ex_zero : run_writes [[]; []; [1]] (ex_dest ErrOnly 0) 0 = (ex_dest ErrOnly 0, 0, false)
  /\ run_writes [[]; []] (ex_dest ErrOnly 0) 0 = (ex_dest ErrOnly 0, 0, true).
Proof. vm_compute. split; reflexivity. Qed.
Example ex_exact_fit : run_writes [[1; 2]; [3]] (ex_dest ErrOnly 3) 0
  = ({| d_acc := [9; 1; 2; 3]; d_budget := Some 0; d_mode := ErrOnly |}, 3, true).
Proof. vm_compute. reflexivity. Qed.

(* ---- Bundle.WriteTo through the CountingWriter --------------------------------------------------
   Every failure of b_write happens before the first Write, so WriteTo(dest) is
   run_writes over SOME chunking cs of the bytes b_write yields.  Whatever the
   chunking and the destination's behaviour, the count returned is the number of
   bytes the destination took, and those bytes are a prefix of the bundle. *)
Theorem write_count_exact (b : bundle) (bs : bytes) (cs : list bytes) (d d' : dest) (n : N) (ok : bool) :
  b_write b = Ok bs -> List.concat cs = bs -> run_writes cs d 0 = (d', n, ok) ->
  n = lenN (d_acc d') - lenN (d_acc d)
  /\ d_acc d' = d_acc d ++ takeN n bs /\ n <= lenN bs
  /\ (ok = true -> d_acc d' = d_acc d ++ bs /\ n = lenN bs)
  /\ (ok = true <-> match d_budget d with None => True | Some k => lenN bs <= k end).
Proof.
  intros _ E H. subst bs.
  destruct (run_writes_count_exact _ _ _ _ _ H) as [_ Hn].
  destruct (run_writes_prefix _ _ _ _ _ H) as [k [Hk [Ek Lk]]]. subst k.
  pose proof (run_writes_spec cs d 0) as S. rewrite H in S. destruct S as [A [Nn O]].
  split; [exact Hn|]. split; [exact Hk|]. split; [exact Lk|]. split.
  - intros T. rewrite T in O. unfold accepted in *. destruct (d_budget d) as [k|].
    + symmetry in O. apply N.leb_le in O. destruct (d_mode d).
      * rewrite fit_prefix_all in * by exact O. split; [exact A|lia].
      * rewrite takeN_all in * by exact O. split; [exact A|lia].
    + split; [exact A|lia].
  - rewrite O. destruct (d_budget d) as [k|]; [|tauto]. split; intros T; [apply N.leb_le|apply N.leb_le]; exact T.
Qed.
