(* Proofs/CborTokens.v - the spec's liberal tokeniser inverts the spec's
   shortest-form token encoder; consequences for EncodeInt / EncodeTextString. *)
From Coq Require Import Lia ZifyN ZifyNat ZifyBool.
From WP Require Import Base.Prelude Model.Cbor Spec.Cbor
  Proofs.BaseLemmas Proofs.CborHead Proofs.CborUtf8.
Ltac Zify.zify_post_hook ::= Z.div_mod_to_equations.
Open Scope N_scope.

(* one unfolding of stokens_fuel on a non-empty input *)
Definition tok_step (f : nat) (bs : bytes) : option (list (token * N)) :=
  match shead bs with
  | None => None
  | Some (mt, arg, w, r) =>
      let k (t : token) (r' : bytes) :=
        match stokens_fuel f r' with
        | Some l => Some ((t, w) :: l)
        | None => None
        end in
      if mt =? 0 then k (TUint arg) r
      else if mt =? 1 then k (TNint arg) r
      else if mt =? 2 then
        match splitN r arg with
        | Some (s, r') => k (TBytes s) r'
        | None => None
        end
      else if mt =? 3 then
        match splitN r arg with
        | Some (s, r') => if sutf8_valid s then k (TText s) r' else None
        | None => None
        end
      else if mt =? 4 then k (TArr arg) r
      else if mt =? 5 then k (TMap arg) r
      else if (mt =? 7) && (w =? 0) && (arg =? 20) then k (TBool false) r
      else if (mt =? 7) && (w =? 0) && (arg =? 21) then k (TBool true) r
      else None
  end.

Lemma stokens_fuel_S (f : nat) (bs : bytes) :
  bs <> [] -> stokens_fuel (S f) bs = tok_step f bs.
Proof. destruct bs; [contradiction|reflexivity]. Qed.

Lemma senc_token_nonempty (t : token) : senc_token t <> [].
Proof.
  destruct t; cbn [senc_token]; try apply senc_head_nonempty; try discriminate;
    intros H; apply app_eq_nil in H; destruct H as [H _]; exact (senc_head_nonempty _ _ H).
Qed.

Definition with_width (t : token) : token * N := (t, min_width (tok_arg t)).

Lemma stokens_step (t : token) (rest : bytes) (f : nat) :
  tok_wf t ->
  stokens_fuel (S f) (senc_token t ++ rest) =
  match stokens_fuel f rest with
  | Some l => Some (with_width t :: l)
  | None => None
  end.
Proof.
  intros [Harg Hu].
  rewrite stokens_fuel_S
    by (intros H; apply app_eq_nil in H; destruct H as [H _]; exact (senc_token_nonempty _ H)).
  unfold tok_step, with_width.
  destruct t as [n|n|b|b|n|n|b]; cbn [senc_token tok_arg] in *.
  - rewrite shead_senc_head by (lia || exact Harg). reflexivity.
  - rewrite shead_senc_head by (lia || exact Harg). reflexivity.
  - rewrite <- app_assoc, shead_senc_head by (lia || exact Harg).
    cbn [N.eqb Pos.eqb]. rewrite splitN_app. reflexivity.
  - rewrite <- app_assoc, shead_senc_head by (lia || exact Harg).
    cbn [N.eqb Pos.eqb]. rewrite splitN_app.
    rewrite (proj2 (sutf8_valid_correct b) Hu). reflexivity.
  - rewrite shead_senc_head by (lia || exact Harg). reflexivity.
  - rewrite shead_senc_head by (lia || exact Harg). reflexivity.
  - destruct b; cbn [app].
    + change (245 :: rest) with ((32 * 7 + 21) :: rest).
      rewrite shead_direct by lia. reflexivity.
    + change (244 :: rest) with ((32 * 7 + 20) :: rest).
      rewrite shead_direct by lia. reflexivity.
Qed.

Lemma stokens_fuel_senc (toks : list token) : Forall tok_wf toks ->
  forall fuel, (List.length (senc_tokens toks) <= fuel)%nat ->
  stokens_fuel fuel (senc_tokens toks) = Some (map with_width toks).
Proof.
  induction 1 as [|t toks Ht Hts IH]; intros fuel Hlen.
  - destruct fuel; reflexivity.
  - unfold senc_tokens in *. cbn [flat_map map] in *.
    rewrite app_length in Hlen.
    assert (Hne : (1 <= List.length (senc_token t))%nat).
    { pose proof (senc_token_nonempty t) as Hn.
      destruct (senc_token t); [contradiction|cbn; lia]. }
    destruct fuel as [|f]; [lia|].
    rewrite stokens_step by exact Ht. rewrite IH by lia. reflexivity.
Qed.

(* every writable token sequence, encoded in shortest form, tokenises back to
   itself and every head is reported with its minimal width *)
Theorem stokens_senc_tokens (toks : list token) :
  Forall tok_wf toks -> stokens (senc_tokens toks) = Some (map with_width toks).
Proof. intros H. apply stokens_fuel_senc; [exact H|apply Nat.le_refl]. Qed.

Lemma with_width_shortest (toks : list token) : Forall tok_shortest (map with_width toks).
Proof.
  apply Forall_forall. intros tw Hin. apply in_map_iff in Hin.
  destruct Hin as [t [E _]]. subst tw. reflexivity.
Qed.

Lemma with_width_fst (toks : list token) : map fst (map with_width toks) = toks.
Proof. rewrite map_map. cbn [with_width fst]. apply map_id. Qed.

Lemma senc_tokens_app (a b : list token) :
  senc_tokens (a ++ b) = senc_tokens a ++ senc_tokens b.
Proof. apply flat_map_app. Qed.

Lemma senc_tokens_single (t : token) : senc_tokens [t] = senc_token t.
Proof. unfold senc_tokens. cbn [flat_map]. apply app_nil_r. Qed.

(* ---- C11 enc_int_correct ------------------------------------------------- *)
Definition int_token (z : Z) : token :=
  if (0 <=? z)%Z then TUint (Z.to_N z) else TNint (Z.to_N (-1 - z)).

Lemma enc_int_token (z : Z) :
  (- Z.of_N two63 <= z < Z.of_N two63)%Z -> enc_int z = senc_token (int_token z).
Proof.
  intros Hz. rewrite enc_int_senc by exact Hz. unfold int_token.
  destruct (0 <=? z)%Z; reflexivity.
Qed.

Lemma int_token_wf (z : Z) :
  (- Z.of_N two63 <= z < Z.of_N two63)%Z -> tok_wf (int_token z).
Proof.
  intros Hz. unfold int_token, tok_wf, two63, two64 in *.
  destruct (0 <=? z)%Z eqn:Hs; cbn [tok_arg]; split; try exact I; lia.
Qed.

Theorem enc_int_correct (z : Z) :
  (- Z.of_N two63 <= z < Z.of_N two63)%Z ->
  exists t w,
    stokens (enc_int z) = Some [(t, w)] /\ tok_int t = Some z /\ shortest (tok_arg t) w /\
    ((0 <= z)%Z -> t = TUint (Z.to_N z)) /\ ((z < 0)%Z -> t = TNint (Z.to_N (-1 - z))).
Proof.
  intros Hz. exists (int_token z), (min_width (tok_arg (int_token z))).
  split; [|split; [|split; [reflexivity|]]].
  - rewrite enc_int_token by exact Hz. rewrite <- senc_tokens_single.
    apply (stokens_senc_tokens [int_token z]). constructor; [apply int_token_wf; exact Hz|constructor].
  - unfold int_token. destruct (0 <=? z)%Z eqn:Hs; cbn [tok_int]; f_equal; lia.
  - unfold int_token. destruct (0 <=? z)%Z eqn:Hs; split; intros H; try reflexivity; lia.
Qed.

(* ---- C11 enc_text_iff_utf8 ---------------------------------------------- *)
Theorem enc_text_iff_utf8 (bs : bytes) :
  (Utf8Valid bs -> enc_text bs = Ok (enc_bytes_of MText bs)) /\
  (~ Utf8Valid bs -> enc_text bs = Err).
Proof.
  unfold enc_text. destruct (utf8_valid bs) eqn:E; split; intros H; try reflexivity.
  - exfalso. apply H. apply utf8_dfa_correct. exact E.
  - apply utf8_dfa_correct in H. congruence.
Qed.

Corollary enc_text_ok_iff (bs : bytes) :
  enc_text bs = Ok (enc_bytes_of MText bs) <-> Utf8Valid bs.
Proof.
  rewrite <- utf8_dfa_correct. unfold enc_text.
  destruct (utf8_valid bs); split; intros H; try reflexivity; discriminate.
Qed.

Corollary enc_text_err_iff (bs : bytes) : enc_text bs = Err <-> ~ Utf8Valid bs.
Proof.
  rewrite <- utf8_dfa_correct. unfold enc_text.
  destruct (utf8_valid bs); split; intros H; try reflexivity; try discriminate; congruence.
Qed.

(* a successfully written text string reads back as one TText token *)
Theorem enc_text_token (bs out : bytes) :
  lenN bs < two64 -> enc_text bs = Ok out ->
  stokens out = Some [(TText bs, min_width (lenN bs))].
Proof.
  intros Hl H. unfold enc_text in H. destruct (utf8_valid bs) eqn:E; [|discriminate].
  inversion H; subst out. unfold enc_bytes_of.
  rewrite typed_uint_senc_head by (split; reflexivity).
  change (senc_head (MText / 32) (lenN bs) ++ bs) with (senc_token (TText bs)).
  rewrite <- senc_tokens_single.
  apply (stokens_senc_tokens [TText bs]). constructor; [|constructor].
  split; [exact Hl|]. apply utf8_dfa_correct. exact E.
Qed.

Theorem enc_bytes_token (bs : bytes) :
  lenN bs < two64 -> stokens (enc_bytes bs) = Some [(TBytes bs, min_width (lenN bs))].
Proof.
  intros Hl. unfold enc_bytes, enc_bytes_of.
  rewrite typed_uint_senc_head by (split; reflexivity).
  change (senc_head (MBytes / 32) (lenN bs) ++ bs) with (senc_token (TBytes bs)).
  rewrite <- senc_tokens_single.
  apply (stokens_senc_tokens [TBytes bs]). constructor; [|constructor].
  split; [exact Hl|exact I].
Qed.
