(* Proofs/TotalityAll.v - C10: the totality results already proved for the
   individual properties (C02, C05, C07, C08, C12, C16, C17), brought to the
   one shape  r <> Panic /\ r <> Fuel  ([total]), plus the calls made inside
   Exchange.Verify. *)
From Coq Require Import Lia.
From WP Require Import Base.Prelude Model.Cbor Model.Http Model.StructHdr Model.Mice Model.CertChain
  Model.Sxg Model.Bundle Model.IntegrityBlock.
From WP Require Import Proofs.CborDecode Proofs.TotalityBase Proofs.TotalityMice.
From WP Require Proofs.SHRoundtrip Proofs.CertChainRead Proofs.SxgRoundtrip Proofs.SxgSign
  Proofs.BundleReadBounds Proofs.BundleReadTotal Proofs.IntegrityBlockSign.
Open Scope N_scope.

Theorem cbor_decode_total (bs : bytes) :
  total (decode_uint bs) /\ total (decode_array_header bs) /\ total (decode_map_header bs) /\
  total (decode_bytes bs) /\ total (decode_text bs).
Proof.
  destruct (decode_never_panics bs) as (H1 & H2 & H3 & H4 & H5).
  repeat split; apply ok_or_err_total; assumption.
Qed.

Theorem parse_parameterised_list_total (s : bytes) : total (parse_parameterised_list s).
Proof. exact (SHRoundtrip.parse_plist_no_panic_no_fuel s). Qed.

Theorem parse_list_of_lists_total (s : bytes) : total (parse_list_of_lists s).
Proof. exact (SHRoundtrip.parse_lol_no_panic_no_fuel s). Qed.

Theorem cc_read_total (x509_ok : bytes -> bool) (bs : bytes) : total (cc_read x509_ok bs).
Proof. apply ok_or_err_total, CertChainRead.read_total. Qed.

Theorem sxg_read_total (bs : bytes) : total (read bs).
Proof. apply ok_or_err_total, SxgRoundtrip.read_never_panics. Qed.

Theorem sxg_read_prologue_total (bs : bytes) : total (read_prologue bs).
Proof. apply ok_or_err_total, SxgRoundtrip.read_prologue_total. Qed.

Theorem signed_message_total (e : exchange) (cert : option bytes) (validity : bytes) (date expires : Z) :
  total (signed_message e cert validity date expires).
Proof.
  pose proof (SxgSign.signed_message_ok_or_err e cert validity date expires) as H.
  destruct (signed_message e cert validity date expires); try contradiction; split; discriminate.
Qed.

(* Exchange.Verify answers in [verdict] (Valid / Invalid / Undecided), which has
   no Panic or Fuel; where the model maps a non-Ok inner result to "skip this
   signature", that inner result is in fact never Panic or Fuel *)
Theorem sxg_verify_calls_total (H256 : bytes -> bytes) (x509_ok : bytes -> bool) (e : exchange)
    (cert : option bytes) (validity : bytes) (date expires : Z) (chain digest : bytes) :
  total (parse_parameterised_list (e_sig e)) /\
  total (signed_message e cert validity date expires) /\
  total (cc_read x509_ok chain) /\
  total (decode_all H256 (mice_of (e_ver e)) (e_payload e) digest 16384 512).
Proof.
  split; [apply parse_parameterised_list_total|].
  split; [apply signed_message_total|].
  split; [apply cc_read_total|apply decode_all_total].
Qed.

Theorem b_read_total (x509_ok : bytes -> bool) (bs : bytes) :
  lenN bs < two64 -> total (b_read x509_ok bs).
Proof.
  intros L. split; [apply BundleReadBounds.read_no_panic|apply BundleReadBounds.read_terminates]; exact L.
Qed.

Theorem load_response_total (item : bytes) : total (load_response item).
Proof. apply ok_or_err_total, BundleReadTotal.load_response_total. Qed.

Theorem parse_signatures_total (x509_ok : bytes -> bool) (bs : bytes) : total (parse_signatures x509_ok bs).
Proof. apply ok_or_err_total, BundleReadTotal.parse_signatures_total. Qed.

Theorem obtain_total (file : bytes) : total (obtain file).
Proof.
  destruct (IntegrityBlockSign.obtain_never_panics file) as [E|E]; rewrite E;
    [apply total_Err|apply total_Ok].
Qed.
