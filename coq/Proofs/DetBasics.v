(* C13, part 1: unfolding lemmas for the model, characterisation of uint_det,
   result bounds (slice safety / progress) and termination.                 *)
From Coq Require Import Lia ZifyN ZifyNat ZifyBool.
From WP Require Import Base.Prelude Model.Cbor Model.Det Spec.Det Proofs.DetLemmas.
Open Scope N_scope.
Ltac Zify.zify_post_hook ::= Z.div_mod_to_equations.

(* ---- bind --------------------------------------------------------------- *)
Lemma bind_ok {A B} (x : R A) (k : A -> R B) (y : B) :
  bind x k = Ok y -> exists a, x = Ok a /\ k a = Ok y.
Proof. destruct x as [a| | |]; cbn [bind]; intros H; try discriminate. exists a. split; [reflexivity|exact H]. Qed.

(* ---- unfolding lemmas --------------------------------------------------- *)
Lemma det_rec_0 input : det_rec 0 input = Fuel.
Proof. reflexivity. Qed.
Lemma arr_loop_0 cnt start input : arr_loop 0 cnt start input = Fuel.
Proof. reflexivity. Qed.
Lemma map_loop_0 idx total start last input : map_loop 0 idx total start last input = Fuel.
Proof. reflexivity. Qed.

Lemma det_rec_S_nil f : det_rec (S f) [] = Panic.
Proof. reflexivity. Qed.

Lemma det_rec_S_cons f b r :
  det_rec (S f) (b :: r) =
  if major b =? TPos then let* (l, _) := uint_det (b :: r) in Ok (l + 1)
  else if (major b =? TBytes) || (major b =? TText) then let* l := str_det (b :: r) in Ok (l + 1)
  else if major b =? TArray then
    let* (ln, num) := uint_det (b :: r) in
    if lenN (b :: r) <? num then Err else arr_loop f num (1 + ln) (b :: r)
  else if major b =? TMap then
    let* (ln, num) := uint_det (b :: r) in
    if lenN (b :: r) <? num then Err else map_loop f 0 (num * 2) (1 + ln) [] (b :: r)
  else Err.
Proof. reflexivity. Qed.

Lemma det_rec_pos f b r : major b = TPos ->
  det_rec (S f) (b :: r) = let* (l, _) := uint_det (b :: r) in Ok (l + 1).
Proof. intros E. rewrite det_rec_S_cons, E. reflexivity. Qed.

Lemma det_rec_str f b r : major b = TBytes \/ major b = TText ->
  det_rec (S f) (b :: r) = let* l := str_det (b :: r) in Ok (l + 1).
Proof. intros [E|E]; rewrite det_rec_S_cons, E; reflexivity. Qed.

Lemma det_rec_arr f b r : major b = TArray ->
  det_rec (S f) (b :: r) =
  let* (ln, num) := uint_det (b :: r) in
  if lenN (b :: r) <? num then Err else arr_loop f num (1 + ln) (b :: r).
Proof. intros E. rewrite det_rec_S_cons, E. reflexivity. Qed.

Lemma det_rec_map f b r : major b = TMap ->
  det_rec (S f) (b :: r) =
  let* (ln, num) := uint_det (b :: r) in
  if lenN (b :: r) <? num then Err else map_loop f 0 (num * 2) (1 + ln) [] (b :: r).
Proof. intros E. rewrite det_rec_S_cons, E. reflexivity. Qed.

Lemma det_rec_other f b r :
  major b <> TPos -> major b <> TBytes -> major b <> TText ->
  major b <> TArray -> major b <> TMap ->
  det_rec (S f) (b :: r) = Err.
Proof.
  intros E0 E2 E3 E4 E5. rewrite det_rec_S_cons.
  destruct (N.eqb_spec (major b) TPos); [contradiction|].
  destruct (N.eqb_spec (major b) TBytes); [contradiction|].
  destruct (N.eqb_spec (major b) TText); [contradiction|].
  destruct (N.eqb_spec (major b) TArray); [contradiction|].
  destruct (N.eqb_spec (major b) TMap); [contradiction|].
  reflexivity.
Qed.

Lemma arr_loop_S f cnt start input :
  arr_loop (S f) cnt start input =
  if cnt =? 0 then Ok start
  else if lenN input <=? start then Panic
  else let* suffix := drop_from input start in
       let* l := det_rec f suffix in
       arr_loop f (cnt - 1) (start + l) input.
Proof. reflexivity. Qed.

Lemma map_loop_S f idx total start last input :
  map_loop (S f) idx total start last input =
  if total <=? idx then Ok start
  else if lenN input <=? start then Panic
  else let* suffix := drop_from input start in
       let* l := det_rec f suffix in
       if N.even idx then
         match splitN suffix l with
         | None => Panic
         | Some (key, _) =>
             match bytes_cmp last key with
             | Lt => map_loop f (idx + 1) total (start + l) key input
             | _ => Err
             end
         end
       else map_loop f (idx + 1) total (start + l) last input.
Proof. reflexivity. Qed.

Lemma det_top_S f index input :
  det_top (S f) index input =
  if lenN input <=? index then Ok tt
  else let* suffix := drop_from input index in
       let* l := det_rec f suffix in
       det_top f (index + l) input.
Proof. reflexivity. Qed.

Global Opaque det_rec arr_loop map_loop det_top.

(* ---- drop_from ---------------------------------------------------------- *)
Lemma drop_from_app (pre suf : bytes) : drop_from (pre ++ suf) (lenN pre) = Ok suf.
Proof. unfold drop_from. rewrite splitN_app. reflexivity. Qed.

Lemma drop_from_ok input start s :
  drop_from input start = Ok s -> exists pre, input = pre ++ s /\ lenN pre = start.
Proof.
  unfold drop_from. destruct (splitN input start) as [[a b]|] eqn:E; [|discriminate].
  intros H; inversion H; subst. apply splitN_some in E. exists a. exact E.
Qed.

Lemma drop_from_nofuel input start : drop_from input start <> Fuel.
Proof. unfold drop_from. destruct (splitN input start) as [[a b]|]; discriminate. Qed.

Lemma take_exists {A} (l : list A) (n : N) :
  n <= lenN l -> exists a b, l = a ++ b /\ lenN a = n.
Proof.
  intros H. destruct (splitN l n) as [[a b]|] eqn:E.
  - exists a, b. apply splitN_some. exact E.
  - apply splitN_none in E. lia.
Qed.

(* ---- parity ------------------------------------------------------------- *)
Lemma even_true_mod2 n : N.even n = true <-> n mod 2 = 0.
Proof.
  split; intros H.
  - apply N.even_spec in H. destruct H as [m Hm]. lia.
  - apply N.even_spec. exists (n / 2). lia.
Qed.

Lemma even_false_mod2 n : N.even n = false <-> n mod 2 = 1.
Proof.
  split; intros H.
  - assert (O : N.odd n = true) by (rewrite <- N.negb_even, H; reflexivity).
    apply N.odd_spec in O. destruct O as [m Hm]. lia.
  - destruct (N.even n) eqn:E; [|reflexivity]. apply even_true_mod2 in E. lia.
Qed.

(* ---- heads -------------------------------------------------------------- *)
Lemma Head_first mt v h : Head mt v h ->
  exists b fb, h = b :: fb /\ major b = mt * 32 /\ b < 256.
Proof.
  intros H. destruct H as [M A|M A1 A2|M A1 A2|M A1 A2|M A1 A2];
    eexists; eexists; (split; [reflexivity|]); (split; [apply major_mk; lia | lia]).
Qed.

Lemma Head_len mt v h : Head mt v h -> 1 <= lenN h <= 9.
Proof.
  intros H. destruct H as [M A|M A1 A2|M A1 A2|M A1 A2|M A1 A2];
    rewrite lenN_cons; try rewrite lenN_be; cbn [lenN]; lia.
Qed.

Lemma Head_wfb mt v h : Head mt v h -> wfb h.
Proof.
  intros H. destruct H as [M A|M A1 A2|M A1 A2|M A1 A2|M A1 A2];
    apply wfb_cons; (split; [lia|]); try apply wfb_be; apply wfb_nil.
Qed.

Lemma Head_arg_lt mt v h : Head mt v h -> v < 18446744073709551616.
Proof. intros H. destruct H; lia. Qed.

Lemma splitN_be k v rest : splitN (be k v ++ rest) (N.of_nat k) = Some (be k v, rest).
Proof. rewrite <- (lenN_be k v). apply splitN_app. Qed.

(* completeness of uint_det: a shortest head is accepted, with its argument *)
Lemma uint_det_complete mt v h rest :
  Head mt v h -> uint_det (h ++ rest) = Ok (lenN h - 1, v).
Proof.
  intros H. destruct H as [M A|M A1 A2|M A1 A2|M A1 A2|M A1 A2]; cbn [app]; unfold uint_det.
  - rewrite addinfo_mk by lia.
    destruct (N.leb_spec 28 v); [lia|]. destruct (N.ltb_spec v 24); [|lia].
    reflexivity.
  - rewrite addinfo_mk by lia.
    change (28 <=? 24) with false. change (24 <? 24) with false. cbv iota.
    change (nfollow_of 24) with (N.of_nat 1). rewrite splitN_be.
    rewrite unbe_be by (change (256 ^ N.of_nat 1) with 256; lia).
    change (ai_limit 24) with 24. destruct (N.ltb_spec v 24); [lia|].
    rewrite lenN_cons, lenN_be. f_equal.
  - rewrite addinfo_mk by lia.
    change (28 <=? 25) with false. change (25 <? 24) with false. cbv iota.
    change (nfollow_of 25) with (N.of_nat 2). rewrite splitN_be.
    rewrite unbe_be by (change (256 ^ N.of_nat 2) with 65536; lia).
    change (ai_limit 25) with 256. destruct (N.ltb_spec v 256); [lia|].
    rewrite lenN_cons, lenN_be. f_equal.
  - rewrite addinfo_mk by lia.
    change (28 <=? 26) with false. change (26 <? 24) with false. cbv iota.
    change (nfollow_of 26) with (N.of_nat 4). rewrite splitN_be.
    rewrite unbe_be by (change (256 ^ N.of_nat 4) with 4294967296; lia).
    change (ai_limit 26) with 65536. destruct (N.ltb_spec v 65536); [lia|].
    rewrite lenN_cons, lenN_be. f_equal.
  - rewrite addinfo_mk by lia.
    change (28 <=? 27) with false. change (27 <? 24) with false. cbv iota.
    change (nfollow_of 27) with (N.of_nat 8). rewrite splitN_be.
    rewrite unbe_be by (change (256 ^ N.of_nat 8) with 18446744073709551616; lia).
    change (ai_limit 27) with 4294967296. destruct (N.ltb_spec v 4294967296); [lia|].
    rewrite lenN_cons, lenN_be. f_equal.
Qed.

Lemma follow_head (k : nat) (f : bytes) :
  wfb f -> lenN f = N.of_nat k -> be k (unbe f) = f /\ unbe f < 256 ^ N.of_nat k.
Proof.
  intros W L. assert (E : List.length f = k) by (rewrite lenN_length in L; lia).
  subst k. split; [apply be_unbe | apply unbe_lt]; exact W.
Qed.

(* no wfb needed: an accepted head lies inside the input *)
Lemma uint_det_bound input w v : uint_det input = Ok (w, v) -> 1 + w <= lenN input.
Proof.
  unfold uint_det. destruct input as [|b r]; [discriminate|]. cbv zeta.
  destruct (28 <=? addinfo b); [discriminate|].
  destruct (addinfo b <? 24).
  - intros H; inversion H; subst. rewrite lenN_cons. lia.
  - destruct (splitN r (nfollow_of (addinfo b))) as [[f r']|] eqn:S; [|discriminate].
    destruct (unbe f <? ai_limit (addinfo b)); [discriminate|].
    intros H; inversion H; subst. apply splitN_some in S. destruct S as [S1 S2].
    subst r. rewrite lenN_cons, lenN_app. lia.
Qed.

Lemma uint_det_nofuel input : uint_det input <> Fuel.
Proof.
  unfold uint_det. destruct input as [|b r]; [discriminate|]. cbv zeta.
  destruct (28 <=? addinfo b); [discriminate|].
  destruct (addinfo b <? 24); [discriminate|].
  destruct (splitN r (nfollow_of (addinfo b))) as [[f r']|]; [|discriminate].
  destruct (unbe f <? ai_limit (addinfo b)); discriminate.
Qed.

(* soundness of uint_det: what it accepts is a shortest head *)
Lemma uint_det_sound input w v :
  wfb input -> uint_det input = Ok (w, v) ->
  exists b fb rest,
    input = (b :: fb) ++ rest /\ lenN fb = w /\ Head (b / 32) v (b :: fb).
Proof.
  intros W. unfold uint_det. destruct input as [|b r]; [discriminate|]. cbv zeta.
  apply wfb_cons in W. destruct W as [Hb Wr].
  assert (Hmt : b / 32 < 8) by lia.
  unfold addinfo.
  destruct (N.leb_spec 28 (b mod 32)) as [G|G]; [discriminate|].
  destruct (N.ltb_spec (b mod 32) 24) as [L|L].
  - intros H; inversion H; subst w v. exists b, [], r. split; [reflexivity|]. split; [reflexivity|].
    pose proof (Head_direct (b / 32) (b mod 32) Hmt L) as Hd.
    rewrite <- byte_split in Hd. exact Hd.
  - assert (C : b mod 32 = 24 \/ b mod 32 = 25 \/ b mod 32 = 26 \/ b mod 32 = 27) by lia.
    destruct C as [C|[C|[C|C]]]; rewrite C;
    (destruct (splitN r (nfollow_of _)) as [[f r']|] eqn:S; [|discriminate]);
    apply splitN_some in S; destruct S as [S1 S2]; subst r;
    apply wfb_app in Wr; destruct Wr as [Wf Wr'].
    + change (nfollow_of 24) with (N.of_nat 1) in *. change (ai_limit 24) with 24.
      destruct (follow_head 1 f Wf S2) as [F1 F2]. change (256 ^ N.of_nat 1) with 256 in F2.
      destruct (N.ltb_spec (unbe f) 24) as [L2|L2]; [discriminate|].
      intros H; inversion H; subst w v. exists b, f, r'. split; [reflexivity|]. split; [exact S2|].
      pose proof (Head_1 (b / 32) (unbe f) Hmt L2 F2) as Hd.
      rewrite F1 in Hd. replace (b / 32 * 32 + 24) with b in Hd by lia. exact Hd.
    + change (nfollow_of 25) with (N.of_nat 2) in *. change (ai_limit 25) with 256.
      destruct (follow_head 2 f Wf S2) as [F1 F2]. change (256 ^ N.of_nat 2) with 65536 in F2.
      destruct (N.ltb_spec (unbe f) 256) as [L2|L2]; [discriminate|].
      intros H; inversion H; subst w v. exists b, f, r'. split; [reflexivity|]. split; [exact S2|].
      pose proof (Head_2 (b / 32) (unbe f) Hmt L2 F2) as Hd.
      rewrite F1 in Hd. replace (b / 32 * 32 + 25) with b in Hd by lia. exact Hd.
    + change (nfollow_of 26) with (N.of_nat 4) in *. change (ai_limit 26) with 65536.
      destruct (follow_head 4 f Wf S2) as [F1 F2]. change (256 ^ N.of_nat 4) with 4294967296 in F2.
      destruct (N.ltb_spec (unbe f) 65536) as [L2|L2]; [discriminate|].
      intros H; inversion H; subst w v. exists b, f, r'. split; [reflexivity|]. split; [exact S2|].
      pose proof (Head_4 (b / 32) (unbe f) Hmt L2 F2) as Hd.
      rewrite F1 in Hd. replace (b / 32 * 32 + 26) with b in Hd by lia. exact Hd.
    + change (nfollow_of 27) with (N.of_nat 8) in *. change (ai_limit 27) with 4294967296.
      destruct (follow_head 8 f Wf S2) as [F1 F2].
      change (256 ^ N.of_nat 8) with 18446744073709551616 in F2.
      destruct (N.ltb_spec (unbe f) 4294967296) as [L2|L2]; [discriminate|].
      intros H; inversion H; subst w v. exists b, f, r'. split; [reflexivity|]. split; [exact S2|].
      pose proof (Head_8 (b / 32) (unbe f) Hmt L2 F2) as Hd.
      rewrite F1 in Hd. replace (b / 32 * 32 + 27) with b in Hd by lia. exact Hd.
Qed.

(* ---- str_det ------------------------------------------------------------ *)
Lemma str_det_ok input l :
  str_det input = Ok l ->
  exists ul sl, uint_det input = Ok (ul, sl) /\ l = ul + sl /\ ul + sl < lenN input.
Proof.
  unfold str_det. intros H. apply bind_ok in H. destruct H as [[ul sl] [U H]].
  destruct (N.leb_spec (lenN input) sl) as [A|A]; cbn [orb] in H; [discriminate|].
  destruct (N.leb_spec (lenN input) (ul + sl)) as [B|B]; [discriminate|].
  inversion H; subst. exists ul, sl. split; [exact U|]. split; [reflexivity|exact B].
Qed.

Lemma str_det_nofuel input : str_det input <> Fuel.
Proof.
  unfold str_det. pose proof (uint_det_nofuel input) as U.
  destruct (uint_det input) as [[ul sl]| | |]; cbn [bind]; try discriminate; [|congruence].
  destruct ((lenN input <=? sl) || (lenN input <=? ul + sl)); discriminate.
Qed.

(* ---- result bounds: slice safety and progress -------------------------- *)
Definition bounds_rec (f : nat) : Prop :=
  forall input l, det_rec f input = Ok l -> 1 <= l /\ l <= lenN input.
Definition bounds_arr (f : nat) : Prop :=
  forall cnt start input l, arr_loop f cnt start input = Ok l ->
    1 <= start -> start <= lenN input -> 1 <= l /\ l <= lenN input.
Definition bounds_map (f : nat) : Prop :=
  forall idx total start last input l, map_loop f idx total start last input = Ok l ->
    1 <= start -> start <= lenN input -> 1 <= l /\ l <= lenN input.

Lemma bounds_all f : bounds_rec f /\ bounds_arr f /\ bounds_map f.
Proof.
  induction f as [|f [IHr [IHa IHm]]].
  - repeat split; intros; discriminate.
  - assert (Hrec : bounds_rec (S f)).
    { intros input l H. destruct input as [|b r]; [discriminate|].
      rewrite det_rec_S_cons in H.
      destruct (major b =? TPos).
      { apply bind_ok in H. destruct H as [[w v] [U H]]. inversion H; subst.
        apply uint_det_bound in U. lia. }
      destruct ((major b =? TBytes) || (major b =? TText)).
      { apply bind_ok in H. destruct H as [l0 [U H]]. inversion H; subst.
        apply str_det_ok in U. destruct U as [ul [sl [U [E B]]]]. lia. }
      destruct (major b =? TArray).
      { apply bind_ok in H. destruct H as [[ln num] [U H]].
        destruct (lenN (b :: r) <? num); [discriminate|].
        apply uint_det_bound in U. eapply IHa; [exact H|lia|lia]. }
      destruct (major b =? TMap).
      { apply bind_ok in H. destruct H as [[ln num] [U H]].
        destruct (lenN (b :: r) <? num); [discriminate|].
        apply uint_det_bound in U. eapply IHm; [exact H|lia|lia]. }
      discriminate. }
    split; [exact Hrec|]. split.
    + intros cnt start input l H S1 S2. rewrite arr_loop_S in H.
      destruct (cnt =? 0); [inversion H; subst; lia|].
      destruct (N.leb_spec (lenN input) start) as [A|A]; [discriminate|].
      apply bind_ok in H. destruct H as [suffix [D H]].
      apply bind_ok in H. destruct H as [l1 [Rr H]].
      apply drop_from_ok in D. destruct D as [pre [E1 E2]].
      apply IHr in Rr. eapply IHa; [exact H|lia|].
      subst input. rewrite lenN_app. lia.
    + intros idx total start last input l H S1 S2. rewrite map_loop_S in H.
      destruct (total <=? idx); [inversion H; subst; lia|].
      destruct (N.leb_spec (lenN input) start) as [A|A]; [discriminate|].
      apply bind_ok in H. destruct H as [suffix [D H]].
      apply bind_ok in H. destruct H as [l1 [Rr H]].
      apply drop_from_ok in D. destruct D as [pre [E1 E2]].
      apply IHr in Rr.
      assert (B : start + l1 <= lenN input) by (subst input; rewrite lenN_app; lia).
      destruct (N.even idx).
      * destruct (splitN suffix l1) as [[key rest]|]; [|discriminate].
        destruct (bytes_cmp last key); try discriminate.
        eapply IHm; [exact H|lia|exact B].
      * eapply IHm; [exact H|lia|exact B].
Qed.

Lemma det_rec_bounds f input l : det_rec f input = Ok l -> 1 <= l /\ l <= lenN input.
Proof. apply (proj1 (bounds_all f)). Qed.

(* ---- termination: the fuel is never exhausted -------------------------- *)
Definition nofuel_rec (f : nat) : Prop :=
  forall input, 2 * lenN input <= N.of_nat f -> 1 <= N.of_nat f -> det_rec f input <> Fuel.
Definition nofuel_arr (f : nat) : Prop :=
  forall cnt start input, 2 * (lenN input - start) + 1 <= N.of_nat f ->
    arr_loop f cnt start input <> Fuel.
Definition nofuel_map (f : nat) : Prop :=
  forall idx total start last input, 2 * (lenN input - start) + 1 <= N.of_nat f ->
    map_loop f idx total start last input <> Fuel.

Lemma nofuel_all f : nofuel_rec f /\ nofuel_arr f /\ nofuel_map f.
Proof.
  induction f as [|f [IHr [IHa IHm]]].
  - repeat split; intro; intros; lia.
  - split; [|split].
    + intros input F1 F2. destruct input as [|b r]; [rewrite det_rec_S_nil; discriminate|].
      rewrite det_rec_S_cons.
      destruct (major b =? TPos).
      { pose proof (uint_det_nofuel (b :: r)) as U.
        destruct (uint_det (b :: r)) as [[w v]| | |]; cbn [bind]; congruence. }
      destruct ((major b =? TBytes) || (major b =? TText)).
      { pose proof (str_det_nofuel (b :: r)) as U.
        destruct (str_det (b :: r)) as [l| | |]; cbn [bind]; congruence. }
      destruct (major b =? TArray).
      { pose proof (uint_det_nofuel (b :: r)) as U.
        destruct (uint_det (b :: r)) as [[ln num]| | |] eqn:E; cbn [bind]; try congruence.
        destruct (lenN (b :: r) <? num); [discriminate|].
        apply IHa. rewrite lenN_cons in *. lia. }
      destruct (major b =? TMap).
      { pose proof (uint_det_nofuel (b :: r)) as U.
        destruct (uint_det (b :: r)) as [[ln num]| | |] eqn:E; cbn [bind]; try congruence.
        destruct (lenN (b :: r) <? num); [discriminate|].
        apply IHm. rewrite lenN_cons in *. lia. }
      discriminate.
    + intros cnt start input F1. rewrite arr_loop_S.
      destruct (cnt =? 0); [discriminate|].
      destruct (N.leb_spec (lenN input) start) as [A|A]; [discriminate|].
      pose proof (drop_from_nofuel input start) as Dn.
      destruct (drop_from input start) as [suffix| | |] eqn:D; cbn [bind]; try congruence.
      apply drop_from_ok in D. destruct D as [pre [E1 E2]].
      assert (Ls : lenN input = start + lenN suffix) by (subst input; rewrite lenN_app; lia).
      assert (Rn : det_rec f suffix <> Fuel) by (apply IHr; lia).
      destruct (det_rec f suffix) as [l| | |] eqn:Rr; cbn [bind]; try congruence.
      apply det_rec_bounds in Rr. apply IHa. lia.
    + intros idx total start last input F1. rewrite map_loop_S.
      destruct (total <=? idx); [discriminate|].
      destruct (N.leb_spec (lenN input) start) as [A|A]; [discriminate|].
      pose proof (drop_from_nofuel input start) as Dn.
      destruct (drop_from input start) as [suffix| | |] eqn:D; cbn [bind]; try congruence.
      apply drop_from_ok in D. destruct D as [pre [E1 E2]].
      assert (Ls : lenN input = start + lenN suffix) by (subst input; rewrite lenN_app; lia).
      assert (Rn : det_rec f suffix <> Fuel) by (apply IHr; lia).
      destruct (det_rec f suffix) as [l| | |] eqn:Rr; cbn [bind]; try congruence.
      apply det_rec_bounds in Rr.
      destruct (N.even idx).
      * destruct (splitN suffix l) as [[key rest]|]; [|discriminate].
        destruct (bytes_cmp last key); try discriminate. apply IHm. lia.
      * apply IHm. lia.
Qed.

Lemma det_top_nofuel f : forall index input,
  2 * (lenN input - index) + 1 <= N.of_nat f -> det_top f index input <> Fuel.
Proof.
  induction f as [|f IH]; intros index input F1; [lia|].
  rewrite det_top_S.
  destruct (N.leb_spec (lenN input) index) as [A|A]; [discriminate|].
  pose proof (drop_from_nofuel input index) as Dn.
  destruct (drop_from input index) as [suffix| | |] eqn:D; cbn [bind]; try congruence.
  apply drop_from_ok in D. destruct D as [pre [E1 E2]].
  assert (Ls : lenN input = index + lenN suffix) by (subst input; rewrite lenN_app; lia).
  assert (Rn : det_rec f suffix <> Fuel) by (apply (proj1 (nofuel_all f)); lia).
  destruct (det_rec f suffix) as [l| | |] eqn:Rr; cbn [bind]; try congruence.
  apply det_rec_bounds in Rr. apply IH. lia.
Qed.

Lemma det_fuel_N bs : N.of_nat (det_fuel bs) = 2 * lenN bs + 2.
Proof. unfold det_fuel. rewrite lenN_length. lia. Qed.

Theorem det_check_terminates bs : det_check bs <> Diverge.
Proof.
  unfold det_check.
  assert (T : det_top (det_fuel bs) 0 bs <> Fuel).
  { apply det_top_nofuel. rewrite det_fuel_N. lia. }
  destruct (det_top (det_fuel bs) 0 bs) as [u| | |]; congruence.
Qed.
