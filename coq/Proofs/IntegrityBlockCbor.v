(* Proofs/IntegrityBlockCbor.v - C07, part 2: IntegrityBlock.CborBytes.
   Byte layout of the block, and: the block (and every attributes map) is a
   deterministic CBOR item, hence accepted by cbor.Deterministic. *)
From Coq Require Import Lia ZifyN ZifyNat ZifyBool Permutation Sorted.
From WP Require Import Base.Prelude Model.Cbor Model.Det Model.IntegrityBlock.
From WP Require Import Spec.Cbor Spec.Det.
From WP Require Import Proofs.BaseLemmas Proofs.CborHead Proofs.CborMap Proofs.CborUtf8.
From WP Require Import Proofs.DetSound Proofs.DetComplete Proofs.DetEnc Proofs.IntegrityBlockBase.
Ltac Zify.zify_post_hook ::= Z.div_mod_to_equations.
Open Scope N_scope.

(* one element of the signature stack: [attributes, signature] *)
Definition sig_item_bytes (ab sg : bytes) : bytes := enc_array_header 2 ++ ab ++ enc_bytes sg.

Inductive StackBytes : list isig -> list bytes -> Prop :=
| SB_nil : StackBytes [] []
| SB_cons (s : isig) (t : list isig) (ab : bytes) (items : list bytes) :
    attrs_cbor (is_attrs s) = Ok ab -> StackBytes t items ->
    StackBytes (s :: t) (sig_item_bytes ab (is_sig s) :: items).

Lemma StackBytes_lenN (l : list isig) (items : list bytes) :
  StackBytes l items -> lenN items = lenN l.
Proof. induction 1 as [|s t ab items Ha HS IH]; cbn [lenN]; [reflexivity|]. rewrite IH. reflexivity. Qed.

Lemma StackBytes_fun (l : list isig) (i1 i2 : list bytes) :
  StackBytes l i1 -> StackBytes l i2 -> i1 = i2.
Proof.
  intros H1. revert i2. induction H1 as [|s t ab items Ha HS IH]; intros i2 H2;
    inversion H2 as [|s' t' ab' items' Ha' HS']; subst; [reflexivity|].
  rewrite Ha in Ha'. injection Ha' as <-. rewrite (IH _ HS'). reflexivity.
Qed.

Lemma stack_cbor_ok_iff (l : list isig) (r : bytes) :
  stack_cbor l = Ok r <-> exists items, StackBytes l items /\ r = List.concat items.
Proof.
  revert r. induction l as [|s t IH]; intros r; cbn [stack_cbor].
  - split.
    + intros H. injection H as <-. exists []. split; [constructor|reflexivity].
    + intros [items [HS E]]. inversion HS; subst. reflexivity.
  - destruct (attrs_cbor (is_attrs s)) as [ab| | |] eqn:Ha; cbn [bind].
    + destruct (stack_cbor t) as [rt| | |] eqn:Ht; cbn [bind].
      * split.
        -- intros H. injection H as <-.
           destruct (proj1 (IH rt) eq_refl) as [items [HS E]]. subst rt.
           exists (sig_item_bytes ab (is_sig s) :: items).
           split; [constructor; assumption|].
           cbn [List.concat]. unfold sig_item_bytes. rewrite <- !app_assoc. reflexivity.
        -- intros [items [HS E]].
           inversion HS as [|s' t' ab' items' Ha' HS']; subst.
           rewrite Ha in Ha'. injection Ha' as <-.
           assert (Hrt : Ok rt = Ok (List.concat items'))
             by (apply IH; exists items'; split; [exact HS'|reflexivity]).
           injection Hrt as ->.
           cbn [List.concat]. unfold sig_item_bytes. rewrite <- !app_assoc. reflexivity.
      * split; [discriminate|]. intros [items [HS E]].
        inversion HS as [|s' t' ab' items' Ha' HS']; subst.
        assert (Hrt : Err = Ok (List.concat items'))
          by (apply IH; exists items'; split; [exact HS'|reflexivity]). discriminate.
      * split; [discriminate|]. intros [items [HS E]].
        inversion HS as [|s' t' ab' items' Ha' HS']; subst.
        assert (Hrt : Panic = Ok (List.concat items'))
          by (apply IH; exists items'; split; [exact HS'|reflexivity]). discriminate.
      * split; [discriminate|]. intros [items [HS E]].
        inversion HS as [|s' t' ab' items' Ha' HS']; subst.
        assert (Hrt : Fuel = Ok (List.concat items'))
          by (apply IH; exists items'; split; [exact HS'|reflexivity]). discriminate.
    + split; [discriminate|]. intros [items [HS E]].
      inversion HS as [|s' t' ab' items' Ha' HS']; subst. rewrite Ha in Ha'. discriminate.
    + split; [discriminate|]. intros [items [HS E]].
      inversion HS as [|s' t' ab' items' Ha' HS']; subst. rewrite Ha in Ha'. discriminate.
    + split; [discriminate|]. intros [items [HS E]].
      inversion HS as [|s' t' ab' items' Ha' HS']; subst. rewrite Ha in Ha'. discriminate.
Qed.

Lemma stack_cbor_ok_or_err (l : list isig) :
  stack_cbor l = Err \/ exists r, stack_cbor l = Ok r.
Proof.
  induction l as [|s t IH]; cbn [stack_cbor]; [right; eexists; reflexivity|].
  destruct (attrs_cbor_ok_or_err (is_attrs s)) as [E|[ab E]]; rewrite E; cbn [bind];
    [left; reflexivity|].
  destruct IH as [E'|[r E']]; rewrite E'; cbn [bind]; [left; reflexivity|].
  right. eexists. reflexivity.
Qed.

(* the bytes of the block, given the encoded stack elements *)
Definition block_bytes (n : N) (items : list bytes) : bytes :=
  [131] ++ (72 :: ib_magic) ++ (68 :: ib_version_b1) ++ enc_array_header n ++ List.concat items.

(* 0x83, bstr(8) magic, bstr(4) version, array head |stack|, then the elements *)
Theorem block_cbor_layout (b : iblock) (bs : bytes) :
  block_cbor b = Ok bs <->
  exists items, StackBytes (ib_stack b) items /\ bs = block_bytes (lenN (ib_stack b)) items.
Proof.
  unfold block_cbor, block_bytes.
  change (enc_array_header 3) with [131].
  change (enc_bytes ib_magic) with (72 :: ib_magic).
  change (enc_bytes ib_version_b1) with (68 :: ib_version_b1).
  destruct (stack_cbor (ib_stack b)) as [st| | |] eqn:Hs; cbn [bind].
  - apply stack_cbor_ok_iff in Hs. destruct Hs as [items [HS E]]. subst st. split.
    + intros H. injection H as <-. exists items. split; [exact HS|reflexivity].
    + intros [items' [HS' E']]. rewrite (StackBytes_fun _ _ _ HS HS'). rewrite E'. reflexivity.
  - split; [discriminate|]. intros [items [HS E]].
    assert (X : stack_cbor (ib_stack b) = Ok (List.concat items))
      by (apply stack_cbor_ok_iff; exists items; split; [exact HS|reflexivity]).
    rewrite Hs in X. discriminate.
  - split; [discriminate|]. intros [items [HS E]].
    assert (X : stack_cbor (ib_stack b) = Ok (List.concat items))
      by (apply stack_cbor_ok_iff; exists items; split; [exact HS|reflexivity]).
    rewrite Hs in X. discriminate.
  - split; [discriminate|]. intros [items [HS E]].
    assert (X : stack_cbor (ib_stack b) = Ok (List.concat items))
      by (apply stack_cbor_ok_iff; exists items; split; [exact HS|reflexivity]).
    rewrite Hs in X. discriminate.
Qed.

Lemma block_cbor_ok_or_err (b : iblock) :
  block_cbor b = Err \/ exists bs, block_cbor b = Ok bs.
Proof.
  unfold block_cbor. destruct (stack_cbor_ok_or_err (ib_stack b)) as [E|[r E]]; rewrite E; cbn [bind];
    [left; reflexivity|right; eexists; reflexivity].
Qed.

(* the empty block: 83 48 <magic> 44 <version> 80 *)
Lemma block_cbor_empty :
  block_cbor {| ib_stack := [] |} =
  Ok [131; 72; 240; 159; 150; 139; 240; 159; 147; 166; 68; 49; 98; 0; 0; 128].
Proof. reflexivity. Qed.

(* ---- determinism ----------------------------------------------------------- *)
Definition attrs_wf (a : attrs) : Prop :=
  attrs_small a /\ Forall (fun kv => wfb (snd kv)) a.
Definition isig_wf (s : isig) : Prop :=
  attrs_wf (is_attrs s) /\ wfb (is_sig s) /\ lenN (is_sig s) < two64.
Definition block_wf (b : iblock) : Prop :=
  lenN (ib_stack b) < two64 /\ Forall isig_wf (ib_stack b).

Lemma utf8_valid_wfb (k : bytes) : utf8_valid k = true -> wfb k.
Proof. intros H. apply Utf8Valid_wfb. apply utf8_dfa_correct. exact H. Qed.

Lemma attr_entry_PairOK (kv : bytes * bytes) :
  utf8_valid (fst kv) = true -> wfb (snd kv) ->
  lenN (fst kv) < two64 -> lenN (snd kv) < two64 -> PairOK (attr_entry kv).
Proof.
  intros Hu Wv Lk Lv. split; cbn [attr_entry fst snd].
  - unfold enc_bytes_of. apply DI_text; [|apply utf8_valid_wfb; exact Hu].
    apply (typed_uint_Head 3); [reflexivity|exact Lk].
  - apply enc_bytes_det; assumption.
Qed.

Theorem attrs_cbor_det (a : attrs) (ab : bytes) :
  attrs_wf a -> attrs_cbor a = Ok ab -> DetItem ab.
Proof.
  intros [[La Fa] Wa] H. apply attrs_cbor_ok_iff in H. destruct H as [Hu H].
  apply (enc_map_det (map attr_entry a)); [|rewrite lenN_map; exact La|exact H].
  apply Forall_map. unfold keys_utf8 in Hu. rewrite forallb_forall in Hu.
  rewrite Forall_forall in *. intros kv Hin.
  destruct (Fa kv Hin) as [Lk Lv].
  apply attr_entry_PairOK; auto.
Qed.

Lemma sig_item_det (ab sg : bytes) :
  DetItem ab -> wfb sg -> lenN sg < two64 -> DetItem (sig_item_bytes ab sg).
Proof.
  intros Da Ws Ls. unfold sig_item_bytes.
  assert (E : ab ++ enc_bytes sg = List.concat [ab; enc_bytes sg])
    by (cbn [List.concat]; rewrite app_nil_r; reflexivity).
  rewrite E. change 2 with (lenN [ab; enc_bytes sg]).
  apply enc_array_det; [|reflexivity].
  constructor; [exact Da|]. constructor; [|constructor]. apply enc_bytes_det; assumption.
Qed.

Lemma StackBytes_det (l : list isig) (items : list bytes) :
  Forall isig_wf l -> StackBytes l items -> Forall DetItem items.
Proof.
  intros HF HS. induction HS as [|s t ab items Ha HS IH]; [constructor|].
  inversion HF as [|x y [Wa [Ws Ls]] HF']; subst.
  constructor; [|apply IH; exact HF'].
  apply sig_item_det; [|exact Ws|exact Ls]. eapply attrs_cbor_det; eassumption.
Qed.

Lemma block_bytes_det (n : N) (items : list bytes) :
  Forall DetItem items -> lenN items = n -> n < two64 -> DetItem (block_bytes n items).
Proof.
  intros HF HL Hn. subst n. unfold block_bytes.
  set (inner := enc_array_header (lenN items) ++ List.concat items).
  assert (E : (72 :: ib_magic) ++ (68 :: ib_version_b1) ++ inner
              = List.concat [enc_bytes ib_magic; enc_bytes ib_version_b1; inner]).
  { cbn [List.concat]. rewrite app_nil_r. reflexivity. }
  rewrite E. change [131] with (enc_array_header (lenN [enc_bytes ib_magic; enc_bytes ib_version_b1; inner])).
  apply enc_array_det; [|reflexivity].
  constructor; [apply enc_bytes_det; [repeat constructor|reflexivity]|].
  constructor; [apply enc_bytes_det; [repeat constructor|reflexivity]|].
  constructor; [|constructor]. apply enc_array_det; assumption.
Qed.

Theorem block_cbor_detitem (b : iblock) (bs : bytes) :
  block_wf b -> block_cbor b = Ok bs -> DetItem bs.
Proof.
  intros [Hn HF] H. apply block_cbor_layout in H. destruct H as [items [HS E]]. subst bs.
  apply block_bytes_det; [eapply StackBytes_det; eassumption|apply StackBytes_lenN; exact HS|exact Hn].
Qed.

(* cbor.Deterministic accepts every block CborBytes produces *)
Theorem block_cbor_det (b : iblock) (bs : bytes) :
  block_wf b -> block_cbor b = Ok bs -> det_check bs = Accept.
Proof.
  intros W H. apply det_check_complete. exists [bs]. split.
  - constructor; [|constructor]. eapply block_cbor_detitem; eassumption.
  - cbn [List.concat]. rewrite app_nil_r. reflexivity.
Qed.

Corollary block_cbor_det_accepts (b : iblock) (bs : bytes) :
  block_wf b -> block_cbor b = Ok bs -> det_accepts bs = true.
Proof. intros W H. unfold det_accepts. rewrite (block_cbor_det b bs W H). reflexivity. Qed.

(* ---- totality: when does CborBytes succeed -------------------------------- *)
Lemma NoDup_map_in_inj {A B} (f : A -> B) (l : list A) :
  (forall x y, In x l -> In y l -> f x = f y -> x = y) -> NoDup l -> NoDup (map f l).
Proof.
  intros Hinj HN. induction HN as [|x t Hx HN IH]; cbn [map]; constructor.
  - intros Hin. apply in_map_iff in Hin. destruct Hin as [y [E Hy]].
    assert (y = x) by (apply Hinj; [right; exact Hy|left; reflexivity|exact E]).
    subst y. contradiction.
  - apply IH. intros a b Ha Hb. apply Hinj; right; assumption.
Qed.

Theorem attrs_cbor_total (a : attrs) :
  attrs_small a -> keys_utf8 a = true -> NoDup (map fst a) -> exists ab, attrs_cbor a = Ok ab.
Proof.
  intros [La Fa] Hu HN.
  destruct (attrs_cbor_ok_or_err a) as [E|E]; [exfalso|exact E].
  rewrite attrs_cbor_unfold, Hu in E. apply enc_map_dup in E. apply E.
  rewrite map_map.
  change (map (fun x => fst (attr_entry x)) a)
    with (map (fun x : bytes * bytes => enc_bytes_of MText (fst x)) a).
  rewrite <- (map_map fst (enc_bytes_of MText)).
  apply NoDup_map_in_inj; [|exact HN].
  intros k k' Hk Hk' HE.
  apply in_map_iff in Hk. destruct Hk as [[k1 v1] [E1 Hin1]].
  apply in_map_iff in Hk'. destruct Hk' as [[k2 v2] [E2 Hin2]].
  cbn [fst] in *. subst k1 k2.
  rewrite Forall_forall in Fa.
  destruct (Fa _ Hin1) as [L1 _]. destruct (Fa _ Hin2) as [L2 _]. cbn [fst] in *.
  assert (HE' : enc_bytes_of MText k ++ [] = enc_bytes_of MText k' ++ [])
    by (rewrite HE; reflexivity).
  apply enc_bytes_of_inj in HE'; [|exact MText_const|assumption|assumption].
  exact (proj1 HE').
Qed.

Definition attrs_encodable (a : attrs) : Prop :=
  keys_utf8 a = true /\ NoDup (map fst a).

Lemma attrs_cbor_encodable (a : attrs) (ab : bytes) : attrs_cbor a = Ok ab -> attrs_encodable a.
Proof.
  intros H. split; [apply attrs_cbor_ok_iff in H; exact (proj1 H)|eapply attrs_keys_nodup; exact H].
Qed.

(* a well-formed block whose attribute names are valid UTF-8 and pairwise
   distinct always serializes, and the deterministic check always passes *)
Theorem block_cbor_total (b : iblock) :
  block_wf b -> Forall (fun s => attrs_encodable (is_attrs s)) (ib_stack b) ->
  exists bs, block_cbor b = Ok bs /\ det_check bs = Accept.
Proof.
  intros W HE.
  assert (HS : exists items, StackBytes (ib_stack b) items).
  { destruct W as [_ HF]. induction HE as [|s t [Hu HN] HE IH]; [exists []; constructor|].
    inversion HF as [|x y [[Sa _] _] HF']; subst.
    destruct (IH HF') as [items HI].
    destruct (attrs_cbor_total _ Sa Hu HN) as [ab Ha].
    eexists. econstructor; eassumption. }
  destruct HS as [items HI].
  assert (H : block_cbor b = Ok (block_bytes (lenN (ib_stack b)) items))
    by (apply block_cbor_layout; exists items; split; [exact HI|reflexivity]).
  eexists. split; [exact H|]. eapply block_cbor_det; eassumption.
Qed.
