(* Unfolding lemmas for the decoder model (shared by the C14 and C15 proofs). *)
From Coq Require Import Lia ZifyN ZifyNat ZifyBool.
From WP Require Import Base.Prelude Base.Base64 Model.Mice Proofs.MiceLemmas.
Open Scope N_scope.

  (* the copy-out step of Read *)
  Definition deliver (s' : dec) (k : N) : dec * bytes * rstat :=
    match splitN (d_out s') k with
    | Some (a, b) =>
        ({| d_enc := d_enc s'; d_rs := d_rs s'; d_r := d_r s';
            d_next := d_next s'; d_out := b |}, a, ROk)
    | None =>
        ({| d_enc := d_enc s'; d_rs := d_rs s'; d_r := d_r s';
            d_next := d_next s'; d_out := [] |}, d_out s', ROk)
    end.

  Lemma deliver_spec s k s' o st :
    deliver s k = (s', o, st) ->
    st = ROk /\ d_enc s' = d_enc s /\ d_rs s' = d_rs s /\ d_r s' = d_r s /\
    d_next s' = d_next s /\ d_out s = o ++ d_out s' /\
    (1 <= k -> d_out s <> [] -> o <> []).
  Proof.
    unfold deliver. destruct (splitN (d_out s) k) as [[a b]|] eqn:E; intros X;
      inversion X as [[X1 X2 X3]]; subst s' o st; cbn [d_enc d_rs d_r d_next d_out].
    - apply splitN_Some in E as [E1 E2].
      repeat (split; [reflexivity|]). split; [exact E1|].
      intros K NE C. subst a. cbn [lenN] in E2. lia.
    - repeat (split; [reflexivity|]). split; [symmetry; apply app_nil_r|].
      intros _ NE. exact NE.
  Qed.

Section Read.
  Variable H : bytes -> bytes.

  Lemma validate_true r p (last : bool) :
    validate_record H r p last = true -> H (r ++ [if last then 0 else 1]) = p.
  Proof. unfold validate_record. apply bytes_eqb_eq. Qed.

  Lemma validate_refl r (last : bool) :
    validate_record H r (H (r ++ [if last then 0 else 1])) last = true.
  Proof. unfold validate_record. apply bytes_eqb_refl. Qed.

  Lemma read_unfold s k :
    read H s k =
    match d_out s with
    | [] =>
        match d_next s with
        | None => (s, [], REOF)
        | Some proof =>
            let (s', st) := read_next_record H s proof in
            match st with
            | ROk => deliver s' k
            | _ => (s', [], st)
            end
        end
    | _ => deliver s k
    end.
  Proof. reflexivity. Qed.

  Lemma read_trace_cons s k t acc :
    read_trace H s (k :: t) acc =
    match read H s k with
    | (s', o, st) =>
        match st with
        | ROk => read_trace H s' t (acc ++ o)
        | _ => (acc ++ o, st)
        end
    end.
  Proof. cbn [read_trace]. destruct (read H s k) as [[s' o] st]. reflexivity. Qed.

  Lemma read_all_trace fuel : forall s k acc,
    read_all H fuel s k acc = read_trace H s (repeat k fuel) acc.
  Proof.
    induction fuel as [|f IH]; intros s k acc; [reflexivity|].
    cbn [read_all repeat read_trace].
    destruct (read H s k) as [[s' o] st]. destruct st; [apply IH|reflexivity|reflexivity].
  Qed.
End Read.
