(* Proofs/SxgSign.v - signed message (b1, b2/b3), file layout, header
   integrity and the Signature header of the model against Spec/Sxg.v. *)
From Coq Require Import Lia ZifyN ZifyNat ZifyBool Permutation Sorted.
From WP Require Import Base.Prelude Base.Base64 Base.Decimal.
From WP Require Import Model.Cbor Model.BigEndian Model.Http Model.Mice Model.StructHdr Model.Sxg.
From WP Require Import Spec.Cbor Spec.StructHdr Spec.Sxg.
From WP Require Import Proofs.BaseLemmas Proofs.CborHead Proofs.CborMap Proofs.SHLemmas
                       Proofs.SHRoundtrip Proofs.SxgCanon.
Ltac Zify.zify_post_hook ::= Z.div_mod_to_equations.
Open Scope N_scope.

(* ---- bigendian.EncodeBytesUint ------------------------------------------------ *)
Lemma be_encode_len (n size : N) : size < 8 ->
  be_encode (Z.of_N n) size = if n <? 2 ^ (8 * size) then Ok (be (N.to_nat size) n) else Err.
Proof.
  intros Hs. unfold be_encode. replace (Z.of_N n <? 0)%Z with false by lia.
  replace (size <? 8) with true by lia. rewrite N2Z.id. cbn [andb].
  destruct (N.leb_spec (2 ^ (8 * size)) n) as [L|L];
    [replace (n <? 2 ^ (8 * size)) with false by lia|replace (n <? 2 ^ (8 * size)) with true by lia];
    reflexivity.
Qed.

Lemma be_encode_8 (z : Z) : be_encode z 8 = if (z <? 0)%Z then Err else Ok (be 8 (Z.to_N z)).
Proof. unfold be_encode. destruct (z <? 0)%Z; reflexivity. Qed.

Lemma be_encode_field (k : nat) (n : N) : (k < 8)%nat ->
  to_opt (be_encode (Z.of_N n) (N.of_nat k)) = field k n.
Proof.
  intros Hk. rewrite be_encode_len by lia. unfold field.
  replace (2 ^ (8 * N.of_nat k)) with (256 ^ N.of_nat k)
    by (change 256 with (2 ^ 8); rewrite <- N.pow_mul_r; reflexivity).
  rewrite Nat2N.id, sbe_be. destruct (n <? 256 ^ N.of_nat k); reflexivity.
Qed.

Lemma len8_be (n : N) : n < two64 -> len8 n = to_opt (be_encode (Z.of_N n) 8).
Proof.
  intros Hn. rewrite be_encode_8. replace (Z.of_N n <? 0)%Z with false by lia.
  unfold len8. replace (n <? two64) with true by lia. rewrite N2Z.id, sbe_be. reflexivity.
Qed.

Lemma time8_be (z : Z) : int64 z -> time8 z = to_opt (be_encode z 8).
Proof.
  intros Hz. unfold int64 in Hz. rewrite be_encode_8. unfold time8.
  destruct (z <? 0)%Z eqn:E.
  - replace (0 <=? z)%Z with false by lia. reflexivity.
  - replace (0 <=? z)%Z with true by lia. replace (z <? 9223372036854775808)%Z with true by lia.
    cbn [andb to_opt]. rewrite sbe_be. reflexivity.
Qed.

(* ---- constants ------------------------------------------------------------------ *)
Lemma context_of_eq (v : version) : context_of v = context_string v.
Proof. destruct v; reflexivity. Qed.
Lemma magic_of_eq (v : version) : magic_of v = header_magic v.
Proof. destruct v; reflexivity. Qed.
Lemma integrity_of_eq (v : version) : integrity_of v = integrity_identifier (mice_of v).
Proof. destruct v; reflexivity. Qed.

Lemma canon_text_keys :
  canon (CText (s2b "cert-sha256")) = Some (text_key "cert-sha256") /\
  canon (CText (s2b "validity-url")) = Some (text_key "validity-url") /\
  canon (CText (s2b "date")) = Some (text_key "date") /\
  canon (CText (s2b "expires")) = Some (text_key "expires") /\
  canon (CText (s2b "headers")) = Some (text_key "headers").
Proof. repeat split; vm_compute; reflexivity. Qed.

(* ---- C08 signed_message_conforms, b1 ------------------------------------------- *)
Theorem signed_message_b1_eq (e : exchange) (cert : option bytes) (validity : bytes) (date expires : Z) :
  e_ver e = V1b1 -> go_exchange e -> int64 (e_status e) ->
  int64 date -> int64 expires -> go_len validity ->
  match cert with Some c => go_len c | None => True end ->
  spec_message_b1 e cert validity date expires = to_opt (signed_message e cert validity date expires).
Proof.
  intros Ev Hg Hz Hd Hx Hv Hc.
  destruct canon_text_keys as (K1 & K2 & K3 & K4 & K5).
  unfold spec_message_b1, signed_message. rewrite Ev.
  pose proof (headers_cbor_eq e Hg Hz) as Hh. unfold spec_headers_cbor in Hh.
  assert (Hvl : lenN validity < two64) by (unfold go_len, two63, two64 in *; lia).
  rewrite canon_map, canon_ents_app.
  cbn [canon_ents]. rewrite K2, K3, K4, K5, Hh, (canon_bytes validity Hvl), (canon_int date Hd),
    (canon_int expires Hx).
  pose proof (encode_exchange_headers_ok_or_err e) as Hoe.
  destruct (encode_exchange_headers e) as [hv| | |]; cbn [to_opt bind]; try contradiction.
  2:{ destruct cert as [c|]; cbn [canon_ents]; [|reflexivity].
      destruct (canon (CText (s2b "cert-sha256"))); [|reflexivity].
      destruct (canon (CBytes c)); reflexivity. }
  change (message_prefix V1b1) with (repeat 32 64 ++ context_string V1b1 ++ [0]).
  destruct cert as [c|].
  - assert (Hcl : lenN c < two64) by (unfold go_len, two63, two64 in *; lia).
    cbn [canon_ents]. rewrite K1, (canon_bytes c Hcl). cbn [app lenN].
    match goal with |- context [cmap_bytes ?n ?es] =>
      change n with (lenN es); rewrite (cmap_enc_map es) by (vm_compute; reflexivity) end.
    match goal with |- context [enc_map ?es] => destruct (enc_map es); reflexivity end.
  - cbn [canon_ents app lenN].
    match goal with |- context [cmap_bytes ?n ?es] =>
      change n with (lenN es); rewrite (cmap_enc_map es) by (vm_compute; reflexivity) end.
    match goal with |- context [enc_map ?es] => destruct (enc_map es); reflexivity end.
Qed.

Lemma signed_message_ok_or_err (e : exchange) cert validity date expires :
  match signed_message e cert validity date expires with Ok _ | Err => True | _ => False end.
Proof.
  unfold signed_message. pose proof (encode_exchange_headers_ok_or_err e) as Hoe.
  destruct (e_ver e).
  - destruct (encode_exchange_headers e) as [hv| | |]; cbn [bind]; try exact I; try contradiction.
    match goal with |- context [enc_map ?es] =>
      pose proof (enc_map_ok_or_err' es) as Hm; destruct (enc_map es) end;
      cbn [bind]; try exact I; contradiction.
  - rewrite !be_encode_8. replace (Z.of_N (lenN validity) <? 0)%Z with false by lia.
    replace (Z.of_N (lenN (e_uri e)) <? 0)%Z with false by lia. cbn [bind].
    destruct (date <? 0)%Z; cbn [bind]; [exact I|]. destruct (expires <? 0)%Z; cbn [bind]; [exact I|].
    destruct (encode_exchange_headers e) as [hv| | |]; cbn [bind]; try exact I; try contradiction.
    rewrite be_encode_8. replace (Z.of_N (lenN hv) <? 0)%Z with false by lia. exact I.
  - rewrite !be_encode_8. replace (Z.of_N (lenN validity) <? 0)%Z with false by lia.
    replace (Z.of_N (lenN (e_uri e)) <? 0)%Z with false by lia. cbn [bind].
    destruct (date <? 0)%Z; cbn [bind]; [exact I|]. destruct (expires <? 0)%Z; cbn [bind]; [exact I|].
    destruct (encode_exchange_headers e) as [hv| | |]; cbn [bind]; try exact I; try contradiction.
    rewrite be_encode_8. replace (Z.of_N (lenN hv) <? 0)%Z with false by lia. exact I.
Qed.

Theorem signed_message_b1_conforms (e : exchange) (cert : option bytes) (validity : bytes)
        (date expires : Z) (m : bytes) :
  e_ver e = V1b1 -> go_exchange e -> int64 (e_status e) ->
  int64 date -> int64 expires -> go_len validity ->
  match cert with Some c => go_len c | None => True end ->
  (signed_message e cert validity date expires = Ok m <->
   spec_message_b1 e cert validity date expires = Some m).
Proof.
  intros Ev Hg Hz Hd Hx Hv Hc.
  rewrite (signed_message_b1_eq e cert validity date expires Ev Hg Hz Hd Hx Hv Hc).
  destruct (signed_message e cert validity date expires); cbn [to_opt]; split; intros H; congruence.
Qed.

(* ---- C08 signed_message_conforms, b2 / b3 ------------------------------------ *)
(* with a certificate hash: the two agree (and both are undefined for a
   negative date / expires or un-encodable headers) *)
Theorem signed_message_b2b3_eq (e : exchange) (c validity : bytes) (date expires : Z) :
  e_ver e <> V1b1 -> go_exchange e -> int64 (e_status e) ->
  int64 date -> int64 expires -> go_len validity ->
  (forall hdr, encode_exchange_headers e = Ok hdr -> lenN hdr < two64) ->
  spec_message_b2b3 e (Some c) validity date expires
  = to_opt (signed_message e (Some c) validity date expires).
Proof.
  intros Ev Hg Hz Hd Hx Hv Hh.
  assert (Hvl : lenN validity < two64) by (unfold go_len, two63, two64 in *; lia).
  assert (Hul : lenN (e_uri e) < two64) by (destruct Hg as [Hu _]; unfold go_len, two63, two64 in *; lia).
  unfold spec_message_b2b3. rewrite (len8_be _ Hvl), (len8_be _ Hul), (time8_be _ Hd), (time8_be _ Hx),
    (headers_cbor_eq e Hg Hz).
  assert (E : signed_message e (Some c) validity date expires =
    let* vl := be_encode (Z.of_N (lenN validity)) 8 in
    let* d := be_encode date 8 in
    let* x := be_encode expires 8 in
    let* rl := be_encode (Z.of_N (lenN (e_uri e))) 8 in
    let* hdr := encode_exchange_headers e in
    let* hl := be_encode (Z.of_N (lenN hdr)) 8 in
    Ok (message_prefix (e_ver e) ++ (32 :: c) ++ vl ++ validity ++ d ++ x ++ rl ++ e_uri e ++ hl ++ hdr)).
  { unfold signed_message, message_prefix.
    destruct (e_ver e); [contradiction| |]; reflexivity. }
  rewrite E. clear E.
  rewrite (be_encode_8 (Z.of_N (lenN validity))), (be_encode_8 (Z.of_N (lenN (e_uri e)))).
  replace (Z.of_N (lenN validity) <? 0)%Z with false by lia.
  replace (Z.of_N (lenN (e_uri e)) <? 0)%Z with false by lia. cbn [bind to_opt].
  destruct (be_encode date 8) as [d| | |]; cbn [bind to_opt]; try reflexivity.
  destruct (be_encode expires 8) as [x| | |]; cbn [bind to_opt]; try reflexivity.
  destruct (encode_exchange_headers e) as [hdr| | |] eqn:Eh; cbn [bind to_opt]; try reflexivity.
  rewrite (len8_be _ (Hh hdr eq_refl)).
  destruct (be_encode (Z.of_N (lenN hdr)) 8); reflexivity.
Qed.

Theorem signed_message_b2b3_conforms (e : exchange) (c validity : bytes) (date expires : Z) (m : bytes) :
  e_ver e <> V1b1 -> go_exchange e -> int64 (e_status e) ->
  int64 date -> int64 expires -> go_len validity ->
  (forall hdr, encode_exchange_headers e = Ok hdr -> lenN hdr < two64) ->
  (signed_message e (Some c) validity date expires = Ok m <->
   spec_message_b2b3 e (Some c) validity date expires = Some m).
Proof.
  intros Ev Hg Hz Hd Hx Hv Hh.
  rewrite (signed_message_b2b3_eq e c validity date expires Ev Hg Hz Hd Hx Hv Hh).
  destruct (signed_message e (Some c) validity date expires); cbn [to_opt]; split; intros H; congruence.
Qed.

(* WITHOUT a certificate hash the library's message lacks the spec's "Otherwise
   a 0 byte" - for every exchange, not just an example *)
Theorem signed_message_b2b3_nocert_gap (e : exchange) (validity : bytes) (date expires : Z) (m : bytes) :
  e_ver e <> V1b1 -> go_exchange e -> int64 (e_status e) ->
  int64 date -> int64 expires -> go_len validity ->
  (forall hdr, encode_exchange_headers e = Ok hdr -> lenN hdr < two64) ->
  signed_message e None validity date expires = Ok m ->
  exists rest, m = message_prefix (e_ver e) ++ rest /\
    spec_message_b2b3 e None validity date expires = Some (message_prefix (e_ver e) ++ 0 :: rest).
Proof.
  intros Ev Hg Hz Hd Hx Hv Hh.
  assert (Hvl : lenN validity < two64) by (unfold go_len, two63, two64 in *; lia).
  assert (Hul : lenN (e_uri e) < two64) by (destruct Hg as [Hu _]; unfold go_len, two63, two64 in *; lia).
  unfold spec_message_b2b3. rewrite (len8_be _ Hvl), (len8_be _ Hul), (time8_be _ Hd), (time8_be _ Hx),
    (headers_cbor_eq e Hg Hz).
  assert (E : signed_message e None validity date expires =
    let* vl := be_encode (Z.of_N (lenN validity)) 8 in
    let* d := be_encode date 8 in
    let* x := be_encode expires 8 in
    let* rl := be_encode (Z.of_N (lenN (e_uri e))) 8 in
    let* hdr := encode_exchange_headers e in
    let* hl := be_encode (Z.of_N (lenN hdr)) 8 in
    Ok (message_prefix (e_ver e) ++ [] ++ vl ++ validity ++ d ++ x ++ rl ++ e_uri e ++ hl ++ hdr)).
  { unfold signed_message, message_prefix.
    destruct (e_ver e); [contradiction| |]; reflexivity. }
  rewrite E. clear E.
  rewrite (be_encode_8 (Z.of_N (lenN validity))), (be_encode_8 (Z.of_N (lenN (e_uri e)))).
  replace (Z.of_N (lenN validity) <? 0)%Z with false by lia.
  replace (Z.of_N (lenN (e_uri e)) <? 0)%Z with false by lia. cbn [bind to_opt].
  destruct (be_encode date 8) as [d| | |]; cbn [bind to_opt]; try discriminate.
  destruct (be_encode expires 8) as [x| | |]; cbn [bind to_opt]; try discriminate.
  destruct (encode_exchange_headers e) as [hdr| | |] eqn:Eh; cbn [bind to_opt]; try discriminate.
  rewrite (len8_be _ (Hh hdr eq_refl)).
  destruct (be_encode (Z.of_N (lenN hdr)) 8) as [hl| | |]; cbn [bind to_opt]; try discriminate.
  intros Hm. inversion Hm. eexists. split; reflexivity.
Qed.

(* a negative date / expires is refused by both *)
Theorem signed_message_b2b3_negative (e : exchange) cert validity date expires :
  e_ver e <> V1b1 -> ((date < 0)%Z \/ (expires < 0)%Z) ->
  signed_message e cert validity date expires = Err /\
  spec_message_b2b3 e cert validity date expires = None.
Proof.
  intros Ev Hneg. split.
  - unfold signed_message. rewrite !be_encode_8.
    replace (Z.of_N (lenN validity) <? 0)%Z with false by lia.
    destruct (e_ver e); [contradiction| |]; cbn [bind];
      destruct (Z.ltb_spec date 0); cbn [bind]; try reflexivity;
      destruct (Z.ltb_spec expires 0); cbn [bind]; try reflexivity; lia.
  - unfold spec_message_b2b3, time8.
    destruct (len8 (lenN validity)); [|reflexivity].
    destruct (Z.leb_spec 0 date); cbn [andb].
    + destruct (date <? 9223372036854775808)%Z; [|reflexivity].
      replace (0 <=? expires)%Z with false by lia. reflexivity.
    + reflexivity.
Qed.

(* ---- C08 file_conforms -------------------------------------------------------------- *)
Lemma file_eq_body (e : exchange) : go_exchange e -> int64 (e_status e) ->
  spec_file e = to_opt (write_body e).
Proof.
  intros Hg Hz. unfold spec_file, write_body. rewrite (headers_cbor_eq e Hg Hz).
  pose proof (encode_exchange_headers_ok_or_err e) as Hoe.
  destruct (encode_exchange_headers e) as [hdr| | |]; cbn [to_opt bind]; try contradiction;
    [|reflexivity].
  rewrite <- (be_encode_field 2 (lenN (e_uri e))), <- (be_encode_field 3 (lenN (e_sig e))),
    <- (be_encode_field 3 (lenN hdr)) by lia.
  change (N.of_nat 2) with 2. change (N.of_nat 3) with 3.
  destruct (e_ver e).
  - destruct (be_encode (Z.of_N (lenN (e_sig e))) 3) as [a| | |]; cbn [to_opt bind]; try reflexivity.
    destruct (be_encode (Z.of_N (lenN hdr)) 3) as [b| | |]; cbn [to_opt bind]; reflexivity.
  - destruct (be_encode (Z.of_N (lenN (e_uri e))) 2) as [u| | |]; cbn [to_opt bind]; try reflexivity.
    rewrite N.ltb_antisym, (N.ltb_antisym (lenN hdr)).
    destruct (lenN (e_sig e) <=? 16384); cbn [negb andb].
    2:{ destruct (be_encode (Z.of_N (lenN (e_sig e))) 3) as [a| | |]; cbn [to_opt]; try reflexivity.
        destruct (be_encode (Z.of_N (lenN hdr)) 3); reflexivity. }
    destruct (be_encode (Z.of_N (lenN (e_sig e))) 3) as [a| | |]; cbn [to_opt bind]; try reflexivity.
    destruct (lenN hdr <=? 524288); cbn [negb andb].
    2:{ destruct (be_encode (Z.of_N (lenN hdr)) 3); reflexivity. }
    destruct (be_encode (Z.of_N (lenN hdr)) 3); reflexivity.
  - destruct (be_encode (Z.of_N (lenN (e_uri e))) 2) as [u| | |]; cbn [to_opt bind]; try reflexivity.
    rewrite N.ltb_antisym, (N.ltb_antisym (lenN hdr)).
    destruct (lenN (e_sig e) <=? 16384); cbn [negb andb].
    2:{ destruct (be_encode (Z.of_N (lenN (e_sig e))) 3) as [a| | |]; cbn [to_opt]; try reflexivity.
        destruct (be_encode (Z.of_N (lenN hdr)) 3); reflexivity. }
    destruct (be_encode (Z.of_N (lenN (e_sig e))) 3) as [a| | |]; cbn [to_opt bind]; try reflexivity.
    destruct (lenN hdr <=? 524288); cbn [negb andb].
    2:{ destruct (be_encode (Z.of_N (lenN hdr)) 3); reflexivity. }
    destruct (be_encode (Z.of_N (lenN hdr)) 3); reflexivity.
Qed.

(* Write = its refusals (fallback URL not https; b2 request header ":url"), then the
   specified file *)
Theorem file_eq (e : exchange) : go_exchange e -> int64 (e_status e) ->
  to_opt (write e) = if write_refuses e then None else spec_file e.
Proof.
  intros Hg Hz. rewrite write_unfold, (file_eq_body e Hg Hz). destruct (write_refuses e); reflexivity.
Qed.

Lemma write_body_ok_or_err (e : exchange) : match write_body e with Ok _ | Err => True | _ => False end.
Proof.
  unfold write_body. pose proof (encode_exchange_headers_ok_or_err e) as Hoe.
  destruct (encode_exchange_headers e) as [hdr| | |]; cbn [bind]; try exact I; try contradiction.
  rewrite !be_encode_len by lia.
  destruct (e_ver e).
  - destruct (lenN (e_sig e) <? 2 ^ (8 * 3)); cbn [bind]; [|exact I].
    destruct (lenN hdr <? 2 ^ (8 * 3)); exact I.
  - destruct (lenN (e_uri e) <? 2 ^ (8 * 2)); cbn [bind]; [|exact I].
    destruct (16384 <? lenN (e_sig e)); [exact I|].
    destruct (lenN (e_sig e) <? 2 ^ (8 * 3)); cbn [bind]; [|exact I].
    destruct (524288 <? lenN hdr); [exact I|].
    destruct (lenN hdr <? 2 ^ (8 * 3)); exact I.
  - destruct (lenN (e_uri e) <? 2 ^ (8 * 2)); cbn [bind]; [|exact I].
    destruct (16384 <? lenN (e_sig e)); [exact I|].
    destruct (lenN (e_sig e) <? 2 ^ (8 * 3)); cbn [bind]; [|exact I].
    destruct (524288 <? lenN hdr); [exact I|].
    destruct (lenN hdr <? 2 ^ (8 * 3)); exact I.
Qed.

Lemma write_ok_or_err (e : exchange) : match write e with Ok _ | Err => True | _ => False end.
Proof. rewrite write_unfold. destruct (write_refuses e); [exact I|apply write_body_ok_or_err]. Qed.

Theorem file_conforms (e : exchange) (bs : bytes) : go_exchange e -> int64 (e_status e) ->
  (write e = Ok bs <-> write_refuses e = false /\ spec_file e = Some bs).
Proof.
  intros Hg Hz. rewrite write_ok_body, (file_eq_body e Hg Hz).
  destruct (write_body e); cbn [to_opt]; split; intros [H1 H2]; split; congruence.
Qed.

(* ---- C08 header_integrity_conforms ------------------------------------------------- *)
Theorem header_integrity_eq (H : bytes -> bytes) (e : exchange) : go_exchange e -> int64 (e_status e) ->
  spec_header_integrity H e = to_opt (header_integrity H e).
Proof.
  intros Hg Hz. unfold spec_header_integrity, header_integrity. rewrite (headers_cbor_eq e Hg Hz).
  destruct (encode_exchange_headers e); reflexivity.
Qed.

Theorem header_integrity_conforms (H : bytes -> bytes) (e : exchange) (v : bytes) :
  go_exchange e -> int64 (e_status e) ->
  (header_integrity H e = Ok v <->
   exists hdr, spec_headers_cbor e = Some hdr /\ v = s2b "sha256-" ++ b64_encode true false (H hdr)).
Proof.
  intros Hg Hz. unfold header_integrity. rewrite (headers_cbor_eq e Hg Hz).
  destruct (encode_exchange_headers e) as [hdr| | |]; cbn [bind to_opt]; split.
  - intros E. inversion E. exists hdr. split; reflexivity.
  - intros (h & E1 & E2). inversion E1; subst. reflexivity.
  - discriminate.
  - intros (h & E1 & _). discriminate.
  - discriminate.
  - intros (h & E1 & _). discriminate.
  - discriminate.
  - intros (h & E1 & _). discriminate.
Qed.

(* ---- C08 signature_header_conforms -------------------------------------------------- *)
Definition sig_params (H : bytes -> bytes) (v : version) (certs : list bytes)
           (cert_url validity : bytes) (date expires : Z) (sig : bytes) : sh_params :=
  [(s2b "sig", Some (ShBytes sig));
   (s2b "validity-url", Some (ShStr validity));
   (s2b "integrity", Some (ShStr (integrity_identifier (mice_of v))));
   (s2b "cert-url", Some (ShStr cert_url));
   (s2b "cert-sha256", Some (ShBytes (match cert_sha256 H certs with Some c => c | None => [] end)));
   (s2b "date", Some (ShInt date));
   (s2b "expires", Some (ShInt expires))].

Lemma signature_header_value_pi H e certs cert_url validity date expires sig :
  signature_header_value H e certs cert_url validity date expires sig =
  serialize_pi {| pi_label := s2b "label";
                  pi_params := sig_params H (e_ver e) certs cert_url validity date expires sig |}.
Proof. reflexivity. Qed.

Lemma sort_seven (v1 v2 v3 v4 v5 v6 v7 : option sh_item) :
  isort param_lt [(s2b "sig", v1); (s2b "validity-url", v2); (s2b "integrity", v3);
                  (s2b "cert-url", v4); (s2b "cert-sha256", v5); (s2b "date", v6);
                  (s2b "expires", v7)]
  = [(s2b "cert-sha256", v5); (s2b "cert-url", v4); (s2b "date", v6); (s2b "expires", v7);
     (s2b "integrity", v3); (s2b "sig", v1); (s2b "validity-url", v2)].
Proof. vm_compute. reflexivity. Qed.

Lemma serialize_params_val (k : bytes) (i : sh_item) (t : sh_params) :
  is_valid_key k = true ->
  serialize_params ((k, Some i) :: t) =
  let* s := serialize_item i in let* rest := serialize_params t in Ok ([59] ++ k ++ (61 :: s) ++ rest).
Proof.
  intros Hk. cbn [serialize_params]. rewrite Hk. cbn [negb].
  destruct (serialize_item i); reflexivity.
Qed.

Lemma sig_keys_valid :
  is_valid_key (s2b "cert-sha256") = true /\ is_valid_key (s2b "cert-url") = true /\
  is_valid_key (s2b "date") = true /\ is_valid_key (s2b "expires") = true /\
  is_valid_key (s2b "integrity") = true /\ is_valid_key (s2b "sig") = true /\
  is_valid_key (s2b "validity-url") = true /\ is_valid_token (s2b "label") = true.
Proof. repeat split; vm_compute; reflexivity. Qed.

Lemma sh_param_ok (k : string) (i : sh_item) (s : bytes) :
  serialize_item i = Ok s -> sh_param k i = Some ([59] ++ s2b k ++ [61] ++ s).
Proof. intros E. unfold sh_param. rewrite E. reflexivity. Qed.
Lemma sh_param_err (k : string) (i : sh_item) :
  serialize_item i = Err -> sh_param k i = None.
Proof. intros E. unfold sh_param. rewrite E. reflexivity. Qed.

Lemma serialize_item_ok_or_err (i : sh_item) :
  serialize_item i = Err \/ exists s, serialize_item i = Ok s.
Proof.
  destruct i as [z|s|t|b|]; cbn [serialize_item]; eauto.
  - destruct (forallb _ s); eauto.
  - destruct (is_valid_token t); eauto.
Qed.

Theorem signature_header_conforms (H : bytes -> bytes) (e : exchange) (c0 : bytes) (cs : list bytes)
        (cert_url validity : bytes) (date expires : Z) (sig : bytes) :
  signature_header_value H e (c0 :: cs) cert_url validity date expires sig
  = of_opt (spec_signature_header H (e_ver e) (c0 :: cs) cert_url validity date expires sig).
Proof.
  destruct sig_keys_valid as (K1 & K2 & K3 & K4 & K5 & K6 & K7 & KL).
  rewrite signature_header_value_pi. unfold serialize_pi, sig_params. cbn [pi_label pi_params].
  rewrite KL, sort_seven. cbn [negb cert_sha256].
  rewrite !serialize_params_val by assumption. cbn [serialize_params].
  unfold spec_signature_header. rewrite <- integrity_of_eq.
  destruct (serialize_item_ok_or_err (ShBytes (H c0))) as [E1|[s1 E1]]; rewrite E1;
    [rewrite (sh_param_err _ _ E1); reflexivity|rewrite (sh_param_ok _ _ _ E1)]; cbn [bind].
  destruct (serialize_item_ok_or_err (ShStr cert_url)) as [E2|[s2 E2]]; rewrite E2;
    [rewrite (sh_param_err _ _ E2); reflexivity|rewrite (sh_param_ok _ _ _ E2)]; cbn [bind].
  destruct (serialize_item_ok_or_err (ShInt date)) as [E3|[s3 E3]]; rewrite E3;
    [rewrite (sh_param_err _ _ E3); reflexivity|rewrite (sh_param_ok _ _ _ E3)]; cbn [bind].
  destruct (serialize_item_ok_or_err (ShInt expires)) as [E4|[s4 E4]]; rewrite E4;
    [rewrite (sh_param_err _ _ E4); reflexivity|rewrite (sh_param_ok _ _ _ E4)]; cbn [bind].
  destruct (serialize_item_ok_or_err (ShStr (integrity_of (e_ver e)))) as [E5|[s5 E5]]; rewrite E5;
    [rewrite (sh_param_err _ _ E5); reflexivity|rewrite (sh_param_ok _ _ _ E5)]; cbn [bind].
  destruct (serialize_item_ok_or_err (ShBytes sig)) as [E6|[s6 E6]]; rewrite E6;
    [rewrite (sh_param_err _ _ E6); reflexivity|rewrite (sh_param_ok _ _ _ E6)]; cbn [bind].
  destruct (serialize_item_ok_or_err (ShStr validity)) as [E7|[s7 E7]]; rewrite E7;
    [rewrite (sh_param_err _ _ E7); reflexivity|rewrite (sh_param_ok _ _ _ E7)]; cbn [bind of_opt].
  rewrite <- !app_assoc. rewrite app_nil_r. reflexivity.
Qed.

(* the order in which Go happens to iterate the Params map is irrelevant *)
Theorem signature_header_order_irrelevant (H : bytes -> bytes) (e : exchange) (certs : list bytes)
        (cert_url validity : bytes) (date expires : Z) (sig : bytes) (ps : sh_params) :
  Permutation ps (sig_params H (e_ver e) certs cert_url validity date expires sig) ->
  serialize_pi {| pi_label := s2b "label"; pi_params := ps |}
  = signature_header_value H e certs cert_url validity date expires sig.
Proof.
  intros HP. rewrite signature_header_value_pi. symmetry.
  apply serialize_unique; [reflexivity|cbn [pi_params]; symmetry; exact HP|].
  cbn [pi_params sig_params keys map fst]. apply nodup_b_iff. vm_compute. reflexivity.
Qed.

(* when it is produced, the value is the printable-ASCII text the spec gives:
   exactly when the two URLs are printable ASCII *)
Theorem signature_header_ok_iff (H : bytes -> bytes) (e : exchange) (c0 : bytes) (cs : list bytes)
        (cert_url validity : bytes) (date expires : Z) (sig : bytes) :
  (exists s, signature_header_value H e (c0 :: cs) cert_url validity date expires sig = Ok s)
  <-> forallb printable_b cert_url = true /\ forallb printable_b validity = true.
Proof.
  rewrite signature_header_conforms. unfold spec_signature_header, sh_param.
  cbn [serialize_item]. change (fun c => (32 <=? c) && (c <=? 126)) with printable_b.
  replace (forallb printable_b (integrity_of (e_ver e))) with true
    by (destruct (e_ver e); vm_compute; reflexivity).
  destruct (forallb printable_b cert_url); destruct (forallb printable_b validity); cbn [of_opt];
    split; try (intros [s Hs]; discriminate Hs); try (intros [A B]; discriminate);
    try (intros _; split; reflexivity); intros _; eexists; reflexivity.
Qed.
