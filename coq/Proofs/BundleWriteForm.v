(* Proofs/BundleWriteForm.v - Bundle.WriteTo in normal form: a sequence of simple
   checks followed by the spec-side serialisation (Spec.Bundle.file_body) of an
   explicitly given parsed view.  Everything C04 and C03 say about the writer
   is read off this equation. *)
From Coq Require Import Lia ZifyN ZifyNat ZifyBool Permutation Sorted.
From WP Require Import Base.Prelude Base.Decimal Model.Cbor Model.Http Model.Variants
  Model.CertChain Model.Bundle.
From WP Require Import Spec.Cbor Spec.Bundle.
From WP Require Import Proofs.BaseLemmas Proofs.CborHead Proofs.CborMap Proofs.Variants
  Proofs.BundleWriteBasics Proofs.BundleWriteSig.
Open Scope N_scope.

(* ---- items are injective in their content ------------------------------------------ *)
Lemma min_width_mono (a b : N) : a <= b -> min_width a <= min_width b.
Proof.
  unfold min_width. intros H.
  repeat match goal with |- context [?x <? ?y] => destruct (N.ltb_spec x y) end; lia.
Qed.

Lemma sbe_lenN (k : nat) (n : N) : lenN (sbe k n) = N.of_nat k.
Proof. rewrite sbe_be. apply be_lenN. Qed.

Lemma senc_head_lenN (mt n : N) : lenN (senc_head mt n) = 1 + min_width n.
Proof.
  unfold senc_head, min_width.
  repeat match goal with |- context [?x <? ?y] => destruct (N.ltb_spec x y) end;
    cbn [N.eqb Pos.eqb lenN]; rewrite ?sbe_lenN; try reflexivity; cbn [lenN]; lia.
Qed.

Lemma string_item_inj (mt : N) (a b : bytes) :
  senc_head mt (lenN a) ++ a = senc_head mt (lenN b) ++ b -> a = b.
Proof.
  intros H. pose proof (f_equal lenN H) as L. rewrite !lenN_app, !senc_head_lenN in L.
  assert (E : lenN a = lenN b).
  { destruct (N.lt_trichotomy (lenN a) (lenN b)) as [C|[C|C]]; [|exact C|].
    - pose proof (min_width_mono (lenN a) (lenN b) ltac:(lia)). lia.
    - pose proof (min_width_mono (lenN b) (lenN a) ltac:(lia)). lia. }
  rewrite E in H. apply app_inv_head in H. exact H.
Qed.

Lemma text_item_inj (a b : bytes) : text_item a = text_item b -> a = b.
Proof. unfold text_item. cbn [senc_token]. apply string_item_inj. Qed.
Lemma bstr_item_inj (a b : bytes) : bstr_item a = bstr_item b -> a = b.
Proof. unfold bstr_item. cbn [senc_token]. apply string_item_inj. Qed.

Lemma NoDup_map_inj {A B} (f : A -> B) (l : list A) :
  (forall a b, f a = f b -> a = b) -> NoDup l -> NoDup (map f l).
Proof.
  intros Hinj. induction 1 as [|x t Hx ND IH]; cbn [map]; constructor; [|exact IH].
  intros Hin. apply in_map_iff in Hin. destruct Hin as [y [E Hy]]. apply Hinj in E. subst y. contradiction.
Qed.

Lemma NoDup_map_inv' {A B} (f : A -> B) (l : list A) : NoDup (map f l) -> NoDup l.
Proof.
  induction l as [|x t IH]; cbn [map]; intros H; [constructor|].
  inversion H as [|? ? Hx ND]; subst. constructor; [|apply IH; exact ND].
  intros Hin. apply Hx. apply in_map. exact Hin.
Qed.

(* ---- the index section never fails on its own ------------------------------------------ *)
Lemma index_pres_urls (v : bversion) (gs : list (bytes * list ientry)) : forall ts,
  index_pres v gs = Ok ts -> map (fun t => fst (fst t)) ts = map fst gs.
Proof.
  induction gs as [|[u es] r IH]; intros ts H; cbn [index_pres] in H.
  - inversion H; reflexivity.
  - apply bindR_ok in H. destruct H as [t [Ht H]]. apply bindR_ok in H. destruct H as [ts' [Hr H]].
    inversion H; subst. cbn [map fst]. f_equal; [|apply IH; exact Hr].
    apply index_entry_pre_ok in Ht. apply Ht.
Qed.

Lemma index_section_eq (v : bversion) (ients : list ientry) :
  index_section v ients =
  let* ts := index_pres v (groups_of ients) in Ok (index_body v (sorted_index ts)).
Proof.
  unfold index_section. rewrite group_entries_eq, index_entries_eq.
  destruct (index_pres v (groups_of ients)) as [ts| | |] eqn:Ht; cbn [bind]; try reflexivity.
  rewrite <- (map_map triple_of (enc_ix v)).
  destruct (enc_map_ok_or_err (map (enc_ix v) (map triple_of ts))) as [E|[out E]].
  - exfalso. apply enc_map_dup in E. apply E. rewrite !map_map. cbn [enc_ix fst].
    unfold index_key, triple_of, ix_url. cbn [fst].
    rewrite <- (map_map (fun t => fst (fst t)) text_item). apply NoDup_map_inj; [apply text_item_inj|].
    rewrite (index_pres_urls _ _ _ Ht), groups_of_keys. apply first_urls_spec.
  - rewrite E. f_equal.
    assert (H : index_section v ients = Ok out).
    { unfold index_section. rewrite group_entries_eq, index_entries_eq, Ht. cbn [bind].
      rewrite <- (map_map triple_of (enc_ix v)). exact E. }
    apply index_section_ok in H. destruct H as [ts' [Ht' [E' _]]].
    rewrite Ht in Ht'. inversion Ht'; subst ts'. exact E'.
Qed.

(* ---- assembling the file ------------------------------------------------------------------- *)
Lemma magic_eq (v : bversion) : header_magic_bytes v = magic v.
Proof. destruct v; vm_compute; reflexivity. Qed.

Lemma section_table_eq (secs : list (bytes * bytes)) : section_table secs = bstr_item (table_body secs).
Proof.
  unfold section_table, table_body. rewrite enc_bytes_item, enc_arr_item, N.mul_comm. f_equal. f_equal.
  apply flat_map_ext. intros s. rewrite enc_text_item, enc_uint_item. reflexivity.
Qed.

Definition assemble (v : bversion) (prim_hdr : bytes) (secs : list (bytes * bytes)) : bytes :=
  let body := header_magic_bytes v ++ prim_hdr ++ section_table secs
              ++ enc_array_header (lenN secs) ++ flat_map snd secs in
  body ++ enc_bytes (be 8 (w64 (lenN body + 9))).

Definition final_bytes (v : bversion) (p : parsed) : bytes :=
  let body := file_body v p in body ++ bstr_item (be 8 (w64 (lenN body + 9))).

Lemma assemble_eq (v : bversion) (po : option bytes) (secs : list (bytes * bytes)) idx rs :
  assemble v (match po with Some u => text_item u | None => [] end) secs
  = final_bytes v {| p_primary := po; p_sections := secs; p_index := idx; p_responses := rs |}.
Proof.
  unfold assemble, final_bytes, file_body. cbn [p_primary p_sections].
  rewrite magic_eq, section_table_eq, enc_arr_item, enc_bytes_item, flat_map_concat_map. reflexivity.
Qed.

(* ---- the normal form -------------------------------------------------------------------------- *)
Definition chk (c : bool) : R unit := if c then Ok tt else Err.
Definition off0 (b : bundle) : N := lenN (arr_head (lenN (b_exchanges b))).
Definition ients_of (b : bundle) : list ientry := mk_ients (b_exchanges b) (off0 b).
Definition n_signatures : bytes := s2b "signatures".

Definition prim_sec_of (b : bundle) : list (bytes * bytes) :=
  match b_ver b, b_primary b with BV2, Some u => [(n_primary, text_item u)] | _, _ => [] end.
Definition man_sec_of (b : bundle) : list (bytes * bytes) :=
  match b_manifest b with Some u => [(n_manifest, text_item u)] | None => [] end.
Definition sig_bytes_of (b : bundle) : bytes :=
  match b_sigs b with
  | Some s => match signatures_section s with Ok x => x | _ => [] end
  | None => []
  end.
Definition sig_sec_of (b : bundle) : list (bytes * bytes) :=
  match b_sigs b with Some _ => [(n_signatures, sig_bytes_of b)] | None => [] end.

Definition sections_of (b : bundle) (ts : list (bytes * bytes * list ientry)) : list (bytes * bytes) :=
  [(n_index, index_body (b_ver b) (sorted_index ts))] ++ prim_sec_of b ++ man_sec_of b
  ++ sig_sec_of b ++ [(n_responses, responses_body (map rsp_of (b_exchanges b)))].

Definition parsed_of (b : bundle) (ts : list (bytes * bytes * list ientry)) : parsed :=
  {| p_primary := match b_ver b with BV1 => b_primary b | BV2 => None end;
     p_sections := sections_of b ts;
     p_index := sorted_index ts;
     p_responses := map rsp_of (b_exchanges b) |}.

Definition headers_ok (b : bundle) : bool :=
  forallb (fun x => is_ok (encode_response_header (bx_status x) (bx_hdr x))) (b_exchanges b).

(* checkURL on every exchange URL (valid UTF-8, fragment / credentials) *)
Definition urls_ok (b : bundle) : bool :=
  forallb (fun x => url_writable (bx_url x)) (b_exchanges b).

Definition b_write_nf (b : bundle) : R bytes :=
  let v := b_ver b in
  let* _ := chk (headers_ok b) in
  let* _ := chk (urls_ok b) in
  let* ts := index_pres v (groups_of (ients_of b)) in
  let* _ := (match v, b_primary b with
             | BV2, Some u => chk (fst (abs_url_ok u) && utf8_valid u) | _, _ => Ok tt end) in
  let* _ := (match b_manifest b with
             | Some u => match v with BV1 => chk (fst (abs_url_ok u) && utf8_valid u) | BV2 => Err end
             | None => Ok tt end) in
  let* _ := (match v, b_primary b with
             | BV1, Some u => chk (fst (any_url_ok u) && utf8_valid u) | BV1, None => Err
             | BV2, _ => Ok tt end) in
  Ok (final_bytes v (parsed_of b ts)).

Lemma responses_eq (xs : list bexchange) :
  enc_array_header (lenN xs) ++ flat_map item_of xs = responses_body (map rsp_of xs).
Proof.
  unfold responses_body. rewrite enc_arr_item, lenN_map, flat_map_map. reflexivity.
Qed.

Theorem b_write_eq (b : bundle) : b_write b = b_write_nf b.
Proof.
  unfold b_write, b_write_nf.
  destruct (add_exchanges_cases (b_exchanges b) (enc_array_header (lenN (b_exchanges b))) [])
    as [[X E]|[X E]]; rewrite E; cbn [bind].
  { (* some header map or some URL is refused *)
    destruct (headers_ok b) eqn:Hh; cbn [chk bind]; [|reflexivity].
    assert (Hu : urls_ok b = false).
    { unfold urls_ok. apply not_true_is_false. intros T. rewrite forallb_forall in T.
      unfold headers_ok in Hh. rewrite forallb_forall in Hh.
      apply Exists_exists in X. destruct X as [x [Hx [Ex|Ex]]].
      - specialize (Hh x Hx). rewrite Ex in Hh. discriminate.
      - specialize (T x Hx). rewrite Ex in T. discriminate. }
    rewrite Hu. reflexivity. }
  assert (Hh : headers_ok b = true).
  { unfold headers_ok. apply forallb_forall. intros x Hx. rewrite Forall_forall in X. specialize (X x Hx).
    destruct X as [X _].
    destruct (encode_response_cases x) as [[E1 E2]|_]; [congruence|].
    destruct (erh_cases (bx_status x) (bx_hdr x)) as [E1|[hc E1]]; rewrite E1; [|reflexivity].
    unfold encode_response in X. rewrite E1 in X. discriminate. }
  assert (Hu : urls_ok b = true).
  { unfold urls_ok. apply forallb_forall. intros x Hx. rewrite Forall_forall in X. apply (X x Hx). }
  rewrite Hh, Hu. cbn [chk bind rev app].
  rewrite index_section_eq.
  replace (lenN (enc_array_header (lenN (b_exchanges b)))) with (off0 b)
    by (unfold off0; rewrite enc_arr_item; reflexivity).
  fold (ients_of b).
  destruct (index_pres (b_ver b) (groups_of (ients_of b))) as [ts| | |] eqn:Ht; cbn [bind]; try reflexivity.
  rewrite responses_eq.
  unfold parsed_of, sections_of, prim_sec_of, man_sec_of, sig_sec_of, sig_bytes_of.
  destruct (b_ver b) eqn:V; cbn [has_primary_in_header supports_manifest];
    destruct (b_primary b) as [pu|]; destruct (b_manifest b) as [mu|];
    destruct (b_sigs b) as [sg|];
    try (destruct (signatures_section_total sg) as [sb Es]; rewrite Es).
  all: try (destruct (enc_text_cases pu) as [[Up Ep]|[Up Ep]]; rewrite ?Ep, ?Up).
  all: try (destruct (enc_text_cases mu) as [[Um Em]|[Um Em]]; rewrite ?Em, ?Um).
  all: try destruct (fst (any_url_ok pu)); try destruct (fst (abs_url_ok pu));
       try destruct (fst (abs_url_ok mu)).
  all: cbn [negb andb chk bind]; try reflexivity.
  all: try (f_equal; rewrite <- assemble_eq; reflexivity).
Qed.
