(* Proofs/BundleRoundtripSig.v - C03: the signatures section reads back. *)
From Coq Require Import Lia ZifyN ZifyNat ZifyBool Permutation Sorted.
From WP Require Import Base.Prelude Model.Cbor Model.CertChain Model.Bundle.
From WP Require Import Spec.Cbor Spec.Bundle.
From WP Require Import Proofs.BaseLemmas Proofs.CborHead Proofs.CborMap Proofs.CborDecode Proofs.CborUtf8
  Proofs.Variants Proofs.BundleWriteBasics Proofs.BundleWriteSig Proofs.BundleWriteForm
  Proofs.BundleRoundtripResp Proofs.BundleRoundtripMeta.
Open Scope N_scope.

Definition kx (s : string) : bytes := enc_bytes_of Model.Cbor.TText (s2b s).

(* ---- the sorted order of the (at most three) entries --------------------------------------------- *)
Lemma sort_augcert (vc : bytes) (o s : option bytes) (vo vs : bytes) :
  sort_entries ([(kx "cert", vc)] ++ (match o with Some _ => [(kx "ocsp", vo)] | None => [] end)
                ++ (match s with Some _ => [(kx "sct", vs)] | None => [] end))
  = (match s with Some _ => [(kx "sct", vs)] | None => [] end) ++ [(kx "cert", vc)]
    ++ (match o with Some _ => [(kx "ocsp", vo)] | None => [] end).
Proof. destruct o, s; vm_compute; reflexivity. Qed.

Lemma sort_vouched (va vs vg : bytes) :
  sort_entries [(kx "authority", va); (kx "sig", vs); (kx "signed", vg)]
  = [(kx "sig", vs); (kx "signed", vg); (kx "authority", va)].
Proof. vm_compute. reflexivity. Qed.

Lemma encode_augcert_form (a : augcert) (it : bytes) :
  encode_augcert a = Ok it ->
  it = enc_map_header (1 + (match ac_ocsp a with Some _ => 1 | None => 0 end)
                         + (match ac_sct a with Some _ => 1 | None => 0 end))
       ++ (match ac_sct a with Some s => kx "sct" ++ enc_bytes s | None => [] end)
       ++ (kx "cert" ++ enc_bytes (ac_cert a))
       ++ (match ac_ocsp a with Some o => kx "ocsp" ++ enc_bytes o | None => [] end).
Proof.
  unfold encode_augcert. intros H. apply enc_map_ok in H. destruct H as [E _]. subst it.
  pose proof (sort_augcert (enc_bytes (ac_cert a)) (ac_ocsp a) (ac_sct a)
                           (match ac_ocsp a with Some o => enc_bytes o | None => [] end)
                           (match ac_sct a with Some s => enc_bytes s | None => [] end)) as S.
  assert (Eo : opt_entry "ocsp" (ac_ocsp a)
               = match ac_ocsp a with
                 | Some _ => [(kx "ocsp", match ac_ocsp a with Some o => enc_bytes o | None => [] end)]
                 | None => [] end) by (destruct (ac_ocsp a); reflexivity).
  assert (Es : opt_entry "sct" (ac_sct a)
               = match ac_sct a with
                 | Some _ => [(kx "sct", match ac_sct a with Some s => enc_bytes s | None => [] end)]
                 | None => [] end) by (destruct (ac_sct a); reflexivity).
  rewrite Eo, Es. change (enc_bytes_of Model.Cbor.TText (s2b "cert")) with (kx "cert").
  rewrite S. f_equal.
  - f_equal. destruct (ac_ocsp a), (ac_sct a); reflexivity.
  - destruct (ac_ocsp a), (ac_sct a); cbn [app flat_map fst snd]; rewrite ?app_nil_r, <- ?app_assoc; reflexivity.
Qed.

Section Sig.
  Variable x509_ok : bytes -> bool.

  Lemma dec_entries_S (f : nat) (m : N) (bs : bytes) (c o s : option bytes) :
    dec_entries x509_ok (S f) m bs c o s =
    if m =? 0 then Ok (c, o, s, bs)
    else
      let* (k, r1) := decode_text bs in
      let* (v, r2) := decode_bytes r1 in
      if bytes_eqb k (s2b "cert") then
        if x509_ok v then dec_entries x509_ok f (m - 1) r2 (Some v) o s else Err
      else if bytes_eqb k (s2b "ocsp") then dec_entries x509_ok f (m - 1) r2 c (Some v) s
      else if bytes_eqb k (s2b "sct") then dec_entries x509_ok f (m - 1) r2 c o (Some v)
      else dec_entries x509_ok f (m - 1) r2 c o s.
  Proof. reflexivity. Qed.

  Lemma kx_text (s : string) : kx s = text_item (s2b s).
  Proof. unfold kx. apply enc_text_item. Qed.

  Lemma step_entry (key : string) (v rest : bytes) (f : nat) (m : N) (c o s : option bytes) :
    m <> 0 -> utf8_valid (s2b key) = true -> lenN (s2b key) < two63 -> lenN v < two63 ->
    dec_entries x509_ok (S f) m (kx key ++ enc_bytes v ++ rest) c o s =
    if bytes_eqb (s2b key) (s2b "cert") then
      if x509_ok v then dec_entries x509_ok f (m - 1) rest (Some v) o s else Err
    else if bytes_eqb (s2b key) (s2b "ocsp") then dec_entries x509_ok f (m - 1) rest c (Some v) s
    else if bytes_eqb (s2b key) (s2b "sct") then dec_entries x509_ok f (m - 1) rest c o (Some v)
    else dec_entries x509_ok f (m - 1) rest c o s.
  Proof.
    intros Hm U Lk Lv. rewrite dec_entries_S. replace (m =? 0) with false by lia.
    rewrite kx_text, decode_text_item by assumption. cbn [bind].
    rewrite enc_bytes_item, decode_bytes_item by assumption. reflexivity.
  Qed.

  Definition aug_ok (a : augcert) : Prop :=
    x509_ok (ac_cert a) = true /\ lenN (ac_cert a) < two63
    /\ (forall o, ac_ocsp a = Some o -> lenN o < two63)
    /\ (forall s, ac_sct a = Some s -> lenN s < two63).

  Lemma decode_augcert_ok (a : augcert) (it rest : bytes) :
    encode_augcert a = Ok it -> aug_ok a ->
    decode_augcert x509_ok (it ++ rest) = Ok (a, rest).
  Proof.
    intros E [X [Lc [Lo Ls]]]. apply encode_augcert_form in E. subst it.
    unfold decode_augcert. rewrite <- app_assoc.
    rewrite enc_map_item, decode_map_item by (destruct (ac_ocsp a), (ac_sct a); unfold two64; cbn; lia).
    cbn [bind].
    set (fuel := List.length _).
    assert (Hf : (3 <= fuel)%nat).
    { unfold fuel. rewrite !app_length. unfold kx, enc_bytes_of. rewrite !app_length.
      pose proof (typed_uint_nonempty Model.Cbor.TText (lenN (s2b "cert"))) as N1.
      destruct (typed_uint Model.Cbor.TText (lenN (s2b "cert"))); [contradiction|]. cbn [List.length s2b]. lia. }
    destruct fuel as [|[|[|f]]]; try lia. clear Hf.
    destruct a as [cert [o|] [s|]]; cbn [ac_cert ac_ocsp ac_sct] in *;
      rewrite <- ?app_assoc; cbn [app];
      repeat (rewrite step_entry by (try reflexivity; try lia; auto); cbn [bytes_eqb s2b N.eqb Pos.eqb andb];
              rewrite ?X);
      rewrite dec_entries_S; reflexivity.
  Qed.

  (* ---- vouched subsets ------------------------------------------------------------------------------ *)
  Lemma vouched_form (v : vouched) (it : bytes) :
    enc_map (vouched_entries v) = Ok it ->
    it = enc_map_header 3 ++ (kx "sig" ++ enc_bytes (vs_sig v)) ++ (kx "signed" ++ enc_bytes (vs_signed v))
         ++ (kx "authority" ++ enc_uint (vs_authority v)).
  Proof.
    intros H. apply enc_map_ok in H. destruct H as [E _]. subst it. unfold vouched_entries.
    change (enc_bytes_of Model.Cbor.TText (s2b "authority")) with (kx "authority").
    change (enc_bytes_of Model.Cbor.TText (s2b "sig")) with (kx "sig").
    change (enc_bytes_of Model.Cbor.TText (s2b "signed")) with (kx "signed").
    rewrite sort_vouched. cbn [flat_map fst snd lenN]. rewrite app_nil_r. reflexivity.
  Qed.

  Definition vouched_ok (v : vouched) : Prop :=
    vs_authority v < two64 /\ lenN (vs_sig v) < two63 /\ lenN (vs_signed v) < two63.

  Lemma dec_vs_fields_ok (v : vouched) (rest : bytes) (v0 : vouched) :
    vouched_ok v ->
    dec_vs_fields 3 ((kx "sig" ++ enc_bytes (vs_sig v)) ++ (kx "signed" ++ enc_bytes (vs_signed v))
                     ++ (kx "authority" ++ enc_uint (vs_authority v)) ++ rest) v0
    = Ok (v, rest).
  Proof.
    intros [La [Ls Lg]]. rewrite <- !app_assoc. cbn [dec_vs_fields].
    rewrite kx_text, decode_text_item by reflexivity. cbn [bind].
    replace (bytes_eqb (s2b "sig") (s2b "authority")) with false by reflexivity.
    replace (bytes_eqb (s2b "sig") (s2b "sig")) with true by reflexivity.
    rewrite enc_bytes_item, decode_bytes_item by exact Ls. cbn [bind].
    rewrite kx_text, decode_text_item by reflexivity. cbn [bind].
    replace (bytes_eqb (s2b "signed") (s2b "authority")) with false by reflexivity.
    replace (bytes_eqb (s2b "signed") (s2b "sig")) with false by reflexivity.
    replace (bytes_eqb (s2b "signed") (s2b "signed")) with true by reflexivity.
    rewrite enc_bytes_item, decode_bytes_item by exact Lg. cbn [bind].
    rewrite kx_text, decode_text_item by reflexivity. cbn [bind].
    replace (bytes_eqb (s2b "authority") (s2b "authority")) with true by reflexivity.
    rewrite enc_uint_item, decode_uint_item by exact La. cbn [bind vs_authority vs_sig vs_signed].
    destruct v; reflexivity.
  Qed.

  (* ---- the two loops ------------------------------------------------------------------------------------ *)
  Lemma dec_auths_S (f : nat) (n : N) (bs : bytes) (acc : list augcert) :
    dec_auths x509_ok (S f) n bs acc =
    if n =? 0 then Ok (acc, bs)
    else let* (a, r) := decode_augcert x509_ok bs in dec_auths x509_ok f (n - 1) r (acc ++ [a]).
  Proof. reflexivity. Qed.

  Lemma dec_auths_run (l : list augcert) (items : list bytes) : forall fuel acc rest,
    Forall2 (fun a it => encode_augcert a = Ok it) l items -> Forall aug_ok l ->
    (List.length l < fuel)%nat ->
    dec_auths x509_ok fuel (lenN l) (List.concat items ++ rest) acc = Ok (acc ++ l, rest).
  Proof.
    intros fuel acc rest F. revert fuel acc. induction F as [|a it l' items' Ea F IH]; intros fuel acc Fa Hf.
    - destruct fuel as [|f]; [cbn in Hf; lia|]. rewrite dec_auths_S. cbn [lenN N.eqb List.concat app].
      rewrite app_nil_r. reflexivity.
    - destruct fuel as [|f]; [cbn in Hf; lia|]. cbn [List.length] in Hf.
      apply Forall_cons_iff in Fa. destruct Fa as [Oa Fa].
      rewrite dec_auths_S. cbn [lenN]. replace (N.succ (lenN l') =? 0) with false by lia.
      cbn [List.concat]. rewrite <- app_assoc. rewrite (decode_augcert_ok a it _ Ea Oa). cbn [bind].
      replace (N.succ (lenN l') - 1) with (lenN l') by lia.
      rewrite IH by (try exact Fa; lia). rewrite <- app_assoc. reflexivity.
  Qed.

  Lemma dec_vouched_S (f : nat) (n : N) (bs : bytes) (acc : list vouched) :
    dec_vouched (S f) n bs acc =
    if n =? 0 then Ok (acc, bs)
    else
      let* (m, r) := decode_map_header bs in
      if negb (m =? 3) then Err
      else
        let* (v, r') := dec_vs_fields 3 r {| vs_authority := 0; vs_sig := []; vs_signed := [] |} in
        dec_vouched f (n - 1) r' (acc ++ [v]).
  Proof. reflexivity. Qed.

  Lemma dec_vouched_run (l : list vouched) (items : list bytes) : forall fuel acc rest,
    Forall2 (fun v it => enc_map (vouched_entries v) = Ok it) l items -> Forall vouched_ok l ->
    (List.length l < fuel)%nat ->
    dec_vouched fuel (lenN l) (List.concat items ++ rest) acc = Ok (acc ++ l, rest).
  Proof.
    intros fuel acc rest F. revert fuel acc. induction F as [|v it l' items' Ev F IH]; intros fuel acc Fv Hf.
    - destruct fuel as [|f]; [cbn in Hf; lia|]. rewrite dec_vouched_S. cbn [lenN N.eqb List.concat app].
      rewrite app_nil_r. reflexivity.
    - destruct fuel as [|f]; [cbn in Hf; lia|]. cbn [List.length] in Hf.
      apply Forall_cons_iff in Fv. destruct Fv as [Ov Fv].
      rewrite dec_vouched_S. cbn [lenN]. replace (N.succ (lenN l') =? 0) with false by lia.
      cbn [List.concat]. rewrite (vouched_form v it Ev). rewrite <- !app_assoc.
      rewrite enc_map_item, decode_map_item by (unfold two64; lia). cbn [bind N.eqb Pos.eqb negb].
      pose proof (dec_vs_fields_ok v (List.concat items' ++ rest)
                                   {| vs_authority := 0; vs_sig := []; vs_signed := [] |} Ov) as D.
      rewrite <- !app_assoc in D. rewrite D. cbn [bind].
      replace (N.succ (lenN l') - 1) with (lenN l') by lia.
      rewrite IH by (try exact Fv; lia). rewrite <- app_assoc. reflexivity.
  Qed.

  (* ---- the section ------------------------------------------------------------------------------------------ *)
  Definition sigs_ok (s : signatures) : Prop :=
    Forall aug_ok (sg_auth s) /\ Forall vouched_ok (sg_vouched s).

  Theorem parse_signatures_ok (s : signatures) (sb : bytes) :
    signatures_section s = Ok sb -> sigs_ok s -> lenN sb < two63 ->
    parse_signatures x509_ok sb = Ok s.
  Proof.
    rewrite signatures_section_eq. intros H [Oa Ov] L.
    destruct (encode_all_spec (sg_auth s)) as [ia [Ea Fa]].
    destruct (vouched_go_spec (sg_vouched s)) as [iv [Ev Fv]].
    rewrite Ea, Ev in H. cbn [bind] in H.
    assert (E : sb = arr_head 2 ++ arr_head (lenN (sg_auth s)) ++ List.concat ia
                     ++ arr_head (lenN (sg_vouched s)) ++ List.concat iv ++ []).
    { rewrite app_nil_r, <- !enc_arr_item. congruence. }
    assert (La : lenN (sg_auth s) <= lenN (List.concat ia)).
    { rewrite (Forall2_lenN _ _ _ Fa). clear - Fa. induction Fa as [|a it l l' Ha _ IH]; cbn [lenN List.concat]; [lia|].
      rewrite lenN_app. apply encode_augcert_form in Ha. subst it. rewrite lenN_app.
      pose proof (typed_uint_nonempty Model.Cbor.TMap (1 + match ac_ocsp a with Some _ => 1 | None => 0 end
                                                      + match ac_sct a with Some _ => 1 | None => 0 end)) as Nn.
      unfold enc_map_header. destruct (typed_uint _ _); [contradiction|]. cbn [lenN]. lia. }
    assert (Lv : lenN (sg_vouched s) <= lenN (List.concat iv)).
    { rewrite (Forall2_lenN _ _ _ Fv). clear - Fv. induction Fv as [|v it l l' Hv _ IH]; cbn [lenN List.concat]; [lia|].
      rewrite lenN_app. apply vouched_form in Hv. subst it. rewrite lenN_app.
      change (enc_map_header 3) with [163]. cbn [lenN]. lia. }
    assert (Lsb : lenN sb = lenN (arr_head 2) + (lenN (arr_head (lenN (sg_auth s))) + (lenN (List.concat ia)
                  + (lenN (arr_head (lenN (sg_vouched s))) + lenN (List.concat iv)))))
      by (rewrite E, !lenN_app; cbn [lenN]; lia).
    unfold parse_signatures. cbv zeta.
    assert (Hfa : (List.length (sg_auth s) < S (List.length sb))%nat) by (rewrite !lenN_length in *; lia).
    assert (Hfv : (List.length (sg_vouched s) < S (List.length sb))%nat) by (rewrite !lenN_length in *; lia).
    remember (S (List.length sb)) as fuel eqn:Ef. clear Ef.
    rewrite E.
    rewrite decode_arr_item by (unfold two64; lia). cbn [bind N.eqb Pos.eqb negb].
    rewrite decode_arr_item by (unfold two63, two64 in *; lia). cbn [bind].
    rewrite (dec_auths_run (sg_auth s) ia fuel [] _ Fa Oa Hfa). cbn [bind app].
    rewrite decode_arr_item by (unfold two63, two64 in *; lia). cbn [bind].
    rewrite (dec_vouched_run (sg_vouched s) iv fuel [] _ Fv Ov Hfv). cbn [bind app].
    destruct s; reflexivity.
  Qed.

  (* the size conditions follow from the size of the section *)
  Lemma aug_ok_of (a : augcert) (it : bytes) :
    encode_augcert a = Ok it -> lenN it < two63 -> x509_ok (ac_cert a) = true -> aug_ok a.
  Proof.
    unfold encode_augcert. intros E L X. destruct (enc_map_inv _ _ E) as [_ IL]. rewrite Forall_forall in IL.
    assert (B : forall k v, In (k, enc_bytes v)
                  ([(enc_bytes_of Model.Cbor.TText (s2b "cert"), enc_bytes (ac_cert a))]
                   ++ opt_entry "ocsp" (ac_ocsp a) ++ opt_entry "sct" (ac_sct a)) -> lenN v < two63).
    { intros k v Hin. specialize (IL _ Hin). cbn [fst snd] in IL. pose proof (lenN_enc_bytes v). lia. }
    split; [exact X|]. split; [apply (B (enc_bytes_of Model.Cbor.TText (s2b "cert"))); left; reflexivity|].
    split.
    - intros o Eo. apply (B (enc_bytes_of Model.Cbor.TText (s2b "ocsp"))). rewrite Eo. cbn [opt_entry app In]. auto.
    - intros s Es. apply (B (enc_bytes_of Model.Cbor.TText (s2b "sct"))). rewrite Es.
      apply in_or_app. right. apply in_or_app. right. left. reflexivity.
  Qed.

  Lemma vouched_ok_of (v : vouched) (it : bytes) :
    enc_map (vouched_entries v) = Ok it -> lenN it < two63 -> vs_authority v < two64 -> vouched_ok v.
  Proof.
    intros E L A. destruct (enc_map_inv _ _ E) as [_ IL]. rewrite Forall_forall in IL.
    unfold vouched_entries in IL. split; [exact A|]. split.
    - specialize (IL _ (or_intror (or_introl eq_refl))). cbn [fst snd] in IL.
      pose proof (lenN_enc_bytes (vs_sig v)). lia.
    - specialize (IL _ (or_intror (or_intror (or_introl eq_refl)))). cbn [fst snd] in IL.
      pose proof (lenN_enc_bytes (vs_signed v)). lia.
  Qed.

  Theorem sigs_ok_of (s : signatures) (sb : bytes) :
    signatures_section s = Ok sb -> lenN sb < two63 ->
    Forall (fun a => x509_ok (ac_cert a) = true) (sg_auth s) ->
    Forall (fun v => vs_authority v < two64) (sg_vouched s) ->
    sigs_ok s.
  Proof.
    rewrite signatures_section_eq. intros H L Xa Av.
    destruct (encode_all_spec (sg_auth s)) as [ia [Ea Fa]].
    destruct (vouched_go_spec (sg_vouched s)) as [iv [Ev Fv]].
    rewrite Ea, Ev in H. cbn [bind] in H.
    assert (E : sb = enc_array_header 2 ++ enc_array_header (lenN (sg_auth s)) ++ List.concat ia
                     ++ enc_array_header (lenN (sg_vouched s)) ++ List.concat iv) by congruence.
    clear H. subst sb. rewrite !lenN_app in L.
    split.
    - clear - x509_ok Fa Xa L. assert (Li : forall it, In it ia -> lenN it < two63).
      { intros it Hin. pose proof (lenN_concat_in _ _ Hin). lia. }
      clear L. induction Fa as [|a it l l' Ha _ IH]; [constructor|].
      apply Forall_cons_iff in Xa. destruct Xa as [X Xa]. constructor.
      + apply (aug_ok_of a it Ha); [apply Li; left; reflexivity|exact X].
      + apply IH; [exact Xa|]. intros it' Hin. apply Li. right. exact Hin.
    - clear - x509_ok Fv Av L. assert (Li : forall it, In it iv -> lenN it < two63).
      { intros it Hin. pose proof (lenN_concat_in _ _ Hin). lia. }
      clear L. induction Fv as [|v it l l' Hv _ IH]; [constructor|].
      apply Forall_cons_iff in Av. destruct Av as [A Av]. constructor.
      + apply (vouched_ok_of v it Hv); [apply Li; left; reflexivity|exact A].
      + apply IH; [exact Av|]. intros it' Hin. apply Li. right. exact Hin.
  Qed.
End Sig.
