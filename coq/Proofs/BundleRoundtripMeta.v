(* Proofs/BundleRoundtripMeta.v - C03, part 2: the reader's loops run forward over
   what the spec-side encoders of Spec/Bundle.v produce: section-length table,
   index (both versions), the section walk of loadMetadata, and the response loop. *)
From Coq Require Import Lia ZifyN ZifyNat ZifyBool Permutation Sorted.
From WP Require Import Base.Prelude Base.Decimal Model.Cbor Model.Http Model.UrlRef Model.Variants
  Model.CertChain Model.Bundle.
From WP Require Import Spec.Cbor Spec.Bundle.
From WP Require Import Proofs.BaseLemmas Proofs.CborHead Proofs.CborMap Proofs.CborDecode
  Proofs.Variants Proofs.BundleWriteBasics Proofs.BundleWriteSpec Proofs.BundleWriteSig
  Proofs.BundleWriteForm Proofs.BundleRoundtripResp.
Open Scope N_scope.

Lemma w64_small (n : N) : n < two64 -> w64 n = n.
Proof. intros H. unfold w64. apply N.mod_small. exact H. Qed.

(* ---- magic ------------------------------------------------------------------------------------ *)
Lemma parse_magic_ok (v : bversion) (rest : bytes) : parse_magic (magic v ++ rest) = Ok (v, rest).
Proof.
  rewrite <- magic_eq. unfold parse_magic, header_magic_bytes.
  destruct v; rewrite <- app_assoc.
  - change 10 with (lenN hdr_magic_b1). rewrite splitN_app. cbn [of_opt bind].
    replace (bytes_eqb hdr_magic_b1 hdr_magic_b1) with true by reflexivity. cbn [orb negb].
    change 5 with (lenN ver_magic_b1). rewrite splitN_app. cbn [of_opt bind].
    replace (bytes_eqb ver_magic_b1 ver_magic_b1) with true by reflexivity. reflexivity.
  - change 10 with (lenN hdr_magic_b2). rewrite splitN_app. cbn [of_opt bind].
    replace (bytes_eqb hdr_magic_b2 hdr_magic_b1) with false by reflexivity.
    replace (bytes_eqb hdr_magic_b2 hdr_magic_b2) with true by reflexivity. cbn [orb negb].
    change 5 with (lenN ver_magic_b2). rewrite splitN_app. cbn [of_opt bind].
    replace (bytes_eqb ver_magic_b2 ver_magic_b1) with false by reflexivity.
    replace (bytes_eqb ver_magic_b2 ver_magic_b2) with true by reflexivity. reflexivity.
Qed.

(* ---- the section-length table --------------------------------------------------------------------- *)
Definition sec_enc (s : bytes * bytes) : bytes := text_item (fst s) ++ uint_item (lenN (snd s)).
Definition sec_ok (s : bytes * bytes) : Prop :=
  utf8_valid (fst s) = true /\ lenN (fst s) < two63 /\ lenN (snd s) < two64.
Definition sos_of (secs : list (bytes * bytes)) : list (bytes * N) :=
  map (fun s => (fst s, lenN (snd s))) secs.

Lemma dsl_S (f : nat) (i n : N) (bs : bytes) (acc : list (bytes * N)) :
  dec_section_lengths (S f) i n bs acc =
  if n <=? i then Ok acc
  else
    let* (name, r1) := decode_text bs in
    if existsb (fun s => bytes_eqb (fst s) name) acc then Err
    else
      let* (len, r2) := decode_uint r1 in
      dec_section_lengths f (w64 (i + 2)) n r2 (acc ++ [(name, len)]).
Proof. reflexivity. Qed.

Lemma dsl_run (secs : list (bytes * bytes)) : forall fuel i acc rest,
  (List.length secs < fuel)%nat -> i + 2 * lenN secs < two64 -> Forall sec_ok secs ->
  NoDup (map fst acc ++ map fst secs) ->
  dec_section_lengths fuel i (i + 2 * lenN secs) (flat_map sec_enc secs ++ rest) acc
  = Ok (acc ++ sos_of secs).
Proof.
  induction secs as [|[name body] t IH]; intros fuel i acc rest Hf Hi F ND.
  - destruct fuel as [|f]; [cbn in Hf; lia|]. rewrite dsl_S. cbn [lenN].
    replace (i + 2 * 0 <=? i) with true by lia. unfold sos_of. cbn [map]. rewrite app_nil_r. reflexivity.
  - destruct fuel as [|f]; [cbn in Hf; lia|]. cbn [List.length] in Hf. cbn [lenN] in Hi.
    inversion F as [|? ? [U [L1 L2]] Ft]; subst. cbn [fst snd] in *.
    rewrite dsl_S. cbn [lenN]. replace (i + 2 * N.succ (lenN t) <=? i) with false by lia.
    cbn [flat_map]. unfold sec_enc at 1. cbn [fst snd]. rewrite <- !app_assoc.
    rewrite decode_text_item by assumption. cbn [bind].
    rewrite existsb_key_false.
    2:{ cbn [map fst] in ND. intros Hin. apply NoDup_remove_2 in ND. apply ND. apply in_or_app. left. exact Hin. }
    rewrite decode_uint_item by exact L2. cbn [bind].
    rewrite w64_small by lia.
    replace (i + 2 * N.succ (lenN t)) with (i + 2 + 2 * lenN t) by lia.
    rewrite IH; [|lia|lia|exact Ft|].
    + unfold sos_of. cbn [map fst snd]. rewrite <- app_assoc. reflexivity.
    + rewrite map_app. cbn [map fst]. rewrite <- app_assoc. exact ND.
Qed.

Lemma decode_section_lengths_ok (secs : list (bytes * bytes)) :
  2 * lenN secs < two64 -> Forall sec_ok secs -> NoDup (map fst secs) ->
  decode_section_lengths (table_body secs) = Ok (sos_of secs).
Proof.
  intros L F ND. unfold decode_section_lengths, table_body.
  rewrite decode_arr_item by exact L. cbn [bind].
  change (flat_map (fun s => text_item (fst s) ++ uint_item (lenN (snd s))) secs) with (flat_map sec_enc secs).
  rewrite <- (app_nil_r (flat_map sec_enc secs)).
  change (2 * lenN secs) with (0 + 2 * lenN secs).
  rewrite dsl_run; [reflexivity| |lia|exact F|exact ND].
  rewrite app_nil_r.
  assert (G : lenN secs <= lenN (flat_map sec_enc secs)).
  { apply lenN_flat_map_ge. intros s. unfold sec_enc, text_item. cbn [senc_token]. rewrite !lenN_app.
    pose proof (senc_head_len_ge 3 (lenN (fst s))). lia. }
  rewrite !lenN_length in G. lia.
Qed.

(* ---- the index --------------------------------------------------------------------------------------- *)
Definition mkloc (u : bytes) (roff : N) (l : N * N) : loc :=
  {| l_url := u; l_off := w64 (roff + fst l); l_len := snd l |}.
Definition loc_ok (rlen : N) (l : N * N) : Prop :=
  fst l < two64 /\ snd l < two64 /\ snd l <= rlen /\ fst l <= rlen - snd l.

Lemma read_locs_S (f : nat) (k : N) (bs u : bytes) (rlen roff : N) (acc : list loc) :
  read_locs (S f) k bs u rlen roff acc =
  if k =? 0 then Ok (acc, bs)
  else
    let* (o, r1) := decode_uint bs in
    let* (l, r2) := decode_uint r1 in
    let* (o', l') := make_relative rlen roff o l in
    read_locs f (k - 1) r2 u rlen roff (acc ++ [{| l_url := u; l_off := o'; l_len := l' |}]).
Proof. reflexivity. Qed.

Lemma read_locs_run (u : bytes) (rlen roff : N) (ls : list (N * N)) : forall fuel acc rest,
  (List.length ls < fuel)%nat -> Forall (loc_ok rlen) ls ->
  read_locs fuel (lenN ls) (flat_map loc_bytes ls ++ rest) u rlen roff acc
  = Ok (acc ++ map (mkloc u roff) ls, rest).
Proof.
  induction ls as [|[o l] t IH]; intros fuel acc rest Hf F.
  - destruct fuel as [|f]; [cbn in Hf; lia|]. rewrite read_locs_S. cbn [lenN N.eqb map flat_map app].
    rewrite app_nil_r. reflexivity.
  - destruct fuel as [|f]; [cbn in Hf; lia|]. cbn [List.length] in Hf.
    inversion F as [|? ? [O1 [O2 [O3 O4]]] Ft]; subst. cbn [fst snd] in *.
    rewrite read_locs_S. cbn [lenN]. replace (N.succ (lenN t) =? 0) with false by lia.
    cbn [flat_map]. unfold loc_bytes at 1. cbn [fst snd]. rewrite <- !app_assoc.
    rewrite decode_uint_item by exact O1. cbn [bind]. rewrite decode_uint_item by exact O2. cbn [bind].
    unfold make_relative. replace ((rlen <? l) || (rlen - l <? o)) with false by lia. cbn [bind].
    replace (N.succ (lenN t) - 1) with (lenN t) by lia.
    rewrite IH by (try lia; exact Ft). cbn [map]. unfold mkloc at 2. cbn [fst snd].
    rewrite <- app_assoc. reflexivity.
Qed.

Definition url_readable (u : bytes) : Prop :=
  utf8_valid u = true /\ lenN u < two63 /\ index_url_ok u = (true, false).

Definition ix_ok (v : bversion) (rlen : N) (e : bytes * bytes * list (N * N)) : Prop :=
  url_readable (ix_url e) /\ Forall (loc_ok rlen) (ix_locs e) /\ lenN (ix_locs e) < two63 /\
  match v with
  | BV2 => exists l, ix_locs e = [l]
  | BV1 => lenN (ix_vv e) < two63 /\
           ((ix_vv e = [] /\ exists l, ix_locs e = [l]) \/
            (ix_vv e <> [] /\ exists vs, parse_list_of_string_lists (ix_vv e) = Ok vs /\
                                         num_possible_keys vs = Ok (lenN (ix_locs e))))
  end.
Definition ix_bytes (v : bversion) (e : bytes * bytes * list (N * N)) : bytes :=
  index_key e ++ index_val v e.
Definition ix_locs_of (roff : N) (e : bytes * bytes * list (N * N)) : list loc :=
  map (mkloc (ix_url e) roff) (ix_locs e).

Lemma parse_index_S (f : nat) (v : bversion) (n : N) (bs : bytes) (rlen roff : N) (acc : list loc) (taint : bool) :
  parse_index (S f) v n bs rlen roff acc taint =
  if n =? 0 then Ok (acc, taint)
  else
    let* (u, r1) := decode_text bs in
    let '(ok, t) := index_url_ok u in
    if negb ok then Err
    else
      let* (items, r2) := decode_array_header r1 in
      match v with
      | BV2 =>
          if negb (items =? 2) then Err
          else
            let* (ls, r3) := read_locs 2 1 r2 u rlen roff [] in
            parse_index f v (n - 1) r3 rlen roff (acc ++ ls) (taint || t)
      | BV1 =>
          if items =? 0 then Err
          else
            let* (vv, r3) := decode_bytes r2 in
            match vv with
            | [] =>
                if negb (items =? 3) then Err
                else
                  let* (ls, r4) := read_locs 2 1 r3 u rlen roff [] in
                  parse_index f v (n - 1) r4 rlen roff (acc ++ ls) (taint || t)
            | _ =>
                let* vs := parse_list_of_string_lists vv in
                let* nk := num_possible_keys vs in
                if negb (items =? 2 * nk + 1) then Err
                else
                  let* (ls, r4) := read_locs (S (N.to_nat nk)) nk r3 u rlen roff [] in
                  parse_index f v (n - 1) r4 rlen roff (acc ++ ls) (taint || t)
            end
      end.
Proof. reflexivity. Qed.

Lemma parse_index_run (v : bversion) (rlen roff : N) (idx : list (bytes * bytes * list (N * N))) :
  forall fuel acc taint rest,
  (List.length idx < fuel)%nat -> Forall (ix_ok v rlen) idx ->
  parse_index fuel v (lenN idx) (flat_map (ix_bytes v) idx ++ rest) rlen roff acc taint
  = Ok (acc ++ flat_map (ix_locs_of roff) idx, taint).
Proof.
  induction idx as [|[[u vv] ls] t IH]; intros fuel acc taint rest Hf F.
  - destruct fuel as [|f]; [cbn in Hf; lia|]. rewrite parse_index_S. cbn [lenN N.eqb flat_map].
    rewrite app_nil_r. reflexivity.
  - destruct fuel as [|f]; [cbn in Hf; lia|]. cbn [List.length] in Hf.
    inversion F as [|? ? [[U1 [U2 U3]] [Lo [Ll Hv]]] Ft]; subst.
    unfold ix_url, ix_vv, ix_locs in *. cbn [fst snd] in *.
    rewrite parse_index_S. cbn [lenN]. replace (N.succ (lenN t) =? 0) with false by lia.
    cbn [flat_map]. unfold ix_bytes at 1, index_key, index_val, ix_url, ix_vv, ix_locs. cbn [fst snd].
    rewrite <- !app_assoc. rewrite decode_text_item by assumption. cbn [bind]. rewrite U3. cbn [negb].
    replace (N.succ (lenN t) - 1) with (lenN t) by lia.
    unfold ix_locs_of, ix_url, ix_locs in *. cbn [fst snd flat_map].
    destruct v.
    + destruct Hv as [Lv [[Evv [l El]]|[Nvv [vs [Pv Pn]]]]].
      * subst vv ls. change (1 + 2 * lenN [l]) with 3. rewrite <- !app_assoc.
        rewrite decode_arr_item by (unfold two64; lia). cbn [bind N.eqb Pos.eqb negb].
        rewrite decode_bytes_item by (cbn; unfold two63; lia). cbn [bind N.eqb Pos.eqb negb].
        change 1 with (lenN [l]). rewrite (read_locs_run u rlen roff [l] 2 [] _) by (cbn; try lia; exact Lo).
        cbn [bind app]. rewrite orb_false_r. rewrite IH by (try lia; exact Ft).
        rewrite <- app_assoc. reflexivity.
      * rewrite <- !app_assoc.
        rewrite decode_arr_item by (unfold two63, two64 in *; lia). cbn [bind].
        replace (1 + 2 * lenN ls =? 0) with false by lia.
        rewrite decode_bytes_item by exact Lv. cbn [bind].
        destruct vv as [|c vr]; [contradiction|].
        rewrite Pv. cbn [bind]. rewrite Pn. cbn [bind].
        replace (1 + 2 * lenN ls =? 2 * lenN ls + 1) with true by lia. cbn [negb].
        rewrite (read_locs_run u rlen roff ls _ [] _); [|rewrite lenN_length; lia|exact Lo].
        cbn [bind app]. rewrite orb_false_r. rewrite IH by (try lia; exact Ft).
        rewrite <- app_assoc. reflexivity.
    + destruct Hv as [l El]. subst ls. change (2 * lenN [l]) with 2. rewrite <- !app_assoc.
      rewrite decode_arr_item by (unfold two64; lia). cbn [bind N.eqb Pos.eqb negb].
      change 1 with (lenN [l]). rewrite (read_locs_run u rlen roff [l] 2 [] _) by (cbn; try lia; exact Lo).
      cbn [bind app]. rewrite orb_false_r. rewrite IH by (try lia; exact Ft).
      rewrite <- app_assoc. reflexivity.
Qed.

Lemma find_section_responses (front : list (bytes * bytes)) (rb : bytes) :
  ~ In n_responses (map fst front) -> lenN (List.concat (map snd front)) < two64 ->
  find_section (sos_of (front ++ [(n_responses, rb)])) (s2b "responses")
  = Some (lenN rb, lenN (List.concat (map snd front))).
Proof.
  unfold find_section. intros Hn L.
  assert (G : forall off,
            off + lenN (List.concat (map snd front)) < two64 ->
            (fix go (l : list (bytes * N)) (off : N) : option (N * N) :=
               match l with
               | [] => None
               | (n, len) :: t => if bytes_eqb n (s2b "responses") then Some (len, off) else go t (w64 (off + len))
               end) (sos_of (front ++ [(n_responses, rb)])) off
            = Some (lenN rb, off + lenN (List.concat (map snd front)))).
  { clear L. induction front as [|[n b] t IH]; intros off Lo.
    - cbn [app sos_of map fst snd List.concat lenN].
      replace (bytes_eqb n_responses (s2b "responses")) with true by reflexivity. f_equal. f_equal. lia.
    - cbn [app sos_of map fst snd List.concat] in *. rewrite lenN_app in Lo.
      assert (E : bytes_eqb n (s2b "responses") = false).
      { apply bytes_eqb_neq. intros E. apply Hn. left. exact E. }
      rewrite E. rewrite w64_small by lia.
      fold (sos_of (t ++ [(n_responses, rb)])).
      rewrite IH; [|intros Hin; apply Hn; right; exact Hin|lia].
      rewrite lenN_app. f_equal. f_equal. lia. }
  rewrite G by lia. reflexivity.
Qed.

(* ---- sections_fit --------------------------------------------------------------------------------------- *)
Lemma sections_fit_ok (secs : list (bytes * bytes)) : forall e total,
  e + lenN (List.concat (map snd secs)) <= total ->
  sections_fit (sos_of secs) e total = true.
Proof.
  induction secs as [|[n b] t IH]; intros e total H; [reflexivity|].
  cbn [sos_of map fst snd sections_fit List.concat] in *. rewrite lenN_app in H.
  replace (total - e <? lenN b) with false by lia. apply IH. lia.
Qed.

(* ---- the walk over the sections -------------------------------------------------------------------------- *)
Definition known_name (name : bytes) : bool :=
  existsb (bytes_eqb name) (map s2b ["index"; "manifest"; "primary"; "signatures"; "responses"]%string).

Section Walk.
  Variable x509_ok : bytes -> bool.

  Definition sec_effect (v : bversion) (all : list (bytes * N)) (ss : N) (name contents : bytes) (m : meta)
    : R meta :=
    if bytes_eqb name (s2b "index") then
      match find_section all (s2b "responses") with
      | None => Err
      | Some (resp_len, rel) =>
          let* (n, r) := decode_map_header contents in
          let* (ls, tn) := parse_index (S (List.length r)) v n r resp_len (w64 (ss + rel)) [] (m_taint m) in
          Ok {| m_primary := m_primary m; m_manifest := m_manifest m;
                m_sigs := m_sigs m; m_locs := ls; m_taint := tn |}
      end
    else if bytes_eqb name (s2b "primary") then
      let* (u, _) := decode_text contents in
      let '(ok, tn) := abs_url_ok u in
      if ok then Ok {| m_primary := Some u; m_manifest := m_manifest m;
                       m_sigs := m_sigs m; m_locs := m_locs m; m_taint := m_taint m || tn |}
      else Err
    else if bytes_eqb name (s2b "manifest") then
      let* (u, _) := decode_text contents in
      let '(ok, tn) := abs_url_ok u in
      if ok then Ok {| m_primary := m_primary m; m_manifest := Some u;
                       m_sigs := m_sigs m; m_locs := m_locs m; m_taint := m_taint m || tn |}
      else Err
    else
      let* s := parse_signatures x509_ok contents in
      Ok {| m_primary := m_primary m; m_manifest := m_manifest m;
            m_sigs := Some s; m_locs := m_locs m; m_taint := m_taint m |}.

  Lemma load_sections_cons (v : bversion) (bs : bytes) (all : list (bytes * N)) (name : bytes) (len : N)
        (t : list (bytes * N)) (offset ss : N) (m : meta) :
    load_sections x509_ok v bs all ((name, len) :: t) offset ss m =
    if negb (known_name name) then load_sections x509_ok v bs all t (w64 (offset + len)) ss m
    else if bytes_eqb name (s2b "responses") then load_sections x509_ok v bs all t offset ss m
    else if lenN bs <=? offset then Err
    else
      let e := w64 (offset + len) in
      if lenN bs <=? e then Err
      else
        match splitN bs offset with
        | None => Panic
        | Some (_, from) =>
            if e <? offset then Panic
            else match splitN from (e - offset) with
                 | None => Panic
                 | Some (contents, _) =>
                     let* m' := sec_effect v all ss name contents m in
                     load_sections x509_ok v bs all t e ss m'
                 end
        end.
  Proof. reflexivity. Qed.

  Lemma load_sections_step (v : bversion) (bs pre body post : bytes) (all : list (bytes * N)) (name : bytes)
        (t : list (bytes * N)) (ss : N) (m : meta) :
    known_name name = true -> bytes_eqb name (s2b "responses") = false ->
    bs = pre ++ body ++ post -> 1 <= lenN post -> lenN bs < two64 ->
    load_sections x509_ok v bs all ((name, lenN body) :: t) (lenN pre) ss m =
    let* m' := sec_effect v all ss name body m in
    load_sections x509_ok v bs all t (lenN pre + lenN body) ss m'.
  Proof.
    intros K NR E Lp L. rewrite load_sections_cons, K, NR. cbn [negb].
    assert (Lb : lenN bs = lenN pre + lenN body + lenN post) by (rewrite E, !lenN_app; lia).
    replace (lenN bs <=? lenN pre) with false by lia. cbv zeta.
    rewrite w64_small by lia.
    replace (lenN bs <=? lenN pre + lenN body) with false by lia.
    rewrite E at 1. rewrite splitN_app.
    replace (lenN pre + lenN body <? lenN pre) with false by lia.
    replace (lenN pre + lenN body - lenN pre) with (lenN body) by lia.
    rewrite splitN_app. reflexivity.
  Qed.

  Lemma load_sections_resp (v : bversion) (bs : bytes) (all : list (bytes * N)) (len : N)
        (t : list (bytes * N)) (offset ss : N) (m : meta) :
    load_sections x509_ok v bs all ((n_responses, len) :: t) offset ss m =
    load_sections x509_ok v bs all t offset ss m.
  Proof. rewrite load_sections_cons. reflexivity. Qed.

  (* ---- the response loop ---------------------------------------------------------------------------------- *)
  Lemma load_all_cons (bs : bytes) (l : loc) (t : list loc) (acc : list bexchange) :
    load_all bs (l :: t) acc =
    let hi := w64 (l_off l + l_len l) in
    if hi <? l_off l then Panic
    else match splitN bs (l_off l) with
         | None => Panic
         | Some (_, from) =>
             match splitN from (l_len l) with
             | None => Panic
             | Some (item, _) =>
                 let* (st, h, body) := load_response item in
                 load_all bs t ({| bx_url := l_url l; bx_status := st; bx_hdr := h; bx_body := body |} :: acc)
             end
         end.
  Proof. reflexivity. Qed.

  (* location l holds the item of exchange x *)
  Definition holds (bs : bytes) (l : loc) (x : bexchange) : Prop :=
    xwritable x = true /\ l_url l = bx_url x /\ l_len l = lenN (item_of x) /\
    exists pre post, bs = pre ++ item_of x ++ post /\ lenN pre = l_off l.

  Lemma load_all_run (bs : bytes) (ls : list loc) (xs : list bexchange) : forall acc,
    lenN bs < two63 -> Forall2 (holds bs) ls xs ->
    load_all bs ls acc = Ok (rev acc ++ map xnorm xs).
  Proof.
    intros acc L F. revert acc. induction F as [|l x ls' xs' [W [Eu [El [pre [post [E Eo]]]]]] F IH]; intros acc.
    - cbn [load_all map]. rewrite app_nil_r. reflexivity.
    - rewrite load_all_cons. cbv zeta.
      assert (Lb : lenN bs = lenN pre + lenN (item_of x) + lenN post) by (rewrite E, !lenN_app; lia).
      rewrite w64_small by (unfold two63, two64 in *; lia).
      replace (l_off l + l_len l <? l_off l) with false by lia.
      rewrite E at 1. rewrite <- Eo, splitN_app, El, splitN_app.
      rewrite load_response_item by (try exact W; unfold two63 in *; lia). cbn [bind].
      rewrite IH. cbn [rev map]. rewrite <- app_assoc. cbn [app]. unfold xnorm at 2. rewrite Eu. reflexivity.
  Qed.
End Walk.
