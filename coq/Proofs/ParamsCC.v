(* Part of the tie between the Go sources and the model: constants re-generated
   from the working tree by `harness params` (Generated/Params.v) equal the ones
   the model and the theorems use.  A changed constant in /repo makes one of
   these `reflexivity` proofs fail. *)
From WP Require Import Base.Prelude Generated.Params.
From WP Require Import Model.CertChain.
Open Scope N_scope.

Lemma params_complete_cc : p_translator_complete = true.
Proof. reflexivity. Qed.

(* ---- cert chain / SCT (C17) ---------------------------------------------- *)
Lemma params_certchain : p_cc_magic = cc_magic /\ p_max_sct_length = 65535.
Proof. split; reflexivity. Qed.
