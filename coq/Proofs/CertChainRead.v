(* Proofs/CertChainRead.v - ReadCertChain: round trip with CertChain.Write,
   what a successful read guarantees, and totality (fuel sufficiency).       *)
From Coq Require Import Lia ZifyN ZifyNat ZifyBool.
From WP Require Import Base.Prelude Model.Cbor Model.CertChain Spec.Cbor Spec.CertChain.
From WP Require Import Proofs.BaseLemmas Proofs.CborHead Proofs.CborUtf8 Proofs.CborTokens
  Proofs.CborMap Proofs.CborDecode Proofs.CertChainWrite.
Ltac Zify.zify_post_hook ::= Z.div_mod_to_equations.
Open Scope N_scope.

Definition kcert : bytes := s2b "cert".
Definition kocsp : bytes := s2b "ocsp".
Definition ksct : bytes := s2b "sct".

(* ---- consumption: every successful decode call eats at least one byte -------- *)
Lemma decode_of_type_shrinks (t n : N) (bs rest : bytes) :
  major_const t -> decode_of_type t bs = Ok (n, rest) ->
  (List.length rest < List.length bs)%nat.
Proof.
  intros Ht H. destruct (decode_consumes t n bs rest Ht H) as [h [E L]].
  subst bs. rewrite app_length. rewrite lenN_length in L. lia.
Qed.

Lemma decode_bytes_shrinks (bs s rest : bytes) :
  decode_bytes bs = Ok (s, rest) -> (List.length rest < List.length bs)%nat.
Proof.
  intros H. destruct (decode_bytes_sound bs s rest H) as [h [w [E [L _]]]].
  subst bs. rewrite !app_length. rewrite lenN_length in L. lia.
Qed.

Lemma decode_text_shrinks (bs s rest : bytes) :
  decode_text bs = Ok (s, rest) -> (List.length rest < List.length bs)%nat.
Proof.
  intros H. destruct (decode_text_sound bs s rest H) as [h [w [E [L _]]]].
  subst bs. rewrite !app_length. rewrite lenN_length in L. lia.
Qed.

Lemma decode_text_of_key (s rest : bytes) :
  lenN s < two63 -> utf8_valid s = true ->
  decode_text (enc_bytes_of MText s ++ rest) = Ok (s, rest).
Proof.
  intros Hl Hu. apply decode_encode_text; [exact Hl|].
  unfold enc_text. rewrite Hu. reflexivity.
Qed.

Section Read.
  Variable x509_ok : bytes -> bool.

  (* ---- one iteration of the key/value loop, in a uniform shape ---------------- *)
  Lemma dec_entries_S (f : nat) (m : N) (bs : bytes) (c o s : option bytes) :
    dec_entries x509_ok (S f) m bs c o s =
    if m =? 0 then Ok (c, o, s, bs)
    else
      let* (k, r1) := decode_text bs in
      let* (v, r2) := decode_bytes r1 in
      if bytes_eqb k kcert && negb (x509_ok v) then Err
      else dec_entries x509_ok f (m - 1) r2
             (if bytes_eqb k kcert then Some v else c)
             (if bytes_eqb k kocsp then Some v else o)
             (if bytes_eqb k ksct then Some v else s).
  Proof.
    cbn [dec_entries]. fold kcert kocsp ksct.
    destruct (m =? 0); [reflexivity|].
    destruct (decode_text bs) as [[k r1]| | |]; cbn [bind]; try reflexivity.
    destruct (decode_bytes r1) as [[v r2]| | |]; cbn [bind]; try reflexivity.
    destruct (bytes_eqb k kcert) eqn:E1.
    - apply bytes_eqb_eq in E1. subst k.
      change (bytes_eqb kcert kocsp) with false. change (bytes_eqb kcert ksct) with false.
      destruct (x509_ok v); reflexivity.
    - cbn [andb]. destruct (bytes_eqb k kocsp) eqn:E2; [|destruct (bytes_eqb k ksct); reflexivity].
      apply bytes_eqb_eq in E2. subst k.
      change (bytes_eqb kocsp ksct) with false. reflexivity.
  Qed.

  Lemma dec_chain_S (f : nat) (n : N) (bs : bytes) (acc : list augcert) :
    dec_chain x509_ok (S f) n bs acc =
    if n =? 0 then Ok (rev acc, bs)
    else let* (a, r) := decode_augcert x509_ok bs in dec_chain x509_ok f (n - 1) r (a :: acc).
  Proof. reflexivity. Qed.

  (* ================= round trip ================================================ *)
  Lemma dec_step (k v r : bytes) (f : nat) (m : N) (c o s : option bytes) :
    In k [kcert; kocsp; ksct] -> lenN v < two63 -> m <> 0 ->
    (k = kcert -> x509_ok v = true) ->
    dec_entries x509_ok (S f) m (enc_bytes_of MText k ++ enc_bytes v ++ r) c o s =
    dec_entries x509_ok f (m - 1) r
      (if bytes_eqb k kcert then Some v else c)
      (if bytes_eqb k kocsp then Some v else o)
      (if bytes_eqb k ksct then Some v else s).
  Proof.
    intros Hk Hv Hm Hx. rewrite dec_entries_S.
    replace (m =? 0) with false by lia.
    rewrite decode_text_of_key;
      [|cbn [In] in Hk; destruct Hk as [E|[E|[E|[]]]]; subst k; vm_compute; reflexivity
       |cbn [In] in Hk; destruct Hk as [E|[E|[E|[]]]]; subst k; vm_compute; reflexivity].
    cbn [bind]. rewrite decode_encode_bytes by exact Hv. cbn [bind].
    destruct (bytes_eqb k kcert) eqn:E; [|reflexivity].
    apply bytes_eqb_eq in E. rewrite (Hx E). reflexivity.
  Qed.

  Definition aug_body (a : augcert) : bytes :=
    fieldb "sct" (ac_sct a)
    ++ (enc_bytes_of MText kcert ++ enc_bytes (ac_cert a))
    ++ fieldb "ocsp" (ac_ocsp a).

  Lemma aug_bytes_body (a : augcert) :
    aug_bytes a = enc_map_header (1 + present (ac_ocsp a) + present (ac_sct a)) ++ aug_body a.
  Proof. reflexivity. Qed.

  Lemma aug_body_len (a : augcert) (rest : bytes) :
    (5 <= List.length (aug_body a ++ rest))%nat.
  Proof.
    unfold aug_body. rewrite !app_length.
    change (List.length (enc_bytes_of MText kcert)) with 5%nat. lia.
  Qed.

  Lemma dec_entries_aug (a : augcert) (rest : bytes) (f : nat) :
    (4 <= f)%nat -> x509_ok (ac_cert a) = true -> aug_lt two63 a ->
    dec_entries x509_ok f (1 + present (ac_ocsp a) + present (ac_sct a))
      (aug_body a ++ rest) None None None
    = Ok (Some (ac_cert a), ac_ocsp a, ac_sct a, rest).
  Proof.
    intros Hf Hx [H1 [H2 H3]].
    destruct f as [|[|[|[|f]]]]; try lia. clear Hf.
    destruct a as [ce [o|] [s|]]; unfold aug_body;
      cbn [ac_cert ac_ocsp ac_sct present fieldb opt_len_lt] in *;
      fold kcert kocsp ksct; rewrite <- ?app_assoc; cbn [app].
    - rewrite (dec_step ksct) by (cbn; tauto || assumption || discriminate).
      rewrite (dec_step kcert) by (cbn; tauto || assumption || (vm_compute; discriminate)).
      rewrite (dec_step kocsp) by (cbn; tauto || assumption || (vm_compute; discriminate)).
      rewrite dec_entries_S. reflexivity.
    - rewrite (dec_step kcert) by (cbn; tauto || assumption || (vm_compute; discriminate)).
      rewrite (dec_step kocsp) by (cbn; tauto || assumption || (vm_compute; discriminate)).
      rewrite dec_entries_S. reflexivity.
    - rewrite (dec_step ksct) by (cbn; tauto || assumption || (vm_compute; discriminate)).
      rewrite <- (app_nil_l rest) at 1.
      change ([] ++ rest) with (nil ++ rest).
      rewrite (dec_step kcert ce ([] ++ rest))
        by (cbn; tauto || assumption || (vm_compute; discriminate)).
      rewrite dec_entries_S. reflexivity.
    - rewrite <- (app_nil_l rest) at 1.
      rewrite (dec_step kcert ce ([] ++ rest))
        by (cbn; tauto || assumption || (vm_compute; discriminate)).
      rewrite dec_entries_S. reflexivity.
  Qed.

  Lemma decode_augcert_encode (a : augcert) (rest : bytes) :
    x509_ok (ac_cert a) = true -> aug_lt two63 a ->
    decode_augcert x509_ok (aug_bytes a ++ rest) = Ok (a, rest).
  Proof.
    intros Hx Ha. unfold decode_augcert. rewrite aug_bytes_body, <- app_assoc.
    rewrite decode_encode_map_header.
    2:{ assert (Hp : forall v, present v <= 1) by (intros [x|]; cbn [present]; lia).
        pose proof (Hp (ac_ocsp a)). pose proof (Hp (ac_sct a)). unfold two64. lia. }
    cbn [bind]. rewrite dec_entries_aug; [| |exact Hx|exact Ha].
    - cbn [bind]. destruct a; reflexivity.
    - pose proof (aug_body_len a rest). lia.
  Qed.

  Lemma aug_bytes_nonempty (a : augcert) : (1 <= List.length (aug_bytes a))%nat.
  Proof.
    rewrite aug_bytes_body, app_length. pose proof (aug_body_len a []) as H.
    rewrite app_nil_r in H. lia.
  Qed.

  Lemma flat_aug_len (l : list augcert) :
    (List.length l <= List.length (flat_map aug_bytes l))%nat.
  Proof.
    induction l as [|a t IH]; cbn [flat_map List.length]; [lia|].
    rewrite app_length. pose proof (aug_bytes_nonempty a). lia.
  Qed.

  Lemma dec_chain_encode (l : list augcert) : forall (fuel : nat) (acc : list augcert) (rest : bytes),
    (List.length l < fuel)%nat ->
    Forall (fun a => x509_ok (ac_cert a) = true) l -> Forall (aug_lt two63) l ->
    dec_chain x509_ok fuel (lenN l) (flat_map aug_bytes l ++ rest) acc = Ok (rev acc ++ l, rest).
  Proof.
    induction l as [|a t IH]; intros fuel acc rest Hf Hx Hl;
      (destruct fuel as [|f]; [cbn [List.length] in Hf; lia|]); rewrite dec_chain_S.
    - cbn [lenN flat_map app]. rewrite app_nil_r. reflexivity.
    - cbn [lenN flat_map]. replace (N.succ (lenN t) =? 0) with false by lia.
      inversion Hx as [|? ? Hxa Hxt]; subst. inversion Hl as [|? ? Hla Hlt]; subst.
      rewrite <- app_assoc, decode_augcert_encode by assumption. cbn [bind].
      replace (N.succ (lenN t) - 1) with (lenN t) by lia.
      rewrite IH; [|cbn [List.length] in Hf; lia|assumption|assumption].
      cbn [rev]. rewrite <- app_assoc. reflexivity.
  Qed.

  Lemma validate_nonempty (c : list augcert) : validate c = true -> 1 <= lenN c.
  Proof. destruct c; [discriminate|]. cbn [lenN]. lia. Qed.

  Theorem chain_roundtrip (c : list augcert) :
    Forall (fun a => x509_ok (ac_cert a) = true) c ->
    lenN c + 1 < two64 -> Forall (aug_lt two63) c ->
    validate c = true ->
    exists bs, cc_write c = Ok bs /\ cc_read x509_ok bs = Ok c /\
               forall rest, cc_read x509_ok (bs ++ rest) = Ok c.
  Proof.
    intros Hx Hn Hl Hv. exists (chain_bytes c).
    split; [apply cc_write_ok; exact Hv|].
    assert (Hall : forall rest, cc_read x509_ok (chain_bytes c ++ rest) = Ok c).
    { intros rest. unfold cc_read, chain_bytes. rewrite <- !app_assoc.
      rewrite decode_encode_array_header by exact Hn. cbn [bind].
      pose proof (validate_nonempty c Hv) as Hne.
      replace (lenN c + 1 <? 2) with false by lia.
      rewrite decode_text_of_key by (vm_compute; reflexivity). cbn [bind].
      rewrite bytes_eqb_refl. cbn [negb].
      replace (lenN c + 1 - 1) with (lenN c) by lia.
      rewrite dec_chain_encode; [| |exact Hx|exact Hl].
      - cbn [bind rev app]. rewrite Hv. reflexivity.
      - rewrite app_length. pose proof (flat_aug_len c). lia. }
    split; [|exact Hall].
    rewrite <- (app_nil_r (chain_bytes c)). apply Hall.
  Qed.

  (* ================= what a successful read guarantees ========================= *)
  Definition cert_ok (c : option bytes) : Prop :=
    match c with Some v => x509_ok v = true | None => True end.

  Lemma dec_entries_cert_ok (f : nat) : forall m bs c o s c' o' s' r,
    cert_ok c -> dec_entries x509_ok f m bs c o s = Ok (c', o', s', r) -> cert_ok c'.
  Proof.
    induction f as [|f IH]; intros m bs c o s c' o' s' r Hc H; [discriminate|].
    rewrite dec_entries_S in H. destruct (m =? 0).
    - inversion H; subst. exact Hc.
    - destruct (decode_text bs) as [[k r1]| | |]; cbn [bind] in H; try discriminate.
      destruct (decode_bytes r1) as [[v r2]| | |]; cbn [bind] in H; try discriminate.
      destruct (bytes_eqb k kcert); cbn [andb] in H.
      + destruct (x509_ok v) eqn:Ex; cbn [negb] in H; [|discriminate].
        eapply IH; [|exact H]. exact Ex.
      + eapply IH; [|exact H]. exact Hc.
  Qed.

  Lemma decode_augcert_cert_ok (bs : bytes) (a : augcert) (r : bytes) :
    decode_augcert x509_ok bs = Ok (a, r) -> x509_ok (ac_cert a) = true.
  Proof.
    unfold decode_augcert. intros H.
    destruct (decode_map_header bs) as [[m r0]| | |]; cbn [bind] in H; try discriminate.
    destruct (dec_entries x509_ok (S (List.length r0)) m r0 None None None)
      as [[[[c o] s] r']| | |] eqn:E; cbn [bind] in H; try discriminate.
    apply dec_entries_cert_ok in E; [|exact I].
    destruct c as [der|]; [|discriminate]. inversion H; subst. exact E.
  Qed.

  Lemma dec_chain_cert_ok (f : nat) : forall n bs acc l r,
    Forall (fun a => x509_ok (ac_cert a) = true) acc ->
    dec_chain x509_ok f n bs acc = Ok (l, r) ->
    Forall (fun a => x509_ok (ac_cert a) = true) l.
  Proof.
    induction f as [|f IH]; intros n bs acc l r Hacc H; [discriminate|].
    rewrite dec_chain_S in H. destruct (n =? 0).
    - inversion H; subst. apply Forall_rev. exact Hacc.
    - destruct (decode_augcert x509_ok bs) as [[a r0]| | |] eqn:E; cbn [bind] in H;
        try discriminate.
      eapply IH; [|exact H]. constructor; [|exact Hacc].
      eapply decode_augcert_cert_ok. exact E.
  Qed.

  Theorem read_validates (bs : bytes) (c : list augcert) :
    cc_read x509_ok bs = Ok c ->
    validate c = true /\ Forall (fun a => x509_ok (ac_cert a) = true) c.
  Proof.
    unfold cc_read. intros H.
    destruct (decode_array_header bs) as [[n r]| | |]; cbn [bind] in H; try discriminate.
    destruct (n <? 2); [discriminate|].
    destruct (decode_text r) as [[mg r1]| | |]; cbn [bind] in H; try discriminate.
    destruct (negb (bytes_eqb mg cc_magic)); [discriminate|].
    destruct (dec_chain x509_ok (S (List.length r1)) (n - 1) r1 [])
      as [[c0 r2]| | |] eqn:E; cbn [bind] in H; try discriminate.
    destruct (validate c0) eqn:Hv; [|discriminate]. inversion H; subst c0.
    split; [exact Hv|]. eapply dec_chain_cert_ok; [|exact E]. constructor.
  Qed.

  (* ================= totality: Ok or Err for every input ======================== *)
  Lemma dec_entries_total (f : nat) : forall m bs c o s,
    (List.length bs < f)%nat -> ok_or_err (dec_entries x509_ok f m bs c o s).
  Proof.
    induction f as [|f IH]; intros m bs c o s Hf; [lia|].
    rewrite dec_entries_S. destruct (m =? 0); [exact I|].
    pose proof (decode_text_total bs) as Ht.
    destruct (decode_text bs) as [[k r1]| | |] eqn:E1; cbn [bind]; try exact Ht.
    pose proof (decode_bytes_of_type_total MBytes r1) as Hb. fold decode_bytes in Hb.
    destruct (decode_bytes r1) as [[v r2]| | |] eqn:E2; cbn [bind]; try exact Hb.
    destruct (bytes_eqb k kcert && negb (x509_ok v)); [exact I|].
    apply IH. apply decode_text_shrinks in E1. apply decode_bytes_shrinks in E2. lia.
  Qed.

  (* the loop never hands back more input than it was given *)
  Lemma dec_entries_len (f : nat) : forall m bs c o s c' o' s' r,
    dec_entries x509_ok f m bs c o s = Ok (c', o', s', r) ->
    (List.length r <= List.length bs)%nat.
  Proof.
    induction f as [|f IH]; intros m bs c o s c' o' s' r H; [discriminate|].
    rewrite dec_entries_S in H. destruct (m =? 0).
    - inversion H; subst. lia.
    - destruct (decode_text bs) as [[k r1]| | |] eqn:E1; cbn [bind] in H; try discriminate.
      destruct (decode_bytes r1) as [[v r2]| | |] eqn:E2; cbn [bind] in H; try discriminate.
      destruct (bytes_eqb k kcert && negb (x509_ok v)); [discriminate|].
      apply IH in H. apply decode_text_shrinks in E1. apply decode_bytes_shrinks in E2. lia.
  Qed.

  Lemma decode_augcert_total (bs : bytes) : ok_or_err (decode_augcert x509_ok bs).
  Proof.
    unfold decode_augcert.
    pose proof (decode_of_type_total MMap bs) as Hm. fold decode_map_header in Hm.
    destruct (decode_map_header bs) as [[m r]| | |]; cbn [bind]; try exact Hm.
    pose proof (dec_entries_total (S (List.length r)) m r None None None
                  (Nat.lt_succ_diag_r _)) as He.
    destruct (dec_entries x509_ok (S (List.length r)) m r None None None)
      as [[[[c o] s] r']| | |]; cbn [bind]; try exact He.
    destruct c; exact I.
  Qed.

  Lemma decode_augcert_shrinks (bs : bytes) (a : augcert) (r : bytes) :
    decode_augcert x509_ok bs = Ok (a, r) -> (List.length r < List.length bs)%nat.
  Proof.
    unfold decode_augcert. intros H.
    destruct (decode_map_header bs) as [[m r0]| | |] eqn:E0; cbn [bind] in H; try discriminate.
    destruct (dec_entries x509_ok (S (List.length r0)) m r0 None None None)
      as [[[[c o] s] r']| | |] eqn:E; cbn [bind] in H; try discriminate.
    destruct c as [der|]; [|discriminate]. inversion H; subst.
    apply dec_entries_len in E.
    apply decode_of_type_shrinks in E0; [|split; reflexivity]. lia.
  Qed.

  Lemma dec_chain_total (f : nat) : forall n bs acc,
    (List.length bs < f)%nat -> ok_or_err (dec_chain x509_ok f n bs acc).
  Proof.
    induction f as [|f IH]; intros n bs acc Hf; [lia|].
    rewrite dec_chain_S. destruct (n =? 0); [exact I|].
    pose proof (decode_augcert_total bs) as Ha.
    destruct (decode_augcert x509_ok bs) as [[a r]| | |] eqn:E; cbn [bind]; try exact Ha.
    apply IH. apply decode_augcert_shrinks in E. lia.
  Qed.

  Theorem read_total (bs : bytes) : ok_or_err (cc_read x509_ok bs).
  Proof.
    unfold cc_read.
    pose proof (decode_of_type_total TArray bs) as Hh. fold decode_array_header in Hh.
    destruct (decode_array_header bs) as [[n r]| | |]; cbn [bind]; try exact Hh.
    destruct (n <? 2); [exact I|].
    pose proof (decode_text_total r) as Ht.
    destruct (decode_text r) as [[mg r1]| | |]; cbn [bind]; try exact Ht.
    destruct (negb (bytes_eqb mg cc_magic)); [exact I|].
    pose proof (dec_chain_total (S (List.length r1)) (n - 1) r1 [] (Nat.lt_succ_diag_r _)) as Hc.
    destruct (dec_chain x509_ok (S (List.length r1)) (n - 1) r1 []) as [[c r2]| | |];
      cbn [bind]; try exact Hc.
    destruct (validate c); exact I.
  Qed.

  (* ================= soundness against the liberal reader of the spec ========== *)
  Definition pick (k : bytes) (es : list (bytes * bytes)) (d : option bytes) : option bytes :=
    match last_val k es with Some x => Some x | None => d end.

  Lemma decode_text_string (bs s rest : bytes) :
    decode_text bs = Ok (s, rest) -> is_string 3 s bs rest /\ Utf8Valid s.
  Proof.
    intros H. apply decode_text_iff in H. destruct H as [_ [Hu Hw]]. split; assumption.
  Qed.

  Lemma decode_bytes_string (bs s rest : bytes) :
    decode_bytes bs = Ok (s, rest) -> is_string 2 s bs rest.
  Proof.
    intros H. apply (decode_bytes_of_type_iff MBytes) in H; [|split; reflexivity].
    destruct H as [_ Hw]. exact Hw.
  Qed.

  (* limits of this reader: string lengths must fit an int64, and EVERY value
     under the key "cert" (not only the last) must parse as a certificate *)
  Definition entry_ok (kv : bytes * bytes) : Prop :=
    lenN (fst kv) < two63 /\ lenN (snd kv) < two63 /\
    (fst kv = kcert -> x509_ok (snd kv) = true).

  Lemma dec_entries_sound (f : nat) : forall m bs c o s c' o' s' r,
    dec_entries x509_ok f m bs c o s = Ok (c', o', s', r) ->
    exists es, Entries m bs es r /\ Forall entry_ok es /\
               c' = pick kcert es c /\ o' = pick kocsp es o /\ s' = pick ksct es s.
  Proof.
    induction f as [|f IH]; intros m bs c o s c' o' s' r H; [discriminate|].
    rewrite dec_entries_S in H. destruct (N.eqb_spec m 0) as [Em|Em].
    - inversion H; subst. exists []. split; [constructor|]. split; [constructor|]. repeat split.
    - destruct (decode_text bs) as [[k r1]| | |] eqn:E1; cbn [bind] in H; try discriminate.
      destruct (decode_bytes r1) as [[v r2]| | |] eqn:E2; cbn [bind] in H; try discriminate.
      destruct (bytes_eqb k kcert && negb (x509_ok v)) eqn:Ex; [discriminate|].
      apply IH in H. destruct H as [es [HE [Hok [Hc [Ho Hs]]]]].
      assert (Hkv : entry_ok (k, v)).
      { unfold entry_ok. cbn [fst snd].
        apply decode_text_iff in E1. destruct E1 as [L1 _].
        apply (decode_bytes_of_type_iff MBytes) in E2; [|split; reflexivity].
        destruct E2 as [L2 _]. split; [exact L1|]. split; [exact L2|].
        intros Ek. subst k. rewrite bytes_eqb_refl in Ex. cbn [andb] in Ex.
        destruct (x509_ok v); [reflexivity|discriminate]. }
      apply decode_text_string in E1. destruct E1 as [E1 Hu].
      apply decode_bytes_string in E2.
      exists ((k, v) :: es). split; [econstructor; eassumption|].
      split; [constructor; assumption|].
      unfold pick in *. cbn [last_val].
      subst c' o' s'.
      repeat split.
      + destruct (last_val kcert es); [reflexivity|]. destruct (bytes_eqb k kcert); reflexivity.
      + destruct (last_val kocsp es); [reflexivity|]. destruct (bytes_eqb k kocsp); reflexivity.
      + destruct (last_val ksct es); [reflexivity|]. destruct (bytes_eqb k ksct); reflexivity.
  Qed.

  Lemma decode_augcert_sound (bs : bytes) (a : augcert) (r' : bytes) :
    decode_augcert x509_ok bs = Ok (a, r') ->
    exists m r es, is_head 5 m bs r /\ Entries m r es r' /\ map_gives es a /\
                   Forall entry_ok es.
  Proof.
    unfold decode_augcert. intros H.
    destruct (decode_map_header bs) as [[m r0]| | |] eqn:E0; cbn [bind] in H; try discriminate.
    destruct (dec_entries x509_ok (S (List.length r0)) m r0 None None None)
      as [[[[c o] s] r1]| | |] eqn:E; cbn [bind] in H; try discriminate.
    destruct c as [der|]; [|discriminate]. inversion H; subst.
    apply dec_entries_sound in E. destruct E as [es [HE [Hok [Hc [Ho Hs]]]]].
    apply (decode_of_type_iff MMap) in E0; [|split; reflexivity].
    exists m, r0, es. split; [exact E0|]. split; [exact HE|]. split; [|exact Hok].
    unfold map_gives, pick in *. cbn [ac_cert ac_ocsp ac_sct]. fold kcert kocsp ksct.
    repeat split.
    - destruct (last_val kcert es); [congruence|discriminate].
    - destruct (last_val kocsp es); congruence.
    - destruct (last_val ksct es); congruence.
  Qed.

  Lemma dec_chain_sound (f : nat) : forall n bs acc l r,
    dec_chain x509_ok f n bs acc = Ok (l, r) ->
    exists ms l', Maps n bs ms r /\ l = rev acc ++ l' /\ Forall2 map_gives ms l' /\
                  Forall (Forall entry_ok) ms.
  Proof.
    induction f as [|f IH]; intros n bs acc l r H; [discriminate|].
    rewrite dec_chain_S in H. destruct (N.eqb_spec n 0) as [En|En].
    - inversion H; subst. exists [], []. split; [constructor|].
      split; [rewrite app_nil_r; reflexivity|]. split; constructor.
    - destruct (decode_augcert x509_ok bs) as [[a r0]| | |] eqn:E; cbn [bind] in H;
        try discriminate.
      apply IH in H. destruct H as [ms [l' [HM [El [HF Hok]]]]].
      apply decode_augcert_sound in E. destruct E as [m [r1 [es [Hh [HE [Hg Hes]]]]]].
      exists (es :: ms), (a :: l'). split; [econstructor; eassumption|].
      split; [|split; constructor; assumption].
      subst l. cbn [rev]. rewrite <- app_assoc. reflexivity.
  Qed.

  Definition ReadFormOk (bs : bytes) (c : list augcert) : Prop :=
    exists n r r1 ms rest,
      is_head 4 n bs r /\ 2 <= n /\ is_string 3 magic r r1 /\
      Maps (n - 1) r1 ms rest /\ Forall2 map_gives ms c /\ Forall (Forall entry_ok) ms.

  Lemma ReadFormOk_ReadForm (bs : bytes) (c : list augcert) : ReadFormOk bs c -> ReadForm bs c.
  Proof.
    intros [n [r [r1 [ms [rest [H1 [H2 [H3 [H4 [H5 _]]]]]]]]]].
    exists n, r, r1, ms, rest. repeat split; assumption.
  Qed.

  Theorem read_sound_strong (bs : bytes) (c : list augcert) :
    cc_read x509_ok bs = Ok c -> ReadFormOk bs c /\ validate c = true.
  Proof.
    unfold cc_read. intros H.
    destruct (decode_array_header bs) as [[n r]| | |] eqn:E0; cbn [bind] in H; try discriminate.
    destruct (n <? 2) eqn:En; [discriminate|].
    destruct (decode_text r) as [[mg r1]| | |] eqn:E1; cbn [bind] in H; try discriminate.
    destruct (bytes_eqb mg cc_magic) eqn:Em; cbn [negb] in H; [|discriminate].
    destruct (dec_chain x509_ok (S (List.length r1)) (n - 1) r1 [])
      as [[c0 r2]| | |] eqn:E; cbn [bind] in H; try discriminate.
    destruct (validate c0) eqn:Hv; [|discriminate]. inversion H; subst c0.
    split; [|exact Hv].
    apply bytes_eqb_eq in Em. subst mg. rewrite <- magic_eq in E1.
    apply (decode_of_type_iff TArray) in E0; [|split; reflexivity].
    apply decode_text_string in E1. destruct E1 as [E1 _].
    apply dec_chain_sound in E. destruct E as [ms [l' [HM [El [HF Hok]]]]].
    cbn [rev app] in El. subst l'.
    exists n, r, r1, ms, r2. split; [exact E0|]. split; [lia|].
    split; [exact E1|]. repeat split; assumption.
  Qed.

  Theorem read_sound (bs : bytes) (c : list augcert) :
    cc_read x509_ok bs = Ok c -> ReadForm bs c.
  Proof. intros H. apply ReadFormOk_ReadForm. apply read_sound_strong. exact H. Qed.

  (* ================= completeness: everything of that form is accepted ========== *)
  Lemma pick_cons (k0 k v : bytes) (es : list (bytes * bytes)) (d : option bytes) :
    pick k0 ((k, v) :: es) d = pick k0 es (if bytes_eqb k k0 then Some v else d).
  Proof.
    unfold pick. cbn [last_val]. destruct (last_val k0 es); [reflexivity|].
    destruct (bytes_eqb k k0); reflexivity.
  Qed.

  Lemma is_string_shrinks (mt : N) (s bs rest : bytes) :
    is_string mt s bs rest -> (List.length rest < List.length bs)%nat.
  Proof.
    intros [w H]. destruct (shead_consumes _ _ _ _ _ H) as [h [E L]].
    subst bs. rewrite !app_length. rewrite lenN_length in L. lia.
  Qed.

  Lemma dec_entries_complete (m : N) (bs : bytes) (es : list (bytes * bytes)) (r : bytes) :
    Entries m bs es r -> Forall entry_ok es ->
    forall f c o s, (List.length bs < f)%nat ->
      dec_entries x509_ok f m bs c o s
      = Ok (pick kcert es c, pick kocsp es o, pick ksct es s, r).
  Proof.
    induction 1 as [bs|m bs k v r1 r2 es rest Hm Hk Hu Hv HE IH]; intros Hok f c o s Hf;
      (destruct f as [|f]; [lia|]); rewrite dec_entries_S.
    - reflexivity.
    - replace (m =? 0) with false by lia.
      inversion Hok as [|? ? [L1 [L2 Hx]] Hok']; subst. cbn [fst snd] in *.
      assert (E1 : decode_text bs = Ok (k, r1)).
      { apply decode_text_iff. split; [exact L1|]. split; [exact Hu|exact Hk]. }
      assert (E2 : decode_bytes r1 = Ok (v, r2)).
      { apply (decode_bytes_of_type_iff MBytes); [split; reflexivity|].
        split; [exact L2|exact Hv]. }
      rewrite E1. cbn [bind]. rewrite E2. cbn [bind].
      assert (Ex : bytes_eqb k kcert && negb (x509_ok v) = false).
      { destruct (bytes_eqb k kcert) eqn:Ek; [|reflexivity].
        apply bytes_eqb_eq in Ek. rewrite (Hx Ek). reflexivity. }
      rewrite Ex. rewrite !pick_cons. apply IH; [exact Hok'|].
      apply is_string_shrinks in Hk. apply is_string_shrinks in Hv. lia.
  Qed.

  Lemma Entries_len (m : N) (bs : bytes) (es : list (bytes * bytes)) (r : bytes) :
    Entries m bs es r -> (List.length r <= List.length bs)%nat.
  Proof.
    induction 1 as [bs|m bs k v r1 r2 es rest Hm Hk Hu Hv HE IH]; [lia|].
    apply is_string_shrinks in Hk. apply is_string_shrinks in Hv. lia.
  Qed.

  Lemma decode_augcert_complete (bs r r' : bytes) (m : N) (es : list (bytes * bytes))
        (a : augcert) :
    is_head 5 m bs r -> Entries m r es r' -> Forall entry_ok es -> map_gives es a ->
    decode_augcert x509_ok bs = Ok (a, r').
  Proof.
    intros Hh HE Hok [G1 [G2 G3]]. unfold decode_augcert.
    assert (E0 : decode_map_header bs = Ok (m, r)).
    { apply (decode_of_type_iff MMap); [split; reflexivity|exact Hh]. }
    rewrite E0. cbn [bind].
    rewrite (dec_entries_complete m r es r' HE Hok) by lia. cbn [bind].
    unfold pick. fold kcert kocsp ksct in G1, G2, G3. rewrite G1, G2, G3.
    destruct a as [ce o s]. cbn [ac_cert ac_ocsp ac_sct].
    destruct o; destruct s; reflexivity.
  Qed.

  Lemma is_head_shrinks (mt n : N) (bs rest : bytes) :
    is_head mt n bs rest -> (List.length rest < List.length bs)%nat.
  Proof.
    intros [w H]. destruct (shead_consumes _ _ _ _ _ H) as [h [E L]].
    subst bs. rewrite !app_length. rewrite lenN_length in L. lia.
  Qed.

  Lemma dec_chain_complete (n : N) (bs : bytes) (ms : list (list (bytes * bytes))) (rest : bytes) :
    Maps n bs ms rest -> forall l, Forall2 map_gives ms l -> Forall (Forall entry_ok) ms ->
    forall f acc, (List.length bs < f)%nat ->
      dec_chain x509_ok f n bs acc = Ok (rev acc ++ l, rest).
  Proof.
    induction 1 as [bs|n bs m r es r' ms rest Hn Hh HE HM IH]; intros l HF Hok f acc Hf;
      (destruct f as [|f]; [lia|]); rewrite dec_chain_S.
    - inversion HF; subst. rewrite app_nil_r. reflexivity.
    - replace (n =? 0) with false by lia.
      inversion HF as [|? a ? l' Hg HF']; subst. inversion Hok as [|? ? Hes Hok']; subst.
      rewrite (decode_augcert_complete bs r r' m es a Hh HE Hes Hg). cbn [bind].
      rewrite (IH l' HF' Hok'); [cbn [rev]; rewrite <- app_assoc; reflexivity|].
      apply is_head_shrinks in Hh. apply Entries_len in HE. lia.
  Qed.

  Theorem read_complete (bs : bytes) (c : list augcert) :
    ReadFormOk bs c -> validate c = true -> cc_read x509_ok bs = Ok c.
  Proof.
    intros [n [r [r1 [ms [rest [H1 [H2 [H3 [H4 [H5 H6]]]]]]]]]] Hv. unfold cc_read.
    assert (E0 : decode_array_header bs = Ok (n, r)).
    { apply (decode_of_type_iff TArray); [split; reflexivity|exact H1]. }
    rewrite E0. cbn [bind]. replace (n <? 2) with false by lia.
    assert (E1 : decode_text r = Ok (magic, r1)).
    { apply decode_text_iff. split; [rewrite magic_bytes; vm_compute; reflexivity|].
      split; [exact magic_utf8|exact H3]. }
    rewrite E1. cbn [bind]. rewrite magic_eq, bytes_eqb_refl. cbn [negb].
    rewrite (dec_chain_complete _ _ _ _ H4 c H5 H6) by lia.
    cbn [bind rev app]. rewrite Hv. reflexivity.
  Qed.

  (* exactly the accepted inputs *)
  Theorem read_iff (bs : bytes) (c : list augcert) :
    cc_read x509_ok bs = Ok c <-> (ReadFormOk bs c /\ validate c = true).
  Proof.
    split; [apply read_sound_strong|]. intros [H1 H2]. apply read_complete; assumption.
  Qed.

  (* the number of maps read is the number of certificates returned *)
  Lemma Maps_length (n : N) (bs : bytes) (ms : list (list (bytes * bytes))) (rest : bytes) :
    Maps n bs ms rest -> lenN ms = n.
  Proof. induction 1 as [|n bs m r es r' ms rest Hn Hh HE HM IH]; cbn [lenN]; lia. Qed.
End Read.
