(* Proofs/BundleRoundtrip.v - C03: reading back what the writer produced. *)
From Coq Require Import Lia ZifyN ZifyNat ZifyBool Permutation Sorted.
From WP Require Import Base.Prelude Base.Decimal Model.Cbor Model.Http Model.UrlRef Model.Variants
  Model.CertChain Model.Bundle.
From WP Require Import Spec.Cbor Spec.Bundle.
From WP Require Import Proofs.BaseLemmas Proofs.CborHead Proofs.CborMap Proofs.CborDecode Proofs.CborUtf8
  Proofs.Variants Proofs.BundleWriteBasics Proofs.BundleWriteSpec Proofs.BundleWriteSig
  Proofs.BundleWriteForm Proofs.BundleWriteWF Proofs.BundleWriteCases Proofs.BundleRoundtripRows
  Proofs.BundleRoundtripResp Proofs.BundleWriteOk Proofs.BundleRoundtripMeta Proofs.BundleRoundtripRead.
Open Scope N_scope.

(* ---- what the reader returns -------------------------------------------------------------------- *)
(* rows: one per distinct URL (order of first appearance): (url, variants value,
   the exchanges for it - for a b1 URL with several exchanges one per possible
   Variant-Key, in row-major order of the Variants axes) *)
Definition xrows (v : bversion) (xs : list bexchange) : list (bytes * bytes * list bexchange) :=
  match g_rows hv_variants hv_vkey v (g_groups bx_url xs) with Ok rows => rows | _ => [] end.
Definition row_ltb {A} (a c : bytes * bytes * list A) : bool :=
  bytes_ltb (text_item (fst (fst a))) (text_item (fst (fst c))).

Definition norm (b : bundle) : bundle :=
  {| b_ver := b_ver b; b_primary := b_primary b; b_manifest := b_manifest b; b_sigs := b_sigs b;
     b_exchanges := flat_map (fun r => map xnorm (snd r)) (isort row_ltb (xrows (b_ver b) (b_exchanges b)));
     b_taint := false |}.

Section RT.
  Variable x509_ok : bytes -> bool.

  Definition sigs_okb (s : signatures) : bool :=
    forallb (fun a => x509_ok (ac_cert a)) (sg_auth s)
    && forallb (fun v => vs_authority v <? two64) (sg_vouched s).

  (* What the writer does NOT check and the round trip still needs:
     - negb (b_write_taint b): every URL the writer tested (exchange URLs, primary,
       manifest) lies in the class on which the url.Parse model is decided; outside it
       the model answers "unknown" for writer and reader alike (model restriction);
     - the signatures section: every authority certificate is accepted by
       x509.ParseCertificate (x509_ok), and Authority is a uint64 (Go type). *)
  Definition residual (b : bundle) : bool :=
    negb (b_write_taint b)
    && (match b_sigs b with Some s => sigs_okb s | None => true end).

  (* the signatures section reads back (proved from sigs_okb in BundleRoundtripSig.v) *)
  Definition sig_rt (b : bundle) : Prop :=
    match b_sigs b with
    | Some s => parse_signatures x509_ok (sig_bytes_of b) = Ok s
    | None => True
    end.

  (* ---- exchanges paired with their index entries ------------------------------------------------ *)
  Definition zl_of (b : bundle) : list (bexchange * ientry) := combine (b_exchanges b) (ients_of b).
  Definition urlZ (z : bexchange * ientry) : bytes := bx_url (fst z).
  Definition vvZ (z : bexchange * ientry) : bytes := hv_variants (fst z).
  Definition vkZ (z : bexchange * ientry) : bytes := hv_vkey (fst z).

  Lemma nth_error_combine {A B} (l : list A) (l' : list B) : forall j a c,
    nth_error (combine l l') j = Some (a, c) -> nth_error l j = Some a /\ nth_error l' j = Some c.
  Proof.
    revert l'. induction l as [|x t IH]; intros [|y t'] j a c H; try (destruct j; discriminate).
    destruct j as [|j]; cbn [combine nth_error] in *; [inversion H; auto|]. apply IH. exact H.
  Qed.

  Definition zok (b : bundle) (z : bexchange * ientry) : Prop :=
    ie_url (snd z) = bx_url (fst z) /\ ie_variants (snd z) = hv_variants (fst z)
    /\ ie_vkey (snd z) = hv_vkey (fst z) /\ ie_len (snd z) = lenN (item_of (fst z))
    /\ exists i, nth_error (b_exchanges b) i = Some (fst z)
                 /\ ie_off (snd z) = off0 b + lenN (flat_map item_of (firstn i (b_exchanges b))).

  Lemma zl_ok (b : bundle) : Forall (zok b) (zl_of b).
  Proof.
    apply Forall_forall. intros [x e] Hin. apply In_nth_error in Hin. destruct Hin as [j Hj].
    apply nth_error_combine in Hj. destruct Hj as [Hx He]. unfold ients_of in He.
    apply mk_ients_nth in He. destruct He as [x' [Hx' [E1 [E2 [E3 [E4 E5]]]]]].
    rewrite Hx in Hx'. inversion Hx'; subst x'. unfold zok. cbn [fst snd].
    repeat split; try assumption. exists j. auto.
  Qed.

  Lemma zl_fst (b : bundle) : map fst (zl_of b) = b_exchanges b.
  Proof.
    unfold zl_of, ients_of. generalize (off0 b). induction (b_exchanges b) as [|x t IH]; intros off; [reflexivity|].
    cbn [mk_ients combine map fst]. rewrite IH. reflexivity.
  Qed.
  Lemma zl_snd (b : bundle) : map snd (zl_of b) = ients_of b.
  Proof.
    unfold zl_of, ients_of. generalize (off0 b). induction (b_exchanges b) as [|x t IH]; intros off; [reflexivity|].
    cbn [mk_ients combine map snd]. rewrite IH. reflexivity.
  Qed.

  (* the writer's rows and the reader's rows are two projections of the same rows of pairs *)
  Lemma rows_of_pairs (b : bundle) ts :
    index_pres (b_ver b) (groups_of (ients_of b)) = Ok ts ->
    exists tz, g_rows vvZ vkZ (b_ver b) (g_groups urlZ (zl_of b)) = Ok tz
               /\ ts = map (map3 snd) tz
               /\ xrows (b_ver b) (b_exchanges b) = map (map3 fst) tz.
  Proof.
    intros Ht. pose proof (zl_ok b) as Z. rewrite Forall_forall in Z.
    rewrite groups_of_g, index_pres_g, <- zl_snd in Ht.
    rewrite (g_groups_map snd urlZ ie_url) in Ht by (intros z Hz; apply (Z z Hz)).
    rewrite (g_rows_map snd vvZ vkZ ie_variants ie_vkey) in Ht.
    2:{ intros g z Hg Hz. destruct (g_groups_members urlZ _ g z Hg Hz) as [Hin _].
        destruct (Z z Hin) as [_ [E2 [E3 _]]]. auto. }
    destruct (g_rows vvZ vkZ (b_ver b) (g_groups urlZ (zl_of b))) as [tz| | |] eqn:Etz; try discriminate.
    cbn [mapR] in Ht. inversion Ht; subst ts. exists tz. split; [reflexivity|]. split; [reflexivity|].
    unfold xrows. rewrite <- (zl_fst b) at 1.
    rewrite (g_groups_map fst urlZ bx_url) by reflexivity.
    rewrite (g_rows_map fst vvZ vkZ hv_variants hv_vkey) by (intros; split; reflexivity).
    rewrite Etz. reflexivity.
  Qed.

  (* ---- where the items are ---------------------------------------------------------------------- *)
  Lemma nth_error_split' {A} (l : list A) (i : nat) (a : A) :
    nth_error l i = Some a -> l = firstn i l ++ a :: skipn (S i) l.
  Proof.
    revert i. induction l as [|y t IH]; intros [|i] H; try discriminate.
    - inversion H; reflexivity.
    - cbn [firstn skipn app]. f_equal. apply IH. exact H.
  Qed.

  Lemma item_position (xs : list bexchange) (i : nat) (x : bexchange) :
    nth_error xs i = Some x ->
    responses_body (map rsp_of xs)
    = (arr_head (lenN xs) ++ flat_map item_of (firstn i xs)) ++ item_of x
      ++ flat_map item_of (skipn (S i) xs).
  Proof.
    intros H. unfold responses_body. rewrite lenN_map, flat_map_map.
    change (fun a => rsp_bytes (rsp_of a)) with item_of.
    rewrite (nth_error_split' xs i x H) at 2. rewrite flat_map_app. cbn [flat_map].
    rewrite <- !app_assoc. reflexivity.
  Qed.

  Definition front_of (b : bundle) ts : list (bytes * bytes) :=
    [(n_index, index_body (b_ver b) (sorted_index ts))] ++ prim_sec_of b ++ man_sec_of b ++ sig_sec_of b.
  Definition rb_of (b : bundle) : bytes := responses_body (map rsp_of (b_exchanges b)).
  Definition po_of (b : bundle) : option bytes := match b_ver b with BV1 => b_primary b | BV2 => None end.
  Definition P_of (b : bundle) ts : bytes :=
    magic (b_ver b) ++ (match po_of b with Some u => text_item u | None => [] end)
    ++ bstr_item (table_body (sections_of b ts)) ++ arr_head (lenN (sections_of b ts)).
  Definition roff_of (b : bundle) ts : N := lenN (P_of b ts) + lenN (List.concat (map snd (front_of b ts))).

  Lemma sections_front (b : bundle) ts : sections_of b ts = front_of b ts ++ [(n_responses, rb_of b)].
  Proof. unfold sections_of, front_of, rb_of. rewrite <- !app_assoc. reflexivity. Qed.

  Lemma final_layout (b : bundle) ts :
    final_bytes (b_ver b) (parsed_of b ts)
    = P_of b ts ++ List.concat (map snd (sections_of b ts))
      ++ bstr_item (be 8 (w64 (lenN (file_body (b_ver b) (parsed_of b ts)) + 9))).
  Proof.
    unfold final_bytes, file_body, P_of, po_of. cbn [parsed_of p_primary p_sections].
    rewrite <- !app_assoc. reflexivity.
  Qed.

  (* the item of the pair z sits at roff + its offset *)
  Lemma pair_holds (b : bundle) ts (bs : bytes) (z : bexchange * ientry) :
    bs = final_bytes (b_ver b) (parsed_of b ts) -> lenN bs < two63 ->
    In z (zl_of b) -> xwritable (fst z) = true ->
    ie_off (snd z) + ie_len (snd z) <= lenN (rb_of b) /\
    holds bs (mkloc (bx_url (fst z)) (w64 (roff_of b ts)) (loc_of (snd z))) (fst z).
  Proof.
    intros E L Hz W. pose proof (zl_ok b) as Z. rewrite Forall_forall in Z.
    destruct (Z z Hz) as [E1 [_ [_ [E4 [i [Hi Eo]]]]]].
    pose proof (item_position _ _ _ Hi) as Ep. fold (rb_of b) in Ep.
    assert (Lr : ie_off (snd z) + ie_len (snd z) <= lenN (rb_of b)).
    { rewrite Ep, Eo, E4, !lenN_app. unfold off0. lia. }
    split; [exact Lr|].
    rewrite final_layout, sections_front, map_app, concat_app in E. cbn [map snd List.concat] in E.
    rewrite app_nil_r in E.
    assert (Lb : lenN bs = lenN (P_of b ts) + (lenN (List.concat (map snd (front_of b ts))) + lenN (rb_of b)) + 9).
    { rewrite E, !lenN_app. rewrite (bstr8_lenN _ (be_lenN 8 _)). lia. }
    unfold holds, mkloc, loc_of. cbn [l_url l_off l_len fst snd].
    split; [exact W|]. split; [reflexivity|]. split; [exact E4|].
    exists (P_of b ts ++ List.concat (map snd (front_of b ts))
            ++ arr_head (lenN (b_exchanges b)) ++ flat_map item_of (firstn i (b_exchanges b))).
    eexists. split.
    - rewrite E, Ep. rewrite <- !app_assoc. reflexivity.
    - unfold roff_of.
      rewrite (w64_small (lenN (P_of b ts) + lenN (List.concat (map snd (front_of b ts)))))
        by (unfold two63, two64, bytes in *; lia).
      rewrite w64_small by (unfold two63, two64, bytes in *; lia).
      rewrite !lenN_app, Eo. unfold off0, bytes in *. lia.
  Qed.

  Definition xs_ok (b : bundle) : Prop :=
    Forall (fun x => xwritable x = true /\ url_okb (bx_url x) = true) (b_exchanges b).

  Lemma zl_member_ok (b : bundle) (z : bexchange * ientry) :
    xs_ok b -> In z (zl_of b) -> xwritable (fst z) = true /\ url_okb (bx_url (fst z)) = true.
  Proof.
    intros X Hz. unfold xs_ok in X. rewrite Forall_forall in X. apply X.
    rewrite <- (zl_fst b). apply in_map. exact Hz.
  Qed.

  Definition row_entry (tr : bytes * bytes * list (bexchange * ientry)) : bytes * bytes * list (N * N) :=
    triple_of (map3 snd tr).

  Lemma row_facts (b : bundle) ts (bs : bytes) (g : bytes * list (bexchange * ientry)) tr :
    bs = final_bytes (b_ver b) (parsed_of b ts) -> lenN bs < two63 -> xs_ok b ->
    In g (g_groups urlZ (zl_of b)) -> g_row vvZ vkZ (b_ver b) g = Ok tr ->
    lenN (fst (fst tr)) < two63 -> lenN (snd (fst tr)) < two63 ->
    ix_ok (b_ver b) (lenN (rb_of b)) (row_entry tr)
    /\ Forall2 (holds bs) (ix_locs_of (w64 (roff_of b ts)) (row_entry tr)) (map fst (snd tr)).
  Proof.
    intros E L X Hg Hr Lu Lvv. destruct g as [u es].
    pose proof (g_row_incl _ _ _ _ _ _ Hr) as Hi.
    pose proof (g_groups_in _ _ _ _ Hg) as [_ [Hne _]].
    assert (Hmem : forall z, In z es -> In z (zl_of b) /\ urlZ z = u).
    { intros z Hz. apply (g_groups_members urlZ (zl_of b) (u, es) z Hg Hz). }
    assert (Hz : forall z, In z (snd tr) ->
                 ie_off (snd z) + ie_len (snd z) <= lenN (rb_of b) /\
                 holds bs (mkloc u (w64 (roff_of b ts)) (loc_of (snd z))) (fst z)).
    { intros z Hin. destruct (Hmem z (Hi z Hin)) as [Hzl Hu]. rewrite <- Hu. unfold urlZ.
      apply pair_holds; try assumption. apply (zl_member_ok b z X Hzl). }
    pose proof (g_row_ok _ _ _ _ _ _ Hr) as [Eu [U Hv]].
    unfold row_entry, triple_of, map3, ix_ok, ix_locs_of, ix_url, ix_vv, ix_locs. cbn [fst snd].
    rewrite Eu in *.
    assert (Lrb : lenN (rb_of b) < two63).
    { rewrite final_layout, sections_front, map_app, concat_app in E. cbn [map snd List.concat] in E.
      rewrite app_nil_r in E. rewrite E, !lenN_app in L. unfold bytes in *. lia. }
    split.
    - split.
      { split; [exact U|]. split; [exact Lu|].
        destruct es as [|z0 r0]; [contradiction|]. destruct (Hmem z0 (or_introl eq_refl)) as [Hzl Hu].
        destruct (zl_member_ok b z0 X Hzl) as [_ Uo]. apply url_okb_spec in Uo. unfold urlZ in Hu.
        rewrite Hu in Uo. apply Uo. }
      split.
      { rewrite map_map. apply Forall_map. apply Forall_forall. intros z Hin.
        destruct (Hz z Hin) as [B _]. unfold loc_ok, loc_of. cbn [fst snd].
        unfold two63, two64 in *. repeat split; lia. }
      rewrite !lenN_map.
      destruct (b_ver b).
      + destruct es as [|z0 [|z1 r]]; [contradiction| |].
        * destruct Hv as [Hvv Hs]. rewrite Hs, Hvv. cbn [lenN map]. split; [unfold two63; lia|].
          split; [unfold two63; cbn; lia|]. left. split; [reflexivity|]. eexists. reflexivity.
        * destruct Hv as [Hvv Ho].
          destruct (entries_order_spec _ _ Ho) as [v0 [vk0 [x0 [t [vs [n [Ees [Hv0 [_ [Pv [Pn C]]]]]]]]]]].
          cbn [map] in Ees. injection Ees as Ev0 _ _ _.
          destruct C as [pl [_ [_ [_ [Ln _]]]]].
          pose proof (npk_spec _ _ Pn) as [_ [_ Bn]]. unfold max_variants in Bn.
          split; [rewrite Ln; unfold two63; lia|]. split; [exact Lvv|]. right.
          rewrite Hvv. unfold vvZ in *. rewrite Ev0. split; [exact Hv0|].
          exists vs. split; [exact Pv|]. rewrite Ln. exact Pn.
      + destruct Hv as [e [Ees [Hvv Hs]]]. rewrite Hs. cbn [lenN map]. split; [unfold two63; lia|].
        eexists. reflexivity.
    - rewrite map_map. clear - Hz.
      induction (snd tr) as [|z t IH]; cbn [map]; constructor.
      + apply Hz. left. reflexivity.
      + apply IH. intros z' Hz'. apply Hz. right. exact Hz'.
  Qed.

  (* ---- the sections of a written bundle meet the reader's expectations --------------------------- *)
  Definition five_names : list bytes := [n_index; n_primary; n_manifest; n_signatures; n_responses].

  Lemma front_names (b : bundle) ts :
    Forall (fun s => In (fst s) [n_index; n_primary; n_manifest; n_signatures]) (front_of b ts).
  Proof.
    unfold front_of, prim_sec_of, man_sec_of, sig_sec_of. repeat (apply Forall_app; split).
    - apply Forall_cons; [left; reflexivity|apply Forall_nil].
    - destruct (b_ver b), (b_primary b);
        (apply Forall_nil || (apply Forall_cons; [right; left; reflexivity|apply Forall_nil])).
    - destruct (b_manifest b);
        (apply Forall_nil || (apply Forall_cons; [right; right; left; reflexivity|apply Forall_nil])).
    - destruct (b_sigs b);
        (apply Forall_nil || (apply Forall_cons; [right; right; right; left; reflexivity|apply Forall_nil])).
  Qed.

  Lemma front_known (b : bundle) ts :
    Forall (fun s => known_name (fst s) = true /\ bytes_eqb (fst s) (s2b "responses") = false) (front_of b ts).
  Proof.
    eapply Forall_impl; [|apply front_names]. intros s Hs. cbn [In] in Hs.
    destruct Hs as [<-|[<-|[<-|[<-|[]]]]]; split; reflexivity.
  Qed.

  Lemma front_length (b : bundle) ts : lenN (front_of b ts) <= 4.
  Proof.
    unfold front_of, prim_sec_of, man_sec_of, sig_sec_of. rewrite !lenN_app.
    destruct (b_ver b), (b_primary b), (b_manifest b), (b_sigs b); cbn [lenN]; lia.
  Qed.

  Lemma min_width_le (n : N) : min_width n <= 8.
  Proof. unfold min_width. repeat match goal with |- context [?x <? ?y] => destruct (x <? y) end; lia. Qed.

  Lemma name_facts (n : bytes) : In n five_names ->
    utf8_valid n = true /\ lenN n < two63 /\ lenN (text_item n) <= 11.
  Proof.
    unfold five_names. cbn [In]. intros [<-|[<-|[<-|[<-|[<-|[]]]]]];
      (split; [reflexivity|split; [reflexivity|vm_compute; discriminate]]).
  Qed.

  Lemma secs_names (b : bundle) ts : Forall (fun s => In (fst s) five_names) (sections_of b ts).
  Proof.
    rewrite sections_front. apply Forall_app. split.
    - eapply Forall_impl; [|apply front_names]. intros s Hs. unfold five_names. cbn [In] in *. tauto.
    - constructor; [unfold five_names; cbn; tauto|constructor].
  Qed.

  Lemma secs_ok (b : bundle) ts :
    lenN (List.concat (map snd (sections_of b ts))) < two64 -> Forall sec_ok (sections_of b ts).
  Proof.
    intros L. pose proof (secs_names b ts) as Hn. rewrite Forall_forall in Hn. apply Forall_forall.
    intros s Hs. destruct (name_facts _ (Hn s Hs)) as [U [Ln _]]. split; [exact U|]. split; [exact Ln|].
    pose proof (lenN_concat_in (map snd (sections_of b ts)) (snd s) (in_map snd _ _ Hs)). unfold bytes in *. lia.
  Qed.

  Lemma lenN_flat_map_le {A} (f : A -> bytes) (c : N) (l : list A) :
    Forall (fun a => lenN (f a) <= c) l -> lenN (flat_map f l) <= c * lenN l.
  Proof.
    induction 1 as [|a t Ha _ IH]; cbn [flat_map lenN]; [lia|]. rewrite lenN_app. lia.
  Qed.

  Lemma table_small (b : bundle) ts : lenN (table_body (sections_of b ts)) < 8192.
  Proof.
    unfold table_body. rewrite lenN_app. unfold arr_head. rewrite senc_head_lenN.
    pose proof (min_width_le (2 * lenN (sections_of b ts))) as M.
    assert (F : Forall (fun s => lenN (text_item (fst s) ++ uint_item (lenN (snd s))) <= 20) (sections_of b ts)).
    { pose proof (secs_names b ts) as Hn. eapply Forall_impl; [|exact Hn]. intros s Hs.
      destruct (name_facts _ Hs) as [_ [_ Lt]]. rewrite lenN_app. unfold uint_item. rewrite senc_head_lenN.
      pose proof (min_width_le (lenN (snd s))). unfold bytes in *. lia. }
    apply lenN_flat_map_le in F.
    assert (Ls : lenN (sections_of b ts) <= 5).
    { rewrite sections_front, lenN_app. pose proof (front_length b ts). cbn [lenN]. lia. }
    unfold bytes in *. lia.
  Qed.

  Lemma row_len_bounds (v : bversion) (idx : list (bytes * bytes * list (N * N))) e :
    In e idx ->
    lenN (ix_url e) <= lenN (index_body v idx) /\ (v = BV1 -> lenN (ix_vv e) <= lenN (index_body v idx)).
  Proof.
    intros Hin. unfold index_body. rewrite lenN_app.
    pose proof (lenN_flat_map_in (fun e => index_key e ++ index_val v e) idx e Hin) as Le. cbv beta in Le.
    remember (lenN (flat_map (fun e => index_key e ++ index_val v e) idx)) as T eqn:ET. clear ET.
    rewrite lenN_app in Le. unfold index_key, text_item in Le. cbn [senc_token] in Le. rewrite lenN_app in Le.
    split; [unfold bytes in *; lia|]. intros ->. unfold index_val, bstr_item in Le. cbn [senc_token] in Le.
    rewrite !lenN_app in Le. unfold bytes in *. lia.
  Qed.

  Definition prim_cond (b : bundle) : Prop :=
    match b_ver b, b_primary b with
    | BV1, Some u => any_okb u = true | BV1, None => False
    | BV2, Some u => abs_okb u = true | BV2, None => True end.
  Definition man_cond (b : bundle) : Prop :=
    match b_manifest b with Some u => b_ver b = BV1 /\ abs_okb u = true | None => True end.

  Lemma index_decided (u : bytes) :
    fst (index_url_ok u) = true -> snd (index_url_ok u) = false -> utf8_valid u = true -> url_okb u = true.
  Proof.
    unfold index_url_ok, url_okb. destruct (url_ref u) as [|a [|] [|]|]; cbn [fst snd negb andb]; congruence.
  Qed.
  Lemma abs_decided (u : bytes) :
    fst (abs_url_ok u) = true -> snd (abs_url_ok u) = false -> utf8_valid u = true -> abs_okb u = true.
  Proof.
    unfold abs_url_ok, abs_okb. destruct (url_ref u) as [|[|] [|] [|]|]; cbn [fst snd negb andb]; congruence.
  Qed.
  Lemma any_decided (u : bytes) :
    fst (any_url_ok u) = true -> snd (any_url_ok u) = false -> utf8_valid u = true -> any_okb u = true.
  Proof.
    unfold any_url_ok, any_okb. destruct (url_ref u); cbn [fst snd]; congruence.
  Qed.

  (* what a successful write together with the residue gives *)
  Lemma written_parts (b : bundle) (bs : bytes) : b_write b = Ok bs -> residual b = true ->
    xs_ok b /\ prim_cond b /\ man_cond b
    /\ (match b_sigs b with Some s => sigs_okb s = true | None => True end).
  Proof.
    intros Hw H. unfold residual in H.
    apply andb_true_iff in H. destruct H as [H1 H3].
    apply negb_true_iff in H1. unfold b_write_taint in H1.
    apply orb_false_iff in H1. destruct H1 as [H1 Tm]. apply orb_false_iff in H1. destruct H1 as [Tx Tp].
    pose proof (b_write_ok_xwritable b bs Hw) as Xw.
    destruct (b_write_ok_urls b bs Hw) as [Xu [Pu Mu]].
    split.
    { unfold xs_ok. rewrite Forall_forall in *. intros x Hx. split; [apply Xw; exact Hx|].
      destruct (Xu x Hx) as [F U]. apply index_decided; try assumption.
      destruct (snd (index_url_ok (bx_url x))) eqn:S; [|reflexivity]. exfalso.
      assert (E : existsb (fun x => snd (index_url_ok (bx_url x))) (b_exchanges b) = true).
      { apply existsb_exists. exists x. split; assumption. }
      congruence. }
    split.
    { unfold prim_cond. destruct (b_ver b); cbn [has_primary_in_header] in *.
      - destruct (b_primary b) as [u|]; [|exact Pu]. destruct Pu as [F U]. apply any_decided; assumption.
      - destruct (b_primary b) as [u|]; [|exact I]. destruct Pu as [F U]. apply abs_decided; assumption. }
    split.
    { unfold man_cond. destruct (b_manifest b) as [u|]; [|exact I]. destruct Mu as [V [F U]].
      split; [exact V|]. apply abs_decided; assumption. }
    destruct (b_sigs b); [exact H3|exact I].
  Qed.

  (* the meta data the reader ends up with *)
  Definition meta_of (b : bundle) (ls : list loc) : meta :=
    {| m_primary := b_primary b; m_manifest := b_manifest b; m_sigs := b_sigs b;
       m_locs := ls; m_taint := false |}.

  Lemma effects_front (b : bundle) ts (all : list (bytes * N)) (ss rlen rel : N) :
    prim_cond b -> man_cond b -> sig_rt b ->
    (forall u, In (n_primary, text_item u) (prim_sec_of b) -> lenN u < two63) ->
    (forall u, In (n_manifest, text_item u) (man_sec_of b) -> lenN u < two63) ->
    find_section all (s2b "responses") = Some (rlen, rel) ->
    lenN (sorted_index ts) < two63 -> Forall (ix_ok (b_ver b) rlen) (sorted_index ts) ->
    fold_effects x509_ok (b_ver b) all ss (front_of b ts) (meta0 (po_of b))
    = Ok (meta_of b (flat_map (ix_locs_of (w64 (ss + rel))) (sorted_index ts))).
  Proof.
    intros Hp Hm Hs Lp Lm Fs Li Fi. unfold front_of. cbn [app fold_effects].
    rewrite (effect_index x509_ok _ all ss _ rlen rel _ Fs Li Fi). cbn [bind].
    unfold meta0, meta_of, po_of, prim_cond, man_cond, sig_rt, prim_sec_of, man_sec_of, sig_sec_of in *.
    cbn [m_primary m_manifest m_sigs m_locs m_taint].
    destruct (b_ver b) eqn:V; destruct (b_primary b) as [pu|] eqn:Pb; try contradiction;
      destruct (b_manifest b) as [mu|] eqn:Mb;
      try (destruct Hm as [Hv Hm]; try discriminate);
      destruct (b_sigs b) as [sg|] eqn:Sb; cbn [app fold_effects];
      repeat first
        [ rewrite effect_primary by (try assumption; apply Lp; left; reflexivity)
        | rewrite effect_manifest by (try assumption; apply Lm; left; reflexivity)
        | rewrite (effect_signatures x509_ok _ _ _ _ sg _ Hs)
        | progress cbn [bind m_primary m_manifest m_sigs m_locs m_taint orb] ];
      reflexivity.
  Qed.

  (* ---- C03: the round trip ------------------------------------------------------------------------ *)
  Theorem bundle_roundtrip_gen (b : bundle) (bs : bytes) :
    residual b = true -> sig_rt b -> b_write b = Ok bs -> lenN bs < two63 ->
    b_read x509_ok bs = Ok (norm b).
  Proof.
    intros W Srt Hw L.
    destruct (written_parts b bs Hw W) as [X [Hpc [Hmc _]]].
    apply b_write_ok_iff in Hw. destruct Hw as [ts [Hh [_ [Ht [Hp [Hm E]]]]]].
    destruct (rows_of_pairs b ts Ht) as [tz [Etz [Ets Exr]]].
    pose proof E as E0. rewrite final_layout in E0.
    set (v := b_ver b) in *.
    set (stz := isort (@row_ltb (bexchange * ientry)) tz).
    assert (Pst : Permutation stz tz) by apply isort_perm.
    (* the sorted index is the image of the sorted rows of pairs *)
    assert (Eidx : sorted_index ts = map row_entry stz).
    { unfold sorted_index. rewrite Ets, map_map.
      change (fun x => triple_of (map3 snd x)) with row_entry.
      unfold stz. rewrite <- (isort_map row_entry ix_ltb tz). reflexivity. }
    assert (Enorm : isort row_ltb (xrows v (b_exchanges b)) = map (map3 fst) stz).
    { rewrite Exr. unfold stz. rewrite <- (isort_map (map3 fst) row_ltb tz). reflexivity. }
    (* layout *)
    set (footer := bstr_item (be 8 (w64 (lenN (file_body v (parsed_of b ts)) + 9)))) in *.
    assert (Lfoot : lenN footer = 9) by (apply bstr8_lenN, be_lenN).
    assert (Lb : lenN bs = lenN (P_of b ts) + lenN (List.concat (map snd (sections_of b ts))) + 9).
    { rewrite E0, !lenN_app, Lfoot. lia. }
    assert (Lsecs : lenN (List.concat (map snd (sections_of b ts))) < two63) by (unfold bytes in *; lia).
    pose proof Lsecs as Lsecs'. rewrite sections_front, map_app, concat_app in Lsecs'.
    cbn [map snd List.concat] in Lsecs'. rewrite app_nil_r, lenN_app in Lsecs'.
    (* every row: its entry is readable and its locations hold its exchanges *)
    assert (Hidx_in : forall tr, In tr tz -> In (row_entry tr) (sorted_index ts)).
    { intros tr Htr. rewrite Eidx. apply in_map. apply (Permutation_in _ (Permutation_sym Pst)). exact Htr. }
    assert (Lib : lenN (index_body v (sorted_index ts)) < two63).
    { unfold front_of in Lsecs'. cbn [app map snd List.concat] in Lsecs'. rewrite lenN_app in Lsecs'.
      fold v in Lsecs'. unfold bytes in *. lia. }
    assert (Rows : Forall (fun tr => ix_ok v (lenN (rb_of b)) (row_entry tr) /\
                            Forall2 (holds bs) (ix_locs_of (w64 (roff_of b ts)) (row_entry tr))
                                    (map fst (snd tr))) tz).
    { pose proof (g_rows_ok _ _ _ _ _ Etz) as F2.
      assert (Hall : Forall (fun tr => exists g, In g (g_groups urlZ (zl_of b)) /\ g_row vvZ vkZ v g = Ok tr) tz).
      { eapply Forall2_In_right; [exact F2|]. intros g tr Hg Hr. exists g. auto. }
      rewrite Forall_forall in Hall. apply Forall_forall. intros tr Htr.
      destruct (Hall tr Htr) as [g [Hg Hr]].
      destruct (row_len_bounds v _ _ (Hidx_in tr Htr)) as [B1 B2].
      unfold row_entry, triple_of, map3, ix_url, ix_vv in B1, B2. cbn [fst snd] in B1, B2.
      apply (row_facts b ts bs g tr E L X Hg Hr).
      - unfold bytes in *. lia.
      - destruct v eqn:V.
        + specialize (B2 eq_refl). unfold bytes in *. lia.
        + destruct g as [u es]. apply g_row_ok in Hr. destruct Hr as [_ [_ [e [_ [Hvv _]]]]].
          rewrite Hvv. cbn. unfold two63. lia. }
    assert (Fi : Forall (ix_ok v (lenN (rb_of b))) (sorted_index ts)).
    { rewrite Eidx. apply Forall_map. apply Forall_forall. intros tr Htr.
      rewrite Forall_forall in Rows. apply Rows. apply (Permutation_in _ Pst). exact Htr. }
    (* loadMetadata *)
    assert (ND : NoDup (map fst (sections_of b ts))) by apply section_names_nodup.
    assert (Hpo : match v, po_of b with
                  | BV1, Some u => any_okb u = true | BV2, None => True | _, _ => False end).
    { unfold po_of, prim_cond in *. fold v in Hpc |- *. destruct v; [|exact I]. destruct (b_primary b); exact Hpc. }
    pose proof (sections_front b ts) as Esf.
    assert (Nresp : ~ In n_responses (map fst (front_of b ts))).
    { rewrite Esf, map_app in ND. cbn [map fst] in ND. apply NoDup_remove_2 in ND. rewrite app_nil_r in ND. exact ND. }
    assert (Hmeta : load_metadata x509_ok bs =
                    Ok (v, meta_of b (flat_map (ix_locs_of (w64 (roff_of b ts))) (sorted_index ts)))).
    { rewrite (load_metadata_layout x509_ok v (po_of b) (front_of b ts) (rb_of b) footer bs).
      - fold (P_of b ts). rewrite <- Esf.
        rewrite (effects_front b ts _ _ (lenN (rb_of b)) (lenN (List.concat (map snd (front_of b ts))))
                               Hpc Hmc Srt).
        + reflexivity.
        + intros u Hin. unfold prim_sec_of in Hin.
          assert (Hb : In (text_item u) (map snd (front_of b ts))).
          { unfold front_of. rewrite !map_app. apply in_or_app. right. apply in_or_app. left.
            apply (in_map snd _ _ Hin). }
          pose proof (lenN_concat_in _ _ Hb) as Lu. unfold text_item in Lu. cbn [senc_token] in Lu.
          rewrite lenN_app in Lu. unfold bytes in *. lia.
        + intros u Hin.
          assert (Hb : In (text_item u) (map snd (front_of b ts))).
          { unfold front_of. rewrite !map_app. apply in_or_app. right. apply in_or_app. right.
            apply in_or_app. left. apply (in_map snd _ _ Hin). }
          pose proof (lenN_concat_in _ _ Hb) as Lu. unfold text_item in Lu. cbn [senc_token] in Lu.
          rewrite lenN_app in Lu. unfold bytes in *. lia.
        + rewrite Esf. apply find_section_responses; [exact Nresp|unfold two63, two64 in *; lia].
        + assert (G : lenN (sorted_index ts) <= lenN (index_body v (sorted_index ts))).
          { unfold index_body. rewrite lenN_app.
            pose proof (lenN_flat_map_ge (fun e => index_key e ++ index_val v e) (sorted_index ts)) as G.
            assert (G' : forall a : bytes * bytes * list (N * N), 1 <= lenN (index_key a ++ index_val v a)).
            { intros a. unfold index_key, text_item. cbn [senc_token]. rewrite !lenN_app.
              pose proof (senc_head_len_ge 3 (lenN (ix_url a))). lia. }
            specialize (G G'). lia. }
          unfold bytes in *. lia.
        + exact Fi.
      - fold (P_of b ts). rewrite <- Esf. exact E0.
      - lia.
      - exact L.
      - exact Hpo.
      - rewrite <- Esf. exact ND.
      - rewrite <- Esf. apply secs_ok. unfold two63, two64 in *. lia.
      - rewrite <- Esf. apply table_small.
      - apply front_known. }
    (* the response loop *)
    unfold b_read. rewrite Hmeta. cbn [bind m_locs m_primary m_manifest m_sigs m_taint meta_of].
    assert (Hla : load_all bs (flat_map (ix_locs_of (w64 (roff_of b ts))) (sorted_index ts)) []
                  = Ok (map xnorm (flat_map (fun tr => map fst (snd tr)) stz))).
    { rewrite (load_all_run x509_ok bs _ (flat_map (fun tr => map fst (snd tr)) stz) [] L); [reflexivity|].
      rewrite Eidx, flat_map_map. apply Forall2_flat_map. apply Forall_forall. intros tr Htr.
      rewrite Forall_forall in Rows. apply Rows. apply (Permutation_in _ Pst). exact Htr. }
    rewrite Hla. cbn [bind]. unfold norm. f_equal. fold v. f_equal.
    rewrite Enorm, flat_map_map, map_flat_map. apply flat_map_ext. intros tr.
    unfold map3. cbn [snd]. rewrite map_map. reflexivity.
  Qed.
End RT.
