(* Proofs/SxgLoop.v - the two header-map decoding loops of the reader:
   (1) on the encoding of a list of (key, value) byte-string pairs they compute
       a fold over the list; what the fold leaves in each field is described
       through [filter];
   (2) filtering commutes with insertion sort, so the fields can be read off
       the un-sorted pair list;
   (3) on arbitrary bytes they terminate within the fuel the model gives them
       and never panic. *)
From Coq Require Import Lia ZifyN ZifyNat ZifyBool Permutation Sorted.
From WP Require Import Base.Prelude Base.Decimal.
From WP Require Import Model.Cbor Model.Http Model.Url Model.Sxg.
From WP Require Import Spec.Cbor Spec.StructHdr.
From WP Require Import Proofs.BaseLemmas Proofs.CborHead Proofs.CborDecode Proofs.SHLemmas Proofs.SHEnc.
Ltac Zify.zify_post_hook ::= Z.div_mod_to_equations.
Open Scope N_scope.

(* ---- filter and insertion sort ------------------------------------------------ *)
Section FilterSort.
  Context {A : Type} (lt : A -> A -> bool) (p : A -> bool).
  Hypothesis le_trans : forall a b c, lt b a = false -> lt c b = false -> lt c a = false.

  Lemma insert_head_le (x : A) (l : list A) :
    Forall (fun z => lt z x = false) l -> insert lt x l = x :: l.
  Proof. intros H. destruct l as [|y t]; [reflexivity|]. cbn [insert]. rewrite (Forall_inv H). reflexivity. Qed.

  Lemma filter_insert (x : A) (l : list A) : StronglySorted (le_of lt) l ->
    filter p (insert lt x l) = if p x then insert lt x (filter p l) else filter p l.
  Proof.
    induction 1 as [|y t Hs IH Hall]; cbn [insert filter].
    - destruct (p x); reflexivity.
    - destruct (lt y x) eqn:Hyx; cbn [filter].
      + rewrite IH. destruct (p y), (p x); cbn [insert]; rewrite ?Hyx; reflexivity.
      + destruct (p x); [|reflexivity]. destruct (p y).
        * cbn [insert]. rewrite Hyx. reflexivity.
        * symmetry. apply insert_head_le. rewrite Forall_forall in *. intros z Hz.
          apply filter_In in Hz. destruct Hz as [Hz _]. specialize (Hall z Hz). unfold le_of in Hall.
          eapply le_trans; [exact Hyx|exact Hall].
  Qed.

  Hypothesis lt_asym : forall a b, lt a b = true -> lt b a = false.

  Lemma filter_isort (l : list A) : filter p (isort lt l) = isort lt (filter p l).
  Proof.
    induction l as [|x t IH]; [reflexivity|]. cbn [isort filter].
    rewrite filter_insert by (apply BaseLemmas.isort_sorted; assumption). rewrite IH.
    destruct (p x); reflexivity.
  Qed.

  (* sorting a sorted list changes nothing *)
  Lemma isort_sorted_id (l : list A) : StronglySorted (le_of lt) l -> isort lt l = l.
  Proof.
    induction 1 as [|x t Hs IH Hall]; [reflexivity|]. cbn [isort]. rewrite IH.
    apply insert_head_le. exact Hall.
  Qed.
End FilterSort.

Lemma filter_none {A} (p : A -> bool) (l : list A) : Forall (fun x => p x = false) l -> filter p l = [].
Proof. induction 1 as [|x t Hx _ IH]; [reflexivity|]. cbn [filter]. rewrite Hx. exact IH. Qed.
Lemma filter_all {A} (p : A -> bool) (l : list A) : Forall (fun x => p x = true) l -> filter p l = l.
Proof. induction 1 as [|x t Hx _ IH]; [reflexivity|]. cbn [filter]. rewrite Hx, IH. reflexivity. Qed.

(* ---- the pair stream ---------------------------------------------------------- *)
Definition enc_pair (kv : bytes * bytes) : bytes := enc_bytes (fst kv) ++ enc_bytes (snd kv).
Definition enc_pairs (L : list (bytes * bytes)) : bytes := flat_map enc_pair L.

Definition is_m (kv : bytes * bytes) : bool := bytes_eqb (fst kv) key_method.
Definition is_u (kv : bytes * bytes) : bool := bytes_eqb (fst kv) key_url.
Definition is_st (kv : bytes * bytes) : bool := bytes_eqb (fst kv) key_status.
Definition is_field_q (kv : bytes * bytes) : bool := negb (is_m kv) && negb (is_u kv).
Definition is_field_s (kv : bytes * bytes) : bool := negb (is_st kv).

Definition req_step (s : hstate) (kv : bytes * bytes) : hstate :=
  if is_m kv then
    {| h_method := snd kv; h_uri := h_uri s; h_req := h_req s; h_status := h_status s;
       h_resp := h_resp s; h_taint := h_taint s |}
  else if is_u kv then
    {| h_method := h_method s; h_uri := snd kv; h_req := h_req s; h_status := h_status s;
       h_resp := h_resp s; h_taint := h_taint s || false |}
  else
    {| h_method := h_method s; h_uri := h_uri s; h_req := hdr_add (h_req s) (fst kv) (snd kv);
       h_status := h_status s; h_resp := h_resp s; h_taint := h_taint s |}.

Definition resp_step (s : hstate) (kv : bytes * bytes) : hstate :=
  if is_st kv then
    {| h_method := h_method s; h_uri := h_uri s; h_req := h_req s;
       h_status := match atoi (snd kv) with Some st => st | None => h_status s end;
       h_resp := h_resp s; h_taint := h_taint s |}
  else
    {| h_method := h_method s; h_uri := h_uri s; h_req := h_req s; h_status := h_status s;
       h_resp := hdr_add (h_resp s) (fst kv) (snd kv); h_taint := h_taint s |}.

Definition pair_readable (kv : bytes * bytes) : Prop :=
  lower_check (fst kv) = Some true /\ lenN (fst kv) < two63 /\ lenN (snd kv) < two63.

Lemma decode_pair (k x : bytes) (rest : bytes) : lenN k < two63 -> lenN x < two63 ->
  decode_bytes (enc_pair (k, x) ++ rest) = Ok (k, enc_bytes x ++ rest) /\
  decode_bytes (enc_bytes x ++ rest) = Ok (x, rest).
Proof.
  intros Hk Hx. unfold enc_pair. cbn [fst snd]. rewrite <- app_assoc.
  split; apply decode_encode_bytes; assumption.
Qed.

Lemma dec_request_map_pairs (v : version) (L : list (bytes * bytes)) : forall fuel rest s,
  (List.length L < fuel)%nat ->
  Forall (fun kv => pair_readable kv /\
                    (is_u kv = true -> v = V1b1 /\ validate_fallback (snd kv) = (true, false))) L ->
  dec_request_map fuel v (lenN L) (enc_pairs L ++ rest) s = Ok (fold_left req_step L s, rest).
Proof.
  induction L as [|[k x] L IH]; intros fuel rest s Hf HL.
  - destruct fuel as [|f]; [cbn [List.length] in Hf; lia|]. reflexivity.
  - destruct fuel as [|f]; [cbn [List.length] in Hf; lia|]. cbn [List.length] in Hf.
    inversion HL as [|? ? [(Hlc & Hk & Hx) Hurl] HL']; subst. cbn [fst snd] in *.
    cbn [dec_request_map lenN]. replace (N.succ (lenN L) =? 0) with false by lia.
    unfold enc_pairs. cbn [flat_map]. fold (enc_pairs L). rewrite <- app_assoc.
    destruct (decode_pair k x (enc_pairs L ++ rest) Hk Hx) as [D1 D2].
    rewrite D1. cbn [bind]. rewrite Hlc, D2. cbn [bind].
    replace (N.succ (lenN L) - 1) with (lenN L) by lia.
    cbn [fold_left]. unfold req_step at 2. unfold is_m, is_u in *. cbn [fst snd] in *.
    destruct (bytes_eqb k key_method); [apply IH; [lia|exact HL']|].
    destruct (bytes_eqb k key_url).
    + destruct (Hurl eq_refl) as [Ev Eval]. subst v. rewrite Eval. apply IH; [lia|exact HL'].
    + apply IH; [lia|exact HL'].
Qed.

Lemma dec_response_map_pairs (L : list (bytes * bytes)) : forall fuel rest s,
  (List.length L < fuel)%nat ->
  Forall (fun kv => pair_readable kv /\ (is_st kv = true -> atoi (snd kv) <> None)) L ->
  dec_response_map fuel (lenN L) (enc_pairs L ++ rest) s = Ok (fold_left resp_step L s, rest).
Proof.
  induction L as [|[k x] L IH]; intros fuel rest s Hf HL.
  - destruct fuel as [|f]; [cbn [List.length] in Hf; lia|]. reflexivity.
  - destruct fuel as [|f]; [cbn [List.length] in Hf; lia|]. cbn [List.length] in Hf.
    inversion HL as [|? ? [(Hlc & Hk & Hx) Hst] HL']; subst. cbn [fst snd] in *.
    cbn [dec_response_map lenN]. replace (N.succ (lenN L) =? 0) with false by lia.
    unfold enc_pairs. cbn [flat_map]. fold (enc_pairs L). rewrite <- app_assoc.
    destruct (decode_pair k x (enc_pairs L ++ rest) Hk Hx) as [D1 D2].
    rewrite D1. cbn [bind]. rewrite Hlc, D2. cbn [bind].
    replace (N.succ (lenN L) - 1) with (lenN L) by lia.
    cbn [fold_left]. unfold resp_step at 2. unfold is_st in *. cbn [fst snd] in *.
    destruct (bytes_eqb k key_status).
    + specialize (Hst eq_refl). destruct (atoi x) as [st|]; [|contradiction].
      apply IH; [lia|exact HL'].
    + apply IH; [lia|exact HL'].
Qed.

(* ---- what the folds leave in each field ---------------------------------------- *)
Definition add_field (h : headers) (kv : bytes * bytes) : headers := hdr_add h (fst kv) (snd kv).
Definition last_snd (d : bytes) (kv : bytes * bytes) : bytes := snd kv.

Lemma key_m_u : bytes_eqb key_method key_url = false. Proof. reflexivity. Qed.

Lemma req_fold (L : list (bytes * bytes)) : forall s,
  h_method (fold_left req_step L s) = fold_left last_snd (filter is_m L) (h_method s) /\
  h_uri (fold_left req_step L s) = fold_left last_snd (filter is_u L) (h_uri s) /\
  h_req (fold_left req_step L s) = fold_left add_field (filter is_field_q L) (h_req s) /\
  h_status (fold_left req_step L s) = h_status s /\
  h_resp (fold_left req_step L s) = h_resp s /\
  h_taint (fold_left req_step L s) = h_taint s.
Proof.
  induction L as [|kv L IH]; intros s; [repeat split; reflexivity|].
  cbn [fold_left filter]. destruct (IH (req_step s kv)) as (I1 & I2 & I3 & I4 & I5 & I6).
  rewrite I1, I2, I3, I4, I5, I6. clear IH I1 I2 I3 I4 I5 I6.
  unfold req_step, is_field_q. destruct (is_m kv) eqn:Em.
  - assert (Eu : is_u kv = false).
    { unfold is_m, is_u in *. apply bytes_eqb_eq in Em. rewrite Em. exact key_m_u. }
    rewrite Eu. cbn [negb andb h_method h_uri h_req h_status h_resp h_taint fold_left].
    repeat split; reflexivity.
  - destruct (is_u kv) eqn:Eu; cbn [negb andb h_method h_uri h_req h_status h_resp h_taint fold_left];
      repeat split; try reflexivity. apply orb_false_r.
Qed.

Definition last_status (d : Z) (kv : bytes * bytes) : Z :=
  match atoi (snd kv) with Some st => st | None => d end.

Lemma resp_fold (L : list (bytes * bytes)) : forall s,
  h_method (fold_left resp_step L s) = h_method s /\
  h_uri (fold_left resp_step L s) = h_uri s /\
  h_req (fold_left resp_step L s) = h_req s /\
  h_status (fold_left resp_step L s) = fold_left last_status (filter is_st L) (h_status s) /\
  h_resp (fold_left resp_step L s) = fold_left add_field (filter is_field_s L) (h_resp s) /\
  h_taint (fold_left resp_step L s) = h_taint s.
Proof.
  induction L as [|kv L IH]; intros s; [repeat split; reflexivity|].
  cbn [fold_left filter]. destruct (IH (resp_step s kv)) as (I1 & I2 & I3 & I4 & I5 & I6).
  rewrite I1, I2, I3, I4, I5, I6. clear IH I1 I2 I3 I4 I5 I6.
  unfold resp_step, is_field_s. destruct (is_st kv);
    cbn [negb h_method h_uri h_req h_status h_resp h_taint fold_left]; repeat split; reflexivity.
Qed.

(* ---- http.Header.Add over distinct canonical keys ------------------------------- *)
Lemma hdr_add_raw_fresh (h : headers) (k v : bytes) :
  ~ In k (map fst h) -> hdr_add_raw h k v = h ++ [(k, [v])].
Proof.
  induction h as [|[k' vs] t IH]; intros Hn; [reflexivity|].
  cbn [hdr_add_raw app]. cbn [map fst In] in Hn.
  destruct (bytes_eqb k' k) eqn:E; [apply bytes_eqb_eq in E; tauto|].
  rewrite IH by tauto. reflexivity.
Qed.

Definition field_of (kv : bytes * bytes) : bytes * list bytes := (canonical_key (fst kv), [snd kv]).

Lemma add_fields_fresh (L : list (bytes * bytes)) : forall acc,
  NoDup (map fst acc ++ map (fun kv => canonical_key (fst kv)) L) ->
  fold_left add_field L acc = acc ++ map field_of L.
Proof.
  induction L as [|kv L IH]; intros acc Hn; [cbn; rewrite app_nil_r; reflexivity|].
  cbn [fold_left map]. unfold add_field at 2. unfold hdr_add.
  cbn [map] in Hn.
  assert (Hfresh : ~ In (canonical_key (fst kv)) (map fst acc)).
  { intros Hin. apply NoDup_remove_2 in Hn. apply Hn. apply in_or_app. left. exact Hin. }
  rewrite hdr_add_raw_fresh by exact Hfresh.
  rewrite IH.
  - rewrite <- app_assoc. reflexivity.
  - rewrite map_app. cbn [map fst]. rewrite <- app_assoc. cbn [app].
    eapply Permutation_NoDup; [|exact Hn]. apply Permutation_app_head.
    apply Permutation_refl.
Qed.

(* ---- character facts -------------------------------------------------------------- *)
Lemma is_tchar_ascii (c : N) : is_tchar c = true -> c < 128.
Proof.
  unfold is_tchar, is_digit_b, is_lower_b, is_upper_b. cbn [existsb]. lia.
Qed.

Lemma lower_byte_idem (c : N) : lower_byte (lower_byte c) = lower_byte c.
Proof.
  unfold lower_byte. destruct ((65 <=? c) && (c <=? 90)) eqn:E; [|rewrite E; reflexivity].
  replace ((65 <=? c + 32) && (c + 32 <=? 90)) with false by lia. reflexivity.
Qed.

Lemma lower_idem (s : bytes) : lower (lower s) = lower s.
Proof. unfold lower. rewrite map_map. apply map_ext. exact lower_byte_idem. Qed.

Lemma is_tchar_lower (c : N) : is_tchar c = true -> is_tchar (lower_byte c) = true.
Proof.
  intros H. unfold lower_byte. destruct ((65 <=? c) && (c <=? 90)) eqn:E; [|exact H].
  unfold is_tchar. replace (is_lower_b (c + 32)) with true by (unfold is_lower_b; lia).
  rewrite orb_true_r. reflexivity.
Qed.

Lemma name_lower_tchar (n : bytes) : forallb is_tchar n = true -> forallb is_tchar (lower n) = true.
Proof.
  intros H. rewrite forallb_forall in *. intros c Hc. unfold lower in Hc. apply in_map_iff in Hc.
  destruct Hc as [c0 [E Hc0]]. subst c. apply is_tchar_lower, H. exact Hc0.
Qed.

Lemma name_lower_check (n : bytes) : forallb is_tchar n = true -> lower_check (lower n) = Some true.
Proof.
  intros H. unfold lower_check.
  assert (Ha : is_ascii (lower n) = true).
  { unfold is_ascii. apply forallb_forall. intros c Hc.
    pose proof (name_lower_tchar n H) as Hl. rewrite forallb_forall in Hl.
    specialize (Hl c Hc). apply is_tchar_ascii in Hl. lia. }
  rewrite Ha, lower_idem, bytes_eqb_refl. reflexivity.
Qed.

Lemma lower_canon_go (s : bytes) : forall u, lower (canon_go s u) = lower s.
Proof.
  induction s as [|c r IH]; intros u; [reflexivity|].
  cbn [canon_go lower map]. fold (lower (canon_go r (c =? 45))). fold (lower r). rewrite IH. f_equal.
  unfold lower_byte, is_lower_b, is_upper_b.
  destruct u; cbn [andb negb];
    repeat match goal with |- context [if ?b then _ else _] => destruct b eqn:? end; lia.
Qed.

Lemma lower_canonical_key (s : bytes) : lower (canonical_key s) = lower s.
Proof. unfold canonical_key. destruct (forallb is_tchar s); [apply lower_canon_go|reflexivity]. Qed.

(* ---- strconv.Itoa / Atoi ------------------------------------------------------------ *)
Lemma parse_uint_dec (n : N) : parse_uint (dec_of_N n) = Some n /\
  exists c r, dec_of_N n = c :: r /\ 48 <= c <= 57.
Proof.
  destruct (DecVal_spec _ _ (dec_of_N_DecVal n)) as (Hne & Hall & Hv).
  assert (Hd : forallb is_digit (dec_of_N n) = true).
  { apply forallb_forall. intros c Hc. rewrite Forall_forall in Hall. specialize (Hall c Hc).
    unfold DIGIT in Hall. unfold is_digit. lia. }
  split.
  - unfold parse_uint. rewrite Hd, Hv. destruct (dec_of_N n); [contradiction|reflexivity].
  - destruct (dec_of_N n) as [|c r]; [contradiction|]. exists c, r. split; [reflexivity|].
    inversion Hall as [|? ? Hc _]; subst. exact Hc.
Qed.

Lemma atoi_itoa (z : Z) : (-9223372036854775808 <= z < 9223372036854775808)%Z ->
  atoi (dec_of_Z z) = Some z.
Proof.
  intros Hz. unfold dec_of_Z. destruct (z <? 0)%Z eqn:Hs.
  - destruct (parse_uint_dec (Z.to_N (- z))) as [Hp _]. unfold atoi.
    change (45 =? 45) with true. cbv iota beta. rewrite Hp.
    replace (Z.to_N (- z) <=? two63) with true by (unfold two63; lia).
    f_equal. lia.
  - destruct (parse_uint_dec (Z.to_N z)) as [Hp (c & r & E & Hc)]. unfold atoi.
    rewrite E in *. replace (c =? 45) with false by lia. replace (c =? 43) with false by lia.
    cbv iota beta. rewrite Hp. replace (Z.to_N z <? two63) with true by (unfold two63; lia).
    f_equal. lia.
Qed.

(* ---- termination / no panic on arbitrary input ------------------------------------- *)
Lemma decode_bytes_shrinks (bs s r : bytes) :
  decode_bytes bs = Ok (s, r) -> (List.length r < List.length bs)%nat.
Proof.
  intros H. apply decode_bytes_sound in H. destruct H as (h & w & E & Hl & _). subst bs.
  rewrite lenN_length in Hl. rewrite !app_length. lia.
Qed.

Lemma dec_request_map_total (v : version) : forall fuel n bs s,
  (List.length bs < fuel)%nat -> ok_or_err (dec_request_map fuel v n bs s).
Proof.
  induction fuel as [|f IH]; intros n bs s Hf; [lia|].
  cbn [dec_request_map]. destruct (n =? 0); [exact I|].
  pose proof (decode_bytes_of_type_total MBytes bs) as T1. fold decode_bytes in T1.
  destruct (decode_bytes bs) as [[key r1]| | |] eqn:D1; cbn [bind]; try exact I; try contradiction.
  apply decode_bytes_shrinks in D1.
  assert (G : forall t,
    ok_or_err
      (let* (value, r2) := decode_bytes r1 in
       if bytes_eqb key key_method then
         dec_request_map f v (n - 1) r2
           {| h_method := value; h_uri := h_uri s; h_req := h_req s; h_status := h_status s;
              h_resp := h_resp s; h_taint := t |}
       else if bytes_eqb key key_url then
         match v with
         | V1b1 =>
             let '(ok, tn) := validate_fallback value in
             if ok then
               dec_request_map f v (n - 1) r2
                 {| h_method := h_method s; h_uri := value; h_req := h_req s;
                    h_status := h_status s; h_resp := h_resp s; h_taint := t || tn |}
             else Err
         | _ => Err
         end
       else
         dec_request_map f v (n - 1) r2
           {| h_method := h_method s; h_uri := h_uri s; h_req := hdr_add (h_req s) key value;
              h_status := h_status s; h_resp := h_resp s; h_taint := t |})).
  { intros t. pose proof (decode_bytes_of_type_total MBytes r1) as T2. fold decode_bytes in T2.
    destruct (decode_bytes r1) as [[value r2]| | |] eqn:D2; cbn [bind]; try exact I; try contradiction.
    apply decode_bytes_shrinks in D2.
    destruct (bytes_eqb key key_method); [apply IH; lia|].
    destruct (bytes_eqb key key_url); [|apply IH; lia].
    destruct v; try exact I. destruct (validate_fallback value) as [ok tn].
    destruct ok; [apply IH; lia|exact I]. }
  destruct (lower_check key) as [[|]|]; [apply G|exact I|apply G].
Qed.

Lemma dec_response_map_total : forall fuel n bs s,
  (List.length bs < fuel)%nat -> ok_or_err (dec_response_map fuel n bs s).
Proof.
  induction fuel as [|f IH]; intros n bs s Hf; [lia|].
  cbn [dec_response_map]. destruct (n =? 0); [exact I|].
  pose proof (decode_bytes_of_type_total MBytes bs) as T1. fold decode_bytes in T1.
  destruct (decode_bytes bs) as [[key r1]| | |] eqn:D1; cbn [bind]; try exact I; try contradiction.
  apply decode_bytes_shrinks in D1.
  assert (G : forall t,
    ok_or_err
      (let* (value, r2) := decode_bytes r1 in
       if bytes_eqb key key_status then
         match atoi value with
         | None => Err
         | Some st =>
             dec_response_map f (n - 1) r2
               {| h_method := h_method s; h_uri := h_uri s; h_req := h_req s; h_status := st;
                  h_resp := h_resp s; h_taint := t |}
         end
       else
         dec_response_map f (n - 1) r2
           {| h_method := h_method s; h_uri := h_uri s; h_req := h_req s; h_status := h_status s;
              h_resp := hdr_add (h_resp s) key value; h_taint := t |})).
  { intros t. pose proof (decode_bytes_of_type_total MBytes r1) as T2. fold decode_bytes in T2.
    destruct (decode_bytes r1) as [[value r2]| | |] eqn:D2; cbn [bind]; try exact I; try contradiction.
    apply decode_bytes_shrinks in D2.
    destruct (bytes_eqb key key_status); [|apply IH; lia].
    destruct (atoi value); [apply IH; lia|exact I]. }
  destruct (lower_check key) as [[|]|]; [apply G|exact I|apply G].
Qed.
