(* Proofs/BundleRoundtripVariants.v - C03: the write/read fixpoint for b1 bundles whose URL
   groups are variant sets (several exchanges per URL), every exchange of such a group
   carrying exactly one Variant-Key:
     - entriesInPossibleKeyOrder of an already row-major single-key group is the identity;
     - the Variants / Variant-Key values of the members of such a group survive xnorm;
     - hence norm (norm b) = norm b, norm b is writable again, and every further
       write/read cycle reproduces the same bytes and the same bundle. *)
From Coq Require Import Lia ZifyN ZifyNat ZifyBool Permutation Sorted.
From WP Require Import Base.Prelude Base.Decimal Model.Cbor Model.Http Model.UrlRef Model.Variants
  Model.CertChain Model.Bundle.
From WP Require Import Spec.Cbor Spec.Bundle.
From WP Require Import Proofs.BaseLemmas Proofs.CborHead Proofs.CborMap Proofs.CborDecode Proofs.CborUtf8
  Proofs.Variants Proofs.BundleWriteBasics Proofs.BundleWriteSpec Proofs.BundleWriteSig
  Proofs.BundleWriteForm Proofs.BundleWriteWF Proofs.BundleWriteCases Proofs.BundleRoundtripRows
  Proofs.BundleRoundtripResp Proofs.BundleWriteOk Proofs.BundleRoundtripMeta Proofs.BundleRoundtripRead
  Proofs.BundleRoundtripSig Proofs.BundleRoundtrip Proofs.BundleRoundtripNorm Proofs.BundleRoundtripIdem.
Open Scope N_scope.

(* ======================= (1) entriesInPossibleKeyOrder on a row-major group ============= *)
Lemma key_indices_in (v : variants) (vks : list (list bytes)) : forall idxs i,
  key_indices v vks = Some idxs -> In i idxs ->
  exists k, In k vks /\ index_in_possible_keys v k = Some i.
Proof.
  induction vks as [|vk t IH]; intros idxs i K Hi; cbn [key_indices] in K.
  - inversion K; subst. contradiction.
  - destruct (index_in_possible_keys v vk) as [i0|] eqn:I0; [|discriminate].
    destruct (key_indices v t) as [r|] eqn:Kt; [|discriminate]. inversion K; subst idxs.
    destruct Hi as [<-|Hi].
    + exists vk. split; [left; reflexivity|exact I0].
    + destruct (IH _ _ eq_refl Hi) as [k [Hk Ik]]. exists k. split; [right; exact Hk|exact Ik].
Qed.

Lemma nth_error_ext_eq {A} (l1 : list A) : forall l2,
  (forall j, nth_error l1 j = nth_error l2 j) -> l1 = l2.
Proof.
  induction l1 as [|a t IH]; intros [|c t2] H.
  - reflexivity.
  - specialize (H 0%nat). discriminate.
  - specialize (H 0%nat). discriminate.
  - pose proof (H 0%nat) as H0. cbn in H0. inversion H0; subst c. f_equal.
    apply IH. intros j. exact (H (S j)).
Qed.

Section OrderId.
  Context {A : Type} (vvf vkf : A -> bytes).
  Let mk (e : A) : bytes * bytes * A := (vvf e, vkf e, e).

  (* every placement stems from one Variant-Key of one entry *)
  Lemma placements_in (v : variants) (es : list (bytes * bytes * A)) : forall pl,
    placements v es = Some pl ->
    forall i x, In (i, x) pl ->
    exists vv vk vks k, In (vv, vk, x) es /\ parse_list_of_string_lists vk = Ok vks /\
                        In k vks /\ index_in_possible_keys v k = Some i.
  Proof.
    induction es as [|[[vv0 vk0] x0] t IH]; intros pl Pl i x Hin; cbn [placements] in Pl.
    - inversion Pl; subst. contradiction.
    - destruct (parse_list_of_string_lists vk0) as [vks| | |] eqn:Pk; try discriminate.
      destruct (key_indices v vks) as [idxs|] eqn:K; [|discriminate].
      destruct (placements v t) as [r|] eqn:Pt; [|discriminate]. inversion Pl; subst pl.
      apply in_app_or in Hin. destruct Hin as [Hin|Hin].
      + apply in_map_iff in Hin. destruct Hin as [j [Ej Hj]]. inversion Ej; subst j x.
        destruct (key_indices_in _ _ _ _ K Hj) as [k [Hk Ik]].
        exists vv0, vk0, vks, k. split; [left; reflexivity|]. auto.
      + destruct (IH _ eq_refl _ _ Hin) as [vv [vk [vks' [k [H1 [H2 [H3 H4]]]]]]].
        exists vv, vk, vks', k. split; [right; exact H1|]. auto.
  Qed.

  (* entries whose single keys have the indices s, s+1, ... *)
  Lemma placements_indexed (v : variants) (l : list A) : forall s,
    (forall j e, nth_error l j = Some e ->
       exists k, parse_list_of_string_lists (vkf e) = Ok [k] /\
                 index_in_possible_keys v k = Some (N.of_nat (s + j))) ->
    placements v (map mk l) = Some (combine (map N.of_nat (seq s (List.length l))) l).
  Proof.
    induction l as [|e t IH]; intros s H; [reflexivity|].
    cbn [map List.length seq combine]. unfold mk at 1. cbn [placements].
    destruct (H 0%nat e eq_refl) as [k [Pk Ik]]. rewrite Pk. cbn [key_indices]. rewrite Ik.
    rewrite (IH (S s)).
    - rewrite Nat.add_0_r. reflexivity.
    - intros j e' Hj. destruct (H (S j) e' Hj) as [k' [P' I']]. exists k'. split; [exact P'|].
      replace (S s + j)%nat with (s + S j)%nat by lia. exact I'.
  Qed.

  (* the result of entriesInPossibleKeyOrder on single-key entries, fed to it again,
     comes out unchanged *)
  Theorem eipko_row_major_id (es0 l : list A) :
    entries_in_possible_key_order (map mk es0) = Ok l ->
    Forall (fun e => exists k, parse_list_of_string_lists (vkf e) = Ok [k]) es0 ->
    entries_in_possible_key_order (map mk l) = Ok l.
  Proof.
    intros H S.
    destruct (entries_order_spec _ _ H) as [v0 [vk0 [x0 [t [v [n [Ees [Hv0 [Fv [Pv [Pn C]]]]]]]]]]].
    destruct C as [pl [Pl [ND [Cov [Ln Nth]]]]].
    assert (Hmem : forall j e, nth_error l j = Some e ->
              In e es0 /\ exists k, parse_list_of_string_lists (vkf e) = Ok [k] /\
                                    index_in_possible_keys v k = Some (N.of_nat j)).
    { intros j e Hj. rewrite <- (Nat2N.id j) in Hj. apply Nth in Hj.
      destruct (placements_in _ _ _ Pl _ _ Hj) as [vv [vk [vks [k [Hin [Pk [Hk Ik]]]]]]].
      apply in_map_iff in Hin. destruct Hin as [e' [Ee He']]. unfold mk in Ee. inversion Ee; subst vv vk e'.
      split; [exact He'|]. rewrite Forall_forall in S. destruct (S _ He') as [k' Pk'].
      rewrite Pk' in Pk. inversion Pk; subst vks. destruct Hk as [Ek|[]]. subst k'.
      exists k. split; [exact Pk'|exact Ik]. }
    assert (Pl' : placements v (map mk l) = Some (indexed l)).
    { unfold indexed. apply (placements_indexed v l 0). intros j e Hj.
      destruct (Hmem j e Hj) as [_ X]. exact X. }
    assert (Hvv : forall e, In e l -> vvf e = v0).
    { intros e He. apply In_nth_error in He. destruct He as [j Hj]. destruct (Hmem j e Hj) as [Hin _].
      rewrite Forall_forall in Fv. apply (Fv (mk e)). apply in_map. exact Hin. }
    assert (Fv' : Forall (fun e : bytes * bytes * A => fst (fst e) = v0) (map mk l)).
    { apply Forall_map. apply Forall_forall. intros e He. unfold mk. cbn [fst]. apply Hvv. exact He. }
    destruct l as [|e0 l'] eqn:El.
    { apply npk_spec in Pn. cbn [lenN] in Ln. lia. }
    rewrite <- El in *.
    assert (Eform : map mk l = (v0, vkf e0, e0) :: map mk l').
    { rewrite El. cbn [map]. unfold mk at 1. rewrite (Hvv e0) by (rewrite El; left; reflexivity). reflexivity. }
    pose proof (entries_order_complete v0 (vkf e0) e0 (map mk l') v n (indexed l)) as Cmp.
    cbv zeta in Cmp. rewrite <- Eform in Cmp.
    destruct Cmp as [l2 H2]; try assumption.
    { apply indexed_fst_nodup. }
    { intros i. split.
      - intros Hi. apply in_map_iff in Hi. destruct Hi as [[i' y] [Ei Hy]]. cbn [fst] in Ei. subst i'.
        apply indexed_in in Hy. assert (nth_error l (N.to_nat i) <> None) by congruence.
        apply nth_error_Some in H0. rewrite lenN_length in Ln. lia.
      - intros Hi. destruct (nth_error l (N.to_nat i)) as [y|] eqn:Ey.
        + apply in_map_iff. exists (i, y). split; [reflexivity|]. apply indexed_in. exact Ey.
        + apply nth_error_None in Ey. rewrite lenN_length in Ln. lia. }
    rewrite H2. f_equal.
    destruct (entries_order_spec _ _ H2) as [v0' [vk0' [x0' [t' [v' [n' [Ees' [_ [_ [Pv' [_ C']]]]]]]]]]].
    rewrite Eform in Ees'. inversion Ees'; subst v0' vk0' x0' t'.
    rewrite Pv in Pv'. inversion Pv'; subst v'.
    destruct C' as [pl2 [Pl2 [_ [_ [_ Nth2]]]]]. rewrite Pl' in Pl2. inversion Pl2; subst pl2.
    apply nth_error_ext_eq. intros j.
    destruct (nth_error l2 j) as [y|] eqn:E2.
    - rewrite <- (Nat2N.id j) in E2. apply Nth2 in E2. apply indexed_in in E2. rewrite Nat2N.id in E2.
      symmetry. exact E2.
    - destruct (nth_error l j) as [y|] eqn:E1; [|reflexivity].
      rewrite <- (Nat2N.id j) in E1. apply indexed_in in E1. apply Nth2 in E1. rewrite Nat2N.id in E1.
      congruence.
  Qed.
End OrderId.

(* ======================= (2) Variants / Variant-Key survive xnorm ======================== *)
Lemma hdr_lookup_in (h : headers) (k : bytes) : hdr_lookup h k <> [] -> In (k, hdr_lookup h k) h.
Proof.
  induction h as [|[k' vs] t IH]; cbn [hdr_lookup]; intros H; [contradiction|].
  destruct (bytes_eqb k' k) eqn:E.
  - apply bytes_eqb_eq in E. subst k'. left. reflexivity.
  - right. apply IH. exact H.
Qed.

Lemma hdr_lookup_nodup (h : headers) (k : bytes) (vs : list bytes) :
  NoDup (map fst h) -> In (k, vs) h -> hdr_lookup h k = vs.
Proof.
  induction h as [|[k' vs'] t IH]; intros ND Hin; [contradiction|]. cbn [map fst] in ND.
  apply NoDup_cons_iff in ND. destruct ND as [Nk ND]. cbn [hdr_lookup]. destruct Hin as [E|Hin].
  - inversion E; subst. rewrite bytes_eqb_refl. reflexivity.
  - destruct (bytes_eqb k' k) eqn:E.
    + apply bytes_eqb_eq in E. subst k'. exfalso. apply Nk. apply (in_map fst _ _ Hin).
    + apply IH; assumption.
Qed.

(* a field present under the canonical spelling K of its name keeps its comma-joined
   value.  (A field spelled otherwise, e.g. "VARIANTS", is invisible to Header.Get
   before and visible after: that is why the premise is needed.) *)
Lemma hv_xnorm (x : bexchange) (K : bytes) :
  xwritable x = true -> canonical_key (lower K) = K ->
  join_comma (hdr_lookup (bx_hdr x) K) <> [] ->
  join_comma (hdr_lookup (bx_hdr (xnorm x)) K) = join_comma (hdr_lookup (bx_hdr x) K).
Proof.
  intros W CK Hne. set (vs := hdr_lookup (bx_hdr x) K) in *.
  assert (Hin : In (K, vs) (bx_hdr x)).
  { apply hdr_lookup_in. fold vs. intros E. rewrite E in Hne. apply Hne. reflexivity. }
  cbn [xnorm bx_hdr]. unfold norm_hdr.
  assert (HL : In (fold_hdr (K, vs)) (filter regular (rsp_fields (bx_status x) (bx_hdr x)))).
  { apply (Permutation_in _ (Permutation_sym (sorted_regular_perm x W))). apply in_map. exact Hin. }
  apply (in_map hdr_of) in HL. unfold fold_hdr at 1, hdr_of at 1 in HL. cbn [fst snd] in HL. rewrite CK in HL.
  rewrite (hdr_lookup_nodup _ K [join_comma vs]); [reflexivity| |exact HL].
  rewrite map_map. exact (canon_keys_nodup x W).
Qed.

Definition k_variants : bytes := canonical_key (s2b "variants").
Definition k_vkey : bytes := canonical_key (s2b "variant-key").

Lemma hv_variants_xnorm (x : bexchange) :
  xwritable x = true -> hv_variants x <> [] -> hv_variants (xnorm x) = hv_variants x.
Proof. intros W H. apply (hv_xnorm x k_variants W); [vm_compute; reflexivity|exact H]. Qed.

Lemma hv_vkey_xnorm (x : bexchange) :
  xwritable x = true -> hv_vkey x <> [] -> hv_vkey (xnorm x) = hv_vkey x.
Proof. intros W H. apply (hv_xnorm x k_vkey W); [vm_compute; reflexivity|exact H]. Qed.

Lemma single_key_nonempty (s : bytes) (k : list bytes) : parse_list_of_string_lists s = Ok [k] -> s <> [].
Proof. intros H E. subst s. vm_compute in H. discriminate. Qed.

(* ======================= (3) the groups of a list made of URL blocks ====================== *)
Section Blocks.
  Context {A : Type} (url : A -> bytes).

  Definition blocks_ok (S : list (bytes * list A)) : Prop :=
    NoDup (map fst S) /\ Forall (fun g => snd g <> [] /\ Forall (fun a => url a = fst g) (snd g)) S.

  Lemma dedup_app_same (l l' : list bytes) (u : bytes) :
    ~ In u l -> l' <> [] -> Forall (fun w => w = u) l' -> dedup (l ++ l') = dedup l ++ [u].
  Proof.
    intros Hn. induction l' as [|x l' IH] using rev_ind; intros Hne F; [contradiction|].
    apply Forall_app in F. destruct F as [F Fx]. inversion Fx as [|? ? Ex _]; subst x.
    rewrite app_assoc, dedup_snoc. destruct l' as [|y l''].
    - rewrite app_nil_r. destruct (existsb (bytes_eqb u) (dedup l)) eqn:X; [|reflexivity].
      apply existsb_bytes_iff in X. apply (dedup_spec l) in X. contradiction.
    - rewrite IH by (discriminate || exact F).
      assert (X : existsb (bytes_eqb u) (dedup l ++ [u]) = true).
      { apply existsb_bytes_iff. apply in_or_app. right. left. reflexivity. }
      rewrite X. reflexivity.
  Qed.

  Lemma blocks_member (S : list (bytes * list A)) (a : A) :
    Forall (fun g => snd g <> [] /\ Forall (fun a => url a = fst g) (snd g)) S ->
    In a (flat_map snd S) -> In (url a) (map fst S).
  Proof.
    intros F Ha. apply in_flat_map in Ha. destruct Ha as [g [Hg Ha]].
    rewrite Forall_forall in F. destruct (F g Hg) as [_ Fu]. rewrite Forall_forall in Fu.
    rewrite (Fu a Ha). apply in_map. exact Hg.
  Qed.

  Lemma dedup_blocks (S : list (bytes * list A)) :
    blocks_ok S -> dedup (map url (flat_map snd S)) = map fst S.
  Proof.
    induction S as [|g S IH] using rev_ind; intros [ND F]; [reflexivity|].
    apply Forall_app in F. destruct F as [F Fg]. inversion Fg as [|? ? [Hne Fu] _]; subst.
    rewrite map_app in ND. cbn [map] in ND.
    assert (ND' : NoDup (fst g :: map fst S)).
    { eapply Permutation_NoDup; [apply Permutation_sym, Permutation_cons_append|exact ND]. }
    apply NoDup_cons_iff in ND'. destruct ND' as [Ng NDS].
    rewrite flat_map_app, !map_app. cbn [flat_map map]. rewrite app_nil_r.
    rewrite (dedup_app_same _ _ (fst g)).
    - rewrite IH by (split; assumption). reflexivity.
    - intros Hin. apply in_map_iff in Hin. destruct Hin as [a [Ea Ha]]. apply Ng. rewrite <- Ea.
      apply blocks_member; assumption.
    - destruct (snd g); [contradiction|discriminate].
    - apply Forall_map. exact Fu.
  Qed.

  Lemma filter_blocks (S : list (bytes * list A)) :
    blocks_ok S -> forall g, In g S ->
    filter (fun a => bytes_eqb (fst g) (url a)) (flat_map snd S) = snd g.
  Proof.
    induction S as [|g0 S IH]; intros [ND F] g Hg; [contradiction|].
    cbn [flat_map]. rewrite filter_app. inversion F as [|? ? [Hne Fu] F']; subst.
    cbn [map] in ND. apply NoDup_cons_iff in ND. destruct ND as [N0 ND]. destruct Hg as [->|Hg].
    - assert (E1 : filter (fun a => bytes_eqb (fst g) (url a)) (snd g) = snd g).
      { apply filter_all. eapply Forall_impl; [|exact Fu]. intros a Ea. cbv beta in Ea. rewrite Ea.
        apply bytes_eqb_refl. }
      assert (E2 : filter (fun a => bytes_eqb (fst g) (url a)) (flat_map snd S) = []).
      { apply filter_none. apply Forall_forall. intros a Ha. apply bytes_eqb_neq. intros E.
        apply N0. rewrite E. apply blocks_member; assumption. }
      rewrite E1, E2, app_nil_r. reflexivity.
    - assert (E1 : filter (fun a => bytes_eqb (fst g) (url a)) (snd g0) = []).
      { apply filter_none. apply Forall_forall. intros a Ha. apply bytes_eqb_neq. intros E.
        rewrite Forall_forall in Fu. rewrite (Fu a Ha) in E. apply N0. rewrite <- E. apply in_map. exact Hg. }
      rewrite E1. cbn [app]. apply IH; [split; assumption|exact Hg].
  Qed.

  Lemma g_groups_blocks (S : list (bytes * list A)) :
    blocks_ok S -> g_groups url (flat_map snd S) = S.
  Proof.
    intros B. unfold g_groups. rewrite (dedup_blocks S B), map_map. rewrite <- (map_id S) at 2.
    apply map_ext_in. intros g Hg. rewrite (filter_blocks S B g Hg). destruct g; reflexivity.
  Qed.
End Blocks.

(* ======================= (4) one row, normalised, is its own row ========================== *)
Section RowFix.
  Context {A : Type} (vvf vkf : A -> bytes).

  Definition row_vv (v : bversion) (es : list A) : bytes :=
    match v with
    | BV1 => match es with e0 :: _ :: _ => vvf e0 | _ => [] end
    | BV2 => []
    end.

  Lemma g_row_fix (v : bversion) (u : bytes) (es : list A) t :
    g_row vvf vkf v (u, es) = Ok t ->
    ((2 <= List.length es)%nat ->
     Forall (fun e => exists k, parse_list_of_string_lists (vkf e) = Ok [k]) es) ->
    g_row vvf vkf v (u, snd t) = Ok (u, row_vv v (snd t), snd t).
  Proof.
    intros H S. destruct (g_row_ok _ _ _ _ _ _ H) as [Eu [U Hv]].
    unfold g_row. rewrite U. cbn [negb]. destruct v.
    - destruct es as [|e0 [|e1 r]].
      + destruct Hv as [_ Es]. rewrite Es. reflexivity.
      + destruct Hv as [_ Es]. rewrite Es. reflexivity.
      + destruct Hv as [_ Ho].
        assert (S' : Forall (fun e => exists k, parse_list_of_string_lists (vkf e) = Ok [k]) (e0 :: e1 :: r))
          by (apply S; cbn [List.length]; lia).
        pose proof (eipko_row_major_id vvf vkf _ _ Ho S') as Hid.
        destruct (snd t) as [|m0 [|m1 mr]]; try reflexivity.
        rewrite Hid. reflexivity.
    - destruct Hv as [e [Ees [_ Es]]]. rewrite Es. reflexivity.
  Qed.

  Lemma g_row_nonempty (v : bversion) (u : bytes) (es : list A) t :
    g_row vvf vkf v (u, es) = Ok t -> es <> [] -> snd t <> [].
  Proof.
    intros H Hne. destruct (g_row_ok _ _ _ _ _ _ H) as [_ [_ Hv]]. destruct v.
    - destruct es as [|e0 [|e1 r]]; [contradiction| |].
      + destruct Hv as [_ Es]. rewrite Es. discriminate.
      + destruct Hv as [_ Ho]. apply entries_order_members in Ho. apply Ho.
    - destruct Hv as [e [_ [_ Es]]]. rewrite Es. discriminate.
  Qed.

  Lemma g_rows_of (v : bversion) {B : Type} (gf : B -> bytes * list A) (rf : B -> bytes * bytes * list A)
        (S : list B) :
    Forall (fun r => g_row vvf vkf v (gf r) = Ok (rf r)) S ->
    g_rows vvf vkf v (map gf S) = Ok (map rf S).
  Proof.
    induction 1 as [|r t Hr _ IH]; [reflexivity|]. cbn [map g_rows]. rewrite Hr. cbn [bind].
    rewrite IH. reflexivity.
  Qed.
End RowFix.

(* ======================= (5) the hypothesis, as a boolean ================================ *)
Definition one_key (x : bexchange) : bool :=
  match parse_list_of_string_lists (hv_vkey x) with Ok [_] => true | _ => false end.
Definition multi_url (b : bundle) (x : bexchange) : bool :=
  (2 <=? List.length (filter (fun a => bytes_eqb (bx_url x) (bx_url a)) (b_exchanges b)))%nat.
(* every exchange whose URL occurs more than once carries exactly one Variant-Key *)
Definition variant_keys_single (b : bundle) : bool :=
  forallb (fun x => negb (multi_url b x) || one_key x) (b_exchanges b).

Lemma one_key_spec (x : bexchange) :
  one_key x = true <-> exists k, parse_list_of_string_lists (hv_vkey x) = Ok [k].
Proof.
  unfold one_key. destruct (parse_list_of_string_lists (hv_vkey x)) as [[|k [|k2 r]]| | |].
  - split; [discriminate|]. intros [k' E]. discriminate E.
  - split; [intros _; exists k; reflexivity|reflexivity].
  - split; [discriminate|]. intros [k' E]. discriminate E.
  - split; [discriminate|]. intros [k' E]. discriminate E.
  - split; [discriminate|]. intros [k' E]. discriminate E.
  - split; [discriminate|]. intros [k' E]. discriminate E.
Qed.

Lemma single_keys_variant (b : bundle) : single_keys b -> variant_keys_single b = true.
Proof.
  unfold single_keys, variant_keys_single. intros S. apply forallb_forall. intros x Hx.
  rewrite Forall_forall in S. apply orb_true_iff. right. apply one_key_spec. apply S. exact Hx.
Qed.

Lemma vks_group (b : bundle) (u : bytes) (es : list bexchange) :
  variant_keys_single b = true -> In (u, es) (g_groups bx_url (b_exchanges b)) ->
  (2 <= List.length es)%nat ->
  Forall (fun e => exists k, parse_list_of_string_lists (hv_vkey e) = Ok [k]) es.
Proof.
  intros H Hg L. destruct (g_groups_in _ _ _ _ Hg) as [Ees _]. apply Forall_forall. intros x Hx.
  destruct (g_groups_members bx_url _ (u, es) x Hg Hx) as [Hin Eu]. cbn [fst] in Eu.
  unfold variant_keys_single in H. rewrite forallb_forall in H. specialize (H x Hin).
  assert (M : multi_url b x = true).
  { unfold multi_url. rewrite Eu, <- Ees. apply Nat.leb_le. exact L. }
  rewrite M in H. cbn [negb orb] in H. apply one_key_spec. exact H.
Qed.

(* ======================= (6) the rows of norm b ========================================== *)
Definition blk (r : bytes * bytes * list bexchange) : bytes * list bexchange :=
  (fst (fst r), map xnorm (snd r)).
Definition rfx (v : bversion) (r : bytes * bytes * list bexchange) : bytes * bytes * list bexchange :=
  (fst (fst r), row_vv hv_variants v (snd r), map xnorm (snd r)).
Definition rkey (r : bytes * bytes * list bexchange) : bytes := text_item (fst (fst r)).

Lemma row_renorm (b : bundle) (bs : bytes) :
  b_write b = Ok bs -> variant_keys_single b = true ->
  forall g r, In g (g_groups bx_url (b_exchanges b)) ->
    g_row hv_variants hv_vkey (b_ver b) g = Ok r ->
    fst (fst r) = fst g /\ snd r <> [] /\
    Forall (fun a => In a (b_exchanges b) /\ bx_url a = fst g) (snd r) /\
    g_row hv_variants hv_vkey (b_ver b) (blk r) = Ok (rfx (b_ver b) r).
Proof.
  intros Hw Hk [u es] r Hg Hr. pose proof (b_write_ok_xwritable b bs Hw) as X. rewrite Forall_forall in X.
  destruct (g_row_ok _ _ _ _ _ _ Hr) as [Eu [U Hv]].
  pose proof (g_row_incl _ _ _ _ _ _ Hr) as Hi.
  destruct (g_groups_in _ _ _ _ Hg) as [_ [Hne _]].
  assert (Hmem : forall a, In a es -> In a (b_exchanges b) /\ bx_url a = u).
  { intros a Ha. apply (g_groups_members bx_url _ (u, es) a Hg Ha). }
  cbn [fst]. split; [exact Eu|]. split; [apply (g_row_nonempty _ _ _ _ _ _ Hr Hne)|].
  split; [apply Forall_forall; intros a Ha; apply Hmem, Hi, Ha|].
  unfold blk, rfx. rewrite Eu.
  destruct es as [|e0 [|e1 rest]]; [contradiction| |].
  - assert (Es : snd r = [e0]).
    { destruct (b_ver b).
      - destruct Hv as [_ Es]. exact Es.
      - destruct Hv as [e [Ee [_ Es]]]. inversion Ee; subst e. exact Es. }
    rewrite Es. cbn [map]. unfold g_row. rewrite U. cbn [negb]. destruct (b_ver b); reflexivity.
  - destruct (b_ver b) eqn:V.
    2:{ destruct Hv as [e [Ee _]]. discriminate. }
    destruct Hv as [Evv Ho].
    assert (SK : Forall (fun e => exists k, parse_list_of_string_lists (hv_vkey e) = Ok [k]) (e0 :: e1 :: rest)).
    { apply (vks_group b u _ Hk Hg). cbn [List.length]. lia. }
    destruct (entries_order_spec _ _ Ho) as [v0 [vk0 [x0 [t [vs [n [Ees [Hv0 [Fv _]]]]]]]]].
    assert (Hkeep : forall a, In a (snd r) ->
              hv_variants (xnorm a) = hv_variants a /\ hv_vkey (xnorm a) = hv_vkey a).
    { intros a Ha. pose proof (Hi a Ha) as Hae. destruct (Hmem a Hae) as [Hax _]. split.
      - apply hv_variants_xnorm; [apply X; exact Hax|].
        rewrite Forall_forall in Fv. specialize (Fv (hv_variants a, hv_vkey a, a)). cbn [fst] in Fv.
        rewrite Fv; [exact Hv0|]. apply in_map_iff. exists a. split; [reflexivity|exact Hae].
      - apply hv_vkey_xnorm; [apply X; exact Hax|].
        rewrite Forall_forall in SK. destruct (SK a Hae) as [k Pk]. apply (single_key_nonempty _ k Pk). }
    rewrite (g_row_map xnorm hv_variants hv_vkey hv_variants hv_vkey BV1 u (snd r) Hkeep).
    rewrite (g_row_fix hv_variants hv_vkey BV1 u _ r Hr (fun _ => SK)).
    cbn [mapR]. unfold map3. cbn [fst snd]. reflexivity.
Qed.

Lemma bundle_eq (b1 b2 : bundle) :
  b_ver b1 = b_ver b2 -> b_primary b1 = b_primary b2 -> b_manifest b1 = b_manifest b2 ->
  b_sigs b1 = b_sigs b2 -> b_exchanges b1 = b_exchanges b2 -> b_taint b1 = b_taint b2 -> b1 = b2.
Proof. destruct b1, b2. cbn. intros; subst; reflexivity. Qed.

Lemma norm_exchanges (c : bundle) :
  b_exchanges (norm c)
  = flat_map (fun r => map xnorm (snd r)) (isort row_ltb (xrows (b_ver c) (b_exchanges c))).
Proof. reflexivity. Qed.

Lemma norm_rows_fix (b : bundle) (bs : bytes) :
  b_write b = Ok bs -> variant_keys_single b = true ->
  exists S : list (bytes * bytes * list bexchange),
    b_exchanges (norm b) = flat_map (fun r => map xnorm (snd r)) S /\
    g_rows hv_variants hv_vkey (b_ver b) (g_groups bx_url (b_exchanges (norm b)))
      = Ok (map (rfx (b_ver b)) S) /\
    isort row_ltb (map (rfx (b_ver b)) S) = map (rfx (b_ver b)) S /\
    Forall (fun r => Forall (fun a => In a (b_exchanges b)) (snd r)) S.
Proof.
  intros Hw Hk. destruct (norm_rows_spec b bs Hw) as [rows [Er [En F2]]].
  set (S := isort row_ltb rows) in *. exists S.
  assert (Hrows : Forall (fun r => exists g, In g (g_groups bx_url (b_exchanges b))
                                   /\ g_row hv_variants hv_vkey (b_ver b) g = Ok r) rows).
  { eapply Forall2_In_right; [exact F2|]. intros g r Hg Hr. exists g. auto. }
  assert (RS : Forall (fun r => snd r <> [] /\
                         Forall (fun a => In a (b_exchanges b) /\ bx_url a = fst (fst r)) (snd r) /\
                         g_row hv_variants hv_vkey (b_ver b) (blk r) = Ok (rfx (b_ver b) r)) S).
  { apply Forall_forall. intros r Hr. apply (Permutation_in _ (isort_perm row_ltb rows)) in Hr.
    rewrite Forall_forall in Hrows. destruct (Hrows r Hr) as [g [Hg Hgr]].
    destruct (row_renorm b bs Hw Hk g r Hg Hgr) as [E1 [E2 [E3 E4]]]. rewrite E1. auto. }
  assert (NDk : NoDup (map (fun r : bytes * bytes * list bexchange => fst (fst r)) rows)).
  { assert (E : map (fun r : bytes * bytes * list bexchange => fst (fst r)) rows
                = map fst (g_groups bx_url (b_exchanges b))).
    { clear - F2. induction F2 as [|g r gs rs Hgr _ IH]; [reflexivity|]. cbn [map]. rewrite IH.
      destruct g as [u es]. apply g_row_ok in Hgr. destruct Hgr as [Eu _]. rewrite Eu. reflexivity. }
    rewrite E, g_groups_keys. apply dedup_spec. }
  assert (SS : StronglySorted (klt rkey) S).
  { apply (isort_strict rkey rows). unfold rkey.
    rewrite <- (map_map (fun r : bytes * bytes * list bexchange => fst (fst r)) text_item).
    apply NoDup_map_inj; [apply text_item_inj|exact NDk]. }
  assert (B : blocks_ok bx_url (map blk S)).
  { split.
    - rewrite map_map. cbn [blk fst].
      eapply Permutation_NoDup; [apply Permutation_map, Permutation_sym, isort_perm|exact NDk].
    - apply Forall_map. eapply Forall_impl; [|exact RS]. intros r [Hne [Fm _]]. unfold blk. cbn [fst snd].
      split; [destruct (snd r); [contradiction|discriminate]|].
      apply Forall_map. eapply Forall_impl; [|exact Fm]. intros a [_ Ea]. exact Ea. }
  assert (En' : b_exchanges (norm b) = flat_map snd (map blk S)).
  { rewrite En, flat_map_map. reflexivity. }
  split; [exact En|]. split; [|split].
  - rewrite En', (g_groups_blocks bx_url _ B). apply g_rows_of.
    eapply Forall_impl; [|exact RS]. intros r [_ [_ H]]. exact H.
  - rewrite <- (isort_map (rfx (b_ver b)) row_ltb S). f_equal.
    change (fun a c => row_ltb (rfx (b_ver b) a) (rfx (b_ver b) c)) with (kltb rkey).
    apply (isort_sorted_id rkey). exact SS.
  - eapply Forall_impl; [|exact RS]. intros r [_ [Fm _]]. eapply Forall_impl; [|exact Fm].
    intros a [Ha _]. exact Ha.
Qed.

(* ======================= (7) idempotence, writability, the fixpoint ====================== *)
Theorem norm_idempotent_variants (b : bundle) (bs : bytes) :
  b_write b = Ok bs -> variant_keys_single b = true -> norm (norm b) = norm b.
Proof.
  intros Hw Hk. destruct (norm_rows_fix b bs Hw Hk) as [S [En [Er [Es Fm]]]].
  pose proof (b_write_ok_xwritable b bs Hw) as X. rewrite Forall_forall in X.
  apply bundle_eq; try reflexivity.
  rewrite (norm_exchanges (norm b)). change (b_ver (norm b)) with (b_ver b).
  unfold xrows. rewrite Er, Es, flat_map_map, En. apply flat_map_ext_in'. intros r Hr.
  unfold rfx. cbn [snd]. rewrite map_map. apply map_ext_in. intros a Ha. apply xnorm_idem.
  apply X. rewrite Forall_forall in Fm. specialize (Fm r Hr). rewrite Forall_forall in Fm. apply Fm. exact Ha.
Qed.

Lemma xwritable_erh (x : bexchange) :
  xwritable x = true -> is_ok (encode_response_header (bx_status x) (bx_hdr x)) = true.
Proof.
  intros W.
  assert (E : exists hc, encode_response_header (bx_status x) (bx_hdr x) = Ok hc).
  { apply erh_ok_iff. split; [apply (xw_status x W)|]. split.
    - pose proof (xw_hdrs x W) as F. apply forallb_forall. rewrite Forall_forall in F. exact F.
    - constructor; [|apply (xw_nodup x W)]. intros Hin. apply in_map_iff in Hin.
      destruct Hin as [nv [E Hnv]]. pose proof (xw_hdrs x W) as F. rewrite Forall_forall in F.
      destruct (hdr_writable_parts _ (F nv Hnv)) as [P _]. apply lower_not_pseudo in P.
      rewrite E in P. vm_compute in P. discriminate. }
  destruct E as [hc E]. rewrite E. reflexivity.
Qed.

(* the reader's rows exist -> the writer's index rows exist *)
Lemma index_pres_of_rows (b : bundle) rows :
  g_rows hv_variants hv_vkey (b_ver b) (g_groups bx_url (b_exchanges b)) = Ok rows ->
  exists ts, index_pres (b_ver b) (groups_of (ients_of b)) = Ok ts.
Proof.
  intros H. pose proof (zl_ok b) as Z. rewrite Forall_forall in Z.
  rewrite groups_of_g, index_pres_g, <- zl_snd.
  rewrite (g_groups_map snd urlZ ie_url) by (intros z Hz; apply (Z z Hz)).
  rewrite (g_rows_map snd vvZ vkZ ie_variants ie_vkey).
  2:{ intros g z Hg Hz. destruct (g_groups_members urlZ _ g z Hg Hz) as [Hin _].
      destruct (Z z Hin) as [_ [E2 [E3 _]]]. auto. }
  rewrite <- (zl_fst b) in H.
  rewrite (g_groups_map fst urlZ bx_url) in H by reflexivity.
  rewrite (g_rows_map fst vvZ vkZ hv_variants hv_vkey) in H by (intros; split; reflexivity).
  destruct (g_rows vvZ vkZ (b_ver b) (g_groups urlZ (zl_of b))) as [tz| | |]; cbn [mapR] in *; try discriminate.
  eexists. reflexivity.
Qed.

Theorem norm_writable_variants (b : bundle) (bs : bytes) :
  b_write b = Ok bs -> variant_keys_single b = true -> exists bs2, b_write (norm b) = Ok bs2.
Proof.
  intros Hw Hk. destruct (norm_rows_fix b bs Hw Hk) as [S [_ [Er _]]].
  destruct (index_pres_of_rows (norm b) _ Er) as [ts Ht].
  pose proof (b_write_ok_xwritable b bs Hw) as X. rewrite Forall_forall in X.
  pose proof Hw as Hw'. apply b_write_ok_iff in Hw'.
  destruct Hw' as [ts0 [Hh [[Hu [Hpa Hma]] [_ [Hp [Hm _]]]]]].
  eexists. apply b_write_ok_iff. exists ts.
  split; [|split; [|split; [exact Ht|split; [exact Hp|split; [exact Hm|reflexivity]]]]].
  - unfold headers_ok. apply forallb_forall. intros y Hy. apply norm_members in Hy.
    destruct Hy as [x [Hx ->]]. apply xwritable_erh. apply xnorm_writable. apply X. exact Hx.
  - unfold url_checks. split; [|split; [exact Hpa|exact Hma]].
    unfold urls_ok. apply forallb_forall. intros y Hy. apply norm_members in Hy.
    destruct Hy as [x [Hx ->]]. cbn [xnorm bx_url].
    unfold urls_ok in Hu. rewrite forallb_forall in Hu. apply Hu. exact Hx.
Qed.

Section FixCycle.
  Variable x509_ok : bytes -> bool.

  (* C03 fixpoint with b1 variant sets: what was read is a normal form, it can be
     written again, and reading that gives the same bundle *)
  Theorem fixpoint_variants_gen (b : bundle) (bs : bytes) :
    b_write b = Ok bs -> lenN bs < two63 -> residual x509_ok b = true ->
    variant_keys_single b = true ->
    b_read x509_ok bs = Ok (norm b) /\ norm (norm b) = norm b /\
    exists bs2, b_write (norm b) = Ok bs2 /\
                (lenN bs2 < two63 -> b_read x509_ok bs2 = Ok (norm b)).
  Proof.
    intros Hw L W Hk. split; [apply bundle_roundtrip; assumption|].
    pose proof (norm_idempotent_variants b bs Hw Hk) as I. split; [exact I|].
    destruct (norm_writable_variants b bs Hw Hk) as [bs2 H2]. exists bs2. split; [exact H2|].
    intros L2. rewrite <- I. apply bundle_roundtrip; [exact H2|exact L2|apply residual_norm; exact W].
  Qed.

  Theorem fixpoint_variants (b : bundle) (bs : bytes) :
    b_write b = Ok bs -> lenN bs < two63 -> residual x509_ok b = true -> single_keys b ->
    b_read x509_ok bs = Ok (norm b) /\ norm (norm b) = norm b /\
    exists bs2, b_write (norm b) = Ok bs2 /\
                (lenN bs2 < two63 -> b_read x509_ok bs2 = Ok (norm b)).
  Proof.
    intros Hw L W S. apply fixpoint_variants_gen; try assumption. apply single_keys_variant. exact S.
  Qed.

  (* every further write/read cycle reproduces (bs2, norm b) *)
  Theorem cycle_fixpoint_variants (b : bundle) (bs : bytes) :
    b_write b = Ok bs -> lenN bs < two63 -> residual x509_ok b = true ->
    variant_keys_single b = true ->
    cycle x509_ok b = Some (bs, norm b) /\
    exists bs2, b_write (norm b) = Ok bs2 /\
      (lenN bs2 < two63 ->
       forall n, Nat.iter n (fun st => match st with Some (_, c) => cycle x509_ok c | None => None end)
                          (cycle x509_ok (norm b))
                 = Some (bs2, norm b)).
  Proof.
    intros Hw L W Hk. destruct (fixpoint_variants_gen b bs Hw L W Hk) as [R1 [_ [bs2 [H2 R2]]]].
    split; [unfold cycle; rewrite Hw, R1; reflexivity|].
    exists bs2. split; [exact H2|]. intros L2 n. specialize (R2 L2).
    assert (C2 : cycle x509_ok (norm b) = Some (bs2, norm b)) by (unfold cycle; rewrite H2, R2; reflexivity).
    induction n as [|n IH]; [exact C2|].
    change (Nat.iter (S n) ?f ?x) with (f (Nat.iter n f x)). rewrite IH. exact C2.
  Qed.
End FixCycle.

(* (2) in one statement *)
Lemma hv_survive_xnorm (x : bexchange) :
  xwritable x = true ->
  (hv_variants x <> [] -> hv_variants (xnorm x) = hv_variants x) /\
  (hv_vkey x <> [] -> hv_vkey (xnorm x) = hv_vkey x).
Proof. intros W. split; [apply hv_variants_xnorm|apply hv_vkey_xnorm]; exact W. Qed.

(* the group of a URL in norm b is the row of that URL, member by member normalised,
   and its row is itself: (1) and (2) put together for one URL group of a written bundle *)
Theorem row_of_norm_row (b : bundle) (bs : bytes) (g : bytes * list bexchange) r :
  b_write b = Ok bs -> variant_keys_single b = true ->
  In g (g_groups bx_url (b_exchanges b)) -> g_row hv_variants hv_vkey (b_ver b) g = Ok r ->
  exists vv, g_row hv_variants hv_vkey (b_ver b) (fst g, map xnorm (snd r))
             = Ok (fst g, vv, map xnorm (snd r)).
Proof.
  intros Hw Hk Hg Hr. destruct (row_renorm b bs Hw Hk g r Hg Hr) as [E1 [_ [_ E4]]].
  unfold blk, rfx in E4. rewrite E1 in E4. eexists. exact E4.
Qed.
