(* Proofs/CborDecode.v - C12: the model's decoder functions are characterised
   exactly by the spec's independent head decoder shead: they succeed on, and
   only on, a complete definite-length head of the requested major type (any
   of the five widths), return the RFC 8949 argument, and consume exactly the
   item. *)
From Coq Require Import Lia ZifyN ZifyNat ZifyBool.
From WP Require Import Base.Prelude Model.Cbor Spec.Cbor
  Proofs.BaseLemmas Proofs.CborHead Proofs.CborUtf8.
Ltac Zify.zify_post_hook ::= Z.div_mod_to_equations.
Open Scope N_scope.

(* ---- decodeTypedUint versus shead -------------------------------------- *)
Lemma nfollow_pow (ai : N) : 24 <= ai <= 27 -> nfollow_of ai = 2 ^ (ai - 24).
Proof.
  intros H. assert (C : ai = 24 \/ ai = 25 \/ ai = 26 \/ ai = 27) by lia.
  destruct C as [C|[C|[C|C]]]; subst ai; reflexivity.
Qed.

Lemma dtu_shead (b : N) (r0 : bytes) : b < 256 ->
  decode_typed_uint (b :: r0) =
  match shead (b :: r0) with
  | Some (mt, n, _, r) => Ok (32 * mt, n, r)
  | None => Err
  end.
Proof.
  intros Hb. unfold decode_typed_uint, shead, major, addinfo. cbv zeta.
  replace (256 <=? b) with false by lia.
  destruct (b mod 32 <? 24) eqn:C0; [rewrite (N.mul_comm 32); reflexivity|].
  destruct (27 <? b mod 32) eqn:C1; [reflexivity|].
  rewrite nfollow_pow by lia.
  destruct (splitN r0 (2 ^ (b mod 32 - 24))) as [[f r']|]; [|reflexivity].
  rewrite unbe_be_val, (N.mul_comm 32). reflexivity.
Qed.

Lemma shead_big (b : N) (r0 : bytes) : 256 <= b -> shead (b :: r0) = None.
Proof. intros Hb. unfold shead. replace (256 <=? b) with true by lia. reflexivity. Qed.

(* the exact behaviour of decodeOfType, for every input *)
Lemma decode_of_type_shead (t : N) (bs : bytes) :
  major_const t ->
  decode_of_type t bs =
  match shead bs with
  | Some (mt, n, _, r) => if mt =? t / 32 then Ok (n, r) else Err
  | None => Err
  end.
Proof.
  intros Ht. destruct (major_const_div t Ht) as [Hq Hm]. destruct Ht as [_ Ht].
  destruct bs as [|b r0]; [reflexivity|].
  destruct (N.lt_ge_cases b 256) as [Hb|Hb].
  - unfold decode_of_type. rewrite dtu_shead by exact Hb.
    destruct (shead (b :: r0)) as [[[[mt n] w] r]|]; [|reflexivity].
    cbn [bind].
    destruct (N.eqb_spec (32 * mt) t) as [E1|E1];
      destruct (N.eqb_spec mt (t / 32)) as [E2|E2]; try reflexivity; lia.
  - rewrite shead_big by exact Hb.
    unfold decode_of_type, decode_typed_uint, major.
    destruct (addinfo b <? 24).
    { cbn [bind]. replace (b / 32 * 32 =? t) with false by lia. reflexivity. }
    destruct (27 <? addinfo b); [reflexivity|].
    destruct (splitN r0 (nfollow_of (addinfo b))) as [[f r']|]; [|reflexivity].
    cbn [bind]. replace (b / 32 * 32 =? t) with false by lia. reflexivity.
Qed.

(* C12 decode_sound + decode_complete for heads, as one equivalence *)
Theorem decode_of_type_iff (t n : N) (bs rest : bytes) :
  major_const t ->
  (decode_of_type t bs = Ok (n, rest) <-> exists w, shead bs = Some (t / 32, n, w, rest)).
Proof.
  intros Ht. rewrite decode_of_type_shead by exact Ht.
  destruct (shead bs) as [[[[mt n'] w] r]|].
  - destruct (N.eqb_spec mt (t / 32)) as [E|E]; split.
    + intros H. inversion H; subst. exists w. reflexivity.
    + intros [w' H]. inversion H; subst. reflexivity.
    + discriminate.
    + intros [w' H]. inversion H; subst. contradiction.
  - split; [discriminate|intros [w' H]; discriminate].
Qed.

Theorem decode_sound (t n : N) (bs rest : bytes) :
  major_const t -> decode_of_type t bs = Ok (n, rest) ->
  exists w, shead bs = Some (t / 32, n, w, rest).
Proof. intros Ht. apply decode_of_type_iff. exact Ht. Qed.

Theorem decode_complete (t n w : N) (bs rest : bytes) :
  major_const t -> shead bs = Some (t / 32, n, w, rest) ->
  decode_of_type t bs = Ok (n, rest).
Proof. intros Ht H. apply decode_of_type_iff; [exact Ht|]. exists w. exact H. Qed.

(* a head is the initial byte plus w follow bytes, w in {0,1,2,4,8}, and the
   argument is what those bytes say *)
Lemma shead_shape (bs : bytes) (mt n w : N) (r : bytes) :
  shead bs = Some (mt, n, w, r) ->
  exists b f, bs = b :: f ++ r /\ lenN f = w /\ b < 256 /\ mt = b / 32 /\ mt < 8 /\
              ((w = 0 /\ b mod 32 < 24 /\ n = b mod 32) \/
               (24 <= b mod 32 <= 27 /\ w = 2 ^ (b mod 32 - 24) /\ n = be_val f)).
Proof.
  unfold shead. destruct bs as [|b r0]; [discriminate|]. cbv zeta.
  destruct (256 <=? b) eqn:Cb; [discriminate|].
  destruct (b mod 32 <? 24) eqn:C0.
  { intros H. inversion H; subst. exists b, []. cbn [app lenN].
    split; [reflexivity|]. split; [reflexivity|]. split; [lia|]. split; [reflexivity|].
    split; [lia|]. left. lia. }
  destruct (27 <? b mod 32) eqn:C1; [discriminate|].
  destruct (splitN r0 (2 ^ (b mod 32 - 24))) as [[f r']|] eqn:Hs; [|discriminate].
  intros H. inversion H; subst. apply splitN_spec in Hs. destruct Hs as [E L].
  exists b, f. subst r0.
  split; [reflexivity|]. split; [exact L|]. split; [lia|]. split; [reflexivity|].
  split; [lia|]. right. split; [lia|]. split; reflexivity.
Qed.

Lemma shead_width (bs : bytes) (mt n w : N) (r : bytes) :
  shead bs = Some (mt, n, w, r) -> w = 0 \/ w = 1 \/ w = 2 \/ w = 4 \/ w = 8.
Proof.
  intros H. apply shead_shape in H.
  destruct H as [b [f [_ [_ [_ [_ [_ [[H _]|[H1 [H2 _]]]]]]]]]]; [left; exact H|].
  assert (C : b mod 32 = 24 \/ b mod 32 = 25 \/ b mod 32 = 26 \/ b mod 32 = 27) by lia.
  destruct C as [C|[C|[C|C]]]; rewrite C in H2; subst w; cbn; tauto.
Qed.

Lemma shead_consumes (bs : bytes) (mt n w : N) (r : bytes) :
  shead bs = Some (mt, n, w, r) -> exists h, bs = h ++ r /\ lenN h = 1 + w.
Proof.
  intros H. apply shead_shape in H. destruct H as [b [f [E [L _]]]].
  exists (b :: f). split; [exact E|]. cbn [lenN]. lia.
Qed.

(* ---- strings ------------------------------------------------------------ *)
Theorem decode_bytes_of_type_iff (t : N) (bs s rest : bytes) :
  major_const t ->
  (decode_bytes_of_type t bs = Ok (s, rest) <->
   lenN s < two63 /\ exists w, shead bs = Some (t / 32, lenN s, w, s ++ rest)).
Proof.
  intros Ht. unfold decode_bytes_of_type. split.
  - destruct (decode_of_type t bs) as [[n r]| | |] eqn:Hd; try discriminate.
    cbn [bind]. destruct (two63 <=? n) eqn:Hn; [discriminate|].
    destruct (splitN r n) as [[s' r']|] eqn:Hs; [|discriminate].
    intros H. inversion H; subst s' r'. apply splitN_spec in Hs. destruct Hs as [E L].
    subst r n. split; [lia|]. apply decode_sound; assumption.
  - intros [Hl [w H]]. rewrite (decode_complete t _ w _ _ Ht H). cbn [bind].
    replace (two63 <=? lenN s) with false by lia. rewrite splitN_app. reflexivity.
Qed.

Theorem decode_text_iff (bs s rest : bytes) :
  decode_text bs = Ok (s, rest) <->
  lenN s < two63 /\ Utf8Valid s /\ exists w, shead bs = Some (3, lenN s, w, s ++ rest).
Proof.
  unfold decode_text. split.
  - destruct (decode_bytes_of_type MText bs) as [[s' r']| | |] eqn:Hd; try discriminate.
    cbn [bind]. destruct (utf8_valid s') eqn:Hu; [|discriminate].
    intros H. inversion H; subst s' r'.
    apply (decode_bytes_of_type_iff MText) in Hd; [|split; reflexivity].
    destruct Hd as [Hl Hw]. split; [exact Hl|]. split; [|exact Hw].
    apply utf8_dfa_correct. exact Hu.
  - intros [Hl [Hu Hw]].
    rewrite (proj2 (decode_bytes_of_type_iff MText bs s rest ltac:(split; reflexivity)))
      by (split; assumption).
    cbn [bind]. rewrite (proj2 (utf8_dfa_correct s) Hu). reflexivity.
Qed.

(* soundness in the "bytes consumed" form *)
Theorem decode_bytes_sound (bs s rest : bytes) :
  decode_bytes bs = Ok (s, rest) ->
  exists h w, bs = h ++ s ++ rest /\ lenN h = 1 + w /\
              shead bs = Some (2, lenN s, w, s ++ rest).
Proof.
  intros H. apply (decode_bytes_of_type_iff MBytes) in H; [|split; reflexivity].
  destruct H as [_ [w H]]. destruct (shead_consumes _ _ _ _ _ H) as [h [E L]].
  exists h, w. repeat split; assumption.
Qed.

Theorem decode_text_sound (bs s rest : bytes) :
  decode_text bs = Ok (s, rest) ->
  exists h w, bs = h ++ s ++ rest /\ lenN h = 1 + w /\
              shead bs = Some (3, lenN s, w, s ++ rest) /\ Utf8Valid s.
Proof.
  intros H. apply decode_text_iff in H. destruct H as [_ [Hu [w H]]].
  destruct (shead_consumes _ _ _ _ _ H) as [h [E L]].
  exists h, w. repeat split; assumption.
Qed.

Theorem decode_bytes_complete (bs s rest r : bytes) (n w : N) :
  shead bs = Some (2, n, w, r) -> n < two63 -> splitN r n = Some (s, rest) ->
  decode_bytes bs = Ok (s, rest).
Proof.
  intros H Hn Hs. apply splitN_spec in Hs. destruct Hs as [E L]. subst r n.
  apply (decode_bytes_of_type_iff MBytes); [split; reflexivity|].
  split; [exact Hn|exists w; exact H].
Qed.

Theorem decode_text_complete (bs s rest r : bytes) (n w : N) :
  shead bs = Some (3, n, w, r) -> n < two63 -> splitN r n = Some (s, rest) ->
  Utf8Valid s -> decode_text bs = Ok (s, rest).
Proof.
  intros H Hn Hs Hu. apply splitN_spec in Hs. destruct Hs as [E L]. subst r n.
  apply decode_text_iff. split; [exact Hn|]. split; [exact Hu|exists w; exact H].
Qed.

(* ---- C12 decode_encode_* -------------------------------------------------- *)
Lemma decode_of_type_typed_uint (t n : N) (rest : bytes) :
  major_const t -> n < two64 ->
  decode_of_type t (typed_uint t n ++ rest) = Ok (n, rest).
Proof.
  intros Ht Hn. apply (decode_complete t n (min_width n)); [exact Ht|].
  apply head_roundtrip_shead; assumption.
Qed.

Theorem decode_encode_uint (n : N) (rest : bytes) :
  n < two64 -> decode_uint (enc_uint n ++ rest) = Ok (n, rest).
Proof. intros Hn. apply decode_of_type_typed_uint; [split; reflexivity|exact Hn]. Qed.

Theorem decode_encode_array_header (n : N) (rest : bytes) :
  n < two64 -> decode_array_header (enc_array_header n ++ rest) = Ok (n, rest).
Proof. intros Hn. apply decode_of_type_typed_uint; [split; reflexivity|exact Hn]. Qed.

Theorem decode_encode_map_header (n : N) (rest : bytes) :
  n < two64 -> decode_map_header (enc_map_header n ++ rest) = Ok (n, rest).
Proof. intros Hn. apply decode_of_type_typed_uint; [split; reflexivity|exact Hn]. Qed.

(* EncodeInt of a non-negative int64 is read back by DecodeUint *)
Theorem decode_encode_int_nonneg (z : Z) (rest : bytes) :
  (0 <= z < Z.of_N two63)%Z -> decode_uint (enc_int z ++ rest) = Ok (Z.to_N z, rest).
Proof.
  intros Hz. unfold enc_int. replace (0 <=? z)%Z with true by lia.
  apply decode_of_type_typed_uint; [split; reflexivity|]. unfold two63, two64 in *. lia.
Qed.

Theorem decode_encode_bytes (s rest : bytes) :
  lenN s < two63 -> decode_bytes (enc_bytes s ++ rest) = Ok (s, rest).
Proof.
  intros Hl. apply (decode_bytes_of_type_iff MBytes); [split; reflexivity|].
  split; [exact Hl|]. exists (min_width (lenN s)).
  unfold enc_bytes, enc_bytes_of. rewrite <- app_assoc.
  apply head_roundtrip_shead; [split; reflexivity|]. unfold two63, two64 in *. lia.
Qed.

Theorem decode_encode_text (s out rest : bytes) :
  lenN s < two63 -> enc_text s = Ok out -> decode_text (out ++ rest) = Ok (s, rest).
Proof.
  intros Hl He. unfold enc_text in He. destruct (utf8_valid s) eqn:Hu; [|discriminate].
  inversion He; subst out. apply decode_text_iff.
  split; [exact Hl|]. split; [apply utf8_dfa_correct; exact Hu|].
  exists (min_width (lenN s)). unfold enc_bytes_of. rewrite <- app_assoc.
  apply (head_roundtrip_shead MText); [split; reflexivity|]. unfold two63, two64 in *. lia.
Qed.

(* concatenated streams: two items written one after the other are read back
   one after the other (the read position is exact) *)
Theorem decode_encode_stream (n : N) (s rest : bytes) :
  n < two64 -> lenN s < two63 ->
  (let* (v1, r1) := decode_uint (enc_uint n ++ enc_bytes s ++ rest) in
   let* (v2, r2) := decode_bytes r1 in Ok (v1, v2, r2)) = Ok (n, s, rest).
Proof.
  intros Hn Hs. rewrite decode_encode_uint by exact Hn. cbn [bind].
  rewrite decode_encode_bytes by exact Hs. reflexivity.
Qed.

(* ---- C12 decode_rejects --------------------------------------------------- *)
Lemma shead_none_iff (bs : bytes) :
  shead bs = None <->
  bs = [] \/ exists b r, bs = b :: r /\
    (256 <= b \/ 28 <= b mod 32 \/ (24 <= b mod 32 <= 27 /\ lenN r < 2 ^ (b mod 32 - 24))).
Proof.
  unfold shead. destruct bs as [|b r]; [split; [left; reflexivity|reflexivity]|].
  cbv zeta. split.
  - intros H. right. exists b, r. split; [reflexivity|].
    destruct (256 <=? b) eqn:Cb; [left; lia|].
    destruct (b mod 32 <? 24) eqn:C0; [discriminate|].
    destruct (27 <? b mod 32) eqn:C1; [right; left; lia|].
    destruct (splitN r (2 ^ (b mod 32 - 24))) as [[f r']|] eqn:Hs; [discriminate|].
    right; right. split; [lia|]. apply splitN_none_iff. exact Hs.
  - intros [H|[b' [r' [E H]]]]; [discriminate|]. inversion E; subst b' r'.
    destruct (256 <=? b) eqn:Cb; [reflexivity|].
    destruct H as [H|[H|[H1 H2]]]; [lia| |].
    + replace (b mod 32 <? 24) with false by lia.
      replace (27 <? b mod 32) with true by lia. reflexivity.
    + replace (b mod 32 <? 24) with false by lia.
      replace (27 <? b mod 32) with false by lia.
      apply splitN_none_iff in H2. rewrite H2. reflexivity.
Qed.

Theorem decode_rejects_head (t : N) (bs : bytes) :
  major_const t ->
  (bs = []                                                       (* nothing to read *)
   \/ (exists b r, bs = b :: r /\ 28 <= b mod 32)                (* reserved / indefinite *)
   \/ (exists b r, bs = b :: r /\ 24 <= b mod 32 <= 27 /\
                   lenN r < 2 ^ (b mod 32 - 24))                 (* truncated head *)
   \/ (exists mt n w r, shead bs = Some (mt, n, w, r) /\ mt <> t / 32)) (* wrong major type *)
  -> decode_of_type t bs = Err.
Proof.
  intros Ht H. rewrite decode_of_type_shead by exact Ht.
  destruct H as [H|[[b [r [E H]]]|[[b [r [E [H1 H2]]]]|[mt [n [w [r [H1 H2]]]]]]]].
  - subst. reflexivity.
  - rewrite (proj2 (shead_none_iff bs)); [reflexivity|]. right. exists b, r. tauto.
  - rewrite (proj2 (shead_none_iff bs)); [reflexivity|]. right. exists b, r. tauto.
  - rewrite H1. destruct (N.eqb_spec mt (t / 32)); [contradiction|reflexivity].
Qed.

(* reserved / indefinite additional information is refused whatever type was
   asked for, even for values that are not bytes *)
Theorem decode_rejects_reserved (t b : N) (r : bytes) :
  28 <= b mod 32 -> decode_of_type t (b :: r) = Err.
Proof.
  intros H. unfold decode_of_type, decode_typed_uint, addinfo.
  replace (b mod 32 <? 24) with false by lia. replace (27 <? b mod 32) with true by lia.
  reflexivity.
Qed.

Theorem decode_rejects_wrong_type (t b : N) (r : bytes) :
  major b <> t -> decode_of_type t (b :: r) = Err.
Proof.
  intros H. unfold decode_of_type, decode_typed_uint.
  destruct (addinfo b <? 24).
  { cbn [bind]. destruct (N.eqb_spec (major b) t); [contradiction|reflexivity]. }
  destruct (27 <? addinfo b); [reflexivity|].
  destruct (splitN r (nfollow_of (addinfo b))) as [[f r']|]; [|reflexivity].
  cbn [bind]. destruct (N.eqb_spec (major b) t); [contradiction|reflexivity].
Qed.

Lemma decode_bytes_of_type_head_err (t : N) (bs : bytes) :
  decode_of_type t bs = Err -> decode_bytes_of_type t bs = Err.
Proof. intros H. unfold decode_bytes_of_type. rewrite H. reflexivity. Qed.

Theorem decode_rejects_string (t : N) (bs : bytes) (n w : N) (r : bytes) :
  major_const t -> shead bs = Some (t / 32, n, w, r) ->
  (lenN r < n \/ two63 <= n) -> decode_bytes_of_type t bs = Err.
Proof.
  intros Ht H Hbad. unfold decode_bytes_of_type.
  rewrite (decode_complete t n w bs r Ht H). cbn [bind].
  destruct (two63 <=? n) eqn:Hn; [reflexivity|].
  destruct Hbad as [Hlt|Hge]; [|lia].
  apply splitN_none_iff in Hlt. rewrite Hlt. reflexivity.
Qed.

Theorem decode_rejects_text_utf8 (bs s rest : bytes) (w : N) :
  shead bs = Some (3, lenN s, w, s ++ rest) -> ~ Utf8Valid s -> decode_text bs = Err.
Proof.
  intros H Hu. unfold decode_text, decode_bytes_of_type.
  rewrite (decode_complete MText (lenN s) w bs (s ++ rest)) by first [exact H | split; reflexivity].
  cbn [bind]. destruct (two63 <=? lenN s); [reflexivity|].
  rewrite splitN_app. cbn [bind].
  destruct (utf8_valid s) eqn:E; [|reflexivity].
  exfalso. apply Hu. apply utf8_dfa_correct. exact E.
Qed.

Theorem decode_text_head_err (bs : bytes) :
  decode_bytes_of_type MText bs = Err -> decode_text bs = Err.
Proof. intros H. unfold decode_text. rewrite H. reflexivity. Qed.

(* ---- C12 decode_never_panics -------------------------------------------- *)
Definition ok_or_err {A} (r : R A) : Prop :=
  match r with Ok _ | Err => True | Panic | Fuel => False end.

Lemma dtu_total (bs : bytes) : ok_or_err (decode_typed_uint bs).
Proof.
  unfold decode_typed_uint. destruct bs as [|b r]; [exact I|].
  destruct (addinfo b <? 24); [exact I|]. destruct (27 <? addinfo b); [exact I|].
  destruct (splitN r (nfollow_of (addinfo b))) as [[f r']|]; exact I.
Qed.

Lemma decode_of_type_total (t : N) (bs : bytes) : ok_or_err (decode_of_type t bs).
Proof.
  unfold decode_of_type. pose proof (dtu_total bs) as H.
  destruct (decode_typed_uint bs) as [[[t' n] r]| | |]; try contradiction; try exact I.
  cbn [bind]. destruct (t' =? t); exact I.
Qed.

Lemma decode_bytes_of_type_total (t : N) (bs : bytes) : ok_or_err (decode_bytes_of_type t bs).
Proof.
  unfold decode_bytes_of_type. pose proof (decode_of_type_total t bs) as H.
  destruct (decode_of_type t bs) as [[n r]| | |]; try contradiction; try exact I.
  cbn [bind]. destruct (two63 <=? n); [exact I|].
  destruct (splitN r n) as [[s r']|]; exact I.
Qed.

Lemma decode_text_total (bs : bytes) : ok_or_err (decode_text bs).
Proof.
  unfold decode_text. pose proof (decode_bytes_of_type_total MText bs) as H.
  destruct (decode_bytes_of_type MText bs) as [[s r]| | |]; try contradiction; try exact I.
  cbn [bind]. destruct (utf8_valid s); exact I.
Qed.

Theorem decode_never_panics (bs : bytes) :
  ok_or_err (decode_uint bs) /\ ok_or_err (decode_array_header bs) /\
  ok_or_err (decode_map_header bs) /\ ok_or_err (decode_bytes bs) /\
  ok_or_err (decode_text bs).
Proof.
  repeat split; try apply decode_of_type_total; try apply decode_bytes_of_type_total.
  apply decode_text_total.
Qed.

(* a successful decode never consumes more than the input and always consumes
   at least the initial byte *)
Theorem decode_consumes (t n : N) (bs rest : bytes) :
  major_const t -> decode_of_type t bs = Ok (n, rest) ->
  exists h, bs = h ++ rest /\ 1 <= lenN h <= 9.
Proof.
  intros Ht H. apply decode_sound in H; [|exact Ht]. destruct H as [w H].
  pose proof (shead_width _ _ _ _ _ H) as Hw.
  destruct (shead_consumes _ _ _ _ _ H) as [h [E L]]. exists h. split; [exact E|lia].
Qed.
