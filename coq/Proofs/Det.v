(* C13: assembly of the main statements. *)
From Coq Require Import Lia ZifyN ZifyNat ZifyBool Sorting.Sorted RelationClasses.
From WP Require Import Base.Prelude Model.Cbor Model.Det Spec.Det
  Proofs.DetLemmas Proofs.DetBasics Proofs.DetSound Proofs.DetComplete Proofs.DetEnc.
Open Scope N_scope.
Ltac Zify.zify_post_hook ::= Z.div_mod_to_equations.

(* acceptance = being a sequence of deterministic items *)
Theorem det_iff_proof bs : wfb bs -> (det_check bs = Accept <-> DetSeq bs).
Proof.
  intros W. split; [apply det_check_sound; exact W | apply det_check_complete].
Qed.

(* the fuel det_fuel bs = 2*|bs|+2 always suffices (no wfb needed) *)
Theorem det_terminates_proof bs : det_check bs <> Diverge.
Proof. apply det_check_terminates. Qed.

(* every length returned by deterministicRec is inside its input slice and >= 1 *)
Theorem det_rec_length_in_bounds_proof f input l :
  det_rec f input = Ok l -> 1 <= l <= lenN input.
Proof. apply det_rec_bounds. Qed.

(* more fuel never changes a finished answer of the top loop: the verdict does
   not depend on the particular fuel constant, as long as it is large enough *)
Theorem det_top_any_fuel_proof bs f :
  wfb bs -> (det_fuel bs <= f)%nat ->
  (det_top f 0 bs = Ok tt <-> DetSeq bs).
Proof.
  intros W Hf. split.
  - intros H. apply (det_top_sound f [] bs W H).
  - intros [items [Hall E]]. subst bs.
    apply (det_top_complete items Hall f []). unfold det_fuel in Hf. lia.
Qed.

(* "adjacent keys ascending" is the same as "all pairs of keys ascending" *)
Lemma key_lt_trans : Transitive key_lt.
Proof. intros a b c H1 H2. unfold key_lt in *. eapply bytes_cmp_lt_trans; eassumption. Qed.

Theorem KeysAscending_strongly ks : KeysAscending ks <-> StronglySorted key_lt ks.
Proof.
  split.
  - apply Sorted_StronglySorted. exact key_lt_trans.
  - apply StronglySorted_Sorted.
Qed.

(* deterministic items are prefix-free: the encoding is self-delimiting *)
Theorem DetItem_prefix_free a b : DetItem a -> DetItem (a ++ b) -> b = [].
Proof.
  intros Da Dab.
  assert (H1 : det_rec (2 * List.length (a ++ b))%nat (a ++ b) = Ok (lenN a)).
  { apply (det_rec_complete _ Da). rewrite app_length. lia. }
  assert (H2 : det_rec (2 * List.length (a ++ b))%nat ((a ++ b) ++ []) = Ok (lenN (a ++ b))).
  { apply (det_rec_complete _ Dab). lia. }
  rewrite app_nil_r in H2. rewrite H1 in H2.
  inversion H2 as [E]. rewrite lenN_app in E. apply lenN_zero_nil. lia.
Qed.

(* a truncated item is never accepted *)
Theorem truncated_item_rejected_proof item p q :
  DetItem item -> item = p ++ q -> p <> [] -> q <> [] -> det_check p = Reject.
Proof.
  intros D E Np Nq.
  assert (Wp : wfb p).
  { apply DetItem_wfb in D. rewrite E in D. apply wfb_app in D. tauto. }
  assert (NA : det_check p <> Accept).
  { intros A. apply (det_check_sound _ Wp) in A. destruct A as [items [Hall Ep]].
    destruct items as [|i1 items]; [cbn [List.concat] in Ep; contradiction|].
    inversion Hall as [|x l D1 Hall']; subst x l.
    rewrite concat_cons in Ep. subst p item. rewrite <- app_assoc in D.
    apply (DetItem_prefix_free _ _ D1) in D.
    apply app_eq_nil in D. destruct D as [_ D]. contradiction. }
  pose proof (det_check_terminates p) as ND.
  destruct (det_check p); congruence.
Qed.

(* anything that is not a sequence of deterministic items is rejected *)
Theorem not_detseq_rejected_proof bs : wfb bs -> ~ DetSeq bs -> det_check bs = Reject.
Proof.
  intros W N. pose proof (det_check_terminates bs) as ND.
  destruct (det_check bs) eqn:E; try congruence.
  exfalso. apply N. apply det_check_sound; assumption.
Qed.
