(* Proofs/CountingWriterRFGlue.v - the executable glue the correspondence harness
   runs for cw_readfrom (Run/RunBundle.v: chop32k / op_cw_readfrom) computes the
   model of Model/CountingWriterRF.v.  Kept apart from Proofs/CountingWriterRF.v
   because it is the only proof file that reads a Run/ file. *)
From Coq Require Import Lia ZifyN ZifyNat ZifyBool List NArith ZArith.
From WP Require Import Base.Prelude Proofs.BaseLemmas Model.Bundle Model.CountingWriterRF
                       Proofs.WriterFault Proofs.CountingWriterRF.
From WP Require Run.Sx Run.RunBundle.
Import ListNotations.
Open Scope N_scope.

Lemma chop32k_pieces_fuel : forall (f : nat) (c : bytes),
  c <> [] -> RunBundle.chop32k f c = pieces_fuel f c.
Proof.
  induction f as [|f IH]; intros c Hc; destruct c as [|x c]; try contradiction.
  - reflexivity.
  - cbn [RunBundle.chop32k pieces_fuel]. change 32768 with rf_buf.
    destruct (splitN (x :: c) rf_buf) as [[a b]|]; [|reflexivity].
    destruct b as [|y b].
    + rewrite pieces_fuel_nil. reflexivity.
    + rewrite IH by discriminate. reflexivity.
Qed.

(* the list of Write arguments the glue builds *)
Definition glue_pieces (chunks : list bytes) : list bytes :=
  flat_map (fun c => RunBundle.chop32k (S (N.to_nat (lenN c / 32768))) c)
           (filter (fun c => negb (match c with [] => true | _ => false end)) chunks).

Lemma glue_pieces_pieces (chunks : list bytes) : glue_pieces chunks = flat_map pieces chunks.
Proof.
  unfold glue_pieces. induction chunks as [|c cs IH]; [reflexivity|].
  destruct c as [|x c].
  - cbn [filter negb flat_map]. rewrite pieces_nil. exact IH.
  - cbn [filter negb flat_map]. rewrite IH.
    rewrite chop32k_pieces_fuel by discriminate. reflexivity.
Qed.

(* the triple the glue reports (accepted, n, ok) for source ending [srcerr] = 0 / 1 / 2 *)
Definition src_end_of (srcerr : Z) : src_end :=
  if (srcerr =? 1)%Z then SrcErr else if (srcerr =? 2)%Z then SrcDataEOF else SrcEOF.

Lemma glue_is_read_from (silent : bool) (chunks : list bytes) (d : dest) (srcerr : Z) :
  (let '(d', n, ok) := run_writes (glue_pieces chunks) d 0 in (d', n, ok && negb (srcerr =? 1)%Z))
  = read_from silent chunks (src_end_of srcerr) d.
Proof.
  rewrite read_from_is_run_writes_gen, glue_pieces_pieces.
  destruct (run_writes (flat_map pieces chunks) d 0) as [[d' n] ok].
  unfold src_end_of. destruct (srcerr =? 1)%Z; [reflexivity|].
  destruct (srcerr =? 2)%Z; reflexivity.
Qed.

(* the operation itself, on well-formed arguments *)
Lemma op_cw_readfrom_is_read_from (cs : list sx) (chunks : list bytes) (budget mode srcerr : Z) :
  Sx.omap Sx.as_b cs = Some chunks ->
  RunBundle.op_cw_readfrom [SL cs; SZ budget; SZ mode; SZ srcerr] =
  (let '(d, n, ok) := read_from false chunks (src_end_of srcerr) (RunBundle.dest_of budget mode) in
   SL [SB (d_acc d); sN n; sN n; sbool ok]).
Proof.
  intros Hcs. unfold RunBundle.op_cw_readfrom. rewrite Hcs.
  rewrite <- (glue_is_read_from false chunks (RunBundle.dest_of budget mode) srcerr).
  fold (glue_pieces chunks).
  destruct (run_writes (glue_pieces chunks) (RunBundle.dest_of budget mode) 0) as [[d n] ok].
  reflexivity.
Qed.
