(* C13, part 4: what the encoder (Model/Cbor.v) emits for unsigned integers,
   byte/text strings, arrays and maps is a DetItem -- hence accepted.       *)
From Coq Require Import Lia ZifyN ZifyNat ZifyBool Sorting.Sorted.
From WP Require Import Base.Prelude Model.Cbor Model.Det Spec.Det
  Proofs.DetLemmas Proofs.DetBasics Proofs.DetSound Proofs.DetComplete.
Open Scope N_scope.
Ltac Zify.zify_post_hook ::= Z.div_mod_to_equations.

Lemma typed_uint_Head mt n :
  mt < 8 -> n < 18446744073709551616 -> Head mt n (typed_uint (mt * 32) n).
Proof.
  intros M B. unfold typed_uint.
  destruct (N.ltb_spec n 24); [apply Head_direct; assumption|].
  destruct (N.ltb_spec n 256); [apply Head_1; assumption|].
  destruct (N.ltb_spec n 65536); [apply Head_2; assumption|].
  destruct (N.ltb_spec n 4294967296); [apply Head_4; assumption|].
  apply Head_8; assumption.
Qed.

Lemma enc_uint_det n : n < 18446744073709551616 -> DetItem (enc_uint n).
Proof. intros B. apply (DI_uint n). apply (typed_uint_Head 0 n); [reflexivity|exact B]. Qed.

Lemma enc_bytes_det s :
  wfb s -> lenN s < 18446744073709551616 -> DetItem (enc_bytes s).
Proof.
  intros W B. unfold enc_bytes, enc_bytes_of. apply DI_bytes; [|exact W].
  apply (typed_uint_Head 2); [reflexivity|exact B].
Qed.

Lemma enc_text_det s bs :
  wfb s -> lenN s < 18446744073709551616 -> enc_text s = Ok bs -> DetItem bs.
Proof.
  intros W B. unfold enc_text, enc_bytes_of. destruct (utf8_valid s); [|discriminate].
  intros H; inversion H; subst. apply DI_text; [|exact W].
  apply (typed_uint_Head 3); [reflexivity|exact B].
Qed.

(* array header for n items followed by n deterministic items *)
Lemma enc_array_det items :
  Forall DetItem items -> lenN items < 18446744073709551616 ->
  DetItem (enc_array_header (lenN items) ++ List.concat items).
Proof.
  intros Hall B. apply DI_array; [|exact Hall].
  apply (typed_uint_Head 4); [reflexivity|exact B].
Qed.

(* ---- maps: insertion sort by key, no duplicates ------------------------ *)
Lemma bytes_cmp_antisym a : forall b, bytes_cmp b a = CompOpp (bytes_cmp a b).
Proof.
  induction a as [|x a IH]; intros [|y b]; try reflexivity.
  cbn [bytes_cmp]. rewrite (N.compare_antisym x y).
  destruct (x ?= y); cbn [CompOpp]; [apply IH|reflexivity|reflexivity].
Qed.

Lemma bytes_cmp_eq a : forall b, bytes_cmp a b = Eq -> bytes_eqb a b = true.
Proof.
  induction a as [|x a IH]; intros [|y b] H; try reflexivity; try discriminate.
  cbn [bytes_cmp bytes_eqb] in *.
  destruct (N.compare_spec x y) as [E|L|G]; try discriminate.
  subst. rewrite N.eqb_refl. cbn [andb]. apply IH. exact H.
Qed.

Section Isort.
  Context {A : Type} (lt : A -> A -> bool).
  Lemma insert_Forall (P : A -> Prop) x l : P x -> Forall P l -> Forall P (insert lt x l).
  Proof.
    intros Px. induction 1 as [|y t Py Pt IH]; cbn [insert]; [repeat constructor; exact Px|].
    destruct (lt y x); constructor; try assumption. constructor; assumption.
  Qed.

  Lemma isort_Forall (P : A -> Prop) l : Forall P l -> Forall P (isort lt l).
  Proof. induction 1 as [|y t Py Pt IH]; cbn [isort]; [constructor|]. apply insert_Forall; assumption. Qed.

  Lemma lenN_insert x l : lenN (insert lt x l) = 1 + lenN l.
  Proof.
    induction l as [|y t IH]; cbn [insert]; [reflexivity|].
    destruct (lt y x); rewrite !lenN_cons; [rewrite IH|]; lia.
  Qed.

  Lemma lenN_isort l : lenN (isort lt l) = lenN l.
  Proof. induction l as [|y t IH]; cbn [isort]; [reflexivity|]. rewrite lenN_insert, lenN_cons, IH. reflexivity. Qed.

  Hypothesis lt_asym : forall a b, lt a b = true -> lt b a = false.
  Let le (a b : A) : Prop := lt b a = false.

  Lemma insert_HdRel y x t : HdRel le y t -> le y x -> HdRel le y (insert lt x t).
  Proof.
    intros Ht Hx. destruct t as [|z t]; cbn [insert]; [constructor; exact Hx|].
    destruct (lt z x); constructor; [|exact Hx]. inversion Ht; assumption.
  Qed.

  Lemma insert_Sorted x l : Sorted le l -> Sorted le (insert lt x l).
  Proof.
    induction 1 as [|y t St IH Hd]; cbn [insert]; [repeat constructor|].
    destruct (lt y x) eqn:E.
    - constructor; [exact IH|]. apply insert_HdRel; [exact Hd|]. apply lt_asym. exact E.
    - constructor; [constructor; assumption|]. constructor. exact E.
  Qed.

  Lemma isort_Sorted l : Sorted le (isort lt l).
  Proof. induction l as [|y t IH]; cbn [isort]; [constructor|]. apply insert_Sorted. exact IH. Qed.
End Isort.

Lemma entry_lt_asym a b : entry_lt a b = true -> entry_lt b a = false.
Proof.
  unfold entry_lt, bytes_ltb. rewrite (bytes_cmp_antisym (fst a) (fst b)).
  destruct (bytes_cmp (fst a) (fst b)); cbn [CompOpp]; congruence.
Qed.

Lemma sorted_nodup_strict (s : list (bytes * bytes)) :
  Sorted (fun a b => entry_lt b a = false) s -> adjacent_dup s = false ->
  KeysAscending (map fst s).
Proof.
  induction 1 as [|a t St IH Hd]; intros Hdup; [constructor|].
  destruct t as [|b t]; [repeat constructor|].
  cbn [adjacent_dup] in Hdup. apply orb_false_elim in Hdup. destruct Hdup as [Hne Hdup].
  cbn [map]. constructor; [apply IH; exact Hdup|]. constructor.
  inversion Hd as [|b' t' Hle]; subst. unfold key_lt. unfold entry_lt, bytes_ltb in Hle.
  rewrite (bytes_cmp_antisym (fst a) (fst b)) in Hle.
  destruct (bytes_cmp (fst a) (fst b)) eqn:C; cbn [CompOpp] in Hle.
  - apply bytes_cmp_eq in C. congruence.
  - reflexivity.
  - discriminate.
Qed.

Theorem enc_map_det es bs :
  Forall PairOK es -> lenN es < 18446744073709551616 ->
  enc_map es = Ok bs -> DetItem bs.
Proof.
  intros Hall B. unfold enc_map, sort_entries.
  destruct (adjacent_dup (isort entry_lt es)) eqn:Hdup; [discriminate|].
  intros H; inversion H; subst bs.
  rewrite flat_map_concat_map. rewrite <- (lenN_isort entry_lt es).
  apply (DI_map (isort entry_lt es)).
  - apply (typed_uint_Head 5); [reflexivity|]. rewrite lenN_isort. exact B.
  - apply isort_Forall. exact Hall.
  - apply sorted_nodup_strict; [|exact Hdup]. apply isort_Sorted. exact entry_lt_asym.
Qed.

(* the encoder's output is accepted *)
Corollary enc_map_accepted es bs :
  Forall PairOK es -> lenN es < 18446744073709551616 ->
  enc_map es = Ok bs -> det_check bs = Accept.
Proof.
  intros Hall B H. apply det_check_complete. exists [bs]. split.
  - constructor; [|constructor]. eapply enc_map_det; eassumption.
  - cbn [List.concat]. rewrite app_nil_r. reflexivity.
Qed.
