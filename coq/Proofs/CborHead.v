(* Proofs/CborHead.v - CBOR heads: the spec's big-endian functions agree with
   Prelude's, the spec's head decoder inverts the spec's shortest-form head
   encoder, and the model's typed_uint IS the spec's shortest-form encoder. *)
From Coq Require Import Lia ZifyN ZifyNat ZifyBool.
From WP Require Import Base.Prelude Model.Cbor Spec.Cbor Proofs.BaseLemmas.
Ltac Zify.zify_post_hook ::= Z.div_mod_to_equations.
Open Scope N_scope.

(* ---- be_val / sbe versus unbe / be -------------------------------------- *)
Lemma unbe_be_val (l : bytes) : unbe l = be_val l.
Proof.
  induction l as [|x t IH]; [reflexivity|].
  rewrite unbe_cons, IH. reflexivity.
Qed.

Lemma be_val_snoc (l : bytes) (x : N) : be_val (l ++ [x]) = be_val l * 256 + x.
Proof.
  induction l as [|a l IH]; cbn [app be_val lenN].
  - rewrite N.pow_0_r. lia.
  - rewrite IH, lenN_app. cbn [lenN].
    replace (lenN l + N.succ 0) with (N.succ (lenN l)) by lia.
    rewrite N.pow_succ_r'. lia.
Qed.

Lemma be_snoc (k : nat) : forall n, be (S k) n = be k (n / 256) ++ [n mod 256].
Proof.
  induction k as [|k IH]; intros n.
  - cbn [be app]. change (256 ^ N.of_nat 0) with 1. rewrite N.div_1_r. reflexivity.
  - change (be (S (S k)) n) with ((n / 256 ^ N.of_nat (S k)) mod 256 :: be (S k) n).
    rewrite IH. change (be (S k) (n / 256)) with
      (((n / 256) / 256 ^ N.of_nat k) mod 256 :: be k (n / 256)).
    cbn [app]. f_equal. f_equal.
    rewrite Nat2N.inj_succ, N.pow_succ_r', N.div_div; [reflexivity|discriminate|].
    apply N.pow_nonzero. discriminate.
Qed.

Lemma sbe_be (k : nat) : forall n, sbe k n = be k n.
Proof.
  induction k as [|k IH]; intros n; [reflexivity|].
  rewrite be_snoc. cbn [sbe]. rewrite IH. reflexivity.
Qed.

Lemma be_val_be_small (k : nat) (n : N) : n < 256 ^ N.of_nat k -> be_val (be k n) = n.
Proof. intros H. rewrite <- unbe_be_val. apply unbe_be_small. exact H. Qed.

(* ---- one step of shead --------------------------------------------------- *)
Lemma shead_direct (mt ai : N) (r : bytes) :
  mt < 8 -> ai < 24 -> shead ((32 * mt + ai) :: r) = Some (mt, ai, 0, r).
Proof.
  intros Hm Ha. unfold shead. cbv zeta.
  assert (E1 : (256 <=? 32 * mt + ai) = false) by lia.
  assert (E2 : (32 * mt + ai) / 32 = mt) by lia.
  assert (E3 : (32 * mt + ai) mod 32 = ai) by lia.
  rewrite E1, E2, E3.
  assert (E4 : (ai <? 24) = true) by lia. rewrite E4. reflexivity.
Qed.

Lemma shead_follow (mt ai w : N) (f r : bytes) :
  mt < 8 -> 24 <= ai <= 27 -> w = 2 ^ (ai - 24) -> lenN f = w ->
  shead ((32 * mt + ai) :: f ++ r) = Some (mt, be_val f, w, r).
Proof.
  intros Hm Hj Hw Hl. unfold shead. cbv zeta.
  assert (E1 : (256 <=? 32 * mt + ai) = false) by lia.
  assert (E2 : (32 * mt + ai) / 32 = mt) by lia.
  assert (E3 : (32 * mt + ai) mod 32 = ai) by lia.
  rewrite E1, E2, E3.
  assert (E4 : (ai <? 24) = false) by lia.
  assert (E5 : (27 <? ai) = false) by lia.
  rewrite E4, E5, <- Hw, <- Hl, splitN_app. reflexivity.
Qed.

(* the spec's liberal head decoder inverts the spec's shortest-form encoder,
   for every major type and every 64-bit argument *)
Lemma shead_senc_head (mt n : N) (r : bytes) :
  mt < 8 -> n < two64 ->
  shead (senc_head mt n ++ r) = Some (mt, n, min_width n, r).
Proof.
  intros Hm Hn. unfold senc_head, min_width.
  destruct (n <? 24) eqn:C0.
  { cbn [N.eqb app]. apply shead_direct; [exact Hm|lia]. }
  destruct (n <? 256) eqn:C1.
  { cbn [N.eqb Pos.eqb app]. rewrite sbe_be.
    rewrite (shead_follow mt 24 1 (be 1 n) r Hm) by (lia || reflexivity || (rewrite be_lenN; reflexivity)).
    rewrite be_val_be_small by (change (n < 256); lia). reflexivity. }
  destruct (n <? 65536) eqn:C2.
  { cbn [N.eqb Pos.eqb app]. rewrite sbe_be.
    rewrite (shead_follow mt 25 2 (be 2 n) r Hm) by (lia || reflexivity || (rewrite be_lenN; reflexivity)).
    rewrite be_val_be_small by (change (n < 65536); lia). reflexivity. }
  destruct (n <? 4294967296) eqn:C3.
  { cbn [N.eqb Pos.eqb app]. rewrite sbe_be.
    rewrite (shead_follow mt 26 4 (be 4 n) r Hm) by (lia || reflexivity || (rewrite be_lenN; reflexivity)).
    rewrite be_val_be_small by (change (n < 4294967296); lia). reflexivity. }
  cbn [N.eqb Pos.eqb app]. rewrite sbe_be.
  rewrite (shead_follow mt 27 8 (be 8 n) r Hm) by (lia || reflexivity || (rewrite be_lenN; reflexivity)).
  rewrite be_val_be_small by (change (n < two64); exact Hn). reflexivity.
Qed.

Lemma senc_head_nonempty (mt n : N) : senc_head mt n <> [].
Proof.
  unfold senc_head.
  destruct (min_width n =? 0); [discriminate|].
  destruct (min_width n =? 1); [discriminate|].
  destruct (min_width n =? 2); [discriminate|].
  destruct (min_width n =? 4); discriminate.
Qed.

(* ---- the model's encodeTypedUint is the shortest-form encoder ----------- *)
(* Model type constants whose names clash with the spec's token constructors *)
Notation MBytes := WP.Model.Cbor.TBytes (only parsing).
Notation MText := WP.Model.Cbor.TText (only parsing).
Notation MMap := WP.Model.Cbor.TMap (only parsing).

Lemma major_const_div (t : N) : major_const t -> t / 32 < 8 /\ 32 * (t / 32) = t.
Proof. unfold major_const. lia. Qed.

Lemma major_const_cases (t : N) :
  major_const t <-> In t [TPos; TNeg; MBytes; MText; TArray; MMap; TTag; TOther].
Proof.
  unfold major_const, TPos, TNeg, MBytes, MText, TArray, MMap, TTag, TOther. cbn [In].
  split; [|intros H; repeat (destruct H as [H|H]; [subst; split; reflexivity|]); contradiction].
  intros [H1 H2].
  assert (Hc : t = 32 * (t / 32) /\ t / 32 < 8) by lia. destruct Hc as [Hc Hq].
  assert (Hq' : t / 32 = 0 \/ t / 32 = 1 \/ t / 32 = 2 \/ t / 32 = 3 \/ t / 32 = 4
                \/ t / 32 = 5 \/ t / 32 = 6 \/ t / 32 = 7) by lia.
  lia.
Qed.

Lemma typed_uint_senc_head (t n : N) :
  major_const t -> typed_uint t n = senc_head (t / 32) n.
Proof.
  intros Ht. destruct (major_const_div t Ht) as [_ E].
  unfold typed_uint, senc_head, min_width.
  destruct (n <? 24); [cbn [N.eqb]; rewrite E; reflexivity|].
  destruct (n <? 256); [cbn [N.eqb Pos.eqb]; rewrite E, sbe_be; reflexivity|].
  destruct (n <? 65536); [cbn [N.eqb Pos.eqb]; rewrite E, sbe_be; reflexivity|].
  destruct (n <? 4294967296); cbn [N.eqb Pos.eqb]; rewrite E, sbe_be; reflexivity.
Qed.

(* C11 head_roundtrip, first half *)
Lemma head_roundtrip_shead (t n : N) (r : bytes) :
  major_const t -> n < two64 ->
  shead (typed_uint t n ++ r) = Some (t / 32, n, min_width n, r).
Proof.
  intros Ht Hn. rewrite typed_uint_senc_head by exact Ht.
  apply shead_senc_head; [apply major_const_div; exact Ht|exact Hn].
Qed.

(* C11 head_roundtrip, second half: only bytes are written *)
Lemma typed_uint_wfb (t n : N) : major_const t -> n < two64 -> wfb (typed_uint t n).
Proof.
  intros [Ht1 Ht2] Hn. unfold typed_uint, wfb.
  destruct (n <? 24) eqn:C0; [constructor; [lia|constructor]|].
  destruct (n <? 256); [constructor; [lia|apply be_wfb]|].
  destruct (n <? 65536); [constructor; [lia|apply be_wfb]|].
  destruct (n <? 4294967296); constructor; try apply be_wfb; lia.
Qed.

Lemma head_roundtrip (t n : N) (r : bytes) :
  major_const t -> n < two64 ->
  shead (typed_uint t n ++ r) = Some (t / 32, n, min_width n, r)
  /\ Forall (fun b => b < 256) (typed_uint t n).
Proof.
  intros Ht Hn. split; [apply head_roundtrip_shead|apply typed_uint_wfb]; assumption.
Qed.

Lemma typed_uint_nonempty (t n : N) : typed_uint t n <> [].
Proof.
  unfold typed_uint.
  destruct (n <? 24); [discriminate|]. destruct (n <? 256); [discriminate|].
  destruct (n <? 65536); [discriminate|]. destruct (n <? 4294967296); discriminate.
Qed.

(* EncodeInt's  uint64(-n) - 1  never wraps on the int64 range *)
Lemma enc_int_senc (z : Z) :
  (- Z.of_N two63 <= z < Z.of_N two63)%Z ->
  enc_int z = if (0 <=? z)%Z then senc_head 0 (Z.to_N z)
              else senc_head 1 (Z.to_N (-1 - z)).
Proof.
  intros Hz. unfold enc_int.
  destruct (0 <=? z)%Z eqn:Hs.
  - apply (typed_uint_senc_head TPos). split; reflexivity.
  - rewrite (typed_uint_senc_head TNeg) by (split; reflexivity).
    change (TNeg / 32) with 1. f_equal.
    unfold w64, two63, two64 in *. lia.
Qed.
