(* Proofs/SHParse.v - the list-level parsers against the grammar:
   soundness, completeness, totality (no Panic, no Fuel). *)
From Coq Require Import Lia ZifyN ZifyNat ZifyBool.
From WP Require Import Base.Prelude Base.Base64 Base.Decimal Model.StructHdr Spec.StructHdr.
From WP Require Import Proofs.SHLemmas Proofs.SHEnc Proofs.SHItem.
Ltac Zify.zify_post_hook ::= Z.div_mod_to_equations.
Open Scope N_scope.

Ltac napp := repeat (first [rewrite <- app_assoc | progress cbn [app]]).

(* ---- what follows what ---------------------------------------------------- *)
Definition stop2 (rest : bytes) : Prop :=
  match discard_ows rest with [] => True | c :: _ => c = 44 end.

Lemma stop2_stop rest : stop2 rest -> stop rest.
Proof.
  destruct rest as [|c r]; [trivial|]. unfold stop2. cbn [discard_ows stop].
  destruct ((c =? 32) || (c =? 9)) eqn:E; [lia|]. intros ->. lia.
Qed.

Lemma OWS_stop w : OWS w -> stop w.
Proof. destruct 1 as [|c w Hc _]; [exact I|]. cbn [stop]. unfold WS in Hc. lia. Qed.

Lemma OWS_sep_stop w c x : OWS w -> c = 59 \/ c = 44 -> stop (w ++ c :: x).
Proof.
  destruct 1 as [|d w Hd _]; intros Hc; cbn [app stop]; [lia|]. unfold WS in Hd. lia.
Qed.

Lemma OWS_stop2 w : OWS w -> stop2 w.
Proof. intros H. unfold stop2. rewrite (discard_ows_OWS _ H). exact I. Qed.

Lemma discard_ows_cons c r : is_ws c = false -> discard_ows (c :: r) = c :: r.
Proof. intros H. apply discard_ows_nows. exact H. Qed.

Lemma OWS_comma_stop2 w x : OWS w -> stop2 (w ++ 44 :: x).
Proof.
  intros H. unfold stop2. rewrite (discard_ows_app _ _ H), discard_ows_cons by reflexivity. reflexivity.
Qed.

Lemma params_stop r ps rest : Derives_params r ps -> stop rest -> stop (r ++ rest).
Proof.
  intros [|w1 w2 k r' ps' H1 H2 Hk Hr|w1 w2 k i v r' ps' H1 H2 Hk Hi Hr] Hst;
    [exact Hst| |]; rewrite <- app_assoc; cbn [app]; apply OWS_sep_stop; [exact H1|lia|exact H1|lia].
Qed.

Lemma Key_nows k rest : Key k -> discard_ows (k ++ rest) = k ++ rest.
Proof.
  destruct k as [|c r]; [contradiction|]. intros [Hc _]. cbn [app]. apply discard_ows_cons.
  unfold is_ws, LCALPHA in *. lia.
Qed.

Lemma Token_nows t rest : Token t -> discard_ows (t ++ rest) = t ++ rest.
Proof.
  destruct t as [|c r]; [contradiction|]. intros [Hc _]. cbn [app]. apply discard_ows_cons.
  unfold is_ws, ALPHA, LCALPHA, UCALPHA in *. lia.
Qed.

Lemma item_nows i v rest : Derives_item i v -> discard_ows (i ++ rest) = i ++ rest.
Proof.
  intros [ds n Hd Hr|ds n Hd Hr|body v' Hb|t Ht|body data Hb].
  - apply DecVal_spec in Hd. destruct Hd as (Hne & Hall & _). destruct ds as [|c ds']; [contradiction|].
    inversion Hall as [|? ? Hc _]; subst. cbn [app]. apply discard_ows_cons. unfold is_ws, DIGIT in *. lia.
  - cbn [app]. apply discard_ows_cons. reflexivity.
  - cbn [app]. apply discard_ows_cons. reflexivity.
  - apply Token_nows. exact Ht.
  - cbn [app]. apply discard_ows_cons. reflexivity.
Qed.

Lemma keys_app a b : keys (a ++ b) = keys a ++ keys b.
Proof. unfold keys. apply map_app. Qed.

Lemma NoDup_app_snoc {A} (l : list A) x : ~ In x l -> NoDup l -> NoDup (l ++ [x]).
Proof.
  intros Hn Hd. induction Hd as [|y l Hy Hd IH]; cbn [app].
  - constructor; [intros []|constructor].
  - constructor.
    + intros Hin. apply in_app_or in Hin. destruct Hin as [Hin|[E|[]]]; [contradiction|].
      subst. apply Hn. left. reflexivity.
    + apply IH. intros Hin. apply Hn. right. exact Hin.
Qed.

(* ---- parameters ------------------------------------------------------------ *)
Lemma parse_params_complete p ps : Derives_params p ps ->
  forall f acc rest, stop2 rest -> (List.length (p ++ rest) < f)%nat ->
  NoDup (keys (acc ++ ps)) ->
  parse_params f (p ++ rest) acc = Ok (acc ++ ps, discard_ows rest).
Proof.
  induction 1 as [|w1 w2 k r ps H1 H2 Hk Hr IH|w1 w2 k i v r ps H1 H2 Hk Hi Hr IH];
    intros f acc rest Hst Hlen Hnd; (destruct f as [|f]; [lia|]).
  - cbn [app parse_params]. rewrite app_nil_r. unfold stop2 in Hst.
    destruct (discard_ows rest) as [|c r]; [reflexivity|]. subst c. reflexivity.
  - assert (Hst' : stop (r ++ rest)) by (apply (params_stop _ _ _ Hr), stop2_stop, Hst).
    assert (Hhk : has_key k acc = false).
    { destruct (has_key k acc) eqn:E; [|reflexivity]. apply has_key_iff in E.
      rewrite keys_app in Hnd. cbn [keys map fst] in Hnd. apply NoDup_remove_2 in Hnd.
      exfalso. apply Hnd. apply in_or_app. left. exact E. }
    assert (Hlen' : (List.length (r ++ rest) < f)%nat).
    { revert Hlen. rewrite !app_length. cbn [List.length]. rewrite !app_length. lia. }
    assert (Hnd' : NoDup (keys ((acc ++ [(k, None)]) ++ ps))) by (rewrite <- app_assoc; exact Hnd).
    specialize (IH f (acc ++ [(k, None)]) rest Hst Hlen' Hnd').
    cbn [parse_params]. napp. rewrite (discard_ows_app _ _ H1), discard_ows_cons by reflexivity.
    change (59 =? 59) with true. cbv iota.
    rewrite (discard_ows_app _ _ H2), (Key_nows _ _ Hk).
    rewrite (parse_key_complete _ _ Hk (stop_nokey _ Hst')). cbn [bind]. rewrite Hhk.
    rewrite <- app_assoc in IH. cbn [app] in IH.
    remember (r ++ rest) as s3 eqn:Es3. destruct s3 as [|c3 r3]; [exact IH|].
    assert (E61 : (c3 =? 61) = false) by (cbn [stop] in Hst'; lia). rewrite E61. exact IH.
  - assert (Hst' : stop (r ++ rest)) by (apply (params_stop _ _ _ Hr), stop2_stop, Hst).
    assert (Hhk : has_key k acc = false).
    { destruct (has_key k acc) eqn:E; [|reflexivity]. apply has_key_iff in E.
      rewrite keys_app in Hnd. cbn [keys map fst] in Hnd. apply NoDup_remove_2 in Hnd.
      exfalso. apply Hnd. apply in_or_app. left. exact E. }
    assert (Hlen' : (List.length (r ++ rest) < f)%nat).
    { revert Hlen. rewrite !app_length. cbn [List.length]. rewrite !app_length. cbn [List.length].
      rewrite !app_length. lia. }
    assert (Hnd' : NoDup (keys ((acc ++ [(k, Some v)]) ++ ps))) by (rewrite <- app_assoc; exact Hnd).
    specialize (IH f (acc ++ [(k, Some v)]) rest Hst Hlen' Hnd').
    cbn [parse_params]. napp. rewrite (discard_ows_app _ _ H1), discard_ows_cons by reflexivity.
    change (59 =? 59) with true. cbv iota.
    rewrite (discard_ows_app _ _ H2), (Key_nows _ _ Hk).
    rewrite (parse_key_complete k (61 :: i ++ r ++ rest) Hk eq_refl). cbn [bind]. rewrite Hhk.
    change (61 =? 61) with true. cbv iota.
    rewrite (parse_item_complete _ _ _ Hi Hst'). cbn [bind].
    rewrite <- app_assoc in IH. cbn [app] in IH. exact IH.
Qed.

Lemma parse_params_sound : forall f s acc ps rest,
  parse_params f s acc = Ok (ps, rest) ->
  exists p w ps', s = p ++ w ++ rest /\ OWS w /\ Derives_params p ps' /\ ps = acc ++ ps'
                  /\ (NoDup (keys acc) -> NoDup (keys ps)).
Proof.
  induction f as [|f IH]; intros s acc ps rest H; [discriminate H|].
  cbn [parse_params] in H. destruct (discard_ows_spec s) as (w1 & Es & Hw1).
  destruct (discard_ows s) as [|c r] eqn:Es1.
  { inversion H; subst ps rest. exists [], w1, [].
    split; [exact Es|]. split; [exact Hw1|]. split; [constructor|]. split; [symmetry; apply app_nil_r|]. intros Hn; exact Hn. }
  destruct (N.eqb_spec c 59) as [E59|N59].
  2:{ inversion H; subst ps rest. exists [], w1, [].
      split; [exact Es|]. split; [exact Hw1|]. split; [constructor|]. split; [symmetry; apply app_nil_r|]. intros Hn; exact Hn. }
  subst c. destruct (discard_ows_spec r) as (w2 & Er & Hw2).
  destruct (parse_key (discard_ows r)) as [[k s3]| | |] eqn:Hpk; cbn [bind] in H; try discriminate H.
  apply parse_key_sound in Hpk. destruct Hpk as (Es2 & Hk & _).
  destruct (has_key k acc) eqn:Hhk; [discriminate H|].
  assert (Hnk : ~ In k (keys acc)).
  { intros Hin. apply has_key_iff in Hin. congruence. }
  assert (Hcase :
    (exists i v s4, s3 = 61 :: i ++ s4 /\ Derives_item i v /\
                    parse_params f s4 (acc ++ [(k, Some v)]) = Ok (ps, rest))
    \/ parse_params f s3 (acc ++ [(k, None)]) = Ok (ps, rest)).
  { destruct s3 as [|c3 r3]; [right; exact H|].
    destruct (N.eqb_spec c3 61) as [E61|N61]; [|right; exact H]. subst c3. left.
    destruct (parse_item r3) as [[v s4]| | |] eqn:Hpi; cbn [bind] in H; try discriminate H.
    apply parse_item_sound in Hpi. destruct Hpi as (i & Er3 & Hi). exists i, v, s4. subst r3.
    repeat split; assumption. }
  clear H. destruct Hcase as [(i & v & s4 & Es3 & Hi & H)|H].
  - apply IH in H. destruct H as (p & w & ps' & Es4 & Hw & Hp & Eps & Hnd).
    exists (w1 ++ 59 :: w2 ++ k ++ 61 :: i ++ p), w, ((k, Some v) :: ps').
    split; [|split; [exact Hw|split; [|split]]].
    + rewrite Es, Er, Es2, Es3, Es4. napp. reflexivity.
    + apply DPs_val; assumption.
    + rewrite Eps, <- app_assoc. reflexivity.
    + intros Hn. apply Hnd. rewrite keys_app. cbn [keys map fst].
      apply NoDup_app_snoc; assumption.
  - apply IH in H. destruct H as (p & w & ps' & Es4 & Hw & Hp & Eps & Hnd).
    exists (w1 ++ 59 :: w2 ++ k ++ p), w, ((k, None) :: ps').
    split; [|split; [exact Hw|split; [|split]]].
    + rewrite Es, Er, Es2, Es4. napp. reflexivity.
    + apply DPs_flag; assumption.
    + rewrite Eps, <- app_assoc. reflexivity.
    + intros Hn. apply Hnd. rewrite keys_app. cbn [keys map fst].
      apply NoDup_app_snoc; assumption.
Qed.

Lemma parse_key_good s : good (parse_key s).
Proof. destruct s as [|c r]; [exact I|]. cbn [parse_key]. destruct (is_lcalpha c); exact I. Qed.

Lemma parse_key_length s k rest : parse_key s = Ok (k, rest) -> (List.length rest <= List.length s)%nat.
Proof. intros H. apply parse_key_sound in H. destruct H as (E & _). subst. rewrite app_length. lia. Qed.

Lemma parse_params_good : forall f s acc, (List.length s < f)%nat -> good (parse_params f s acc).
Proof.
  induction f as [|f IH]; intros s acc Hlen; [lia|].
  cbn [parse_params]. pose proof (discard_ows_length s) as Hl1.
  destruct (discard_ows s) as [|c r]; [exact I|]. cbn [List.length] in Hl1.
  destruct (c =? 59); [|exact I].
  pose proof (discard_ows_length r) as Hl2. pose proof (parse_key_good (discard_ows r)) as Gk.
  destruct (parse_key (discard_ows r)) as [[k s3]| | |] eqn:Hpk; cbn [bind]; try exact I; try exact Gk.
  apply parse_key_length in Hpk. destruct (has_key k acc); [exact I|].
  destruct s3 as [|c3 r3]; [apply IH; cbn [List.length]; lia|]. cbn [List.length] in Hpk.
  destruct (c3 =? 61); [|apply IH; cbn [List.length]; lia].
  pose proof (parse_item_good r3) as Gi.
  destruct (parse_item r3) as [[v s4]| | |] eqn:Hpi; cbn [bind]; try exact I; try exact Gi.
  apply parse_item_length in Hpi. apply IH. lia.
Qed.

(* ---- parameterised identifier ----------------------------------------------- *)
Lemma parse_pi_complete p x rest : Derives_pi p x -> stop2 rest ->
  parse_pi (p ++ rest) = Ok (x, discard_ows rest).
Proof.
  intros [t r ps Ht Hr Hnd] Hst. unfold parse_pi. rewrite <- app_assoc.
  assert (Hst' : stop (r ++ rest)) by (apply (params_stop _ _ _ Hr), stop2_stop, Hst).
  rewrite (parse_token_complete _ _ Ht (stop_notoken _ Hst')). cbn [bind].
  rewrite (parse_params_complete _ _ Hr _ [] rest Hst (Nat.lt_succ_diag_r _) Hnd). reflexivity.
Qed.

Lemma parse_pi_sound s x rest : parse_pi s = Ok (x, rest) ->
  exists p w, s = p ++ w ++ rest /\ OWS w /\ Derives_pi p x.
Proof.
  unfold parse_pi. destruct (parse_token s) as [[t r]| | |] eqn:Ht; cbn [bind]; try discriminate.
  destruct (parse_params _ r []) as [[ps r']| | |] eqn:Hp; cbn [bind]; try discriminate.
  intros H. inversion H; subst x rest. clear H.
  apply parse_token_sound in Ht. destruct Ht as [Es Ht].
  apply parse_params_sound in Hp. destruct Hp as (p & w & ps' & Er & Hw & Hp & Eps & Hnd).
  cbn [app] in Eps. subst ps'. exists (t ++ p), w. split; [|split; [exact Hw|]].
  - rewrite Es, Er. napp. reflexivity.
  - apply DPi; [exact Ht|exact Hp|]. apply Hnd. constructor.
Qed.

Lemma parse_token_good s : good (parse_token s).
Proof. destruct s as [|c r]; [exact I|]. cbn [parse_token]. destruct (is_alpha c); exact I. Qed.

Lemma parse_pi_good s : good (parse_pi s).
Proof.
  unfold parse_pi. pose proof (parse_token_good s) as Gt.
  destruct (parse_token s) as [[t r]| | |]; cbn [bind]; try exact I; try exact Gt.
  pose proof (parse_params_good (S (List.length r)) r [] (Nat.lt_succ_diag_r _)) as Gp.
  destruct (parse_params _ r []) as [[ps r']| | |]; cbn [bind]; try exact I; exact Gp.
Qed.

Lemma parse_pi_length s x rest : parse_pi s = Ok (x, rest) -> (List.length rest < List.length s)%nat.
Proof.
  intros H. apply parse_pi_sound in H. destruct H as (p & w & E & _ & Hp). subst.
  destruct Hp as [t r ps Ht _ _]. destruct t; [contradiction|].
  rewrite !app_length. cbn [List.length]. lia.
Qed.

Lemma Derives_pi_nows p x rest : Derives_pi p x -> discard_ows (p ++ rest) = p ++ rest.
Proof. intros [t r ps Ht _ _]. rewrite <- app_assoc. apply Token_nows. exact Ht. Qed.

Lemma Derives_pi_nonempty p x rest : Derives_pi p x -> p ++ rest <> [].
Proof. intros [t r ps Ht _ _]. destruct t; [contradiction|discriminate]. Qed.

(* ---- parameterised list ------------------------------------------------------ *)
Lemma plist_loop_unfold f s acc : s <> [] ->
  parse_plist_loop (S f) s acc =
  (let* (it, r) := parse_pi s in
   let acc' := acc ++ [it] in
   let r1 := discard_ows r in
   match r1 with
   | [] => Ok (acc', r1)
   | c :: r2 => if c =? 44 then parse_plist_loop f (discard_ows r2) acc' else Err
   end).
Proof. destruct s; [contradiction|reflexivity]. Qed.

Lemma parse_plist_loop_complete r xs : Derives_plist_tail r xs ->
  forall f p x w acc, Derives_pi p x -> OWS w -> (List.length (p ++ r ++ w) < f)%nat ->
  parse_plist_loop f (p ++ r ++ w) acc = Ok (acc ++ x :: xs, []).
Proof.
  induction 1 as [|w1 w2 p' x' r' xs' H1 H2 Hp' Hr' IH]; intros f p x w acc Hp Hw Hlen;
    (destruct f as [|f]; [lia|]); rewrite plist_loop_unfold by (apply (Derives_pi_nonempty _ _ _ Hp)).
  - cbn [app]. rewrite (parse_pi_complete _ _ _ Hp (OWS_stop2 _ Hw)). cbn [bind].
    rewrite (discard_ows_OWS _ Hw). reflexivity.
  - assert (E : (w1 ++ 44 :: w2 ++ p' ++ r') ++ w = w1 ++ 44 :: w2 ++ p' ++ r' ++ w) by (napp; reflexivity).
    rewrite E. rewrite (parse_pi_complete _ _ _ Hp (OWS_comma_stop2 _ _ H1)). cbn [bind].
    rewrite (discard_ows_app _ _ H1), discard_ows_cons by reflexivity.
    cbv zeta. rewrite discard_ows_cons by reflexivity. change (44 =? 44) with true. cbv iota.
    rewrite (discard_ows_app _ _ H2), (Derives_pi_nows _ _ _ Hp').
    rewrite (IH f p' x' w (acc ++ [x]) Hp' Hw).
    + rewrite <- app_assoc. reflexivity.
    + revert Hlen. rewrite E, !app_length. cbn [List.length]. rewrite !app_length. lia.
Qed.

Lemma parse_plist_loop_sound : forall f s acc pl rest,
  parse_plist_loop f s acc = Ok (pl, rest) ->
  rest = [] /\ exists p x r xs w, s = p ++ r ++ w /\ Derives_pi p x /\ Derives_plist_tail r xs
                                  /\ OWS w /\ pl = acc ++ x :: xs.
Proof.
  induction f as [|f IH]; intros s acc pl rest H; [discriminate H|].
  destruct s as [|c0 s0]; [discriminate H|]. rewrite plist_loop_unfold in H by discriminate.
  destruct (parse_pi (c0 :: s0)) as [[it r]| | |] eqn:Hpi; cbn [bind] in H; try discriminate H.
  cbv zeta in H. apply parse_pi_sound in Hpi. destruct Hpi as (p & w & Es & Hw & Hp).
  destruct (discard_ows_spec r) as (w' & Er & Hw').
  destruct (discard_ows r) as [|c r2] eqn:Er1.
  - inversion H; subst pl rest. split; [reflexivity|].
    exists p, it, [], [], (w ++ w'). split; [|split; [exact Hp|split; [constructor|split; [apply OWS_app; assumption|reflexivity]]]].
    rewrite Es, Er. napp. rewrite ?app_nil_r. reflexivity.
  - destruct (N.eqb_spec c 44) as [E44|N44]; [|discriminate H]. subst c.
    destruct (discard_ows_spec r2) as (w2 & Er2 & Hw2).
    apply IH in H. destruct H as (Erest & p' & x' & r' & xs' & w'' & Es2 & Hp' & Hr' & Hw'' & Epl).
    split; [exact Erest|].
    exists p, it, ((w ++ w') ++ 44 :: w2 ++ p' ++ r'), (x' :: xs'), w''.
    split; [|split; [exact Hp|split; [|split; [exact Hw''|]]]].
    + rewrite Es, Er, Er2, Es2. napp. reflexivity.
    + apply DPT_cons; try assumption. apply OWS_app; assumption.
    + rewrite Epl, <- app_assoc. reflexivity.
Qed.

Lemma parse_plist_loop_good : forall f s acc, (List.length s < f)%nat -> good (parse_plist_loop f s acc).
Proof.
  induction f as [|f IH]; intros s acc Hlen; [lia|].
  destruct s as [|c0 s0]; [exact I|]. rewrite plist_loop_unfold by discriminate.
  pose proof (parse_pi_good (c0 :: s0)) as Gp.
  destruct (parse_pi (c0 :: s0)) as [[it r]| | |] eqn:Hpi; cbn [bind]; try exact I; try exact Gp.
  cbv zeta. apply parse_pi_length in Hpi. pose proof (discard_ows_length r) as Hl.
  destruct (discard_ows r) as [|c r2]; [exact I|]. cbn [List.length] in Hl.
  destruct (c =? 44); [|exact I]. apply IH. pose proof (discard_ows_length r2). lia.
Qed.

Theorem parse_plist_complete s pl : Derives_plist s pl -> parse_parameterised_list s = Ok pl.
Proof.
  intros [w0 p x r xs w1 H0 Hp Hr H1]. unfold parse_parameterised_list.
  rewrite (discard_ows_app _ _ H0), (Derives_pi_nows _ _ _ Hp).
  rewrite (parse_plist_loop_complete _ _ Hr _ p x w1 [] Hp H1 (Nat.lt_succ_diag_r _)).
  reflexivity.
Qed.

Theorem parse_plist_sound s pl : parse_parameterised_list s = Ok pl -> Derives_plist s pl.
Proof.
  unfold parse_parameterised_list. destruct (discard_ows_spec s) as (w0 & Es & H0).
  destruct (parse_plist_loop _ (discard_ows s) []) as [[pl' r]| | |] eqn:Hl; cbn [bind]; try discriminate.
  apply parse_plist_loop_sound in Hl.
  destruct Hl as (Er & p & x & r' & xs & w & Es' & Hp & Hr & Hw & Epl). subst r.
  cbn [discard_ows]. intros H. inversion H; subst pl. clear H. cbn [app] in Epl. subst pl'.
  rewrite Es, Es'. apply DPL; assumption.
Qed.

Theorem parse_plist_total s : good (parse_parameterised_list s).
Proof.
  unfold parse_parameterised_list.
  pose proof (parse_plist_loop_good (S (List.length (discard_ows s))) (discard_ows s) [] (Nat.lt_succ_diag_r _)) as G.
  destruct (parse_plist_loop _ (discard_ows s) []) as [[pl' r]| | |]; cbn [bind]; try exact I; try exact G.
  destruct (discard_ows r); exact I.
Qed.

(* ---- list of lists ------------------------------------------------------------ *)
Lemma lol_loop_unfold f s top inner : s <> [] ->
  parse_lol_loop (S f) s top inner =
  (let* (it, r) := parse_item s in
   let inner' := inner ++ [it] in
   let r1 := discard_ows r in
   match r1 with
   | [] => Ok (top ++ [inner'], r1)
   | c :: r2 =>
       if c =? 44 then parse_lol_loop f (discard_ows r2) (top ++ [inner']) []
       else if c =? 59 then parse_lol_loop f (discard_ows r2) top inner'
       else Err
   end).
Proof. destruct s; [contradiction|reflexivity]. Qed.

Lemma item_app_nonempty i v rest : Derives_item i v -> i ++ rest <> [].
Proof.
  intros H E. apply app_eq_nil in E. destruct E as [E _]. exact (Derives_item_nonempty _ _ H E).
Qed.

Lemma parse_lol_loop_complete : forall f i x r xs t ls w top inner,
  Derives_item i x -> Derives_inner_tail r xs -> Derives_lol_tail t ls -> OWS w ->
  (List.length (i ++ r ++ t ++ w) < f)%nat ->
  parse_lol_loop f (i ++ r ++ t ++ w) top inner = Ok (top ++ [inner ++ x :: xs] ++ ls, []).
Proof.
  induction f as [|f IH]; intros i x r xs t ls w top inner Hi Hr Ht Hw Hlen; [lia|].
  rewrite lol_loop_unfold by (apply (item_app_nonempty _ _ _ Hi)).
  destruct Hr as [|w1 w2 i' x' r' xs' H1 H2 Hi' Hr'].
  - destruct Ht as [|w1 w2 s' l' t' ls' H1 H2 Hs' Ht'].
    + cbn [app]. rewrite (parse_item_complete _ _ _ Hi (OWS_stop _ Hw)). cbn [bind]. cbv zeta.
      rewrite (discard_ows_OWS _ Hw). rewrite ?app_nil_r. reflexivity.
    + destruct Hs' as [i' x' r' xs' Hi' Hr'].
      assert (E : [] ++ (w1 ++ 44 :: w2 ++ (i' ++ r') ++ t') ++ w = w1 ++ 44 :: w2 ++ i' ++ r' ++ t' ++ w)
        by (napp; reflexivity).
      rewrite E. rewrite (parse_item_complete _ _ _ Hi) by (apply OWS_sep_stop; [exact H1|lia]).
      cbn [bind]. cbv zeta. rewrite (discard_ows_app _ _ H1), discard_ows_cons by reflexivity.
      change (44 =? 44) with true. cbv iota.
      rewrite (discard_ows_app _ _ H2), (item_nows _ _ _ Hi').
      rewrite (IH i' x' r' xs' t' ls' w (top ++ [inner ++ [x]]) [] Hi' Hr' Ht' Hw).
      * napp. reflexivity.
      * revert Hlen. rewrite E, !app_length. cbn [List.length]. rewrite !app_length. lia.
  - assert (E : (w1 ++ 59 :: w2 ++ i' ++ r') ++ t ++ w = w1 ++ 59 :: w2 ++ i' ++ r' ++ t ++ w)
      by (napp; reflexivity).
    rewrite E. rewrite (parse_item_complete _ _ _ Hi) by (apply OWS_sep_stop; [exact H1|lia]).
    cbn [bind]. cbv zeta. rewrite (discard_ows_app _ _ H1), discard_ows_cons by reflexivity.
    change (59 =? 44) with false. change (59 =? 59) with true. cbv iota.
    rewrite (discard_ows_app _ _ H2), (item_nows _ _ _ Hi').
    rewrite (IH i' x' r' xs' t ls w top (inner ++ [x]) Hi' Hr' Ht Hw).
    + napp. reflexivity.
    + revert Hlen. rewrite E, !app_length. cbn [List.length]. rewrite !app_length. lia.
Qed.

Lemma parse_lol_loop_sound : forall f s top inner ll rest,
  parse_lol_loop f s top inner = Ok (ll, rest) ->
  rest = [] /\ exists i x r xs t ls w,
    s = i ++ r ++ t ++ w /\ Derives_item i x /\ Derives_inner_tail r xs /\ Derives_lol_tail t ls
    /\ OWS w /\ ll = top ++ [inner ++ x :: xs] ++ ls.
Proof.
  induction f as [|f IH]; intros s top inner ll rest H; [discriminate H|].
  destruct s as [|c0 s0]; [discriminate H|]. rewrite lol_loop_unfold in H by discriminate.
  destruct (parse_item (c0 :: s0)) as [[it r0]| | |] eqn:Hpi; cbn [bind] in H; try discriminate H.
  cbv zeta in H. apply parse_item_sound in Hpi. destruct Hpi as (i & Es & Hi).
  destruct (discard_ows_spec r0) as (w' & Er & Hw').
  destruct (discard_ows r0) as [|c r2] eqn:Er1.
  - inversion H; subst ll rest. split; [reflexivity|].
    exists i, it, [], [], [], [], w'.
    split; [rewrite Es, Er; napp; rewrite ?app_nil_r; reflexivity|].
    split; [exact Hi|]. split; [constructor|]. split; [constructor|]. split; [exact Hw'|].
    rewrite app_nil_r. reflexivity.
  - destruct (discard_ows_spec r2) as (w2 & Er2 & Hw2).
    destruct (N.eqb_spec c 44) as [E44|N44].
    + subst c. apply IH in H.
      destruct H as (Erest & i' & x' & r' & xs' & t' & ls' & w'' & Es2 & Hi' & Hr' & Ht' & Hw'' & Ell).
      split; [exact Erest|].
      exists i, it, [], [], (w' ++ 44 :: w2 ++ (i' ++ r') ++ t'), ((x' :: xs') :: ls'), w''.
      split; [rewrite Es, Er, Er2, Es2; napp; reflexivity|].
      split; [exact Hi|]. split; [constructor|].
      split; [apply DLT_cons; try assumption; apply DIn; assumption|]. split; [exact Hw''|].
      rewrite Ell. napp. reflexivity.
    + destruct (N.eqb_spec c 59) as [E59|N59]; [|discriminate H].
      subst c. apply IH in H.
      destruct H as (Erest & i' & x' & r' & xs' & t' & ls' & w'' & Es2 & Hi' & Hr' & Ht' & Hw'' & Ell).
      split; [exact Erest|].
      exists i, it, (w' ++ 59 :: w2 ++ i' ++ r'), (x' :: xs'), t', ls', w''.
      split; [rewrite Es, Er, Er2, Es2; napp; reflexivity|].
      split; [exact Hi|]. split; [apply DIT_cons; assumption|].
      split; [exact Ht'|]. split; [exact Hw''|].
      rewrite Ell. napp. reflexivity.
Qed.

Lemma parse_lol_loop_good : forall f s top inner, (List.length s < f)%nat -> good (parse_lol_loop f s top inner).
Proof.
  induction f as [|f IH]; intros s top inner Hlen; [lia|].
  destruct s as [|c0 s0]; [exact I|]. rewrite lol_loop_unfold by discriminate.
  pose proof (parse_item_good (c0 :: s0)) as Gp.
  destruct (parse_item (c0 :: s0)) as [[it r]| | |] eqn:Hpi; cbn [bind]; try exact I; try exact Gp.
  cbv zeta. apply parse_item_sound in Hpi. destruct Hpi as (i & Es & Hi).
  assert (Hl0 : (List.length r < List.length (c0 :: s0))%nat).
  { rewrite Es, app_length. pose proof (Derives_item_nonempty _ _ Hi). destruct i; [contradiction|].
    cbn [List.length]. lia. }
  pose proof (discard_ows_length r) as Hl.
  destruct (discard_ows r) as [|c r2]; [exact I|]. cbn [List.length] in Hl.
  pose proof (discard_ows_length r2).
  destruct (c =? 44); [apply IH; lia|]. destruct (c =? 59); [apply IH; lia|exact I].
Qed.

Theorem parse_lol_complete s ll : Derives_lol s ll -> parse_list_of_lists s = Ok ll.
Proof.
  intros [w0 s' l r ls w1 H0 Hs Hr H1]. destruct Hs as [i x r' xs Hi Hr'].
  unfold parse_list_of_lists. rewrite (discard_ows_app _ _ H0).
  assert (E : (i ++ r') ++ r ++ w1 = i ++ r' ++ r ++ w1) by (napp; reflexivity).
  rewrite E, (item_nows _ _ _ Hi).
  rewrite (parse_lol_loop_complete _ i x r' xs r ls w1 [] [] Hi Hr' Hr H1 (Nat.lt_succ_diag_r _)).
  reflexivity.
Qed.

Theorem parse_lol_sound s ll : parse_list_of_lists s = Ok ll -> Derives_lol s ll.
Proof.
  unfold parse_list_of_lists. destruct (discard_ows_spec s) as (w0 & Es & H0).
  destruct (parse_lol_loop _ (discard_ows s) [] []) as [[ll' r]| | |] eqn:Hl; cbn [bind]; try discriminate.
  apply parse_lol_loop_sound in Hl.
  destruct Hl as (Er & i & x & r' & xs & t & ls & w & Es' & Hi & Hr & Ht & Hw & Ell). subst r.
  cbn [discard_ows]. intros H. inversion H; subst ll. clear H. cbn [app] in Ell. subst ll'.
  rewrite Es, Es'.
  assert (E : w0 ++ i ++ r' ++ t ++ w = w0 ++ (i ++ r') ++ t ++ w) by (napp; reflexivity).
  rewrite E. apply DLL; try assumption. apply DIn; assumption.
Qed.

Theorem parse_lol_total s : good (parse_list_of_lists s).
Proof.
  unfold parse_list_of_lists.
  pose proof (parse_lol_loop_good (S (List.length (discard_ows s))) (discard_ows s) [] [] (Nat.lt_succ_diag_r _)) as G.
  destruct (parse_lol_loop _ (discard_ows s) [] []) as [[pl' r]| | |]; cbn [bind]; try exact I; try exact G.
  destruct (discard_ows r); exact I.
Qed.
