(* Proofs/TotalityMice.v - C10 for the MI decoder (go/signedexchange/mice):
   parseDigestHeader, NewDecoder, Read and the ReadAll loop.

   - NewDecoder / parseDigestHeader end in Ok or Err for every input;
   - the record size announced by the stream is accepted only if it is
     <= the caller's limit, so the record buffer (record size + 32) is bounded
     by a constant of the caller, not by the input;
   - a ReadAll-style loop with any buffer size k >= 1 terminates: every Read
     that reports success strictly decreases
         |pending output| + |unread stream| + [a proof is still expected]
     so after at most |stream| + 1 successful reads the status is EOF or an
     error.  The model's fuel S (S (length stream)) is therefore never
     exhausted: [read_all] never returns with status ROk;
   - whatever the loop delivers is at most as long as the stream. *)
From Coq Require Import Lia ZifyN ZifyNat ZifyBool.
From WP Require Import Base.Prelude Base.Base64 Model.Mice.
From WP Require Import Proofs.MiceLemmas Proofs.MiceRead Proofs.TotalityBase.
Open Scope N_scope.

Theorem parse_digest_header_total (d : draft) (v : bytes) : total (parse_digest_header d v).
Proof.
  unfold parse_digest_header. destruct (split_eq v []) as [[alg dig]|]; [|apply total_Err].
  destruct (negb (bytes_eqb alg (content_encoding d))); [apply total_Err|].
  destruct (b64_decode (b64pad d) (b64url d) dig) as [p|]; [|apply total_Err].
  destruct (lenN p =? 32); [apply total_Ok|apply total_Err].
Qed.

Definition next1 (s : dec) : N := match d_next s with Some _ => 1 | None => 0 end.
(* bytes the decoder still holds: pending output + unread stream *)
Definition held (s : dec) : N := lenN (d_out s) + lenN (d_r s).
Definition measure (s : dec) : N := held s + next1 s.

Section Mice.
  Variable H : bytes -> bytes.

  Theorem new_decoder_total (d : draft) (stream digest : bytes) (maxrs : N) :
    total (new_decoder H d stream digest maxrs).
  Proof.
    unfold new_decoder. apply total_bind; [apply parse_digest_header_total|]. intros top _.
    destruct (splitN stream 8) as [[hd rest]|].
    - destruct ((unbe hd =? 0) || (maxrs <? unbe hd)); [apply total_Err|apply total_Ok].
    - destruct stream; [|apply total_Err]. destruct d; [apply total_Err|].
      destruct (validate_record H [] top true); [apply total_Ok|apply total_Err].
  Qed.

  (* what NewDecoder hands back *)
  Lemma new_decoder_inv (d : draft) (stream digest : bytes) (maxrs : N) (s0 : dec) :
    new_decoder H d stream digest maxrs = Ok s0 ->
    d_out s0 = [] /\ d_rs s0 <= maxrs /\
    ((exists hd, stream = hd ++ d_r s0 /\ lenN hd = 8 /\ d_rs s0 = unbe hd /\ 1 <= d_rs s0) \/
     (stream = [] /\ d_r s0 = [] /\ d_next s0 = None /\ d_rs s0 = 0)).
  Proof.
    unfold new_decoder. destruct (parse_digest_header d digest) as [top| | |]; cbn [bind]; try discriminate.
    destruct (splitN stream 8) as [[hd rest]|] eqn:E.
    - destruct ((unbe hd =? 0) || (maxrs <? unbe hd)) eqn:B; [discriminate|].
      intros X. inversion X; subst s0; clear X. cbn [d_out d_rs d_r d_next].
      apply splitN_Some in E. destruct E as [E1 E2].
      split; [reflexivity|]. split; [lia|]. left. exists hd. repeat split; try assumption; lia.
    - destruct stream; [|discriminate]. destruct d; [discriminate|].
      destruct (validate_record H [] top true); [|discriminate].
      intros X. inversion X; subst s0; clear X. cbn [d_out d_rs d_r d_next].
      split; [reflexivity|]. split; [lia|]. right. auto.
  Qed.

  (* the announced record size is never trusted beyond the caller's limit *)
  Theorem new_decoder_record_size_bounded (d : draft) (stream digest : bytes) (maxrs : N) (s0 : dec) :
    new_decoder H d stream digest maxrs = Ok s0 -> d_rs s0 <= maxrs.
  Proof. intros E. apply new_decoder_inv in E. tauto. Qed.

  Lemma new_decoder_measure (d : draft) (stream digest : bytes) (maxrs : N) (s0 : dec) :
    new_decoder H d stream digest maxrs = Ok s0 ->
    held s0 <= lenN stream /\ measure s0 <= lenN stream + 1.
  Proof.
    intros E. apply new_decoder_inv in E. destruct E as [Eo [_ [[hd [Es [Eh _]]]|[Es [Er [En _]]]]]];
      unfold measure, held, next1; rewrite Eo; cbn [lenN].
    - rewrite Es, lenN_app. destruct (d_next s0); lia.
    - rewrite Er, En. subst stream. cbn [lenN]. lia.
  Qed.

  (* ---- one step ---------------------------------------------------------------- *)
  Lemma deliver_measure (s : dec) (k : N) (s' : dec) (o : bytes) (st : rstat) :
    deliver s k = (s', o, st) ->
    st = ROk /\ d_r s' = d_r s /\ d_next s' = d_next s /\
    lenN (d_out s) = lenN o + lenN (d_out s') /\
    (1 <= k -> d_out s <> [] -> 1 <= lenN o).
  Proof.
    intros E. apply deliver_spec in E. destruct E as (E1 & _ & _ & E4 & E5 & E6 & E7).
    repeat split; try assumption.
    - rewrite E6, lenN_app. reflexivity.
    - intros K NE. specialize (E7 K NE). destruct o; [contradiction|cbn [lenN]; lia].
  Qed.

  Lemma rnr_measure (s : dec) (proof : bytes) (s1 : dec) (st1 : rstat) :
    read_next_record H s proof = (s1, st1) ->
    (st1 = ROk -> lenN (d_out s1) + lenN (d_r s1) + next1 s1 <= lenN (d_r s)) /\
    (st1 <> ROk -> lenN (d_out s1) + lenN (d_r s1) <= lenN (d_out s) + lenN (d_r s)).
  Proof.
    unfold read_next_record.
    destruct (splitN (d_r s) (d_rs s + 32)) as [[buf rest]|] eqn:E.
    - apply splitN_Some in E. destruct E as [E1 E2].
      destruct (validate_record H buf proof false).
      + destruct (splitN buf (d_rs s)) as [[rec np]|] eqn:E'.
        * apply splitN_Some in E'. destruct E' as [E3 E4].
          intros X. inversion X; subst s1 st1; clear X. unfold next1. cbn [d_out d_r d_next].
          split; [intros _|intros C; contradiction].
          rewrite E1, lenN_app, E2. lia.
        * intros X. inversion X; subst s1 st1; clear X. split; [discriminate|intros _; lia].
      + intros X. inversion X; subst s1 st1; clear X. cbn [d_out d_r].
        split; [discriminate|intros _]. rewrite E1, lenN_app. lia.
    - clear E. destruct (d_r s) as [|g0 gt] eqn:Eg.
      + destruct (d_enc s).
        * destruct (validate_record H [] proof true);
            intros X; inversion X; subst s1 st1; clear X; cbn [d_out d_r lenN];
            (split; [discriminate|intros _; lia]).
        * intros X. inversion X; subst s1 st1; clear X. cbn [d_out d_r lenN].
          split; [discriminate|intros _; lia].
      + destruct (d_rs s <? lenN (g0 :: gt)).
        * intros X. inversion X; subst s1 st1; clear X. cbn [d_out d_r lenN].
          split; [discriminate|intros _; lia].
        * destruct (validate_record H (g0 :: gt) proof true);
            intros X; inversion X; subst s1 st1; clear X; unfold next1; cbn [d_out d_r d_next lenN].
          -- split; [intros _; lia|intros C; contradiction].
          -- split; [discriminate|intros _; lia].
  Qed.

  (* a Read never delivers more than the decoder held, and a successful Read
     into a non-empty buffer makes progress *)
  Lemma read_measure (s : dec) (k : N) (s' : dec) (o : bytes) (st : rstat) :
    read H s k = (s', o, st) ->
    lenN o + held s' <= held s /\
    (1 <= k -> st = ROk -> measure s' < measure s).
  Proof.
    rewrite read_unfold. unfold measure, held, next1.
    destruct (d_out s) as [|c0 ct] eqn:Eo.
    - destruct (d_next s) as [proof|] eqn:En.
      + destruct (read_next_record H s proof) as [s1 st1] eqn:E1.
        apply rnr_measure in E1. destruct E1 as [A B]. rewrite Eo in B. cbn [lenN] in B |- *.
        destruct st1.
        * specialize (A eq_refl). intros E. apply deliver_measure in E.
          destruct E as (_ & Er & Enx & El & _). unfold next1 in A. rewrite Er, Enx.
          split; [lia|intros _ _; lia].
        * intros X. inversion X; subst s' o st; clear X. cbn [lenN].
          split; [apply B; discriminate|intros _ C; discriminate].
        * intros X. inversion X; subst s' o st; clear X. cbn [lenN].
          split; [apply B; discriminate|intros _ C; discriminate].
      + intros X. inversion X; subst s' o st; clear X. rewrite Eo. cbn [lenN].
        split; [lia|intros _ C; discriminate].
    - intros E. apply deliver_measure in E. destruct E as (_ & Er & Enx & El & Ep).
      rewrite Er, Enx. rewrite Eo in El, Ep. split; [lia|]. intros K _.
      specialize (Ep K ltac:(discriminate)). lia.
  Qed.

  (* ---- the loop ---------------------------------------------------------------- *)
  Lemma read_all_S (f : nat) (s : dec) (k : N) (acc : bytes) :
    read_all H (S f) s k acc =
    match read H s k with
    | (s', out, st) =>
        match st with
        | ROk => read_all H f s' k (acc ++ out)
        | _ => (acc ++ out, st)
        end
    end.
  Proof. cbn [read_all]. destruct (read H s k) as [[s' out] st]. reflexivity. Qed.

  (* enough fuel: the loop stops by itself, with EOF or an error *)
  Lemma read_all_terminates (k : N) : 1 <= k ->
    forall (f : nat) (s : dec) (acc : bytes),
      measure s < N.of_nat f -> snd (read_all H f s k acc) <> ROk.
  Proof.
    intros K. induction f as [|f IH]; intros s acc M; [lia|].
    rewrite read_all_S. destruct (read H s k) as [[s' out] st] eqn:E.
    apply read_measure in E. destruct E as [_ P].
    destruct st; cbn [snd]; try discriminate.
    apply IH. specialize (P K eq_refl). lia.
  Qed.

  (* the output is bounded by what the decoder held *)
  Lemma read_all_output (k : N) : forall (f : nat) (s : dec) (acc out : bytes) (st : rstat),
    read_all H f s k acc = (out, st) -> lenN out <= lenN acc + held s.
  Proof.
    induction f as [|f IH]; intros s acc out st E.
    - cbn [read_all] in E. inversion E; subst. lia.
    - rewrite read_all_S in E. destruct (read H s k) as [[s' o] st'] eqn:E'.
      apply read_measure in E'. destruct E' as [B _].
      destruct st'.
      + apply IH in E. rewrite lenN_app in E. lia.
      + inversion E; subst. rewrite lenN_app. lia.
      + inversion E; subst. rewrite lenN_app. lia.
  Qed.

  (* ---- decode_all = NewDecoder + ReadAll ---------------------------------------- *)
  Theorem decode_all_total (d : draft) (stream digest : bytes) (maxrs k : N) :
    total (decode_all H d stream digest maxrs k).
  Proof.
    unfold decode_all. apply total_bind; [apply new_decoder_total|]. intros s _. apply total_Ok.
  Qed.

  Theorem decode_all_loop_terminates (d : draft) (stream digest : bytes) (maxrs k : N)
      (out : bytes) (st : rstat) :
    1 <= k -> decode_all H d stream digest maxrs k = Ok (out, st) -> st = REOF \/ st = RErr.
  Proof.
    intros K. unfold decode_all.
    destruct (new_decoder H d stream digest maxrs) as [s0| | |] eqn:E; cbn [bind]; try discriminate.
    intros X.
    assert (X' : read_all H (S (S (List.length stream))) s0 k [] = (out, st)) by congruence.
    clear X. apply new_decoder_measure in E. destruct E as [_ M].
    pose proof (read_all_terminates k K (S (S (List.length stream))) s0 []) as T.
    rewrite X' in T. cbn [snd] in T.
    assert (L : measure s0 < N.of_nat (S (S (List.length stream)))).
    { rewrite lenN_length in M. lia. }
    specialize (T L). destruct st; [contradiction|left; reflexivity|right; reflexivity].
  Qed.

  (* the same for any state and any sufficient fuel (not only the model's) *)
  Theorem read_all_loop_terminates (f : nat) (s : dec) (k : N) (acc out : bytes) (st : rstat) :
    1 <= k -> measure s < N.of_nat f -> read_all H f s k acc = (out, st) -> st = REOF \/ st = RErr.
  Proof.
    intros K M E. pose proof (read_all_terminates k K f s acc M) as T. rewrite E in T. cbn [snd] in T.
    destruct st; [contradiction|left; reflexivity|right; reflexivity].
  Qed.

  Theorem decode_all_output_bounded (d : draft) (stream digest : bytes) (maxrs k : N)
      (out : bytes) (st : rstat) :
    decode_all H d stream digest maxrs k = Ok (out, st) -> lenN out <= lenN stream.
  Proof.
    unfold decode_all.
    destruct (new_decoder H d stream digest maxrs) as [s0| | |] eqn:E; cbn [bind]; try discriminate.
    intros X.
    assert (X' : read_all H (S (S (List.length stream))) s0 k [] = (out, st)) by congruence.
    clear X. apply new_decoder_measure in E. destruct E as [B _].
    apply read_all_output in X'. cbn [lenN] in X'. lia.
  Qed.

  Theorem read_trace_output_bounded : forall (sizes : list N) (s : dec) (acc out : bytes) (st : rstat),
    read_trace H s sizes acc = (out, st) -> lenN out <= lenN acc + held s.
  Proof.
    induction sizes as [|k t IH]; intros s acc out st E.
    - cbn [read_trace] in E. inversion E; subst. lia.
    - rewrite read_trace_cons in E. destruct (read H s k) as [[s' o] st'] eqn:E'.
      apply read_measure in E'. destruct E' as [B _].
      destruct st'.
      + apply IH in E. rewrite lenN_app in E. lia.
      + inversion E; subst. rewrite lenN_app. lia.
      + inversion E; subst. rewrite lenN_app. lia.
  Qed.
End Mice.

(* k = 0 is excluded for a reason: Read into an empty buffer returns (0, nil)
   without progress, as in Go; ReadAll never passes one. *)
Example read_empty_buffer_no_progress :
  let s := {| d_enc := D03; d_rs := 4; d_r := []; d_next := None; d_out := [1; 2] |} in
  read (fun _ => []) s 0 = (s, [], ROk).
Proof. reflexivity. Qed.
