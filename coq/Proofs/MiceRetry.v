(* C15, callers that keep calling Read after an error or after end of stream.

   [read_trace] (Model/Mice.v) stops at the first status other than ROk, so
   the theorems of MiceCommit.v / MiceAuth.v say nothing about what a second
   Read returns after a failed one.  Here the history is ARBITRARY: every call
   is made on the state left behind by the previous one, whatever its status.

   The invariant is the one of MiceCommit.v ([SafeInv]: the bytes handed out
   plus the buffered ones are exactly the records consumed so far, and the
   pending proof commits to the remaining records, None iff nothing remains).
   What is new is that it is shown to be preserved by [read] in ALL THREE
   outcomes.  On RErr the model (like the Go code: readNextRecord returns
   before touching d.out / d.nextProof) keeps d_out and d_next and only
   consumes input; that is exactly what makes the statement true.

   As everywhere in C15 nothing is assumed about the hash: conclusions are
   "... \/ Collision H". *)
From Coq Require Import Lia ZifyN ZifyNat ZifyBool.
From WP Require Import Base.Prelude Base.Base64 Model.Mice Spec.Mice
  Proofs.MiceLemmas Proofs.MiceEncode Proofs.MiceRead Proofs.MiceCommit
  Proofs.MiceDecode Proofs.MiceAuth.
Open Scope N_scope.

(* all bytes handed out by a list of calls *)
Definition delivered (calls : list (bytes * rstat)) : bytes :=
  List.concat (map fst calls).

(* what read_trace reports, computed from the list of all calls: accumulate
   up to and including the first call whose status is not ROk *)
Fixpoint trace_of (calls : list (bytes * rstat)) (acc : bytes) : bytes * rstat :=
  match calls with
  | [] => (acc, ROk)
  | (o, ROk) :: t => trace_of t (acc ++ o)
  | (o, st) :: _ => (acc ++ o, st)
  end.

Section Retry.
  Variable H : bytes -> bytes.

  (* every call's delivered bytes and status; never stops, the state returned
     by [read] is threaded whatever the status *)
  Fixpoint read_all_calls (s : dec) (sizes : list N) : list (bytes * rstat) :=
    match sizes with
    | [] => []
    | k :: t =>
        let '(s', o, st) := read H s k in
        (o, st) :: read_all_calls s' t
    end.

  Lemma read_all_calls_cons s k t :
    read_all_calls s (k :: t) =
    match read H s k with (s', o, st) => (o, st) :: read_all_calls s' t end.
  Proof. cbn [read_all_calls]. destruct (read H s k) as [[s' o] st]. reflexivity. Qed.

  Lemma read_all_calls_length s sizes :
    List.length (read_all_calls s sizes) = List.length sizes.
  Proof.
    revert s. induction sizes as [|k t IH]; intros s; [reflexivity|].
    rewrite read_all_calls_cons. destruct (read H s k) as [[s' o] st].
    cbn [List.length]. rewrite IH. reflexivity.
  Qed.

  Lemma delivered_cons o st (calls : list (bytes * rstat)) :
    delivered ((o, st) :: calls) = o ++ delivered calls.
  Proof. reflexivity. Qed.

  Lemma delivered_app (a b : list (bytes * rstat)) :
    delivered (a ++ b) = delivered a ++ delivered b.
  Proof. unfold delivered. rewrite map_app, concat_app. reflexivity. Qed.

  (* read_trace is the "up to the first stop" view of read_all_calls: the new
     definition extends the old one conservatively *)
  Lemma read_trace_calls : forall sizes s acc,
    read_trace H s sizes acc = trace_of (read_all_calls s sizes) acc.
  Proof.
    induction sizes as [|k t IH]; intros s acc; [reflexivity|].
    rewrite read_trace_cons, read_all_calls_cons.
    destruct (read H s k) as [[s' o] st]. cbn [trace_of].
    destruct st; [apply IH|reflexivity|reflexivity].
  Qed.

  (* ---- facts about one call that hold in ANY state, for ANY hash -------- *)
  Lemma rnr_eof_state s proof s' :
    read_next_record H s proof = (s', REOF) -> d_out s' = [] /\ d_next s' = None.
  Proof.
    unfold read_next_record. intros R.
    destruct (splitN (d_r s) (d_rs s + 32)) as [[buf rest]|].
    - destruct (validate_record H buf proof false).
      + destruct (splitN buf (d_rs s)) as [[rec np]|]; discriminate.
      + discriminate.
    - destruct (d_r s) as [|g got].
      + destruct (d_enc s); [|discriminate].
        destruct (validate_record H [] proof true); [|discriminate].
        inversion R. split; reflexivity.
      + destruct (d_rs s <? lenN (g :: got)); [discriminate|].
        destruct (validate_record H (g :: got) proof true); discriminate.
  Qed.

  (* a call that does not succeed hands out nothing *)
  Lemma read_not_ok_empty s k s' o st :
    read H s k = (s', o, st) -> st <> ROk -> o = [].
  Proof.
    intros R NE. rewrite read_unfold in R.
    destruct (d_out s) as [|b bs] eqn:Eo.
    - destruct (d_next s) as [proof|].
      + destruct (read_next_record H s proof) as [s1 st1].
        destruct st1.
        * apply deliver_spec in R as (D0 & _). congruence.
        * inversion R. reflexivity.
        * inversion R. reflexivity.
      + inversion R. reflexivity.
    - apply deliver_spec in R as (D0 & _). congruence.
  Qed.

  (* after a call that reports EOF the decoder is in the terminal state *)
  Lemma read_eof_state s k s' o :
    read H s k = (s', o, REOF) -> o = [] /\ d_out s' = [] /\ d_next s' = None.
  Proof.
    intros R. split; [apply (read_not_ok_empty _ _ _ _ _ R); discriminate|].
    rewrite read_unfold in R.
    destruct (d_out s) as [|b bs] eqn:Eo.
    - destruct (d_next s) as [proof|] eqn:En.
      + destruct (read_next_record H s proof) as [s1 st1] eqn:Rn.
        destruct st1.
        * apply deliver_spec in R as (D0 & _). discriminate.
        * inversion R; subst s1. exact (rnr_eof_state _ _ _ Rn).
        * discriminate.
      + inversion R; subst s'. split; assumption.
    - apply deliver_spec in R as (D0 & _). discriminate.
  Qed.

  (* the terminal state is absorbing *)
  Lemma terminal_absorbing : forall sizes s,
    d_out s = [] -> d_next s = None ->
    read_all_calls s sizes = map (fun _ => ([], REOF)) sizes.
  Proof.
    induction sizes as [|k t IH]; intros s Eo En; [reflexivity|].
    rewrite read_all_calls_cons, read_unfold, Eo, En. cbn [map].
    rewrite (IH s Eo En). reflexivity.
  Qed.

  (* 3(a).  For every decoder state whatsoever (reachable or not), every hash:
     once a call has returned EOF, every later call returns no bytes and EOF;
     the EOF call itself returns no bytes either.  Draft 02 included: its
     "empty final record" path sets nextProof = nil before returning io.EOF. *)
  Theorem after_eof_only_eof : forall sizes s i j o x,
    nth_error (read_all_calls s sizes) i = Some (o, REOF) ->
    (i <= j)%nat -> nth_error (read_all_calls s sizes) j = Some x ->
    x = ([], REOF).
  Proof.
    induction sizes as [|k t IH]; intros s i j o x Ni Le Nj.
    - destruct i; discriminate.
    - rewrite read_all_calls_cons in Ni, Nj.
      destruct (read H s k) as [[s1 o1] st1] eqn:R.
      destruct i as [|i'].
      + cbn [nth_error] in Ni. inversion Ni; subst o1 st1.
        destruct (read_eof_state _ _ _ _ R) as (E1 & E2 & E3). subst o.
        destruct j as [|j'].
        * cbn [nth_error] in Nj. inversion Nj. reflexivity.
        * cbn [nth_error] in Nj. rewrite (terminal_absorbing t s1 E2 E3) in Nj.
          apply nth_error_In in Nj. apply in_map_iff in Nj as (y & Y & _). symmetry. exact Y.
      + destruct j as [|j']; [lia|]. cbn [nth_error] in Ni, Nj.
        apply (IH s1 i' j' o x Ni); [lia|exact Nj].
  Qed.

  (* ---- the invariant is preserved by every outcome ----------------------- *)
  Lemma safe_transfer recs s s' acc :
    SafeInv H recs s acc -> d_out s' = d_out s -> d_next s' = d_next s ->
    SafeInv H recs s' acc.
  Proof.
    intros (done & suf & E1 & E2 & E3) Xo Xn. exists done, suf.
    rewrite Xo, Xn. auto.
  Qed.

  (* readNextRecord, started with an empty output buffer: ROk, REOF and RErr
     all leave a state satisfying the invariant (same bytes handed out) *)
  Lemma rnr_safe_all recs s acc proof s' st :
    SafeInv H recs s acc -> d_out s = [] -> d_next s = Some proof ->
    read_next_record H s proof = (s', st) ->
    Collision H \/
    (SafeInv H recs s' acc /\ (st = REOF -> acc = List.concat recs)).
  Proof.
    intros Inv Eo En R.
    (* ROk and REOF: what MiceCommit.rnr_safe already gives, plus the state
       of the REOF branch *)
    destruct (rnr_safe H _ _ _ _ _ _ Inv Eo En R) as [X|X]; [left; exact X|].
    destruct st.
    - right. split; [exact X|discriminate].
    - right. split; [|intros _; exact X].
      destruct (rnr_eof_state _ _ _ R) as [Xo Xn].
      destruct Inv as (done & suf & E1 & E2 & E3).
      exists recs, []. rewrite Xo, Xn, !app_nil_r. auto.
    - (* RErr: d_out and d_next are those of s *)
      right. split; [|discriminate].
      apply (safe_transfer _ s _ _ Inv).
      + unfold read_next_record in R.
        destruct (splitN (d_r s) (d_rs s + 32)) as [[buf rest]|].
        * destruct (validate_record H buf proof false).
          -- destruct (splitN buf (d_rs s)) as [[rec np]|]; [discriminate|].
             inversion R; reflexivity.
          -- inversion R; reflexivity.
        * destruct (d_r s) as [|g got].
          -- destruct (d_enc s).
             ++ destruct (validate_record H [] proof true); [discriminate|].
                inversion R; reflexivity.
             ++ inversion R; reflexivity.
          -- destruct (d_rs s <? lenN (g :: got)); [inversion R; reflexivity|].
             destruct (validate_record H (g :: got) proof true); [discriminate|].
             inversion R; reflexivity.
      + unfold read_next_record in R.
        destruct (splitN (d_r s) (d_rs s + 32)) as [[buf rest]|].
        * destruct (validate_record H buf proof false).
          -- destruct (splitN buf (d_rs s)) as [[rec np]|]; [discriminate|].
             inversion R; reflexivity.
          -- inversion R; reflexivity.
        * destruct (d_r s) as [|g got].
          -- destruct (d_enc s).
             ++ destruct (validate_record H [] proof true); [discriminate|].
                inversion R; reflexivity.
             ++ inversion R; reflexivity.
          -- destruct (d_rs s <? lenN (g :: got)); [inversion R; reflexivity|].
             destruct (validate_record H (g :: got) proof true); [discriminate|].
             inversion R; reflexivity.
  Qed.

  (* one Read call, whatever its status *)
  Lemma read_safe_all recs s acc k s' o st :
    SafeInv H recs s acc -> read H s k = (s', o, st) ->
    Collision H \/
    (SafeInv H recs s' (acc ++ o) /\ (st = REOF -> acc ++ o = List.concat recs)).
  Proof.
    intros Inv R. rewrite read_unfold in R.
    destruct (d_out s) as [|b bs] eqn:Eo.
    - destruct (d_next s) as [proof|] eqn:En.
      + destruct (read_next_record H s proof) as [s1 st1] eqn:Rn.
        destruct (rnr_safe_all _ _ _ _ _ _ Inv Eo En Rn) as [X|[X1 X2]]; [left; exact X|].
        destruct st1.
        * destruct (deliver_safe H _ _ _ _ _ _ _ X1 R) as [D0 D1]. subst st.
          right. split; [exact D1|discriminate].
        * inversion R as [[R1 R2 R3]]; subst s' o st. right. rewrite app_nil_r.
          split; [exact X1|exact X2].
        * inversion R as [[R1 R2 R3]]; subst s' o st. right. rewrite app_nil_r.
          split; [exact X1|discriminate].
      + inversion R as [[R1 R2 R3]]; subst s' o st. right. rewrite app_nil_r.
        split; [exact Inv|intros _].
        destruct Inv as (done & suf & E1 & E2 & E3). rewrite En in E3. subst suf.
        rewrite Eo, app_nil_r in E2. rewrite E1, app_nil_r. exact E2.
    - destruct (deliver_safe H _ _ _ _ _ _ _ Inv R) as [D0 D1]. subst st.
      right. split; [exact D1|discriminate].
  Qed.

  (* any history of calls, from any state satisfying the invariant *)
  Lemma calls_safe recs : forall sizes s acc,
    SafeInv H recs s acc ->
    Collision H \/
    ((exists rest, List.concat recs = acc ++ delivered (read_all_calls s sizes) ++ rest) /\
     (forall i o, nth_error (read_all_calls s sizes) i = Some (o, REOF) ->
        acc ++ delivered (firstn (S i) (read_all_calls s sizes)) = List.concat recs)).
  Proof.
    induction sizes as [|k t IH]; intros s acc Inv.
    - right. cbn [read_all_calls]. split.
      + destruct (safe_prefix H _ _ _ Inv) as [rest E]. exists rest. exact E.
      + intros i o N. destruct i; discriminate.
    - rewrite read_all_calls_cons.
      destruct (read H s k) as [[s1 o1] st1] eqn:R.
      destruct (read_safe_all _ _ _ _ _ _ _ Inv R) as [X|[X1 X2]]; [left; exact X|].
      destruct (IH s1 (acc ++ o1) X1) as [Y|[[rest Y1] Y2]]; [left; exact Y|].
      right. split.
      + exists rest. rewrite delivered_cons, Y1, <- !app_assoc. reflexivity.
      + intros i o N. destruct i as [|i'].
        * cbn [nth_error] in N. inversion N; subst o1 st1.
          cbn [firstn]. rewrite delivered_cons. unfold delivered at 1.
          cbn [map List.concat]. rewrite app_nil_r. exact (X2 eq_refl).
        * cbn [nth_error] in N. specialize (Y2 i' o N).
          change (firstn (S (S i')) ((o1, st1) :: read_all_calls s1 t))
            with ((o1, st1) :: firstn (S i') (read_all_calls s1 t)).
          rewrite delivered_cons, app_assoc. exact Y2.
  Qed.

  (* 2.  MAIN: any stream, any header string, any limit, any history of Read
     calls that does NOT stop at errors or at EOF.  All bytes ever delivered,
     across errors, form a prefix of the committed payload; a clean EOF at
     any point only after the complete payload. *)
  Theorem reads_after_error_only_committed d s dg maxrs sizes recs top s0 :
    parse_digest_header d dg = Ok top -> Commits H top recs ->
    new_decoder H d s dg maxrs = Ok s0 ->
    let calls := read_all_calls s0 sizes in
    ((exists rest, List.concat recs = delivered calls ++ rest) /\
     (forall i o, nth_error calls i = Some (o, REOF) ->
        delivered (firstn (S i) calls) = List.concat recs))
    \/ Collision H.
  Proof.
    intros P C N calls.
    destruct (new_decoder_safe H _ _ _ _ _ _ _ P C N) as [Inv|X]; [|right; exact X].
    destruct (calls_safe recs sizes s0 [] Inv) as [X|X]; [right; exact X|left; exact X].
  Qed.

  (* 3(b).  Readability corollary: a failed call hands out nothing, and the
     bytes delivered by the calls AFTER it still continue the committed
     payload exactly where the calls before it stopped. *)
  Theorem error_then_no_progress_unless_authentic d s dg maxrs sizes recs top s0 :
    parse_digest_header d dg = Ok top -> Commits H top recs ->
    new_decoder H d s dg maxrs = Ok s0 ->
    forall pre o post,
      read_all_calls s0 sizes = pre ++ (o, RErr) :: post ->
      o = [] /\
      ((exists rest, List.concat recs = delivered pre ++ delivered post ++ rest)
       \/ Collision H).
  Proof.
    intros P C N pre o post E.
    assert (Eo : o = []).
    { clear P C N. revert s0 pre E.
      induction sizes as [|k t IH]; intros s1 pre E.
      - destruct pre; discriminate.
      - rewrite read_all_calls_cons in E.
        destruct (read H s1 k) as [[s2 o2] st2] eqn:R.
        destruct pre as [|c pre'].
        + cbn [app] in E. inversion E; subst o2 st2.
          apply (read_not_ok_empty _ _ _ _ _ R). discriminate.
        + cbn [app] in E. inversion E as [[E1 E2]]. exact (IH _ _ E2). }
    split; [exact Eo|].
    destruct (reads_after_error_only_committed _ _ _ _ sizes _ _ _ P C N) as [[[rest X] _]|X];
      [left|right; exact X].
    exists rest. rewrite E, delivered_app, delivered_cons, Eo in X.
    cbn [app] in X. rewrite <- app_assoc in X. exact X.
  Qed.

  (* 3(c).  Honest encoder: the header is the one produced for payload p. *)
  Hypothesis Hlen : forall x, List.length (H x) = 32%nat.
  Hypothesis Hwf : forall x, wfb (H x).

  Theorem reads_after_error_authentic d rs p s maxrs sizes s0 :
    1 <= rs ->
    new_decoder H d s (digest_header H d rs p) maxrs = Ok s0 ->
    let calls := read_all_calls s0 sizes in
    ((exists rest, p = delivered calls ++ rest) /\
     (forall i o, nth_error calls i = Some (o, REOF) ->
        delivered (firstn (S i) calls) = p))
    \/ Collision H.
  Proof.
    intros Hrs N0.
    destruct (digest_commits_payload H Hlen d rs p Hrs) as (recs & C & Cc).
    rewrite <- Cc.
    exact (reads_after_error_only_committed _ _ _ _ sizes _ _ _
             (parse_digest_header_honest H Hlen Hwf d rs p) C N0).
  Qed.
End Retry.
