(* Proofs/TotalityBundleSig.v - C10 for go/bundle/signature/verifier.go:
   decodeSignedSubset, verifyVouchedSubset, NewVerifier, and the calls
   VerifyExchange makes.

   Fuel sufficiency: every iteration of dec_hash_pairs / dec_subset_hashes /
   dec_subset_fields either fails or consumes at least one byte of the input
   (each starts with a CBOR head), so a loop given fuel > |input| never runs
   out, whatever count the input declares.  The index panic of
   verifyVouchedSubset (auths[authority]) is unreachable after the bounds
   check. *)
From Coq Require Import Lia ZifyN ZifyNat ZifyBool.
From WP Require Import Base.Prelude Model.Cbor Model.Http Model.Url Model.Mice Model.CertChain
  Model.Bundle Model.Sxg Model.BundleSig.
From WP Require Import Spec.Cbor.
From WP Require Import Proofs.BaseLemmas Proofs.CborHead Proofs.CborMap Proofs.CborDecode
  Proofs.CertChainRead Proofs.BundleSigRoundtrip Proofs.TotalityBase Proofs.TotalityMice.
Open Scope N_scope.

Lemma mc_array : major_const TArray. Proof. split; reflexivity. Qed.
Lemma mc_map : major_const MMap. Proof. split; reflexivity. Qed.
Lemma mc_pos : major_const TPos. Proof. split; reflexivity. Qed.

Lemma decode_uint_total (bs : bytes) : ok_or_err (decode_uint bs).
Proof. apply decode_of_type_total. Qed.
Lemma decode_array_header_total (bs : bytes) : ok_or_err (decode_array_header bs).
Proof. apply decode_of_type_total. Qed.
Lemma decode_map_header_total (bs : bytes) : ok_or_err (decode_map_header bs).
Proof. apply decode_of_type_total. Qed.
Lemma decode_bytes_total (bs : bytes) : ok_or_err (decode_bytes bs).
Proof. apply decode_bytes_of_type_total. Qed.

Lemma decode_uint_shrinks (bs : bytes) (n : N) (r : bytes) :
  decode_uint bs = Ok (n, r) -> (List.length r < List.length bs)%nat.
Proof. apply decode_of_type_shrinks. exact mc_pos. Qed.
Lemma decode_array_header_shrinks (bs : bytes) (n : N) (r : bytes) :
  decode_array_header bs = Ok (n, r) -> (List.length r < List.length bs)%nat.
Proof. apply decode_of_type_shrinks. exact mc_array. Qed.
Lemma decode_map_header_shrinks (bs : bytes) (n : N) (r : bytes) :
  decode_map_header bs = Ok (n, r) -> (List.length r < List.length bs)%nat.
Proof. apply decode_of_type_shrinks. exact mc_map. Qed.

(* ---- the (hash, integrity) pairs of one URL ---------------------------------- *)
Lemma dec_hash_pairs_total : forall (fuel : nat) (k : N) (bs : bytes) (acc : list res_integrity),
  (List.length bs < fuel)%nat -> ok_or_err (dec_hash_pairs fuel k bs acc).
Proof.
  induction fuel as [|f IH]; intros k bs acc Hf; [lia|].
  rewrite dec_hash_pairs_S. destruct (k =? 0); [exact I|].
  pose proof (decode_bytes_total bs) as T1.
  destruct (decode_bytes bs) as [[h r1]| | |] eqn:E1; cbn [bind]; try exact T1.
  pose proof (decode_text_total r1) as T2.
  destruct (decode_text r1) as [[i r2]| | |] eqn:E2; cbn [bind]; try exact T2.
  apply IH. apply decode_bytes_shrinks in E1. apply decode_text_shrinks in E2. lia.
Qed.

Lemma dec_hash_pairs_len : forall (fuel : nat) (k : N) (bs : bytes) (acc l : list res_integrity) (r : bytes),
  dec_hash_pairs fuel k bs acc = Ok (l, r) -> (List.length r <= List.length bs)%nat.
Proof.
  induction fuel as [|f IH]; intros k bs acc l r E; [discriminate|].
  rewrite dec_hash_pairs_S in E. destruct (k =? 0).
  - inversion E; subst. lia.
  - destruct (decode_bytes bs) as [[h r1]| | |] eqn:E1; cbn [bind] in E; try discriminate.
    destruct (decode_text r1) as [[i r2]| | |] eqn:E2; cbn [bind] in E; try discriminate.
    apply IH in E. apply decode_bytes_shrinks in E1. apply decode_text_shrinks in E2. lia.
Qed.

(* ---- subset-hashes -------------------------------------------------------------- *)
Lemma dec_subset_hashes_total : forall (fuel : nat) (n : N) (bs : bytes) (acc : list hentry),
  (List.length bs < fuel)%nat -> ok_or_err (dec_subset_hashes fuel n bs acc).
Proof.
  induction fuel as [|f IH]; intros n bs acc Hf; [lia|].
  rewrite dec_subset_hashes_S. destruct (n =? 0); [exact I|].
  pose proof (decode_text_total bs) as T1.
  destruct (decode_text bs) as [[u r1]| | |] eqn:E1; cbn [bind]; try exact T1.
  pose proof (decode_array_header_total r1) as T2.
  destruct (decode_array_header r1) as [[m r2]| | |] eqn:E2; cbn [bind]; try exact T2.
  destruct ((m <? 3) || N.even m); [exact I|].
  pose proof (decode_bytes_total r2) as T3.
  destruct (decode_bytes r2) as [[vv r3]| | |] eqn:E3; cbn [bind]; try exact T3.
  pose proof (dec_hash_pairs_total (S (List.length r3)) ((m - 1) / 2) r3 [] (Nat.lt_succ_diag_r _)) as T4.
  destruct (dec_hash_pairs (S (List.length r3)) ((m - 1) / 2) r3 []) as [[hs r4]| | |] eqn:E4;
    cbn [bind]; try exact T4.
  apply IH. apply decode_text_shrinks in E1. apply decode_array_header_shrinks in E2.
  apply decode_bytes_shrinks in E3. apply dec_hash_pairs_len in E4. lia.
Qed.

Lemma dec_subset_hashes_len : forall (fuel : nat) (n : N) (bs : bytes) (acc l : list hentry) (r : bytes),
  dec_subset_hashes fuel n bs acc = Ok (l, r) -> (List.length r <= List.length bs)%nat.
Proof.
  induction fuel as [|f IH]; intros n bs acc l r E; [discriminate|].
  rewrite dec_subset_hashes_S in E. destruct (n =? 0).
  - inversion E; subst. lia.
  - destruct (decode_text bs) as [[u r1]| | |] eqn:E1; cbn [bind] in E; try discriminate.
    destruct (decode_array_header r1) as [[m r2]| | |] eqn:E2; cbn [bind] in E; try discriminate.
    destruct ((m <? 3) || N.even m); [discriminate|].
    destruct (decode_bytes r2) as [[vv r3]| | |] eqn:E3; cbn [bind] in E; try discriminate.
    destruct (dec_hash_pairs (S (List.length r3)) ((m - 1) / 2) r3 []) as [[hs r4]| | |] eqn:E4;
      cbn [bind] in E; try discriminate.
    apply IH in E. apply decode_text_shrinks in E1. apply decode_array_header_shrinks in E2.
    apply decode_bytes_shrinks in E3. apply dec_hash_pairs_len in E4. lia.
Qed.

(* ---- the five top-level fields -------------------------------------------------- *)
Lemma dec_subset_fields_total : forall (fuel : nat) (n : N) (bs : bytes) (a : ss_acc),
  (List.length bs < fuel)%nat -> ok_or_err (dec_subset_fields fuel n bs a).
Proof.
  induction fuel as [|f IH]; intros n bs a Hf; [lia|].
  cbn [dec_subset_fields]. destruct (n =? 0); [exact I|].
  pose proof (decode_text_total bs) as T1.
  destruct (decode_text bs) as [[label r]| | |] eqn:E1; cbn [bind]; try exact T1.
  apply decode_text_shrinks in E1.
  destruct (bytes_eqb label (s2b "validity-url")).
  { pose proof (decode_text_total r) as T2.
    destruct (decode_text r) as [[u r']| | |] eqn:E2; cbn [bind]; try exact T2.
    apply decode_text_shrinks in E2.
    destruct (url_parse u); try exact I; apply IH; lia. }
  destruct (bytes_eqb label (s2b "auth-sha256")).
  { pose proof (decode_bytes_total r) as T2.
    destruct (decode_bytes r) as [[b r']| | |] eqn:E2; cbn [bind]; try exact T2.
    apply decode_bytes_shrinks in E2. apply IH; lia. }
  destruct (bytes_eqb label (s2b "date")).
  { pose proof (decode_uint_total r) as T2.
    destruct (decode_uint r) as [[d r']| | |] eqn:E2; cbn [bind]; try exact T2.
    apply decode_uint_shrinks in E2. apply IH; lia. }
  destruct (bytes_eqb label (s2b "expires")).
  { pose proof (decode_uint_total r) as T2.
    destruct (decode_uint r) as [[d r']| | |] eqn:E2; cbn [bind]; try exact T2.
    apply decode_uint_shrinks in E2. apply IH; lia. }
  destruct (bytes_eqb label (s2b "subset-hashes")); [|exact I].
  pose proof (decode_map_header_total r) as T2.
  destruct (decode_map_header r) as [[m r0]| | |] eqn:E2; cbn [bind]; try exact T2.
  apply decode_map_header_shrinks in E2.
  pose proof (dec_subset_hashes_total (S (List.length r0)) m r0 [] (Nat.lt_succ_diag_r _)) as T3.
  unfold hentry in T3.
  destruct (dec_subset_hashes (S (List.length r0)) m r0 []) as [[hs r']| | |] eqn:E3;
    cbn [bind]; try exact T3.
  apply dec_subset_hashes_len in E3. apply IH; lia.
Qed.

Theorem decode_signed_subset_ok_or_err (signed : bytes) : ok_or_err (decode_signed_subset signed).
Proof.
  unfold decode_signed_subset.
  pose proof (decode_map_header_total signed) as T1.
  destruct (decode_map_header signed) as [[n r]| | |] eqn:E1; cbn [bind]; try exact T1.
  pose proof (dec_subset_fields_total (S (List.length r)) n r
                {| a_validity := None; a_auth := None; a_date := None; a_expires := None;
                   a_hashes := None; a_taint := false |} (Nat.lt_succ_diag_r _)) as T2.
  destruct (dec_subset_fields _ n r _) as [a| | |]; cbn [bind]; try exact T2.
  destruct (a_validity a), (a_auth a), (a_date a), (a_expires a), (a_hashes a); try exact I.
  destruct (_ || _); exact I.
Qed.

Theorem decode_signed_subset_total (signed : bytes) : total (decode_signed_subset signed).
Proof. apply ok_or_err_total, decode_signed_subset_ok_or_err. Qed.

Section Sig.
  Variable H256 : bytes -> bytes.
  Variable x509_key : bytes -> option (option N).
  Variable sig_ok : N -> bytes -> bytes -> bool.

  (* after the bounds check the index expression cannot panic *)
  Theorem verify_vouched_index_in_range (v : vouched) (auths : list augcert) :
    (lenN auths <=? vs_authority v) = false ->
    nth_error auths (N.to_nat (vs_authority v)) <> None.
  Proof.
    intros B C. apply nth_error_None in C. rewrite BaseLemmas.lenN_length in B. lia.
  Qed.

  Theorem verify_vouched_total (v : vouched) (auths : list augcert) (tsec tnsec : Z) (ver : bversion) :
    total (verify_vouched H256 x509_key sig_ok v auths tsec tnsec ver).
  Proof.
    unfold verify_vouched. destruct (lenN auths <=? vs_authority v) eqn:B; [apply total_Err|].
    pose proof (verify_vouched_index_in_range v auths B) as NN.
    destruct (nth_error auths (N.to_nat (vs_authority v))) as [cert|]; [|contradiction].
    destruct (x509_key (ac_cert cert)) as [[kid|]|]; try apply total_Err.
    destruct (negb (sig_ok kid (generate_signed_message (vs_signed v) ver) (vs_sig v)));
      [apply total_Err|].
    apply total_bind; [apply decode_signed_subset_total|]. intros [ss t] _.
    destruct (negb (bytes_eqb (ss_auth ss) (H256 (ac_cert cert)))); [apply total_Err|].
    destruct (negb (verify_timestamps (ss_date ss) (ss_expires ss) tsec tnsec));
      [apply total_Err|apply total_Ok].
  Qed.

  Theorem verify_all_total (vs : list vouched) (auths : list augcert) (tsec tnsec : Z) (ver : bversion) :
    total (verify_all H256 x509_key sig_ok vs auths tsec tnsec ver).
  Proof.
    induction vs as [|v t IH]; cbn [verify_all]; [apply total_Ok|].
    apply total_bind; [apply verify_vouched_total|]. intros x _.
    apply total_bind; [exact IH|]. intros r _. apply total_Ok.
  Qed.

  Theorem new_verifier_total (sigs : signatures) (tsec tnsec : Z) (ver : bversion) :
    total (new_verifier H256 x509_key sig_ok sigs tsec tnsec ver).
  Proof. apply verify_all_total. Qed.

  (* VerifyExchange answers in [vx_result] (no Panic / Fuel constructor); the two
     R-valued calls it makes cannot be Panic / Fuel either *)
  Theorem header_sha256_total (x : bexchange) : total (header_sha256 H256 x).
  Proof.
    unfold header_sha256. apply total_bind; [|intros h _; apply total_Ok].
    unfold encode_response_header.
    destruct ((bx_status x <? 100) || (999 <? bx_status x))%Z; [apply total_Err|].
    destruct (negb (forallb hdr_writable_b (bx_hdr x))); [apply total_Err|].
    apply either_total. apply enc_map_ok_or_err.
  Qed.

  Theorem verify_exchange_calls_total (x : bexchange) (dg : bytes) :
    total (header_sha256 H256 x) /\ total (decode_all H256 D03 (bx_body x) dg 16384 512).
  Proof. split; [apply header_sha256_total|apply decode_all_total]. Qed.
End Sig.
