(* Proofs/BundleReadLayout.v - loadMetadata's section loop: the running offset
   is sections_start + (sum of the lengths of the sections already passed,
   unknown ones included); with the section-table check every slice
   expression is in range, so the loop never panics; every index location the
   reader keeps lies inside the responses section, which lies inside the file. *)
From Coq Require Import Lia ZifyN ZifyNat ZifyBool.
From WP Require Import Base.Prelude Base.Decimal Model.Cbor Model.Http Model.Url Model.UrlRef
  Model.StructHdr Model.Variants Model.CertChain Model.Bundle Spec.Cbor Spec.BundleRead.
From WP Require Import Proofs.BaseLemmas Proofs.CborHead Proofs.CborDecode
  Proofs.BundleReadBase Proofs.BundleReadTotal.
Ltac Zify.zify_post_hook ::= Z.div_mod_to_equations.
Open Scope N_scope.

Definition known_section (name : bytes) : bool :=
  existsb (bytes_eqb name)
          (map s2b ["index"; "manifest"; "primary"; "signatures"; "responses"]%string).

Definition in_bounds (resp_start resp_len : N) (l : loc) : Prop :=
  resp_start <= l_off l /\ l_off l + l_len l <= resp_start + resp_len.

(* "responses" can only be the last entry of the table *)
Fixpoint resp_last (sos : list (bytes * N)) : Prop :=
  match sos with
  | [] => True
  | x :: t => (t <> [] -> bytes_eqb (fst x) sec_responses = false) /\ resp_last t
  end.

Lemma resp_last_snoc (init : list (bytes * N)) (x : bytes * N) :
  ~ In sec_responses (map fst init) -> resp_last (init ++ [x]).
Proof.
  induction init as [|y init IH]; intros Hn; cbn [app resp_last].
  - split; [intros H; contradiction H; reflexivity|exact I].
  - split.
    + intros _. apply bytes_eqb_neq. intros E. apply Hn. cbn [map In]. left. exact E.
    + apply IH. intros X. apply Hn. cbn [map In]. right. exact X.
Qed.

Section Read.
  Variable x509_ok : bytes -> bool.

  (* what loadMetadata does with the contents of a known section other than
     "responses" *)
  Definition handle_section (v : bversion) (all : list (bytes * N)) (sections_start : N)
             (name contents : bytes) (m : meta) : R meta :=
    if bytes_eqb name (s2b "index") then
      match find_section all (s2b "responses") with
      | None => Err
      | Some (resp_len, rel) =>
          let* (n, r) := decode_map_header contents in
          let* (ls, tn) := parse_index (S (List.length r)) v n r resp_len
                             (w64 (sections_start + rel)) [] (m_taint m) in
          Ok {| m_primary := m_primary m; m_manifest := m_manifest m;
                m_sigs := m_sigs m; m_locs := ls; m_taint := tn |}
      end
    else if bytes_eqb name (s2b "primary") then
      let* (u, _) := decode_text contents in
      let '(ok, tn) := abs_url_ok u in
      if ok then Ok {| m_primary := Some u; m_manifest := m_manifest m;
                       m_sigs := m_sigs m; m_locs := m_locs m;
                       m_taint := m_taint m || tn |}
      else Err
    else if bytes_eqb name (s2b "manifest") then
      let* (u, _) := decode_text contents in
      let '(ok, tn) := abs_url_ok u in
      if ok then Ok {| m_primary := m_primary m; m_manifest := Some u;
                       m_sigs := m_sigs m; m_locs := m_locs m;
                       m_taint := m_taint m || tn |}
      else Err
    else
      let* s := parse_signatures x509_ok contents in
      Ok {| m_primary := m_primary m; m_manifest := m_manifest m;
            m_sigs := Some s; m_locs := m_locs m; m_taint := m_taint m |}.

  Lemma load_sections_nil v bs all offset ss m :
    load_sections x509_ok v bs all [] offset ss m = Ok m.
  Proof. reflexivity. Qed.

  Lemma load_sections_cons v bs all name len t offset ss m :
    load_sections x509_ok v bs all ((name, len) :: t) offset ss m =
    if negb (known_section name) then load_sections x509_ok v bs all t (w64 (offset + len)) ss m
    else if bytes_eqb name sec_responses then load_sections x509_ok v bs all t offset ss m
    else if lenN bs <=? offset then Err
    else
      let e := w64 (offset + len) in
      if lenN bs <=? e then Err
      else
        match splitN bs offset with
        | None => Panic
        | Some (_, from) =>
            if e <? offset then Panic
            else match splitN from (e - offset) with
                 | None => Panic
                 | Some (contents, _) =>
                     let* m' := handle_section v all ss name contents m in
                     load_sections x509_ok v bs all t e ss m'
                 end
        end.
  Proof. reflexivity. Qed.

  (* with the section inside the file, the slice expression bs[offset:end] is
     in range and yields exactly the len bytes at offset *)
  Lemma load_sections_known v bs all name len t offset ss m :
    known_section name = true -> bytes_eqb name sec_responses = false ->
    offset + len <= lenN bs -> lenN bs < two64 ->
    exists pre contents post,
      bs = pre ++ contents ++ post /\ lenN pre = offset /\ lenN contents = len /\
      load_sections x509_ok v bs all ((name, len) :: t) offset ss m =
      if lenN bs <=? offset + len then Err
      else let* m' := handle_section v all ss name contents m in
           load_sections x509_ok v bs all t (offset + len) ss m'.
  Proof.
    intros Hk Hr Hfit Hlen.
    destruct (splitN_total bs offset ltac:(lia)) as [pre [from Hs1]].
    destruct (splitN_spec _ _ _ _ Hs1) as [E1 L1].
    assert (Lf : lenN from = lenN bs - offset).
    { subst bs. rewrite lenN_app. lia. }
    destruct (splitN_total from len ltac:(lia)) as [contents [post Hs2]].
    destruct (splitN_spec _ _ _ _ Hs2) as [E2 L2].
    exists pre, contents, post. split; [subst; reflexivity|]. split; [exact L1|]. split; [exact L2|].
    rewrite load_sections_cons. rewrite Hk, Hr. cbn [negb].
    cbv zeta. rewrite (w64_small (offset + len)) by lia.
    destruct (N.leb_spec (lenN bs) offset) as [H1|H1].
    { destruct (N.leb_spec (lenN bs) (offset + len)) as [H2|H2]; [reflexivity|lia]. }
    destruct (N.leb_spec (lenN bs) (offset + len)) as [H2|H2]; [reflexivity|].
    rewrite Hs1. destruct (N.ltb_spec (offset + len) offset) as [H3|H3]; [lia|].
    replace (offset + len - offset) with len by lia. rewrite Hs2. reflexivity.
  Qed.

  (* "steps over unknown sections without losing its place": after the loop has
     passed the sections [passed] (known or unknown, none of them "responses"),
     it continues with the rest at offset + (sum of all their lengths) *)
  Theorem load_sections_offset_invariant v bs all ss : forall passed rest offset m,
    ~ In sec_responses (map fst passed) ->
    offset + sum_lens passed < two64 ->
    load_sections x509_ok v bs all (passed ++ rest) offset ss m =
    let* m1 := load_sections x509_ok v bs all passed offset ss m in
    load_sections x509_ok v bs all rest (offset + sum_lens passed) ss m1.
  Proof.
    induction passed as [|[name len] t IH]; intros rest offset m Hn Hb.
    - cbn [app sum_lens]. rewrite load_sections_nil. cbn [bind]. rewrite N.add_0_r. reflexivity.
    - cbn [app]. rewrite !load_sections_cons. rewrite sum_lens_cons in Hb |- *.
      assert (Hn' : ~ In sec_responses (map fst t)).
      { intros X. apply Hn. cbn [map In]. right. exact X. }
      assert (Hr : bytes_eqb name sec_responses = false).
      { apply bytes_eqb_neq. intros E. apply Hn. cbn [map fst In]. left. exact E. }
      rewrite Hr. rewrite (w64_small (offset + len)) by lia.
      replace (offset + (len + sum_lens t)) with (offset + len + sum_lens t) by lia.
      destruct (negb (known_section name)).
      { apply IH; [exact Hn'|lia]. }
      destruct (lenN bs <=? offset); [reflexivity|]. cbv zeta.
      destruct (lenN bs <=? offset + len); [reflexivity|].
      destruct (splitN bs offset) as [[pre from]|]; [|reflexivity].
      destruct (offset + len <? offset); [reflexivity|].
      destruct (splitN from (offset + len - offset)) as [[contents post]|]; [|reflexivity].
      destruct (handle_section v all ss name contents m) as [m'| | |]; cbn [bind]; try reflexivity.
      apply IH; [exact Hn'|lia].
  Qed.

  (* ---- totality of the loop ---------------------------------------------------- *)
  Lemma abs_url_cases u : exists ok tn, abs_url_ok u = (ok, tn).
  Proof. clear x509_ok. destruct (abs_url_ok u) as [ok tn]. eauto. Qed.

  Lemma handle_section_total v all ss name contents m :
    ok_or_err (handle_section v all ss name contents m).
  Proof.
    unfold handle_section.
    destruct (bytes_eqb name (s2b "index")).
    { destruct (find_section all (s2b "responses")) as [[rl rel]|]; [|exact I].
      apply ok_or_err_bind; [apply decode_map_header_total|]. intros [n r] E1. beta_pair.
      apply ok_or_err_bind; [apply parse_index_total; lia|]. intros [ls tn] E2. beta_pair.
      exact I. }
    destruct (bytes_eqb name (s2b "primary")).
    { apply ok_or_err_bind; [apply decode_text_total|]. intros [u r] E1. beta_pair.
      destruct (abs_url_ok u) as [ok tn]. destruct ok; exact I. }
    destruct (bytes_eqb name (s2b "manifest")).
    { apply ok_or_err_bind; [apply decode_text_total|]. intros [u r] E1. beta_pair.
      destruct (abs_url_ok u) as [ok tn]. destruct ok; exact I. }
    apply ok_or_err_bind; [apply parse_signatures_total|]. intros s E1. exact I.
  Qed.

  Lemma load_sections_total v bs all ss : forall sos offset m,
    offset + sum_lens sos <= lenN bs -> lenN bs < two64 ->
    ok_or_err (load_sections x509_ok v bs all sos offset ss m).
  Proof.
    induction sos as [|[name len] t IH]; intros offset m Hfit Hlen.
    - exact I.
    - rewrite sum_lens_cons in Hfit.
      destruct (known_section name) eqn:Hk.
      + destruct (bytes_eqb name sec_responses) eqn:Hr.
        * rewrite load_sections_cons, Hk, Hr. cbn [negb]. apply IH; lia.
        * destruct (load_sections_known v bs all name len t offset ss m Hk Hr ltac:(lia) Hlen)
            as [pre [contents [post [_ [_ [_ E]]]]]].
          rewrite E. destruct (lenN bs <=? offset + len); [exact I|].
          apply ok_or_err_bind; [apply handle_section_total|]. intros m' _. apply IH; lia.
      + rewrite load_sections_cons, Hk. cbn [negb].
        rewrite w64_small by lia. apply IH; lia.
  Qed.

  (* ---- loadMetadata = read the header, then run the loop ------------------------- *)
  Definition load_header (bs : bytes)
    : R (bversion * option bytes * bool * N * list (bytes * N)) :=
    let* (v, r0) := parse_magic bs in
    let* (fallback, taint0, r1) :=
      (if has_primary_in_header v then
         let* (u, r) := decode_text r0 in
         let '(ok, tn) := any_url_ok u in
         if ok then Ok (Some u, tn, r) else Err
       else Ok (None, false, r0)) in
    let* (sl, r2) := decode_bytes r1 in
    if 8192 <=? lenN sl then Err
    else
      let* sos := decode_section_lengths sl in
      let* (ns, r3) := decode_array_header r2 in
      if negb (ns =? lenN sos) then Err
      else Ok (v, fallback, taint0, lenN bs - lenN r3, sos).

  Definition meta0 (fallback : option bytes) (taint0 : bool) : meta :=
    {| m_primary := fallback; m_manifest := None; m_sigs := None;
       m_locs := []; m_taint := taint0 |}.

  Definition load_body (bs : bytes) (v : bversion) (fallback : option bytes) (taint0 : bool)
             (ss : N) (sos : list (bytes * N)) : R (bversion * meta) :=
    match rev sos with
    | [] => Err
    | (last, _) :: _ =>
        if negb (bytes_eqb last sec_responses) then Err
        else if negb (sections_fit sos ss (lenN bs)) then Err
        else
          let* m := load_sections x509_ok v bs sos sos ss ss (meta0 fallback taint0) in
          Ok (v, m)
    end.

  Lemma load_metadata_split bs :
    load_metadata x509_ok bs =
    let* (v, fallback, taint0, ss, sos) := load_header bs in
    load_body bs v fallback taint0 ss sos.
  Proof.
    unfold load_metadata, load_header.
    destruct (parse_magic bs) as [[v r0]| | |]; cbn [bind]; try reflexivity.
    destruct (if has_primary_in_header v then _ else _) as [[[fb t0] r1]| | |];
      cbn [bind]; try reflexivity.
    destruct (decode_bytes r1) as [[sl r2]| | |]; cbn [bind]; try reflexivity.
    destruct (8192 <=? lenN sl); [reflexivity|].
    destruct (decode_section_lengths sl) as [sos| | |]; cbn [bind]; try reflexivity.
    destruct (decode_array_header r2) as [[ns r3]| | |]; cbn [bind]; try reflexivity.
    destruct (negb (ns =? lenN sos)); reflexivity.
  Qed.

  Lemma parse_magic_total bs : ok_or_err (parse_magic bs).
  Proof. clear x509_ok.
    unfold parse_magic.
    apply ok_or_err_bind; [apply ok_or_err_of_opt|]. intros [hm r] E1. beta_pair.
    destruct (negb _); [exact I|].
    apply ok_or_err_bind; [apply ok_or_err_of_opt|]. intros [vm r'] E2. beta_pair.
    destruct (bytes_eqb vm ver_magic_b1); [destruct (bytes_eqb hm hdr_magic_b1); exact I|].
    destruct (bytes_eqb vm ver_magic_b2); [destruct (bytes_eqb hm hdr_magic_b2); exact I|].
    exact I.
  Qed.

  Lemma load_header_total bs : ok_or_err (load_header bs).
  Proof. clear x509_ok.
    unfold load_header.
    apply ok_or_err_bind; [apply parse_magic_total|]. intros [v r0] E0. beta_pair.
    apply ok_or_err_bind.
    { destruct (has_primary_in_header v); [|exact I].
      apply ok_or_err_bind; [apply decode_text_total|]. intros [u r] E1. beta_pair.
      destruct (any_url_ok u) as [ok tn]. destruct ok; exact I. }
    intros [[fb t0] r1] E1. beta_pair.
    apply ok_or_err_bind; [apply decode_bytes_total|]. intros [sl r2] E2. beta_pair.
    destruct (8192 <=? lenN sl); [exact I|].
    apply ok_or_err_bind; [apply decode_section_lengths_total|]. intros sos E3.
    apply ok_or_err_bind; [apply decode_array_header_total|]. intros [ns r3] E4. beta_pair.
    destruct (negb (ns =? lenN sos)); exact I.
  Qed.

  Lemma load_header_start bs v fb t0 ss sos :
    load_header bs = Ok (v, fb, t0, ss, sos) -> ss <= lenN bs.
  Proof.
    clear x509_ok. unfold load_header. intros H.
    apply bind_ok in H. destruct H as [[v' r0] [E0 H]]. beta_pair in H.
    apply bind_ok in H. destruct H as [[[fb' t0'] r1] [E1 H]]. beta_pair in H.
    apply bind_ok in H. destruct H as [[sl r2] [E2 H]]. beta_pair in H.
    destruct (8192 <=? lenN sl); [discriminate|].
    apply bind_ok in H. destruct H as [sos' [E3 H]].
    apply bind_ok in H. destruct H as [[ns r3] [E4 H]]. beta_pair in H.
    destruct (negb (ns =? lenN sos')); [discriminate|]. inversion H; subst. lia.
  Qed.

  Lemma load_body_total bs v fb t0 ss sos :
    ss <= lenN bs -> lenN bs < two64 -> ok_or_err (load_body bs v fb t0 ss sos).
  Proof.
    intros Hss Hlen. unfold load_body.
    destruct (rev sos) as [|[last l] t]; [exact I|].
    destruct (negb (bytes_eqb last sec_responses)); [exact I|].
    destruct (sections_fit sos ss (lenN bs)) eqn:Hfit; cbn [negb]; [|exact I].
    apply sections_fit_spec in Hfit; [|exact Hss].
    apply ok_or_err_bind; [apply load_sections_total; assumption|]. intros m _. exact I.
  Qed.

  Theorem load_metadata_total bs : lenN bs < two64 -> ok_or_err (load_metadata x509_ok bs).
  Proof.
    intros Hlen. rewrite load_metadata_split.
    apply ok_or_err_bind; [apply load_header_total|].
    intros [[[[v fb] t0] ss] sos] E. beta_pair.
    apply load_body_total; [eapply load_header_start; exact E|exact Hlen].
  Qed.

  (* ---- the locations kept by the index parser ------------------------------------- *)
  Lemma read_locs_in_bounds (total : N) : forall fuel k bs u rl ro acc ls rest,
    ro + rl <= total -> total < two64 ->
    Forall (in_bounds ro rl) acc ->
    read_locs fuel k bs u rl ro acc = Ok (ls, rest) -> Forall (in_bounds ro rl) ls.
  Proof. clear x509_ok.
    induction fuel as [|f IH]; intros k bs u rl ro acc ls rest H1 H2 Ha H; [discriminate|].
    rewrite read_locs_S in H. destruct (k =? 0).
    - inversion H; subst. exact Ha.
    - apply bind_ok in H. destruct H as [[o r1] [E1 H]]. beta_pair in H.
      apply bind_ok in H. destruct H as [[l r2] [E2 H]]. beta_pair in H.
      apply bind_ok in H. destruct H as [[o' l'] [E3 H]]. beta_pair in H.
      apply (IH _ _ _ _ _ _ _ _ H1 H2) in H; [exact H|].
      apply Forall_app. split; [exact Ha|]. constructor; [|constructor].
      destruct (make_relative_in_section total _ _ _ _ _ _ H1 H2 E3) as [Eo [El [Hlo [Hhi _]]]].
      unfold in_bounds. cbn [l_off l_len]. lia.
  Qed.

  Lemma index_value_in_bounds (total : N) v items r2 u rl ro ls r4 :
    ro + rl <= total -> total < two64 ->
    index_value v items r2 u rl ro = Ok (ls, r4) -> Forall (in_bounds ro rl) ls.
  Proof. clear x509_ok.
    intros H1 H2. unfold index_value. destruct v.
    - destruct (items =? 0); [discriminate|]. intros H.
      apply bind_ok in H. destruct H as [[vv r3] [E1 H]]. beta_pair in H.
      destruct vv as [|c vv].
      + destruct (negb (items =? 3)); [discriminate|].
        eapply read_locs_in_bounds; eauto.
      + apply bind_ok in H. destruct H as [vs [E2 H]].
        apply bind_ok in H. destruct H as [nk [E3 H]].
        destruct (negb (items =? 2 * nk + 1)); [discriminate|].
        eapply read_locs_in_bounds; eauto.
    - destruct (negb (items =? 2)); [discriminate|]. intros H.
      eapply read_locs_in_bounds; eauto.
  Qed.

  Lemma parse_index_in_bounds (total : N) : forall fuel v n bs rl ro acc taint ls t',
    ro + rl <= total -> total < two64 ->
    Forall (in_bounds ro rl) acc ->
    parse_index fuel v n bs rl ro acc taint = Ok (ls, t') -> Forall (in_bounds ro rl) ls.
  Proof. clear x509_ok.
    induction fuel as [|f IH]; intros v n bs rl ro acc taint ls t' H1 H2 Ha H; [discriminate|].
    rewrite parse_index_S in H. destruct (n =? 0).
    - inversion H; subst. exact Ha.
    - apply bind_ok in H. destruct H as [[u r1] [E1 H]]. beta_pair in H.
      destruct (negb (fst (index_url_ok u))); [discriminate|].
      apply bind_ok in H. destruct H as [[items r2] [E2 H]]. beta_pair in H.
      apply bind_ok in H. destruct H as [[ls1 r4] [E3 H]]. beta_pair in H.
      apply (IH _ _ _ _ _ _ _ _ _ H1 H2) in H; [exact H|].
      apply Forall_app. split; [exact Ha|].
      eapply index_value_in_bounds; eauto.
  Qed.

  (* where the reader's locations come from: the contents of the (first and
     only) section called "index", found at offset + its span; otherwise none *)
  Definition index_result (v : bversion) (all : list (bytes * N)) (ss : N) (contents : bytes)
             (taint : bool) : R (list loc * bool) :=
    match find_section all sec_responses with
    | None => Err
    | Some (resp_len, rel) =>
        let* (n, r) := decode_map_header contents in
        parse_index (S (List.length r)) v n r resp_len (w64 (ss + rel)) [] taint
    end.

  Lemma handle_section_locs v all ss name contents m m' :
    handle_section v all ss name contents m = Ok m' ->
    if bytes_eqb name sec_index
    then exists tn, index_result v all ss contents (m_taint m) = Ok (m_locs m', tn)
    else m_locs m' = m_locs m.
  Proof.
    unfold handle_section, index_result. change (s2b "index") with sec_index.
    change (s2b "responses") with sec_responses.
    destruct (bytes_eqb name sec_index).
    { destruct (find_section all sec_responses) as [[rl rel]|]; [|discriminate].
      intros H. apply bind_ok in H. destruct H as [[n r] [E1 H]]. beta_pair in H.
      apply bind_ok in H. destruct H as [[ls tn] [E2 H]]. beta_pair in H.
      inversion H; subst. cbn [m_locs]. exists tn. rewrite E1. cbn [bind]. exact E2. }
    destruct (bytes_eqb name (s2b "primary")).
    { intros H. apply bind_ok in H. destruct H as [[u r] [E1 H]]. beta_pair in H.
      destruct (abs_url_ok u) as [ok tn]. destruct ok; [|discriminate].
      inversion H; subst. reflexivity. }
    destruct (bytes_eqb name (s2b "manifest")).
    { intros H. apply bind_ok in H. destruct H as [[u r] [E1 H]]. beta_pair in H.
      destruct (abs_url_ok u) as [ok tn]. destruct ok; [|discriminate].
      inversion H; subst. reflexivity. }
    intros H. apply bind_ok in H. destruct H as [s [E1 H]]. inversion H; subst. reflexivity.
  Qed.

  Lemma known_index : known_section sec_index = true. Proof. clear x509_ok. reflexivity. Qed.
  Lemma index_not_responses : bytes_eqb sec_index sec_responses = false. Proof. clear x509_ok. reflexivity. Qed.

  Lemma section_span_not_in sos name :
    ~ In name (map fst sos) -> section_span sos name = None.
  Proof. clear x509_ok.
    induction sos as [|[n l] t IH]; intros Hn; [reflexivity|].
    rewrite section_span_cons.
    destruct (bytes_eqb n name) eqn:E.
    - apply bytes_eqb_eq in E. exfalso. apply Hn. cbn [map fst In]. left. exact E.
    - rewrite IH; [reflexivity|]. intros X. apply Hn. cbn [map In]. right. exact X.
  Qed.

  Lemma load_sections_locs v bs all ss : forall sos offset m m',
    NoDup (map fst sos) -> resp_last sos ->
    offset + sum_lens sos <= lenN bs -> lenN bs < two64 ->
    load_sections x509_ok v bs all sos offset ss m = Ok m' ->
    match section_span sos sec_index with
    | None => m_locs m' = m_locs m
    | Some (io, il) =>
        exists contents taint tn,
          sub_at bs (offset + io) il contents /\ offset + io + il < lenN bs /\
          index_result v all ss contents taint = Ok (m_locs m', tn)
    end.
  Proof.
    induction sos as [|[name len] t IH]; intros offset m m' Hnd Hrl Hfit Hlen H.
    - rewrite load_sections_nil in H. inversion H; subst. reflexivity.
    - rewrite sum_lens_cons in Hfit. cbn [map fst] in Hnd. inversion Hnd as [|x xs Hnin Hnd']; subst.
      cbn [resp_last fst] in Hrl. destruct Hrl as [Hr1 Hrl].
      rewrite section_span_cons.
      destruct (known_section name) eqn:Hk.
      + destruct (bytes_eqb name sec_responses) eqn:Hr.
        * (* "responses": it is the last entry *)
          destruct t as [|y t']; [|specialize (Hr1 ltac:(discriminate)); congruence].
          rewrite load_sections_cons, Hk, Hr in H. cbn [negb] in H.
          rewrite load_sections_nil in H. inversion H; subst.
          apply bytes_eqb_eq in Hr. subst name. cbn [section_span].
          change (bytes_eqb sec_responses sec_index) with false. cbv iota. reflexivity.
        * destruct (load_sections_known v bs all name len t offset ss m Hk Hr ltac:(lia) Hlen)
            as [pre [contents [post [Ebs [Lp [Lc E]]]]]].
          rewrite E in H. destruct (N.leb_spec (lenN bs) (offset + len)) as [Hle|Hlt]; [discriminate|].
          apply bind_ok in H. destruct H as [m1 [Eh H]].
          pose proof (handle_section_locs _ _ _ _ _ _ _ Eh) as HL.
          specialize (IH (offset + len) m1 m' Hnd' Hrl ltac:(lia) Hlen H).
          destruct (bytes_eqb name sec_index) eqn:Ei.
          -- apply bytes_eqb_eq in Ei. subst name.
             rewrite (section_span_not_in t sec_index Hnin) in IH.
             destruct HL as [tn HL]. exists contents, (m_taint m), tn.
             split; [exists pre, post; repeat split; [exact Ebs|lia|exact Lc]|].
             split; [lia|]. rewrite IH. exact HL.
          -- destruct (section_span t sec_index) as [[io il]|].
             ++ destruct IH as [c [ta [tn [Hs [Hb Hi]]]]]. exists c, ta, tn.
                replace (offset + (len + io)) with (offset + len + io) by lia.
                split; [exact Hs|]. split; [exact Hb|exact Hi].
             ++ congruence.
      + rewrite load_sections_cons, Hk in H. cbn [negb] in H.
        rewrite w64_small in H by lia.
        specialize (IH (offset + len) m m' Hnd' Hrl ltac:(lia) Hlen H).
        assert (Ei : bytes_eqb name sec_index = false).
        { destruct (bytes_eqb name sec_index) eqn:X; [|reflexivity].
          apply bytes_eqb_eq in X. subst name. rewrite known_index in Hk. discriminate. }
        rewrite Ei.
        destruct (section_span t sec_index) as [[io il]|].
        * destruct IH as [c [ta [tn [Hs [Hb Hi]]]]]. exists c, ta, tn.
          replace (offset + (len + io)) with (offset + len + io) by lia.
          split; [exact Hs|]. split; [exact Hb|exact Hi].
        * exact IH.
  Qed.
End Read.
