(* Proofs/IntegrityBlockSign.v - C07, part 3: ObtainIntegrityBlock,
   SignAndAddNewSignature, the signature-stack invariant for any sequence of
   signing operations, and SignWithIntegrityBlock. *)
From Coq Require Import Lia ZifyN ZifyNat ZifyBool Permutation Sorted.
From WP Require Import Base.Prelude Model.Cbor Model.Det Model.IntegrityBlock.
From WP Require Import Proofs.BaseLemmas Proofs.IntegrityBlockBase Proofs.IntegrityBlockCbor.
Ltac Zify.zify_post_hook ::= Z.div_mod_to_equations.
Open Scope N_scope.

Definition empty_block : iblock := {| ib_stack := [] |}.
Definition empty_block_bytes : bytes :=
  [131; 72; 240; 159; 150; 139; 240; 159; 147; 166; 68; 49; 98; 0; 0; 128].

(* ---- ObtainIntegrityBlock --------------------------------------------------- *)
(* integrityBlockLen := fileStats.Size() - webBundleLen, in int64 arithmetic *)
Definition obtain_d (size t : N) : Z := to_i64 (of_i64w (Z.of_N size - to_i64 t)).

Lemma obtain_cases (file pre trail : bytes) :
  file = pre ++ trail -> lenN trail = 8 ->
  obtain file =
  if (obtain_d (lenN file) (unbe trail) <? 0)%Z then Err
  else if negb (obtain_d (lenN file) (unbe trail) =? 0)%Z then Err
  else Ok empty_block.
Proof.
  intros E HL. unfold obtain. cbv zeta.
  assert (Hsz : lenN file = lenN pre + 8) by (rewrite E, lenN_app, HL; reflexivity).
  destruct (N.ltb_spec (lenN file) 8) as [Hlt|Hge]; [lia|].
  assert (Hs : splitN file (lenN file - 8) = Some (pre, trail)).
  { apply splitN_some_iff. split; [exact E|lia]. }
  rewrite Hs. reflexivity.
Qed.

Lemma last8_exists (file : bytes) :
  8 <= lenN file -> exists pre trail, file = pre ++ trail /\ lenN trail = 8.
Proof.
  intros Hge. destruct (splitN_total file (lenN file - 8)) as [a [b Hs]]; [lia|].
  apply splitN_spec in Hs. destruct Hs as [E HL]. exists a, b. split; [exact E|].
  assert (HL2 : lenN file = lenN a + lenN b) by (rewrite E at 1; apply lenN_app). lia.
Qed.

Lemma last8_unique (pre trail pre' trail' : bytes) :
  pre ++ trail = pre' ++ trail' -> lenN trail = 8 -> lenN trail' = 8 -> trail = trail'.
Proof.
  intros E H1 H2. apply app_inv_lenN in E; [exact (proj2 E)|].
  assert (HL : lenN (pre ++ trail) = lenN (pre' ++ trail')) by (rewrite E; reflexivity).
  rewrite !lenN_app in HL. lia.
Qed.

Theorem obtain_short_file (file : bytes) : lenN file < 8 -> obtain file = Err.
Proof.
  intros Hlt. unfold obtain. cbv zeta.
  destruct (N.ltb_spec (lenN file) 8) as [_|Hge]; [reflexivity|lia].
Qed.

(* no panic, no divergence, for any input at all *)
Theorem obtain_never_panics (file : bytes) :
  obtain file = Err \/ obtain file = Ok empty_block.
Proof.
  destruct (N.ltb_spec (lenN file) 8) as [Hlt|Hge]; [left; apply obtain_short_file; exact Hlt|].
  destruct (last8_exists file Hge) as [pre [trail [E HL]]].
  rewrite (obtain_cases file pre trail E HL).
  destruct (_ <? 0)%Z; [left; reflexivity|].
  destruct (negb _); [left|right]; reflexivity.
Qed.

Lemma obtain_ok_empty (file : bytes) (b : iblock) : obtain file = Ok b -> b = empty_block.
Proof.
  intros H. destruct (obtain_never_panics file) as [E|E]; rewrite E in H; [discriminate|].
  injection H as <-. reflexivity.
Qed.

Lemma trail_lt (trail : bytes) : wfb trail -> lenN trail = 8 -> unbe trail < two64.
Proof.
  intros W HL. pose proof (BaseLemmas.unbe_lt trail W) as H. rewrite HL in H. exact H.
Qed.

(* the int64 arithmetic of the two tests, for a file size that is an int64
   and a trailing field that is a uint64 *)
Lemma obtain_d_zero (size t : N) :
  size < two63 -> t < two64 -> (obtain_d size t = 0%Z <-> t = size).
Proof.
  intros Hs Ht. unfold obtain_d, to_i64, of_i64w, two63, two64 in *.
  destruct (N.ltb_spec t 9223372036854775808) as [C1|C1];
    match goal with |- context [N.ltb ?x ?y] => destruct (N.ltb_spec x y) as [C2|C2] end;
    lia.
Qed.

Lemma obtain_d_larger (size t : N) :
  size < two63 -> t < two64 -> size < t ->
  (obtain_d size t < 0)%Z \/ (obtain_d size t <> 0)%Z.
Proof.
  intros Hs Ht Hlt. right. intros E. apply obtain_d_zero in E; [lia|assumption|assumption].
Qed.

Lemma obtain_d_smaller (size t : N) :
  size < two63 -> t < size -> (0 < obtain_d size t)%Z.
Proof.
  intros Hs Hlt. unfold obtain_d, to_i64, of_i64w, two63, two64 in *.
  destruct (N.ltb_spec t 9223372036854775808) as [C1|C1]; [|lia].
  match goal with |- context [N.ltb ?x ?y] => destruct (N.ltb_spec x y) as [C2|C2] end; lia.
Qed.

(* trailing length as a uint64 below 2^63 and above the size: the difference
   is negative (first error message); at or above 2^63 the int64 conversion
   makes it negative and the difference positive or wrapped (second message
   or first): an error either way *)
Lemma obtain_d_larger_small (size t : N) :
  size < two63 -> t < two63 -> size < t -> (obtain_d size t < 0)%Z.
Proof.
  intros Hs Ht Hlt. unfold obtain_d, to_i64, of_i64w, two63, two64 in *.
  destruct (N.ltb_spec t 9223372036854775808) as [C1|C1]; [|lia].
  match goal with |- context [N.ltb ?x ?y] => destruct (N.ltb_spec x y) as [C2|C2] end; lia.
Qed.

Lemma obtain_err_of_nonzero (file pre trail : bytes) :
  file = pre ++ trail -> lenN trail = 8 ->
  obtain_d (lenN file) (unbe trail) <> 0%Z -> obtain file = Err.
Proof.
  intros E HL Hd. rewrite (obtain_cases file pre trail E HL).
  destruct (_ <? 0)%Z; [reflexivity|].
  destruct (Z.eqb_spec (obtain_d (lenN file) (unbe trail)) 0) as [C|C]; [contradiction|reflexivity].
Qed.

Theorem obtain_ok_iff (file : bytes) (b : iblock) :
  wfb file -> lenN file < two63 ->
  (obtain file = Ok b <->
   8 <= lenN file /\
   (exists pre trail, file = pre ++ trail /\ lenN trail = 8 /\ unbe trail = lenN file) /\
   b = empty_block).
Proof.
  intros W Hsz. split.
  - intros H.
    destruct (N.ltb_spec (lenN file) 8) as [Hlt|Hge];
      [rewrite (obtain_short_file file Hlt) in H; discriminate|].
    split; [exact Hge|]. split; [|eapply obtain_ok_empty; exact H].
    destruct (last8_exists file Hge) as [pre [trail [E HL]]].
    exists pre, trail. split; [exact E|]. split; [exact HL|].
    assert (Wt : wfb trail) by (rewrite E in W; apply wfb_app in W; exact (proj2 W)).
    apply (obtain_d_zero (lenN file) (unbe trail) Hsz (trail_lt trail Wt HL)).
    destruct (Z.eq_dec (obtain_d (lenN file) (unbe trail)) 0) as [C|C]; [exact C|].
    rewrite (obtain_err_of_nonzero file pre trail E HL C) in H. discriminate.
  - intros [Hge [[pre [trail [E [HL Hu]]]] Eb]]. subst b.
    assert (Wt : wfb trail) by (rewrite E in W; apply wfb_app in W; exact (proj2 W)).
    rewrite (obtain_cases file pre trail E HL).
    assert (Hd : obtain_d (lenN file) (unbe trail) = 0%Z)
      by (apply obtain_d_zero; [exact Hsz|exact (trail_lt trail Wt HL)|exact Hu]).
    rewrite Hd. reflexivity.
Qed.

Theorem obtain_refuses_larger (file pre trail : bytes) :
  wfb file -> lenN file < two63 -> file = pre ++ trail -> lenN trail = 8 ->
  lenN file < unbe trail -> obtain file = Err.
Proof.
  intros W Hsz E HL Hlt.
  assert (Wt : wfb trail) by (rewrite E in W; apply wfb_app in W; exact (proj2 W)).
  apply (obtain_err_of_nonzero file pre trail E HL).
  intros C. apply obtain_d_zero in C; [lia|exact Hsz|exact (trail_lt trail Wt HL)].
Qed.

Theorem obtain_refuses_existing_block (file pre trail : bytes) :
  lenN file < two63 -> file = pre ++ trail -> lenN trail = 8 ->
  unbe trail < lenN file -> obtain file = Err.
Proof.
  intros Hsz E HL Hlt.
  apply (obtain_err_of_nonzero file pre trail E HL).
  pose proof (obtain_d_smaller (lenN file) (unbe trail) Hsz Hlt). lia.
Qed.

(* ---- SignAndAddNewSignature -------------------------------------------------- *)
Lemma det_accepts_iff (bs : bytes) : det_accepts bs = true <-> det_check bs = Accept.
Proof. unfold det_accepts. destruct (det_check bs); split; congruence. Qed.

Section Sign.
  Variable H512 : bytes -> bytes.
  Variable strat_sign : bytes -> R bytes.
  Variable ed_ok : bytes -> bytes -> bytes -> bool.

  Definition push (b : iblock) (a : attrs) (sg : bytes) : iblock :=
    {| ib_stack := {| is_attrs := a; is_sig := sg |} :: ib_stack b |}.

  Theorem sign_and_add_ok_iff (hash : bytes) (b : iblock) (pk : bytes) (a : attrs) (b' : iblock) :
    sign_and_add strat_sign ed_ok hash b pk a = Ok b' <->
    exists blk dtbs sg,
      block_cbor b = Ok blk /\ det_check blk = Accept /\
      data_to_be_signed hash blk a = Ok dtbs /\
      strat_sign dtbs = Ok sg /\ ed_ok pk dtbs sg = true /\
      b' = push b a sg.
  Proof.
    unfold sign_and_add, push. split.
    - destruct (block_cbor b) as [blk| | |] eqn:Hb; cbn [bind]; try discriminate.
      destruct (det_accepts blk) eqn:Hd; cbn [negb]; [|discriminate].
      destruct (data_to_be_signed hash blk a) as [dtbs| | |] eqn:Hdt; cbn [bind]; try discriminate.
      destruct (strat_sign dtbs) as [sg| | |] eqn:Hs; cbn [bind]; try discriminate.
      destruct (ed_ok pk dtbs sg) eqn:He; cbn [negb]; [|discriminate].
      intros H. injection H as <-. exists blk, dtbs, sg.
      apply det_accepts_iff in Hd. repeat split; try assumption; reflexivity.
    - intros [blk [dtbs [sg [H1 [H2 [H3 [H4 [H5 H6]]]]]]]].
      rewrite H1. cbn [bind]. apply det_accepts_iff in H2. rewrite H2. cbn [negb].
      rewrite H3. cbn [bind]. rewrite H4. cbn [bind]. rewrite H5. cbn [negb].
      rewrite H6. reflexivity.
  Qed.

  Theorem sign_and_add_checked (hash : bytes) (b : iblock) (pk : bytes) (a : attrs) (b' : iblock) :
    sign_and_add strat_sign ed_ok hash b pk a = Ok b' ->
    exists blk dtbs sg,
      block_cbor b = Ok blk /\ data_to_be_signed hash blk a = Ok dtbs /\
      strat_sign dtbs = Ok sg /\ ed_ok pk dtbs sg = true /\
      ib_stack b' = {| is_attrs := a; is_sig := sg |} :: ib_stack b.
  Proof.
    intros H. apply sign_and_add_ok_iff in H.
    destruct H as [blk [dtbs [sg [H1 [H2 [H3 [H4 [H5 H6]]]]]]]].
    exists blk, dtbs, sg. subst b'. repeat split; assumption.
  Qed.

  (* the signature obtained does not verify under the key about to be
     recorded: error.  The function is pure; its input block [b] is a value
     and is by construction unchanged - the only block with the new signature
     is the one returned inside Ok, and nothing is returned. *)
  Theorem sign_and_add_mismatch (hash : bytes) (b : iblock) (pk : bytes) (a : attrs)
      (blk dtbs sg : bytes) :
    block_cbor b = Ok blk -> data_to_be_signed hash blk a = Ok dtbs ->
    strat_sign dtbs = Ok sg -> ed_ok pk dtbs sg = false ->
    sign_and_add strat_sign ed_ok hash b pk a = Err.
  Proof.
    intros H1 H3 H4 H5. unfold sign_and_add. rewrite H1. cbn [bind].
    destruct (det_accepts blk); cbn [negb]; [|reflexivity].
    rewrite H3. cbn [bind]. rewrite H4. cbn [bind]. rewrite H5. reflexivity.
  Qed.

  Theorem sign_and_add_mismatch_never_ok (hash : bytes) (b : iblock) (pk : bytes) (a : attrs) :
    (forall blk dtbs sg, block_cbor b = Ok blk -> data_to_be_signed hash blk a = Ok dtbs ->
                         strat_sign dtbs = Ok sg -> ed_ok pk dtbs sg = false) ->
    forall b', sign_and_add strat_sign ed_ok hash b pk a <> Ok b'.
  Proof.
    intros Hbad b' H. apply sign_and_add_ok_iff in H.
    destruct H as [blk [dtbs [sg [H1 [H2 [H3 [H4 [H5 H6]]]]]]]].
    rewrite (Hbad blk dtbs sg H1 H3 H4) in H5. discriminate.
  Qed.

  (* a failing signing strategy is passed on *)
  Theorem sign_and_add_strategy_fails (hash : bytes) (b : iblock) (pk : bytes) (a : attrs)
      (blk dtbs : bytes) :
    block_cbor b = Ok blk -> data_to_be_signed hash blk a = Ok dtbs ->
    strat_sign dtbs = Err -> sign_and_add strat_sign ed_ok hash b pk a = Err.
  Proof.
    intros H1 H3 H4. unfold sign_and_add. rewrite H1. cbn [bind].
    destruct (det_accepts blk); cbn [negb]; [|reflexivity].
    rewrite H3. cbn [bind]. rewrite H4. reflexivity.
  Qed.

  (* ---- any sequence of signing operations -------------------------------------- *)
  Fixpoint sign_all (hash : bytes) (b : iblock) (ops : list (bytes * attrs)) : R iblock :=
    match ops with
    | [] => Ok b
    | (pk, a) :: t =>
        let* b' := sign_and_add strat_sign ed_ok hash b pk a in sign_all hash b' t
    end.

  (* Valid_stack hash st pks: the i-th signature (newest first) verifies under
     the i-th key over the data-to-be-signed built from the hash, the block as
     it stood BEFORE that signature was added (= the rest of the stack), and
     its own attributes *)
  Inductive Valid_stack (hash : bytes) : list isig -> list bytes -> Prop :=
  | VS_nil : Valid_stack hash [] []
  | VS_cons (s : isig) (rest : list isig) (pk : bytes) (pks : list bytes) (blk dtbs : bytes) :
      block_cbor {| ib_stack := rest |} = Ok blk ->
      det_check blk = Accept ->
      data_to_be_signed hash blk (is_attrs s) = Ok dtbs ->
      ed_ok pk dtbs (is_sig s) = true ->
      Valid_stack hash rest pks ->
      Valid_stack hash (s :: rest) (pk :: pks).

  Lemma iblock_eta (b : iblock) : {| ib_stack := ib_stack b |} = b.
  Proof. destruct b. reflexivity. Qed.

  Lemma sign_all_invariant (hash : bytes) (ops : list (bytes * attrs)) :
    forall b pks b',
      Valid_stack hash (ib_stack b) pks ->
      sign_all hash b ops = Ok b' ->
      exists newer,
        ib_stack b' = newer ++ ib_stack b /\
        map is_attrs newer = rev (map snd ops) /\
        Valid_stack hash (ib_stack b') (rev (map fst ops) ++ pks).
  Proof.
    induction ops as [|[pk a] ops IH]; intros b pks b' HV H; cbn [sign_all] in H.
    - injection H as <-. exists []. repeat split; assumption.
    - destruct (sign_and_add strat_sign ed_ok hash b pk a) as [b1| | |] eqn:H1;
        cbn [bind] in H; try discriminate.
      apply sign_and_add_ok_iff in H1.
      destruct H1 as [blk [dtbs [sg [B1 [B2 [B3 [B4 [B5 B6]]]]]]]].
      assert (HV1 : Valid_stack hash (ib_stack b1) (pk :: pks)).
      { subst b1. unfold push. cbn [ib_stack].
        apply (VS_cons hash _ _ _ _ blk dtbs); cbn [is_attrs is_sig];
          first [assumption | rewrite iblock_eta; exact B1]. }
      destruct (IH b1 (pk :: pks) b' HV1 H) as [newer [E1 [E2 E3]]].
      exists (newer ++ [{| is_attrs := a; is_sig := sg |}]). split; [|split].
      + rewrite E1. subst b1. unfold push. cbn [ib_stack]. rewrite <- app_assoc. reflexivity.
      + rewrite map_app, E2. cbn [map rev is_attrs snd]. reflexivity.
      + cbn [map rev fst]. rewrite <- app_assoc. exact E3.
  Qed.

  (* the statement of C07 for any list of signing operations, from the empty
     block: newest first, one entry per operation, every entry valid *)
  Theorem stack_invariant (hash : bytes) (ops : list (bytes * attrs)) (b' : iblock) :
    sign_all hash empty_block ops = Ok b' ->
    Valid_stack hash (ib_stack b') (rev (map fst ops)) /\
    map is_attrs (ib_stack b') = rev (map snd ops) /\
    lenN (ib_stack b') = lenN ops.
  Proof.
    intros H.
    destruct (sign_all_invariant hash ops empty_block [] b' (VS_nil hash) H) as [newer [E1 [E2 E3]]].
    cbn [ib_stack empty_block] in E1. rewrite !app_nil_r in *. subst newer.
    split; [exact E3|]. split; [exact E2|].
    rewrite <- (lenN_map is_attrs), E2, !lenN_length, rev_length, map_length. reflexivity.
  Qed.

  (* self-certifying form: the key is the one recorded in the signature's own
     attributes under "ed25519PublicKey" *)
  Definition Valid_self (hash : bytes) (st : list isig) : Prop :=
    exists pks, Valid_stack hash st pks /\
                Forall2 (fun s pk => In (pk_attr_name, pk) (is_attrs s)) st pks.

  Lemma Forall2_rev {A B} (P : A -> B -> Prop) (l : list A) (l' : list B) :
    Forall2 P l l' -> Forall2 P (rev l) (rev l').
  Proof.
    induction 1 as [|x y l l' Hxy HF IH]; cbn [rev]; [constructor|].
    apply Forall2_app; [exact IH|constructor; [exact Hxy|constructor]].
  Qed.

  Theorem stack_invariant_self (hash : bytes) (ops : list (bytes * attrs)) (b' : iblock) :
    Forall (fun op => In (pk_attr_name, fst op) (snd op)) ops ->
    sign_all hash empty_block ops = Ok b' ->
    Valid_self hash (ib_stack b') /\ lenN (ib_stack b') = lenN ops.
  Proof.
    intros HF H. destruct (stack_invariant hash ops b' H) as [HV [HA HL]].
    split; [|exact HL]. exists (rev (map fst ops)). split; [exact HV|].
    assert (HF2 : Forall2 (fun (a : attrs) pk => In (pk_attr_name, pk) a) (map snd ops) (map fst ops)).
    { clear - HF. induction HF as [|op ops Hop HF IH]; cbn [map]; constructor; assumption. }
    apply Forall2_rev in HF2. rewrite <- HA in HF2.
    remember (ib_stack b') as st eqn:Est. remember (rev (map fst ops)) as pks eqn:Epks.
    clear - HF2. revert pks HF2. induction st as [|s st IH]; intros pks HF2; cbn [map] in HF2.
    - inversion HF2. constructor.
    - inversion HF2 as [|x y l l' Hxy HF']; subst. constructor; [exact Hxy|apply IH; exact HF'].
  Qed.

  (* the recorded key is unambiguous: a successfully encoded attributes map
     has no two entries with the same name *)
  Lemma attr_value_unique (a : attrs) (ab k v v' : bytes) :
    attrs_cbor a = Ok ab -> In (k, v) a -> In (k, v') a -> v = v'.
  Proof.
    intros H. apply attrs_keys_nodup in H. clear ab.
    induction a as [|[k0 v0] a IH]; cbn [map fst] in H; intros H1 H2; [destruct H1|].
    inversion H as [|x l Hnin HN]; subst.
    destruct H1 as [E1|H1], H2 as [E2|H2].
    - congruence.
    - injection E1 as -> ->. exfalso. apply Hnin. apply (in_map fst) in H2. exact H2.
    - injection E2 as -> ->. exfalso. apply Hnin. apply (in_map fst) in H1. exact H1.
    - apply IH; assumption.
  Qed.

  (* ---- SignWithIntegrityBlock ------------------------------------------------- *)
  Definition pk_attrs (pk : bytes) : attrs := [(pk_attr_name, pk)].
  Definition pk_attrs_bytes (pk : bytes) : bytes := [161; 112] ++ pk_attr_name ++ enc_bytes pk.

  Lemma attrs_cbor_pk (pk : bytes) : attrs_cbor (pk_attrs pk) = Ok (pk_attrs_bytes pk).
  Proof.
    rewrite attrs_cbor_unfold. change (keys_utf8 (pk_attrs pk)) with true. cbv iota.
    unfold enc_map, sort_entries, pk_attrs, pk_attrs_bytes.
    cbn [map isort insert adjacent_dup flat_map fst snd attr_entry].
    rewrite app_nil_r. reflexivity.
  Qed.

  (* what the single signature of sign_file is computed over *)
  Definition sign_file_dtbs (file pk : bytes) : bytes :=
    dtbs_bytes (H512 file) empty_block_bytes (pk_attrs_bytes pk).

  Lemma dtbs_pk (hash blk pk : bytes) :
    data_to_be_signed hash blk (pk_attrs pk) = Ok (dtbs_bytes hash blk (pk_attrs_bytes pk)).
  Proof. apply dtbs_ok_iff. exists (pk_attrs_bytes pk). split; [apply attrs_cbor_pk|reflexivity]. Qed.

  Lemma det_accepts_empty : det_accepts empty_block_bytes = true.
  Proof. vm_compute. reflexivity. Qed.

  Definition one_sig_block (pk sg : bytes) : iblock :=
    {| ib_stack := [{| is_attrs := pk_attrs pk; is_sig := sg |}] |}.

  (* 83 48 magic 44 version 81 82 A1 70 "ed25519PublicKey" bstr(pk) bstr(sig) *)
  Definition one_sig_bytes (pk sg : bytes) : bytes :=
    [131] ++ (72 :: ib_magic) ++ (68 :: ib_version_b1) ++ [129] ++
    [130] ++ pk_attrs_bytes pk ++ enc_bytes sg.

  Lemma block_cbor_one_sig (pk sg : bytes) :
    block_cbor (one_sig_block pk sg) = Ok (one_sig_bytes pk sg).
  Proof.
    unfold block_cbor, one_sig_block. cbn [ib_stack stack_cbor is_attrs is_sig].
    rewrite attrs_cbor_pk. cbn [bind]. unfold one_sig_bytes.
    rewrite app_nil_r. reflexivity.
  Qed.

  Lemma sign_file_unfold (file pk : bytes) :
    obtain file = Ok empty_block ->
    sign_file H512 strat_sign ed_ok file pk =
    let* sg := strat_sign (sign_file_dtbs file pk) in
    if negb (ed_ok pk (sign_file_dtbs file pk) sg) then Err
    else if negb (det_accepts (one_sig_bytes pk sg)) then Err
         else Ok (one_sig_bytes pk sg ++ file).
  Proof.
    intros Ho. unfold sign_file. rewrite Ho. cbn [bind]. unfold sign_and_add.
    change (block_cbor empty_block) with (Ok empty_block_bytes). cbn [bind].
    rewrite det_accepts_empty. cbn [negb].
    change [(pk_attr_name, pk)] with (pk_attrs pk).
    rewrite dtbs_pk. cbn [bind]. fold (sign_file_dtbs file pk).
    destruct (strat_sign (sign_file_dtbs file pk)) as [sg| | |]; cbn [bind]; try reflexivity.
    destruct (ed_ok pk (sign_file_dtbs file pk) sg); cbn [negb]; [|reflexivity].
    cbn [bind]. change {| ib_stack := _ |} with (one_sig_block pk sg).
    rewrite block_cbor_one_sig. cbn [bind]. reflexivity.
  Qed.

  Theorem sign_file_ok_iff (file pk out : bytes) :
    sign_file H512 strat_sign ed_ok file pk = Ok out <->
    obtain file = Ok empty_block /\
    exists sg, strat_sign (sign_file_dtbs file pk) = Ok sg /\
               ed_ok pk (sign_file_dtbs file pk) sg = true /\
               det_check (one_sig_bytes pk sg) = Accept /\
               out = one_sig_bytes pk sg ++ file.
  Proof.
    split.
    - intros H.
      assert (Ho : obtain file = Ok empty_block).
      { destruct (obtain_never_panics file) as [E|E]; [|exact E].
        unfold sign_file in H. rewrite E in H. discriminate. }
      split; [exact Ho|]. rewrite (sign_file_unfold file pk Ho) in H.
      destruct (strat_sign (sign_file_dtbs file pk)) as [sg| | |] eqn:Hs; cbn [bind] in H; try discriminate.
      destruct (ed_ok pk (sign_file_dtbs file pk) sg) eqn:He; cbn [negb] in H; [|discriminate].
      destruct (det_accepts (one_sig_bytes pk sg)) eqn:Hd; cbn [negb] in H; [|discriminate].
      injection H as <-. exists sg. apply det_accepts_iff in Hd.
      repeat split; try assumption; reflexivity.
    - intros [Ho [sg [H1 [H2 [H3 H4]]]]]. rewrite (sign_file_unfold file pk Ho).
      rewrite H1. cbn [bind]. rewrite H2. cbn [negb].
      apply det_accepts_iff in H3. rewrite H3. cbn [negb]. rewrite H4. reflexivity.
  Qed.

  (* the output is the new block followed by the untouched input file *)
  Theorem sign_file_layout (file pk out : bytes) :
    sign_file H512 strat_sign ed_ok file pk = Ok out ->
    exists blk sg dtbs,
      out = blk ++ file /\
      block_cbor (one_sig_block pk sg) = Ok blk /\ blk = one_sig_bytes pk sg /\
      det_check blk = Accept /\
      block_cbor empty_block = Ok empty_block_bytes /\
      data_to_be_signed (H512 file) empty_block_bytes (pk_attrs pk) = Ok dtbs /\
      strat_sign dtbs = Ok sg /\ ed_ok pk dtbs sg = true /\
      Valid_self (H512 file) (ib_stack (one_sig_block pk sg)).
  Proof.
    intros H. apply sign_file_ok_iff in H. destruct H as [Ho [sg [H1 [H2 [H3 H4]]]]].
    exists (one_sig_bytes pk sg), sg, (sign_file_dtbs file pk).
    split; [exact H4|]. split; [apply block_cbor_one_sig|]. split; [reflexivity|].
    split; [exact H3|]. split; [reflexivity|]. split; [apply dtbs_pk|].
    split; [exact H1|]. split; [exact H2|].
    exists [pk]. split.
    - apply (VS_cons _ _ _ _ _ empty_block_bytes (sign_file_dtbs file pk)).
      + reflexivity.
      + apply det_accepts_iff. exact det_accepts_empty.
      + apply dtbs_pk.
      + exact H2.
      + constructor.
    - constructor; [left; reflexivity|constructor].
  Qed.

  Theorem sign_file_err_obtain (file pk : bytes) :
    obtain file = Err -> sign_file H512 strat_sign ed_ok file pk = Err.
  Proof. intros H. unfold sign_file. rewrite H. reflexivity. Qed.

  Theorem sign_file_err_strategy (file pk : bytes) :
    strat_sign (sign_file_dtbs file pk) = Err -> sign_file H512 strat_sign ed_ok file pk = Err.
  Proof.
    intros H. destruct (obtain_never_panics file) as [E|E]; [apply sign_file_err_obtain; exact E|].
    rewrite (sign_file_unfold file pk E), H. reflexivity.
  Qed.

  Theorem sign_file_err_verify (file pk sg : bytes) :
    strat_sign (sign_file_dtbs file pk) = Ok sg ->
    ed_ok pk (sign_file_dtbs file pk) sg = false ->
    sign_file H512 strat_sign ed_ok file pk = Err.
  Proof.
    intros H1 H2. destruct (obtain_never_panics file) as [E|E]; [apply sign_file_err_obtain; exact E|].
    rewrite (sign_file_unfold file pk E), H1. cbn [bind]. rewrite H2. reflexivity.
  Qed.

  (* the three refusals of the C07 text, at the level of the whole flow *)
  Theorem sign_file_refusals (file pre trail pk : bytes) :
    wfb file -> lenN file < two63 -> file = pre ++ trail -> lenN trail = 8 ->
    unbe trail <> lenN file -> sign_file H512 strat_sign ed_ok file pk = Err.
  Proof.
    intros W Hsz E HL Hne. apply sign_file_err_obtain.
    destruct (N.lt_total (unbe trail) (lenN file)) as [C|[C|C]]; [|contradiction|].
    - eapply obtain_refuses_existing_block; eassumption.
    - eapply obtain_refuses_larger; eassumption.
  Qed.

  Lemma one_sig_block_wf (pk sg : bytes) :
    wfb pk -> lenN pk < two64 -> wfb sg -> lenN sg < two64 -> block_wf (one_sig_block pk sg).
  Proof.
    intros Wp Lp Ws Ls. split; [reflexivity|]. constructor; [|constructor].
    split; [|split; assumption]. cbn [is_attrs]. split.
    - split; [reflexivity|]. constructor; [|constructor]. split; [reflexivity|exact Lp].
    - constructor; [exact Wp|constructor].
  Qed.

  (* completeness: on an unsigned bundle, with a signature that verifies, the
     flow succeeds - in particular neither deterministic check can fail *)
  Theorem sign_file_complete (file pk sg : bytes) :
    obtain file = Ok empty_block ->
    wfb pk -> lenN pk < two64 -> wfb sg -> lenN sg < two64 ->
    strat_sign (sign_file_dtbs file pk) = Ok sg ->
    ed_ok pk (sign_file_dtbs file pk) sg = true ->
    sign_file H512 strat_sign ed_ok file pk = Ok (one_sig_bytes pk sg ++ file).
  Proof.
    intros Ho Wp Lp Ws Ls H1 H2. apply sign_file_ok_iff. split; [exact Ho|].
    exists sg. split; [exact H1|]. split; [exact H2|]. split; [|reflexivity].
    apply (block_cbor_det (one_sig_block pk sg)); [apply one_sig_block_wf; assumption|].
    apply block_cbor_one_sig.
  Qed.

  (* no panic and no divergence unless the signing strategy itself panics *)
  Theorem sign_file_never_panics (file pk : bytes) :
    (forall m, strat_sign m <> Panic /\ strat_sign m <> Fuel) ->
    sign_file H512 strat_sign ed_ok file pk = Err \/
    exists out, sign_file H512 strat_sign ed_ok file pk = Ok out.
  Proof.
    intros Hs. destruct (obtain_never_panics file) as [E|E]; [left; apply sign_file_err_obtain; exact E|].
    rewrite (sign_file_unfold file pk E).
    destruct (Hs (sign_file_dtbs file pk)) as [N1 N2].
    destruct (strat_sign (sign_file_dtbs file pk)) as [sg| | |]; cbn [bind];
      [|left; reflexivity|contradiction|contradiction].
    destruct (negb (ed_ok _ _ _)); [left; reflexivity|].
    destruct (negb (det_accepts _)); [left; reflexivity|right; eexists; reflexivity].
  Qed.
End Sign.
