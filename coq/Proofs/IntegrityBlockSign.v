(* Proofs/IntegrityBlockSign.v - C07, part 3: ObtainIntegrityBlock,
   SignAndAddNewSignature, the signature-stack invariant for any sequence of
   signing operations, and SignWithIntegrityBlock. *)
From Coq Require Import Lia ZifyN ZifyNat ZifyBool Permutation Sorted.
From WP Require Import Base.Prelude Model.Cbor Model.Det Model.IntegrityBlock.
From WP Require Import Proofs.BaseLemmas Proofs.IntegrityBlockBase Proofs.IntegrityBlockCbor.
Ltac Zify.zify_post_hook ::= Z.div_mod_to_equations.
Open Scope N_scope.

Definition empty_block : iblock := {| ib_stack := [] |}.
Definition empty_block_bytes : bytes :=
  [131; 72; 240; 159; 150; 139; 240; 159; 147; 166; 68; 49; 98; 0; 0; 128].

(* ---- ObtainIntegrityBlock --------------------------------------------------- *)
(* integrityBlockLen := fileStats.Size() - webBundleLen, in int64 arithmetic *)
Definition obtain_d (size t : N) : Z := to_i64 (of_i64w (Z.of_N size - to_i64 t)).

Lemma obtain_cases (file pre trail : bytes) :
  file = pre ++ trail -> lenN trail = 8 ->
  obtain file =
  if (obtain_d (lenN file) (unbe trail) <? 0)%Z then Err
  else if negb (obtain_d (lenN file) (unbe trail) =? 0)%Z then Err
  else Ok empty_block.
Proof.
  intros E HL. unfold obtain. cbv zeta.
  assert (Hsz : lenN file = lenN pre + 8) by (rewrite E, lenN_app, HL; reflexivity).
  destruct (N.ltb_spec (lenN file) 8) as [Hlt|Hge]; [lia|].
  assert (Hs : splitN file (lenN file - 8) = Some (pre, trail)).
  { apply splitN_some_iff. split; [exact E|lia]. }
  rewrite Hs. reflexivity.
Qed.

Lemma last8_exists (file : bytes) :
  8 <= lenN file -> exists pre trail, file = pre ++ trail /\ lenN trail = 8.
Proof.
  intros Hge. destruct (splitN_total file (lenN file - 8)) as [a [b Hs]]; [lia|].
  apply splitN_spec in Hs. destruct Hs as [E HL]. exists a, b. split; [exact E|].
  assert (HL2 : lenN file = lenN a + lenN b) by (rewrite E at 1; apply lenN_app). lia.
Qed.

Lemma last8_unique (pre trail pre' trail' : bytes) :
  pre ++ trail = pre' ++ trail' -> lenN trail = 8 -> lenN trail' = 8 -> trail = trail'.
Proof.
  intros E H1 H2. apply app_inv_lenN in E; [exact (proj2 E)|].
  assert (HL : lenN (pre ++ trail) = lenN (pre' ++ trail')) by (rewrite E; reflexivity).
  rewrite !lenN_app in HL. lia.
Qed.

Theorem obtain_short_file (file : bytes) : lenN file < 8 -> obtain file = Err.
Proof.
  intros Hlt. unfold obtain. cbv zeta.
  destruct (N.ltb_spec (lenN file) 8) as [_|Hge]; [reflexivity|lia].
Qed.

(* no panic, no divergence, for any input at all *)
Theorem obtain_never_panics (file : bytes) :
  obtain file = Err \/ obtain file = Ok empty_block.
Proof.
  destruct (N.ltb_spec (lenN file) 8) as [Hlt|Hge]; [left; apply obtain_short_file; exact Hlt|].
  destruct (last8_exists file Hge) as [pre [trail [E HL]]].
  rewrite (obtain_cases file pre trail E HL).
  destruct (_ <? 0)%Z; [left; reflexivity|].
  destruct (negb _); [left|right]; reflexivity.
Qed.

Lemma obtain_ok_empty (file : bytes) (b : iblock) : obtain file = Ok b -> b = empty_block.
Proof.
  intros H. destruct (obtain_never_panics file) as [E|E]; rewrite E in H; [discriminate|].
  injection H as <-. reflexivity.
Qed.

Lemma trail_lt (trail : bytes) : wfb trail -> lenN trail = 8 -> unbe trail < two64.
Proof.
  intros W HL. pose proof (BaseLemmas.unbe_lt trail W) as H. rewrite HL in H. exact H.
Qed.

(* the int64 arithmetic of the two tests, for a file size that is an int64
   and a trailing field that is a uint64 *)
Lemma obtain_d_zero (size t : N) :
  size < two63 -> t < two64 -> (obtain_d size t = 0%Z <-> t = size).
Proof.
  intros Hs Ht. unfold obtain_d, to_i64, of_i64w, two63, two64 in *.
  destruct (N.ltb_spec t 9223372036854775808) as [C1|C1];
    match goal with |- context [N.ltb ?x ?y] => destruct (N.ltb_spec x y) as [C2|C2] end;
    lia.
Qed.

Lemma obtain_d_larger (size t : N) :
  size < two63 -> t < two64 -> size < t ->
  (obtain_d size t < 0)%Z \/ (obtain_d size t <> 0)%Z.
Proof.
  intros Hs Ht Hlt. right. intros E. apply obtain_d_zero in E; [lia|assumption|assumption].
Qed.

Lemma obtain_d_smaller (size t : N) :
  size < two63 -> t < size -> (0 < obtain_d size t)%Z.
Proof.
  intros Hs Hlt. unfold obtain_d, to_i64, of_i64w, two63, two64 in *.
  destruct (N.ltb_spec t 9223372036854775808) as [C1|C1]; [|lia].
  match goal with |- context [N.ltb ?x ?y] => destruct (N.ltb_spec x y) as [C2|C2] end; lia.
Qed.

(* trailing length as a uint64 below 2^63 and above the size: the difference
   is negative (first error message); at or above 2^63 the int64 conversion
   makes it negative and the difference positive or wrapped (second message
   or first): an error either way *)
Lemma obtain_d_larger_small (size t : N) :
  size < two63 -> t < two63 -> size < t -> (obtain_d size t < 0)%Z.
Proof.
  intros Hs Ht Hlt. unfold obtain_d, to_i64, of_i64w, two63, two64 in *.
  destruct (N.ltb_spec t 9223372036854775808) as [C1|C1]; [|lia].
  match goal with |- context [N.ltb ?x ?y] => destruct (N.ltb_spec x y) as [C2|C2] end; lia.
Qed.

Lemma obtain_err_of_nonzero (file pre trail : bytes) :
  file = pre ++ trail -> lenN trail = 8 ->
  obtain_d (lenN file) (unbe trail) <> 0%Z -> obtain file = Err.
Proof.
  intros E HL Hd. rewrite (obtain_cases file pre trail E HL).
  destruct (_ <? 0)%Z; [reflexivity|].
  destruct (Z.eqb_spec (obtain_d (lenN file) (unbe trail)) 0) as [C|C]; [contradiction|reflexivity].
Qed.

Theorem obtain_ok_iff (file : bytes) (b : iblock) :
  wfb file -> lenN file < two63 ->
  (obtain file = Ok b <->
   8 <= lenN file /\
   (exists pre trail, file = pre ++ trail /\ lenN trail = 8 /\ unbe trail = lenN file) /\
   b = empty_block).
Proof.
  intros W Hsz. split.
  - intros H.
    destruct (N.ltb_spec (lenN file) 8) as [Hlt|Hge];
      [rewrite (obtain_short_file file Hlt) in H; discriminate|].
    split; [exact Hge|]. split; [|eapply obtain_ok_empty; exact H].
    destruct (last8_exists file Hge) as [pre [trail [E HL]]].
    exists pre, trail. split; [exact E|]. split; [exact HL|].
    assert (Wt : wfb trail) by (rewrite E in W; apply wfb_app in W; exact (proj2 W)).
    apply (obtain_d_zero (lenN file) (unbe trail) Hsz (trail_lt trail Wt HL)).
    destruct (Z.eq_dec (obtain_d (lenN file) (unbe trail)) 0) as [C|C]; [exact C|].
    rewrite (obtain_err_of_nonzero file pre trail E HL C) in H. discriminate.
  - intros [Hge [[pre [trail [E [HL Hu]]]] Eb]]. subst b.
    assert (Wt : wfb trail) by (rewrite E in W; apply wfb_app in W; exact (proj2 W)).
    rewrite (obtain_cases file pre trail E HL).
    assert (Hd : obtain_d (lenN file) (unbe trail) = 0%Z)
      by (apply obtain_d_zero; [exact Hsz|exact (trail_lt trail Wt HL)|exact Hu]).
    rewrite Hd. reflexivity.
Qed.

Theorem obtain_refuses_larger (file pre trail : bytes) :
  wfb file -> lenN file < two63 -> file = pre ++ trail -> lenN trail = 8 ->
  lenN file < unbe trail -> obtain file = Err.
Proof.
  intros W Hsz E HL Hlt.
  assert (Wt : wfb trail) by (rewrite E in W; apply wfb_app in W; exact (proj2 W)).
  apply (obtain_err_of_nonzero file pre trail E HL).
  intros C. apply obtain_d_zero in C; [lia|exact Hsz|exact (trail_lt trail Wt HL)].
Qed.

Theorem obtain_refuses_existing_block (file pre trail : bytes) :
  lenN file < two63 -> file = pre ++ trail -> lenN trail = 8 ->
  unbe trail < lenN file -> obtain file = Err.
Proof.
  intros Hsz E HL Hlt.
  apply (obtain_err_of_nonzero file pre trail E HL).
  pose proof (obtain_d_smaller (lenN file) (unbe trail) Hsz Hlt). lia.
Qed.

(* ---- SignAndAddNewSignature -------------------------------------------------- *)
Lemma det_accepts_iff (bs : bytes) : det_accepts bs = true <-> det_check bs = Accept.
Proof. unfold det_accepts. destruct (det_check bs); split; congruence. Qed.

(* ---- the key recorded in an attributes map ------------------------------------ *)
(* Go: signatureAttributes["ed25519PublicKey"], nil when absent.  The model's
   attributes are an association list; the lookup is [find], i.e. the FIRST
   entry with that name.  (A Go map has one entry per name; a list with the
   name twice is refused by attrs_cbor, see sign_and_add_ok_nodup.) *)
Definition is_pk_attr (kv : bytes * bytes) : bool := bytes_eqb (fst kv) pk_attr_name.
Definition attr_pk (a : attrs) : bytes :=
  match find is_pk_attr a with Some kv => snd kv | None => [] end.
(* the entry found under "ed25519PublicKey" is (that name, pk) *)
Definition recorded_key (a : attrs) (pk : bytes) : Prop :=
  find is_pk_attr a = Some (pk_attr_name, pk).

Lemma find_pk_attr_some (a : attrs) (kv : bytes * bytes) :
  find is_pk_attr a = Some kv -> In kv a /\ fst kv = pk_attr_name.
Proof.
  intros H. apply find_some in H. destruct H as [H1 H2]. split; [exact H1|].
  apply bytes_eqb_eq. exact H2.
Qed.

Lemma recorded_key_attr_pk (a : attrs) (pk : bytes) : recorded_key a pk -> attr_pk a = pk.
Proof. unfold recorded_key, attr_pk. intros ->. reflexivity. Qed.

Lemma recorded_key_in (a : attrs) (pk : bytes) : recorded_key a pk -> In (pk_attr_name, pk) a.
Proof. intros H. apply find_pk_attr_some in H. exact (proj1 H). Qed.

Lemma recorded_key_fun (a : attrs) (pk pk' : bytes) :
  recorded_key a pk -> recorded_key a pk' -> pk = pk'.
Proof. unfold recorded_key. intros H1 H2. rewrite H1 in H2. injection H2 as E. exact E. Qed.

(* a non-empty looked-up value comes from an entry of the list *)
Lemma attr_pk_recorded (a : attrs) (pk : bytes) :
  attr_pk a = pk -> pk <> [] -> recorded_key a pk.
Proof.
  unfold attr_pk, recorded_key. intros H Hne.
  destruct (find is_pk_attr a) as [[k v]|] eqn:Hf.
  - apply find_pk_attr_some in Hf. destruct Hf as [_ Hk]. cbn [fst snd] in *. subst k v. reflexivity.
  - symmetry in H. contradiction.
Qed.

Lemma attr_pk_none (a : attrs) : (forall v, ~ In (pk_attr_name, v) a) -> attr_pk a = [].
Proof.
  intros Hn. unfold attr_pk. destruct (find is_pk_attr a) as [[k v]|] eqn:Hf; [|reflexivity].
  apply find_pk_attr_some in Hf. destruct Hf as [Hi Hk]. cbn [fst] in Hk. subst k.
  exfalso. exact (Hn v Hi).
Qed.

Lemma in_find_pk_attr (a : attrs) (v : bytes) :
  In (pk_attr_name, v) a -> exists v', recorded_key a v'.
Proof.
  intros Hi. unfold recorded_key. destruct (find is_pk_attr a) as [[k v']|] eqn:Hf.
  - exists v'. apply find_pk_attr_some in Hf. destruct Hf as [_ Hk]. cbn [fst] in Hk. subst k. reflexivity.
  - exfalso. pose proof (find_none _ _ Hf _ Hi) as Hn. unfold is_pk_attr in Hn. cbn [fst] in Hn.
    rewrite bytes_eqb_refl in Hn. discriminate.
Qed.

(* the recorded key is unambiguous: a successfully encoded attributes map
   has no two entries with the same name *)
Lemma nodup_value_unique (a : attrs) (k v v' : bytes) :
  NoDup (map fst a) -> In (k, v) a -> In (k, v') a -> v = v'.
Proof.
  intros H.
  induction a as [|[k0 v0] a IH]; cbn [map fst] in H; intros H1 H2; [destruct H1|].
  inversion H as [|x l Hnin HN]; subst.
  destruct H1 as [E1|H1], H2 as [E2|H2].
  - congruence.
  - injection E1 as -> ->. exfalso. apply Hnin. apply (in_map fst) in H2. exact H2.
  - injection E2 as -> ->. exfalso. apply Hnin. apply (in_map fst) in H1. exact H1.
  - apply IH; assumption.
Qed.

Lemma attr_value_unique (a : attrs) (ab k v v' : bytes) :
  attrs_cbor a = Ok ab -> In (k, v) a -> In (k, v') a -> v = v'.
Proof. intros H. apply attrs_keys_nodup in H. apply nodup_value_unique. exact H. Qed.

(* with distinct names, "the list contains (name, pk)" and "the lookup finds
   pk" are the same thing *)
Lemma nodup_in_recorded (a : attrs) (pk : bytes) :
  NoDup (map fst a) -> In (pk_attr_name, pk) a -> recorded_key a pk.
Proof.
  intros HN Hi. destruct (in_find_pk_attr a pk Hi) as [v' Hr].
  rewrite (nodup_value_unique a pk_attr_name pk v' HN Hi (recorded_key_in a v' Hr)). exact Hr.
Qed.

Lemma Forall2_rev {A B} (P : A -> B -> Prop) (l : list A) (l' : list B) :
  Forall2 P l l' -> Forall2 P (rev l) (rev l').
Proof.
  induction 1 as [|x y l l' Hxy HF IH]; cbn [rev]; [constructor|].
  apply Forall2_app; [exact IH|constructor; [exact Hxy|constructor]].
Qed.

Lemma Forall2_map_left {A B C} (f : A -> B) (P : B -> C -> Prop) (l : list A) :
  forall l', Forall2 P (map f l) l' <-> Forall2 (fun x y => P (f x) y) l l'.
Proof.
  induction l as [|x l IH]; intros l'; cbn [map]; split; intros H; inversion H; subst;
    constructor; try assumption; apply IH; assumption.
Qed.

Lemma Forall2_impl {A B} (P Q : A -> B -> Prop) (l : list A) (l' : list B) :
  (forall x y, P x y -> Q x y) -> Forall2 P l l' -> Forall2 Q l l'.
Proof. intros HI. induction 1; constructor; auto. Qed.

Lemma iblock_eta (b : iblock) : {| ib_stack := ib_stack b |} = b.
Proof. destruct b. reflexivity. Qed.

Definition push (b : iblock) (a : attrs) (sg : bytes) : iblock :=
  {| ib_stack := {| is_attrs := a; is_sig := sg |} :: ib_stack b |}.

Definition no_panic (strat : bytes -> R bytes) : Prop :=
  forall m, strat m <> Panic /\ strat m <> Fuel.

Section SignAdd.
  Variable strat_sign : bytes -> R bytes.
  Variable ed_ok : bytes -> bytes -> bytes -> bool.

  Lemma sign_and_add_unfold (hash : bytes) (b : iblock) (pk : bytes) (a : attrs) :
    sign_and_add strat_sign ed_ok hash b pk a =
    if negb (bytes_eqb (attr_pk a) pk) then Err else
    let* blk := block_cbor b in
    if negb (det_accepts blk) then Err
    else
      let* dtbs := data_to_be_signed hash blk a in
      let* sg := strat_sign dtbs in
      if negb (lenN pk =? 32) then Err
      else if negb (ed_ok pk dtbs sg) then Err
      else Ok (push b a sg).
  Proof. reflexivity. Qed.

  (* success, exactly: the attributes carry the key (first), the key has the
     Ed25519 length (tested after the strategy has signed), the block and the
     attributes serialize, the strategy signs, the signature verifies *)
  Theorem sign_and_add_ok_iff (hash : bytes) (b : iblock) (pk : bytes) (a : attrs) (b' : iblock) :
    sign_and_add strat_sign ed_ok hash b pk a = Ok b' <->
    attr_pk a = pk /\ lenN pk = 32 /\
    exists blk dtbs sg,
      block_cbor b = Ok blk /\ det_check blk = Accept /\
      data_to_be_signed hash blk a = Ok dtbs /\
      strat_sign dtbs = Ok sg /\ ed_ok pk dtbs sg = true /\
      b' = push b a sg.
  Proof.
    rewrite sign_and_add_unfold. split.
    - destruct (bytes_eqb (attr_pk a) pk) eqn:Ha; cbn [negb]; [|discriminate].
      apply bytes_eqb_eq in Ha.
      destruct (block_cbor b) as [blk| | |] eqn:Hb; cbn [bind]; try discriminate.
      destruct (det_accepts blk) eqn:Hd; cbn [negb]; [|discriminate].
      destruct (data_to_be_signed hash blk a) as [dtbs| | |] eqn:Hdt; cbn [bind]; try discriminate.
      destruct (strat_sign dtbs) as [sg| | |] eqn:Hs; cbn [bind]; try discriminate.
      destruct (N.eqb_spec (lenN pk) 32) as [Hl|Hl]; cbn [negb]; [|discriminate].
      destruct (ed_ok pk dtbs sg) eqn:He; cbn [negb]; [|discriminate].
      intros H. injection H as <-. split; [exact Ha|]. split; [exact Hl|]. exists blk, dtbs, sg.
      apply det_accepts_iff in Hd. repeat split; try assumption; reflexivity.
    - intros [Ha [Hl [blk [dtbs [sg [H1 [H2 [H3 [H4 [H5 H6]]]]]]]]]].
      apply bytes_eqb_eq in Ha. rewrite Ha. cbn [negb].
      rewrite H1. cbn [bind]. apply det_accepts_iff in H2. rewrite H2. cbn [negb].
      rewrite H3. cbn [bind]. rewrite H4. cbn [bind].
      apply N.eqb_eq in Hl. rewrite Hl. cbn [negb]. rewrite H5. cbn [negb].
      rewrite H6. reflexivity.
  Qed.

  Theorem sign_and_add_checked (hash : bytes) (b : iblock) (pk : bytes) (a : attrs) (b' : iblock) :
    sign_and_add strat_sign ed_ok hash b pk a = Ok b' ->
    exists blk dtbs sg,
      block_cbor b = Ok blk /\ data_to_be_signed hash blk a = Ok dtbs /\
      strat_sign dtbs = Ok sg /\ ed_ok pk dtbs sg = true /\
      ib_stack b' = {| is_attrs := a; is_sig := sg |} :: ib_stack b.
  Proof.
    intros H. apply sign_and_add_ok_iff in H.
    destruct H as [_ [_ [blk [dtbs [sg [H1 [H2 [H3 [H4 [H5 H6]]]]]]]]]].
    exists blk, dtbs, sg. subst b'. repeat split; assumption.
  Qed.

  (* a successful call was given attributes that record, under
     "ed25519PublicKey", exactly the 32-byte key the signature was verified
     with: the lookup (first entry of that name) finds an entry, and its
     value is pk *)
  Theorem sign_and_add_ok_attr (hash : bytes) (b : iblock) (pk : bytes) (a : attrs) (b' : iblock) :
    sign_and_add strat_sign ed_ok hash b pk a = Ok b' ->
    find (fun kv => bytes_eqb (fst kv) pk_attr_name) a = Some (pk_attr_name, pk) /\ lenN pk = 32.
  Proof.
    intros H. apply sign_and_add_ok_iff in H. destruct H as [Ha [Hl _]].
    split; [|exact Hl]. apply (attr_pk_recorded a pk Ha). intros E. rewrite E in Hl. discriminate.
  Qed.

  (* ... and there is no other entry of that name: the attributes have been
     encoded (for the data to be signed), which refuses a repeated name *)
  Theorem sign_and_add_ok_nodup (hash : bytes) (b : iblock) (pk : bytes) (a : attrs) (b' : iblock) :
    sign_and_add strat_sign ed_ok hash b pk a = Ok b' -> NoDup (map fst a).
  Proof.
    intros H. apply sign_and_add_ok_iff in H.
    destruct H as [_ [_ [blk [dtbs [sg [_ [_ [H3 _]]]]]]]].
    apply dtbs_ok_iff in H3. destruct H3 as [ab [H3 _]]. eapply attrs_keys_nodup. exact H3.
  Qed.

  Theorem sign_and_add_ok_attr_unique (hash : bytes) (b : iblock) (pk : bytes) (a : attrs) (b' : iblock) :
    sign_and_add strat_sign ed_ok hash b pk a = Ok b' ->
    In (pk_attr_name, pk) a /\ (forall v, In (pk_attr_name, v) a -> v = pk) /\ lenN pk = 32.
  Proof.
    intros H. pose proof (sign_and_add_ok_nodup _ _ _ _ _ H) as HN.
    apply sign_and_add_ok_attr in H. destruct H as [Hr Hl].
    pose proof (recorded_key_in a pk Hr) as Hi.
    split; [exact Hi|]. split; [|exact Hl].
    intros v Hv. exact (nodup_value_unique a pk_attr_name v pk HN Hv Hi).
  Qed.

  (* ---- refusals ---------------------------------------------------------------- *)
  (* All of these return without a block.  The function is pure; its input
     block [b] is a value and is by construction unchanged - the only block
     with the new signature is the one returned inside Ok. *)

  (* the attributes carry another key, or none: error, before anything is
     serialized or signed *)
  Theorem sign_and_add_wrong_attr_err (hash : bytes) (b : iblock) (pk : bytes) (a : attrs) :
    attr_pk a <> pk -> sign_and_add strat_sign ed_ok hash b pk a = Err.
  Proof.
    intros H. rewrite sign_and_add_unfold. apply bytes_eqb_neq in H. rewrite H. reflexivity.
  Qed.

  (* the lookup finds another key *)
  Theorem sign_and_add_other_key_err (hash : bytes) (b : iblock) (pk pk' : bytes) (a : attrs) :
    recorded_key a pk' -> pk' <> pk -> sign_and_add strat_sign ed_ok hash b pk a = Err.
  Proof.
    intros Hr Hne. apply sign_and_add_wrong_attr_err. rewrite (recorded_key_attr_pk a pk' Hr). exact Hne.
  Qed.

  (* no entry of that name (Go: the nil slice), key not empty *)
  Theorem sign_and_add_no_key_err (hash : bytes) (b : iblock) (pk : bytes) (a : attrs) :
    (forall v, ~ In (pk_attr_name, v) a) -> pk <> [] ->
    sign_and_add strat_sign ed_ok hash b pk a = Err.
  Proof.
    intros Hn Hne. apply sign_and_add_wrong_attr_err. rewrite (attr_pk_none a Hn).
    intros E. apply Hne. symmetry. exact E.
  Qed.

  (* in terms of list membership only, for ANY association list (names may
     repeat): an entry ("ed25519PublicKey", v) with v <> pk anywhere in the
     list is an error - either the lookup finds a wrong value, or it finds pk
     and then the name occurs twice and the attributes do not encode *)
  Theorem sign_and_add_other_key_in_err (hash : bytes) (b : iblock) (pk v : bytes) (a : attrs) :
    In (pk_attr_name, v) a -> v <> pk -> sign_and_add strat_sign ed_ok hash b pk a = Err.
  Proof.
    intros Hi Hne. destruct (in_find_pk_attr a v Hi) as [v' Hr].
    destruct (bytes_eqb v' pk) eqn:E.
    - apply bytes_eqb_eq in E. subst v'.
      rewrite sign_and_add_unfold. destruct (negb (bytes_eqb (attr_pk a) pk)); [reflexivity|].
      destruct (block_cbor_ok_or_err b) as [Hb|[blk Hb]]; rewrite Hb; cbn [bind]; [reflexivity|].
      destruct (negb (det_accepts blk)); [reflexivity|].
      destruct (dtbs_ok_or_err hash blk a) as [Hd|[d Hd]]; rewrite Hd; cbn [bind]; [reflexivity|].
      exfalso. apply dtbs_ok_iff in Hd. destruct Hd as [ab [Hab _]].
      apply Hne. exact (attr_value_unique a ab pk_attr_name v pk Hab Hi (recorded_key_in a pk Hr)).
    - apply bytes_eqb_neq in E. eapply sign_and_add_other_key_err; eassumption.
  Qed.

  Theorem sign_and_add_not_recorded_err (hash : bytes) (b : iblock) (pk : bytes) (a : attrs) :
    ~ In (pk_attr_name, pk) a -> pk <> [] -> sign_and_add strat_sign ed_ok hash b pk a = Err.
  Proof.
    intros Hn Hne. apply sign_and_add_wrong_attr_err. intros E.
    apply Hn. apply recorded_key_in. apply attr_pk_recorded; assumption.
  Qed.

  (* a repeated attribute name (impossible for a Go map) never succeeds *)
  Theorem sign_and_add_dup_name_err (hash : bytes) (b : iblock) (pk : bytes) (a : attrs) :
    ~ NoDup (map fst a) -> sign_and_add strat_sign ed_ok hash b pk a = Err.
  Proof.
    intros HN. rewrite sign_and_add_unfold. destruct (negb (bytes_eqb (attr_pk a) pk)); [reflexivity|].
    destruct (block_cbor_ok_or_err b) as [Hb|[blk Hb]]; rewrite Hb; cbn [bind]; [reflexivity|].
    destruct (negb (det_accepts blk)); [reflexivity|].
    destruct (dtbs_ok_or_err hash blk a) as [Hd|[d Hd]]; rewrite Hd; cbn [bind]; [reflexivity|].
    exfalso. apply dtbs_ok_iff in Hd. destruct Hd as [ab [Hab _]].
    apply HN. eapply attrs_keys_nodup. exact Hab.
  Qed.

  (* a key that is not 32 bytes long is never recorded (whatever ed_ok says) *)
  Theorem sign_and_add_bad_key_length_never_ok (hash : bytes) (b : iblock) (pk : bytes) (a : attrs) :
    lenN pk <> 32 -> forall b', sign_and_add strat_sign ed_ok hash b pk a <> Ok b'.
  Proof.
    intros Hl b' H. apply sign_and_add_ok_iff in H. destruct H as [_ [Hl' _]]. contradiction.
  Qed.

  (* the length is tested by VerifyEd25519Signature, i.e. after the strategy
     has been asked to sign: the result is the error unless the strategy
     itself panics or diverges *)
  Theorem sign_and_add_bad_key_length_err (hash : bytes) (b : iblock) (pk : bytes) (a : attrs) :
    no_panic strat_sign -> lenN pk <> 32 -> sign_and_add strat_sign ed_ok hash b pk a = Err.
  Proof.
    intros Hs Hl. rewrite sign_and_add_unfold. destruct (negb (bytes_eqb (attr_pk a) pk)); [reflexivity|].
    destruct (block_cbor_ok_or_err b) as [Hb|[blk Hb]]; rewrite Hb; cbn [bind]; [reflexivity|].
    destruct (negb (det_accepts blk)); [reflexivity|].
    destruct (dtbs_ok_or_err hash blk a) as [Hd|[d Hd]]; rewrite Hd; cbn [bind]; [reflexivity|].
    destruct (Hs d) as [N1 N2].
    destruct (strat_sign d) as [sg| | |]; cbn [bind]; [|reflexivity|contradiction|contradiction].
    destruct (N.eqb_spec (lenN pk) 32) as [C|C]; [contradiction|reflexivity].
  Qed.

  (* the form of sign_and_add_mismatch: everything up to the verification
     succeeds, the key has the wrong length *)
  Theorem sign_and_add_bad_key_length (hash : bytes) (b : iblock) (pk : bytes) (a : attrs)
      (blk dtbs sg : bytes) :
    block_cbor b = Ok blk -> data_to_be_signed hash blk a = Ok dtbs ->
    strat_sign dtbs = Ok sg -> lenN pk <> 32 ->
    sign_and_add strat_sign ed_ok hash b pk a = Err.
  Proof.
    intros H1 H3 H4 Hl. rewrite sign_and_add_unfold.
    destruct (negb (bytes_eqb (attr_pk a) pk)); [reflexivity|]. rewrite H1. cbn [bind].
    destruct (det_accepts blk); cbn [negb]; [|reflexivity].
    rewrite H3. cbn [bind]. rewrite H4. cbn [bind].
    destruct (N.eqb_spec (lenN pk) 32) as [C|C]; [contradiction|reflexivity].
  Qed.

  (* the signature obtained does not verify under the key about to be
     recorded: error *)
  Theorem sign_and_add_mismatch (hash : bytes) (b : iblock) (pk : bytes) (a : attrs)
      (blk dtbs sg : bytes) :
    block_cbor b = Ok blk -> data_to_be_signed hash blk a = Ok dtbs ->
    strat_sign dtbs = Ok sg -> ed_ok pk dtbs sg = false ->
    sign_and_add strat_sign ed_ok hash b pk a = Err.
  Proof.
    intros H1 H3 H4 H5. rewrite sign_and_add_unfold.
    destruct (negb (bytes_eqb (attr_pk a) pk)); [reflexivity|]. rewrite H1. cbn [bind].
    destruct (det_accepts blk); cbn [negb]; [|reflexivity].
    rewrite H3. cbn [bind]. rewrite H4. cbn [bind]. rewrite H5.
    destruct (negb (lenN pk =? 32)); reflexivity.
  Qed.

  Theorem sign_and_add_mismatch_never_ok (hash : bytes) (b : iblock) (pk : bytes) (a : attrs) :
    (forall blk dtbs sg, block_cbor b = Ok blk -> data_to_be_signed hash blk a = Ok dtbs ->
                         strat_sign dtbs = Ok sg -> ed_ok pk dtbs sg = false) ->
    forall b', sign_and_add strat_sign ed_ok hash b pk a <> Ok b'.
  Proof.
    intros Hbad b' H. apply sign_and_add_ok_iff in H.
    destruct H as [_ [_ [blk [dtbs [sg [H1 [H2 [H3 [H4 [H5 H6]]]]]]]]]].
    rewrite (Hbad blk dtbs sg H1 H3 H4) in H5. discriminate.
  Qed.

  (* a failing signing strategy is passed on *)
  Theorem sign_and_add_strategy_fails (hash : bytes) (b : iblock) (pk : bytes) (a : attrs)
      (blk dtbs : bytes) :
    block_cbor b = Ok blk -> data_to_be_signed hash blk a = Ok dtbs ->
    strat_sign dtbs = Err -> sign_and_add strat_sign ed_ok hash b pk a = Err.
  Proof.
    intros H1 H3 H4. rewrite sign_and_add_unfold.
    destruct (negb (bytes_eqb (attr_pk a) pk)); [reflexivity|]. rewrite H1. cbn [bind].
    destruct (det_accepts blk); cbn [negb]; [|reflexivity].
    rewrite H3. cbn [bind]. rewrite H4. reflexivity.
  Qed.

  (* no panic, no divergence unless the strategy's *)
  Theorem sign_and_add_ok_or_err (hash : bytes) (b : iblock) (pk : bytes) (a : attrs) :
    no_panic strat_sign ->
    sign_and_add strat_sign ed_ok hash b pk a = Err \/
    exists b', sign_and_add strat_sign ed_ok hash b pk a = Ok b'.
  Proof.
    intros Hs. rewrite sign_and_add_unfold. destruct (negb (bytes_eqb (attr_pk a) pk)); [left; reflexivity|].
    destruct (block_cbor_ok_or_err b) as [Hb|[blk Hb]]; rewrite Hb; cbn [bind]; [left; reflexivity|].
    destruct (negb (det_accepts blk)); [left; reflexivity|].
    destruct (dtbs_ok_or_err hash blk a) as [Hd|[d Hd]]; rewrite Hd; cbn [bind]; [left; reflexivity|].
    destruct (Hs d) as [N1 N2].
    destruct (strat_sign d) as [sg| | |]; cbn [bind]; [|left; reflexivity|contradiction|contradiction].
    destruct (negb (lenN pk =? 32)); [left; reflexivity|].
    destruct (negb (ed_ok pk d sg)); [left; reflexivity|right; eexists; reflexivity].
  Qed.

  (* ---- any sequence of signing operations -------------------------------------- *)
  Fixpoint sign_all (hash : bytes) (b : iblock) (ops : list (bytes * attrs)) : R iblock :=
    match ops with
    | [] => Ok b
    | (pk, a) :: t =>
        let* b' := sign_and_add strat_sign ed_ok hash b pk a in sign_all hash b' t
    end.

  (* Valid_stack hash st pks: the i-th signature (newest first) verifies under
     the i-th key over the data-to-be-signed built from the hash, the block as
     it stood BEFORE that signature was added (= the rest of the stack), and
     its own attributes *)
  Inductive Valid_stack (hash : bytes) : list isig -> list bytes -> Prop :=
  | VS_nil : Valid_stack hash [] []
  | VS_cons (s : isig) (rest : list isig) (pk : bytes) (pks : list bytes) (blk dtbs : bytes) :
      block_cbor {| ib_stack := rest |} = Ok blk ->
      det_check blk = Accept ->
      data_to_be_signed hash blk (is_attrs s) = Ok dtbs ->
      ed_ok pk dtbs (is_sig s) = true ->
      Valid_stack hash rest pks ->
      Valid_stack hash (s :: rest) (pk :: pks).

  Lemma Valid_stack_nodup (hash : bytes) (st : list isig) (pks : list bytes) :
    Valid_stack hash st pks -> Forall (fun s => NoDup (map fst (is_attrs s))) st.
  Proof.
    induction 1 as [|s rest pk pks blk dtbs H1 H2 H3 H4 HV IH]; constructor; [|exact IH].
    apply dtbs_ok_iff in H3. destruct H3 as [ab [H3 _]]. eapply attrs_keys_nodup. exact H3.
  Qed.

  Lemma sign_all_invariant (hash : bytes) (ops : list (bytes * attrs)) :
    forall b pks b',
      Valid_stack hash (ib_stack b) pks ->
      sign_all hash b ops = Ok b' ->
      exists newer,
        ib_stack b' = newer ++ ib_stack b /\
        map is_attrs newer = rev (map snd ops) /\
        Valid_stack hash (ib_stack b') (rev (map fst ops) ++ pks).
  Proof.
    induction ops as [|[pk a] ops IH]; intros b pks b' HV H; cbn [sign_all] in H.
    - injection H as <-. exists []. repeat split; assumption.
    - destruct (sign_and_add strat_sign ed_ok hash b pk a) as [b1| | |] eqn:H1;
        cbn [bind] in H; try discriminate.
      apply sign_and_add_ok_iff in H1.
      destruct H1 as [_ [_ [blk [dtbs [sg [B1 [B2 [B3 [B4 [B5 B6]]]]]]]]]].
      assert (HV1 : Valid_stack hash (ib_stack b1) (pk :: pks)).
      { subst b1. unfold push. cbn [ib_stack].
        apply (VS_cons hash _ _ _ _ blk dtbs); cbn [is_attrs is_sig];
          first [assumption | rewrite iblock_eta; exact B1]. }
      destruct (IH b1 (pk :: pks) b' HV1 H) as [newer [E1 [E2 E3]]].
      exists (newer ++ [{| is_attrs := a; is_sig := sg |}]). split; [|split].
      + rewrite E1. subst b1. unfold push. cbn [ib_stack]. rewrite <- app_assoc. reflexivity.
      + rewrite map_app, E2. cbn [map rev is_attrs snd]. reflexivity.
      + cbn [map rev fst]. rewrite <- app_assoc. exact E3.
  Qed.

  (* every operation of a successful sequence carried its key *)
  Lemma sign_all_ok_recorded (hash : bytes) (ops : list (bytes * attrs)) :
    forall b b', sign_all hash b ops = Ok b' ->
      Forall (fun op => recorded_key (snd op) (fst op) /\ lenN (fst op) = 32) ops.
  Proof.
    induction ops as [|[pk a] ops IH]; intros b b' H; cbn [sign_all] in H; [constructor|].
    destruct (sign_and_add strat_sign ed_ok hash b pk a) as [b1| | |] eqn:H1;
      cbn [bind] in H; try discriminate.
    constructor; [|exact (IH b1 b' H)]. cbn [fst snd]. eapply sign_and_add_ok_attr. exact H1.
  Qed.

  (* the statement of C07 for any list of signing operations, from the empty
     block: newest first, one entry per operation, every entry valid *)
  Theorem stack_invariant (hash : bytes) (ops : list (bytes * attrs)) (b' : iblock) :
    sign_all hash empty_block ops = Ok b' ->
    Valid_stack hash (ib_stack b') (rev (map fst ops)) /\
    map is_attrs (ib_stack b') = rev (map snd ops) /\
    lenN (ib_stack b') = lenN ops.
  Proof.
    intros H.
    destruct (sign_all_invariant hash ops empty_block [] b' (VS_nil hash) H) as [newer [E1 [E2 E3]]].
    cbn [ib_stack empty_block] in E1. rewrite !app_nil_r in *. subst newer.
    split; [exact E3|]. split; [exact E2|].
    rewrite <- (lenN_map is_attrs), E2, !lenN_length, rev_length, map_length. reflexivity.
  Qed.

  (* self-certifying form: every signature verifies under the key that the
     lookup of "ed25519PublicKey" finds in the signature's OWN attributes (and
     finds in an entry: the key is present, not the nil of a missing name) *)
  Definition Valid_self (hash : bytes) (st : list isig) : Prop :=
    exists pks, Valid_stack hash st pks /\
                Forall2 (fun s pk => recorded_key (is_attrs s) pk) st pks.

  (* the same with plain list membership; no NoDup premise is needed in
     either direction, Valid_stack has encoded every attributes map *)
  Lemma Valid_self_iff_in (hash : bytes) (st : list isig) :
    Valid_self hash st <->
    exists pks, Valid_stack hash st pks /\
                Forall2 (fun s pk => In (pk_attr_name, pk) (is_attrs s)) st pks.
  Proof.
    split; intros [pks [HV HF]]; exists pks; (split; [exact HV|]).
    - eapply Forall2_impl; [|exact HF]. intros s pk. apply recorded_key_in.
    - apply Valid_stack_nodup in HV. clear - HV HF.
      induction HF as [|s pk st pks Hs HF IH]; constructor.
      + inversion HV; subst. apply nodup_in_recorded; assumption.
      + apply IH. inversion HV; assumption.
  Qed.

  (* the keys are determined by the stack *)
  Lemma Valid_self_keys (hash : bytes) (st : list isig) :
    Valid_self hash st <->
    Valid_stack hash st (map (fun s => attr_pk (is_attrs s)) st) /\
    Forall (fun s => recorded_key (is_attrs s) (attr_pk (is_attrs s))) st.
  Proof.
    split.
    - intros [pks [HV HF]].
      assert (E : pks = map (fun s => attr_pk (is_attrs s)) st /\
                  Forall (fun s => recorded_key (is_attrs s) (attr_pk (is_attrs s))) st).
      { clear HV. induction HF as [|s pk st pks Hs HF [IH1 IH2]]; [split; [reflexivity|constructor]|].
        pose proof (recorded_key_attr_pk _ _ Hs) as E. cbn [map]. split.
        - rewrite E, <- IH1. reflexivity.
        - constructor; [rewrite E; exact Hs|exact IH2]. }
      destruct E as [E1 E2]. subst pks. split; assumption.
    - intros [HV HF]. exists (map (fun s => attr_pk (is_attrs s)) st). split; [exact HV|].
      clear HV. induction HF as [|s st Hs HF IH]; cbn [map]; constructor; assumption.
  Qed.

  Lemma Valid_self_nil (hash : bytes) : Valid_self hash [].
  Proof. exists []. split; constructor. Qed.

  (* one successful call keeps the invariant and adds exactly one signature on top *)
  Lemma sign_and_add_keeps_self (hash : bytes) (b : iblock) (pk : bytes) (a : attrs) (b' : iblock) :
    Valid_self hash (ib_stack b) ->
    sign_and_add strat_sign ed_ok hash b pk a = Ok b' ->
    Valid_self hash (ib_stack b') /\
    exists sg, ib_stack b' = {| is_attrs := a; is_sig := sg |} :: ib_stack b.
  Proof.
    intros [pks [HV HF]] H. pose proof (sign_and_add_ok_attr _ _ _ _ _ H) as [Hr Hl].
    apply sign_and_add_ok_iff in H.
    destruct H as [_ [_ [blk [dtbs [sg [B1 [B2 [B3 [B4 [B5 B6]]]]]]]]]].
    subst b'. unfold push. cbn [ib_stack]. split; [|exists sg; reflexivity].
    exists (pk :: pks). split.
    - apply (VS_cons hash _ _ _ _ blk dtbs); cbn [is_attrs is_sig];
        first [assumption | rewrite iblock_eta; exact B1].
    - constructor; [exact Hr|exact HF].
  Qed.

  (* C07 for any successful sequence of signing operations, from any block
     that satisfies the invariant.  No premise on the attributes: that each
     operation's attributes carry its key is enforced by sign_and_add. *)
  Theorem stack_invariant_self_from (hash : bytes) (ops : list (bytes * attrs)) :
    forall (b b' : iblock),
    Valid_self hash (ib_stack b) ->
    sign_all hash b ops = Ok b' ->
    Valid_self hash (ib_stack b') /\
    exists newer, ib_stack b' = newer ++ ib_stack b /\ map is_attrs newer = rev (map snd ops).
  Proof.
    induction ops as [|[pk a] ops IH]; intros b b' HS H; cbn [sign_all] in H.
    - injection H as <-. split; [exact HS|]. exists []. split; reflexivity.
    - destruct (sign_and_add strat_sign ed_ok hash b pk a) as [b1| | |] eqn:H1;
        cbn [bind] in H; try discriminate.
      destruct (sign_and_add_keeps_self hash b pk a b1 HS H1) as [HS1 [sg E1]].
      destruct (IH b1 b' HS1 H) as [HS' [newer [E2 E3]]]. split; [exact HS'|].
      exists (newer ++ [{| is_attrs := a; is_sig := sg |}]). split.
      + rewrite E2, E1, <- app_assoc. reflexivity.
      + rewrite map_app, E3. cbn [map rev is_attrs snd]. reflexivity.
  Qed.

  Theorem stack_invariant_self (hash : bytes) (ops : list (bytes * attrs)) (b' : iblock) :
    sign_all hash empty_block ops = Ok b' ->
    Valid_self hash (ib_stack b') /\ lenN (ib_stack b') = lenN ops /\
    Forall (fun op => recorded_key (snd op) (fst op) /\ lenN (fst op) = 32) ops.
  Proof.
    intros H. destruct (stack_invariant hash ops b' H) as [_ [_ HL]].
    destruct (stack_invariant_self_from hash ops empty_block b' (Valid_self_nil hash) H) as [HS _].
    split; [exact HS|]. split; [exact HL|]. eapply sign_all_ok_recorded. exact H.
  Qed.
End SignAdd.

(* ---- any history of calls on one signer, failing ones included ------------------ *)
(* One call of SignAndAddNewSignature: the strategy held by the signer at that
   moment (the field can be reassigned between calls), the key and the
   attributes passed.  ed25519.Verify is one fixed function. *)
Record attempt := { at_strat : bytes -> R bytes; at_pk : bytes; at_attrs : attrs }.

Section Attempts.
  Variable ed_ok : bytes -> bytes -> bytes -> bool.

  Definition try_sign (hash : bytes) (b : iblock) (t : attempt) : R iblock :=
    sign_and_add (at_strat t) ed_ok hash b (at_pk t) (at_attrs t).

  (* the signer's block after the call: the new block on success, the old one
     on an error (and, to be total, on a panic of the strategy) *)
  Definition attempt_step (hash : bytes) (b : iblock) (t : attempt) : iblock :=
    match try_sign hash b t with Ok b' => b' | _ => b end.

  Fixpoint attempts (hash : bytes) (b : iblock) (ts : list attempt) : iblock :=
    match ts with
    | [] => b
    | t :: r => attempts hash (attempt_step hash b t) r
    end.

  (* the calls that succeeded, oldest first *)
  Fixpoint accepted (hash : bytes) (b : iblock) (ts : list attempt) : list attempt :=
    match ts with
    | [] => []
    | t :: r =>
        match try_sign hash b t with
        | Ok b' => t :: accepted hash b' r
        | _ => accepted hash b r
        end
    end.

  Lemma attempts_app (hash : bytes) (ts1 ts2 : list attempt) :
    forall b, attempts hash b (ts1 ++ ts2) = attempts hash (attempts hash b ts1) ts2.
  Proof. induction ts1 as [|t ts1 IH]; intros b; cbn [attempts app]; [reflexivity|apply IH]. Qed.

  (* a failing call leaves the block as it was *)
  Lemma attempt_step_fail (hash : bytes) (b : iblock) (t : attempt) :
    (forall b', try_sign hash b t <> Ok b') -> attempt_step hash b t = b.
  Proof.
    intros H. unfold attempt_step. destruct (try_sign hash b t) as [b'| | |]; try reflexivity.
    exfalso. exact (H b' eq_refl).
  Qed.

  Definition key32 (s : isig) : Prop := lenN (attr_pk (is_attrs s)) = 32.

  (* C07 over any history: from a block whose stack satisfies the invariant
     (the empty one does), after any list of calls whatsoever - wrong
     attributes, wrong key length, failing or lying strategies interleaved -
     every listed signature verifies under the key found in its own
     attributes over the data-to-be-signed built from the block as it stood
     before; the old signatures are still there, untouched, below exactly one
     new signature per successful call, newest first, each with a 32-byte key *)
  Theorem attempts_invariant (hash : bytes) (ts : list attempt) :
    forall b : iblock,
    Valid_self ed_ok hash (ib_stack b) ->
    Valid_self ed_ok hash (ib_stack (attempts hash b ts)) /\
    exists newer,
      ib_stack (attempts hash b ts) = newer ++ ib_stack b /\
      map is_attrs newer = rev (map at_attrs (accepted hash b ts)) /\
      Forall key32 newer /\
      Forall (fun t => recorded_key (at_attrs t) (at_pk t) /\ lenN (at_pk t) = 32) (accepted hash b ts).
  Proof.
    induction ts as [|t ts IH]; intros b HS; cbn [attempts accepted].
    - split; [exact HS|]. exists []. repeat split; constructor.
    - unfold attempt_step. destruct (try_sign hash b t) as [b1| | |] eqn:H1; try (apply IH; exact HS).
      unfold try_sign in H1.
      destruct (sign_and_add_keeps_self _ _ hash b _ _ b1 HS H1) as [HS1 [sg E1]].
      pose proof (sign_and_add_ok_attr _ _ _ _ _ _ _ H1) as [Hr Hl].
      destruct (IH b1 HS1) as [HS' [newer [E2 [E3 [E4 E5]]]]]. split; [exact HS'|].
      exists (newer ++ [{| is_attrs := at_attrs t; is_sig := sg |}]). split; [|split; [|split]].
      + rewrite E2, E1, <- app_assoc. reflexivity.
      + rewrite map_app, E3. cbn [map rev is_attrs]. reflexivity.
      + apply Forall_app. split; [exact E4|]. constructor; [|constructor].
        unfold key32. cbn [is_attrs]. rewrite (recorded_key_attr_pk _ _ Hr). exact Hl.
      + constructor; [split; assumption|exact E5].
  Qed.

  Theorem attempts_from_empty (hash : bytes) (ts : list attempt) :
    Valid_self ed_ok hash (ib_stack (attempts hash empty_block ts)) /\
    map is_attrs (ib_stack (attempts hash empty_block ts)) =
      rev (map at_attrs (accepted hash empty_block ts)) /\
    Forall key32 (ib_stack (attempts hash empty_block ts)).
  Proof.
    destruct (attempts_invariant hash ts empty_block (Valid_self_nil ed_ok hash))
      as [HS [newer [E1 [E2 [E3 _]]]]].
    cbn [ib_stack empty_block] in E1. rewrite app_nil_r in E1. rewrite E1.
    split; [rewrite <- E1; exact HS|]. split; assumption.
  Qed.

  (* the history is the successful calls alone *)
  Definition op_of (t : attempt) : bytes * attrs := (at_pk t, at_attrs t).
  Definition with_strat (strat : bytes -> R bytes) (op : bytes * attrs) : attempt :=
    {| at_strat := strat; at_pk := fst op; at_attrs := snd op |}.

  Lemma attempts_accepted (hash : bytes) (ts : list attempt) :
    forall b, attempts hash b (accepted hash b ts) = attempts hash b ts /\
              accepted hash b (accepted hash b ts) = accepted hash b ts.
  Proof.
    induction ts as [|t ts IH]; intros b; cbn [attempts accepted]; [split; reflexivity|].
    unfold attempt_step. destruct (try_sign hash b t) as [b1| | |] eqn:H1; try apply IH.
    cbn [attempts accepted]. unfold attempt_step. rewrite H1.
    destruct (IH b1) as [E1 E2]. split; [exact E1|]. rewrite E2. reflexivity.
  Qed.

  (* with one strategy throughout, a sequence without failures is sign_all *)
  Lemma sign_all_attempts (strat : bytes -> R bytes) (hash : bytes) (ops : list (bytes * attrs)) :
    forall b b', sign_all strat ed_ok hash b ops = Ok b' ->
      attempts hash b (map (with_strat strat) ops) = b' /\
      accepted hash b (map (with_strat strat) ops) = map (with_strat strat) ops.
  Proof.
    induction ops as [|[pk a] ops IH]; intros b b' H; cbn [sign_all] in H; cbn [map attempts accepted].
    - injection H as <-. split; reflexivity.
    - unfold attempt_step, try_sign. cbn [with_strat at_strat at_pk at_attrs fst snd].
      destruct (sign_and_add strat ed_ok hash b pk a) as [b1| | |] eqn:H1; cbn [bind] in H; try discriminate.
      destruct (IH b1 b' H) as [E1 E2]. split; [exact E1|]. rewrite E2. reflexivity.
  Qed.
End Attempts.

(* the premises of the refusal theorems cannot be dropped *)
(* missing attribute and EMPTY key: bytes.Equal(nil, []) holds, the attribute
   test passes and the call goes on to the strategy; it is stopped only by
   the key-length test afterwards.  With a strategy that panics the result is
   the panic, not the error. *)
Lemma sign_and_add_no_key_needs_nonempty :
  exists (strat : bytes -> R bytes) (ed_ok : bytes -> bytes -> bytes -> bool) (hash : bytes) (a : attrs),
    (forall v, ~ In (pk_attr_name, v) a) /\
    sign_and_add strat ed_ok hash empty_block [] a = Panic.
Proof.
  exists (fun _ => Panic), (fun _ _ _ => true), [], []. split; [intros v H; exact H|].
  vm_compute. reflexivity.
Qed.

Lemma sign_and_add_bad_key_length_needs_no_panic :
  exists (strat : bytes -> R bytes) (ed_ok : bytes -> bytes -> bytes -> bool) (hash pk : bytes),
    lenN pk <> 32 /\ sign_and_add strat ed_ok hash empty_block pk [(pk_attr_name, pk)] = Panic.
Proof.
  exists (fun _ => Panic), (fun _ _ _ => true), [], [7]. split; [discriminate|].
  vm_compute. reflexivity.
Qed.

(* an association list with the name twice: the lookup takes the FIRST entry.
   Whichever way round, the call fails - so no theorem above needs NoDup - but
   for different reasons: attribute test / attributes do not encode *)
Lemma sign_and_add_dup_name_cases :
  let strat := fun _ : bytes => Ok [1] in
  let ed_ok := fun _ _ _ : bytes => true in
  let pk := repeat 1 32 in let pk2 := repeat 2 32 in
  attr_pk [(pk_attr_name, pk2); (pk_attr_name, pk)] = pk2 /\
  sign_and_add strat ed_ok [] empty_block pk [(pk_attr_name, pk2); (pk_attr_name, pk)] = Err /\
  attr_pk [(pk_attr_name, pk); (pk_attr_name, pk2)] = pk /\
  attrs_cbor [(pk_attr_name, pk); (pk_attr_name, pk2)] = Err /\
  sign_and_add strat ed_ok [] empty_block pk [(pk_attr_name, pk); (pk_attr_name, pk2)] = Err /\
  (exists b', sign_and_add strat ed_ok [] empty_block pk [(pk_attr_name, pk)] = Ok b').
Proof. vm_compute. repeat split. eexists. reflexivity. Qed.

Section Sign.
  Variable H512 : bytes -> bytes.
  Variable strat_sign : bytes -> R bytes.
  Variable ed_ok : bytes -> bytes -> bytes -> bool.

  (* ---- SignWithIntegrityBlock ------------------------------------------------- *)
  Definition pk_attrs (pk : bytes) : attrs := [(pk_attr_name, pk)].
  Definition pk_attrs_bytes (pk : bytes) : bytes := [161; 112] ++ pk_attr_name ++ enc_bytes pk.

  Lemma attrs_cbor_pk (pk : bytes) : attrs_cbor (pk_attrs pk) = Ok (pk_attrs_bytes pk).
  Proof.
    rewrite attrs_cbor_unfold. change (keys_utf8 (pk_attrs pk)) with true. cbv iota.
    unfold enc_map, sort_entries, pk_attrs, pk_attrs_bytes.
    cbn [map isort insert adjacent_dup flat_map fst snd attr_entry].
    rewrite app_nil_r. reflexivity.
  Qed.

  Lemma attr_pk_pk_attrs (pk : bytes) : attr_pk (pk_attrs pk) = pk.
  Proof.
    unfold attr_pk, pk_attrs, is_pk_attr. cbn [find fst snd]. rewrite bytes_eqb_refl. reflexivity.
  Qed.

  Lemma recorded_key_pk_attrs (pk : bytes) : recorded_key (pk_attrs pk) pk.
  Proof.
    unfold recorded_key, pk_attrs, is_pk_attr. cbn [find fst snd]. rewrite bytes_eqb_refl. reflexivity.
  Qed.

  (* what the single signature of sign_file is computed over *)
  Definition sign_file_dtbs (file pk : bytes) : bytes :=
    dtbs_bytes (H512 file) empty_block_bytes (pk_attrs_bytes pk).

  Lemma dtbs_pk (hash blk pk : bytes) :
    data_to_be_signed hash blk (pk_attrs pk) = Ok (dtbs_bytes hash blk (pk_attrs_bytes pk)).
  Proof. apply dtbs_ok_iff. exists (pk_attrs_bytes pk). split; [apply attrs_cbor_pk|reflexivity]. Qed.

  Lemma det_accepts_empty : det_accepts empty_block_bytes = true.
  Proof. vm_compute. reflexivity. Qed.

  Definition one_sig_block (pk sg : bytes) : iblock :=
    {| ib_stack := [{| is_attrs := pk_attrs pk; is_sig := sg |}] |}.

  (* 83 48 magic 44 version 81 82 A1 70 "ed25519PublicKey" bstr(pk) bstr(sig) *)
  Definition one_sig_bytes (pk sg : bytes) : bytes :=
    [131] ++ (72 :: ib_magic) ++ (68 :: ib_version_b1) ++ [129] ++
    [130] ++ pk_attrs_bytes pk ++ enc_bytes sg.

  Lemma block_cbor_one_sig (pk sg : bytes) :
    block_cbor (one_sig_block pk sg) = Ok (one_sig_bytes pk sg).
  Proof.
    unfold block_cbor, one_sig_block. cbn [ib_stack stack_cbor is_attrs is_sig].
    rewrite attrs_cbor_pk. cbn [bind]. unfold one_sig_bytes.
    rewrite app_nil_r. reflexivity.
  Qed.

  Lemma sign_file_unfold (file pk : bytes) :
    obtain file = Ok empty_block ->
    sign_file H512 strat_sign ed_ok file pk =
    let* sg := strat_sign (sign_file_dtbs file pk) in
    if negb (lenN pk =? 32) then Err
    else if negb (ed_ok pk (sign_file_dtbs file pk) sg) then Err
    else if negb (det_accepts (one_sig_bytes pk sg)) then Err
         else Ok (one_sig_bytes pk sg ++ file).
  Proof.
    intros Ho. unfold sign_file. rewrite Ho. cbn [bind].
    change [(pk_attr_name, pk)] with (pk_attrs pk).
    rewrite sign_and_add_unfold, attr_pk_pk_attrs, bytes_eqb_refl. cbn [negb].
    change (block_cbor empty_block) with (Ok empty_block_bytes). cbn [bind].
    rewrite det_accepts_empty. cbn [negb].
    rewrite dtbs_pk. cbn [bind]. fold (sign_file_dtbs file pk).
    destruct (strat_sign (sign_file_dtbs file pk)) as [sg| | |]; cbn [bind]; try reflexivity.
    destruct (negb (lenN pk =? 32)); [reflexivity|].
    destruct (ed_ok pk (sign_file_dtbs file pk) sg); cbn [negb]; [|reflexivity].
    unfold push. cbn [ib_stack empty_block].
    cbn [bind]. change {| ib_stack := _ |} with (one_sig_block pk sg).
    rewrite block_cbor_one_sig. cbn [bind]. reflexivity.
  Qed.

  Theorem sign_file_ok_iff (file pk out : bytes) :
    sign_file H512 strat_sign ed_ok file pk = Ok out <->
    obtain file = Ok empty_block /\ lenN pk = 32 /\
    exists sg, strat_sign (sign_file_dtbs file pk) = Ok sg /\
               ed_ok pk (sign_file_dtbs file pk) sg = true /\
               det_check (one_sig_bytes pk sg) = Accept /\
               out = one_sig_bytes pk sg ++ file.
  Proof.
    split.
    - intros H.
      assert (Ho : obtain file = Ok empty_block).
      { destruct (obtain_never_panics file) as [E|E]; [|exact E].
        unfold sign_file in H. rewrite E in H. discriminate. }
      split; [exact Ho|]. rewrite (sign_file_unfold file pk Ho) in H.
      destruct (strat_sign (sign_file_dtbs file pk)) as [sg| | |] eqn:Hs; cbn [bind] in H; try discriminate.
      destruct (N.eqb_spec (lenN pk) 32) as [Hl|Hl]; cbn [negb] in H; [|discriminate].
      destruct (ed_ok pk (sign_file_dtbs file pk) sg) eqn:He; cbn [negb] in H; [|discriminate].
      destruct (det_accepts (one_sig_bytes pk sg)) eqn:Hd; cbn [negb] in H; [|discriminate].
      injection H as <-. split; [exact Hl|]. exists sg. apply det_accepts_iff in Hd.
      repeat split; try assumption; reflexivity.
    - intros [Ho [Hl [sg [H1 [H2 [H3 H4]]]]]]. rewrite (sign_file_unfold file pk Ho).
      rewrite H1. cbn [bind]. apply N.eqb_eq in Hl. rewrite Hl. cbn [negb]. rewrite H2. cbn [negb].
      apply det_accepts_iff in H3. rewrite H3. cbn [negb]. rewrite H4. reflexivity.
  Qed.

  (* the output is the new block followed by the untouched input file *)
  Theorem sign_file_layout (file pk out : bytes) :
    sign_file H512 strat_sign ed_ok file pk = Ok out ->
    exists blk sg dtbs,
      out = blk ++ file /\
      block_cbor (one_sig_block pk sg) = Ok blk /\ blk = one_sig_bytes pk sg /\
      det_check blk = Accept /\
      block_cbor empty_block = Ok empty_block_bytes /\
      data_to_be_signed (H512 file) empty_block_bytes (pk_attrs pk) = Ok dtbs /\
      strat_sign dtbs = Ok sg /\ ed_ok pk dtbs sg = true /\
      Valid_self ed_ok (H512 file) (ib_stack (one_sig_block pk sg)) /\
      recorded_key (pk_attrs pk) pk /\ lenN pk = 32.
  Proof.
    intros H. apply sign_file_ok_iff in H. destruct H as [Ho [Hl [sg [H1 [H2 [H3 H4]]]]]].
    exists (one_sig_bytes pk sg), sg, (sign_file_dtbs file pk).
    split; [exact H4|]. split; [apply block_cbor_one_sig|]. split; [reflexivity|].
    split; [exact H3|]. split; [reflexivity|]. split; [apply dtbs_pk|].
    split; [exact H1|]. split; [exact H2|].
    split; [|split; [apply recorded_key_pk_attrs|exact Hl]].
    exists [pk]. split.
    - apply (VS_cons _ _ _ _ _ _ empty_block_bytes (sign_file_dtbs file pk)).
      + reflexivity.
      + apply det_accepts_iff. exact det_accepts_empty.
      + apply dtbs_pk.
      + exact H2.
      + constructor.
    - constructor; [apply recorded_key_pk_attrs|constructor].
  Qed.

  Theorem sign_file_err_obtain (file pk : bytes) :
    obtain file = Err -> sign_file H512 strat_sign ed_ok file pk = Err.
  Proof. intros H. unfold sign_file. rewrite H. reflexivity. Qed.

  Theorem sign_file_err_strategy (file pk : bytes) :
    strat_sign (sign_file_dtbs file pk) = Err -> sign_file H512 strat_sign ed_ok file pk = Err.
  Proof.
    intros H. destruct (obtain_never_panics file) as [E|E]; [apply sign_file_err_obtain; exact E|].
    rewrite (sign_file_unfold file pk E), H. reflexivity.
  Qed.

  Theorem sign_file_err_verify (file pk sg : bytes) :
    strat_sign (sign_file_dtbs file pk) = Ok sg ->
    ed_ok pk (sign_file_dtbs file pk) sg = false ->
    sign_file H512 strat_sign ed_ok file pk = Err.
  Proof.
    intros H1 H2. destruct (obtain_never_panics file) as [E|E]; [apply sign_file_err_obtain; exact E|].
    rewrite (sign_file_unfold file pk E), H1. cbn [bind]. rewrite H2.
    destruct (negb (lenN pk =? 32)); reflexivity.
  Qed.

  (* a key of the wrong length: nothing is written *)
  Theorem sign_file_bad_key_length_never_ok (file pk : bytes) :
    lenN pk <> 32 -> forall out, sign_file H512 strat_sign ed_ok file pk <> Ok out.
  Proof.
    intros Hl out H. apply sign_file_ok_iff in H. destruct H as [_ [Hl' _]]. contradiction.
  Qed.

  Theorem sign_file_err_key_length (file pk : bytes) :
    no_panic strat_sign -> lenN pk <> 32 -> sign_file H512 strat_sign ed_ok file pk = Err.
  Proof.
    intros Hs Hl. destruct (obtain_never_panics file) as [E|E]; [apply sign_file_err_obtain; exact E|].
    rewrite (sign_file_unfold file pk E). destruct (Hs (sign_file_dtbs file pk)) as [N1 N2].
    destruct (strat_sign (sign_file_dtbs file pk)) as [sg| | |]; cbn [bind];
      [|reflexivity|contradiction|contradiction].
    destruct (N.eqb_spec (lenN pk) 32) as [C|C]; [contradiction|reflexivity].
  Qed.

  (* the three refusals of the C07 text, at the level of the whole flow *)
  Theorem sign_file_refusals (file pre trail pk : bytes) :
    wfb file -> lenN file < two63 -> file = pre ++ trail -> lenN trail = 8 ->
    unbe trail <> lenN file -> sign_file H512 strat_sign ed_ok file pk = Err.
  Proof.
    intros W Hsz E HL Hne. apply sign_file_err_obtain.
    destruct (N.lt_total (unbe trail) (lenN file)) as [C|[C|C]]; [|contradiction|].
    - eapply obtain_refuses_existing_block; eassumption.
    - eapply obtain_refuses_larger; eassumption.
  Qed.

  Lemma one_sig_block_wf (pk sg : bytes) :
    wfb pk -> lenN pk < two64 -> wfb sg -> lenN sg < two64 -> block_wf (one_sig_block pk sg).
  Proof.
    intros Wp Lp Ws Ls. split; [reflexivity|]. constructor; [|constructor].
    split; [|split; assumption]. cbn [is_attrs]. split.
    - split; [reflexivity|]. constructor; [|constructor]. split; [reflexivity|exact Lp].
    - constructor; [exact Wp|constructor].
  Qed.

  (* completeness: on an unsigned bundle, with a signature that verifies, the
     flow succeeds - in particular neither deterministic check can fail *)
  Theorem sign_file_complete (file pk sg : bytes) :
    obtain file = Ok empty_block ->
    wfb pk -> lenN pk = 32 -> wfb sg -> lenN sg < two64 ->
    strat_sign (sign_file_dtbs file pk) = Ok sg ->
    ed_ok pk (sign_file_dtbs file pk) sg = true ->
    sign_file H512 strat_sign ed_ok file pk = Ok (one_sig_bytes pk sg ++ file).
  Proof.
    intros Ho Wp Lp32 Ws Ls H1 H2.
    assert (Lp : lenN pk < two64) by (rewrite Lp32; reflexivity).
    apply sign_file_ok_iff. split; [exact Ho|]. split; [exact Lp32|].
    exists sg. split; [exact H1|]. split; [exact H2|]. split; [|reflexivity].
    apply (block_cbor_det (one_sig_block pk sg)); [apply one_sig_block_wf; assumption|].
    apply block_cbor_one_sig.
  Qed.

  (* no panic and no divergence unless the signing strategy itself panics *)
  Theorem sign_file_never_panics (file pk : bytes) :
    no_panic strat_sign ->
    sign_file H512 strat_sign ed_ok file pk = Err \/
    exists out, sign_file H512 strat_sign ed_ok file pk = Ok out.
  Proof.
    intros Hs. destruct (obtain_never_panics file) as [E|E]; [left; apply sign_file_err_obtain; exact E|].
    rewrite (sign_file_unfold file pk E).
    destruct (Hs (sign_file_dtbs file pk)) as [N1 N2].
    destruct (strat_sign (sign_file_dtbs file pk)) as [sg| | |]; cbn [bind];
      [|left; reflexivity|contradiction|contradiction].
    destruct (negb (lenN pk =? 32)); [left; reflexivity|].
    destruct (negb (ed_ok _ _ _)); [left; reflexivity|].
    destruct (negb (det_accepts _)); [left; reflexivity|right; eexists; reflexivity].
  Qed.
End Sign.
