(* Proofs/TruncationBundleRead.v - bundle.Read on a source that stops early, for
   EVERY input (C05 side; the written-bundle corollaries are in TruncationBundle.v).

   The header (magic, b1 primary URL, section-lengths string, sections array
   head) is read as a stream: Tr load_header_rest.  Everything behind it is
   random access by offsets checked against the input length.  Hence, with
     ss   = offset of the first section          (load_header)
     sos  = the section table                    (load_header)
     E    = ss + sum_lens sos = end of the last section
   a cut at p < E is REFUSED (header incomplete, or sections_fit fails) and a
   cut at p >= E changes nothing, provided no known section other than
   "responses" ends exactly at p (the reader wants such a section to end
   strictly inside the file); if one does, the cut is refused.  So for every
   input and every cut:  Err, or the result of the full read. *)
From Coq Require Import Lia ZifyN ZifyNat ZifyBool.
From WP Require Import Base.Prelude Base.Decimal Model.Cbor Model.Http Model.Url Model.UrlRef
  Model.StructHdr Model.Variants Model.CertChain Model.Bundle Spec.Cbor Spec.BundleRead.
From WP Require Import Proofs.BaseLemmas Proofs.CborHead Proofs.CborDecode
  Proofs.BundleReadBase Proofs.BundleReadTotal Proofs.BundleReadLayout Proofs.BundleReadBounds
  Proofs.BundleReadReject Proofs.TruncationBase.
Ltac Zify.zify_post_hook ::= Z.div_mod_to_equations.
Open Scope N_scope.

(* ---- the header as a stream parser ----------------------------------------------------- *)
Lemma Tr_parse_magic : Tr parse_magic.
Proof.
  unfold parse_magic.
  apply (Tr_bind (fun bs : bytes => of_opt (splitN bs 10))); [apply Tr_split|]. intros hm.
  apply Tr_if; [apply Tr_fail|].
  apply (Tr_bind (fun r : bytes => of_opt (splitN r 5))); [apply Tr_split|]. intros vm.
  apply Tr_if; [apply Tr_if; [apply Tr_ret|apply Tr_fail]|].
  apply Tr_if; [apply Tr_if; [apply Tr_ret|apply Tr_fail]|apply Tr_fail].
Qed.

Definition primary_part (v : bversion) (r0 : bytes) : R (option bytes * bool * bytes) :=
  if has_primary_in_header v then
    let* (u, r) := decode_text r0 in
    let '(ok, tn) := any_url_ok u in
    if ok then Ok (Some u, tn, r) else Err
  else Ok (None, false, r0).

Lemma Tr_primary_part (v : bversion) : Tr (primary_part v).
Proof.
  unfold primary_part. apply Tr_if; [|apply (Tr_ret (None, false))].
  apply (Tr_bind decode_text); [exact Tr_decode_text|]. intros u.
  destruct (any_url_ok u) as [ok tn]. apply Tr_if; [apply (Tr_ret (Some u, tn))|apply Tr_fail].
Qed.

Definition load_header_rest (bs : bytes)
  : R (bversion * option bytes * bool * list (bytes * N) * bytes) :=
  let* (v, r0) := parse_magic bs in
  let* (ft, r1) := primary_part v r0 in
  let* (sl, r2) := decode_bytes r1 in
  if 8192 <=? lenN sl then Err
  else
    let* sos := decode_section_lengths sl in
    let* (ns, r3) := decode_array_header r2 in
    if negb (ns =? lenN sos) then Err else Ok (v, fst ft, snd ft, sos, r3).

Lemma Tr_load_header_rest : Tr load_header_rest.
Proof.
  unfold load_header_rest.
  apply (Tr_bind parse_magic); [exact Tr_parse_magic|]. intros v.
  apply (Tr_bind (primary_part v)); [apply Tr_primary_part|]. intros ft.
  apply (Tr_bind decode_bytes); [exact Tr_decode_bytes|]. intros sl.
  apply Tr_if; [apply Tr_fail|].
  apply (Tr_cbind (decode_section_lengths sl)). intros sos.
  apply (Tr_bind decode_array_header); [exact Tr_decode_array_header|]. intros ns.
  apply Tr_if; [apply Tr_fail|apply (Tr_ret (v, fst ft, snd ft, sos))].
Qed.

Lemma load_header_of_rest (bs : bytes) :
  load_header bs =
  let* (x, r3) := load_header_rest bs in
  let '(v, fb, t0, sos) := x in Ok (v, fb, t0, lenN bs - lenN r3, sos).
Proof.
  unfold load_header, load_header_rest, primary_part.
  destruct (parse_magic bs) as [[v r0]| | |]; cbn [bind]; try reflexivity.
  destruct (has_primary_in_header v).
  - destruct (decode_text r0) as [[u r]| | |]; cbn [bind]; try reflexivity.
    destruct (any_url_ok u) as [ok tn]. destruct ok; cbn [bind]; [|reflexivity].
    destruct (decode_bytes r) as [[sl r2]| | |]; cbn [bind]; try reflexivity.
    destruct (8192 <=? lenN sl); [reflexivity|].
    destruct (decode_section_lengths sl) as [sos| | |]; cbn [bind]; try reflexivity.
    destruct (decode_array_header r2) as [[ns r3]| | |]; cbn [bind]; try reflexivity.
    destruct (negb (ns =? lenN sos)); reflexivity.
  - cbn [bind].
    destruct (decode_bytes r0) as [[sl r2]| | |]; cbn [bind]; try reflexivity.
    destruct (8192 <=? lenN sl); [reflexivity|].
    destruct (decode_section_lengths sl) as [sos| | |]; cbn [bind]; try reflexivity.
    destruct (decode_array_header r2) as [[ns r3]| | |]; cbn [bind]; try reflexivity.
    destruct (negb (ns =? lenN sos)); reflexivity.
Qed.

Lemma load_header_inv (bs : bytes) v fb t0 ss sos :
  load_header bs = Ok (v, fb, t0, ss, sos) ->
  exists r3, load_header_rest bs = Ok (v, fb, t0, sos, r3) /\ ss = lenN bs - lenN r3 /\
             (List.length r3 <= List.length bs)%nat.
Proof.
  rewrite load_header_of_rest. intros H.
  destruct (load_header_rest bs) as [[[[[v' fb'] t0'] sos'] r3]| | |] eqn:E; cbn [bind] in H;
    try discriminate.
  inversion H; subst. exists r3. split; [reflexivity|]. split; [reflexivity|].
  eapply Tr_consumed; [exact Tr_load_header_rest|exact E].
Qed.

(* the cut lies behind the header: same header, same start of the sections *)
Lemma load_header_cut_behind (bs : bytes) (p : nat) v fb t0 ss sos :
  load_header bs = Ok (v, fb, t0, ss, sos) -> (p <= List.length bs)%nat -> ss <= N.of_nat p ->
  load_header (firstn p bs) = Ok (v, fb, t0, ss, sos).
Proof.
  intros H Hp Hss. destruct (load_header_inv _ _ _ _ _ _ H) as [r3 [E [Es Hl]]].
  rewrite lenN_length in Es. rewrite (lenN_length r3) in Es.
  assert (Hk : (List.length bs - List.length r3 <= p)%nat) by lia.
  rewrite load_header_of_rest, (Tr_long _ Tr_load_header_rest _ _ _ p E Hk). cbn [bind].
  do 3 f_equal. rewrite !lenN_length, !firstn_length. lia.
Qed.

(* the cut lies inside the header: refused *)
Lemma load_header_cut_inside (bs : bytes) (p : nat) v fb t0 ss sos :
  load_header bs = Ok (v, fb, t0, ss, sos) -> N.of_nat p < ss ->
  load_header (firstn p bs) = Err.
Proof.
  intros H Hss. destruct (load_header_inv _ _ _ _ _ _ H) as [r3 [E [Es Hl]]].
  rewrite lenN_length in Es. rewrite (lenN_length r3) in Es.
  assert (Hk : (p < List.length bs - List.length r3)%nat) by lia.
  rewrite load_header_of_rest, (Tr_short _ Tr_load_header_rest _ _ _ p E Hk). reflexivity.
Qed.

(* a header that is refused is refused at every cut *)
Lemma load_header_cut_of_refused (bs : bytes) (p : nat) :
  load_header bs = Err -> load_header (firstn p bs) = Err.
Proof.
  intros H. pose proof (load_header_total (firstn p bs)) as T.
  destruct (load_header (firstn p bs)) as [x| | |] eqn:E; try contradiction; [|reflexivity].
  exfalso. rewrite load_header_of_rest in E.
  destruct (load_header_rest (firstn p bs)) as [[y r]| | |] eqn:Er; cbn [bind] in E; try discriminate.
  apply (Tr_prefix_ok _ Tr_load_header_rest) in Er.
  rewrite load_header_of_rest, Er in H. cbn [bind] in H.
  destruct y as [[[v fb] t0] sos]. discriminate.
Qed.

Section Read.
  Variable x509_ok : bytes -> bool.

  (* ---- one known section, strictly inside the cut ------------------------------------------ *)
  Lemma known_section_step (bs : bytes) (p : nat) v all name len t offset ss m :
    (p <= List.length bs)%nat -> N.of_nat p < two64 ->
    known_section name = true -> bytes_eqb name sec_responses = false ->
    offset + len < N.of_nat p ->
    exists contents,
      load_sections x509_ok v (firstn p bs) all ((name, len) :: t) offset ss m =
        (let* m' := handle_section x509_ok v all ss name contents m in
         load_sections x509_ok v (firstn p bs) all t (offset + len) ss m') /\
      load_sections x509_ok v bs all ((name, len) :: t) offset ss m =
        (let* m' := handle_section x509_ok v all ss name contents m in
         load_sections x509_ok v bs all t (offset + len) ss m').
  Proof.
    intros Hp Hp64 Hk Hr Ho.
    assert (Lb : N.of_nat p <= lenN bs) by (rewrite lenN_length; lia).
    assert (Lp : lenN (firstn p bs) = N.of_nat p) by (rewrite lenN_firstn; lia).
    destruct (splitN_total bs offset ltac:(lia)) as [pre [from Hs1]].
    destruct (splitN_spec _ _ _ _ Hs1) as [E1 L1].
    assert (Lf : lenN from = lenN bs - offset) by (subst bs; rewrite lenN_app; lia).
    destruct (splitN_total from len ltac:(lia)) as [contents [post Hs2]].
    destruct (splitN_spec _ _ _ _ Hs2) as [E2 L2].
    assert (Hpre : (List.length pre <= p)%nat) by (rewrite lenN_length in L1; lia).
    assert (Hcon : (List.length contents <= p - List.length pre)%nat)
      by (rewrite lenN_length in L1, L2; lia).
    exists contents. split.
    - rewrite load_sections_cons, Hk, Hr. cbn [negb]. cbv zeta.
      rewrite (w64_small (offset + len)) by lia. rewrite Lp.
      destruct (N.leb_spec (N.of_nat p) offset) as [X|_]; [lia|].
      destruct (N.leb_spec (N.of_nat p) (offset + len)) as [X|_]; [lia|].
      rewrite (splitN_firstn_long _ _ _ _ p Hs1 Hpre).
      destruct (N.ltb_spec (offset + len) offset) as [X|_]; [lia|].
      replace (offset + len - offset) with len by lia.
      rewrite (splitN_firstn_long _ _ _ _ _ Hs2 Hcon). reflexivity.
    - rewrite load_sections_cons, Hk, Hr. cbn [negb]. cbv zeta.
      rewrite (w64_small (offset + len)) by lia.
      destruct (N.leb_spec (lenN bs) offset) as [X|_]; [lia|].
      destruct (N.leb_spec (lenN bs) (offset + len)) as [X|_]; [lia|].
      rewrite Hs1. destruct (N.ltb_spec (offset + len) offset) as [X|_]; [lia|].
      replace (offset + len - offset) with len by lia. rewrite Hs2. reflexivity.
  Qed.

  (* a known section (not "responses") ending exactly at the cut: refused *)
  Lemma known_section_at_cut (bs : bytes) (p : nat) v all name len t offset ss m :
    (p <= List.length bs)%nat -> N.of_nat p < two64 ->
    known_section name = true -> bytes_eqb name sec_responses = false ->
    offset + len = N.of_nat p ->
    load_sections x509_ok v (firstn p bs) all ((name, len) :: t) offset ss m = Err.
  Proof.
    intros Hp Hp64 Hk Hr Ho.
    assert (Lp : lenN (firstn p bs) = N.of_nat p) by (rewrite lenN_firstn, lenN_length; lia).
    rewrite load_sections_cons, Hk, Hr. cbn [negb]. cbv zeta.
    rewrite (w64_small (offset + len)) by lia. rewrite Lp.
    destruct (N.leb_spec (N.of_nat p) offset) as [_|_]; [reflexivity|].
    destruct (N.leb_spec (N.of_nat p) (offset + len)) as [_|X]; [reflexivity|lia].
  Qed.

  (* ---- the section loop: every cut at or behind the end of the sections ------------------- *)
  Lemma load_sections_cut_any (bs : bytes) (p : nat) v all ss :
    (p <= List.length bs)%nat -> N.of_nat p < two64 ->
    forall sos offset m, offset + sum_lens sos <= N.of_nat p ->
      load_sections x509_ok v (firstn p bs) all sos offset ss m = Err \/
      load_sections x509_ok v (firstn p bs) all sos offset ss m =
      load_sections x509_ok v bs all sos offset ss m.
  Proof.
    intros Hp Hp64. induction sos as [|[name len] t IH]; intros offset m Ho.
    - right. reflexivity.
    - rewrite sum_lens_cons in Ho.
      destruct (known_section name) eqn:Hk.
      + destruct (bytes_eqb name sec_responses) eqn:Hr.
        * rewrite !load_sections_cons, Hk, Hr. cbn [negb]. apply IH. lia.
        * destruct (N.eq_dec (offset + len) (N.of_nat p)) as [Heq|Hne].
          { left. apply known_section_at_cut; assumption. }
          destruct (known_section_step bs p v all name len t offset ss m Hp Hp64 Hk Hr ltac:(lia))
            as [contents [E1 E2]].
          rewrite E1, E2.
          destruct (handle_section x509_ok v all ss name contents m) as [m'| | |]; cbn [bind];
            try (right; reflexivity).
          apply IH. lia.
      + rewrite !load_sections_cons, Hk. cbn [negb]. rewrite w64_small by lia. apply IH. lia.
  Qed.

  (* ... and exactly: the table ends with "responses" and the cut is strictly behind
     everything that comes before it *)
  Lemma load_sections_cut_behind (bs : bytes) (p : nat) v all ss rl :
    (p <= List.length bs)%nat -> N.of_nat p < two64 ->
    forall before offset m, offset + sum_lens before < N.of_nat p ->
      load_sections x509_ok v (firstn p bs) all (before ++ [(sec_responses, rl)]) offset ss m =
      load_sections x509_ok v bs all (before ++ [(sec_responses, rl)]) offset ss m.
  Proof.
    intros Hp Hp64. induction before as [|[name len] t IH]; intros offset m Ho.
    - cbn [app]. rewrite !load_sections_cons.
      change (known_section sec_responses) with true.
      change (bytes_eqb sec_responses sec_responses) with true. cbn [negb].
      rewrite !load_sections_nil. reflexivity.
    - rewrite sum_lens_cons in Ho. cbn [app].
      destruct (known_section name) eqn:Hk.
      + destruct (bytes_eqb name sec_responses) eqn:Hr.
        * rewrite !load_sections_cons, Hk, Hr. cbn [negb]. apply IH. lia.
        * destruct (known_section_step bs p v all name len (t ++ [(sec_responses, rl)]) offset ss m
                      Hp Hp64 Hk Hr ltac:(lia)) as [contents [E1 E2]].
          rewrite E1, E2.
          destruct (handle_section x509_ok v all ss name contents m) as [m'| | |]; cbn [bind];
            try reflexivity.
          apply IH. lia.
      + rewrite !load_sections_cons, Hk. cbn [negb]. rewrite w64_small by lia. apply IH. lia.
  Qed.

  (* ---- the response loop ---------------------------------------------------------------------- *)
  Lemma load_all_cut (bs : bytes) (p : nat) :
    (p <= List.length bs)%nat ->
    forall ls acc, Forall (fun l => l_off l + l_len l <= N.of_nat p) ls ->
      load_all (firstn p bs) ls acc = load_all bs ls acc.
  Proof.
    intros Hp. induction ls as [|l t IH]; intros acc Hb; [reflexivity|].
    inversion Hb as [|x xs Hl Hb']; subst.
    assert (Lb : N.of_nat p <= lenN bs) by (rewrite lenN_length; lia).
    rewrite !load_all_cons.
    destruct (w64 (l_off l + l_len l) <? l_off l); [reflexivity|].
    destruct (splitN_total bs (l_off l) ltac:(lia)) as [pre [from Hs1]].
    destruct (splitN_spec _ _ _ _ Hs1) as [E1 L1].
    assert (Lf : lenN from = lenN bs - l_off l) by (subst bs; rewrite lenN_app; lia).
    destruct (splitN_total from (l_len l) ltac:(lia)) as [item [post Hs2]].
    destruct (splitN_spec _ _ _ _ Hs2) as [E2 L2].
    assert (Hpre : (List.length pre <= p)%nat) by (rewrite lenN_length in L1; lia).
    assert (Hcon : (List.length item <= p - List.length pre)%nat)
      by (rewrite lenN_length in L1, L2; lia).
    rewrite (splitN_firstn_long _ _ _ _ p Hs1 Hpre), (splitN_firstn_long _ _ _ _ _ Hs2 Hcon).
    rewrite Hs1, Hs2.
    destruct (load_response item) as [[[st h] body]| | |]; cbn [bind]; try reflexivity.
    apply IH. exact Hb'.
  Qed.

  (* the locations of an accepted file end where the sections end *)
  Lemma locs_below_sections_end (bs : bytes) v m fb t0 ss sos :
    lenN bs < two64 -> load_metadata x509_ok bs = Ok (v, m) ->
    load_header bs = Ok (v, fb, t0, ss, sos) ->
    Forall (fun l => l_off l + l_len l <= ss + sum_lens sos) (m_locs m).
  Proof.
    intros Hlen Em Eh.
    destruct (load_metadata_in_bounds_layout x509_ok bs v m Hlen Em)
      as [fb' [t0' [ss' [sos' [before [rl [Eh' [Es [_ [_ Hb]]]]]]]]]].
    rewrite Eh in Eh'.
    assert (X : ss' = ss /\ sos' = sos) by (split; congruence). destruct X as [X1 X2].
    rewrite X1 in Hb. rewrite X2 in Es.
    eapply Forall_impl; [|exact Hb]. intros l [_ Hhi].
    rewrite Es, sum_lens_app. cbn [sum_lens]. lia.
  Qed.

  (* ---- bundle.Read ------------------------------------------------------------------------------ *)
  (* (1) a cut before the end of the last section is refused *)
  Theorem read_cut_before_end (bs : bytes) (p : nat) v fb t0 ss sos :
    load_header bs = Ok (v, fb, t0, ss, sos) -> N.of_nat p < ss + sum_lens sos ->
    b_read x509_ok (firstn p bs) = Err.
  Proof.
    intros Eh Hp. unfold b_read.
    assert (Em : load_metadata x509_ok (firstn p bs) = Err); [|rewrite Em; reflexivity].
    destruct (Nat.le_gt_cases p (List.length bs)) as [Hle|Hgt].
    - destruct (N.lt_ge_cases (N.of_nat p) ss) as [Hin|Hbeh].
      + rewrite load_metadata_split, (load_header_cut_inside _ _ _ _ _ _ _ Eh Hin). reflexivity.
      + apply (rejects_out_of_file x509_ok _ v fb t0 ss sos).
        * apply load_header_cut_behind; assumption.
        * rewrite lenN_firstn, lenN_length. lia.
    - rewrite firstn_all2 by lia. apply (rejects_out_of_file x509_ok _ v fb t0 ss sos Eh).
      rewrite lenN_length. lia.
  Qed.

  (* (2) a cut at or behind the end of the sections, strictly behind everything that
     precedes the responses section, changes nothing *)
  Theorem read_cut_behind_sections (bs : bytes) (p : nat) v fb t0 ss before rl :
    lenN bs < two64 ->
    load_header bs = Ok (v, fb, t0, ss, before ++ [(sec_responses, rl)]) ->
    ss + sum_lens before < N.of_nat p -> ss + sum_lens before + rl <= N.of_nat p ->
    b_read x509_ok (firstn p bs) = b_read x509_ok bs.
  Proof.
    intros Hlen Eh Hb He.
    destruct (Nat.le_gt_cases p (List.length bs)) as [Hle|Hgt]; [|rewrite firstn_all2 by lia; reflexivity].
    assert (Hp64 : N.of_nat p < two64) by (rewrite lenN_length in Hlen; lia).
    assert (Hss : ss <= N.of_nat p) by lia.
    assert (Em : load_metadata x509_ok (firstn p bs) = load_metadata x509_ok bs).
    { rewrite !load_metadata_split, (load_header_cut_behind _ _ _ _ _ _ _ Eh Hle Hss), Eh. cbn [bind].
      unfold load_body. rewrite rev_app_distr. cbn [rev app].
      change (bytes_eqb sec_responses sec_responses) with true. cbn [negb].
      assert (F1 : sections_fit (before ++ [(sec_responses, rl)]) ss (lenN (firstn p bs)) = true).
      { apply sections_fit_spec; rewrite lenN_firstn, lenN_length; [lia|].
        rewrite sum_lens_app. cbn [sum_lens]. lia. }
      assert (F2 : sections_fit (before ++ [(sec_responses, rl)]) ss (lenN bs) = true).
      { apply sections_fit_spec; rewrite lenN_length; [lia|].
        rewrite sum_lens_app. cbn [sum_lens]. lia. }
      rewrite F1, F2. cbn [negb].
      rewrite (load_sections_cut_behind bs p v _ ss rl Hle Hp64 before ss _ Hb). reflexivity. }
    unfold b_read. rewrite Em.
    destruct (load_metadata x509_ok bs) as [[v' m]| | |] eqn:E; cbn [bind]; try reflexivity.
    assert (Ev : v' = v).
    { rewrite load_metadata_split, Eh in E. cbn [bind] in E. unfold load_body in E.
      destruct (rev _) as [|[last l] t]; [discriminate|].
      destruct (negb _); [discriminate|]. destruct (negb _); [discriminate|].
      destruct (load_sections _ _ _ _ _ _ _ _) as [m'| | |]; cbn [bind] in E; try discriminate.
      inversion E. reflexivity. }
    subst v'.
    rewrite (load_all_cut bs p Hle); [reflexivity|].
    eapply Forall_impl; [|apply (locs_below_sections_end bs v m fb t0 ss _ Hlen E Eh)].
    intros l Hl. cbv beta in Hl. rewrite sum_lens_app in Hl. cbn [sum_lens] in Hl. lia.
  Qed.

  (* (3) every input, every cut: refused, or nothing changes *)
  Theorem read_cut_any (bs : bytes) (p : nat) :
    lenN bs < two64 ->
    b_read x509_ok (firstn p bs) = Err \/ b_read x509_ok (firstn p bs) = b_read x509_ok bs.
  Proof.
    intros Hlen.
    destruct (Nat.le_gt_cases p (List.length bs)) as [Hle|Hgt];
      [|right; rewrite firstn_all2 by lia; reflexivity].
    assert (Hp64 : N.of_nat p < two64) by (rewrite lenN_length in Hlen; lia).
    pose proof (load_header_total bs) as T.
    destruct (load_header bs) as [[[[[v fb] t0] ss] sos]| | |] eqn:Eh; try contradiction.
    2:{ left. unfold b_read. rewrite load_metadata_split, (load_header_cut_of_refused _ p Eh). reflexivity. }
    destruct (N.lt_ge_cases (N.of_nat p) (ss + sum_lens sos)) as [Hlt|Hge].
    { left. eapply read_cut_before_end; eassumption. }
    assert (Hss : ss <= N.of_nat p) by lia.
    assert (Em : load_metadata x509_ok (firstn p bs) = Err \/
                 load_metadata x509_ok (firstn p bs) = load_metadata x509_ok bs).
    { rewrite !load_metadata_split, (load_header_cut_behind _ _ _ _ _ _ _ Eh Hle Hss), Eh. cbn [bind].
      unfold load_body. destruct (rev sos) as [|[last l] t]; [right; reflexivity|].
      destruct (negb (bytes_eqb last sec_responses)); [right; reflexivity|].
      assert (F1 : sections_fit sos ss (lenN (firstn p bs)) = true).
      { apply sections_fit_spec; rewrite lenN_firstn, lenN_length; lia. }
      assert (F2 : sections_fit sos ss (lenN bs) = true).
      { apply sections_fit_spec; rewrite lenN_length; lia. }
      rewrite F1, F2. cbn [negb].
      destruct (load_sections_cut_any bs p v sos ss Hle Hp64 sos ss (meta0 fb t0) Hge) as [X|X];
        rewrite X; [left; reflexivity|right; reflexivity]. }
    destruct Em as [Em|Em]; [left; unfold b_read; rewrite Em; reflexivity|].
    right. unfold b_read. rewrite Em.
    destruct (load_metadata x509_ok bs) as [[v' m]| | |] eqn:E; cbn [bind]; try reflexivity.
    assert (Ev : v' = v).
    { rewrite load_metadata_split, Eh in E. cbn [bind] in E. unfold load_body in E.
      destruct (rev _) as [|[last l] t]; [discriminate|].
      destruct (negb _); [discriminate|]. destruct (negb _); [discriminate|].
      destruct (load_sections _ _ _ _ _ _ _ _) as [m'| | |]; cbn [bind] in E; try discriminate.
      inversion E. reflexivity. }
    subst v'.
    rewrite (load_all_cut bs p Hle); [reflexivity|].
    eapply Forall_impl; [|apply (locs_below_sections_end bs v m fb t0 ss _ Hlen E Eh)].
    intros l Hl. cbv beta in Hl. lia.
  Qed.
End Read.
