(* Part of the tie between the Go sources and the model: constants re-generated
   from the working tree by `harness params` (Generated/Params.v) equal the ones
   the model and the theorems use.  A changed constant in /repo makes one of
   these `reflexivity` proofs fail. *)
From WP Require Import Base.Prelude Generated.Params.
From WP Require Import Model.IntegrityBlock.
Open Scope N_scope.

Lemma params_complete_ib : p_translator_complete = true.
Proof. reflexivity. Qed.

(* ---- integrity block (C07) ---------------------------------------------- *)
Lemma params_integrity_block :
  p_ib_magic = ib_magic /\ p_ib_version_b1 = ib_version_b1 /\ p_ib_pk_attr_name = pk_attr_name /\
  (forall pk, web_bundle_id pk = lower (Base32.b32_encode (pk ++ p_web_bundle_id_suffix))).
Proof. repeat split. Qed.

