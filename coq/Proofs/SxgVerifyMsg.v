(* Proofs/SxgVerifyMsg.v - the signed message determines the signed fields.

   signed_message (signer.go: serializeSignedMessage) is injective, up to the
   order of header-map entries, in everything it covers:
     - b2/b3: unique parsing of the length-prefixed layout;
     - b1: injectivity of canonical CBOR for maps of byte-string entries,
       integers and text keys.
   encode_exchange_headers (signedexchange.go) is injective and prefix-free in
   method / :url (b1) / status / header maps.

   Size side conditions are explicit ([esized], [params_ok]): the Go encoders
   truncate a length or integer that does not fit in 64 bits, and the b2/b3
   layout writes the cert-sha256 bytes without a length of their own.        *)
From Coq Require Import Lia ZifyN ZifyNat ZifyBool Permutation Sorted.
From WP Require Import Base.Prelude Base.Decimal.
From WP Require Import Model.Cbor Model.BigEndian Model.Http Model.Mice Model.StructHdr
                       Model.CertChain Model.Sxg.
From WP Require Import Spec.Cbor Proofs.BaseLemmas Proofs.CborHead Proofs.CborMap
                       Proofs.CborDecode Proofs.SHEnc.
Ltac Zify.zify_post_hook ::= Z.div_mod_to_equations.
Open Scope N_scope.

Notation MBytes := WP.Model.Cbor.TBytes (only parsing).
Notation MText := WP.Model.Cbor.TText (only parsing).
Notation MMap := WP.Model.Cbor.TMap (only parsing).

(* ---- generic list facts --------------------------------------------------- *)
Lemma app_eq_len {A} (a a' r r' : list A) :
  List.length a = List.length a' -> a ++ r = a' ++ r' -> a = a' /\ r = r'.
Proof.
  revert a'. induction a as [|x a IH]; intros [|y a'] Hl E; cbn [List.length app] in *;
    try discriminate.
  - split; [reflexivity|exact E].
  - injection E as -> E. injection Hl as Hl. destruct (IH a' Hl E) as [-> ->]. split; reflexivity.
Qed.

Lemma app_eq_lenN {A} (a a' r r' : list A) :
  lenN a = lenN a' -> a ++ r = a' ++ r' -> a = a' /\ r = r'.
Proof. rewrite !lenN_length. intros Hl. apply app_eq_len. lia. Qed.

Lemma map_inj_on {A B} (f : A -> B) (P : A -> Prop) :
  (forall x y, P x -> P y -> f x = f y -> x = y) ->
  forall l l', Forall P l -> Forall P l' -> map f l = map f l' -> l = l'.
Proof.
  intros Hf. induction l as [|x l IH]; intros [|y l'] Hl Hl' E; cbn [map] in E; try discriminate.
  - reflexivity.
  - inversion Hl as [|? ? Hx Hl0]; inversion Hl' as [|? ? Hy Hl0']; subst.
    injection E as E1 E2. rewrite (Hf x y Hx Hy E1), (IH l' Hl0 Hl0' E2). reflexivity.
Qed.

(* a permutation of association lists without duplicate keys, with the same
   key in front, has the same front entry *)
Lemma perm_head_key {K V} (a a' : K * V) (l l' : list (K * V)) :
  NoDup (map fst (a' :: l')) -> fst a = fst a' ->
  Permutation (a :: l) (a' :: l') -> a = a' /\ Permutation l l'.
Proof.
  intros Hnd Hk HP.
  assert (Ha : a = a').
  { assert (Hin : In a (a' :: l')) by (eapply Permutation_in; [exact HP|left; reflexivity]).
    destruct Hin as [E|Hin]; [symmetry; exact E|].
    cbn [map] in Hnd. inversion Hnd as [|? ? Hni _]; subst. exfalso. apply Hni.
    rewrite <- Hk. apply in_map. exact Hin. }
  split; [exact Ha|]. subst a'. eapply Permutation_cons_inv. exact HP.
Qed.

(* ---- heads, byte strings, integers: injective and prefix-free --------------- *)
Lemma mc_bytes : major_const MBytes. Proof. split; reflexivity. Qed.
Lemma mc_text : major_const MText. Proof. split; reflexivity. Qed.
Lemma mc_map : major_const MMap. Proof. split; reflexivity. Qed.
Lemma mc_array : major_const TArray. Proof. split; reflexivity. Qed.

Lemma typed_uint_inj (t n n' : N) (r r' : bytes) :
  major_const t -> n < two64 -> n' < two64 ->
  typed_uint t n ++ r = typed_uint t n' ++ r' -> n = n' /\ r = r'.
Proof.
  intros Ht Hn Hn' E. apply (f_equal shead) in E.
  rewrite !head_roundtrip_shead in E by assumption.
  injection E as E1 _ E2. split; assumption.
Qed.

Lemma enc_bytes_of_inj (t : N) (s s' r r' : bytes) :
  major_const t -> lenN s < two64 -> lenN s' < two64 ->
  enc_bytes_of t s ++ r = enc_bytes_of t s' ++ r' -> s = s' /\ r = r'.
Proof.
  intros Ht Hs Hs' E. unfold enc_bytes_of in E. rewrite <- !app_assoc in E.
  destruct (typed_uint_inj _ _ _ _ _ Ht Hs Hs' E) as [El E2].
  apply app_eq_lenN; assumption.
Qed.

Lemma enc_bytes_inj (s s' r r' : bytes) :
  lenN s < two64 -> lenN s' < two64 ->
  enc_bytes s ++ r = enc_bytes s' ++ r' -> s = s' /\ r = r'.
Proof. apply enc_bytes_of_inj, mc_bytes. Qed.

Definition i64 (z : Z) : Prop := (- Z.of_N two63 <= z < Z.of_N two63)%Z.

Lemma some4_inv {A B C D} (a a' : A) (b b' : B) (c c' : C) (d d' : D) :
  Some (a, b, c, d) = Some (a', b', c', d') -> a = a' /\ b = b' /\ d = d'.
Proof. intros H. injection H as -> -> _ ->. repeat split. Qed.

Lemma enc_int_inj (z z' : Z) (r r' : bytes) :
  i64 z -> i64 z' -> enc_int z ++ r = enc_int z' ++ r' -> z = z' /\ r = r'.
Proof.
  unfold i64. intros Hz Hz' E. rewrite !enc_int_senc in E by assumption.
  apply (f_equal shead) in E. unfold two63 in *.
  destruct (0 <=? z)%Z eqn:E0; destruct (0 <=? z')%Z eqn:E0';
    rewrite !shead_senc_head in E by (unfold two64; lia);
    apply some4_inv in E; destruct E as (Em & En & Er); split; try exact Er; lia.
Qed.

Lemma be_inj (k : nat) (n n' : N) (r r' : bytes) :
  n < 256 ^ N.of_nat k -> n' < 256 ^ N.of_nat k ->
  be k n ++ r = be k n' ++ r' -> n = n' /\ r = r'.
Proof.
  intros Hn Hn' E.
  destruct (app_eq_len _ _ _ _ (eq_trans (be_length k n) (eq_sym (be_length k n'))) E) as [E1 E2].
  split; [|exact E2]. apply (f_equal unbe) in E1. rewrite !unbe_be_small in E1 by assumption. exact E1.
Qed.

Lemma be8_inj (n n' : N) (r r' : bytes) :
  n < two64 -> n' < two64 -> be 8 n ++ r = be 8 n' ++ r' -> n = n' /\ r = r'.
Proof. apply (be_inj 8). Qed.

Lemma be_encode_8 (z : Z) (b : bytes) :
  be_encode z 8 = Ok b -> (0 <= z)%Z /\ b = be 8 (Z.to_N z).
Proof.
  unfold be_encode. destruct (z <? 0)%Z eqn:Ez; [discriminate|].
  change (8 <? 8) with false. cbn [andb]. change (N.to_nat 8) with 8%nat.
  intros H. injection H as <-. split; [lia|reflexivity].
Qed.

(* the first byte of an 8-byte length below 2^56 is 0 *)
Lemma be8_first (n : N) : n < 2 ^ 56 -> exists t, be 8 n = 0 :: t.
Proof.
  intros Hn. change (be 8 n) with ((n / 256 ^ N.of_nat 7) mod 256 :: be 7 n).
  exists (be 7 n). f_equal. change (256 ^ N.of_nat 7) with (2 ^ 56).
  rewrite N.div_small by exact Hn. reflexivity.
Qed.

(* ---- decimal status --------------------------------------------------------- *)
Lemma dec_of_N_inj (n m : N) : dec_of_N n = dec_of_N m -> n = m.
Proof.
  intros E. pose proof (dec_of_N_DecVal n) as Hn. pose proof (dec_of_N_DecVal m) as Hm.
  apply DecVal_spec in Hn. apply DecVal_spec in Hm. rewrite E in Hn.
  destruct Hn as (_ & _ & Hn). destruct Hm as (_ & _ & Hm). congruence.
Qed.

Lemma dec_of_N_head (n : N) : exists c t, dec_of_N n = c :: t /\ 48 <= c <= 57.
Proof.
  pose proof (dec_of_N_DecVal n) as Hn. apply DecVal_spec in Hn. destruct Hn as (Hne & Hall & _).
  destruct (dec_of_N n) as [|c t]; [contradiction|]. exists c, t. split; [reflexivity|].
  inversion Hall as [|? ? Hc _]; subst. exact Hc.
Qed.

Lemma dec_of_Z_inj (z z' : Z) : dec_of_Z z = dec_of_Z z' -> z = z'.
Proof.
  unfold dec_of_Z. destruct (z <? 0)%Z eqn:E; destruct (z' <? 0)%Z eqn:E'; intros H.
  - injection H as H. apply dec_of_N_inj in H. lia.
  - destruct (dec_of_N_head (Z.to_N z')) as (c & t & Ec & Hc). rewrite Ec in H. injection H as H _. lia.
  - destruct (dec_of_N_head (Z.to_N z)) as (c & t & Ec & Hc). rewrite Ec in H. injection H as H _. lia.
  - apply dec_of_N_inj in H. lia.
Qed.

Lemma dec_digits_len : forall f n acc,
  (List.length (dec_digits f n acc) <= f + List.length acc)%nat.
Proof.
  induction f as [|f IH]; intros n acc; cbn [dec_digits]; [lia|].
  destruct (n / 10 =? 0); [cbn [List.length]; lia|].
  specialize (IH (n / 10) ((48 + n mod 10) :: acc)). cbn [List.length] in IH. lia.
Qed.

Lemma pos_size_nat_le p : forall k, N.pos p < 2 ^ N.of_nat k -> (Pos.size_nat p <= k)%nat.
Proof.
  induction p as [p IH|p IH|]; intros k Hk; cbn [Pos.size_nat].
  - destruct k as [|k]; [cbn in Hk; lia|]. rewrite Nat2N.inj_succ, N.pow_succ_r' in Hk.
    change (N.pos p~1) with (2 * N.pos p + 1) in Hk. specialize (IH k). lia.
  - destruct k as [|k]; [cbn in Hk; lia|]. rewrite Nat2N.inj_succ, N.pow_succ_r' in Hk.
    change (N.pos p~0) with (2 * N.pos p) in Hk. specialize (IH k). lia.
  - destruct k as [|k]; [cbn in Hk; lia|]. lia.
Qed.

Lemma dec_of_N_len (n : N) : n < two64 -> (List.length (dec_of_N n) <= 65)%nat.
Proof.
  intros Hn. unfold dec_of_N.
  pose proof (dec_digits_len (S (N.size_nat n)) n []) as H. cbn [List.length] in H.
  assert (N.size_nat n <= 64)%nat; [|lia].
  destruct n as [|p]; [cbn; lia|]. cbn [N.size_nat]. apply pos_size_nat_le. exact Hn.
Qed.

Lemma dec_of_Z_sized (z : Z) : i64 z -> lenN (dec_of_Z z) < two64.
Proof.
  unfold i64, two63. intros Hz. rewrite lenN_length. unfold dec_of_Z.
  destruct (z <? 0)%Z eqn:E; cbn [List.length].
  - pose proof (dec_of_N_len (Z.to_N (- z))) as H. unfold two64 in *. lia.
  - pose proof (dec_of_N_len (Z.to_N z)) as H. unfold two64 in *. lia.
Qed.

(* ---- maps of byte-string entries --------------------------------------------- *)
Definition wrap (kv : bytes * bytes) : bytes * bytes := (enc_bytes (fst kv), enc_bytes (snd kv)).
Definition szp (kv : bytes * bytes) : Prop := lenN (fst kv) < two64 /\ lenN (snd kv) < two64.
Definition flat (s : list (bytes * bytes)) : bytes := flat_map (fun e => fst e ++ snd e) s.

Lemma wrap_inj (a b : bytes * bytes) : szp a -> szp b -> wrap a = wrap b -> a = b.
Proof.
  destruct a as [k v], b as [k' v']. unfold szp, wrap. cbn [fst snd]. intros [H1 H2] [H3 H4] E.
  injection E as E1 E2.
  apply (f_equal (fun x => x ++ [])) in E1. apply (f_equal (fun x => x ++ [])) in E2.
  destruct (enc_bytes_inj _ _ _ _ H1 H3 E1) as [-> _].
  destruct (enc_bytes_inj _ _ _ _ H2 H4 E2) as [-> _]. reflexivity.
Qed.

Lemma pairs_parse : forall (l l' : list (bytes * bytes)) (r r' : bytes),
  Forall szp l -> Forall szp l' -> List.length l = List.length l' ->
  flat (map wrap l) ++ r = flat (map wrap l') ++ r' -> l = l' /\ r = r'.
Proof.
  induction l as [|[k v] l IH]; intros [|[k' v'] l'] r r' Hl Hl' Hlen E;
    cbn [List.length] in Hlen; try discriminate.
  - split; [reflexivity|exact E].
  - inversion Hl as [|? ? [H1 H2] Hl0]; inversion Hl' as [|? ? [H3 H4] Hl0']; subst.
    cbn [fst snd] in *. unfold flat in *. cbn [map flat_map wrap fst snd] in E.
    rewrite <- !app_assoc in E.
    destruct (enc_bytes_inj _ _ _ _ H1 H3 E) as [-> E'].
    destruct (enc_bytes_inj _ _ _ _ H2 H4 E') as [-> E''].
    injection Hlen as Hlen. destruct (IH l' r r' Hl0 Hl0' Hlen E'') as [-> ->].
    split; reflexivity.
Qed.

(* EncodeMap over byte-string entries: the output (even followed by anything)
   determines the entries up to order, and where the map ends *)
Theorem enc_map_wrap_inj (raw raw' : list (bytes * bytes)) (out out' r r' : bytes) :
  Forall szp raw -> Forall szp raw' -> lenN raw < two64 -> lenN raw' < two64 ->
  enc_map (map wrap raw) = Ok out -> enc_map (map wrap raw') = Ok out' ->
  out ++ r = out' ++ r' ->
  Permutation raw raw' /\ r = r' /\ NoDup (map fst raw) /\ NoDup (map fst raw').
Proof.
  intros Hs Hs' Hn Hn' Ho Ho' E.
  assert (ND : forall l o, enc_map (map wrap l) = Ok o -> NoDup (map fst l)).
  { intros l o Hl.
    assert (Hnd : NoDup (map fst (map wrap l))).
    { apply sort_nodup_iff. unfold enc_map in Hl.
      destruct (adjacent_dup (sort_entries (map wrap l))); [discriminate|reflexivity]. }
    rewrite map_map in Hnd. cbn [wrap fst] in Hnd.
    rewrite <- (map_map fst enc_bytes) in Hnd. apply NoDup_map_inv in Hnd. exact Hnd. }
  destruct (enc_map_sorted _ _ Ho) as (s & Ps & _ & ->).
  destruct (enc_map_sorted _ _ Ho') as (s' & Ps' & _ & ->).
  destruct (Permutation_map_inv _ _ Ps) as (s0 & -> & P0).
  destruct (Permutation_map_inv _ _ Ps') as (s0' & -> & P0').
  rewrite !lenN_map in E. unfold enc_map_header in E. rewrite <- !app_assoc in E.
  destruct (typed_uint_inj _ _ _ _ _ mc_map Hn Hn' E) as [En E2].
  assert (Hlen : List.length s0 = List.length s0').
  { rewrite <- (Permutation_length P0), <- (Permutation_length P0'). rewrite !lenN_length in En. lia. }
  destruct (pairs_parse s0 s0' r r') as [-> ->]; try assumption.
  - eapply Permutation_Forall; [exact P0|exact Hs].
  - eapply Permutation_Forall; [exact P0'|exact Hs'].
  - split; [|split; [reflexivity|split; eapply ND; eassumption]].
    eapply perm_trans; [exact P0|apply Permutation_sym; exact P0'].
Qed.

(* ---- header maps as finite maps -------------------------------------------- *)
(* what is signed of a header map: (lower-cased name, comma-joined value) *)
Definition hraw (h : headers) : list (bytes * bytes) :=
  map (fun nv => (lower (fst nv), join_comma (snd nv))) h.

Lemma header_entries_wrap (h : headers) : header_entries h = map wrap (hraw h).
Proof. unfold header_entries, hraw. rewrite map_map. reflexivity. Qed.

(* sizes: every length the encoders write fits 64 bits *)
Definition hsized (h : headers) : Prop :=
  lenN h + 2 < two64 /\
  Forall (fun nv => lenN (fst nv) < two64 /\ lenN (join_comma (snd nv)) < two64) h.
Definition esized (e : exchange) : Prop :=
  lenN (e_uri e) < two64 /\ lenN (e_method e) < two64 /\ i64 (e_status e) /\
  hsized (e_reqh e) /\ hsized (e_resph e).

Lemma hsized_szp (h : headers) : hsized h -> Forall szp (hraw h).
Proof.
  intros [_ H]. unfold hraw. rewrite Forall_map. eapply Forall_impl; [|exact H].
  intros [k vs] [H1 H2]. unfold szp, lower. cbn [fst snd] in *. rewrite lenN_map. split; assumption.
Qed.
Lemma hsized_len (h : headers) : hsized h -> lenN (hraw h) + 2 < two64.
Proof. intros [H _]. unfold hraw. rewrite lenN_map. exact H. Qed.

Definition req_raw (e : exchange) : list (bytes * bytes) :=
  (key_method, e_method e) ::
  (match e_ver e with V1b1 => [(key_url, e_uri e)] | _ => [] end) ++ hraw (e_reqh e).
Definition resp_raw (e : exchange) : list (bytes * bytes) :=
  (key_status, dec_of_Z (e_status e)) :: hraw (e_resph e).

Lemma encode_request_map_raw (e : exchange) : encode_request_map e = enc_map (map wrap (req_raw e)).
Proof.
  unfold encode_request_map, req_raw. f_equal. cbn [map app wrap fst snd]. f_equal.
  rewrite map_app, header_entries_wrap. destruct (e_ver e); reflexivity.
Qed.
Lemma encode_response_map_raw (e : exchange) : encode_response_map e = enc_map (map wrap (resp_raw e)).
Proof. unfold encode_response_map, resp_raw. rewrite header_entries_wrap. reflexivity. Qed.

Lemma key_sized (k : string) : lenN (s2b k) < two64 -> True. Proof. trivial. Qed.

Lemma req_raw_szp (e : exchange) : esized e -> Forall szp (req_raw e) /\ lenN (req_raw e) < two64.
Proof.
  intros (Hu & Hm & _ & Hq & _). pose proof (hsized_szp _ Hq) as Hq1. pose proof (hsized_len _ Hq) as Hq2.
  unfold req_raw. split.
  - constructor; [split; [vm_compute; reflexivity|exact Hm]|].
    destruct (e_ver e); cbn [app]; try exact Hq1.
    constructor; [split; [vm_compute; reflexivity|exact Hu]|exact Hq1].
  - cbn [lenN]. rewrite lenN_app. destruct (e_ver e); cbn [lenN]; lia.
Qed.
Lemma resp_raw_szp (e : exchange) : esized e -> Forall szp (resp_raw e) /\ lenN (resp_raw e) < two64.
Proof.
  intros (_ & _ & Hs & _ & Hp). pose proof (hsized_szp _ Hp) as Hp1. pose proof (hsized_len _ Hp) as Hp2.
  unfold resp_raw. split.
  - constructor; [split; [vm_compute; reflexivity|apply dec_of_Z_sized; exact Hs]|exact Hp1].
  - cbn [lenN]. lia.
Qed.

Theorem request_map_inj (e e' : exchange) (o o' r r' : bytes) :
  e_ver e = e_ver e' -> esized e -> esized e' ->
  encode_request_map e = Ok o -> encode_request_map e' = Ok o' -> o ++ r = o' ++ r' ->
  e_method e = e_method e' /\ (e_ver e = V1b1 -> e_uri e = e_uri e') /\
  Permutation (hraw (e_reqh e)) (hraw (e_reqh e')) /\
  NoDup (map fst (hraw (e_reqh e))) /\ NoDup (map fst (hraw (e_reqh e'))) /\ r = r'.
Proof.
  intros Hv Hs Hs' Ho Ho' E. rewrite encode_request_map_raw in Ho, Ho'.
  destruct (req_raw_szp e Hs) as [Hz Hn]. destruct (req_raw_szp e' Hs') as [Hz' Hn'].
  destruct (enc_map_wrap_inj _ _ _ _ _ _ Hz Hz' Hn Hn' Ho Ho' E) as (HP & Er & Hd & Hd').
  unfold req_raw in HP, Hd, Hd'. rewrite <- Hv in *.
  destruct (perm_head_key (key_method, e_method e) _ _ _ Hd' eq_refl HP) as [Em HP1]. injection Em as Em.
  cbn [map] in Hd, Hd'. apply NoDup_cons_iff in Hd, Hd'. destruct Hd as [_ Hd]. destruct Hd' as [_ Hd'].
  destruct (e_ver e); cbn [app] in *.
  - destruct (perm_head_key (key_url, e_uri e) _ _ _ Hd' eq_refl HP1) as [Eu HP2]. injection Eu as Eu.
    cbn [map] in Hd, Hd'. apply NoDup_cons_iff in Hd, Hd'.
    repeat split; first [exact Er|tauto].
  - repeat split; try assumption. discriminate.
  - repeat split; try assumption. discriminate.
Qed.

Theorem response_map_inj (e e' : exchange) (o o' r r' : bytes) :
  esized e -> esized e' ->
  encode_response_map e = Ok o -> encode_response_map e' = Ok o' -> o ++ r = o' ++ r' ->
  e_status e = e_status e' /\
  Permutation (hraw (e_resph e)) (hraw (e_resph e')) /\
  NoDup (map fst (hraw (e_resph e))) /\ NoDup (map fst (hraw (e_resph e'))) /\ r = r'.
Proof.
  intros Hs Hs' Ho Ho' E. rewrite encode_response_map_raw in Ho, Ho'.
  destruct (resp_raw_szp e Hs) as [Hz Hn]. destruct (resp_raw_szp e' Hs') as [Hz' Hn'].
  destruct (enc_map_wrap_inj _ _ _ _ _ _ Hz Hz' Hn Hn' Ho Ho' E) as (HP & Er & Hd & Hd').
  unfold resp_raw in HP, Hd, Hd'.
  destruct (perm_head_key (key_status, dec_of_Z (e_status e)) _ _ _ Hd' eq_refl HP) as [Em HP1]. injection Em as Em.
  apply dec_of_Z_inj in Em.
  cbn [map] in Hd, Hd'. apply NoDup_cons_iff in Hd, Hd'.
  repeat split; first [exact Er|tauto].
Qed.

(* the part of the signed fields carried by the header CBOR *)
Definition hdr_equiv (e e' : exchange) : Prop :=
  (has_request (e_ver e) = true ->
     e_method e = e_method e' /\ Permutation (hraw (e_reqh e)) (hraw (e_reqh e'))) /\
  (e_ver e = V1b1 -> e_uri e = e_uri e') /\
  e_status e = e_status e' /\ Permutation (hraw (e_resph e)) (hraw (e_resph e')).
(* the signed header maps are finite maps: no two entries with the same name *)
Definition hdr_nodup (e : exchange) : Prop :=
  (has_request (e_ver e) = true -> NoDup (map fst (hraw (e_reqh e)))) /\
  NoDup (map fst (hraw (e_resph e))).

Theorem headers_cbor_prefix_free (e e' : exchange) (bs bs' r r' : bytes) :
  e_ver e = e_ver e' -> esized e -> esized e' ->
  encode_exchange_headers e = Ok bs -> encode_exchange_headers e' = Ok bs' ->
  bs ++ r = bs' ++ r' ->
  hdr_equiv e e' /\ hdr_nodup e /\ hdr_nodup e' /\ r = r'.
Proof.
  intros Hv Hs Hs' Hb Hb' E. unfold encode_exchange_headers in Hb, Hb'.
  unfold hdr_equiv, hdr_nodup. rewrite <- Hv in *.
  destruct (has_request (e_ver e)) eqn:Hr.
  - destruct (encode_request_map e) as [rq| | |] eqn:Hq; cbn [bind] in Hb; try discriminate.
    destruct (encode_response_map e) as [rs| | |] eqn:Hp; cbn [bind] in Hb; try discriminate.
    destruct (encode_request_map e') as [rq'| | |] eqn:Hq'; cbn [bind] in Hb'; try discriminate.
    destruct (encode_response_map e') as [rs'| | |] eqn:Hp'; cbn [bind] in Hb'; try discriminate.
    injection Hb as Hb. injection Hb' as Hb'. subst bs bs'. cbn [app] in E. injection E as E. rewrite <- !app_assoc in E.
    destruct (request_map_inj e e' _ _ _ _ Hv Hs Hs' Hq Hq' E) as (Em & Eu & HP & Hd & Hd' & E1).
    destruct (response_map_inj e e' _ _ _ _ Hs Hs' Hp Hp' E1) as (Est & HP2 & Hd2 & Hd2' & E2).
    repeat split; try assumption; tauto.
  - destruct (response_map_inj e e' _ _ _ _ Hs Hs' Hb Hb' E) as (Est & HP2 & Hd2 & Hd2' & E2).
    repeat split; try assumption; try discriminate.
    intros Hb1. destruct (e_ver e); discriminate.
Qed.

Theorem headers_cbor_injective (e e' : exchange) (bs : bytes) :
  e_ver e = e_ver e' -> esized e -> esized e' ->
  encode_exchange_headers e = Ok bs -> encode_exchange_headers e' = Ok bs ->
  hdr_equiv e e' /\ hdr_nodup e /\ hdr_nodup e'.
Proof.
  intros Hv Hs Hs' Hb Hb'.
  destruct (headers_cbor_prefix_free e e' bs bs [] [] Hv Hs Hs' Hb Hb' eq_refl) as (H1 & H2 & H3 & _).
  split; [exact H1|split; [exact H2|exact H3]].
Qed.

(* ---- the signed fields -------------------------------------------------------- *)
Record sfields := {
  f_ver : version;
  f_cert_sha : option bytes; f_validity : bytes; f_date : Z; f_expires : Z;
  f_uri : bytes;
  f_method : bytes;                    (* b1/b2 *)
  f_req : list (bytes * bytes);        (* b1/b2: finite map lower-cased name -> joined value *)
  f_status : Z;
  f_resp : list (bytes * bytes) }.

Definition fields_of (e : exchange) (cs : option bytes) (v : bytes) (d x : Z) : sfields :=
  {| f_ver := e_ver e; f_cert_sha := cs; f_validity := v; f_date := d; f_expires := x;
     f_uri := e_uri e;
     f_method := if has_request (e_ver e) then e_method e else [];
     f_req := if has_request (e_ver e) then hraw (e_reqh e) else [];
     f_status := e_status e;
     f_resp := hraw (e_resph e) |}.

(* equality of signed fields; the two header maps are compared as finite maps *)
Definition sf_equiv (a b : sfields) : Prop :=
  f_ver a = f_ver b /\ f_cert_sha a = f_cert_sha b /\ f_validity a = f_validity b /\
  f_date a = f_date b /\ f_expires a = f_expires b /\ f_uri a = f_uri b /\
  f_method a = f_method b /\ Permutation (f_req a) (f_req b) /\
  f_status a = f_status b /\ Permutation (f_resp a) (f_resp b).
Definition sf_map (a : sfields) : Prop :=
  NoDup (map fst (f_req a)) /\ NoDup (map fst (f_resp a)).

Lemma sf_equiv_refl a : sf_equiv a a.
Proof. unfold sf_equiv. repeat split; try reflexivity; apply Permutation_refl. Qed.
Lemma sf_equiv_sym a b : sf_equiv a b -> sf_equiv b a.
Proof.
  unfold sf_equiv. intros (H1 & H2 & H3 & H4 & H5 & H6 & H7 & H8 & H9 & H10).
  repeat split; try (symmetry; assumption); apply Permutation_sym; assumption.
Qed.

(* the size / range conditions on the signature parameters.
   b1: CBOR heads carry the lengths, EncodeInt takes an int64.
   b2/b3: cert-sha256 is written as the byte 32 followed by the bytes, with no
   length of their own, so it must really be 32 bytes long; without cert-sha256
   nothing is written at all (not the 0 byte of the draft), and the first
   byte of the 8-byte validity-url length must not look like the 32: the
   length must be below 2^56; date/expires are written modulo 2^64. *)
Definition params_ok (ver : version) (cs : option bytes) (v : bytes) (d x : Z) : Prop :=
  match ver with
  | V1b1 =>
      match cs with Some c => lenN c < two64 | None => True end /\
      lenN v < two64 /\ i64 d /\ i64 x
  | _ =>
      match cs with Some c => lenN c = 32 | None => lenN v < 2 ^ 56 end /\
      lenN v < two64 /\ (d < Z.of_N two64)%Z /\ (x < Z.of_N two64)%Z
  end.

Definition msg_prefix (ver : version) : bytes := repeat 32 64 ++ context_string ver ++ [0].

(* ---- b2 / b3: the length-prefixed layout --------------------------------------- *)
Lemma signed_message_b23 (e : exchange) (cs : option bytes) (v : bytes) (d x : Z) (m : bytes) :
  e_ver e <> V1b1 -> signed_message e cs v d x = Ok m ->
  exists hdr, encode_exchange_headers e = Ok hdr /\ (0 <= d)%Z /\ (0 <= x)%Z /\
    m = msg_prefix (e_ver e) ++ (match cs with Some c => 32 :: c | None => [] end)
        ++ be 8 (lenN v) ++ v ++ be 8 (Z.to_N d) ++ be 8 (Z.to_N x)
        ++ be 8 (lenN (e_uri e)) ++ e_uri e ++ be 8 (lenN hdr) ++ hdr.
Proof.
  intros Hv H. unfold signed_message in H. fold (msg_prefix (e_ver e)) in H.
  assert (H' :
    (let* vl := be_encode (Z.of_N (lenN v)) 8 in
     let* d0 := be_encode d 8 in
     let* x0 := be_encode x 8 in
     let* rl := be_encode (Z.of_N (lenN (e_uri e))) 8 in
     let* hdr := encode_exchange_headers e in
     let* hl := be_encode (Z.of_N (lenN hdr)) 8 in
     Ok (msg_prefix (e_ver e) ++ (match cs with Some c => 32 :: c | None => [] end)
         ++ vl ++ v ++ d0 ++ x0 ++ rl ++ e_uri e ++ hl ++ hdr)) = Ok m).
  { destruct (e_ver e); [contradiction Hv; reflexivity|exact H|exact H]. }
  clear H.
  destruct (be_encode (Z.of_N (lenN v)) 8) as [vl| | |] eqn:E1; cbn [bind] in H'; try discriminate.
  destruct (be_encode d 8) as [d0| | |] eqn:E2; cbn [bind] in H'; try discriminate.
  destruct (be_encode x 8) as [x0| | |] eqn:E3; cbn [bind] in H'; try discriminate.
  destruct (be_encode (Z.of_N (lenN (e_uri e))) 8) as [rl| | |] eqn:E4; cbn [bind] in H'; try discriminate.
  destruct (encode_exchange_headers e) as [hdr| | |] eqn:E5; cbn [bind] in H'; try discriminate.
  destruct (be_encode (Z.of_N (lenN hdr)) 8) as [hl| | |] eqn:E6; cbn [bind] in H'; try discriminate.
  apply be_encode_8 in E1, E2, E3, E4, E6. rewrite N2Z.id in E1, E4, E6.
  destruct E1 as [_ ->], E2 as [Hd ->], E3 as [Hx ->], E4 as [_ ->], E6 as [_ ->].
  injection H' as <-. exists hdr. repeat split; assumption.
Qed.

Theorem signed_message_injective_b23 (e e' : exchange) (cs cs' : option bytes) (v v' : bytes)
        (d x d' x' : Z) (m : bytes) :
  e_ver e <> V1b1 -> e_ver e = e_ver e' ->
  esized e -> esized e' -> params_ok (e_ver e) cs v d x -> params_ok (e_ver e') cs' v' d' x' ->
  signed_message e cs v d x = Ok m -> signed_message e' cs' v' d' x' = Ok m ->
  cs = cs' /\ v = v' /\ d = d' /\ x = x' /\ e_uri e = e_uri e' /\
  hdr_equiv e e' /\ hdr_nodup e /\ hdr_nodup e'.
Proof.
  intros Hn1 Hv Hs Hs' Hp Hp' Hm Hm'.
  assert (Hn1' : e_ver e' <> V1b1) by (rewrite <- Hv; exact Hn1).
  destruct (signed_message_b23 _ _ _ _ _ _ Hn1 Hm) as (hdr & Hh & Hd0 & Hx0 & Em).
  destruct (signed_message_b23 _ _ _ _ _ _ Hn1' Hm') as (hdr' & Hh' & Hd0' & Hx0' & Em').
  rewrite Em in Em'. rewrite <- Hv in Em'. apply app_inv_head in Em'.
  assert (Hp2 : match cs with Some c => lenN c = 32 | None => lenN v < 2 ^ 56 end /\
                lenN v < two64 /\ (d < Z.of_N two64)%Z /\ (x < Z.of_N two64)%Z)
    by (unfold params_ok in Hp; destruct (e_ver e); [contradiction Hn1; reflexivity|exact Hp|exact Hp]).
  assert (Hp2' : match cs' with Some c => lenN c = 32 | None => lenN v' < 2 ^ 56 end /\
                lenN v' < two64 /\ (d' < Z.of_N two64)%Z /\ (x' < Z.of_N two64)%Z)
    by (unfold params_ok in Hp'; destruct (e_ver e'); [contradiction Hn1'; reflexivity|exact Hp'|exact Hp']).
  clear Hp Hp'. destruct Hp2 as (Hc & Hvl & Hdl & Hxl). destruct Hp2' as (Hc' & Hvl' & Hdl' & Hxl').
  destruct Hs as (Hu & Hs0). destruct Hs' as (Hu' & Hs0').
  assert (Ecs : cs = cs' /\
     be 8 (lenN v) ++ v ++ be 8 (Z.to_N d) ++ be 8 (Z.to_N x) ++ be 8 (lenN (e_uri e)) ++ e_uri e
       ++ be 8 (lenN hdr) ++ hdr =
     be 8 (lenN v') ++ v' ++ be 8 (Z.to_N d') ++ be 8 (Z.to_N x') ++ be 8 (lenN (e_uri e')) ++ e_uri e'
       ++ be 8 (lenN hdr') ++ hdr').
  { destruct cs as [c|]; destruct cs' as [c'|]; cbn [app] in Em'.
    - injection Em' as Em'. destruct (app_eq_lenN _ _ _ _ (eq_trans Hc (eq_sym Hc')) Em') as [-> E2].
      split; [reflexivity|exact E2].
    - exfalso. destruct (be8_first _ Hc') as (t & Et). rewrite Et in Em'. discriminate.
    - exfalso. destruct (be8_first _ Hc) as (t & Et). rewrite Et in Em'. discriminate.
    - split; [reflexivity|exact Em']. }
  destruct Ecs as [Ecs E]. clear Em'.
  destruct (be8_inj _ _ _ _ Hvl Hvl' E) as [El E1]. clear E.
  destruct (app_eq_lenN _ _ _ _ El E1) as [Ev E2]. clear E1.
  assert (Hd1 : Z.to_N d < two64) by (unfold two64 in *; lia).
  assert (Hd1' : Z.to_N d' < two64) by (unfold two64 in *; lia).
  assert (Hx1 : Z.to_N x < two64) by (unfold two64 in *; lia).
  assert (Hx1' : Z.to_N x' < two64) by (unfold two64 in *; lia).
  destruct (be8_inj _ _ _ _ Hd1 Hd1' E2) as [Ed E3]. clear E2.
  destruct (be8_inj _ _ _ _ Hx1 Hx1' E3) as [Ex E4]. clear E3.
  destruct (be8_inj _ _ _ _ Hu Hu' E4) as [Eul E5]. clear E4.
  destruct (app_eq_lenN _ _ _ _ Eul E5) as [Eu E6]. clear E5.
  assert (Hl8 : List.length (be 8 (lenN hdr)) = List.length (be 8 (lenN hdr')))
    by (rewrite !be_length; reflexivity).
  destruct (app_eq_len _ _ _ _ Hl8 E6) as [_ Eh]. subst hdr'.
  destruct (headers_cbor_injective e e' hdr Hv (conj Hu Hs0) (conj Hu' Hs0') Hh Hh') as (Q1 & Q2 & Q3).
  refine (conj Ecs (conj Ev (conj _ (conj _ (conj Eu (conj Q1 (conj Q2 Q3))))))); lia.
Qed.

(* ---- b1: a canonical CBOR map -------------------------------------------------- *)
Definition tk (k : string) : bytes := text_key k.

Lemma b1_sort5 (c v d x h : bytes) :
  sort_entries [(tk "cert-sha256", c); (tk "validity-url", v); (tk "date", d);
                (tk "expires", x); (tk "headers", h)]
  = [(tk "date", d); (tk "expires", x); (tk "headers", h); (tk "cert-sha256", c);
     (tk "validity-url", v)].
Proof. vm_compute. reflexivity. Qed.
Lemma b1_sort4 (v d x h : bytes) :
  sort_entries [(tk "validity-url", v); (tk "date", d); (tk "expires", x); (tk "headers", h)]
  = [(tk "date", d); (tk "expires", x); (tk "headers", h); (tk "validity-url", v)].
Proof. vm_compute. reflexivity. Qed.
Lemma b1_nodup5 (c v d x h : bytes) :
  adjacent_dup [(tk "date", d); (tk "expires", x); (tk "headers", h); (tk "cert-sha256", c);
                (tk "validity-url", v)] = false.
Proof. vm_compute. reflexivity. Qed.
Lemma b1_nodup4 (v d x h : bytes) :
  adjacent_dup [(tk "date", d); (tk "expires", x); (tk "headers", h); (tk "validity-url", v)] = false.
Proof. vm_compute. reflexivity. Qed.

Lemma enc_map_b1_some (c v d x h : bytes) :
  enc_map [(tk "cert-sha256", c); (tk "validity-url", v); (tk "date", d);
           (tk "expires", x); (tk "headers", h)]
  = Ok (enc_map_header 5 ++ tk "date" ++ d ++ tk "expires" ++ x ++ tk "headers" ++ h
        ++ tk "cert-sha256" ++ c ++ tk "validity-url" ++ v).
Proof.
  unfold enc_map. rewrite b1_sort5, b1_nodup5. cbn [flat_map fst snd].
  rewrite <- !app_assoc, app_nil_r. reflexivity.
Qed.
Lemma enc_map_b1_none (v d x h : bytes) :
  enc_map [(tk "validity-url", v); (tk "date", d); (tk "expires", x); (tk "headers", h)]
  = Ok (enc_map_header 4 ++ tk "date" ++ d ++ tk "expires" ++ x ++ tk "headers" ++ h
        ++ tk "validity-url" ++ v).
Proof.
  unfold enc_map. rewrite b1_sort4, b1_nodup4. cbn [flat_map fst snd].
  rewrite <- !app_assoc, app_nil_r. reflexivity.
Qed.

Lemma signed_message_b1 (e : exchange) (cs : option bytes) (v : bytes) (d x : Z) (m : bytes) :
  e_ver e = V1b1 -> signed_message e cs v d x = Ok m ->
  exists hv, encode_exchange_headers e = Ok hv /\
    m = msg_prefix V1b1 ++
        match cs with
        | Some c => enc_map_header 5 ++ tk "date" ++ enc_int d ++ tk "expires" ++ enc_int x
                    ++ tk "headers" ++ hv ++ tk "cert-sha256" ++ enc_bytes c
                    ++ tk "validity-url" ++ enc_bytes v
        | None => enc_map_header 4 ++ tk "date" ++ enc_int d ++ tk "expires" ++ enc_int x
                    ++ tk "headers" ++ hv ++ tk "validity-url" ++ enc_bytes v
        end.
Proof.
  intros Hv H. unfold signed_message in H. rewrite Hv in H. fold (msg_prefix V1b1) in H.
  destruct (encode_exchange_headers e) as [hv| | |]; cbn [bind] in H; try discriminate.
  exists hv. split; [reflexivity|]. fold (tk "cert-sha256") (tk "validity-url") (tk "date")
    (tk "expires") (tk "headers") in H.
  destruct cs as [c|]; cbn [app] in H.
  - rewrite enc_map_b1_some in H. cbn [bind] in H. injection H as <-. reflexivity.
  - rewrite enc_map_b1_none in H. cbn [bind] in H. injection H as <-. reflexivity.
Qed.

Theorem signed_message_injective_b1 (e e' : exchange) (cs cs' : option bytes) (v v' : bytes)
        (d x d' x' : Z) (m : bytes) :
  e_ver e = V1b1 -> e_ver e' = V1b1 ->
  esized e -> esized e' -> params_ok V1b1 cs v d x -> params_ok V1b1 cs' v' d' x' ->
  signed_message e cs v d x = Ok m -> signed_message e' cs' v' d' x' = Ok m ->
  cs = cs' /\ v = v' /\ d = d' /\ x = x' /\ e_uri e = e_uri e' /\
  hdr_equiv e e' /\ hdr_nodup e /\ hdr_nodup e'.
Proof.
  intros Hv Hv' Hs Hs' (Hc & Hvl & Hd & Hx) (Hc' & Hvl' & Hd' & Hx') Hm Hm'.
  destruct (signed_message_b1 _ _ _ _ _ _ Hv Hm) as (hv & Hh & Em).
  destruct (signed_message_b1 _ _ _ _ _ _ Hv' Hm') as (hv' & Hh' & Em').
  rewrite Em in Em'. apply app_inv_head in Em'.
  assert (Hvv : e_ver e = e_ver e') by congruence.
  assert (H45 : forall a b : bytes, enc_map_header 5 ++ a <> enc_map_header 4 ++ b).
  { intros a b E. unfold enc_map_header in E.
    destruct (typed_uint_inj MMap 5 4 a b mc_map) as [E1 _]; try exact E; try reflexivity. discriminate. }
  destruct cs as [c|]; destruct cs' as [c'|];
    try (exfalso; eapply H45; first [exact Em'|symmetry; exact Em']).
  - apply app_inv_head in Em'. apply app_inv_head in Em'.
    destruct (enc_int_inj _ _ _ _ Hd Hd' Em') as [Ed E1]. apply app_inv_head in E1.
    destruct (enc_int_inj _ _ _ _ Hx Hx' E1) as [Ex E2]. apply app_inv_head in E2.
    destruct (headers_cbor_prefix_free e e' _ _ _ _ Hvv Hs Hs' Hh Hh' E2) as (Q1 & Q2 & Q3 & E3).
    apply app_inv_head in E3.
    destruct (enc_bytes_inj _ _ _ _ Hc Hc' E3) as [Ec E4]. apply app_inv_head in E4.
    apply (f_equal (fun l => l ++ [])) in E4.
    destruct (enc_bytes_inj _ _ _ _ Hvl Hvl' E4) as [Ev _].
    subst. refine (conj eq_refl (conj eq_refl (conj eq_refl (conj eq_refl (conj _ (conj Q1 (conj Q2 Q3))))))).
    destruct Q1 as (_ & Qu & _). apply Qu. exact Hv.
  - apply app_inv_head in Em'. apply app_inv_head in Em'.
    destruct (enc_int_inj _ _ _ _ Hd Hd' Em') as [Ed E1]. apply app_inv_head in E1.
    destruct (enc_int_inj _ _ _ _ Hx Hx' E1) as [Ex E2]. apply app_inv_head in E2.
    destruct (headers_cbor_prefix_free e e' _ _ _ _ Hvv Hs Hs' Hh Hh' E2) as (Q1 & Q2 & Q3 & E3).
    apply app_inv_head in E3.
    apply (f_equal (fun l => l ++ [])) in E3.
    destruct (enc_bytes_inj _ _ _ _ Hvl Hvl' E3) as [Ev _].
    subst. refine (conj eq_refl (conj eq_refl (conj eq_refl (conj eq_refl (conj _ (conj Q1 (conj Q2 Q3))))))).
    destruct Q1 as (_ & Qu & _). apply Qu. exact Hv.
Qed.

(* ---- the version is part of the message ---------------------------------------- *)
Lemma signed_message_prefix (e : exchange) (cs : option bytes) (v : bytes) (d x : Z) (m : bytes) :
  signed_message e cs v d x = Ok m -> exists rest, m = msg_prefix (e_ver e) ++ rest.
Proof.
  intros H. destruct (e_ver e) eqn:Hv.
  - destruct (signed_message_b1 _ _ _ _ _ _ Hv H) as (hv & _ & ->). eexists. reflexivity.
  - assert (Hn : e_ver e <> V1b1) by congruence.
    destruct (signed_message_b23 _ _ _ _ _ _ Hn H) as (hdr & _ & _ & _ & ->). rewrite Hv. eexists. reflexivity.
  - assert (Hn : e_ver e <> V1b1) by congruence.
    destruct (signed_message_b23 _ _ _ _ _ _ Hn H) as (hdr & _ & _ & _ & ->). rewrite Hv. eexists. reflexivity.
Qed.

(* byte 81 of the message is the last character of the context string *)
Theorem signed_message_version (e e' : exchange) (cs cs' : option bytes) (v v' : bytes)
        (d x d' x' : Z) (m : bytes) :
  signed_message e cs v d x = Ok m -> signed_message e' cs' v' d' x' = Ok m -> e_ver e = e_ver e'.
Proof.
  intros H H'. destruct (signed_message_prefix _ _ _ _ _ _ H) as (r & E).
  destruct (signed_message_prefix _ _ _ _ _ _ H') as (r' & E'). rewrite E in E'.
  apply (f_equal (fun l => nth 81 l 0)) in E'.
  destruct (e_ver e); destruct (e_ver e'); try reflexivity; exfalso;
    rewrite !app_nth1 in E' by (vm_compute; lia); vm_compute in E'; discriminate.
Qed.

(* ---- all versions ------------------------------------------------------------- *)
Theorem signed_message_injective (e e' : exchange) (cs cs' : option bytes) (v v' : bytes)
        (d x d' x' : Z) (m : bytes) :
  esized e -> esized e' -> params_ok (e_ver e) cs v d x -> params_ok (e_ver e') cs' v' d' x' ->
  signed_message e cs v d x = Ok m -> signed_message e' cs' v' d' x' = Ok m ->
  sf_equiv (fields_of e cs v d x) (fields_of e' cs' v' d' x') /\
  sf_map (fields_of e cs v d x) /\ sf_map (fields_of e' cs' v' d' x').
Proof.
  intros Hs Hs' Hp Hp' Hm Hm'.
  pose proof (signed_message_version _ _ _ _ _ _ _ _ _ _ _ Hm Hm') as Hv.
  assert (Q : cs = cs' /\ v = v' /\ d = d' /\ x = x' /\ e_uri e = e_uri e' /\
              hdr_equiv e e' /\ hdr_nodup e /\ hdr_nodup e').
  { destruct (e_ver e) eqn:Ev.
    - rewrite <- Hv in Hp'. eapply signed_message_injective_b1; eauto.
    - eapply signed_message_injective_b23; eauto; rewrite ?Ev; try congruence.
    - eapply signed_message_injective_b23; eauto; rewrite ?Ev; try congruence. }
  destruct Q as (-> & -> & -> & -> & Eu & (Q1 & _ & Q2 & Q3) & (N1 & N2) & (N1' & N2')).
  unfold sf_equiv, sf_map, fields_of. cbn. rewrite <- Hv in *.
  destruct (has_request (e_ver e)).
  - destruct (Q1 eq_refl) as [Qm Qr]. repeat split; auto.
  - repeat split; auto; constructor.
Qed.

(* ---- a boolean checker for the size conditions (for concrete examples) ----------- *)
Definition hsizedb (h : headers) : bool :=
  (lenN h + 2 <? two64) &&
  forallb (fun nv => (lenN (fst nv) <? two64) && (lenN (join_comma (snd nv)) <? two64)) h.
Definition i64b (z : Z) : bool := ((- Z.of_N two63 <=? z) && (z <? Z.of_N two63))%Z.
Definition esizedb (e : exchange) : bool :=
  (lenN (e_uri e) <? two64) && (lenN (e_method e) <? two64) && i64b (e_status e) &&
  hsizedb (e_reqh e) && hsizedb (e_resph e).

Lemma hsizedb_ok (h : headers) : hsizedb h = true -> hsized h.
Proof.
  unfold hsizedb, hsized. rewrite andb_true_iff, forallb_forall, Forall_forall.
  intros [H1 H2]. split; [lia|]. intros nv Hin. specialize (H2 nv Hin). lia.
Qed.
Lemma esizedb_ok (e : exchange) : esizedb e = true -> esized e.
Proof.
  unfold esizedb, esized, i64b, i64. rewrite !andb_true_iff.
  intros ((((H1 & H2) & (H3 & H4)) & H5) & H6).
  repeat split; try lia; apply hsizedb_ok; assumption.
Qed.
