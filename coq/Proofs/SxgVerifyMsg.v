(* Proofs/SxgVerifyMsg.v - the signed message determines the signed fields.

   signed_message (signer.go: serializeSignedMessage) is injective, up to the
   order of header-map entries, in everything it covers:
     - b2/b3: unique parsing of the length-prefixed layout;
     - b1: injectivity of canonical CBOR for maps of byte-string entries,
       integers and text keys.
   encode_exchange_headers (signedexchange.go) is injective and prefix-free in
   method / :url (b1) / status / header maps.

   Size side conditions are explicit ([esized], [params_ok]): the Go encoders
   truncate a length or integer that does not fit in 64 bits, and the b2/b3
   layout writes the cert-sha256 bytes without a length of their own.        *)
From Coq Require Import Lia ZifyN ZifyNat ZifyBool Permutation Sorted.
From WP Require Import Base.Prelude Base.Decimal.
From WP Require Import Model.Cbor Model.BigEndian Model.Http Model.Mice Model.StructHdr
                       Model.CertChain Model.Sxg.
From WP Require Import Spec.Cbor Proofs.BaseLemmas Proofs.CborHead Proofs.CborMap
                       Proofs.CborDecode Proofs.SHEnc.
Ltac Zify.zify_post_hook ::= Z.div_mod_to_equations.
Open Scope N_scope.

Notation MBytes := WP.Model.Cbor.TBytes (only parsing).
Notation MText := WP.Model.Cbor.TText (only parsing).
Notation MMap := WP.Model.Cbor.TMap (only parsing).

(* ---- generic list facts --------------------------------------------------- *)
Lemma app_eq_len {A} (a a' r r' : list A) :
  List.length a = List.length a' -> a ++ r = a' ++ r' -> a = a' /\ r = r'.
Proof.
  revert a'. induction a as [|x a IH]; intros [|y a'] Hl E; cbn [List.length app] in *;
    try discriminate.
  - split; [reflexivity|exact E].
  - injection E as -> E. injection Hl as Hl. destruct (IH a' Hl E) as [-> ->]. split; reflexivity.
Qed.

Lemma app_eq_lenN {A} (a a' r r' : list A) :
  lenN a = lenN a' -> a ++ r = a' ++ r' -> a = a' /\ r = r'.
Proof. rewrite !lenN_length. intros Hl. apply app_eq_len. lia. Qed.

Lemma map_inj_on {A B} (f : A -> B) (P : A -> Prop) :
  (forall x y, P x -> P y -> f x = f y -> x = y) ->
  forall l l', Forall P l -> Forall P l' -> map f l = map f l' -> l = l'.
Proof.
  intros Hf. induction l as [|x l IH]; intros [|y l'] Hl Hl' E; cbn [map] in E; try discriminate.
  - reflexivity.
  - inversion Hl as [|? ? Hx Hl0]; inversion Hl' as [|? ? Hy Hl0']; subst.
    injection E as E1 E2. rewrite (Hf x y Hx Hy E1), (IH l' Hl0 Hl0' E2). reflexivity.
Qed.

(* a permutation of association lists without duplicate keys, with the same
   key in front, has the same front entry *)
Lemma perm_head_key {K V} (a a' : K * V) (l l' : list (K * V)) :
  NoDup (map fst (a' :: l')) -> fst a = fst a' ->
  Permutation (a :: l) (a' :: l') -> a = a' /\ Permutation l l'.
Proof.
  intros Hnd Hk HP.
  assert (Ha : a = a').
  { assert (Hin : In a (a' :: l')) by (eapply Permutation_in; [exact HP|left; reflexivity]).
    destruct Hin as [E|Hin]; [symmetry; exact E|].
    cbn [map] in Hnd. inversion Hnd as [|? ? Hni _]; subst. exfalso. apply Hni.
    rewrite <- Hk. apply in_map. exact Hin. }
  split; [exact Ha|]. subst a'. eapply Permutation_cons_inv. exact HP.
Qed.

(* ---- heads, byte strings, integers: injective and prefix-free --------------- *)
Lemma mc_bytes : major_const MBytes. Proof. split; reflexivity. Qed.
Lemma mc_text : major_const MText. Proof. split; reflexivity. Qed.
Lemma mc_map : major_const MMap. Proof. split; reflexivity. Qed.
Lemma mc_array : major_const TArray. Proof. split; reflexivity. Qed.

Lemma typed_uint_inj (t n n' : N) (r r' : bytes) :
  major_const t -> n < two64 -> n' < two64 ->
  typed_uint t n ++ r = typed_uint t n' ++ r' -> n = n' /\ r = r'.
Proof.
  intros Ht Hn Hn' E. apply (f_equal shead) in E.
  rewrite !head_roundtrip_shead in E by assumption.
  injection E as E1 _ E2. split; assumption.
Qed.

Lemma enc_bytes_of_inj (t : N) (s s' r r' : bytes) :
  major_const t -> lenN s < two64 -> lenN s' < two64 ->
  enc_bytes_of t s ++ r = enc_bytes_of t s' ++ r' -> s = s' /\ r = r'.
Proof.
  intros Ht Hs Hs' E. unfold enc_bytes_of in E. rewrite <- !app_assoc in E.
  destruct (typed_uint_inj _ _ _ _ _ Ht Hs Hs' E) as [El E2].
  apply app_eq_lenN; assumption.
Qed.

Lemma enc_bytes_inj (s s' r r' : bytes) :
  lenN s < two64 -> lenN s' < two64 ->
  enc_bytes s ++ r = enc_bytes s' ++ r' -> s = s' /\ r = r'.
Proof. apply enc_bytes_of_inj, mc_bytes. Qed.

Definition i64 (z : Z) : Prop := (- Z.of_N two63 <= z < Z.of_N two63)%Z.

Lemma some4_inv {A B C D} (a a' : A) (b b' : B) (c c' : C) (d d' : D) :
  Some (a, b, c, d) = Some (a', b', c', d') -> a = a' /\ b = b' /\ d = d'.
Proof. intros H. injection H as -> -> _ ->. repeat split. Qed.

Lemma enc_int_inj (z z' : Z) (r r' : bytes) :
  i64 z -> i64 z' -> enc_int z ++ r = enc_int z' ++ r' -> z = z' /\ r = r'.
Proof.
  unfold i64. intros Hz Hz' E. rewrite !enc_int_senc in E by assumption.
  apply (f_equal shead) in E. unfold two63 in *.
  destruct (0 <=? z)%Z eqn:E0; destruct (0 <=? z')%Z eqn:E0';
    rewrite !shead_senc_head in E by (unfold two64; lia);
    apply some4_inv in E; destruct E as (Em & En & Er); split; try exact Er; lia.
Qed.

Lemma be_inj (k : nat) (n n' : N) (r r' : bytes) :
  n < 256 ^ N.of_nat k -> n' < 256 ^ N.of_nat k ->
  be k n ++ r = be k n' ++ r' -> n = n' /\ r = r'.
Proof.
  intros Hn Hn' E.
  destruct (app_eq_len _ _ _ _ (eq_trans (be_length k n) (eq_sym (be_length k n'))) E) as [E1 E2].
  split; [|exact E2]. apply (f_equal unbe) in E1. rewrite !unbe_be_small in E1 by assumption. exact E1.
Qed.

Lemma be8_inj (n n' : N) (r r' : bytes) :
  n < two64 -> n' < two64 -> be 8 n ++ r = be 8 n' ++ r' -> n = n' /\ r = r'.
Proof. apply (be_inj 8). Qed.

Lemma be_encode_8 (z : Z) (b : bytes) :
  be_encode z 8 = Ok b -> (0 <= z)%Z /\ b = be 8 (Z.to_N z).
Proof.
  unfold be_encode. destruct (z <? 0)%Z eqn:Ez; [discriminate|].
  change (8 <? 8) with false. cbn [andb]. change (N.to_nat 8) with 8%nat.
  intros H. injection H as <-. split; [lia|reflexivity].
Qed.

(* the first byte of an 8-byte length below 2^56 is 0 *)
Lemma be8_first (n : N) : n < 2 ^ 56 -> exists t, be 8 n = 0 :: t.
Proof.
  intros Hn. change (be 8 n) with ((n / 256 ^ N.of_nat 7) mod 256 :: be 7 n).
  exists (be 7 n). f_equal. change (256 ^ N.of_nat 7) with (2 ^ 56).
  rewrite N.div_small by exact Hn. reflexivity.
Qed.

(* ---- decimal status --------------------------------------------------------- *)
Lemma dec_of_N_inj (n m : N) : dec_of_N n = dec_of_N m -> n = m.
Proof.
  intros E. pose proof (dec_of_N_DecVal n) as Hn. pose proof (dec_of_N_DecVal m) as Hm.
  apply DecVal_spec in Hn. apply DecVal_spec in Hm. rewrite E in Hn.
  destruct Hn as (_ & _ & Hn). destruct Hm as (_ & _ & Hm). congruence.
Qed.

Lemma dec_of_N_head (n : N) : exists c t, dec_of_N n = c :: t /\ 48 <= c <= 57.
Proof.
  pose proof (dec_of_N_DecVal n) as Hn. apply DecVal_spec in Hn. destruct Hn as (Hne & Hall & _).
  destruct (dec_of_N n) as [|c t]; [contradiction|]. exists c, t. split; [reflexivity|].
  inversion Hall as [|? ? Hc _]; subst. exact Hc.
Qed.

Lemma dec_of_Z_inj (z z' : Z) : dec_of_Z z = dec_of_Z z' -> z = z'.
Proof.
  unfold dec_of_Z. destruct (z <? 0)%Z eqn:E; destruct (z' <? 0)%Z eqn:E'; intros H.
  - injection H as H. apply dec_of_N_inj in H. lia.
  - destruct (dec_of_N_head (Z.to_N z')) as (c & t & Ec & Hc). rewrite Ec in H. injection H as H _. lia.
  - destruct (dec_of_N_head (Z.to_N z)) as (c & t & Ec & Hc). rewrite Ec in H. injection H as H _. lia.
  - apply dec_of_N_inj in H. lia.
Qed.

Lemma dec_digits_len : forall f n acc,
  (List.length (dec_digits f n acc) <= f + List.length acc)%nat.
Proof.
  induction f as [|f IH]; intros n acc; cbn [dec_digits]; [lia|].
  destruct (n / 10 =? 0); [cbn [List.length]; lia|].
  specialize (IH (n / 10) ((48 + n mod 10) :: acc)). cbn [List.length] in IH. lia.
Qed.

Lemma pos_size_nat_le p : forall k, N.pos p < 2 ^ N.of_nat k -> (Pos.size_nat p <= k)%nat.
Proof.
  induction p as [p IH|p IH|]; intros k Hk; cbn [Pos.size_nat].
  - destruct k as [|k]; [cbn in Hk; lia|]. rewrite Nat2N.inj_succ, N.pow_succ_r' in Hk.
    change (N.pos p~1) with (2 * N.pos p + 1) in Hk. specialize (IH k). lia.
  - destruct k as [|k]; [cbn in Hk; lia|]. rewrite Nat2N.inj_succ, N.pow_succ_r' in Hk.
    change (N.pos p~0) with (2 * N.pos p) in Hk. specialize (IH k). lia.
  - destruct k as [|k]; [cbn in Hk; lia|]. lia.
Qed.

Lemma dec_of_N_len (n : N) : n < two64 -> (List.length (dec_of_N n) <= 65)%nat.
Proof.
  intros Hn. unfold dec_of_N.
  pose proof (dec_digits_len (S (N.size_nat n)) n []) as H. cbn [List.length] in H.
  assert (N.size_nat n <= 64)%nat; [|lia].
  destruct n as [|p]; [cbn; lia|]. cbn [N.size_nat]. apply pos_size_nat_le. exact Hn.
Qed.

Lemma dec_of_Z_sized (z : Z) : i64 z -> lenN (dec_of_Z z) < two64.
Proof.
  unfold i64, two63. intros Hz. rewrite lenN_length. unfold dec_of_Z.
  destruct (z <? 0)%Z eqn:E; cbn [List.length].
  - pose proof (dec_of_N_len (Z.to_N (- z))) as H. unfold two64 in *. lia.
  - pose proof (dec_of_N_len (Z.to_N z)) as H. unfold two64 in *. lia.
Qed.

(* ---- maps of byte-string entries --------------------------------------------- *)
Definition wrap (kv : bytes * bytes) : bytes * bytes := (enc_bytes (fst kv), enc_bytes (snd kv)).
Definition szp (kv : bytes * bytes) : Prop := lenN (fst kv) < two64 /\ lenN (snd kv) < two64.
Definition flat (s : list (bytes * bytes)) : bytes := flat_map (fun e => fst e ++ snd e) s.

Lemma wrap_inj (a b : bytes * bytes) : szp a -> szp b -> wrap a = wrap b -> a = b.
Proof.
  destruct a as [k v], b as [k' v']. unfold szp, wrap. cbn [fst snd]. intros [H1 H2] [H3 H4] E.
  injection E as E1 E2.
  apply (f_equal (fun x => x ++ [])) in E1. apply (f_equal (fun x => x ++ [])) in E2.
  destruct (enc_bytes_inj _ _ _ _ H1 H3 E1) as [-> _].
  destruct (enc_bytes_inj _ _ _ _ H2 H4 E2) as [-> _]. reflexivity.
Qed.

Lemma pairs_parse : forall (l l' : list (bytes * bytes)) (r r' : bytes),
  Forall szp l -> Forall szp l' -> List.length l = List.length l' ->
  flat (map wrap l) ++ r = flat (map wrap l') ++ r' -> l = l' /\ r = r'.
Proof.
  induction l as [|[k v] l IH]; intros [|[k' v'] l'] r r' Hl Hl' Hlen E;
    cbn [List.length] in Hlen; try discriminate.
  - split; [reflexivity|exact E].
  - inversion Hl as [|? ? [H1 H2] Hl0]; inversion Hl' as [|? ? [H3 H4] Hl0']; subst.
    cbn [fst snd] in *. unfold flat in *. cbn [map flat_map wrap fst snd] in E.
    rewrite <- !app_assoc in E.
    destruct (enc_bytes_inj _ _ _ _ H1 H3 E) as [-> E'].
    destruct (enc_bytes_inj _ _ _ _ H2 H4 E') as [-> E''].
    injection Hlen as Hlen. destruct (IH l' r r' Hl0 Hl0' Hlen E'') as [-> ->].
    split; reflexivity.
Qed.

(* EncodeMap over byte-string entries: the output (even followed by anything)
   determines the entries up to order, and where the map ends *)
Theorem enc_map_wrap_inj (raw raw' : list (bytes * bytes)) (out out' r r' : bytes) :
  Forall szp raw -> Forall szp raw' -> lenN raw < two64 -> lenN raw' < two64 ->
  enc_map (map wrap raw) = Ok out -> enc_map (map wrap raw') = Ok out' ->
  out ++ r = out' ++ r' ->
  Permutation raw raw' /\ r = r' /\ NoDup (map fst raw) /\ NoDup (map fst raw').
Proof.
  intros Hs Hs' Hn Hn' Ho Ho' E.
  assert (ND : forall l o, enc_map (map wrap l) = Ok o -> NoDup (map fst l)).
  { intros l o Hl.
    assert (Hnd : NoDup (map fst (map wrap l))).
    { apply sort_nodup_iff. unfold enc_map in Hl.
      destruct (adjacent_dup (sort_entries (map wrap l))); [discriminate|reflexivity]. }
    rewrite map_map in Hnd. cbn [wrap fst] in Hnd.
    rewrite <- (map_map fst enc_bytes) in Hnd. apply NoDup_map_inv in Hnd. exact Hnd. }
  destruct (enc_map_sorted _ _ Ho) as (s & Ps & _ & ->).
  destruct (enc_map_sorted _ _ Ho') as (s' & Ps' & _ & ->).
  destruct (Permutation_map_inv _ _ Ps) as (s0 & -> & P0).
  destruct (Permutation_map_inv _ _ Ps') as (s0' & -> & P0').
  rewrite !lenN_map in E. unfold enc_map_header in E. rewrite <- !app_assoc in E.
  destruct (typed_uint_inj _ _ _ _ _ mc_map Hn Hn' E) as [En E2].
  assert (Hlen : List.length s0 = List.length s0').
  { rewrite <- (Permutation_length P0), <- (Permutation_length P0'). rewrite !lenN_length in En. lia. }
  destruct (pairs_parse s0 s0' r r') as [-> ->]; try assumption.
  - eapply Permutation_Forall; [exact P0|exact Hs].
  - eapply Permutation_Forall; [exact P0'|exact Hs'].
  - split; [|split; [reflexivity|split; eapply ND; eassumption]].
    eapply perm_trans; [exact P0|apply Permutation_sym; exact P0'].
Qed.

(* ---- header maps as finite maps -------------------------------------------- *)
(* what is signed of a header map: (lower-cased name, comma-joined value) *)
Definition hraw (h : headers) : list (bytes * bytes) :=
  map (fun nv => (lower (fst nv), join_comma (snd nv))) h.

Lemma header_entries_wrap (h : headers) : header_entries h = map wrap (hraw h).
Proof. unfold header_entries, hraw. rewrite map_map. reflexivity. Qed.

(* sizes: every length the encoders write fits 64 bits *)
Definition hsized (h : headers) : Prop :=
  lenN h + 2 < two64 /\
  Forall (fun nv => lenN (fst nv) < two64 /\ lenN (join_comma (snd nv)) < two64) h.
Definition esized (e : exchange) : Prop :=
  lenN (e_uri e) < two64 /\ lenN (e_method e) < two64 /\ i64 (e_status e) /\
  hsized (e_reqh e) /\ hsized (e_resph e).

Lemma hsized_szp (h : headers) : hsized h -> Forall szp (hraw h).
Proof.
  intros [_ H]. unfold hraw. rewrite Forall_map. eapply Forall_impl; [|exact H].
  intros [k vs] [H1 H2]. unfold szp, lower. cbn [fst snd] in *. rewrite lenN_map. split; assumption.
Qed.
Lemma hsized_len (h : headers) : hsized h -> lenN (hraw h) + 2 < two64.
Proof. intros [H _]. unfold hraw. rewrite lenN_map. exact H. Qed.

Definition req_raw (e : exchange) : list (bytes * bytes) :=
  (key_method, e_method e) ::
  (match e_ver e with V1b1 => [(key_url, e_uri e)] | _ => [] end) ++ hraw (e_reqh e).
Definition resp_raw (e : exchange) : list (bytes * bytes) :=
  (key_status, dec_of_Z (e_status e)) :: hraw (e_resph e).

Lemma encode_request_map_raw (e : exchange) : encode_request_map e = enc_map (map wrap (req_raw e)).
Proof.
  unfold encode_request_map, req_raw. f_equal. cbn [map app wrap fst snd]. f_equal.
  rewrite map_app, header_entries_wrap. destruct (e_ver e); reflexivity.
Qed.
Lemma encode_response_map_raw (e : exchange) : encode_response_map e = enc_map (map wrap (resp_raw e)).
Proof. unfold encode_response_map, resp_raw. rewrite header_entries_wrap. reflexivity. Qed.

Lemma key_sized (k : string) : lenN (s2b k) < two64 -> True. Proof. trivial. Qed.

Lemma req_raw_szp (e : exchange) : esized e -> Forall szp (req_raw e) /\ lenN (req_raw e) < two64.
Proof.
  intros (Hu & Hm & _ & Hq & _). pose proof (hsized_szp _ Hq) as Hq1. pose proof (hsized_len _ Hq) as Hq2.
  unfold req_raw. split.
  - constructor; [split; [vm_compute; reflexivity|exact Hm]|].
    destruct (e_ver e); cbn [app]; try exact Hq1.
    constructor; [split; [vm_compute; reflexivity|exact Hu]|exact Hq1].
  - cbn [lenN]. rewrite lenN_app. destruct (e_ver e); cbn [lenN]; lia.
Qed.
Lemma resp_raw_szp (e : exchange) : esized e -> Forall szp (resp_raw e) /\ lenN (resp_raw e) < two64.
Proof.
  intros (_ & _ & Hs & _ & Hp). pose proof (hsized_szp _ Hp) as Hp1. pose proof (hsized_len _ Hp) as Hp2.
  unfold resp_raw. split.
  - constructor; [split; [vm_compute; reflexivity|apply dec_of_Z_sized; exact Hs]|exact Hp1].
  - cbn [lenN]. lia.
Qed.

Theorem request_map_inj (e e' : exchange) (o o' r r' : bytes) :
  e_ver e = e_ver e' -> esized e -> esized e' ->
  encode_request_map e = Ok o -> encode_request_map e' = Ok o' -> o ++ r = o' ++ r' ->
  e_method e = e_method e' /\ (e_ver e = V1b1 -> e_uri e = e_uri e') /\
  Permutation (hraw (e_reqh e)) (hraw (e_reqh e')) /\
  NoDup (map fst (hraw (e_reqh e))) /\ NoDup (map fst (hraw (e_reqh e'))) /\ r = r'.
Proof.
  intros Hv Hs Hs' Ho Ho' E. rewrite encode_request_map_raw in Ho, Ho'.
  destruct (req_raw_szp e Hs) as [Hz Hn]. destruct (req_raw_szp e' Hs') as [Hz' Hn'].
  destruct (enc_map_wrap_inj _ _ _ _ _ _ Hz Hz' Hn Hn' Ho Ho' E) as (HP & Er & Hd & Hd').
  unfold req_raw in HP, Hd, Hd'. rewrite <- Hv in *.
  destruct (perm_head_key (key_method, e_method e) _ _ _ Hd' eq_refl HP) as [Em HP1]. injection Em as Em.
  cbn [map] in Hd, Hd'. apply NoDup_cons_iff in Hd, Hd'. destruct Hd as [_ Hd]. destruct Hd' as [_ Hd'].
  destruct (e_ver e); cbn [app] in *.
  - destruct (perm_head_key (key_url, e_uri e) _ _ _ Hd' eq_refl HP1) as [Eu HP2]. injection Eu as Eu.
    cbn [map] in Hd, Hd'. apply NoDup_cons_iff in Hd, Hd'.
    repeat split; first [exact Er|tauto].
  - repeat split; try assumption. discriminate.
  - repeat split; try assumption. discriminate.
Qed.

Theorem response_map_inj (e e' : exchange) (o o' r r' : bytes) :
  esized e -> esized e' ->
  encode_response_map e = Ok o -> encode_response_map e' = Ok o' -> o ++ r = o' ++ r' ->
  e_status e = e_status e' /\
  Permutation (hraw (e_resph e)) (hraw (e_resph e')) /\
  NoDup (map fst (hraw (e_resph e))) /\ NoDup (map fst (hraw (e_resph e'))) /\ r = r'.
Proof.
  intros Hs Hs' Ho Ho' E. rewrite encode_response_map_raw in Ho, Ho'.
  destruct (resp_raw_szp e Hs) as [Hz Hn]. destruct (resp_raw_szp e' Hs') as [Hz' Hn'].
  destruct (enc_map_wrap_inj _ _ _ _ _ _ Hz Hz' Hn Hn' Ho Ho' E) as (HP & Er & Hd & Hd').
  unfold resp_raw in HP, Hd, Hd'.
  destruct (perm_head_key (key_status, dec_of_Z (e_status e)) _ _ _ Hd' eq_refl HP) as [Em HP1]. injection Em as Em.
  apply dec_of_Z_inj in Em.
  cbn [map] in Hd, Hd'. apply NoDup_cons_iff in Hd, Hd'.
  repeat split; first [exact Er|tauto].
Qed.

(* the part of the signed fields carried by the header CBOR *)
Definition hdr_equiv (e e' : exchange) : Prop :=
  (has_request (e_ver e) = true ->
     e_method e = e_method e' /\ Permutation (hraw (e_reqh e)) (hraw (e_reqh e'))) /\
  (e_ver e = V1b1 -> e_uri e = e_uri e') /\
  e_status e = e_status e' /\ Permutation (hraw (e_resph e)) (hraw (e_resph e')).
(* the signed header maps are finite maps: no two entries with the same name *)
Definition hdr_nodup (e : exchange) : Prop :=
  (has_request (e_ver e) = true -> NoDup (map fst (hraw (e_reqh e)))) /\
  NoDup (map fst (hraw (e_resph e))).

Theorem headers_cbor_prefix_free (e e' : exchange) (bs bs' r r' : bytes) :
  e_ver e = e_ver e' -> esized e -> esized e' ->
  encode_exchange_headers e = Ok bs -> encode_exchange_headers e' = Ok bs' ->
  bs ++ r = bs' ++ r' ->
  hdr_equiv e e' /\ hdr_nodup e /\ hdr_nodup e' /\ r = r'.
Proof.
  intros Hv Hs Hs' Hb Hb' E. unfold encode_exchange_headers in Hb, Hb'.
  unfold hdr_equiv, hdr_nodup. rewrite <- Hv in *.
  destruct (has_request (e_ver e)) eqn:Hr.
  - destruct (encode_request_map e) as [rq| | |] eqn:Hq; cbn [bind] in Hb; try discriminate.
    destruct (encode_response_map e) as [rs| | |] eqn:Hp; cbn [bind] in Hb; try discriminate.
    destruct (encode_request_map e') as [rq'| | |] eqn:Hq'; cbn [bind] in Hb'; try discriminate.
    destruct (encode_response_map e') as [rs'| | |] eqn:Hp'; cbn [bind] in Hb'; try discriminate.
    injection Hb as <-. injection Hb' as <-. rewrite <- !app_assoc in E.
    apply app_inv_head in E.
    destruct (request_map_inj e e' _ _ _ _ Hv Hs Hs' Hq Hq' E) as (Em & Eu & HP & Hd & Hd' & E1).
    destruct (response_map_inj e e' _ _ _ _ Hs Hs' Hp Hp' E1) as (Est & HP2 & Hd2 & Hd2' & E2).
    repeat split; try assumption; tauto.
  - destruct (response_map_inj e e' _ _ _ _ Hs Hs' Hb Hb' E) as (Est & HP2 & Hd2 & Hd2' & E2).
    repeat split; try assumption; try discriminate.
    intros Hb1. destruct (e_ver e); discriminate.
Qed.

Theorem headers_cbor_injective (e e' : exchange) (bs : bytes) :
  e_ver e = e_ver e' -> esized e -> esized e' ->
  encode_exchange_headers e = Ok bs -> encode_exchange_headers e' = Ok bs ->
  hdr_equiv e e' /\ hdr_nodup e /\ hdr_nodup e'.
Proof.
  intros Hv Hs Hs' Hb Hb'.
  destruct (headers_cbor_prefix_free e e' bs bs [] [] Hv Hs Hs' Hb Hb' eq_refl) as (H1 & H2 & H3 & _).
  repeat split; assumption.
Qed.
