(* Proofs/BundleSigTamper.v - C06, part 4: alterations are detected.
   - Response.EncodeHeader is injective in (status, header fields) up to the
     order of the Go map; so two exchanges for one URL that both verify have
     the same status and header fields, or SHA-256 collides;
   - their payloads are then both the content the (signed) Digest header
     commits to;
   - an accepted vouched subset is bound to the key of the certificate at its
     authority index, to the signed bytes and to the version string. *)
From Coq Require Import Lia ZifyN ZifyNat ZifyBool Permutation Sorted.
From WP Require Import Base.Prelude Base.Decimal Model.Cbor Model.Http Model.Url Model.Mice
  Model.CertChain Model.Bundle Model.Sxg Model.BundleSig.
From WP Require Import Spec.Cbor Spec.Mice.
From WP Require Import Proofs.BaseLemmas Proofs.CborHead Proofs.CborMap Proofs.MiceCommit.
From WP Require Proofs.SxgVerifyMsg.
From WP Require Import Proofs.IntegrityBlockBase Proofs.BundleSigBase Proofs.BundleSigRoundtrip.
Ltac Zify.zify_post_hook ::= Z.div_mod_to_equations.
Open Scope N_scope.

(* ---- canonical maps of byte-string pairs are injective ------------------------------ *)
Definition bpair (kv : bytes * bytes) : bytes * bytes := (enc_bytes (fst kv), enc_bytes (snd kv)).
Definition bpair_bytes (kv : bytes * bytes) : bytes := enc_bytes (fst kv) ++ enc_bytes (snd kv).
Definition pairs_small (l : list (bytes * bytes)) : Prop :=
  lenN l < two64 /\ Forall (fun kv => lenN (fst kv) < two64 /\ lenN (snd kv) < two64) l.

Lemma bpairs_inj (s : list (bytes * bytes)) : forall s' r r',
  lenN s = lenN s' ->
  Forall (fun kv => lenN (fst kv) < two64 /\ lenN (snd kv) < two64) s ->
  Forall (fun kv => lenN (fst kv) < two64 /\ lenN (snd kv) < two64) s' ->
  flat_map bpair_bytes s ++ r = flat_map bpair_bytes s' ++ r' -> s = s' /\ r = r'.
Proof.
  induction s as [|[k v] s IH]; intros [|[k' v'] s'] r r' HL HF HF' HE;
    cbn [lenN] in HL; try lia.
  - split; [reflexivity|exact HE].
  - cbn [flat_map] in HE. unfold bpair_bytes at 1 3 in HE. cbn [fst snd] in HE.
    rewrite <- !app_assoc in HE.
    inversion HF as [|x1 l1 [Hk Hv] HF1]; subst.
    inversion HF' as [|x2 l2 [Hk' Hv'] HF2]; subst. cbn [fst snd] in *.
    unfold enc_bytes in HE.
    apply enc_bytes_of_inj in HE; [|exact MBytes_const|assumption|assumption].
    destruct HE as [Ek HE].
    apply enc_bytes_of_inj in HE; [|exact MBytes_const|assumption|assumption].
    destruct HE as [Ev HE].
    assert (HL' : lenN s = lenN s') by lia.
    destruct (IH s' r r' HL' HF1 HF2 HE) as [Es Er]. subst. split; reflexivity.
Qed.

Theorem bmap_injective (l l' : list (bytes * bytes)) (bs : bytes) :
  pairs_small l -> pairs_small l' ->
  enc_map (map bpair l) = Ok bs -> enc_map (map bpair l') = Ok bs ->
  Permutation l l' /\ NoDup (map fst l).
Proof.
  intros [Ll Fl] [Ll' Fl'] H H'.
  assert (HN : NoDup (map fst l)).
  { pose proof (enc_map_nodup _ _ H) as Hd. rewrite map_map in Hd.
    change (map (fun x => fst (bpair x)) l) with (map (fun x : bytes * bytes => enc_bytes (fst x)) l) in Hd.
    rewrite <- (map_map fst enc_bytes) in Hd. apply NoDup_map_inv in Hd. exact Hd. }
  split; [|exact HN].
  apply enc_map_sorted in H. destruct H as [s0 [HP [_ HE]]].
  apply enc_map_sorted in H'. destruct H' as [s0' [HP' [_ HE']]].
  apply Permutation_map_inv in HP. destruct HP as [s [Es HP]]. subst s0.
  apply Permutation_map_inv in HP'. destruct HP' as [s' [Es' HP']]. subst s0'.
  rewrite lenN_map, flat_map_map in HE, HE'.
  rewrite HE in HE'. unfold enc_map_header in HE'.
  apply typed_uint_inj in HE'; [|exact MMap_const|assumption|assumption].
  destruct HE' as [EL EF].
  assert (HL : lenN s = lenN s').
  { rewrite <- (lenN_perm _ _ HP), <- (lenN_perm _ _ HP'). exact EL. }
  assert (Fs : Forall (fun kv => lenN (fst kv) < two64 /\ lenN (snd kv) < two64) s)
    by (eapply Permutation_Forall; eassumption).
  assert (Fs' : Forall (fun kv => lenN (fst kv) < two64 /\ lenN (snd kv) < two64) s')
    by (eapply Permutation_Forall; eassumption).
  assert (EF' : flat_map bpair_bytes s ++ [] = flat_map bpair_bytes s' ++ [])
    by (rewrite !app_nil_r; exact EF).
  destruct (bpairs_inj s s' [] [] HL Fs Fs' EF') as [Es _]. subst s'.
  eapply perm_trans; [exact HP|apply Permutation_sym; exact HP'].
Qed.

(* ---- Response.EncodeHeader ------------------------------------------------------------- *)
Definition hfield (nv : bytes * list bytes) : bytes * bytes := (lower (fst nv), join_comma (snd nv)).
Definition hfields (st : Z) (h : headers) : list (bytes * bytes) :=
  (s2b ":status", dec_of_Z st) :: map hfield h.

(* a successful EncodeHeader is the canonical map of the fields (its refusals -
   status, names, values - all come before the encoding) *)
Lemma erh_bmap (st : Z) (h : headers) (bs : bytes) :
  encode_response_header st h = Ok bs -> enc_map (map bpair (hfields st h)) = Ok bs.
Proof.
  unfold encode_response_header, hfields.
  destruct ((st <? 100) || (999 <? st))%Z; [discriminate|].
  destruct (negb (forallb hdr_writable_b h)); [discriminate|].
  cbn [map]. rewrite map_map. intros H. exact H.
Qed.

Theorem encode_response_header_injective (st st' : Z) (h h' : headers) (bs : bytes) :
  pairs_small (hfields st h) -> pairs_small (hfields st' h') ->
  encode_response_header st h = Ok bs -> encode_response_header st' h' = Ok bs ->
  st = st' /\ Permutation (map hfield h) (map hfield h').
Proof.
  intros S S' H H'. apply erh_bmap in H. apply erh_bmap in H'.
  pose proof (bmap_injective _ _ _ S' S H' H) as [_ HN'].
  destruct (bmap_injective _ _ _ S S' H H') as [HP HN].
  unfold hfields in *. cbn [map fst] in HN, HN'.
  assert (Hin : In (s2b ":status", dec_of_Z st) ((s2b ":status", dec_of_Z st') :: map hfield h'))
    by (eapply Permutation_in; [exact HP|left; reflexivity]).
  assert (Est : st = st').
  { destruct Hin as [E|Hin].
    - injection E as E. symmetry. apply SxgVerifyMsg.dec_of_Z_inj. exact E.
    - exfalso. inversion HN' as [|a b Hnin _]; subst. apply Hnin.
      apply (in_map fst) in Hin. exact Hin. }
  split; [exact Est|]. subst st'. eapply Permutation_cons_inv. exact HP.
Qed.

Section Tamper.
  Variable H256 : bytes -> bytes.
  Variable x509_key : bytes -> option (option N).
  Variable sig_ok : N -> bytes -> bytes -> bool.

  Definition hdr_small (x : bexchange) : Prop := pairs_small (hfields (bx_status x) (bx_hdr x)).

  Lemma bytes_eq_dec (a b : bytes) : a = b \/ a <> b.
  Proof.
    destruct (bytes_eqb a b) eqn:E; [left; apply bytes_eqb_eq; exact E|right; apply bytes_eqb_neq; exact E].
  Qed.

  (* x verifies; x' is x with any change to status / header fields / body and
     verifies too: then nothing signed was changed, or SHA-256 collides *)
  Theorem header_tamper_detected (vss : list (signed_subset * augcert * bool)) (x x' : bexchange)
      (p a p' a' : bytes) :
    hdr_small x -> hdr_small x' -> bx_url x' = bx_url x ->
    verify_exchange H256 vss x = VxOk p a -> verify_exchange H256 vss x' = VxOk p' a' ->
    a' = a /\
    ((bx_status x' = bx_status x /\
      Permutation (map hfield (bx_hdr x')) (map hfield (bx_hdr x))) \/ Collision H256).
  Proof.
    intros S S' Eu V V'.
    destruct (verified_same_header_hash H256 vss x x' p a p' a' Eu V V') as [Ea Eh].
    split; [exact Ea|].
    apply verify_exchange_binds in V. destruct V as [_ [pre [ss [cert [t [post [r [dg V]]]]]]]].
    destruct V as [_ [_ [_ [_ [Hh _]]]]].
    rewrite Hh in Eh. unfold header_sha256 in Hh, Eh.
    destruct (encode_response_header (bx_status x) (bx_hdr x)) as [hb| | |] eqn:E1; cbn [bind] in Hh;
      try discriminate.
    destruct (encode_response_header (bx_status x') (bx_hdr x')) as [hb'| | |] eqn:E2; cbn [bind] in Eh;
      try discriminate.
    injection Hh as Hh. injection Eh as Eh.
    destruct (bytes_eq_dec hb' hb) as [E|N].
    - subst hb'. left. eapply encode_response_header_injective; eassumption.
    - right. exists hb', hb. split; [exact N|congruence].
  Qed.

  (* same Digest header value (it is one of the signed header fields): both
     payloads are what that digest commits to *)
  Theorem body_tamper_detected (vss : list (signed_subset * augcert * bool)) (x x' : bexchange)
      (p a p' a' top : bytes) (recs : list bytes) :
    hdr_get (bx_hdr x') (s2b "Digest") = hdr_get (bx_hdr x) (s2b "Digest") ->
    parse_digest_header D03 (hdr_get (bx_hdr x) (s2b "Digest")) = Ok top -> Commits H256 top recs ->
    verify_exchange H256 vss x = VxOk p a -> verify_exchange H256 vss x' = VxOk p' a' ->
    (p = List.concat recs /\ p' = List.concat recs) \/ Collision H256.
  Proof.
    intros Eg Hp Hc V V'.
    apply verify_exchange_binds in V. destruct V as [_ [pre [ss [cert [t [post [r [dg V]]]]]]]].
    destruct V as [_ [_ [_ [_ [_ [_ [Edg [_ [_ Hcom]]]]]]]]].
    apply verify_exchange_binds in V'. destruct V' as [_ [pre' [ss' [cert' [t' [post' [r' [dg' V']]]]]]]].
    destruct V' as [_ [_ [_ [_ [_ [_ [Edg' [_ [_ Hcom']]]]]]]]].
    subst dg dg'. rewrite Eg in Hcom'.
    destruct (Hcom top recs Hp Hc) as [E|C]; [|right; exact C].
    destruct (Hcom' top recs Hp Hc) as [E'|C]; [|right; exact C].
    left. auto.
  Qed.

  (* signature bytes / signed bytes / version: acceptance means the oracle
     accepted exactly this message under the key of the certificate the
     authority index selects.  With an unforgeable oracle (signed_by) the key
     holder signed exactly these bytes for exactly this version. *)
  Theorem vouched_binds (signed_by : N -> bytes -> Prop) (v : vouched) (auths : list augcert)
      (tsec tnsec : Z) (ver : bversion) (ss : signed_subset) (cert : augcert) (t : bool) :
    (forall kid m s, sig_ok kid m s = true -> signed_by kid m) ->
    verify_vouched H256 x509_key sig_ok v auths tsec tnsec ver = Ok (ss, cert, t) ->
    exists kid, x509_key (ac_cert cert) = Some (Some kid) /\
                nth_error auths (N.to_nat (vs_authority v)) = Some cert /\
                signed_by kid (generate_signed_message (vs_signed v) ver) /\
                (forall signed0 ver0, (forall m, signed_by kid m -> m = generate_signed_message signed0 ver0) ->
                                      vs_signed v = signed0 /\ ver = ver0) /\
                decode_signed_subset (vs_signed v) = Ok (ss, t) /\ ss_auth ss = H256 (ac_cert cert).
  Proof.
    intros Hunf H. apply verify_vouched_sound in H.
    destruct H as [_ [Hn [[kid [Hk Hs]] [Hd [Ha _]]]]].
    exists kid. split; [exact Hk|]. split; [exact Hn|]. split; [apply (Hunf _ _ _ Hs)|].
    split; [|auto]. intros signed0 ver0 Honly.
    apply generate_signed_message_injective. apply Honly. apply (Hunf _ _ _ Hs).
  Qed.

  (* authority index: the same vouched subset re-pointed at another authority
     is accepted only if that certificate has the same SHA-256 *)
  Theorem authority_index_tamper (v : vouched) (j : N) (auths : list augcert)
      (tsec tnsec : Z) (ver : bversion) (ss ss' : signed_subset) (cert cert' : augcert) (t t' : bool) :
    verify_vouched H256 x509_key sig_ok v auths tsec tnsec ver = Ok (ss, cert, t) ->
    verify_vouched H256 x509_key sig_ok
      {| vs_authority := j; vs_sig := vs_sig v; vs_signed := vs_signed v |} auths tsec tnsec ver
      = Ok (ss', cert', t') ->
    ss' = ss /\ H256 (ac_cert cert') = H256 (ac_cert cert) /\
    (ac_cert cert' = ac_cert cert \/ Collision H256).
  Proof.
    intros H H'. apply verify_vouched_sound in H. apply verify_vouched_sound in H'.
    destruct H as [_ [_ [_ [Hd [Ha _]]]]]. destruct H' as [_ [_ [_ [Hd' [Ha' _]]]]].
    cbn [vs_signed] in Hd'. rewrite Hd in Hd'. injection Hd' as <- <-.
    split; [reflexivity|]. split; [congruence|].
    destruct (bytes_eq_dec (ac_cert cert') (ac_cert cert)) as [E|N]; [left; exact E|].
    right. exists (ac_cert cert'), (ac_cert cert). split; [exact N|congruence].
  Qed.

  (* the signed bytes determine the subset: a different subset cannot hide
     behind the same signature *)
  Theorem signed_bytes_bind_subset (s : signed_subset) (signed : bytes) (v : vouched)
      (auths : list augcert) (tsec tnsec : Z) (ver : bversion) (ss : signed_subset) (cert : augcert) (t : bool) :
    ss_ok s -> encode_subset s = Ok signed -> vs_signed v = signed ->
    verify_vouched H256 x509_key sig_ok v auths tsec tnsec ver = Ok (ss, cert, t) ->
    ss_validity ss = ss_validity s /\ ss_auth ss = ss_auth s /\ ss_date ss = ss_date s /\
    ss_expires ss = ss_expires s /\ Permutation (ss_hashes ss) (ss_hashes s).
  Proof.
    intros Hok He Es H. apply verify_vouched_sound in H. destruct H as [_ [_ [_ [Hd _]]]].
    destruct (signed_subset_roundtrip s signed Hok He) as [sh [HP [_ Hd']]].
    rewrite Es, Hd' in Hd. injection Hd as <- _. cbn [with_hashes ss_validity ss_auth ss_date ss_expires ss_hashes].
    auto.
  Qed.
End Tamper.
