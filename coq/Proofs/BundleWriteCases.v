(* Proofs/BundleWriteCases.v - C04: exactly when Bundle.WriteTo panics, returns an
   error, or succeeds; it never runs out of fuel. *)
From Coq Require Import Lia ZifyN ZifyNat ZifyBool Permutation Sorted.
From WP Require Import Base.Prelude Base.Decimal Model.Cbor Model.Http Model.Variants
  Model.CertChain Model.Bundle.
From WP Require Import Spec.Cbor Spec.Bundle.
From WP Require Import Proofs.BaseLemmas Proofs.CborHead Proofs.CborMap Proofs.CborUtf8
  Proofs.Variants Proofs.BundleWriteBasics Proofs.BundleWriteSig Proofs.BundleWriteForm
  Proofs.BundleWriteWF.
Open Scope N_scope.

Definition ventries (es : list ientry) := map (fun e => (ie_variants e, ie_vkey e, e)) es.

(* ---- one group ---------------------------------------------------------------------------- *)
Lemma index_entry_pre_panic_iff (v : bversion) (u : bytes) (es : list ientry) :
  es <> [] ->
  (index_entry_pre v (u, es) = Panic <->
   utf8_valid u = false /\ (v = BV1 \/ exists e, es = [e])).
Proof.
  intros Hne. unfold index_entry_pre. destruct (utf8_valid u); cbn [negb].
  - split; [|intros [H _]; discriminate]. destruct v.
    + destruct es as [|e0 [|e1 r]]; try discriminate.
      destruct (eipko_ok_or_err (ventries (e0 :: e1 :: r)) ltac:(discriminate)) as [E|[l E]];
        unfold ventries in E; rewrite E; discriminate.
    + destruct es as [|e0 [|e1 r]]; discriminate.
  - destruct v.
    + split; [intros _; auto|reflexivity].
    + destruct es as [|e0 [|e1 r]]; [contradiction| |].
      * split; [intros _; split; [reflexivity|right; eauto]|reflexivity].
      * split; [discriminate|]. intros [_ [H|[e H]]]; discriminate.
Qed.

Lemma index_entry_pre_err_iff (v : bversion) (u : bytes) (es : list ientry) :
  es <> [] ->
  (index_entry_pre v (u, es) = Err <->
   (v = BV2 /\ (2 <= List.length es)%nat)                              (* two resources for one URL *)
   \/ (v = BV1 /\ utf8_valid u = true /\ (2 <= List.length es)%nat /\
       entries_in_possible_key_order (ventries es) = Err)).                 (* bad variant coverage *)
Proof.
  intros Hne. unfold index_entry_pre. destruct (utf8_valid u); cbn [negb].
  - destruct v.
    + destruct es as [|e0 [|e1 r]]; [contradiction| |].
      * split; [discriminate|]. intros [[H _]|[_ [_ [H _]]]]; [discriminate|cbn in H; lia].
      * fold (ventries (e0 :: e1 :: r)).
        destruct (entries_in_possible_key_order (ventries (e0 :: e1 :: r))) eqn:E; cbn [bind];
          (split; [try discriminate; intros _; right; repeat split; cbn; lia
                  |intros [[H _]|[_ [_ [_ H]]]]; try discriminate; try reflexivity]).
    + destruct es as [|e0 [|e1 r]]; [contradiction| |].
      * split; [discriminate|]. intros [[_ H]|[H _]]; [cbn in H; lia|discriminate].
      * split; [intros _; left; split; [reflexivity|cbn; lia]|reflexivity].
  - destruct v.
    + split; [discriminate|]. intros [[H _]|[_ [H _]]]; discriminate.
    + destruct es as [|e0 [|e1 r]]; [contradiction| |].
      * split; [discriminate|]. intros [[_ H]|[H _]]; [cbn in H; lia|discriminate].
      * split; [intros _; left; split; [reflexivity|cbn; lia]|reflexivity].
Qed.

Lemma index_entry_pre_no_fuel (v : bversion) (u : bytes) (es : list ientry) :
  es <> [] -> index_entry_pre v (u, es) <> Fuel.
Proof.
  intros Hne. unfold index_entry_pre. destruct (utf8_valid u); cbn [negb].
  - destruct v.
    + destruct es as [|e0 [|e1 r]]; try discriminate.
      destruct (eipko_ok_or_err (ventries (e0 :: e1 :: r)) ltac:(discriminate)) as [E|[l E]];
        unfold ventries in E; rewrite E; discriminate.
    + destruct es as [|e0 [|e1 r]]; discriminate.
  - destruct v; [discriminate|]. destruct es as [|e0 [|e1 r]]; discriminate.
Qed.

(* ---- the list of groups: the first group that is not Ok decides --------------------------- *)
Definition FirstBad (v : bversion) (gs : list (bytes * list ientry)) (r : R (bytes * bytes * list ientry)) : Prop :=
  exists gs1 g gs2, gs = gs1 ++ g :: gs2
    /\ Forall (fun g' => is_ok (index_entry_pre v g') = true) gs1
    /\ index_entry_pre v g = r.

Lemma index_pres_cases (v : bversion) (gs : list (bytes * list ientry)) :
  (exists ts, index_pres v gs = Ok ts /\ Forall (fun g => is_ok (index_entry_pre v g) = true) gs)
  \/ (index_pres v gs = Err /\ FirstBad v gs Err)
  \/ (index_pres v gs = Panic /\ FirstBad v gs Panic)
  \/ (index_pres v gs = Fuel /\ FirstBad v gs Fuel).
Proof.
  induction gs as [|g t IH]; cbn [index_pres].
  - left. exists []. split; [reflexivity|constructor].
  - destruct (index_entry_pre v g) as [e| | |] eqn:E; cbn [bind].
    + destruct IH as [[ts [Ht F]]|[[Ht B]|[[Ht B]|[Ht B]]]]; rewrite Ht; cbn [bind].
      * left. exists (e :: ts). split; [reflexivity|]. constructor; [rewrite E; reflexivity|exact F].
      * right; left. split; [reflexivity|]. destruct B as [g1 [g0 [g2 [Eg [F Eb]]]]].
        exists (g :: g1), g0, g2. rewrite Eg. split; [reflexivity|]. split; [|exact Eb].
        constructor; [rewrite E; reflexivity|exact F].
      * right; right; left. split; [reflexivity|]. destruct B as [g1 [g0 [g2 [Eg [F Eb]]]]].
        exists (g :: g1), g0, g2. rewrite Eg. split; [reflexivity|]. split; [|exact Eb].
        constructor; [rewrite E; reflexivity|exact F].
      * right; right; right. split; [reflexivity|]. destruct B as [g1 [g0 [g2 [Eg [F Eb]]]]].
        exists (g :: g1), g0, g2. rewrite Eg. split; [reflexivity|]. split; [|exact Eb].
        constructor; [rewrite E; reflexivity|exact F].
    + right; left. split; [reflexivity|]. exists [], g, t. split; [reflexivity|]. split; [constructor|exact E].
    + right; right; left. split; [reflexivity|]. exists [], g, t. split; [reflexivity|]. split; [constructor|exact E].
    + right; right; right. split; [reflexivity|]. exists [], g, t. split; [reflexivity|]. split; [constructor|exact E].
Qed.

Definition castR {A B} (r : R A) : R B :=
  match r with Ok _ => Err | Err => Err | Panic => Panic | Fuel => Fuel end.

Lemma index_pres_first_bad (v : bversion) (gs1 : list (bytes * list ientry)) g gs2 :
  Forall (fun g' => is_ok (index_entry_pre v g') = true) gs1 ->
  is_ok (index_entry_pre v g) = false ->
  index_pres v (gs1 ++ g :: gs2) = castR (index_entry_pre v g).
Proof.
  intros F N. induction F as [|x t Hx F IH]; cbn [app index_pres].
  - destruct (index_entry_pre v g); cbn [bind castR]; try reflexivity; discriminate.
  - destruct (index_entry_pre v x); try discriminate. cbn [bind]. rewrite IH.
    destruct (index_entry_pre v g); cbn [bind castR]; try reflexivity; discriminate.
Qed.

Lemma groups_nonempty (es : list ientry) (u : bytes) (g : list ientry) :
  In (u, g) (groups_of es) -> g <> [].
Proof. intros H. apply groups_of_in in H. apply H. Qed.

Theorem index_pres_no_fuel (v : bversion) (es : list ientry) : index_pres v (groups_of es) <> Fuel.
Proof.
  destruct (index_pres_cases v (groups_of es)) as [[ts [Ht _]]|[[Ht _]|[[Ht _]|[_ B]]]]; try congruence.
  exfalso. destruct B as [g1 [[u g] [g2 [Eg [_ Eb]]]]].
  apply (index_entry_pre_no_fuel v u g); [|exact Eb].
  apply (groups_nonempty es u). rewrite Eg. apply in_or_app. right. left. reflexivity.
Qed.

(* ---- the whole writer ------------------------------------------------------------------------ *)
Theorem write_never_fuel (b : bundle) : b_write b <> Fuel.
Proof.
  rewrite b_write_eq. unfold b_write_nf.
  destruct (headers_ok b); cbn [chk bind]; [|discriminate].
  destruct (urls_ok b); cbn [chk bind]; [|discriminate].
  pose proof (index_pres_no_fuel (b_ver b) (ients_of b)) as NF.
  destruct (index_pres (b_ver b) (groups_of (ients_of b))); cbn [bind]; try discriminate; [|contradiction].
  destruct (b_ver b); destruct (b_primary b) as [pu|]; destruct (b_manifest b) as [mu|];
    try destruct (fst (any_url_ok pu)); try destruct (fst (abs_url_ok pu)); try destruct (fst (abs_url_ok mu));
    try destruct (utf8_valid pu); try destruct (utf8_valid mu); cbn [andb chk bind]; discriminate.
Qed.

(* the index panics: the first group (URLs in order of first appearance) that is
   not fine has a URL that is not valid UTF-8, in b1 or with a single resource *)
Definition IndexPanics (b : bundle) : Prop :=
  exists gs1 u es gs2,
    groups_of (ients_of b) = gs1 ++ (u, es) :: gs2
    /\ Forall (fun g => is_ok (index_entry_pre (b_ver b) g) = true) gs1
    /\ utf8_valid u = false /\ (b_ver b = BV1 \/ exists e, es = [e]).
Definition IndexFine (b : bundle) : Prop :=
  Forall (fun g => is_ok (index_entry_pre (b_ver b) g) = true) (groups_of (ients_of b)).
Definition manifest_fine (b : bundle) : Prop :=
  match b_manifest b with Some u => utf8_valid u = true | None => True end.

Lemma index_pres_panic_iff (b : bundle) :
  index_pres (b_ver b) (groups_of (ients_of b)) = Panic <-> IndexPanics b.
Proof.
  split.
  - intros H. destruct (index_pres_cases (b_ver b) (groups_of (ients_of b)))
      as [[ts [Ht _]]|[[Ht _]|[[_ B]|[Ht _]]]]; try congruence.
    destruct B as [g1 [[u es] [g2 [Eg [F Eb]]]]]. exists g1, u, es, g2. split; [exact Eg|]. split; [exact F|].
    apply index_entry_pre_panic_iff in Eb; [exact Eb|].
    apply (groups_nonempty (ients_of b) u). rewrite Eg. apply in_or_app. right. left. reflexivity.
  - intros [g1 [u [es [g2 [Eg [F [U C]]]]]]].
    assert (Eb : index_entry_pre (b_ver b) (u, es) = Panic).
    { apply index_entry_pre_panic_iff; [|auto].
      apply (groups_nonempty (ients_of b) u). rewrite Eg. apply in_or_app. right. left. reflexivity. }
    rewrite Eg, index_pres_first_bad; [rewrite Eb; reflexivity|exact F|rewrite Eb; reflexivity].
Qed.

Lemma index_pres_ok_iff (b : bundle) :
  (exists ts, index_pres (b_ver b) (groups_of (ients_of b)) = Ok ts) <-> IndexFine b.
Proof.
  unfold IndexFine. split.
  - intros [ts Ht]. destruct (index_pres_cases (b_ver b) (groups_of (ients_of b)))
      as [[ts' [_ F]]|[[Ht' _]|[[Ht' _]|[Ht' _]]]]; try congruence.
  - intros F. destruct (index_pres_cases (b_ver b) (groups_of (ients_of b)))
      as [[ts' [Ht _]]|[[_ B]|[[_ B]|[_ B]]]]; [eauto| | |];
      destruct B as [g1 [g [g2 [Eg [_ Eb]]]]]; rewrite Eg in F; apply Forall_app in F;
      destruct F as [_ F]; inversion F; subst; rewrite Eb in H1; discriminate.
Qed.

(* C04 write_panic_iff: a run-time panic happens exactly when
   - every response header map encodes and every exchange URL passes checkURL, and
   - the index callback panics on a URL that is not valid UTF-8.
   (A b1 bundle without primary URL is an error now, not a nil dereference.) *)
Theorem write_panic_iff (b : bundle) :
  b_write b = Panic <-> headers_ok b = true /\ urls_ok b = true /\ IndexPanics b.
Proof.
  rewrite b_write_eq. unfold b_write_nf.
  destruct (headers_ok b); cbn [chk bind]; [|split; [discriminate|intros [H _]; discriminate]].
  destruct (urls_ok b); cbn [chk bind]; [|split; [discriminate|intros [_ [H _]]; discriminate]].
  rewrite <- index_pres_panic_iff.
  destruct (index_pres (b_ver b) (groups_of (ients_of b))) as [ts| | |]; cbn [bind].
  - destruct (b_ver b); destruct (b_primary b) as [pu|]; destruct (b_manifest b) as [mu|];
      try destruct (fst (any_url_ok pu)); try destruct (fst (abs_url_ok pu)); try destruct (fst (abs_url_ok mu));
      try destruct (utf8_valid pu); try destruct (utf8_valid mu); cbn [andb chk bind].
    all: split; [intros H; discriminate H|intros [_ [_ H]]; discriminate H].
  - split; [discriminate|]. intros [_ [_ H]]; discriminate.
  - split; [intros _; repeat split|reflexivity].
  - split; [discriminate|]. intros [_ [_ H]]; discriminate.
Qed.

Lemma b_write_b1_no_primary_err_or_panic (b : bundle) :
  b_ver b = BV1 -> b_primary b = None -> b_write b <> Panic -> b_write b = Err.
Proof.
  intros V P NP. rewrite b_write_eq in *. unfold b_write_nf in *. rewrite V, P in *.
  destruct (headers_ok b); cbn [chk bind] in *; [|reflexivity].
  destruct (urls_ok b); cbn [chk bind] in *; [|reflexivity].
  destruct (index_pres BV1 (groups_of (ients_of b))) as [ts| | |] eqn:Ht; cbn [bind] in *; try reflexivity.
  - destruct (b_manifest b) as [mu|]; [|reflexivity].
    destruct (fst (abs_url_ok mu) && utf8_valid mu); reflexivity.
  - contradiction.
  - exfalso. pose proof (index_pres_no_fuel BV1 (ients_of b)) as NF. rewrite <- V in NF, Ht. contradiction.
Qed.

(* the header map of an exchange is refused iff the status is not a three-digit
   number, some field is not writable (name starting with ':' or not ASCII, joined
   value not ASCII), or two names coincide after case folding *)
Lemma erh_err_iff (st : Z) (h : headers) :
  encode_response_header st h = Err <->
  (st < 100 \/ 999 < st)%Z \/ forallb hdr_writable_b h = false
  \/ ~ NoDup (status_name :: map (fun nv => lower (fst nv)) h).
Proof.
  rewrite erh_eq. unfold erh_guard.
  destruct ((st <? 100) || (999 <? st))%Z eqn:G; cbn [orb].
  { split; [intros _; left; lia|reflexivity]. }
  destruct (forallb hdr_writable_b h) eqn:Wh; cbn [negb].
  2:{ split; [intros _; right; left; reflexivity|reflexivity]. }
  rewrite enc_map_dup. unfold raw_fields. cbn [map fst].
  assert (E : map fst (map enc_field (map fold_hdr h)) = map bstr_item (map (fun nv => lower (fst nv)) h)).
  { rewrite !map_map. apply map_ext. reflexivity. }
  rewrite E.
  change (fst (enc_field (status_name, dec_of_Z st))
          :: map bstr_item (map (fun nv => lower (fst nv)) h))
    with (map bstr_item (status_name :: map (fun nv => lower (fst nv)) h)).
  split.
  - intros H. right; right. intros C. apply H. apply NoDup_map_inj; [apply bstr_item_inj|exact C].
  - intros [H|[H|H]]; [lia|discriminate|]. intros C. apply H. eapply NoDup_map_inv'. exact C.
Qed.

Definition BadHeader (b : bundle) : Prop :=
  exists x, In x (b_exchanges b) /\
            ((bx_status x < 100 \/ 999 < bx_status x)%Z
             \/ forallb hdr_writable_b (bx_hdr x) = false
             \/ ~ NoDup (status_name :: map (fun nv => lower (fst nv)) (bx_hdr x))).

Lemma headers_ok_false_iff (b : bundle) : headers_ok b = false <-> BadHeader b.
Proof.
  unfold headers_ok, BadHeader. split.
  - intros H. destruct (forallb _ _) eqn:F in H; [discriminate|]. clear H.
    assert (X : exists x, In x (b_exchanges b) /\
                          is_ok (encode_response_header (bx_status x) (bx_hdr x)) = false).
    { induction (b_exchanges b) as [|x t IH]; [discriminate|]. cbn [forallb] in F.
      apply andb_false_iff in F. destruct F as [F|F].
      - exists x. split; [left; reflexivity|exact F].
      - destruct (IH F) as [y [Hy Ey]]. exists y. split; [right; exact Hy|exact Ey]. }
    destruct X as [x [Hx Ex]]. exists x. split; [exact Hx|]. apply (erh_err_iff (bx_status x)).
    destruct (erh_cases (bx_status x) (bx_hdr x)) as [E|[hc E]]; [exact E|rewrite E in Ex; discriminate].
  - intros [x [Hx Dx]]. apply (erh_err_iff (bx_status x)) in Dx. apply not_true_is_false. intros T.
    rewrite forallb_forall in T. specialize (T x Hx). rewrite Dx in T. discriminate.
Qed.

Definition BadUrl (b : bundle) : Prop :=
  exists x, In x (b_exchanges b) /\ url_writable (bx_url x) = false.

Lemma urls_ok_false_iff (b : bundle) : urls_ok b = false <-> BadUrl b.
Proof.
  unfold urls_ok, BadUrl. split.
  - intros F. induction (b_exchanges b) as [|x t IH]; [discriminate|]. cbn [forallb] in F.
    apply andb_false_iff in F. destruct F as [F|F].
    + exists x. split; [left; reflexivity|exact F].
    + destruct (IH F) as [y [Hy Ey]]. exists y. split; [right; exact Hy|exact Ey].
  - intros [x [Hx Dx]]. apply not_true_is_false. intros T.
    rewrite forallb_forall in T. specialize (T x Hx). rewrite Dx in T. discriminate.
Qed.

(* the only panic left: some exchange URL is not valid UTF-8 *)
Lemma IndexPanics_url (b : bundle) : IndexPanics b ->
  exists x, In x (b_exchanges b) /\ utf8_valid (bx_url x) = false.
Proof.
  intros [g1 [u [es [g2 [Eg [_ [U _]]]]]]].
  assert (Hg : In (u, es) (groups_of (ients_of b))) by (rewrite Eg; apply in_or_app; right; left; reflexivity).
  apply groups_of_in in Hg. destruct Hg as [_ [_ Hu]]. unfold ients_of in Hu. rewrite mk_ients_urls in Hu.
  apply in_map_iff in Hu. destruct Hu as [x [E Hx]]. exists x. split; [exact Hx|]. rewrite E. exact U.
Qed.

(* ---- the writer never panics ---------------------------------------------------------------- *)
(* checkURL refuses an exchange URL that is not valid UTF-8 before the index is
   built, so EncodeTextString inside the index callback cannot fail any more *)
Lemma urls_ok_utf8 (b : bundle) : urls_ok b = true ->
  Forall (fun x => utf8_valid (bx_url x) = true) (b_exchanges b).
Proof.
  unfold urls_ok. intros H. rewrite forallb_forall in H. apply Forall_forall. intros x Hx.
  specialize (H x Hx). unfold url_writable in H. apply andb_true_iff in H. apply H.
Qed.

Lemma urls_ok_no_index_panic (b : bundle) : urls_ok b = true -> ~ IndexPanics b.
Proof.
  intros U P. apply IndexPanics_url in P. destruct P as [x [Hx Ux]].
  pose proof (urls_ok_utf8 b U) as F. rewrite Forall_forall in F. rewrite (F x Hx) in Ux. discriminate.
Qed.

Theorem b_write_never_panic (b : bundle) : b_write b <> Panic.
Proof.
  intros H. apply write_panic_iff in H. destruct H as [_ [U P]]. exact (urls_ok_no_index_panic b U P).
Qed.

Theorem b_write_ok_or_err (b : bundle) : b_write b = Err \/ exists bs, b_write b = Ok bs.
Proof.
  pose proof (b_write_never_panic b) as NP. pose proof (write_never_fuel b) as NF.
  destruct (b_write b) as [bs| | |]; [right; eauto|left; reflexivity|contradiction|contradiction].
Qed.

(* a b1 bundle without primary URL: an error (used to be a nil dereference) *)
Theorem b_write_b1_no_primary_err (b : bundle) :
  b_ver b = BV1 -> b_primary b = None -> b_write b = Err.
Proof.
  intros V P. apply b_write_b1_no_primary_err_or_panic; [exact V|exact P|apply b_write_never_panic].
Qed.

Definition IndexErrs (b : bundle) : Prop :=
  exists gs1 u es gs2,
    groups_of (ients_of b) = gs1 ++ (u, es) :: gs2
    /\ Forall (fun g => is_ok (index_entry_pre (b_ver b) g) = true) gs1
    /\ ((b_ver b = BV2 /\ (2 <= List.length es)%nat)
        \/ (b_ver b = BV1 /\ utf8_valid u = true /\ (2 <= List.length es)%nat /\
            entries_in_possible_key_order (ventries es) = Err)).

Lemma index_pres_err_iff (b : bundle) :
  index_pres (b_ver b) (groups_of (ients_of b)) = Err <-> IndexErrs b.
Proof.
  split.
  - intros H. destruct (index_pres_cases (b_ver b) (groups_of (ients_of b)))
      as [[ts [Ht _]]|[[_ B]|[[Ht _]|[Ht _]]]]; try congruence.
    destruct B as [g1 [[u es] [g2 [Eg [F Eb]]]]]. exists g1, u, es, g2. split; [exact Eg|]. split; [exact F|].
    apply index_entry_pre_err_iff in Eb; [exact Eb|].
    apply (groups_nonempty (ients_of b) u). rewrite Eg. apply in_or_app. right. left. reflexivity.
  - intros [g1 [u [es [g2 [Eg [F C]]]]]].
    assert (Eb : index_entry_pre (b_ver b) (u, es) = Err).
    { apply index_entry_pre_err_iff; [|exact C].
      apply (groups_nonempty (ients_of b) u). rewrite Eg. apply in_or_app. right. left. reflexivity. }
    rewrite Eg, index_pres_first_bad; [rewrite Eb; reflexivity|exact F|rewrite Eb; reflexivity].
Qed.

(* C04 write_err_iff: an error return happens exactly when
   - some exchange has a refused header map (status, names, values, duplicate), or
   - (headers fine) some exchange URL has a fragment or credentials, or
   - (URLs fine) the index refuses: two resources for one URL in b2, or bad
     Variants / Variant-Key coverage for a URL with several resources in b1, or
   - (index fine) one of the remaining tests fails; they are listed by AfterIndexErr. *)
Definition AfterIndexErr (b : bundle) : Prop :=
  (b_ver b = BV2 /\ exists u, b_primary b = Some u /\ (fst (abs_url_ok u) = false \/ utf8_valid u = false))
  \/ (b_ver b = BV2 /\ b_manifest b <> None)
  \/ (exists u, b_manifest b = Some u /\ (fst (abs_url_ok u) = false \/ utf8_valid u = false))
  \/ (b_ver b = BV1 /\ exists u, b_primary b = Some u /\ (fst (any_url_ok u) = false \/ utf8_valid u = false))
  \/ (b_ver b = BV1 /\ b_primary b = None).

Theorem write_err_iff (b : bundle) :
  b_write b = Err <->
  BadHeader b \/
  (headers_ok b = true /\
   (BadUrl b \/
    (urls_ok b = true /\
     (IndexErrs b \/ (IndexFine b /\ AfterIndexErr b))))).
Proof.
  rewrite b_write_eq. unfold b_write_nf, AfterIndexErr. rewrite <- headers_ok_false_iff, <- urls_ok_false_iff.
  destruct (headers_ok b); cbn [chk bind];
    [|split; [intros _; left; reflexivity|reflexivity]].
  destruct (urls_ok b); cbn [chk bind];
    [|split; [intros _; right; split; [reflexivity|left; reflexivity]|reflexivity]].
  rewrite <- index_pres_err_iff, <- index_pres_ok_iff.
  destruct (index_pres (b_ver b) (groups_of (ients_of b))) as [ts| | |]; cbn [bind].
  - destruct (b_ver b); destruct (b_primary b) as [pu|]; destruct (b_manifest b) as [mu|];
      try destruct (fst (any_url_ok pu)) eqn:Ap'; try destruct (fst (abs_url_ok pu)) eqn:Ap; try destruct (fst (abs_url_ok mu)) eqn:Am;
      try destruct (utf8_valid pu) eqn:Up; try destruct (utf8_valid mu) eqn:Um; cbn [andb chk bind].
    all: split.
    all: try (intros H; discriminate H).
    all: try (intros [H|[_ [H|[_ [H|[_ [[Hv [u [Hu [Hx|Hx]]]]|[[Hv Hx]|[[u [Hu [Hx|Hx]]]|[[Hv [u [Hu [Hx|Hx]]]]|[Hv Hx]]]]]]]]]]];
              try discriminate; try reflexivity; congruence).
    all: intros _; right; split; [reflexivity|right; split; [reflexivity|right; split; [eauto|]]].
    all: first [ solve [left; split; [reflexivity|]; eexists; split; [reflexivity|auto]]
               | solve [right; left; split; [reflexivity|discriminate]]
               | solve [right; right; left; eexists; split; [reflexivity|auto]]
               | solve [right; right; right; left; split; [reflexivity|]; eexists; split; [reflexivity|auto]]
               | solve [right; right; right; right; split; reflexivity] ].
  - split; [intros _; right; split; [reflexivity|right; split; [reflexivity|left; reflexivity]]|reflexivity].
  - split; [discriminate|]. intros [H|[_ [H|[_ [H|[[ts H] _]]]]]]; discriminate.
  - split; [discriminate|]. intros [H|[_ [H|[_ [H|[[ts H] _]]]]]]; discriminate.
Qed.
