(* C19, third fault mode: the failing Write takes all its bytes and still reports
   an error.  For ANY chunking of the output and any fault position k. *)
From Coq Require Import Lia ZifyN ZifyNat ZifyBool.
From WP Require Import Base.Prelude Proofs.BaseLemmas Model.Bundle Proofs.WriterFault.
Open Scope N_scope.

Lemma run_writes_full_inv : forall cs a b m cnt d n ok,
  run_writes_full cs {| d_acc := a; d_budget := Some b; d_mode := m |} cnt = (d, n, ok) ->
  exists p rest,
    List.concat cs = p ++ rest /\ d_acc d = a ++ p /\ n = cnt + lenN p /\
    (b < lenN (List.concat cs) -> ok = false /\ b < lenN p) /\
    (lenN (List.concat cs) <= b -> ok = true /\ rest = []).
Proof.
  induction cs as [|c cs IH]; intros a b m cnt d n ok H.
  - cbn in H. inversion H; subst. exists [], []. cbn [List.concat lenN app d_acc].
    rewrite app_nil_r. split; [reflexivity|]. split; [reflexivity|]. split; [lia|].
    split; [intros Hx; lia|]. intros _. split; reflexivity.
  - cbn [run_writes_full dwrite_full d_budget d_acc d_mode] in H. cbn [List.concat].
    destruct (lenN c <=? b) eqn:E.
    + apply IH in H. destruct H as [p [rest [Hcat [Hacc [Hn [Hf Hs]]]]]].
      exists (c ++ p), rest. rewrite !lenN_app.
      split. { rewrite Hcat. rewrite app_assoc. reflexivity. }
      split. { rewrite Hacc. rewrite app_assoc. reflexivity. }
      split; [lia|].
      split; intros Hx.
      * destruct Hf as [Hok Hb]; [lia|]. split; [exact Hok|lia].
      * apply Hs. lia.
    + inversion H; subst d n ok. exists c, (List.concat cs). cbn [d_acc]. rewrite !lenN_app.
      split; [reflexivity|]. split; [reflexivity|]. split; [lia|].
      split; intros Hx; [split; [reflexivity|lia] | lia].
Qed.

Lemma run_writes_full_fault (cs : list bytes) (k : N) (m : fmode) (d : dest) (n : N) (ok : bool) :
  run_writes_full cs (dest0 k m) 0 = (d, n, ok) ->
  let out := List.concat cs in
  (exists rest, out = d_acc d ++ rest)                       (* what arrived is a prefix of the fault-free output *)
  /\ n = lenN (d_acc d)                                      (* the count equals what the destination reported *)
  /\ (k < lenN out -> ok = false /\ k < lenN (d_acc d))      (* the error surfaces although every count was full *)
  /\ (lenN out <= k -> ok = true /\ d_acc d = out).
Proof.
  intros H out. apply run_writes_full_inv in H.
  destruct H as [p [rest [Hcat [Hacc [Hn [Hf Hs]]]]]]. cbn in Hacc.
  rewrite Hacc. split. { exists rest. exact Hcat. }
  split; [lia|]. split; [exact Hf|].
  intros Hx. destruct (Hs Hx) as [Hok Hr]. split; [exact Hok|].
  unfold out. rewrite Hcat, Hr, app_nil_r. reflexivity.
Qed.

Example ex_full : run_writes_full [[1; 2]; []; [3; 4; 5]; [6]] (dest0 4 ErrOnly) 0
  = ({| d_acc := [1; 2; 3; 4; 5]; d_budget := Some 0; d_mode := ErrOnly |}, 5, false).
Proof. reflexivity. Qed.
