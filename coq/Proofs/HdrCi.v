(* Proofs/HdrCi.v - the verifier's case-insensitive headerValue
   (Model/Http.v hdr_values_ci / hdr_value_ci): on a map whose names are distinct
   up to letter case (the only maps that can be signed or written) it is the
   joined value of the one entry with that name, or empty. *)
From Coq Require Import Lia Permutation.
From WP Require Import Base.Prelude Model.Http Proofs.BaseLemmas.
Open Scope N_scope.

Definition lname (nv : bytes * list bytes) : bytes := lower (fst nv).

Lemma filter_key_none {A} (f : A -> bytes) (l : list A) (k : bytes) :
  ~ In k (map f l) -> filter (fun y => bytes_eqb (f y) k) l = [].
Proof.
  induction l as [|y t IH]; intros Hn; [reflexivity|]. cbn [filter map] in *.
  destruct (bytes_eqb (f y) k) eqn:E.
  - apply bytes_eqb_eq in E. exfalso. apply Hn. left. exact E.
  - apply IH. intros Hin. apply Hn. right. exact Hin.
Qed.

Lemma filter_key_unique {A} (f : A -> bytes) (l : list A) (x : A) (k : bytes) :
  NoDup (map f l) -> In x l -> f x = k -> filter (fun y => bytes_eqb (f y) k) l = [x].
Proof.
  induction l as [|y t IH]; intros Hnd Hin E; [destruct Hin|].
  cbn [map] in Hnd. inversion Hnd as [|? ? Hni Hnd']; subst. cbn [filter].
  destruct Hin as [->|Hin].
  - rewrite bytes_eqb_refl. f_equal. apply filter_key_none. exact Hni.
  - destruct (bytes_eqb (f y) (f x)) eqn:Ey; [|apply IH; [exact Hnd'|exact Hin|reflexivity]].
    apply bytes_eqb_eq in Ey. exfalso. apply Hni. rewrite Ey. apply in_map. exact Hin.
Qed.

Lemma bytes_in_dec' (k : bytes) (l : list bytes) : {In k l} + {~ In k l}.
Proof. apply in_dec. apply list_eq_dec. apply N.eq_dec. Qed.

(* no entry with that name: nothing *)
Lemma hdr_values_ci_none (h : headers) (k : bytes) :
  ~ In (lower k) (map lname h) -> hdr_values_ci h k = [].
Proof.
  intros Hn. unfold hdr_values_ci.
  change (filter (fun kv => bytes_eqb (lower (fst kv)) (lower k)) h)
    with (filter (fun kv => bytes_eqb (lname kv) (lower k)) h).
  rewrite (filter_key_none lname h (lower k) Hn). reflexivity.
Qed.

(* names distinct up to case: the values of the one entry, whatever its spelling *)
Lemma hdr_values_ci_unique (h : headers) (k n : bytes) (vs : list bytes) :
  NoDup (map lname h) -> In (n, vs) h -> lower n = lower k -> hdr_values_ci h k = vs.
Proof.
  intros Hnd Hin E. unfold hdr_values_ci.
  change (filter (fun kv => bytes_eqb (lower (fst kv)) (lower k)) h)
    with (filter (fun kv => bytes_eqb (lname kv) (lower k)) h).
  rewrite (filter_key_unique lname h (n, vs) (lower k) Hnd Hin E).
  cbn [isort insert map snd List.concat]. apply app_nil_r.
Qed.

Lemma hdr_value_ci_none (h : headers) (k : bytes) :
  ~ In (lower k) (map lname h) -> hdr_value_ci h k = [].
Proof. intros Hn. unfold hdr_value_ci. rewrite (hdr_values_ci_none h k Hn). reflexivity. Qed.

Lemma hdr_value_ci_unique (h : headers) (k n : bytes) (vs : list bytes) :
  NoDup (map lname h) -> In (n, vs) h -> lower n = lower k -> hdr_value_ci h k = join_comma vs.
Proof. intros Hnd Hin E. unfold hdr_value_ci. rewrite (hdr_values_ci_unique h k n vs Hnd Hin E). reflexivity. Qed.

(* a non-empty value is the (lower-cased name, joined value) pair that is signed *)
Lemma hdr_value_ci_in (h : headers) (k : bytes) :
  NoDup (map lname h) -> hdr_value_ci h k <> [] ->
  In (lower k, hdr_value_ci h k) (map (fun nv => (lower (fst nv), join_comma (snd nv))) h).
Proof.
  intros Hnd Hne. destruct (bytes_in_dec' (lower k) (map lname h)) as [Hin|Hni].
  - apply in_map_iff in Hin. destruct Hin as [[n vs] [E Hin]]. unfold lname in E. cbn [fst] in E.
    rewrite (hdr_value_ci_unique h k n vs Hnd Hin E). apply in_map_iff.
    exists (n, vs). cbn [fst snd]. rewrite E. split; [reflexivity|exact Hin].
  - contradiction Hne. apply hdr_value_ci_none. exact Hni.
Qed.

(* the lookup depends on the name up to letter case only *)
Lemma hdr_values_ci_lower (h : headers) (k k' : bytes) :
  lower k = lower k' -> hdr_values_ci h k = hdr_values_ci h k'.
Proof. intros E. unfold hdr_values_ci. rewrite E. reflexivity. Qed.
