(* Proofs/SxgReadDefs.v - definitions used by the statements of C02 (write / read
   half): the decidable domain [readable] and the exchange a reader returns,
   [canon_exchange].  Definitions only. *)
From WP Require Import Base.Prelude.
From WP Require Import Model.Cbor Model.Http Model.Sxg.
From WP Require Import Spec.Sxg.
Open Scope N_scope.

(* The domain of the write / read round trip: what is left to assume once
   Write has succeeded.  (Write itself now refuses a fallback URL that is not
   https and, for b2, a request header named ":url"; a header named like a pseudo
   key of its own map - ":method", ":url" (b1), ":status" - or two names equal up
   to letter case make the CBOR map encoder fail.)

   - header names are ASCII: a name that is not valid UTF-8 is refused by the
     reader (strings.ToLower changes it), a valid non-ASCII one depends on
     strings.ToLower beyond the model.  Nothing else is asked of names: they need
     not be tokens, nor non-empty.
   - the status is a Go int (model-domain fact: the model's Z is wider).
   - the URL model decides the fallback URL (snd (validate_fallback u) = false)
     and the exchange is not already tainted: model-domain facts, "undecided"
     has no counterpart in Go.
   - b3 stores neither method nor request headers: the reader returns GET and
     none (see b3_request_part_dropped for what comes back otherwise). *)
Definition name_ok (n : bytes) : bool := is_ascii n.
Definition headers_ok (h : headers) : bool := forallb (fun nv => name_ok (fst nv)) h.

Definition int64_b (z : Z) : bool :=
  ((-9223372036854775808 <=? z) && (z <? 9223372036854775808))%Z.

Definition readable (e : exchange) : bool :=
  negb (write_taint e)                (* the URL model decides the fallback URL *)
  && headers_ok (e_resph e)
  && int64_b (e_status e)             (* ResponseStatus is a Go int *)
  && negb (e_taint e)
  && match e_ver e with
     | V1b3 => bytes_eqb (e_method e) (s2b "GET")      (* b3 stores neither method ... *)
               && match e_reqh e with [] => true | _ => false end   (* ... nor request headers *)
     | _ => headers_ok (e_reqh e)
     end.

(* a b3 exchange as the file format sees it *)
Definition b3_norm (e : exchange) : exchange :=
  {| e_ver := e_ver e; e_uri := e_uri e; e_method := s2b "GET"; e_reqh := [];
     e_status := e_status e; e_resph := e_resph e; e_sig := e_sig e; e_payload := e_payload e;
     e_taint := e_taint e |}.

(* what http.Header.Add builds when the reader walks a map sorted by encoded key:
   canonical MIME key, one comma-joined value, in the order of the sorted map *)
Definition lt_name (a b : bytes * list bytes) : bool :=
  bytes_ltb (enc_bytes (lower (fst a))) (enc_bytes (lower (fst b))).
Definition canon_field (nv : bytes * list bytes) : bytes * list bytes :=
  (canonical_key (lower (fst nv)), [join_comma (snd nv)]).
Definition canon_headers (h : headers) : headers := map canon_field (isort lt_name h).

Definition canon_exchange (e : exchange) : exchange :=
  {| e_ver := e_ver e; e_uri := e_uri e; e_method := e_method e;
     e_reqh := canon_headers (e_reqh e);
     e_status := e_status e;
     e_resph := canon_headers (e_resph e);
     e_sig := e_sig e; e_payload := e_payload e; e_taint := e_taint e |}.
