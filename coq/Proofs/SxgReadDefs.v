(* Proofs/SxgReadDefs.v - definitions used by the statements of C02 (write / read
   half): the decidable domain [readable] and the exchange a reader returns,
   [canon_exchange].  Definitions only. *)
From WP Require Import Base.Prelude.
From WP Require Import Model.Cbor Model.Http Model.Sxg.
From WP Require Import Spec.Sxg.
Open Scope N_scope.

(* header names are RFC 7230 tokens (so ASCII, and never ":method", ":url",
   ":status"): what a Go http.Header holding wire names satisfies.  That the
   names of one map are pairwise distinct once lower-cased is NOT assumed: Write
   refuses such a map (duplicate CBOR key), see write_read. *)
Definition name_ok (n : bytes) : bool := forallb is_tchar n.
Definition headers_ok (h : headers) : bool := forallb (fun nv => name_ok (fst nv)) h.

Definition int64_b (z : Z) : bool :=
  ((-9223372036854775808 <=? z) && (z <? 9223372036854775808))%Z.

Definition url_accepted (u : bytes) : bool :=
  match validate_fallback u with (true, false) => true | _ => false end.

Definition readable (e : exchange) : bool :=
  url_accepted (e_uri e)              (* url.Parse accepts it, scheme https; decided by the URL model *)
  && headers_ok (e_resph e)
  && int64_b (e_status e)             (* ResponseStatus is a Go int *)
  && negb (e_taint e)
  && match e_ver e with
     | V1b3 => bytes_eqb (e_method e) (s2b "GET")      (* b3 stores neither method ... *)
               && match e_reqh e with [] => true | _ => false end   (* ... nor request headers *)
     | _ => headers_ok (e_reqh e)
     end.

(* what http.Header.Add builds when the reader walks a map sorted by encoded key:
   canonical MIME key, one comma-joined value, in the order of the sorted map *)
Definition lt_name (a b : bytes * list bytes) : bool :=
  bytes_ltb (enc_bytes (lower (fst a))) (enc_bytes (lower (fst b))).
Definition canon_field (nv : bytes * list bytes) : bytes * list bytes :=
  (canonical_key (lower (fst nv)), [join_comma (snd nv)]).
Definition canon_headers (h : headers) : headers := map canon_field (isort lt_name h).

Definition canon_exchange (e : exchange) : exchange :=
  {| e_ver := e_ver e; e_uri := e_uri e; e_method := e_method e;
     e_reqh := canon_headers (e_reqh e);
     e_status := e_status e;
     e_resph := canon_headers (e_resph e);
     e_sig := e_sig e; e_payload := e_payload e; e_taint := e_taint e |}.
